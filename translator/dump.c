/* T1 (dynamic part): linked against the *current* build of libksi; prints as JSON the
 * tables that the library itself interprets at run time.  Sections are selected by argv. */
#include <stdio.h>
#include <string.h>
#include <stdlib.h>
#include <ksi/ksi.h>
#include <ksi/hash.h>
#include <ksi/policy.h>

static void dump_hashalgs(void) {
	int id, first = 1;
	printf("{\"hashalgs\":[");
	for (id = 0; id < 256; id++) {
		const char *name = KSI_getHashAlgorithmName((KSI_HashAlgorithm)id);
		unsigned len = KSI_getHashLength((KSI_HashAlgorithm)id);
		if (name == NULL && len == 0) continue;
		printf("%s{\"id\":%d,\"name\":\"%s\",\"len\":%u,\"block\":%u,\"supported\":%d,\"trusted\":%d,\"deprecatedFrom\":%lld,\"obsoleteFrom\":%lld}",
			first ? "" : ",", id, name ? name : "", len, KSI_HashAlgorithm_getBlockSize((KSI_HashAlgorithm)id),
			KSI_isHashAlgorithmSupported((KSI_HashAlgorithm)id) ? 1 : 0, KSI_isHashAlgorithmTrusted((KSI_HashAlgorithm)id) ? 1 : 0,
			(long long)KSI_HashAlgorithm_getDeprecatedFrom((KSI_HashAlgorithm)id), (long long)KSI_HashAlgorithm_getObsoleteFrom((KSI_HashAlgorithm)id));
		first = 0;
	}
	printf("]}\n");
}

#include "../harness/tmplinfo.h"
static void dump_templates(void) {
	int k; size_t i;
	printf("{\"templates\":[");
	for (k = 0; ti_templates[k].name != NULL; k++) {
		const KSI_TlvTemplate *t = ti_templates[k].t;
		size_t n = ti_len(t);
		printf("%s{\"name\":\"%s\",\"entries\":[", k ? "," : "", ti_templates[k].name);
		for (i = 0; i < n; i++) {
			const char *sub = t[i].subTemplate != NULL ? ti_template_name(t[i].subTemplate) : "";
			printf("%s{\"tag\":%u,\"flags\":%d,\"type\":%d,\"multiple\":%d,\"list\":%d,\"kind\":\"%s\",\"getter\":%zu,\"gid\":%zu,\"sub\":\"%s\",\"hasGet\":%d,\"hasSet\":%d}",
				i ? "," : "", t[i].tag, t[i].flags, t[i].type, t[i].multiple, t[i].listAppend != NULL,
				ti_kind_name[ti_classify(&t[i])], ti_getter_class(t, i), ti_gid(t[i].getValue), sub == NULL ? "?" : sub,
				t[i].getValue != NULL, t[i].setValue != NULL);
		}
		printf("]}");
	}
	printf("]}\n");
}

#ifdef DUMP_EXTRA
void dump_extra(const char *what);
#endif

int main(int argc, char **argv) {
	int i;
	for (i = 1; i < argc; i++) {
		if (!strcmp(argv[i], "hashalgs")) dump_hashalgs();
		else if (!strcmp(argv[i], "templates")) dump_templates();
#ifdef DUMP_EXTRA
		else dump_extra(argv[i]);
#endif
	}
	return 0;
}
