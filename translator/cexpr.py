"""T2: translate tiny loop-free C predicate functions (single `return <expr>;`, unsigned 64-bit
parameter, non-negative int constants) into Lean.  Anything outside the subset is refused
(TranslatorError = broken tie), never approximated."""
import re

from tables import TranslatorError, preprocess


TOK = re.compile(r"\s*(?:(\d+|0[xX][0-9a-fA-F]+)[uUlL]*|([A-Za-z_]\w*)|(\|\||&&|<=|>=|==|!=|<<|>>|[-+*/%<>!()?:&|^~,]))")


def tokenize(s):
    out, i = [], 0
    s = s.strip()
    while i < len(s):
        m = TOK.match(s, i)
        if not m:
            raise TranslatorError("cannot tokenize C expression at: %r" % s[i:i + 20])
        if m.group(1) is not None:
            out.append(("num", int(m.group(1), 0)))
        elif m.group(2) is not None:
            out.append(("id", m.group(2)))
        else:
            out.append(("op", m.group(3)))
        i = m.end()
    return out


class P:
    """precedence-climbing parser producing (kind, lean) pairs; kind in {'nat','bool'}"""
    def __init__(self, toks, params, calls):
        self.t, self.i, self.params, self.calls = toks, 0, params, calls

    def peek(self):
        return self.t[self.i] if self.i < len(self.t) else ("eof", None)

    def eat(self, op=None):
        tk = self.peek()
        if op is not None and tk != ("op", op):
            raise TranslatorError("expected %r, got %r" % (op, tk))
        self.i += 1
        return tk

    def as_bool(self, e):
        k, l = e
        return l if k == "bool" else "decide (%s ≠ 0)" % l

    def as_nat(self, e):
        k, l = e
        return l if k == "nat" else "(if %s then 1 else 0)" % l

    def expr(self):
        return self.lor()

    def lor(self):
        e = self.land()
        while self.peek() == ("op", "||"):
            self.eat()
            r = self.land()
            e = ("bool", "(%s || %s)" % (self.as_bool(e), self.as_bool(r)))
        return e

    def land(self):
        e = self.eq()
        while self.peek() == ("op", "&&"):
            self.eat()
            r = self.eq()
            e = ("bool", "(%s && %s)" % (self.as_bool(e), self.as_bool(r)))
        return e

    def eq(self):
        e = self.rel()
        while self.peek() in (("op", "=="), ("op", "!=")):
            op = self.eat()[1]
            r = self.rel()
            e = ("bool", "decide (%s %s %s)" % (self.as_nat(e), "=" if op == "==" else "≠", self.as_nat(r)))
        return e

    def rel(self):
        e = self.add()
        while self.peek() in (("op", "<"), ("op", "<="), ("op", ">"), ("op", ">=")):
            op = self.eat()[1]
            r = self.add()
            lop = {"<": "<", "<=": "≤", ">": ">", ">=": "≥"}[op]
            e = ("bool", "decide (%s %s %s)" % (self.as_nat(e), lop, self.as_nat(r)))
        return e

    def add(self):
        e = self.mul()
        while self.peek() == ("op", "+"):
            self.eat()
            r = self.mul()
            e = ("nat", "(%s + %s)" % (self.as_nat(e), self.as_nat(r)))
        if self.peek() == ("op", "-"):
            raise TranslatorError("subtraction is outside the translated subset")
        return e

    def mul(self):
        e = self.unary()
        while self.peek() == ("op", "*"):
            self.eat()
            r = self.unary()
            e = ("nat", "(%s * %s)" % (self.as_nat(e), self.as_nat(r)))
        if self.peek() in (("op", "/"), ("op", "%")):
            raise TranslatorError("division is outside the translated subset")
        return e

    def unary(self):
        tk = self.peek()
        if tk == ("op", "!"):
            self.eat()
            e = self.unary()
            return ("bool", "(!%s)" % self.as_bool(e))
        if tk == ("op", "("):
            # cast `(Type)` or parenthesised expression
            if self.t[self.i + 1][0] == "id" and self.t[self.i + 1][1] not in self.params and \
                    self.t[self.i + 2] == ("op", ")") and self.t[self.i + 1][1] not in self.calls:
                ty = self.t[self.i + 1][1]
                if ty not in ("KSI_HashAlgorithm", "bool", "int"):
                    raise TranslatorError("cast to %s is outside the translated subset" % ty)
                self.i += 3
                return self.unary()
            self.eat("(")
            e = self.expr()
            self.eat(")")
            return e
        if tk[0] == "num":
            self.eat()
            if tk[1] >= 2 ** 31:
                raise TranslatorError("constant %d does not fit int" % tk[1])
            return ("nat", str(tk[1]))
        if tk[0] == "id":
            self.eat()
            name = tk[1]
            if name in self.params:
                return ("nat", name)
            if name in ("true", "false"):
                return ("bool", name)
            if name in self.calls and self.peek() == ("op", "("):
                self.eat("(")
                a = self.expr()
                self.eat(")")
                return (self.calls[name][0], "(%s %s)" % (self.calls[name][1], self.as_nat(a)))
            raise TranslatorError("identifier %s is outside the translated subset" % name)
        raise TranslatorError("unexpected token %r" % (tk,))


def translate_predicate(pp_text, fname, lean_name, calls=None):
    """static bool f(KSI_uint64_t val) { return <expr>; }  ->  def lean_name (val : Nat) : Bool := …"""
    calls = calls or {}
    m = re.search(r"static\s+(?:_Bool|bool|int)\s+%s\s*\(\s*(?:KSI_uint64_t|uint64_t|unsigned long long|unsigned long|__uint64_t)\s+(\w+)\s*\)\s*\{(.*?)\n\}" % re.escape(fname),
                  pp_text, re.S)
    if not m:
        raise TranslatorError("%s: not found with the expected signature (bool f(KSI_uint64_t))" % fname)
    param, body = m.group(1), m.group(2).strip()
    mb = re.fullmatch(r"return\s*(.*?);", body, re.S)
    if not mb:
        raise TranslatorError("%s: body is not a single return statement: %r" % (fname, body[:80]))
    p = P(tokenize(mb.group(1)), {param}, calls)
    e = p.expr()
    if p.peek()[0] != "eof":
        raise TranslatorError("%s: trailing tokens" % fname)
    lean = p.as_bool(e).replace(param, "val") if param != "val" else p.as_bool(e)
    return "/-- `%s` of net_ha.c: `%s` -/\ndef %s (val : Nat) : Bool := %s\n" % (
        fname, re.sub(r"\s+", " ", mb.group(1)), lean_name, lean)
