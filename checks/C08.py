"""C08 — extending needs a matching calendar chain and preserves the signature."""
import os
import sys

sys.path.insert(0, os.path.join(os.path.dirname(os.path.abspath(__file__)), "..", "lib"))
sys.path.insert(0, os.path.join(os.path.dirname(os.path.abspath(__file__)), "..", "translator"))
from ksiverif.runner import Config, Engine  # noqa: E402
from ksiverif import core, sig as S, pdu, pki, pubfile as PF  # noqa: E402
from ksiverif.gen import tlv, be, hx  # noqa: E402
import tables  # noqa: E402

KEY = b"anon"


def aggregation_root(s):
    level, cur = 0, None
    for c in s.chains:
        level, cur = c.output(level)
    return cur


def new_chain(rng, s, t, p, root):
    """what an honest extender answers for aggregation time t and publication time p: directions fixed by (t, p), the right
    links those of the signature's present calendar chain (they lie in the past), left links new"""
    dirs = S.cal_dirs(t, p)
    old_rights = [sib for d, sib in (s.cal.links if s.cal else []) if not d]
    links, k = [], 0
    for d in dirs:
        if d:
            a = rng.choice([1, 1, 1, 4])
            links.append((True, bytes([a]) + rng.randbytes(S.DLEN[a])))
        else:
            links.append((False, old_rights[k] if k < len(old_rights) else bytes([1]) + rng.randbytes(32)))
            k += 1
    return S.Cal(p, t, root, links)


def reply(ver, rid, status, cal, alg=1, key=KEY, with_status=True, extra=b""):
    body = tlv(0x01, be(rid)) + (tlv(0x04, be(status)) if with_status else b"") + (tlv(0x05, b"no\x00") if status else b"")
    body += (cal.enc() if cal is not None else b"") + extra
    if ver == 2:
        return pdu.pdu_v2(0x321, tlv(0x02, body), alg, key)
    return pdu.pdu_v1(0x300, tlv(0x302, body), alg, key)


def pubrec(t, imprint):
    return tlv(0x803, tlv(0x10, tlv(0x02, be(t)) + tlv(0x04, imprint)) + tlv(0x09, b"ref\x00"))


def line(s, to, pub, ver, rep, label, key=KEY):
    return "x %s %s %s %d %s %s %s" % (hx(s.enc()), "-" if to is None else to, "-" if pub is None else hx(pub), ver, hx(key), hx(rep), label)


def gen(rng, tier):
    big = tier == "thorough"
    for i in range(24 if not big else 400):
        anchor = rng.choice(["pub", "auth", None, "nocal"])
        s = S.build(rng, with_cal=anchor != "nocal", anchor=None if anchor == "nocal" else anchor, with_rfc=rng.random() < 0.1)
        s.cal_first = rng.random() < 0.25         # the calendar chain may be the first element of the signature
        t = s.chains[0].time
        root = aggregation_root(s)
        pa = s.cal.pub_time if s.cal else t
        ver = rng.choice([1, 2, 2])
        p = pa + rng.choice([0, 1, 7, 86400, 86400 * 400])
        to = rng.choice([None, p, p])
        good = new_chain(rng, s, t, p, root)
        R = lambda cal=good, **kw: reply(ver, kw.pop("rid", 1), kw.pop("status", 0), cal, **kw)   # noqa: E731
        yield line(s, to, None, ver, R(), "ok")
        if rng.random() < 0.5:
            yield line(s, to, None, ver, R(extra=tlv(0x1e0, b"\x01\x02", nc=1)), "ok")        # unknown non-critical element in the response
        # with a publication record: the record ends up in the result
        yield line(s, p, pubrec(p, good.root()), ver, R(), "ok")
        yield line(s, p, pubrec(p, S.H(1, b"other root")), ver, R(), "publication-hash-is-not-the-calendar-root")
        yield line(s, p + 1, pubrec(p + 1, good.root()), ver, R(), "publication-time-is-not-the-replied-one")
        # ---- every deviation of the reply ----
        yield line(s, to, None, ver, R(rid=rng.choice([0, 2, 3, (1 << 32) + 1, 1 << 63])), "wrong-request-id")
        st = rng.choice([0x101, 0x102, 0x103, 0x104, 0x105, 0x106, 0x107, 0x200, 0x201, 0x202, 0x300, 0x301, 1, 0x7fffffff])
        yield line(s, to, None, ver, R(status=st), "status-not-zero")
        yield line(s, to, None, ver, R(cal=None, status=st), "status-not-zero")
        yield line(s, to, None, ver, R(status=rng.choice([1 << 32, 2 << 32, 1 << 40, 1 << 63, 0x101 << 32])), "status-not-zero")   # zero in its low 32 bits only
        yield line(s, to, None, ver, R(with_status=False), "status-absent")
        yield line(s, to, None, ver, R(with_status=False, rid=7), "status-absent")
        yield line(s, to, None, ver, R(cal=None), "no-calendar-chain")
        yield line(s, to, None, ver, R(cal=None, with_status=False), "status-absent")
        other_t = t + rng.choice([1, -1, 86400])
        if other_t <= p:
            yield line(s, to, None, ver, R(cal=new_chain(rng, s, other_t, p, root)), "other-aggregation-time")
        c = S.Cal(p, None, root, list(good.links)); yield line(s, to, None, ver, R(cal=c), "aggregation-time-absent")
        if p == t:
            c = S.Cal(t, None, root, []); yield line(s, to, None, ver, R(cal=c), "aggregation-time-absent")
        if to is not None:
            yield line(s, to, None, ver, R(cal=new_chain(rng, s, t, p + rng.choice([1, 2, 3600]), root)), "other-publication-time")
            if p - 1 >= t:
                yield line(s, to, None, ver, R(cal=new_chain(rng, s, t, p - 1, root)), "other-publication-time")
        if good.links:
            k = rng.randrange(len(good.links)); ls = list(good.links); ls[k] = (not ls[k][0], ls[k][1])
            yield line(s, to, None, ver, R(cal=S.Cal(p, t, root, ls)), "shape-does-not-give-the-aggregation-time")
            yield line(s, to, None, ver, R(cal=S.Cal(p, t, root, good.links[1:])), "shape-does-not-give-the-aggregation-time")
            yield line(s, to, None, ver, R(cal=S.Cal(p, t, root, good.links + [(True, bytes([1]) + rng.randbytes(32))])), "shape-does-not-give-the-aggregation-time")
        h = bytearray(root); h[rng.randrange(1, len(h))] ^= 1 << rng.randrange(8)
        yield line(s, to, None, ver, R(cal=S.Cal(p, t, bytes(h), list(good.links))), "other-input-hash")
        rights = [k for k, (d, _) in enumerate(good.links) if not d]
        if s.cal and rights:
            k = rng.choice(rights); ls = list(good.links); sib = bytearray(ls[k][1]); sib[-1] ^= 1; ls[k] = (False, bytes(sib))
            yield line(s, to, None, ver, R(cal=S.Cal(p, t, root, ls)), "altered-right-link")
        # authentication
        r0 = bytearray(R()); r0[rng.randrange(len(r0) - 33, len(r0))] ^= 1
        yield line(s, to, None, ver, bytes(r0), "mac-does-not-verify")
        yield line(s, to, None, ver, pdu.drop_mac(R()), "mac-absent")                   # well-formed and honest in every other respect
        r0 = bytearray(R()); pos = r0.find(root[1:9]);
        if pos > 0:
            r0[pos] ^= 0x10
            yield line(s, to, None, ver, bytes(r0), "mac-does-not-verify")
        yield line(s, to, None, ver, R(key=b"another"), "mac-does-not-verify")
        yield line(s, to, None, ver, reply(3 - ver, 1, 0, good), "other-pdu-version")
        yield line(s, to, None, ver, pdu.err_pdu(0x03, 0x101) if ver == 2 else tlv(0x300, pdu.err_pdu(0x303, 0x101)), "error-pdu")
        if ver == 2:
            # an error payload beside a well-formed status-0 response, rightly MACed: the request has failed
            body = tlv(0x01, be(1)) + tlv(0x04, be(0)) + good.enc()
            for payloads in (pdu.err_pdu(0x03, 0x101) + tlv(0x02, body), tlv(0x02, body) + pdu.err_pdu(0x03, 0x101)):
                yield line(s, to, None, ver, pdu.pdu_v2(0x321, payloads, 1, KEY), "error-payload-beside-the-response")
        yield line(s, to, None, ver, R()[:-3], "malformed")
        yield line(s, to, None, ver, b"", "malformed")
        if t > 1:
            yield line(s, t - rng.choice([1, 100]), None, ver, R(), "target-before-the-aggregation-time")
    # ---- a signature WITHOUT a calendar chain extended to the calendar head (no publication time in the request): nothing but the
    #      reply's own consistency with the request stands between a chain for another second and the result ----
    for i in range(10 if not big else 100):
        s = S.build(rng, with_cal=False, anchor=None, with_rfc=False)
        t = s.chains[0].time
        root = aggregation_root(s)
        ver = rng.choice([1, 2])
        p = t + rng.choice([1, 7, 86400, 86400 * 400])
        yield line(s, None, None, ver, reply(ver, 1, 0, new_chain(rng, s, t, p, root)), "ok")
        for dt in (1, -1, -1000, 86400):
            if 0 < t + dt <= p:
                yield line(s, None, None, ver, reply(ver, 1, 0, new_chain(rng, s, t + dt, p, root)), "other-aggregation-time")
        # KSI_ExtendResp_verifyWithRequest itself (later stages of the extension may catch what it lets through)
        vwr = lambda rep, pt, label: "vwr %d %s %s %d %s %s" % (ver, hx(KEY), hx(rep), t, "-" if pt is None else pt, label)   # noqa: E731
        good = new_chain(rng, s, t, p, root)
        for pt in (None, p):
            yield vwr(reply(ver, 1, 0, good), pt, "ok")
            yield vwr(reply(ver, 2, 0, good), pt, "wrong-request-id")
            yield vwr(reply(ver, 1, 0x101, None), pt, "status-not-zero")
            yield vwr(reply(ver, 1, 0, None), pt, "no-calendar-chain")
            for dt in (1, -1, -1000):
                if 0 < t + dt <= p:
                    yield vwr(reply(ver, 1, 0, new_chain(rng, s, t + dt, p, root)), pt, "other-aggregation-time")
        yield vwr(reply(ver, 1, 0, good), p + 1, "other-publication-time")
        if p - 1 >= t:
            yield vwr(reply(ver, 1, 0, new_chain(rng, s, t, p - 1, root)), p, "other-publication-time")
    # ---- KSI_extendSignature: target = nearest publication of a PKI-verified publications file ----
    EMAIL = pki.OIDS["emailAddress"]
    good_cons = "%s:%s" % (EMAIL, pki.SUBJECT["emailAddress"].encode().hex())
    bad_cons = "%s:%s" % (EMAIL, b"someone@else".hex())
    for i in range(6 if not big else 60):
        s = S.build(rng, with_cal=rng.random() < 0.7, anchor=rng.choice(["pub", "auth", "none"]))
        t = s.chains[0].time
        root = aggregation_root(s)
        pa = s.cal.pub_time if s.cal else t
        p = pa + rng.choice([0, 1, 86400])
        ver = rng.choice([1, 2])
        good = new_chain(rng, s, t, p, root)
        pubs = [(t - 100000, S.H(1, b"old")), (p, good.root()), (p + 86400, S.H(1, b"later"))]
        rec = tlv(0x803, tlv(0x10, tlv(0x02, be(p)) + tlv(0x04, good.root())))
        def signed_file(pubs):
            body = PF.MAGIC + PF.header() + b"".join(PF.pub(tt, im) for tt, im in pubs)
            return body + PF.sigrec(pki.sign(body))
        pf = signed_file(pubs)
        XS = lambda rep, pfb, anchors, cons, trusted, recb, to, label: "xs %s %d %s %s %s %s %s trusted=%d %s %s %s" % (   # noqa: E731
            hx(s.enc()), ver, hx(KEY), hx(rep), hx(pfb), anchors, cons, trusted, "-" if recb is None else hx(recb), "-" if to is None else to, label)
        yield XS(reply(ver, 1, 0, good), pf, "ca", good_cons, 1, rec, p, "ok")
        yield XS(reply(ver, 1, 0, good), pf, "other", good_cons, 0, rec, p, "publications-file-not-trusted")
        yield XS(reply(ver, 1, 0, good), pf, "ca", bad_cons, 0, rec, p, "publications-file-not-trusted")
        yield XS(reply(ver, 1, 0, good), pf, "ca", "-", 0, rec, p, "publications-file-not-trusted")
        tampered = bytearray(pf); tampered[30] ^= 1
        yield XS(reply(ver, 1, 0, good), bytes(tampered), "ca", good_cons, 0, rec, p, "publications-file-not-trusted")
        yield XS(reply(ver, 1, 0, good), signed_file([(t - 100000, S.H(1, b"old"))]), "ca", good_cons, 1, None, None, "no-suitable-publication")
        yield XS(reply(ver, 2, 0, good), pf, "ca", good_cons, 1, rec, p, "wrong-request-id")
        yield XS(reply(ver, 1, 0, new_chain(rng, s, t, p + 86400, root)), pf, "ca", good_cons, 1, rec, p, "other-publication-time")
        yield XS(reply(ver, 1, 0, good), signed_file([(p, S.H(1, b"not the root"))]), "ca", good_cons, 1,
                 tlv(0x803, tlv(0x10, tlv(0x02, be(p)) + tlv(0x04, S.H(1, b"not the root")))), p, "publication-hash-is-not-the-calendar-root")
    # ---- the compatibility check on its own (public API): right links must agree one by one ----
    for _ in range(20 if not big else 300):
        t = rng.randrange(1400000000, 1500000000)
        pa, pb = t + rng.randrange(0, 1000), t + rng.randrange(0, 100000)
        root = S.H(1, rng.randbytes(8))
        s = S.Sig(); s.cal = None
        a = new_chain(rng, s, t, pa, root); s.cal = a
        b = new_chain(rng, s, t, pb, root)
        yield "compat %s %s agree" % (hx(a.enc()), hx(b.enc()))
        ra = [k for k, (d, _) in enumerate(a.links) if not d]
        rb = [k for k, (d, _) in enumerate(b.links) if not d]
        if rb:
            k = rng.choice(rb); ls = list(b.links); ls[k] = (True, ls[k][1])                      # the same imprint as a left link
            yield "compat %s %s right-link-turned-left" % (hx(a.enc()), hx(S.Cal(pb, t, root, ls).enc()))
            ls = [l for j, l in enumerate(b.links) if j != rb[-1]]
            yield "compat %s %s right-link-missing" % (hx(a.enc()), hx(S.Cal(pb, t, root, ls).enc()))
            ls = list(b.links) + [(False, bytes([1]) + rng.randbytes(32))]
            yield "compat %s %s extra-right-link" % (hx(a.enc()), hx(S.Cal(pb, t, root, ls).enc()))
            ls = list(b.links); sib = bytearray(ls[rb[0]][1]); sib[1] ^= 1; ls[rb[0]] = (False, bytes(sib))
            yield "compat %s %s right-link-altered" % (hx(a.enc()), hx(S.Cal(pb, t, root, ls).enc()))
        if ra:
            # a's last right link has no right partner in b, but b ends with a left link carrying the same imprint
            ls = [l for j, l in enumerate(b.links) if j not in rb[-1:]] + [(True, a.links[ra[-1]][1])]
            yield "compat %s %s right-link-matched-by-a-left-link" % (hx(a.enc()), hx(S.Cal(pb, t, root, ls).enc()))
        yield "compat %s %s other-input" % (hx(a.enc()), hx(S.Cal(pb, t, S.H(1, b"x"), list(b.links)).enc()))
        yield "compat %s %s other-time" % (hx(a.enc()), hx(S.Cal(pb, t + 1, root, list(b.links)).enc()))


def trivial(cls):
    return cls.endswith(":P")


CONFIG = Config()
CONFIG.pid = "C08"
CONFIG.props_module = "KsiVerif.Props.C08"
CONFIG.required_theorems = ["verifyWithRequest_ok_iff", "compatible_ok_iff", "compose_keeps", "compose_anchors", "compose_calendar",
                             "extend_ok_requires", "unauthenticated_reply_refused", "result_structure"]
CONFIG.translators = [tables.gen_templates, tables.gen_hashalgs, tables.gen_policies]
CONFIG.engines = [Engine("c08", ["exec_c08.c"], "drv_c08", gen, trivial=trivial, env={"VERIF_PKI_DIR": os.path.join(core.VERIF, ".build", "pki")})]
CONFIG.rule = ("op lines from one PRNG (VERIF_SEED). Op vwr: KSI_ExtendResp_verifyWithRequest itself on the authenticated reply for a request with given times (honest, wrong id, status, no chain, other aggregation / publication time; with and without a publication time in the request). hashlib-built signatures without calendar chain (incl. a directed family: no calendar chain, extended to the calendar head, reply for another second) / with one anchored by publication record, "
               "authentication record or nothing (some with an RFC3161 record), extended through the file transport with PDU v1 and v2, by "
               "KSI_Signature_extendTo (target absent / equal / later) and KSI_Signature_extend (with a publication record: right root, other root, other "
               "time). Replies: the honest one (directions from the times, right links those of the old chain, with and without an unknown non-critical "
               "element) and every deviation: request id {0, 2, 3, 2^32+1, 2^63}, 14 non-zero statuses with and without chain, status absent (3 variants), "
               "no chain, other aggregation time, aggregation time absent, other publication time (later, earlier), shape not giving the time (direction "
               "flipped, link dropped, link added), other input hash, altered right link, MAC damaged / payload damaged / other key, other PDU version, "
               "error PDU, truncated, empty; target before the aggregation time. Observed: status, the result's serialization, document hash and signing "
               "time of the result, the source's serialization afterwards. Plus KSI_CalendarHashChain_verifyCompatibilityTo on chain pairs: agreeing, right "
               "link turned left / missing / extra / altered / matched by a trailing left link, other input, other time. Oracle on the implementation's "
               "output alone: only the honest reply extends; the result keeps the aggregation chains and legacy record octet for octet, has exactly one "
               "calendar chain, no authentication record, exactly the supplied publication record; the source is unchanged.")
CONFIG.trusted_base = [
    "Lean 4.33.0 kernel; axioms propext, Classical.choice, Quot.sound only",
    "PDU authentication is C06's model (deliver), the typed parser C10's, internal verification of the result C01's (Consistent)",
    "the transport is a parameter: `reply` is whatever octets arrive; request id 1 is what the file client assigns to a context's first request",
    "translator/tables.py, harness/exec_c08.c, lean/Drv/C08.lean, lib/ksiverif/sig.py, lib/ksiverif/pdu.py"]
CONFIG.assumptions = [
    "KSI_extendSignature is driven (op xs) with a publications file fetched through file:// and PKI-verified against a throw-away CA (.build/pki); the model composes the C18 trust decision (a generator fact checked by the C18 check) with extendTo on the nearest publication",
    "HTTP and TCP transports hand the reply octets to the same KSI_RequestHandle_getExtendResponse; the asynchronous service uses the same "
    "KSI_ExtendResp_verifyWithRequest (C13 drives it)",
    "the new calendar chain is re-serialized from its parsed form: unknown non-critical elements inside the reply's chain do not reach the result"]
CONFIG.design_ref = "DESIGN.md section 4 and 8, C08"
CONFIG.technique = ("Lean 4 proofs (extension succeeds only with an authenticated reply of status 0, the request's id and times, a shape giving the "
                    "aggregation time, the old chain's input hash and right links, and a result that is internally consistent; the result is the source "
                    "with the calendar chain replaced and the anchors removed / replaced) + differential check through the file transport with every "
                    "deviating reply")
CONFIG.level_text = ("Kernel-checked for every hash function, signature, request and reply octets: extendTo returns a signature only if the reply passes "
                     "PDU authentication, carries status 0, the request's id, the requested publication time (if any) and the signature's aggregation time, "
                     "its link directions yield that time, its input hash and right links are those of the signature's previous calendar chain, and the "
                     "composed result parses and is internally consistent (so the chain's input is the aggregation root); the result's elements other than "
                     "calendar chain, publication and authentication record are the source's, in order; exactly one calendar chain; no authentication "
                     "record; the publication record is the supplied one.")
CONFIG.level_note = ("Trusted: Lean kernel + standard axioms; models of C06/C10/C01 and the Extend model's differential tie (~800 extensions quick).")
