"""C13 — async service completes every accepted request exactly once, correctly matched."""
import itertools
import os
import sys

sys.path.insert(0, os.path.join(os.path.dirname(os.path.abspath(__file__)), "..", "lib"))
from ksiverif.runner import Config, Engine  # noqa: E402

STATUS = [0x101, 0x102, 0x104, 0x200, 0x301, 0x999]


def rstep(rng, nadded, STATUS=STATUS):
    r = rng.random()
    k = rng.randrange(max(1, nadded + 1))
    if r < 0.25:
        return "a"
    if r < 0.55:
        return "run"
    if r < 0.72:
        return "srv:ok:%d" % k
    if r < 0.76:
        return "srv:status:%d:%d" % (k, rng.choice(STATUS))
    if r < 0.79:
        return "srv:stale:%d" % k
    if r < 0.81:
        return "srv:unk:%d" % k
    if r < 0.83:
        return "srv:badmac:%d" % k
    if r < 0.85:
        return "srv:errpdu:%d:%d" % (k, rng.choice(STATUS))
    if r < 0.87:
        return "srv:conf:%d" % k
    if r < 0.88:
        return "srv:garbage:%d" % k
    if r < 0.93:
        return "t:%d" % rng.choice([1, 2, 6, 11])
    poll = rng.choice(["IO", "IO", "I", "O", "0", "E", "IOH"])
    recvs = rng.choice(["p", "p", "w", "z", "x", "7.p", "1.w", "p.z", "p.z", "9.z", "p.x"])     # also: data, then the close noticed in the same round
    sends = rng.choice(["-", "-", "w", "x"])
    return "net:%s:%s:%s:%s" % (poll, rng.choice("yyyn"), recvs, sends)


def gen(rng, tier):
    big = tier == "thorough"
    # exhaustive: every schedule over a small alphabet, cache sizes 1..3
    alpha = ["a", "run", "srv:ok:0", "srv:ok:1", "srv:status:0:257", "srv:stale:0", "net:IO:y:z:-", "t:11", "srv:errpdu:0:258", "net:IO:y:p.z:-"]
    maxlen = 5 if not big else 7
    for cache in (1, 2, 3):
        for ln in range(1, maxlen + 1):
            if not big and ln == 5 and cache == 3:
                continue
            for combo in itertools.product(alpha if (big or ln <= 4) else alpha[:6], repeat=ln):
                if combo[0] != "a":           # nothing happens before the first request
                    continue
                if not big and ln >= 4 and rng.random() < 0.7:
                    continue
                yield "async %d 10 10 %s,run,run" % (cache, ",".join(combo))
    # long random schedules, cache sizes 1..64, timeouts incl. 0
    for i in range(1500 if not big else 30000):
        cache = rng.choice([1, 2, 3, 4, 5, 8, 16, 64])
        rcv = rng.choice([0, 1, 5, 10, 10, 10])
        snd = rng.choice([0, 5, 10, 10, 10])
        steps, nadded, cur = [], 0, cache
        for _ in range(rng.randrange(3, 60)):
            s = rstep(rng, nadded)
            if s == "a":
                nadded += 1
            if rng.random() < 0.04:
                # the cache may be enlarged while in use (shrinking is refused)
                new = rng.choice([cur, cur + 1, cur + 2, 2 * cur + 1, max(0, cur - 1)])
                steps.append("g:%d" % new)
                cur = max(cur, new)
            steps.append(s)
        steps += ["run"] * rng.randrange(0, 5)
        yield "async %d %d %d %s" % (cache, rcv, snd, ",".join(steps))
    # growing the cache with 0..c requests outstanding, then filling it up and answering everything
    for cache in (1, 2, 3, 4):
        for fill in range(cache + 1):
            for new in (cache, cache + 1, cache + 5, max(0, cache - 1)):
                eff = max(cache, new)
                steps = ["a"] * fill + ["run", "g:%d" % new] + ["a"] * (eff - fill + 1)
                order = list(range(eff))
                rng.shuffle(order)
                steps += ["run"] + ["srv:ok:%d" % k for k in order] + ["run"] * (eff + 2)
                yield "async %d 10 10 %s" % (cache, ",".join(steps))
    # wrap-around of the slot counter / id generations: many add-reply-run cycles on small caches
    for cache in (1, 2, 3):
        steps = []
        for k in range(12 * cache):
            steps += ["a", "run", "srv:ok:%d" % k, "run"]
        yield "async %d 10 10 %s" % (cache, ",".join(steps))


def gen_conf(rng, tier):
    """histories with configuration requests (judged on the implementation's output alone, see confOracle in Drv/C13.lean):
    ac = one request carrying a hash and a configuration request, cf = a configuration request alone; every history ends with
    every timeout elapsed and enough runs to hand everything back"""
    big = tier == "thorough"
    DRAIN = lambda n: ["net:IO:y:p:-", "t:1000"] + ["run"] * (n + 4)   # noqa: E731
    fixed = [
        ["cf", "run", "srv:conf:0", "run", "run"],
        ["cf", "run"],                                                     # never answered: receive timeout
        ["cf", "run", "srv:conf:0", "srv:conf:0", "run", "run", "run"],    # answered twice before it is collected
        ["cf", "run", "srv:conf:0", "run", "srv:conf:0", "run", "run"],    # answer, collected, then a pushed one
        ["a", "cf", "run", "srv:conf:0", "run", "run", "srv:ok:0", "run"],
        ["ac", "run", "srv:okc:0", "run", "run", "run"],
        ["ac", "run", "srv:cok:0", "run", "run", "run"],
        ["ac", "run", "srv:conf:0", "run", "srv:ok:0", "run", "run"],
        ["a", "ac", "a", "run", "srv:ok:2", "srv:okc:1", "srv:ok:0", "run", "run", "run", "run", "run"],
        ["ac", "run", "srv:okc:0", "run", "run", "ac", "run", "srv:cok:1", "run", "run", "run"],
        ["ac", "run", "srv:okc:0", "run", "run", "cf", "run", "srv:conf:0", "run", "run"],
        ["ac", "run", "srv:status:0:257", "srv:conf:0", "run", "run", "run"],
        ["ac", "run", "srv:okc:0", "srv:conf:0", "run", "run", "run", "run"],
        # the two recorded shapes
        ["cf", "cf", "run", "srv:conf:0", "run", "run", "run"],
        ["ac", "cf", "run", "srv:okc:0", "run", "run", "run"],
        ["ac", "ac", "run", "srv:okc:0", "run", "run", "run", "srv:okc:1", "run", "run", "run"],
        ["ac", "run", "srv:ok:0", "run", "run"],
    ]
    for f in fixed:
        yield "async 16 10 10 %s" % ",".join(f + DRAIN(4))
    for _ in range(60 if not big else 1500):
        steps, nplain, conf_out, answered = [], 0, False, 0
        for _ in range(rng.randrange(2, 25)):
            r = rng.random()
            if r < 0.2:
                steps.append("a"); nplain += 1
            elif r < 0.35 and not conf_out:
                k = rng.choice(["ac", "cf"])
                steps.append(k); conf_out = True
                if k == "ac":
                    nplain += 1
            elif r < 0.6:
                steps.append("run")
            elif r < 0.75 and nplain:
                steps.append("srv:ok:%d" % rng.randrange(nplain))
            elif r < 0.9 and conf_out:
                k = rng.choice(["conf", "okc", "cok"]) if nplain else "conf"
                steps += ["srv:%s:%d" % (k, rng.randrange(max(1, nplain))), "run", "run"]
                conf_out = False
            elif r < 0.93:
                steps.append("srv:conf:0")                # pushed
            elif r < 0.96 and nplain:
                steps.append("srv:status:%d:%d" % (rng.randrange(nplain), rng.choice(STATUS)))
            else:
                steps.append("t:%d" % rng.choice([1, 2, 6]))
        if conf_out:
            # a configuration asked for is answered before the history ends (a request carrying one whose answer never comes is the recorded shape)
            steps += ["srv:conf:0", "run"]
        yield "async 64 10 10 %s" % ",".join(steps + DRAIN(nplain + 2))


# statuses whose meaning differs between the two services, in small sets
EXT_SETS = [[0x101, 0x102, 0x104, 0x200, 0x301], [0x105, 0x106, 0x107, 0x201], [0x104, 0x202, 0x300], [0x999, 0x103, 0x105]]


def gen_ext(rng, tier):
    """the extending service: the same schedules, replies are extension PDUs (a status-0 reply carries a calendar chain for the
    requested aggregation time)"""
    big = tier == "thorough"
    for st in (0x101, 0x102, 0x103, 0x104, 0x105, 0x106, 0x107, 0x200, 0x201, 0x202, 0x300, 0x301, 0x999):
        yield "asyncx 4 10 10 a,a,run,srv:ok:0,run,srv:errpdu:0:%d,run,run,run" % st
        yield "asyncx 4 10 10 a,a,run,srv:status:1:%d,run,run,srv:ok:0,run,run" % st
    for i in range(300 if not big else 6000):
        cache = rng.choice([1, 2, 3, 4, 8, 16])
        rcv = rng.choice([0, 1, 5, 10, 10, 10])
        snd = rng.choice([0, 5, 10, 10, 10])
        sset = rng.choice(EXT_SETS)
        steps, nadded = [], 0
        for _ in range(rng.randrange(3, 50)):
            s = rstep(rng, nadded, sset)
            if s == "a":
                nadded += 1
            if s.startswith("srv:stale"):
                # a reply bearing the NEXT generation of an identifier would sit in the stream before the request that gets that
                # identifier exists; an extension reply is specific to its request (aggregation time), so this cannot be scripted ahead
                s = s.replace("stale", "unk")
            steps.append(s)
        steps += ["run"] * rng.randrange(0, 5)
        yield "asyncx %d %d %d %s" % (cache, rcv, snd, ",".join(steps))


def gen_all(rng, tier):
    yield from gen(rng, tier)
    yield from gen_conf(rng, tier)
    yield from gen_ext(rng, tier)


CONFIG = Config()
CONFIG.pid = "C13"
CONFIG.props_module = "KsiVerif.Props.C13"
CONFIG.required_theorems = ["no_request_returned_twice", "returned_fresh", "reply_matched_by_full_id", "foreign_reply_ignored",
                             "add_cache_full", "add_accepts_into_free_slot", "recv_timeout_only_when_elapsed",
                             "response_processing_keeps_cache", "completes_only_with_status_zero", "error_status_fails_its_own_request", "J_add", "J_run", "J_grow", "grow_keeps_slots", "never_lost", "conserved", "counters_correct",
                             "accepted_creates_one", "sndTime_is_the_send_time"]
def gen_h(rng, tier):
    """the HTTP client's write callback: a reply delivered in 1..6 pieces of sizes around the buffer's growth step (255)"""
    for _ in range(150 if tier != "thorough" else 3000):
        k = rng.randrange(1, 7)
        ps = [rng.randbytes(rng.choice([1, 2, 10, 100, 254, 255, 256, 257, 300, 511, 600, 2000])) for _ in range(k)]
        yield "hrecv %s" % ".".join(p.hex() for p in ps)


CONFIG.engines = [Engine("c13", ["exec_c13.c"], "drv_c13", gen_all, wraps=["time"]), Engine("c13h", ["exec_c13h.c"], "drv_c13", gen_h)]
CONFIG.rule = ("the real signing async service (net_async.c) over the real async TCP client on a scripted socket and clock; the scripted "
               "server builds v2 PDUs with an independent TLV writer + OpenSSL HMAC. Schedules over {add, run, valid / status / stale-generation / "
               "unknown-id / bad-MAC / error-PDU / pushed-config / garbage reply for request k, peer close, poll errors, refused connection, "
               "would-block, clock advance}: exhaustive over a 9-letter alphabet up to length 5 (thorough 7) for cache sizes 1..3, 1500 "
               "(thorough 30000) random schedules of up to 60 steps for cache sizes 1..64 and timeouts incl. 0, id wrap-around cycles. "
               "Compared after every step: add status and request id, handle returned by run (which request, state, error), pending count; "
               "oracle on the implementation's own output: no handle twice, only accepted handles, cache-full iff outstanding = size, "
               "pending = accepted - returned. Distinct by op line. The same schedules (without next-generation replies) for the EXTENDING service (asyncx; status-0 replies carry a calendar chain for the request's aggregation time; every status 0x101..0x301 as a reply status and as an error PDU). Histories with configuration requests (ac: hash + configuration in one request, cf: configuration alone; replies okc / cok / conf) ending with every timeout elapsed: judged on the output alone (confOracle).")
CONFIG.trusted_base = ["Lean 4.33.0 kernel; axioms propext, Classical.choice, Quot.sound only",
                       "model KsiVerif.Model.Async (on KsiVerif.Model.Tcp) hand-written from net_async.c:579-1458; tied by harness/exec_c13.c",
                       "what a PDU means (parsed, MAC valid, id, status) is an interpretation parameter in the model (C06/C10)"]
CONFIG.assumptions = ["libcurl's multi transport is not driven (only the TCP transport)", "real time and kernel sockets are simulated"]
CONFIG.design_ref = "DESIGN.md section 4, C13"
CONFIG.technique = "Lean 4 invariant proofs over the request-cache state machine + exhaustive small-schedule / long random-schedule correspondence on a scripted socket"
CONFIG.level_text = ("Kernel-checked over every history (any list of submissions and runs, each run with an arbitrary network environment, clock "
                     "and PDU interpretation): no handle is handed back twice (cached handles are distinct existing request objects, a handed-back "
                     "handle has left the cache, a new request gets a fresh object in a free slot); a reply affects only the waiting request "
                     "carrying its full 64-bit id and completes it only for status 0; foreign / stale / repeated replies change nothing; 'cache "
                     "full' without change when the cache is full; receive timeout only once elapsed; the transport never creates or destroys "
                     "request objects. PARTIAL: 'never lost' (every final request is eventually returned) and the pending/received counter "
                     "invariant are checked by the schedule correspondence and the oracle, not proved.")
CONFIG.level_note = "Trusted: Lean kernel; hand-written model + differential tie through socket/clock simulation."
