"""C15 — HA service: first valid reply wins; error only when all endpoints fail; config consolidation."""
import itertools
import os
import sys

sys.path.insert(0, os.path.join(os.path.dirname(os.path.abspath(__file__)), "..", "lib"))
sys.path.insert(0, os.path.join(os.path.dirname(os.path.abspath(__file__)), "..", "translator"))
from ksiverif.runner import Config, Engine  # noqa: E402
import tables  # noqa: E402

CAL0 = 1136073600
VALS = {
    "L": ["x", 0, 1, 2, 7, 19, 20, 21, 25, 255, 4000000000, 2**64 - 1],
    "P": ["x", 0, 1, 50, 99, 100, 101, 400, 12800, 19999, 20000, 20001, 100000, 2**32],
    "R": ["x", 0, 1, 2, 255, 15999, 16000, 16001, 70000, 2**63],
    "F": ["x", 0, 1, CAL0 - 1, CAL0, CAL0 + 1, 1400000000, 1500000000, 2**40],
    "T": ["x", 0, 5, CAL0 - 1, CAL0, CAL0 + 5, 1450000000, 1600000000, 2**40 + 1],
}


def rconf(rng):
    return ":".join(str(rng.choice(VALS[k])) for k in "LPRFT")


def gen(rng, tier):
    big = tier == "thorough"
    # range predicates: exhaustive over 0..70000 (thorough) / strided (quick) + boundary 64-bit values
    step = 1 if big else 7
    for v in range(rng.randrange(step), 70001, step):
        yield "pred %d" % v
    for v in [0, 1, 19, 20, 21, 99, 100, 101, 15999, 16000, 16001, 19999, 20000, 20001, CAL0 - 1, CAL0, CAL0 + 1,
              2**31 - 1, 2**31, 2**32 - 1, 2**32, 2**32 + 20, 2**63, 2**64 - 1]:
        yield "pred %d" % v
    # consolidation: single field sweeps, then all permutations of <= 4 random configurations
    for k in "LPRFT":
        for a in VALS[k]:
            for b in VALS[k]:
                conf = lambda v: ":".join(str(v) if kk == k else "x" for kk in "LPRFT")
                yield "cons %s;%s" % (conf(a), conf(b))
    for i in range(150 if not big else 3000):
        n = rng.choice([1, 2, 3, 3, 4, 4])
        cs = [rconf(rng) for _ in range(n)]
        for perm in itertools.permutations(cs):
            yield "cons %s" % ";".join(perm)
    for i in range(200 if not big else 3000):
        yield "cons %s" % ";".join(rconf(rng) for _ in range(rng.randrange(1, 9)))
    # fan-out: 1..3 endpoints (and 4,5), every sequence of outcomes of every length <= n
    outcomes = lambda o: ["r%d" % o, "e%d:%d" % (o, 0x202), "e%d:%d" % (o, 0x205 + o), "e%d:%d" % (o, 0x101)]
    for n in range(1, 4 if not big else 5):
        for order in itertools.permutations(range(n)):
            for ln in range(0, n + 1):
                for choice in itertools.product(*[outcomes(o) for o in order[:ln]]):
                    yield "fan %d %s" % (n, ",".join(choice) or "-")
    for i in range(300 if not big else 5000):
        n = rng.randrange(1, 9)
        order = list(range(n))
        rng.shuffle(order)
        evs = [rng.choice(outcomes(o)) if rng.random() < 0.6 else "e%d:%d" % (o, rng.choice([0x202, 0x203, 0x204, 0x401, 0x40a]))
               for o in order[:rng.randrange(0, n + 1)]]
        yield "fan %d %s" % (n, ",".join(evs) or "-")


def gen_ha(rng, tier):
    big = tier == "thorough"
    for i in range(600 if not big else 10000):
        ne = rng.randrange(1, 4)
        steps = []
        for _ in range(rng.randrange(2, 24)):
            r = rng.random()
            if r < 0.25:
                steps.append("a:" + "".join(rng.choice("1110") for _ in range(ne)))
            elif r < 0.65:
                steps.append("o:%d:%s" % (rng.randrange(ne), rng.choice(["r", "r", "e514", "e515", "e257", "e1027"])))
            else:
                steps.append("run")
        steps += ["run"] * rng.randrange(0, 6)
        yield "ha %d %s" % (ne, ",".join(steps))


_gen0 = gen


def gen(rng, tier):
    for l in _gen0(rng, tier):
        yield l
    for l in gen_ha(rng, tier):
        yield l


CONFIG = Config()
CONFIG.pid = "C15"
CONFIG.props_module = "KsiVerif.Props.C15"
CONFIG.required_theorems = [
    "range_predicates_documented", "consolidate_closed_form", "consolidate_order_independent",
    "ha_completed_exactly_once", "ha_errors_only_as_notices", "ha_later_replies_discarded",
    "ha_error_only_when_all_failed",
]
CONFIG.translators = [tables.gen_ha_predicates]
def gen_b(rng, tier):
    """a real HA service over real TCP sub-services on a scripted socket, the configuration callback registered on the context:
    pushed configurations (in and out of range, growing and shrinking) reach the user consolidated only"""
    L = [1, 2, 5, 17, 20, 21, 25, 0, 255]
    P = [100, 200, 400, 20000, 99, 20001, 60000, 0]
    R = [1, 10, 100, 16000, 16001, 50000, 0]
    for _ in range(40 if tier == "quick" else 600):
        n = rng.choice([1, 2, 2, 3])
        confs = []
        for _ in range(rng.randrange(1, 7)):
            f = lambda vals: "x" if rng.random() < 0.2 else str(rng.choice(vals))   # noqa: E731
            confs.append("%s:%s:%s" % (f(L), f(P), f(R)))
        yield "hapush %d %s" % (n, ";".join(confs))


CONFIG.engines = [Engine("c15", ["exec_c15.c"], "drv_c15", gen), Engine("c15b", ["exec_c15b.c"], "drv_c15", gen_b, wraps=["time"])]
CONFIG.rule = ("statics of net_ha.c reached by #include: the four range predicates over 0..70000 (thorough: every value; quick: "
               "stride 7 with random offset) and boundary 64-bit values, compared with the translated Lean predicates and with the "
               "documented ranges; KSI_HighAvailabilityService_consolidateConfig on all pairs of per-field boundary values and on all "
               "permutations of <=4 random configurations (in-range, out-of-range, zero, absent), compared with the model and with "
               "max/min over the documented ranges; handleReqResponse/handleErrorResponse on every sequence of outcomes of every "
               "order for 1..3 endpoints (thorough 1..4) and random ones for up to 8. Distinct by op line; all non-trivial. Second engine (c15b): a real HA signing service over 1..3 real TCP sub-services on a scripted socket with the configuration callback registered on the context; 1..6 pushed configurations (values in and out of the documented ranges); what the callback is told = the consolidated sequence.")
CONFIG.trusted_base = [
    "Lean 4.33.0 kernel; axioms propext, Classical.choice, Quot.sound only",
    "translator/cexpr.py turns the four C predicate bodies into Lean expression by expression (refuses anything outside its subset); cross-checked against the compiled C functions on every run",
    "consolidation and request automaton models hand-written from net_ha.c:94-617, 860-1005; tied by harness/exec_c15.c",
]
CONFIG.assumptions = [
    "each sub-service delivers exactly one outcome per accepted clone (that is C13); the executor calls the HA handlers directly instead of driving sockets",
    "aggregation algorithm and parent URI are 'last valid value wins' fields and are not part of the order-independence claim",
]
CONFIG.design_ref = "DESIGN.md section 4, C15"
CONFIG.technique = "Lean 4 theorems over translated range predicates + consolidation closed form/permutation invariance + request automaton induction; differential correspondence incl. all permutations"
CONFIG.level_text = ("Kernel-checked: the C range predicates (translated each run) equal the documented ranges for every 64-bit value; folding "
                     "any sequence of pushed configurations yields per field max/min of the in-range non-zero values (absent if none) and is "
                     "invariant under every permutation; a request accepted by n endpoints is completed exactly once - first valid response, "
                     "else first error only after all n failed - all other errors are notices, later responses are discarded, for every n "
                     "and every outcome sequence.")
CONFIG.level_note = ("Trusted: Lean kernel + standard axioms; T2 translator; hand-written automaton tied differentially at handler level "
                     "(socket-level interleavings are C13/C14).")
