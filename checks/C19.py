"""C19 — a failed memory allocation yields an error, never a crash, leak or corruption (PARTIAL: see DESIGN.md 8.6)."""
import os
import sys

sys.path.insert(0, os.path.join(os.path.dirname(os.path.abspath(__file__)), "..", "lib"))
sys.path.insert(0, os.path.join(os.path.dirname(os.path.abspath(__file__)), "..", "translator"))
sys.path.insert(0, os.path.dirname(os.path.abspath(__file__)))
from ksiverif.runner import Config, Engine  # noqa: E402
from ksiverif import core, sig as S, pdu, pki, pubfile as PF  # noqa: E402
from ksiverif.gen import tlv, be, hx  # noqa: E402
import C07  # noqa: E402
import C08  # noqa: E402


def rtree(rng, depth, top=True):
    """an element tree in the convention of the executor's walk: tags >= 0x100 are composite"""
    if depth == 0 or (not top and rng.random() < 0.4):
        return tlv(rng.choice([0x01, 0x02, 0x05, 0x1f, 0xff]), rng.randbytes(rng.choice([0, 1, 5, 40])))
    n = rng.choice([0, 1, 2, 3, 9, 10, 11, 12, 21])
    return tlv(rng.choice([0x100, 0x800, 0x801, 0x1fff]), b"".join(rtree(rng, depth - 1, False) for _ in range(n)))


def gen(rng, tier):
    big = tier == "thorough"
    every = lambda n: "all" if (big or n <= 700) else "every:%d:%d" % (max(2, n // 350), rng.randrange(1, 4))   # noqa: E731
    # ---- the two operations that have a heap model: every single fault, for every size around the array's growth step ----
    for n in list(range(0, 13)) + [19, 20, 21, 25, 30, 31, 40, 41, 100] + ([250, 1000] if big else []):
        yield "sw all lst %d" % n
        yield "sw multi:%d:%d:%d lst %d" % (rng.randrange(1 << 30), 20, rng.choice([3, 8, 20]), n)
    for _ in range(25 if not big else 300):
        t = rtree(rng, rng.choice([1, 2, 3, 4]))
        if len(t) < 60000:
            yield "sw all tlvp %s" % hx(t)
            yield "sw multi:%d:%d:%d tlvp %s" % (rng.randrange(1 << 30), 12, rng.choice([4, 10, 30]), hx(t))
    # ---- the catalogue: every single fault (strided when an operation makes more than 700 allocations), random fault sets ----
    for _ in range(3 if not big else 30):
        yield "sw all list %d" % rng.choice([0, 1, 3, 10, 11, 25, 40])
        t = rtree(rng, rng.choice([2, 3]))
        yield "sw all tlv %s" % hx(t)
        yield "sw all el %s" % hx(t)
    # objects made and released on their own; a context of its own; a request with a configuration request handed to the async service
    yield "sw all aar"
    yield "sw all ctxn"
    hc = bytes([1]) + rng.randbytes(32)
    yield "sw all asyncc %s 0 %s 00" % (hx(hc), hx(b"anon"))
    for i in range(3 if not big else 24):
        s = S.build(rng, nchains=rng.choice([1, 2, 3]), with_cal=True, anchor=rng.choice(["pub", "auth", "none"]), with_rfc=(i % 3 == 2))
        raw = s.enc()
        yield "sw %s sig %s" % (every(600), hx(raw))
        yield "sw multi:%d:%d:%d sig %s" % (rng.randrange(1 << 30), 25, rng.choice([5, 20, 60]), hx(raw))
        yield "sw all ver %s -" % hx(raw)
        yield "swn all ver %s -" % hx(raw)             # without the pool of released hash objects every hash is an allocation
        yield "swn %s sig %s" % (every(600), hx(raw))
        if i % 3 != 2:
            # policies that need the publications file, which this context cannot fetch: rule results with status messages, fallbacks
            yield "sw all verk %s -" % hx(raw)
            yield "sw %s verg %s -" % (every(400), hx(raw))
        yield "sw all ver %s %s" % (hx(raw), hx(s.chains[0].input_hash if not s.rfc else s.rfc.input_hash))
        bad = s.clone(); h = bytearray(bad.chains[-1].links[-1].data); h[-1] ^= 1
        if bad.chains[-1].links[-1].kind == "h":
            bad.chains[-1].links[-1].data = bytes(h)
            yield "sw all ver %s -" % hx(bad.enc())         # a signature that does not verify: the verdict must survive a repeat too
        yield "sw all build %s %d" % (hx(raw), 0)
        yield "sw %s parts %s" % (every(600), hx(raw))
        # extending
        if s.cal:
            t0 = s.chains[0].time
            root = C08.aggregation_root(s)
            p = s.cal.pub_time + rng.choice([1, 86400])
            ver = rng.choice([1, 2])
            yield "sw %s ext %s %d %d %s %s" % (every(600), hx(raw), p, ver, hx(b"anon"), hx(C08.reply(ver, 1, 0, C08.new_chain(rng, s, t0, p, root))))
            yield "sw all ext %s %d %d %s %s" % (hx(raw), p, ver, hx(b"anon"), hx(C08.reply(ver, 1, 0x101, None)))      # the extender refuses
            gc = C08.new_chain(rng, s, t0, p, root)
            yield "sw %s extp %s %d %d %s %s %s" % (every(500), hx(raw), p, ver, hx(b"anon"), hx(C08.reply(ver, 1, 0, gc)), hx(C08.pubrec(p, gc.root())))
            yield "sw all axh %s" % hx(raw)
            same = C08.new_chain(rng, s, t0, s.cal.pub_time, root)
            yield "sw %s vcal %s - %d %s %s" % (every(600), hx(raw), ver, hx(b"anon"), hx(C08.reply(ver, 1, 0, same)))
            yield "swn %s vcal %s - %d %s %s" % (every(600), hx(raw), ver, hx(b"anon"), hx(C08.reply(ver, 1, 0, same)))
        # signing
        alg = rng.choice([1, 4, 5])
        hsh = bytes([alg]) + rng.randbytes(S.DLEN[alg])
        level = rng.choice([0, 0, 3])
        ver = rng.choice([1, 2])
        good = C07.aggregate(rng, hsh, level)
        if C07.height(good, level) <= 255:
            yield "sw %s sign %s %d %d %s %s" % (every(1200), hx(hsh), level, ver, hx(b"anon"), hx(C07.reply(ver, 1, 0, good)))
            yield "sw multi:%d:%d:%d sign %s %d %d %s %s" % (rng.randrange(1 << 30), 25, rng.choice([10, 40, 120]), hx(hsh), level, ver, hx(b"anon"), hx(C07.reply(ver, 1, 0, good)))
        yield "sw all sign %s %d %d %s %s" % (hx(hsh), level, ver, hx(b"anon"), hx(C07.reply(ver, 1, 0x101, None)))
        # the asynchronous and the high-availability service on a scripted socket (PDU v2, request id 1)
        g2 = C07.aggregate(rng, hsh, level)
        if C07.height(g2, level) <= 255:
            yield "sw %s async %s %d %s %s" % (every(800), hx(hsh), level, hx(b"anon"), hx(C07.reply(2, 1, 0, g2)))
            yield "sw %s ha %s %d %s %s" % (every(800), hx(hsh), level, hx(b"anon"), hx(C07.reply(2, 1, 0, g2)))
            yield "sw multi:%d:%d:%d async %s %d %s %s" % (rng.randrange(1 << 30), 25, rng.choice([10, 40, 120]), hx(hsh), level, hx(b"anon"), hx(C07.reply(2, 1, 0, g2)))
        yield "sw all async %s %d %s %s" % (hx(hsh), level, hx(b"anon"), hx(C07.reply(2, 1, 0x101, None)))
        yield "sw all areq %s %d %d" % (hx(hsh), level, ver)
        yield "sw all ereq %d %d %d" % (1400000000, 1400100000, ver)
    for n, m in ((1, 0), (2, 0), (3, 2), (9, 4), (16, 3), (33, 5)) + (((100, 7),) if big else ()):
        yield "sw all tree %d %d %d" % (rng.choice([1, 4]), n, m)
        if n in (3, 9): yield "swn all tree %d %d %d" % (rng.choice([1, 4]), n, m)
        yield "sw multi:%d:%d:%d tree 1 %d %d" % (rng.randrange(1 << 30), 30, rng.choice([5, 20, 60]), n, m)
    for n, m in ((1, 0), (4, 2), (9, 3)):
        yield "sw %s bsig %d %d %d" % ("all" if (big or n == 1) else "every:%d:%d" % (n, rng.randrange(1, 4)), rng.choice([1, 4]), n, m)
    # publications file and publication strings
    body = PF.MAGIC + PF.header() + b"".join(PF.pub(1400000000 + 86400 * k, S.H(1, b"p%d" % k)) for k in range(5))
    pf = body + PF.sigrec(pki.sign(body))
    yield "sw all pubf %s %d" % (hx(pf), 1400000000 + 86400 * 2 + 5)
    yield "sw multi:%d:20:15 pubf %s %d" % (rng.randrange(1 << 30), hx(pf), 1400000000)
    yield "sw all pubs AAAAAA-CVZ2AQ-AANGVK-SV7GJL-36LN65-AVJYZR-6XRZSL-HIMRH3-6GU7WR-YNRY7C-X2XECY-WFQXRB"
    for alg in (1, 4, 5):
        yield "sw all hmac %d %s %s" % (alg, hx(rng.randbytes(rng.choice([1, 20, 64, 200]))), hx(rng.randbytes(rng.choice([1, 100, 1000]))))


def trivial(cls):
    return False


CONFIG = Config()
CONFIG.pid = "C19"
CONFIG.props_module = "KsiVerif.Props.C19"
CONFIG.required_theorems = ["lst_no_leak_no_double_free", "lst_succeeds_iff_all_granted", "lst_error_only_after_a_refusal", "lst_single_fault",
                             "lst_repeat_after_fault", "tlvp_no_leak_no_double_free", "tlvp_succeeds_iff_all_granted",
                             "tlvp_error_only_after_a_refusal", "tlvp_single_fault", "tlvp_repeat_after_fault", "fault_free_counts"]
CONFIG.translators = []
CONFIG.engines = [Engine("c19", ["exec_c19.c"], "drv_c19", gen, trivial=trivial, wraps=["time"])]
CONFIG.rule = ("one line per sweep. The executor compiles the SDK's allocation funnel (KSI_malloc / KSI_calloc / KSI_free, base.c) with counting, failing "
               "versions of malloc / calloc / free, so exactly the SDK's own requests are numbered and refused. For a catalogue operation and its "
               "arguments: a fault-free run counts N requests; then for every k = 1..N (every s-th k when N > 700 in the quick tier) and for random "
               "fault sets (each request refused with probability 1/density) a NEW context (for `swn` lines with its pool of released hash objects switched off, so that every hash is an allocation) and NEW inputs are set up without faults, the operation "
               "runs under the fault(s), is repeated on the same context and objects without faults, and everything including the context is freed. "
               "Catalogue: integer lists (lst, list), KSI_TLV parse / nested lists / clone / serialize (tlvp, tlv), KSI_TlvElement, signature parse + "
               "serialize + clone + identity, the asynchronous and the high-availability signing service on a scripted socket, the block signer (masking, metadata, every leaf's signature), calendar-based verification through the file transport, internal verification (verifying and non-verifying signatures, with document hash), aggregation and "
               "extension requests through the file transport, KSI_Signature_signAggregated and KSI_Signature_extendTo with honest and refusing "
               "replies (PDU v1 / v2), tree builder with hash and metadata leaves and every leaf's chain, signature builder (from a signature, and from parts), publications file parse "
               "+ lookups + serialize, publication strings, HMAC / hashing. Oracle per experiment (Drv/C19.lean entrySpec, on the implementation's "
               "output): no SDK block allocated at the end; no fault fired => status and result of the fault-free run; success under a fault only "
               "with the fault-free result; the repeat gives the fault-free status and result. A sanitizer report (use after free, double free, wild "
               "free, overflow) ends the executor: violation with the op line as replay. For lst and tlvp additionally: N and the status under "
               "every single fault equal the heap model's.")
CONFIG.trusted_base = [
    "Lean 4.33.0 kernel; axioms propext, Classical.choice, Quot.sound only",
    "PARTIAL: theorems hold for the heap model of list.c and of tlv.c's parse / nested-list / free code (Model/Alloc.lean), for every fault plan, size "
    "and element tree; the model is hand-written and tied to the code by the per-fault comparison of ops lst and tlvp. For every other operation of "
    "the catalogue nothing is proved: the property is judged on the implementation's output under ASan / UBSan / LeakSanitizer for the faults "
    "actually injected — fault injection, not proof (DESIGN.md 8.6)",
    "harness/exec_c19.c (includes base.c with malloc / calloc / free renamed: the funnel under test is the repository's own), lean/Drv/C19.lean, "
    "lib/ksiverif/{sig,pdu,pki,pubfile}.py (reference builders of the inputs)"]
CONFIG.assumptions = [
    "only allocations through the SDK's funnel are refused; OpenSSL's and libc's own allocations (hash contexts, FILE buffers, PKCS7) are not",
    "the asynchronous and high-availability signing services are driven on a scripted socket (one request, honest and refusing reply); not in the "
    "catalogue: their extending twins, pushed configuration, HTTP transports and the blocking TCP transport, PKI verification of a publications "
    "file, block signer signatures — their allocation-failure paths are not exercised",
    "random multi-fault sets are sampled, not enumerated",
    "found by this check and repaired in /repo: F31 (wild free in KSI_RequestHandle_new), F33 (tree builder freed an inserted leaf), F34 "
    "(policy result released before it was initialised), F35 (response element leaked by the signature builder), F36 (leaf chain's link list "
    "leaked), F37 (KSI_AsyncSigningHandle_new released the caller's hash on failure); F32 (double free of a hasher, reachable from a calendar chain alone) was met here first and is checked by C03"]
CONFIG.design_ref = "DESIGN.md section 8.6 (C19) and 8.4"
CONFIG.technique = ("Lean 4 proofs about a heap model of the SDK's list and TLV code under arbitrary allocation-failure plans (partial) + systematic "
                    "single-fault and random multi-fault injection at the SDK's allocation funnel over a catalogue of operations, judged by the "
                    "property's oracle on the implementation's output under sanitizers, with model comparison for the modelled operations")
CONFIG.level_text = ("PARTIAL. Kernel-checked for the modelled core (list.c; tlv.c parse, nested lists, free): for every set of refused allocation "
                     "requests, every list size and every element tree nothing is leaked, nothing is released twice, the operation fails exactly when one "
                     "of its N(input) requests is refused (the refused one being its last), and a repeat without faults succeeds and restores the heap. "
                     "Tied to the code by comparing N and the status under every single fault. The rest of the property — all other modules, crashes, "
                     "use after free — cannot be proved in this technique; it is explored by fault injection at the allocation funnel (every index for "
                     "operations up to 700 allocations, strided beyond, random multi-fault sets) with the property's own oracle and the sanitizers.")
CONFIG.level_note = ("Partial by nature: which pointer the C code releases on which path is not a fact about a functional model; only the list / TLV core "
                     "is modelled with an explicit heap. Trusted: Lean kernel + standard axioms; sanitizers and the executor's block accounting for "
                     "the runtime half.")


def evidence_extra(ctx):
    """how many fault experiments the sweeps of this run were (read back from the executor's output)"""
    mid = os.path.join(ctx["work"], "c19.mid")
    per_op, total, single, multi = {}, 0, 0, 0
    for line in open(mid):
        if " => " not in line or " |" not in line or not line.startswith("sw"):
            continue
        inp, out = line.split(" => ", 1)
        w = inp.split()
        ents = out.split(" |", 1)[1].split()
        per_op[w[2]] = per_op.get(w[2], 0) + len(ents)
        total += len(ents)
        if w[1].startswith("multi"):
            multi += len(ents)
        else:
            single += len(ents)
    return {"fault_experiments": total, "single_fault_experiments": single, "multi_fault_experiments": multi, "fault_experiments_per_operation": per_op,
            "explanation": "every experiment is one run of a catalogue operation on a new context under one fault (or one random fault set), its repeat without "
                           "faults, and the release of everything; `evaluations` counts sweeps (op lines), `fault_experiments` the runs under fault"}


CONFIG.evidence_extra = evidence_extra
