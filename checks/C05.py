"""C05 — policy engine evaluates rule trees with the documented AND/OR/fallback semantics."""
import itertools
import os
import sys

sys.path.insert(0, os.path.join(os.path.dirname(os.path.abspath(__file__)), "..", "lib"))
from ksiverif.runner import Config, Engine  # noqa: E402

# the five outcomes of a basic rule: OK, NA (component absent: error NONE), NA (inconclusive),
# FAIL, internal error (result left at the pre-loaded NA/GEN-02)
# (0, 9, 0): the rule returns KSI_OK and writes no result at all (what stands is the pre-loaded NA/GEN-02)
OUTCOMES = [(0, 0, 0), (0, 1, 0), (0, 1, 0x102), (0, 2, 0x201), (0x100, 1, 0x102), (0, 9, 0)]
EXTRA_OUTCOMES = [(0x200, 2, 0x203), (0xffff, 0, 0), (0, 2, 0x101), (0, 0, 0x301), (0x100, 9, 0)]


def shapes(depth, width):
    """all rule lists (as nested tuples) with given max depth and list width 1..width"""
    if depth == 0:
        elems = ["b"]
    else:
        sub = shapes(depth - 1, width)
        elems = ["b"] + [("A", s) for s in sub] + [("O", s) for s in sub]
    out = []
    for w in range(1, width + 1):
        out += [tuple(c) for c in itertools.product(elems, repeat=w)]
    return out


def leaves(lst):
    return sum(1 if e == "b" else leaves(e[1]) for e in lst)


def render(lst, ids):
    parts = []
    for e in lst:
        if e == "b":
            parts.append("b%d" % next(ids))
        else:
            parts.append("%s(%s)" % (e[0], render(e[1], ids)))
    return ",".join(parts)


def outs_txt(assign):
    return ";".join("%d:%d:%d:%d" % (i, o[0], o[1], o[2]) for i, o in enumerate(assign)) or "-"


def rand_list(rng, depth, maxw):
    n = rng.choice([0] + list(range(1, maxw + 1)) * 6) if depth < 3 else rng.randrange(1, maxw + 1)
    out = []
    for _ in range(n):
        if depth == 0 or rng.random() < 0.55:
            out.append("b")
        else:
            out.append((rng.choice("AO"), tuple(rand_list(rng, depth - 1, maxw))))
    return tuple(out)


def gen(rng, tier):
    # 1. exhaustive: all shapes (depth<=1, width<=2; thorough: + depth 2 width 2 with <=5 leaves,
    #    depth 1 width 3) x all assignments of the five outcomes
    sets = [shapes(1, 2)]
    if tier == "thorough":
        sets.append([s for s in shapes(2, 2) if leaves(s) <= 5])
        sets.append([s for s in shapes(1, 3) if leaves(s) <= 5])
    seen = set()
    for ss in sets:
        for s in ss:
            if s in seen:
                continue
            seen.add(s)
            k = leaves(s)
            txt = "L(%s)" % render(s, iter(range(64)))
            for assign in itertools.product(OUTCOMES if ss is sets[0] else OUTCOMES[:5], repeat=k):
                yield "verify %s %s" % (txt, outs_txt(assign))
    # 2. exhaustive fallback chains: policies from {b, A(b), O(b), b,b} x outcomes, chain length 1..4
    small = [("b",), (("A", ("b",)),), (("O", ("b",)),), ("b", "b")]
    for n in range(1, 5):
        for combo in itertools.product(range(len(small)), repeat=n):
            if n >= 3 and tier == "quick" and rng.random() < 0.8:
                continue
            ids = iter(range(64))
            txt = "|".join("L(%s)" % render(small[c], ids) for c in combo)
            k = sum(leaves(small[c]) for c in combo)
            if len(OUTCOMES) ** k <= 1300:
                assigns = itertools.product(OUTCOMES, repeat=k)
            else:
                assigns = [tuple(rng.choice(OUTCOMES) for _ in range(k)) for _ in range(150)]
            for a in assigns:
                yield "verify %s %s" % (txt, outs_txt(a))
    # 3. random larger trees (up to ~40 basic rules, depth 4), incl. empty lists, repeated ids,
    #    policies without rule array, fallback chains 0..3
    for i in range(4000 if tier == "quick" else 60000):
        np = rng.choice([1, 1, 1, 2, 2, 3, 4])
        pols, k = [], 0
        for _ in range(np):
            if rng.random() < 0.03:
                pols.append("-")
                continue
            s = rand_list(rng, rng.randrange(0, 5), rng.choice([2, 3, 4]))
            n = leaves(s)
            if rng.random() < 0.1 and n > 1:   # the same rule at several positions
                ids = iter([rng.randrange(0, max(1, k + n - 1)) for _ in range(n)])
            else:
                ids = iter(range(k, k + n))
            pols.append("L(%s)" % render(s, ids))
            k += n
        if k > 60:
            continue
        bias = rng.random()
        assign = []
        for _ in range(k):
            if rng.random() < bias:
                assign.append(OUTCOMES[0])
            else:
                assign.append(rng.choice(OUTCOMES + EXTRA_OUTCOMES))
        yield "verify %s %s" % ("|".join(pols), outs_txt(assign))
        # the same chain through the public constructors: a clone of the first policy; created policies chained by setFallback
        yield "verifyc %s %s" % ("|".join(pols), outs_txt(assign))
        if "-" not in pols:
            yield "verifyf %s %s" % ("|".join(pols), outs_txt(assign))
            if np > 1 and 62 >= k:
                # every fallback set twice (a decoy first); entered through a clone taken while the decoy was in place
                yield "verifyg %s %s" % ("|".join(pols), outs_txt(assign))
                yield "verifyh %s %s" % ("|".join(pols), outs_txt(assign))


def trivial(cls):
    return False


CONFIG = Config()
CONFIG.pid = "C05"
CONFIG.props_module = "KsiVerif.Props.C05"
CONFIG.required_theorems = [
    "fail_or_error_ends_list", "basic_and_continue_only_on_ok", "basic_and_continue_on_ok",
    "or_ends_list_on_ok", "or_passes_on_when_na", "reported_is_last_rule", "bad_rule_is_last",
    "invoked_in_order", "empty_rule_array_is_error", "fallback_semantics", "no_fallback_after_ok",
    "no_fallback_after_error", "fallback_after_fail_or_na",
]
CONFIG.engines = [Engine("c05", ["exec_c05.c"], "drv_c05", gen, trivial=trivial)]
CONFIG.rule = ("rule trees built from 64 scripted trampoline rules and run through the real "
               "KSI_SignatureVerifier_verify: exhaustive over all trees of depth<=1/width<=2 (thorough: depth 2 "
               "width 2 and depth 1 width 3 with <=5 basic rules) x all assignments of the five (smallest trees: six, with a rule that writes no result) outcomes; exhaustive "
               "small fallback chains of length 1..4; random trees up to depth 4 / 60 basic rules incl. empty rule "
               "arrays, repeated rules, missing rule arrays; the same chains through KSI_Policy_clone, KSI_Policy_create + KSI_Policy_setFallback, every fallback set twice (a decoy first), a clone taken while the decoy was in place. Compared: status, final result and error code, order of "
               "invocation. Distinct by op line; every case is non-trivial (each runs the engine).")
CONFIG.trusted_base = [
    "Lean 4.33.0 kernel; axioms propext, Classical.choice, Quot.sound only",
    "model KsiVerif.Model.Policy hand-written from policy.c Rule_verify / KSI_SignatureVerifier_verify; tied by "
    "harness/exec_c05.c (ASan+UBSan build of /repo)",
    "basic rules are opaque oracles (id -> status, result, error); their own semantics is C01/C02/C04",
]
CONFIG.assumptions = ["rule results bookkeeping lists (ruleResults / policyResults) are not part of the property"]
CONFIG.design_ref = "DESIGN.md section 4, C05"
CONFIG.technique = "Lean 4 theorems over the rule-tree interpreter model (trace invariant by mutual structural induction) + exhaustive/random differential correspondence"
CONFIG.level_text = ("Kernel-checked theorems for every rule tree, every outcome assignment and every fallback chain: "
                     "per-element continue/stop equations (basic/AND continue only on OK, OR ends on OK and passes on NA, "
                     "FAIL/error ends the list), trace invariant (reported result = last invoked rule; a failing or erroring "
                     "rule is the last invoked; invocation order is a subsequence of DFS order), complete characterisation "
                     "of the fallback loop. Model tied to policy.c by exhaustive small-tree and random differential runs.")
CONFIG.level_note = ("Trusted: Lean kernel + standard axioms; hand-written model and its differential tie; rules are oracles. "
                     "The design's 'trace is a prefix of DFS order' was wrong (an inconclusive OR skips its remaining "
                     "rules): the proved statement is 'subsequence of DFS order'.")
