"""C11 — signatures are kept byte-exact; verification is repeatable and non-mutating."""
import os
import sys

sys.path.insert(0, os.path.join(os.path.dirname(os.path.abspath(__file__)), "..", "lib"))
sys.path.insert(0, os.path.join(os.path.dirname(os.path.abspath(__file__)), "..", "translator"))
from ksiverif.runner import Config, Engine  # noqa: E402
from ksiverif import core, pki, pubfile as PF, sig as S  # noqa: E402
from ksiverif.gen import hx, tlv  # noqa: E402
import tables  # noqa: E402
sys.path.insert(0, os.path.dirname(os.path.abspath(__file__)))
import C08 as X8  # noqa: E402   (an honest extender's reply for a signature)

POLICIES = ["internal", "internal", "internal", "calendar", "key", "pubfile", "userpub", "general", "empty"]


def history(rng, base, others, n):
    doc = base.rfc.input_hash if base.rfc else base.chains[0].input_hash
    lc = 0 if base.rfc else (base.chains[0].links[0].lc or 0)
    ops = []
    for _ in range(n):
        r = rng.random()
        if r < 0.22:
            ops.append("s")
        elif r < 0.30:
            ops.append("c")
        elif r < 0.70:
            d = rng.choice(["-", "-", hx(doc), hx(doc), hx(bytes([doc[0]]) + rng.randbytes(len(doc) - 1)), hx(bytes([4]) + rng.randbytes(48))])
            lv = rng.choice([0, 0, 0, 1, lc, lc + 1, 3, 17, 255, 256, 1 << 32])
            ops.append("%s:%s:%s:%d" % (rng.choice(["v", "v", "v", "a", "w", "w"]), rng.choice(POLICIES), d, lv))
        elif r < 0.74:
            ops.append(rng.choice(["x", "xt:%d" % rng.randrange(1400000000, 1600000000)]))
        elif r < 0.80:
            ops.append("r:%d" % rng.choice([0, 1, lc, lc + 1, 200, 255, 256]))
        elif r < 0.86:
            ops.append("g")
        elif r < 0.92:
            ops.append("l:%d" % rng.choice([0, 1, 2, 3, 4, 5]))
        else:
            ops.append("p:" + hx(rng.choice(others)))
    return ops


def gen(rng, tier):
    big = tier == "thorough"
    others = []
    for _ in range(4):
        o = S.build(rng, anchor=rng.choice(["pub", "auth", None]))
        if rng.random() < 0.5:
            o.chains[-1].time += 1          # an inconsistent one: leaves error state behind in the context
        others.append(o.enc())
    for i in range(30 if not big else 500):
        base = S.build(rng, with_cal=rng.random() < 0.8, anchor=rng.choice(["pub", "auth", None]), with_rfc=rng.random() < 0.15,
                       first_lc=rng.choice([None, 0, 1, 3, 7]))
        kind = rng.random()
        if kind < 0.35:
            pass                                   # consistent
        elif kind < 0.5 and len(base.chains) > 1:
            base.chains[1].time += 1               # INT-02
        elif kind < 0.65 and base.cal:
            h = bytearray(base.cal.input_hash); h[-1] ^= 1; base.cal.input_hash = bytes(h)     # INT-03
        elif kind < 0.8:
            l = base.chains[-1].links[-1]
            if l.kind == "h":
                d = bytearray(l.data); d[-1] ^= 1; l.data = bytes(d)                               # root changes: INT-03 / anchors
        else:
            # an unknown non-critical element is kept too — sizes around the one / two octet length forms
            base.extra = tlv(rng.choice([0x1f0, 0x0f]), rng.randbytes(rng.choice([0, 1, 5, 254, 255, 255, 256, 1000])), nc=1, fwd=rng.random() < 0.5)
        raw = base.enc()
        ops = ["s", "c"] + history(rng, base, others, rng.randrange(4, 30 if not big else 60)) + ["s", "c"]
        # prepend a local chain: a signature over the output of chain 0, and chain 0 as the chain to prepend
        yield "h %s %s" % (hx(raw), " ".join(ops))
        if len(base.chains) > 1 and not base.rfc:
            upper = base.clone(); first = upper.chains.pop(0)
            # the upper part alone is a signature of chain 0's output at chain 0's height: its first level correction carries that height
            upper.chains[0].links[0].lc = (upper.chains[0].links[0].lc or 0) + first.output(0)[0]
            ops2 = ["s", "b:" + hx(first.enc()), "s", "v:internal:%s:0" % hx(upper.chains[0].input_hash), "b:" + hx(base.chains[-1].enc()), "s", "c",
                    "r:%d" % rng.choice([0, 1, 2]), "s"]
            yield "h %s %s" % (hx(upper.enc()), " ".join(ops2))
    # elements whose payload sits at the boundary between the one- and two-octet length forms
    for tag in (0x0f, 0x1f0):
        for n in (0, 254, 255, 256, 257):
            base = S.build(rng, anchor=None)
            base.extra = tlv(tag, rng.randbytes(n), nc=1, fwd=rng.random() < 0.5)
            yield "h %s s c v:internal:-:0 s c" % hx(base.enc())
    # octets behind the signature's own end, one octet missing: not a signature (what is accepted must re-serialize to itself)
    for _ in range(4 if not big else 40):
        base = S.build(rng, anchor=rng.choice([None, "pub", "auth"]))
        raw = base.enc()
        for more in (b"\x00", b"\x01\x00", rng.randbytes(rng.randrange(1, 40)), tlv(0x0f, b"x", nc=1), raw[:20]):
            yield "h %s s c v:internal:-:0 s" % hx(raw + more)
        yield "h %s s c" % hx(raw[:-1])
    # same level asked twice, different levels alternating: the memo must never answer for the wrong start level
    for _ in range(10 if not big else 100):
        base = S.build(rng, nchains=rng.choice([1, 2, 3]), first_lc=rng.choice([3, 7, 20]), anchor=None)
        lc = base.chains[0].links[0].lc
        lv = [0, lc, 1, lc + 1, 0, lc, lc, 2, 0]
        rng.shuffle(lv)
        ops = ["v:internal:-:%d" % x for x in lv]
        yield "h %s %s" % (hx(base.enc()), " ".join(ops + ["s"]))
    # an application's own one-rule policy (calendar input = aggregation of the chains from the document's level): no earlier
    # rule has aggregated the chains from level 0, so the first answer is the one that is memoised
    for _ in range(10 if not big else 100):
        base = S.build(rng, nchains=rng.choice([1, 2, 3]), first_lc=rng.choice([3, 7, 20]), with_cal=True, anchor=rng.choice([None, "pub"]))
        lc = base.chains[0].links[0].lc
        lv = [0, lc, 1, 0, 2, lc, 0]
        if rng.random() < 0.5: rng.shuffle(lv)
        yield "h %s %s" % (hx(base.enc()), " ".join(["v:calin:-:%d" % x for x in lv] + ["s"]))
    # the publications file a context answers from is the one configured now, not one fetched under an earlier URL
    EMAIL = pki.OIDS["emailAddress"]
    def signed_file(pubs):
        body = PF.MAGIC + PF.header() + b"".join(PF.pub(tt, im) for tt, im in sorted(pubs))
        return body + PF.sigrec(pki.sign(body))
    for _ in range(3 if not big else 30):
        base = S.build(rng, with_cal=True, anchor="pub")
        others = [(base.pub[0] - 86400 * 30, S.H(1, b"earlier")), (base.pub[0] + 86400 * 30, S.H(1, b"later"))]
        fa, fb = signed_file(others + [base.pub]), signed_file(others)
        fc = signed_file(others + [(base.pub[0], S.H(1, b"another hash for that time"))])
        U = lambda f: "u:%s:%s:%s" % (hx(f), EMAIL, hx(pki.SUBJECT["emailAddress"].encode()))   # noqa: E731
        v = "v:pubfile:-:0"
        yield "h %s %s" % (hx(base.enc()), " ".join([U(fa), v, U(fb), v, "s", U(fa), v, U(fc), v, v, "c"]))
        yield "h %s %s" % (hx(base.enc()), " ".join([U(fc), v, U(fa), v, "a:pubfile:-:0", U(fb), "a:pubfile:-:0", "s"]))
        # the caller's own publications file in the verification context decides, whatever file the context has fetched itself
        VU = lambda f, pol="pubfile": "vu:%s:%s" % (hx(f), pol)   # noqa: E731
        yield "h %s %s" % (hx(base.enc()), " ".join([U(fb), v, VU(fa), VU(fc), VU(fb), v, VU(fa, "general"), "s", U(fa), VU(fb), VU(fc), v, "c"]))
    # the same URL, other content: with a cache lifetime of 0 every use fetches the file again
    for _ in range(3 if not big else 30):
        base = S.build(rng, with_cal=True, anchor="pub")
        others = [(base.pub[0] - 86400 * 30, S.H(1, b"earlier")), (base.pub[0] + 86400 * 30, S.H(1, b"later"))]
        fa, fb = signed_file(others + [base.pub]), signed_file(others)
        fc = signed_file(others + [(base.pub[0], S.H(1, b"another hash for that time"))])
        U = lambda f: "u:%s:%s:%s" % (hx(f), EMAIL, hx(pki.SUBJECT["emailAddress"].encode()))   # noqa: E731
        UO = lambda f: "uo:%s" % hx(f)   # noqa: E731
        v = rng.choice(["v:pubfile:-:0", "a:pubfile:-:0", "v:general:-:0"])
        yield "h %s %s" % (hx(base.enc()), " ".join(["ttl:0", U(fa), v, UO(fb), v, "s", UO(fa), v, UO(fc), v, v, "c"]))
        yield "h %s %s" % (hx(base.enc()), " ".join([U(fb), "ttl:0", v, UO(fa), v, UO(fc), v, "s"]))
    # an extension that succeeds (honest reply through the file transport): the source stays what it was, the verdicts after it too
    for _ in range(8 if not big else 100):
        anchor = rng.choice(["pub", "auth", None])
        base = S.build(rng, with_cal=True, anchor=anchor)
        t = base.chains[0].time
        root = X8.aggregation_root(base)
        p = base.cal.pub_time + rng.choice([0, 1, 86400])
        ver = rng.choice([1, 2])
        good = X8.new_chain(rng, base, t, p, root)
        rep = X8.reply(ver, 1, 0, good)
        xp_rec = "xp:%d:%s:%s:-" % (ver, hx(rep), hx(X8.pubrec(p, good.root())))
        xp_to = "xp:%d:%s:-:%d" % (ver, hx(rep), p)
        xp_bad = "xp:%d:%s:%s:-" % (ver, hx(rep), hx(X8.pubrec(p, S.H(1, b"other root"))))
        v = "v:internal:-:0"
        yield "h %s %s" % (hx(base.enc()), " ".join(["s", v, xp_rec, "s", v, "c", xp_to, "s", xp_bad, "s", "v:general:-:0", xp_rec, "c"]))
    # signatures at the upper end of the two-octet length form: content of 0xfffb..0xffff octets
    for total in ((0xfffd, 0xfffe, 0xffff) if not big else (0xfffb, 0xfffc, 0xfffd, 0xfffe, 0xffff)):
        base = S.build(rng, anchor=rng.choice([None, "pub"]))
        body = len(base.enc()) - 4
        base.extra = tlv(0x1f0, rng.randbytes(total - body - 4), nc=1, fwd=rng.random() < 0.5)
        yield "h %s s c v:internal:-:0 s c" % hx(base.enc())
    # the repository's samples: a few operations on each
    res = os.path.join(core.REPO, "test", "resource", "tlv")
    if os.path.isdir(res):
        names = [f for f in sorted(os.listdir(res)) if f.endswith(".ksig")]
        for f in (names if big else names[::4]):
            raw = open(os.path.join(res, f), "rb").read()
            if len(raw) < 20000:
                yield "h %s s c v:internal:-:0 g v:general:-:0 s v:internal:-:1 x c s" % hx(raw)


def trivial(cls):
    return cls.endswith(":P")


CONFIG = Config()
CONFIG.pid = "C11"
CONFIG.props_module = "KsiVerif.Props.C11"
CONFIG.required_theorems = ["reparse_flatten", "parse_serialize_canonical", "aggrMemo_transparent", "runMemo_eq_runPure", "history_eq_fresh",
                             "history_from_parse"]
CONFIG.translators = [tables.gen_templates, tables.gen_hashalgs, tables.gen_policies]
CONFIG.engines = [Engine("c11", ["exec_c11.c"], "drv_c11", gen, trivial=trivial, env={"VERIF_PKI_DIR": os.path.join(core.VERIF, ".build", "pki")})]
CONFIG.rule = ("op lines from one PRNG (VERIF_SEED): one signature (hashlib-built: consistent, or with a wrong chain time / calendar input / root, or with an "
               "unknown non-critical element; plus the repository's .ksig samples) parsed once in one context with a logger installed, then a history of "
               "6..60 operations on that object: serialize, clone+serialize, verify under any of the seven predefined policies through either entry point "
               "with the right / another / another-algorithm / no document hash and levels {0, 1, lc, lc+1, 3, 17, 255, 256, 2^32}, extend attempts, "
               "builder operations on it (prepend a local aggregation chain that fits or not, change the root level), getters, log-level changes 0..5, "
               "parsing and verifying other (consistent and inconsistent) signatures in the same context. After every verification the executor asks the "
               "same question of a fresh parse in a fresh context. Oracle: every serialization equals the input octets (canonical inputs) and all "
               "serializations of one history agree; every verdict equals its fresh twin; model comparison of every verdict the model determines. Also inside a history: an extension that SUCCEEDS (honest reply through the file transport, with / without a publication record; source unchanged, result carries the record), the publications file replaced behind an unchanged URL with a cache lifetime of 0, signatures whose content is 0xfffd..0xffff octets, every second fresh context at another log level.")
CONFIG.trusted_base = [
    "Lean 4.33.0 kernel; axioms propext, Classical.choice, Quot.sound only",
    "the object model (Model/SigObject.lean): the kept element tree is only read by serialize / clone; the one piece of state a verification leaves "
    "is the per-chain memo of KSI_AggregationHashChain_aggregate, and rules reach chain outputs through that call only (hashchain.c:1013) — this frame "
    "is what the executor's histories test against the real object",
    "C09's codec theorems (parse of an encoding), C01's Verify model for the verdicts",
    "harness/exec_c11.c, lean/Drv/C11.lean, lib/ksiverif/sig.py"]
CONFIG.assumptions = [
    "extending needs a live extender and fails offline: covered here only as 'the failed attempt leaves the source unchanged' (successful extension is C08)",
    "tempData of a verification context is per verification (KSI_VerificationContext_clean) and not shared between verifications of the history"]
CONFIG.design_ref = "DESIGN.md section 4 and 8, C11"
CONFIG.technique = ("Lean 4 proofs (re-opening a parsed canonical encoding along its tree gives the tree back, so serialization is the input; the chain "
                    "memo is transparent, hence any history of verifications / serializations / clones behaves like fresh objects) + history executor "
                    "that compares every step with a fresh context")
CONFIG.level_text = ("Kernel-checked: for every encodable element tree, parse-reopen-serialize is the identity on its encoding; for every hash function, chain "
                     "list and every program whose only access to chain outputs is the memoised aggregate call, the result on an object with any reachable "
                     "memo state equals the result on a fresh object, and every history of verify / serialize / clone operations produces exactly the outputs "
                     "of fresh objects.")
CONFIG.level_note = ("Trusted: Lean kernel + standard axioms; the object model's frame (which fields an operation may touch) is validated, not proved, by the "
                     "history executor (~80 histories, ~1500 operations quick; every verdict against a fresh context and against the C01 model).")
