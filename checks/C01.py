"""C01 — internal verification accepts exactly the internally consistent signatures."""
import os
import sys

sys.path.insert(0, os.path.join(os.path.dirname(os.path.abspath(__file__)), "..", "lib"))
sys.path.insert(0, os.path.join(os.path.dirname(os.path.abspath(__file__)), "..", "translator"))
from ksiverif.runner import Config, Engine  # noqa: E402
from ksiverif import core, sig as S  # noqa: E402
from ksiverif.gen import tlv, be, hx  # noqa: E402
import tables  # noqa: E402

SHA1_DEPRECATED = 1467331200


def line(s, doc="-", level=0, pol="internal", label="ok", order=None):
    return "v %s %s %s %d %s" % (pol, hx(s.enc(order)), doc if doc == "-" else hx(doc), level, label)


def mutations(rng, base):
    """(label, signature) pairs: each breaks one consistency condition of `base` and repairs what depends on it"""
    out = []
    n = len(base.chains)
    # INT-01: a chain's input hash is not the previous chain's output
    if n > 1:
        s = base.clone(); k = rng.randrange(1, n)
        h = bytearray(s.chains[k].input_hash); h[rng.randrange(1, len(h))] ^= 1 << rng.randrange(8); s.chains[k].input_hash = bytes(h)
        out.append(("INT-01", s))
        s = base.clone(); k = rng.randrange(0, n - 1); l = rng.choice(s.chains[k].links)
        d = bytearray(l.data); d[-1] ^= 1; l.data = bytes(d)
        if l.kind != "m":
            out.append(("INT-01", s))
    # INT-02: aggregation times differ between chains
    if n > 1:
        s = base.clone(); s.chains[rng.randrange(1, n)].time += rng.choice([1, -1, 3600])
        out.append(("INT-02", s))
    if base.cal:
        # INT-03: calendar input is not the aggregation root
        s = base.clone(); h = bytearray(s.cal.input_hash); h[-1] ^= 0x80; s.cal.input_hash = bytes(h)
        r = s.cal.root()
        if s.pub: s.pub = (s.pub[0], r)
        if s.auth: s.auth = (s.auth[0], r)
        out.append(("INT-03", s))
        # INT-03 again: the last aggregation chain changed, calendar left alone
        s = base.clone(); l = s.chains[-1].links[-1]
        if l.kind == "h":
            d = bytearray(l.data); d[-1] ^= 1; l.data = bytes(d)
            out.append(("INT-03", s))
        # INT-04: the chains carry another time than the calendar chain
        s = base.clone()
        for c in s.chains:
            c.time += 1
        if s.rfc: s.rfc.time += 1
        out.append(("INT-04", s))
        # INT-05: the shape of the calendar chain gives another time
        s = base.clone()
        if len(s.cal.links) > 1:
            i = rng.randrange(len(s.cal.links))
            s.cal.links[i] = (not s.cal.links[i][0], s.cal.links[i][1])
            s.relink()
            out.append(("INT-05", s))
        s = base.clone()
        if s.cal.aggr_time is not None:
            s.cal.aggr_time += 1
            for c in s.chains:
                c.time += 1
            if s.rfc: s.rfc.time += 1
            out.append(("INT-05", s))
        s = base.clone(); s.cal.links = s.cal.links[1:]; s.relink()
        if s.cal.links:
            out.append(("INT-05", s))
        # surplus links at the leaf end: the time budget is already used up when they are met
        s = base.clone(); s.cal.links = [(False, bytes([1]) + rng.randbytes(32)) for _ in range(rng.choice([1, 1, 2]))] + s.cal.links; s.relink()
        out.append(("INT-05", s))
        s = base.clone(); s.cal.links = [(True, bytes([1]) + rng.randbytes(32))] + s.cal.links; s.relink()
        out.append(("INT-05", s))
    if base.pub:
        s = base.clone(); s.pub = (s.pub[0] + 1, s.pub[1]); out.append(("INT-07", s))
        s = base.clone(); h = bytearray(s.pub[1]); h[5] ^= 4; s.pub = (s.pub[0], bytes(h)); out.append(("INT-09", s))
        if base.pub[1][0] == 1:       # imprints that differ in nothing but the algorithm octet (SHA2-256 / SHA3-256 / SM3 digests have one length)
            s = base.clone(); s.pub = (s.pub[0], bytes([rng.choice([8, 0x0b])]) + s.pub[1][1:]); out.append(("INT-09", s))
    if base.auth:
        s = base.clone(); s.auth = (s.auth[0] - 1, s.auth[1]); out.append(("INT-06", s))
        s = base.clone(); h = bytearray(s.auth[1]); h[5] ^= 4; s.auth = (s.auth[0], bytes(h)); out.append(("INT-08", s))
        if base.auth[1][0] == 1:
            s = base.clone(); s.auth = (s.auth[0], bytes([rng.choice([8, 0x0b])]) + s.auth[1][1:]); out.append(("INT-08", s))
    # INT-10: a chain's own index element is not its shape (lower chains follow, so continuation still holds)
    s = base.clone(); k = rng.randrange(n); pos = len(s.chains[k].index) - 1
    newv = s.chains[k].index[pos] ^ rng.choice([1, 2, 1 << 10])
    for c in s.chains[:k + 1]:
        c.index[pos] = newv
    if s.rfc and pos < len(s.rfc.index): s.rfc.index[pos] = newv
    out.append(("INT-10", s))
    # INT-12: a lower chain does not continue the index of the one above
    if n > 1:
        s = base.clone(); k = rng.randrange(0, n - 1)
        s.chains[k].index[0] ^= 1
        if s.rfc and k == 0: s.rfc.index[0] ^= 1
        out.append(("INT-12", s))
        s = base.clone(); s.chains[0].index = s.chains[0].index[1:]
        if s.rfc: s.rfc.index = list(s.chains[0].index)
        out.append(("INT-12", s))
    # INT-11: metadata padding
    for bad in ("nopad-imprintlike", "pad-not-first", "pad-tlv16", "pad-flags", "pad-value", "odd", "two-pads"):
        s = base.clone(); c = rng.choice(s.chains[:-1] or s.chains); i = rng.randrange(len(c.links))
        cid = tlv(0x01, b"client\x00")
        if bad == "nopad-imprintlike":
            m = tlv(0x01, bytes(29) + b"\x00")            # 32 + 1 octets starting with 01: could be read as a SHA-256 imprint
            m = bytes([1, 31]) + bytes(30) + b"\x00"
        elif bad == "pad-not-first":
            m = cid + tlv(0x1e, b"\x01", nc=1, fwd=1)
            if len(m) % 2: m = cid + tlv(0x1e, b"\x01\x01", nc=1, fwd=1)
        elif bad == "pad-tlv16":
            m = tlv(0x1e, b"\x01\x01", nc=1, fwd=1, force16=True) + cid
            if len(m) % 2: m = tlv(0x1e, b"\x01", nc=1, fwd=1, force16=True) + cid
        elif bad == "pad-flags":
            m = tlv(0x1e, b"\x01\x01", nc=rng.choice([0, 1]), fwd=0) + cid
            if len(m) % 2: m = tlv(0x1e, b"\x01", nc=0, fwd=rng.choice([0, 1])) + cid
        elif bad == "pad-value":
            m = tlv(0x1e, rng.choice([b"\x00", b"\x01\x00", b"\x02", b"", b"\x01\x01\x01", b"\x02\x01", b"\x00\x01", b"\xff\x01"]), nc=1, fwd=1) + cid
            if len(m) % 2: m = m[:len(m) - len(cid)] + tlv(0x01, b"client2\x00")      # even length: the padding's value alone is wrong
        elif bad == "odd":
            m = tlv(0x1e, b"\x01", nc=1, fwd=1) + cid
            if len(m) % 2 == 0: m = tlv(0x1e, b"\x01\x01", nc=1, fwd=1) + cid
        else:
            m = tlv(0x1e, b"\x01", nc=1, fwd=1) + tlv(0x1e, b"\x01", nc=1, fwd=1) + cid
        c.links[i] = S.Link(c.links[i].is_left, c.links[i].lc, "m", m)
        s.relink()
        out.append(("INT-11:" + bad, s))
    # INT-15: a chain aggregated with SHA-1 after its deprecation
    s = base.clone()
    if s.chains[0].time < SHA1_DEPRECATED:
        for c in s.chains: c.time = SHA1_DEPRECATED + 5
        if s.rfc: s.rfc.time = SHA1_DEPRECATED + 5
        if s.cal:
            p = SHA1_DEPRECATED + 5 + 1000
            s.cal = S.Cal(p, SHA1_DEPRECATED + 5, b"", [(d, bytes([1]) + rng.randbytes(32)) for d in S.cal_dirs(SHA1_DEPRECATED + 5, p)])
            if s.pub: s.pub = (p, b"")
            if s.auth: s.auth = (p, b"")
    s.chains[rng.randrange(n)].algo = 0
    s.relink()
    out.append(("INT-15", s))
    return out


def gen(rng, tier):
    big = tier == "thorough"
    nbase = 40 if not big else 600
    for i in range(nbase):
        anchor = rng.choice(["pub", "auth", None])
        with_cal = rng.random() < 0.85
        with_rfc = rng.random() < 0.2
        base = S.build(rng, with_cal=with_cal, anchor=anchor if with_cal else None, with_rfc=with_rfc,
                       first_lc=rng.choice([None, 0, 1, 3, 7]))
        yield line(base, label="consistent")
        # a metadata record whose fields are encoded with headers longer than necessary is hashed as received: still consistent
        m = base.clone(); c = rng.choice(m.chains); i = rng.randrange(len(c.links))
        md = tlv(0x01, b"client-%d\x00" % rng.randrange(100), force16=True) + (tlv(0x02, b"machine\x00", force16=rng.random() < 0.5) if rng.random() < 0.5 else b"")
        md = tlv(0x1e, b"\x01" if (len(md) + 3) % 2 == 0 else b"\x01\x01", nc=1, fwd=1) + md
        c.links[i] = S.Link(c.links[i].is_left, c.links[i].lc, "m", md)
        m.relink()
        yield line(m, label="consistent")
        # the order of the chains in the file does not matter
        if len(base.chains) > 1:
            sh = list(base.chains); rng.shuffle(sh)
            yield line(base, label="consistent", order=sh)
        doc = base.rfc.input_hash if base.rfc else base.chains[0].input_hash
        lc = base.chains[0].links[0].lc or 0
        yield line(base, doc=doc, level=0, label="consistent")
        for lv in sorted(set([1, lc, lc + 1, 255, 256, 1 << 32, (1 << 32) + lc, (1 << 64) - 1])):
            lab = "consistent" if lv == 0 or (lv <= lc and not base.rfc) else ("GEN-03" if lv <= 255 else "level-invalid")
            yield line(base, doc=doc, level=lv, label=lab)
            if rng.random() < 0.3:
                yield line(base, level=lv, label=lab)
        # GEN-01 / GEN-04: another digest, another algorithm
        d = bytearray(doc); d[rng.randrange(1, len(d))] ^= 1 << rng.randrange(8)
        yield line(base, doc=bytes(d), label="GEN-01")
        other = rng.choice([a for a in (1, 4, 5, 0) if a != doc[0]])
        yield line(base, doc=bytes([other]) + rng.randbytes(S.DLEN[other]), label="GEN-04")
        for other in {1: [8, 0x0b], 0: [2], 4: [9], 5: [10]}.get(doc[0], []):      # another algorithm whose digests have the same length
            yield line(base, doc=bytes([other]) + doc[1:], label="GEN-04")
        if base.rfc:
            yield line(base, doc=base.chains[0].input_hash, label="GEN-01")      # the chain's input is not the document of a legacy signature
        for label, m in mutations(rng, base):
            yield line(m, label=label)
            if rng.random() < 0.2:
                yield line(m, doc=doc, label=label)
        # two conditions at once: the earlier rule decides
        ms = mutations(rng, base)
        if len(ms) >= 2 and rng.random() < 0.5:
            (l1, a), (l2, b) = rng.sample(ms, 2)
            # apply b's difference on top of a where that is simple: different record fields
            if l1[:6] in ("INT-07", "INT-09", "INT-06", "INT-08") and l2[:6] in ("INT-02", "INT-04", "INT-12", "INT-10"):
                c = b.clone(); c.pub, c.auth = a.pub, a.auth
                yield line(c, label="double")
    # hash algorithm lifetime: SHA-1 documents and legacy records signed before / at / after the deprecation date
    for t in (SHA1_DEPRECATED - 1, SHA1_DEPRECATED, SHA1_DEPRECATED + 1):
        for with_cal in (False, True):
            s = S.build(rng, with_cal=with_cal, anchor="pub" if with_cal else None, time=t, doc_algo=0)
            yield line(s, label="INT-13" if t >= SHA1_DEPRECATED else "consistent")
            s = S.build(rng, with_cal=with_cal, anchor=None, time=t, with_rfc=True)
            s.rfc.ta = 0; s.chains[0].input_hash = s.rfc.output(s.chains[0].input_hash[0]); s.relink()
            yield line(s, label="INT-14" if t >= SHA1_DEPRECATED else "consistent")
            s = S.build(rng, with_cal=with_cal, anchor=None, time=t, with_rfc=True)
            s.rfc.sa = 0; s.chains[0].input_hash = s.rfc.output(s.chains[0].input_hash[0]); s.relink()
            yield line(s, label="INT-14" if t >= SHA1_DEPRECATED else "consistent")
            s = S.build(rng, with_cal=with_cal, anchor=None, time=t, with_rfc=True)
            s.chains[0].input_hash = s.rfc.output(0); s.relink()          # only the record's output is SHA-1, the document hash is not
            yield line(s, label="INT-17" if t >= SHA1_DEPRECATED else "consistent")
            s = S.build(rng, with_cal=with_cal, anchor=None, time=t, with_rfc=True, doc_algo=0)
            yield line(s, label="INT-13" if t >= SHA1_DEPRECATED else "consistent")   # document and output both SHA-1: the earlier rule decides
    # legacy record: wrong output hash, wrong time, wrong index, huge algorithm ids
    for _ in range(10 if not big else 100):
        s = S.build(rng, with_rfc=True, anchor=None)
        m = s.clone(); m.rfc.tp = m.rfc.tp + b"\x00"; yield line(m, label="INT-01")
        m = s.clone(); m.rfc.time += 1; yield line(m, label="INT-02")
        m = s.clone(); m.rfc.index = m.rfc.index + [3]; yield line(m, label="INT-12")
        m = s.clone(); m.rfc.ta = rng.choice([0x100, 0x101, 1 << 32, (1 << 32) + 1, 3, 7]); yield line(m, label="algo")
        m = s.clone(); m.rfc.sa = rng.choice([0x100, (1 << 32) + 1, 6, 0x7e]); yield line(m, label="algo")
    # aggregation algorithm ids outside the table, level corrections at the limits, long chains
    for _ in range(10 if not big else 100):
        s = S.build(rng, nchains=rng.choice([1, 2]), anchor=None)
        m = s.clone(); m.chains[-1].algo = rng.choice([3, 6, 7, 0x7e, 0xff, 0x100, 0x101, (1 << 32) + 1, 1 << 63]); yield line(m, label="algo")
        m = s.clone(); m.chains[0].links[0].lc = rng.choice([0xfe, 0xff, 0x100, 1 << 32, (1 << 64) - 1]); yield line(m, label="lc")
        # a level correction that makes the level wrap around to a consistent-looking value: everything above it recomputed modulo 256
        m = s.clone(); k = rng.randrange(len(m.chains)); j = rng.randrange(len(m.chains[k].links))
        m.chains[k].links[j].lc = rng.choice([(1 << 64) - 1, (1 << 64) - 1, (1 << 32) - 1, 1 << 32, (1 << 64) - 2, 0x100, 0x1ff]); m.relink(); yield line(m, label="lc-out-of-range")
        m = s.clone(); m.chains[0].links = m.chains[0].links * 20; m.chains[0].index[-1] = m.chains[0].shape() & ((1 << 64) - 1); yield line(m, label="long")
        m = s.clone(); m.chains[0].index = []
        for c in m.chains[1:]: pass
        yield line(m, label="noindex")
    # the repository's own samples
    res = os.path.join(core.REPO, "test", "resource", "tlv")
    if os.path.isdir(res):
        for f in sorted(os.listdir(res)):
            if f.endswith(".ksig") or f.endswith(".gtts"):
                raw = open(os.path.join(res, f), "rb").read()
                if len(raw) < 20000:
                    yield "v internal %s - 0 sample:%s" % (hx(raw), f)


def trivial(cls):
    return cls.endswith(":P")


CONFIG = Config()
CONFIG.pid = "C01"
CONFIG.props_module = "KsiVerif.Props.C01"
CONFIG.required_theorems = ["internal_tree", "internal_ok_iff", "never_ok_if_violated", "first_violation", "links_nil", "links_cons",
                             "code_GEN04", "code_GEN01", "code_GEN03", "code_INT13", "code_INT14", "code_INT17", "code_INT01_rfc", "code_INT11",
                             "code_INT15", "code_INT12", "code_INT02", "code_INT01", "code_INT10", "code_INT03", "code_INT04", "code_INT05",
                             "code_INT16", "code_INT09", "code_INT07", "code_INT08", "code_INT06"]
CONFIG.translators = [tables.gen_templates, tables.gen_hashalgs, tables.gen_policies]
CONFIG.engines = [Engine("c01", ["exec_c01.c"], "drv_c01", gen, trivial=trivial)]
CONFIG.rule = ("op lines from one PRNG (VERIF_SEED). Signatures are built from scratch with hashlib (1-4 aggregation chains, 1-5 links each with imprint / "
               "legacy-id / metadata siblings and level corrections, chain algorithms SHA-256/384/512, with or without calendar chain, publication record, "
               "authentication record, RFC3161 record), serialized, and verified with KSI_SignatureVerifier_verify(KSI_VERIFICATION_POLICY_INTERNAL) after "
               "KSI_Signature_parseWithPolicy(EMPTY), and with KSI_Signature_verifyWithPolicy. Per base signature: the consistent one (also with the chains "
               "shuffled in the file), levels {1, lc, lc+1, 255, 256, 2^32, 2^32+lc, 2^64-1}, another digest / another algorithm as document hash, one "
               "mutation per condition (INT-01..INT-12, INT-15, seven kinds of bad metadata padding) each repairing everything that depends on the changed "
               "value, pairs of violations; SHA-1 documents / legacy records / chains one second before, at and after the deprecation date; legacy-record "
               "and aggregation algorithm ids outside the table and beyond 32 bits; level corrections 254..2^64-1; 20x repeated link lists; all .ksig/.gtts "
               "samples under test/resource/tlv. Each line carries the generator's own label; the driver checks implementation == model and, independently, "
               "implementation verdict == label (consistent => OK; violated condition => its code as FAIL, for INT-05 also NA; never OK).")
CONFIG.trusted_base = [
    "Lean 4.33.0 kernel; axioms propext, Classical.choice, Quot.sound only",
    "the hash function is a parameter of every theorem; the driver instantiates it with the SHA-1/256/384/512 of KsiVerif.Model.Sha, the generator with "
    "hashlib, libksi with OpenSSL: three independent computations are compared",
    "the typed parser of signatures is the C10 model (generated template tables); Sig.ofVals reads its output",
    "the rule tree of the internal policy and the rule names are regenerated from the built library / verification_rule.h on every run; theorem "
    "internal_tree pins the tree the proofs walk, so a changed tree breaks the proof",
    "hash-algorithm deprecation / obsolescence dates come from the generated table (hash.c)",
    "translator/tables.py, translator/dump.c, harness/exec_c01.c, lean/Drv/C01.lean, lib/ksiverif/sig.py (label oracle)"]
CONFIG.assumptions = [
    "the conditions are stated on the typed signature (Spec/Consistency.lean) with the shared definitions of chain aggregation, calendar time and "
    "shape derivation (HashChain model, proved against their specs under C03/C05); 'independent evaluation' in the running check is the generator, "
    "which builds every signature and its expected verdict with hashlib and shares no code with the library or the model",
    "chains whose index lists have equal length are ordered by qsort in the library (unstable): on such inputs only the kind of verdict is compared",
    "RIPEMD-160 chains are outside the compared domain (no Lean implementation); metadata with non-minimal inner TLV headers is outside the domain "
    "by the property's own quantifier",
    "memoisation of chain results (outputHash/inputLevel) is not modelled separately: the executor verifies every signature three times on one object (a primer from "
    "another start level, the measured call, KSI_Signature_verifyWithPolicy), so a stale memoised result shows as a difference"]
CONFIG.design_ref = "DESIGN.md section 4 and 8, C01"
CONFIG.technique = ("Lean 4 proofs (internal policy OK <=> the twelve consistency conditions, by walking the generated rule tree; first violated "
                    "condition determines the verdict and its documented code) + differential check model/implementation + hashlib-built label oracle")
CONFIG.level_text = ("Kernel-checked for every hash function, signature and context: the internal policy's verdict is OK exactly when the structure "
                     "Consistent holds (internal_ok_iff), hence never OK when any condition is violated; the first condition (in policy order) that fails "
                     "decides the verdict (first_violation), and for each condition the verdict is FAIL with the documented code (GEN-01/03/04, INT-01..17), "
                     "or an error status / NA exactly when the compared value cannot be computed (code_* theorems).")
CONFIG.level_note = ("Trusted: Lean kernel + standard axioms; the Verify model (36 basic rules) and its differential tie (~2*10^3 signatures quick, ~3*10^4 "
                     "thorough, incl. every repository sample); the parser model of C10.")
