"""C18 — publications file: strict structure, exact signed range, trust only via PKI, lookups."""
import os
import sys

sys.path.insert(0, os.path.join(os.path.dirname(os.path.abspath(__file__)), "..", "lib"))
sys.path.insert(0, os.path.join(os.path.dirname(os.path.abspath(__file__)), "..", "translator"))
from ksiverif.runner import Config, Engine  # noqa: E402
from ksiverif import core, pki  # noqa: E402
from ksiverif.gen import tlv, be, hx  # noqa: E402
import tables  # noqa: E402

MAGIC = b"KSIPUBLF"
SUBJ = ",".join("%s:%s" % (pki.OIDS[k], v.encode().hex()) for k, v in pki.SUBJECT.items())
EMAIL, CN, CO, ORG, OU = (pki.OIDS[k] for k in ("emailAddress", "CN", "C", "O", "OU"))


def cons(*pairs):
    return ",".join("%s:%s" % (o, v.encode().hex()) for o, v in pairs) if pairs else "e"


GOOD = cons((EMAIL, pki.SUBJECT["emailAddress"]))


def header(ver=1, created=1500000000, uri=None, raw=None):
    body = raw if raw is not None else tlv(1, be(ver)) + tlv(2, be(created)) + (tlv(3, uri + b"\x00") if uri else b"")
    return tlv(0x701, body)


def cert(cid, der):
    return tlv(0x702, tlv(1, cid) + tlv(2, der))


def pub(t, imp, refs=(), uris=()):
    return tlv(0x703, tlv(0x10, tlv(2, be(t)) + tlv(4, imp)) + b"".join(tlv(9, r + b"\x00") for r in refs) + b"".join(tlv(0xa, u + b"\x00") for u in uris))


def sigrec(der):
    return tlv(0x704, der)


def imprint(rng, a=1):
    return bytes([a]) + rng.randbytes({1: 32, 4: 48, 5: 64}[a])


class World:
    """certificates and one signature blob per distinct body (signing is a process each: cached)"""
    def __init__(self):
        self.ees = pki.ee_certs()
        self.cache = {}

    def sign(self, body, signer="signer"):
        k = (body, signer)
        if k not in self.cache:
            self.cache[k] = pki.sign(body, signer)
        return self.cache[k]


def pf_line(raw, anchors, fc, cc, sigrange, chain, good, before, label):
    return "pf %s %s %s %s %s %s %s %s %s %s" % (hx(raw), anchors, fc, cc, sigrange, chain, SUBJ, ",".join(hx(g) for g in good) or "-", before, label)


def trusted(anchors, signer_ca, fc, cc, exact):
    eff = fc if fc != "-" else cc
    return anchors == signer_ca and eff in exact


def gen(rng, tier):
    big = tier == "thorough"
    W = World()
    ee = W.ees
    recs = [header(uri=b"http://verify.example/pub.bin")] + [cert(bytes([k, 1, 2, 3]), ee[k]) for k in range(2)] + \
           [pub(1400000000 + 86400 * k, imprint(rng)) for k in range(3)]
    body = MAGIC + b"".join(recs)
    sig = W.sign(body)
    good = [ee[0], ee[1], sig]
    F = body + sigrec(sig)
    n = len(body)
    S = pki.SUBJECT
    # ---- trust: anchors x constraint sets x where they are configured ----
    exact = {GOOD, cons((ORG, S["O"])), cons((EMAIL, S["emailAddress"]), (ORG, S["O"]), (CN, S["CN"]), (CO, S["C"])), cons((CN, S["CN"]), (EMAIL, S["emailAddress"]))}
    wrong = [cons((EMAIL, S["emailAddress"][:-8])), cons((EMAIL, S["emailAddress"] + "x")), cons((EMAIL, S["emailAddress"].upper())),
             cons((EMAIL, "someone@else.example")), cons((OU, "Publications")), cons((EMAIL, S["emailAddress"]), (ORG, "Test")),
             cons((ORG, "Test Org "), (EMAIL, S["emailAddress"])), cons((ORG, S["O"][:4])), cons((CN, "")), cons((EMAIL, S["emailAddress"]), (OU, S["O"])),
             cons((CO, "E")), cons((CO, "EEE")), "e", "-"]
    for anchors in ("ca", "other", "none"):
        for spec in sorted(exact) + wrong:
            for fc, cc in ((spec, "-"), ("-", spec), (spec, rng.choice(wrong[:6])), (spec, GOOD), ("e", spec)):
                if fc == "-" and cc == "-" and rng.random() < 0.5:
                    continue
                lab = "accept:trusted" if trusted(anchors, "ca", fc, cc, exact) else "accept:untrusted"
                yield pf_line(F, anchors, fc, cc, n, 1 if anchors == "ca" else 0, good, n, lab)
    # constraints set on the file and taken back (NULL): the context's decide again
    for anchors in ("ca", "other"):
        for cc in (GOOD, wrong[3], "-", "e"):
            lab = "accept:trusted" if trusted(anchors, "ca", "-", cc, exact) else "accept:untrusted"
            yield pf_line(F, anchors, "x:" + GOOD, cc, n, 1 if anchors == "ca" else 0, good, n, lab)
            yield pf_line(F, anchors, "x:" + wrong[3], cc, n, 1 if anchors == "ca" else 0, good, n, lab)
    # the same file signed under the other root
    sig2 = W.sign(body, "signer_other")
    F2 = body + sigrec(sig2)
    for anchors in ("ca", "other", "none"):
        lab = "accept:trusted" if anchors == "other" else "accept:untrusted"
        yield pf_line(F2, anchors, GOOD, "-", n, 1 if anchors == "other" else 0, [ee[0], ee[1], sig2], n, lab)
    # ---- structure ----
    H = recs[0]; C = recs[1:3]; P = recs[3:6]
    unk_nc = tlv(0x710, b"\x01\x02", nc=1); unk_cr = tlv(0x711, b"\x01\x02"); unk_nc_fwd = tlv(0x1f0, b"", nc=1, fwd=1)

    def signed(parts, after=b"", signer="signer"):
        b = MAGIC + b"".join(parts)
        s = W.sign(b)
        return b + sigrec(s) + after, len(b), s

    accept = [
        ("plain", [H] + C + P), ("no-certs", [H] + P), ("no-pubs", [H] + C), ("header-only", [H]),
        ("unknown-nc-between", [H, unk_nc] + C + [unk_nc_fwd] + P + [unk_nc]), ("unknown-nc-first", [unk_nc, H] + C + P),
        ("many", [H] + C * 3 + [pub(1300000000 + k, imprint(rng, rng.choice([1, 4, 5])), refs=[b"ref %d" % k], uris=[b"http://x/%d" % k]) for k in range(12)]),
        ("same-pub-twice", [H] + C + [P[0], P[0], P[1]]), ("pubs-unsorted", [H] + C + [P[2], P[0], P[1]]),
        ("header-no-uri", [header()] + C + P),
    ]
    for name, parts in accept:
        raw, nb, s = signed(parts)
        yield pf_line(raw, "ca", GOOD, "-", nb, 1, ee + [s], nb, "accept:trusted")
        yield pf_line(raw, "ca", "-", "-", nb, 1, ee + [s], nb, "accept:untrusted")
    reject = [
        ("cert-before-header", C + [H] + P), ("pub-before-cert", [H, P[0]] + C + P[1:]), ("pub-before-header", P + [H] + C), ("two-headers", [H, H] + C + P),
        ("two-headers-apart", [H] + C + [H] + P), ("no-header", C + P), ("unknown-critical", [H, unk_cr] + C + P), ("unknown-critical-last", [H] + C + P + [unk_cr]),
        ("header-without-version", [header(raw=tlv(2, be(1500000000)))] + C + P), ("header-unknown-critical-inside", [header(raw=tlv(1, be(1)) + tlv(2, be(5)) + tlv(0x1c, b"x"))] + C + P),
        ("cert-not-der", [H, cert(b"\x09\x09", b"\x30\x03\x02\x01")] + P), ("pub-without-imprint", [H] + C + [tlv(0x703, tlv(0x10, tlv(2, be(1400000000))))]),
        ("pub-bad-imprint-length", [H] + C + [tlv(0x703, tlv(0x10, tlv(2, be(1400000000)) + tlv(4, bytes([1]) + bytes(31))))]),
        ("pub-time-leading-zero", [H] + C + [tlv(0x703, tlv(0x10, tlv(2, b"\x00\x01") + tlv(4, imprint(rng))))]),
    ]
    for name, parts in reject:
        raw, nb, s = signed(parts)
        yield pf_line(raw, "ca", GOOD, "-", nb, 1, ee + [s], nb, "reject")
    raw, nb, s = signed([H] + C + P)
    for name, after in (("known-after-signature", P[0]), ("cert-after-signature", C[0]), ("header-after-signature", H), ("unknown-nc-after-signature", unk_nc),
                        ("unknown-nc-fwd-after-signature", unk_nc_fwd), ("unknown-critical-after-signature", unk_cr), ("second-signature", sigrec(s)),
                        ("one-octet-after-signature", b"\x00"), ("partial-record-after-signature", sigrec(s)[:7]), ("empty-tlv8-after-signature", b"\x41\x00")):
        yield pf_line(raw + after, "ca", GOOD, "-", nb, 1, ee + [s], nb, "reject")
    for name, r2 in (("no-signature", MAGIC + b"".join([H] + C + P)), ("magic-only", MAGIC), ("short", MAGIC[:5]), ("empty-record-list-sig-only", MAGIC + sigrec(s)),
                     ("bad-magic", b"KSIPUBLG" + raw[8:]), ("lower-magic", b"ksipublf" + raw[8:]), ("signature-first", MAGIC + sigrec(s) + b"".join([H] + C + P)),
                     ("signature-in-the-middle", MAGIC + H + b"".join(C) + sigrec(s) + b"".join(P)), ("truncated-1", raw[:-1]), ("truncated-sig-header", raw[:nb + 3]),
                     ("signature-not-der", MAGIC + b"".join([H] + C + P) + sigrec(b"\x30\x02\x05\x00"))):
        yield pf_line(r2, "ca", GOOD, "-", "-", 1, ee + [s], "?", "reject")
    # ---- the signed range: a signature made over anything else than "everything before the signature record" does not count ----
    full = [H] + C + P
    b = MAGIC + b"".join(full)
    for name, msg in (("without-magic", b[8:]), ("without-last-record", MAGIC + b"".join(full[:-1])), ("with-signature-header", None), ("only-magic", MAGIC), ("empty", b"")):
        if msg is None:
            s0 = W.sign(b)
            msg = b + sigrec(s0)[:4]
        s = W.sign(msg)
        r2 = b + sigrec(s)
        sr = len(msg) if r2[:len(msg)] == msg else "-"
        yield pf_line(r2, "ca", GOOD, "-", sr, 1, ee + [s], len(b), "accept:untrusted")
    # an unknown non-critical record belongs to the signed range: inserting one afterwards breaks the signature
    r2 = MAGIC + b"".join([H] + C + [unk_nc] + P) + sigrec(sig)
    yield pf_line(r2, "ca", GOOD, "-", "-", 1, ee + [sig], len(r2) - len(sigrec(sig)), "accept:untrusted")
    # ---- every single-octet change ----
    small_parts = [header(), cert(b"\x01\x02", ee[2]), pub(1400000000, imprint(rng)), pub(1400086400, imprint(rng))]
    raw, nb, s = signed(small_parts)
    positions = list(range(nb)) if big else sorted(set([0, 7, 8, 9, 10, 11, 12, nb - 1, nb - 2] + [rng.randrange(nb) for _ in range(70)]))
    c0 = raw.index(ee[2]); c1 = c0 + len(ee[2])
    for pos in positions:
        m = bytearray(raw); m[pos] ^= 1 << rng.randrange(8)
        extra = []
        if c0 <= pos < c1 and pki.cli_cert_parses(bytes(m[c0:c1])):
            extra = [bytes(m[c0:c1])]          # a changed certificate that OpenSSL still reads as a certificate
        yield pf_line(bytes(m), "ca", GOOD, "-", "-", 1, ee + [s] + extra, "?", "changed")
    # inside the signature record: whatever OpenSSL itself still accepts is not counted as a change of "the signature"
    sigpos = list(range(nb, len(raw))) if big else [nb + k for k in sorted(set(rng.randrange(len(raw) - nb) for _ in range(12)))]
    if big:
        sigpos = [p for p in sigpos if rng.random() < 0.25]
    for pos in sigpos:
        m = bytearray(raw); m[pos] ^= 1 << rng.randrange(8)
        m = bytes(m)
        still = False
        if m[:nb + 4] == raw[:nb + 4]:
            still = pki.cli_verify(m[:nb], m[nb + 4:])
        blob_ok = m[:nb + 4] == raw[:nb + 4] and pki.cli_pkcs7_parses(m[nb + 4:])
        yield pf_line(m, "ca", GOOD, "-", "?", 1, ee + [s] + ([m[nb + 4:]] if blob_ok else []), "?", "sig-damage-tolerated-by-openssl" if still else "changed")
    # ---- lookups ----
    for _ in range(40 if not big else 300):
        npub = rng.choice([0, 1, 2, 3, 5, 8, 20])
        times = [rng.choice([1400000000, 1400000001, 1400000005, 1400086400, 1500000000, 5, (1 << 32) + 7, (1 << 63) + 1]) for _ in range(npub)]
        if rng.random() < 0.3:
            times.sort()
        pubs = [(t, imprint(rng, rng.choice([1, 1, 4]))) for t in times]
        ncert = rng.choice([0, 1, 3, 5])
        certs = [(rng.choice([b"\x01", b"\x01\x02", b"\x01\x02\x03", b"", b"\xff" * 4]), rng.choice(ee)) for _ in range(ncert)]
        raw = MAGIC + header() + b"".join(cert(i, d) for i, d in certs) + b"".join(pub(t, im) for t, im in pubs) + sigrec(sig)
        qs, exps = [], []
        qt = sorted(set([0, 1, (1 << 64) - 1] + [t + d for t in times for d in (-1, 0, 1) if 0 <= t + d < (1 << 64)]))
        rng.shuffle(qt)
        for t in qt[:10]:
            ge = [p for p in pubs if p[0] >= t]
            qs.append("t:%d" % t); exps.append("x:%s" % (t if any(p[0] == t for p in pubs) else "-"))
            qs.append("ft:%d" % t); exps.append("x:%s" % (t if any(p[0] == t for p in pubs) else "-"))
            qs.append("n:%d" % t); exps.append("x:%s" % (min(p[0] for p in ge) if ge else "-"))
            qs.append("l:%d" % t); exps.append("x:%s" % (max(p[0] for p in ge) if ge else "-"))
        qs.append("l:-"); exps.append("x:%s" % (max(p[0] for p in pubs) if pubs else "-"))
        for t, im in pubs[:3]:
            qs.append("f:%d:%s" % (t, hx(im))); exps.append("x:%d" % t)
            other = bytearray(im); other[-1] ^= 1
            qs.append("f:%d:%s" % (t, hx(bytes(other)))); exps.append("x:%s" % (t if (t, bytes(other)) in pubs else "-"))
            qs.append("f:%d:%s" % (t + 1, hx(im))); exps.append("x:%s" % (t + 1 if (t + 1, im) in pubs else "-"))
        for cid in [b"\x01", b"\x01\x02", b"\x01\x02\x03", b"\xff" * 4, b"\x02", b"\x01\x02\x03\x04"]:
            qs.append("c:%s" % hx(cid)); exps.append("y")
        yield "pq %s %s | %s %s" % (hx(raw), " ".join(qs[:70]), ",".join(hx(g) for g in ee + [sig]), " ".join(exps[:70]))
    # ---- the repository's own publications files: structure and lookups only (their certificates are not ours) ----
    res = os.path.join(core.REPO, "test", "resource", "tlv")
    for f in ("publications.tlv", "ksi-publications.bin", "publications.15042014.tlv"):
        pth = os.path.join(res, f)
        if os.path.exists(pth):
            raw = open(pth, "rb").read()
            blobs = harvest(raw)
            yield "pq %s t:1397520000 n:1397520001 n:0 l:- l:1500000000 ft:5 c:01 | %s y y y y y y y" % (hx(raw), ",".join(hx(g) for g in blobs))


def harvest(raw):
    """DER blobs (certificates, signature) of a repository publications file, by walking its records"""
    out, i = [], 8
    def rd(b, i):
        if b[i] & 0x80:
            return ((b[i] & 0x1f) << 8) | b[i + 1], 4, (b[i + 2] << 8) | b[i + 3]
        return b[i] & 0x1f, 2, b[i + 1]
    while i + 2 <= len(raw):
        t, h, n = rd(raw, i)
        v = raw[i + h:i + h + n]
        if t == 0x704:
            out.append(v)
        elif t == 0x702:
            j = 0
            while j + 2 <= len(v):
                t2, h2, n2 = rd(v, j)
                if t2 == 2:
                    out.append(v[j + h2:j + h2 + n2])
                j += h2 + n2
        i += h + n
    return out


def trivial(cls):
    return False


CONFIG = Config()
CONFIG.pid = "C18"
CONFIG.props_module = "KsiVerif.Props.C18"
CONFIG.required_theorems = ["parse_iff", "signed_range_exact", "sections_in_order", "header_and_signature_once", "header_and_signature_present",
                             "verify_ok_iff", "no_constraints_never_trusted", "verify_reads_only_signed_range", "wrong_constraint_refused",
                             "by_time_spec", "find_spec", "nearest_spec", "latest_spec", "cert_by_id_spec"]
CONFIG.translators = [tables.gen_templates, tables.gen_crc]
CONFIG.engines = [Engine("c18", ["exec_c18.c"], "drv_c18", gen, trivial=trivial, env={"VERIF_PKI_DIR": os.path.join(core.VERIF, ".build", "pki"),
                                                                                   # a trust store made without defaults must not look here
                                                                                   "SSL_CERT_FILE": os.path.join(core.VERIF, ".build", "pki", "ca.pem"),
                                                                                   "LSAN_OPTIONS": "suppressions=%s:print_suppressions=0" % os.path.join(core.VERIF, "harness", "lsan.supp"),
                                                                                   # the suppression matches on frames inside libcrypto, which the fast unwinder cannot walk
                                                                                   "ASAN_OPTIONS": "detect_leaks=1:abort_on_error=0:exitcode=99:allocator_may_return_null=1:fast_unwind_on_malloc=0"})]
CONFIG.rule = ("op lines from one PRNG (VERIF_SEED); files are built record by record and signed with a throw-away CA made by the openssl command line "
               "(.build/pki: two roots, one signer under each). Trust: one file x anchors {its root, another root, none} x 18 constraint sets (exact; prefix, "
               "longer, other case, other value; absent attribute; one of several wrong; empty; none) x where configured (file, context, both with either "
               "one wrong, empty on the file). Structure: 10 accepted shapes (empty sections, unknown non-critical records anywhere before the signature, "
               "repeated / unsorted publications) and 36 refused ones (each section out of order, header or signature twice or missing, unknown critical "
               "records, anything at all after the signature record incl. unknown non-critical and a single octet, signature first / in the middle, bad or "
               "short magic, truncations, malformed header / certificate / publication / signature content). Signed range: signatures made over every other "
               "range than 'everything before the signature record'; a record inserted after signing. Single-octet changes: every position of the signed "
               "range (thorough; 80 sampled quick) and of the signature record (sampled; what openssl's own smime -verify still accepts is exempt). Lookups: "
               "random publication sets (0..20, times chosen to collide, 2^32+7, 2^63+1) x by-time / find / nearest / latest (with and without time) around "
               "every time, find by time+imprint (equal, one bit off, time off), certificate ids incl. duplicates and the empty id; answers compared with a "
               "reference scan written from the property text and, exactly, with the model.")
CONFIG.trusted_base = [
    "Lean 4.33.0 kernel; axioms propext, Classical.choice, Quot.sound only",
    "OpenSSL is a parameter (structure Pki): PKCS7_verify, X509_verify_cert and the subject lookup are not modelled; the generator states what they "
    "answer for each file from its own knowledge (which octets it signed, which root) and, for damaged signature blobs, from `openssl smime -verify`",
    "cryptographic strength of PKCS#7 / RSA / SHA-256 is assumed: 'a signature over m does not verify over m' ≠ m'",
    "the typed parser is the C10 model over the generated template tables; a DER blob is 'parsable' when the generator says so",
    "translator/tables.py, harness/exec_c18.c, lean/Drv/C18.lean, lib/ksiverif/pki.py"]
CONFIG.assumptions = [
    "unknown records flagged non-critical are accepted anywhere before the signature record (TLV forward compatibility, as for every other structure) "
    "and are part of the signed range; the property's 'consists of' is read modulo such records",
    "ties in nearest / latest are broken towards the later record in file order (theorems state it; the oracle only demands the right time)",
    "a subject attribute longer than 255 octets is compared on its first 255 octets by the library (X509_NAME_get_text_by_OBJ into char[256]); not "
    "reachable with certificates that respect the X.520 upper bounds, not exercised"]
CONFIG.design_ref = "DESIGN.md section 4 and 8, C18"
CONFIG.technique = ("Lean 4 proofs (reader = schema check over the record tiling; signed range = everything before the final signature record; trust <=> "
                    "PKCS#7 over that range + chain + non-empty constraint set all matching; lookups = reference scan) + differential check with a test CA")
CONFIG.level_text = ("Kernel-checked for every octet string: KSI_PublicationsFile_parse accepts exactly magic + records tiling the rest, nothing after a "
                     "signature record, record sequence conforming to the generated table (header once, certificate records, publication records, "
                     "signature once, in that order) with all values parsing; signedDataLength is exactly the offset of that final record. For every PKI "
                     "behaviour: verification is OK exactly when the PKCS#7 signature verifies over raw[0..signedDataLength), the signer chains to an "
                     "anchor, and a non-empty constraint set (file's, else context's) matches attribute by attribute. Every lookup returns what a "
                     "reference scan returns (first with the time / id, earliest not before, latest (not before), none exactly when none qualifies).")
CONFIG.level_note = ("Trusted: Lean kernel + standard axioms; OpenSSL as a parameter; the C10 parser model; differential tie on ~600 files quick.")
