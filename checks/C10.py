"""C10 — typed parsing enforces the KSI schema; unknown elements obey the critical flag."""
import os
import sys

sys.path.insert(0, os.path.join(os.path.dirname(os.path.abspath(__file__)), "..", "lib"))
sys.path.insert(0, os.path.join(os.path.dirname(os.path.abspath(__file__)), "..", "translator"))
from ksiverif.runner import Config, Engine  # noqa: E402
from ksiverif import core  # noqa: E402
from ksiverif.gen import tlv, be, hx, DIGEST_LEN  # noqa: E402
import tables  # noqa: E402

F_MAND, F_L0, F_L1, F_M0, F_M1, F_ORDER, F_FIRST, F_LAST = 0x04, 0x08, 0x10, 0x80, 0x100, 0x200, 0x400, 0x800

_schema = None
_der = None


def schema():
    """the template tables, as dumped from the built library (only used to steer generation)"""
    global _schema
    if _schema is None:
        _schema = {t["name"]: t["entries"] for t in tables.run_dumper(["templates"])["templates"]}
    return _schema


def split_tlvs(b):
    out, i = [], 0
    while i < len(b):
        if b[i] & 0x80:
            tag, n, h = ((b[i] & 0x1f) << 8) | b[i + 1], (b[i + 2] << 8) | b[i + 3], 4
        else:
            tag, n, h = b[i] & 0x1f, b[i + 1], 2
        out.append((tag, b[i + h:i + h + n], b[i:i + h + n]))
        i += h + n
    return out


def der_blobs():
    """a certificate and a PKCS#7 signature that OpenSSL accepts, taken from the repository's own test file"""
    global _der
    if _der is None:
        _der = {"cert": [], "pkiSig": []}
        p = os.path.join(core.REPO, "test", "resource", "tlv", "ksi-publications.bin")
        if os.path.exists(p):
            raw = open(p, "rb").read()
            for tag, pl, _ in split_tlvs(raw[8:]):
                if tag == 0x702:
                    for t2, p2, _ in split_tlvs(pl):
                        if t2 == 0x02 and len(_der["cert"]) < 2:
                            _der["cert"].append(p2)
                if tag == 0x704:
                    _der["pkiSig"].append(pl)
    return _der


class N:
    """generator-side tree node: raw value or children parsed under a template"""
    def __init__(self, tag, payload=None, kids=None, tm=None, nc=0, fwd=0, kind=None):
        self.tag, self.payload, self.kids, self.tm, self.nc, self.fwd, self.kind = tag, payload, kids, tm, nc, fwd, kind

    def content(self):
        return self.payload if self.kids is None else b"".join(k.enc() for k in self.kids)

    def enc(self):
        return tlv(self.tag, self.content(), self.nc, self.fwd)

    def clone(self):
        return N(self.tag, self.payload, None if self.kids is None else [k.clone() for k in self.kids], self.tm, self.nc, self.fwd, self.kind)

    def composites(self):
        out = [self] if self.kids is not None and self.tm else []
        for k in self.kids or []:
            out += k.composites()
        return out

    def leaves(self):
        if self.kids is None:
            return [self] if self.kind else []
        out = []
        for k in self.kids:
            out += k.leaves()
        return out


DISPATCH = {
    "header": lambda tag: "KSI_Header", "pubData": lambda tag: "KSI_PublicationData",
    "aggrReq": lambda tag: "KSI_AggregationReq" if tag == 0x201 else "KSI_AggregationReq_v2",
    "aggrResp": lambda tag: "KSI_AggregationResp" if tag == 0x202 else "KSI_AggregationResp_v2",
    "extReq": lambda tag: "KSI_ExtendReq",
    "extResp": lambda tag: "KSI_ExtendResp" if tag == 0x302 else "KSI_ExtendResp_v2",
    "link": lambda tag: "KSI_HashChainLink", "metaData": lambda tag: "KSI_MetaDataElement",
}

INTS = [0, 1, 2, 0x7f, 0x80, 0xff, 0x100, 0xffff, 0x10000, 0xffffffff, 0x100000000, (1 << 56) - 1, 1 << 56, (1 << 64) - 1]
WORDS = ["anon", "GT", "a", "ksi.test:1", "äöü", "€", "\U0001f600x", "id-0123456789"]


def rtext(rng, nonempty=False):
    s = rng.choice(WORDS) if rng.random() < 0.7 else "".join(rng.choice("abcXYZ019-_.:/") for _ in range(rng.randrange(0, 24)))
    if nonempty and not s:
        s = "x"
    return s.encode("utf-8") + b"\x00"


def rimprint(rng):
    a = rng.choice([0, 1, 1, 1, 4, 5])
    return bytes([a]) + rng.randbytes(DIGEST_LEN[a])


def legacy_id(rng):
    n = rng.choice([0, 1, 4, 24, 25])
    s = bytes(rng.choice(b"abcdefghijklmnopqrstuvwxyz") for _ in range(n))
    return bytes([3, 0, n]) + s + bytes(29 - 3 - n)


def value(rng, e, depth):
    """a valid element for template row e"""
    k, tag = e["kind"], e["tag"]
    if k == "int":
        v = rng.choice(INTS) if rng.random() < 0.6 else rng.randrange(0, 1 << rng.choice([4, 8, 16, 31, 33, 63, 64]))
        return N(tag, be(v), kind=k)
    if k == "utf8":
        return N(tag, rtext(rng), kind=k)
    if k == "utf8nz":
        return N(tag, rtext(rng, True), kind=k)
    if k == "octet":
        return N(tag, rng.randbytes(rng.choice([0, 1, 2, 8, 20, 33])), kind=k)
    if k in ("imprint", "calLink"):
        return N(tag, rimprint(rng), kind=k)
    if k == "legacyId":
        return N(tag, legacy_id(rng), kind=k)
    if k in ("cert", "pkiSig"):
        blobs = der_blobs()[k]
        return N(tag, rng.choice(blobs) if blobs else b"\x30\x00", kind=k)
    if k == "composite":
        return valid(rng, e["sub"], tag, depth - 1)
    return valid(rng, DISPATCH[k](tag), tag, depth - 1)


def valid(rng, tm, tag, depth=8):
    """a node with tag `tag` whose children satisfy template `tm`"""
    rows = schema()[tm]
    chosen = []          # (row index, node)
    most = {F_M0: False, F_M1: False}
    least_rows = {F_L0: [i for i, e in enumerate(rows) if e["flags"] & F_L0], F_L1: [i for i, e in enumerate(rows) if e["flags"] & F_L1]}
    must = set(i for i, e in enumerate(rows) if e["flags"] & F_MAND)
    for g in (F_L0, F_L1):
        if least_rows[g]:
            must.add(rng.choice(least_rows[g]))
    seen_getters = set()
    order = list(range(len(rows)))
    # rows in `must` first so that mutually exclusive groups are decided by them
    for i in sorted(order, key=lambda i: (i not in must, rng.random())):
        e = rows[i]
        want = i in must or rng.random() < (0.5 if depth > 2 else 0.15)
        if not want:
            continue
        if (e["flags"] & F_M0 and most[F_M0]) or (e["flags"] & F_M1 and most[F_M1]):
            continue
        if not e["multiple"] and e["getter"] in seen_getters:
            continue
        cnt = 1 if not e["multiple"] else rng.choice([1, 1, 2, 3])
        for _ in range(cnt):
            chosen.append((i, value(rng, e, depth)))
        seen_getters.add(e["getter"])
        for g in (F_M0, F_M1):
            if e["flags"] & g:
                most[g] = True
    rng.shuffle(chosen)
    if any(e["flags"] & F_ORDER for e in rows):
        chosen.sort(key=lambda c: c[0])
    firsts = [c for c in chosen if rows[c[0]]["flags"] & F_FIRST]
    lasts = [c for c in chosen if rows[c[0]]["flags"] & F_LAST]
    mid = [c for c in chosen if c not in firsts and c not in lasts]
    kids = [c[1] for c in firsts + mid + lasts]
    return N(tag, kids=kids, tm=tm, kind="composite")


def unknown_tag(rng, tm):
    used = set(e["tag"] for e in schema()[tm])
    while True:
        t = rng.choice([0x05, 0x06, 0x0f, 0x1d, 0x1e, 0x20, 0x99, 0x700, 0x1abc, 0x1fff, rng.randrange(1, 0x2000)])
        if t not in used:
            return t


def bad_value(rng, kind):
    """malformed payloads per value kind"""
    if kind == "int":
        v = be(rng.choice(INTS[1:]))
        return rng.choice([b"\x00", b"\x00" + v, b"\x00\x00", rng.randbytes(9), b"\x01" + bytes(8), b"\x00" * 8])
    if kind in ("utf8", "utf8nz"):
        return rng.choice([b"", b"abc", b"a\x00b\x00", b"\x00\x00", b"\x80\x00", b"\xc3\x00", b"\xc3", b"\xe2\x82\x00", b"\xf5\x80\x80\x80\x00",
                           b"\xf0\x9f\x98\x00", b"\xc3\xa4\xa4\x00", b"\xff\x00", b"\x00", b"a\xe2\x82", b"\xf4\x8f\xbf\xbf\x00", b"\xc0\x80\x00",
                           b"\xed\xa0\x80\x00", b"\xe2\x82\xac"])
    if kind in ("imprint", "calLink"):
        a = rng.choice([1, 4, 5])
        return rng.choice([b"", bytes([a]), bytes([a]) + rng.randbytes(DIGEST_LEN[a] - 1), bytes([a]) + rng.randbytes(DIGEST_LEN[a] + 1),
                           bytes([rng.choice([6, 0x0c, 0x7e, 0xff])]) + rng.randbytes(32), bytes([3]) + rng.randbytes(28), bytes([2]) + rng.randbytes(20),
                           bytes([8]) + rng.randbytes(32), bytes([0x7e]), bytes([0x0b]) + rng.randbytes(32)])
    if kind == "legacyId":
        good = bytearray(legacy_id(rng))
        m = rng.randrange(7)
        if m == 0:
            return bytes(good[:28])
        if m == 1:
            return bytes(good) + b"\x00"
        if m == 2:
            good[0] = 2
        elif m == 3:
            good[1] = 1
        elif m == 4:
            good[2] = rng.choice([26, 27, 200])
        elif m == 5:
            good[28] = 1
        else:
            n = good[2]
            if n + 3 < 29:
                good[n + 3] = 0x41
        return bytes(good)
    if kind in ("cert", "pkiSig"):
        return rng.choice([b"", b"\x30\x00", rng.randbytes(12)])
    return None


ROOTS = [("aggr", 1, 0x200, "KSI_AggregationPdu"), ("aggr", 2, 0x220, "KSI_AggregationReqPdu"), ("aggr", 2, 0x221, "KSI_AggregationRespPdu"),
         ("ext", 1, 0x300, "KSI_ExtendPdu"), ("ext", 2, 0x320, "KSI_ExtendReqPdu"), ("ext", 2, 0x321, "KSI_ExtendRespPdu"),
         ("sig", 0, 0x800, "KSI_Signature"), ("pub", 0, 0, "KSI_PublicationsFile")]
MAGIC = b"KSIPUBLF"


def emit(root, node):
    op, ver, _, tm = root
    ders = der_blobs()
    good = " ".join(hx(b) for b in ders["cert"] + ders["pkiSig"])
    if op == "pub":
        return "pub %s %s" % (hx(MAGIC + node.content()), good)
    if op == "sig":
        return "sig %s %s" % (hx(node.enc()), good)
    return "%s %d %s %s" % (op, ver, hx(node.enc()), good)


def mutate(rng, root_node):
    """one structural or value mutation somewhere in the tree; returns (label, node) or None"""
    t = root_node.clone()
    comps = t.composites()
    if not comps:
        return None
    c = rng.choice(comps)
    rows = schema()[c.tm]
    m = rng.randrange(12)
    if m == 0 and c.kids:                                   # drop an element
        del c.kids[rng.randrange(len(c.kids))]
        return "drop", t
    if m == 1 and c.kids:                                   # repeat an element (anywhere, with any flags)
        k = rng.choice(c.kids).clone()
        if rng.random() < 0.5:
            k.nc = 1
        if rng.random() < 0.2:
            k.fwd = 1
        c.kids.insert(rng.randrange(len(c.kids) + 1), k)
        return "repeat", t
    if m == 2:                                              # unknown element, critical or not
        u = N(unknown_tag(rng, c.tm), rng.randbytes(rng.choice([0, 1, 5])), nc=rng.choice([0, 1, 1]), fwd=rng.choice([0, 0, 1]))
        c.kids.insert(rng.randrange(len(c.kids) + 1), u)
        return "unknown-nc" if u.nc else "unknown-critical", t
    if m == 3 and len(c.kids) >= 2:                         # move an element
        k = c.kids.pop(rng.randrange(len(c.kids)))
        c.kids.insert(rng.randrange(len(c.kids) + 1), k)
        return "move", t
    if m == 4:                                              # add a member of a mutually exclusive / other row
        e = rng.choice(rows)
        c.kids.insert(rng.randrange(len(c.kids) + 1), value(rng, e, 3))
        return "add-row", t
    if m in (5, 6, 7):                                      # malformed value
        lv = t.leaves()
        if lv:
            k = rng.choice(lv)
            b = bad_value(rng, k.kind)
            if b is not None:
                k.payload = b
                return "bad-" + k.kind, t
        return None
    if m == 8 and c.kids:                                   # flags on a known element are ignored by the parser
        k = rng.choice(c.kids)
        k.nc, k.fwd = rng.choice([(1, 0), (0, 1), (1, 1)])
        return "flags", t
    if m == 9:                                              # content that does not tile
        c.payload, c.kids = c.content() + rng.choice([b"\x00", b"\x01", b"\x81\x00\x00", b"\x05\x05\x00"]), None
        return "untiled", t
    if m == 10:                                             # several unknown non-critical elements everywhere
        for cc in comps:
            if cc.kids is not None and rng.random() < 0.6:
                cc.kids.insert(rng.randrange(len(cc.kids) + 1), N(unknown_tag(rng, cc.tm), rng.randbytes(3), nc=1))
        return "unknown-nc-many", t
    if m == 11 and c.kids:                                  # empty a composite
        c.kids = []
        return "empty", t
    return None


def gen(rng, tier):
    big = tier == "thorough"
    names = sorted(schema().keys())
    ders = der_blobs()
    good = " ".join(hx(b) for b in ders["cert"] + ders["pkiSig"])
    # --- through the real entry points
    for root in ROOTS:
        for _ in range(60 if not big else 800):
            node = valid(rng, root[3], root[2])
            yield emit(root, node)
            for _ in range(6 if root[0] != "pub" else 3):
                r = mutate(rng, node)
                if r:
                    yield emit(root, r[1])
                    if rng.random() < 0.3:
                        r2 = mutate(rng, r[1])
                        if r2:
                            yield emit(root, r2[1])
            # the other PDU version / the other family
            if root[0] in ("aggr", "ext"):
                yield "%s %d %s" % (root[0], 3 - root[1], hx(node.enc()))
                if rng.random() < 0.2:
                    yield "%s %d %s" % ("ext" if root[0] == "aggr" else "aggr", root[1], hx(node.enc()))
    # --- every table through the generic entry point
    for tm in names:
        if tm in ("KSI_Signature", "KSI_PublicationsFile", "KSI_MetaDataElement"):
            continue       # no public constructor; reached through sig / pub / a link's metadata
        for _ in range(25 if not big else 300):
            node = valid(rng, tm, rng.choice([0x01, 0x10, 0x800, 0x1f]), depth=4)
            yield "tmpl %s %s %s" % (tm, hx(node.enc()), good if ("Cert" in tm or "PublicationsFile" in tm) else "")
            for _ in range(5):
                r = mutate(rng, node)
                if r:
                    yield "tmpl %s %s %s" % (tm, hx(r[1].enc()), good if ("Cert" in tm or "PublicationsFile" in tm) else "")
    # --- the repository's own sample files, with an unknown element at every position of every level
    res = os.path.join(core.REPO, "test", "resource", "tlv")
    samples = [f for f in sorted(os.listdir(res)) if f.endswith(".ksig")] if os.path.isdir(res) else []
    rng.shuffle(samples)
    always = [f for f in samples if "metadata" in f or "padding" in f]      # among them inputs in non-minimal encoding
    for f in always + [f for f in samples if f not in always][:12 if not big else 60]:
        raw = open(os.path.join(res, f), "rb").read()
        if len(raw) > 12000:
            continue
        yield "sig %s" % hx(raw)
        top = split_tlvs(raw)
        if len(top) != 1 or top[0][0] != 0x800:
            continue
        parts = split_tlvs(top[0][1])
        for pos in range(len(parts) + 1):
            for nc in (0, 1):
                u = tlv(rng.choice([0x0f, 0x1abc]), rng.randbytes(2), nc=nc)
                body = b"".join(p[2] for p in parts[:pos]) + u + b"".join(p[2] for p in parts[pos:])
                yield "sig %s" % hx(tlv(0x800, body))
        # one level down, inside a random part
        k = rng.randrange(len(parts))
        inner = split_tlvs(parts[k][1])
        for pos in range(len(inner) + 1):
            u = tlv(0x1e if parts[k][0] != 0x801 else 0x1d, b"\x01", nc=1)
            ib = b"".join(p[2] for p in inner[:pos]) + u + b"".join(p[2] for p in inner[pos:])
            body = b"".join(p[2] for p in parts[:k]) + tlv(parts[k][0], ib) + b"".join(p[2] for p in parts[k + 1:])
            yield "sig %s" % hx(tlv(0x800, body))
    pubs = [f for f in sorted(os.listdir(res)) if f.endswith(".bin")] if os.path.isdir(res) else []
    for f in pubs:
        raw = open(os.path.join(res, f), "rb").read()
        if len(raw) > 40000 or raw[:8] != MAGIC:
            continue
        recs = split_tlvs(raw[8:])
        certs = [p2 for tag, pl, _ in recs if tag == 0x702 for t2, p2, _ in split_tlvs(pl) if t2 == 2]
        sigs = [pl for tag, pl, _ in recs if tag == 0x704]
        g2 = " ".join(hx(b) for b in certs + sigs)
        yield "pub %s %s" % (hx(raw), g2)
        for _ in range(10 if not big else 60):
            order = list(recs)
            m = rng.randrange(5)
            if m == 0:
                i = rng.randrange(len(order)); order.insert(rng.randrange(len(order) + 1), order.pop(i))
            elif m == 1:
                del order[rng.randrange(len(order))]
            elif m == 2:
                order.insert(rng.randrange(len(order) + 1), (0x7ff, b"", tlv(0x7ff, b"\x01", nc=rng.choice([0, 1]))))
            elif m == 3:
                order.append(order[rng.randrange(len(order))])
            else:
                order.append((0, b"", rng.choice([b"\x00", b"\x87\x01\x00", tlv(0x705, b"", nc=1)])))
            yield "pub %s %s" % (hx(MAGIC + b"".join(r[2] for r in order)), g2)
        yield "pub %s" % hx(raw[:7])
        yield "pub %s" % hx(b"KSIPUBLG" + raw[8:200])
    # --- value parsers in isolation: all short byte strings for the scalar kinds
    for tm, tag in (("KSI_Header", 0x02), ("KSI_Header", 0x01), ("KSI_PublicationData", 0x04), ("KSI_HashChainLink", 0x03)):
        for _ in range(150 if not big else 3000):
            n = rng.choice([0, 1, 1, 2, 2, 3, 4, 8, 9, 29, 33])
            b = bytes(rng.choice([0, 0, 1, 0x41, 0x7f, 0x80, 0xbf, 0xc3, 0xe2, 0xf0, 0xf4, 0xf5, 0xff, 3]) for _ in range(n))
            base = valid(rng, tm, 0x01)
            base.kids = [k for k in base.kids if k.tag != tag] + [N(tag, b)]
            yield "tmpl %s %s" % (tm, hx(base.enc()))


def gen_values(rng, tier):
    """value parsers at their boundaries (independent of the random tree generator)"""
    # legacy ids: every value of the length octet, a non-zero octet at every position, every length 27..31
    link = lambda lid: N(0x01, kids=[N(0x03, lid)], tm="KSI_HashChainLink")
    for n in range(256):
        b = bytes([3, 0, n]) + bytes(26)
        yield "tmpl KSI_HashChainLink %s" % hx(link(b).enc())
        k = min(n, 26)
        b = bytes([3, 0, n]) + b"a" * k + bytes(26 - k)
        yield "tmpl KSI_HashChainLink %s" % hx(link(b).enc())
    for pos in range(29):
        for n in (0, 4, 24, 25):
            b = bytearray(bytes([3, 0, n]) + b"b" * n + bytes(26 - n))
            b[pos] = (b[pos] + 1) & 0xff
            yield "tmpl KSI_HashChainLink %s" % hx(link(bytes(b)).enc())
    for ln in (0, 1, 2, 3, 27, 28, 30, 31, 64):
        yield "tmpl KSI_HashChainLink %s" % hx(link(bytes([3, 0, 1, 0x61] + [0] * max(0, ln - 4))[:ln]).enc())
    # integers: every length 0..10 with leading octet 0 / 1 / ff, all-zero strings
    for ln in range(0, 11):
        for lead in (0, 1, 0x80, 0xff):
            for fill in (0, 0xff):
                b = (bytes([lead]) + bytes([fill]) * (ln - 1)) if ln else b""
                yield "tmpl KSI_ErrorPdu %s" % hx(N(0x01, kids=[N(0x04, b)], tm="KSI_ErrorPdu").enc())
                yield "aggr 2 %s" % hx(N(0x221, kids=[N(0x01, kids=[N(0x01, b"anon\x00")], tm="KSI_Header"),
                                                     N(0x03, kids=[N(0x04, b)], tm="KSI_ErrorPdu"),
                                                     N(0x1f, bytes([1]) + bytes(32))], tm="KSI_AggregationRespPdu").enc())
    # imprints: every algorithm id with digest lengths around the right one
    for a in range(256):
        want = DIGEST_LEN.get(a, 32)
        for dl in sorted(set([0, 1, want - 1, want, want + 1, 64, 65])):
            if dl < 0:
                continue
            b = bytes([a]) + rng.randbytes(dl)
            if len(b) > 1:
                yield "tmpl KSI_PublicationData %s imp:%s" % (hx(N(0x10, kids=[N(0x02, b"\x01"), N(0x04, b)], tm="KSI_PublicationData").enc()), hx(b))
            else:
                yield "tmpl KSI_PublicationData %s" % hx(N(0x10, kids=[N(0x02, b"\x01"), N(0x04, b)], tm="KSI_PublicationData").enc())
    yield "tmpl KSI_PublicationData %s" % hx(N(0x10, kids=[N(0x02, b"\x01"), N(0x04, b"")], tm="KSI_PublicationData").enc())
    # strings: every lead octet followed by 0..4 continuation octets, then NUL; NUL placement
    for lead in range(256):
        for k in range(0, 5):
            for contb in (0x80, 0xbf, 0x7f, 0xc0):
                b = bytes([lead]) + bytes([contb]) * k + b"\x00"
                yield "tmpl KSI_Header %s" % hx(N(0x01, kids=[N(0x01, b)], tm="KSI_Header").enc())
                if lead % 16 == 0 and k == 1:
                    yield "tmpl KSI_Header %s" % hx(N(0x01, kids=[N(0x01, b[:-1])], tm="KSI_Header").enc())
    for b in (b"", b"\x00", b"\x00\x00", b"a\x00\x00", b"a", b"ab\x00c\x00", b"\x00a\x00"):
        yield "tmpl KSI_Header %s" % hx(N(0x01, kids=[N(0x01, b)], tm="KSI_Header").enc())
        yield "tmpl KSI_PublicationsHeader %s" % hx(N(0x701, kids=[N(0x01, b"\x01"), N(0x02, b"\x02"), N(0x03, b)], tm="KSI_PublicationsHeader").enc())


def gen_positions(rng, tier):
    """positional rules exhaustively on small containers: every permutation of the elements of a
    v2 PDU / a publications file header section, an unknown element (critical or not) at every
    position, a repetition of every element at every position"""
    import itertools
    hdr = N(0x01, kids=[N(0x01, b"anon\x00")], tm="KSI_Header")
    mac = N(0x1f, bytes([1]) + bytes(32))
    err = N(0x03, kids=[N(0x04, b"\x01\x01")], tm="KSI_ErrorPdu")
    conf = N(0x04, kids=[N(0x01, b"\x11")], tm="KSI_AggregationConf")
    ack = N(0x05, kids=[], tm="KSI_AggregationAck")
    for op, ver, root, tm in (("aggr", 2, 0x221, "KSI_AggregationRespPdu"), ("ext", 2, 0x321, "KSI_ExtendRespPdu")):
        pool = [hdr, err, conf, mac] + ([ack] if op == "aggr" else [])
        if op == "ext":
            pool[2] = N(0x04, kids=[N(0x04, b"\x05")], tm="KSI_ExtendConf")
        for r in range(0, len(pool) + 1):
            for sub in itertools.permutations(pool, r):
                yield "%s %d %s" % (op, ver, hx(N(root, kids=list(sub), tm=tm).enc()))
        base = [hdr, err, mac]
        for pos in range(len(base) + 1):
            for nc in (0, 1):
                for tag in (0x06, 0x1e, 0x20, 0x801):
                    kids = base[:pos] + [N(tag, b"\x01", nc=nc)] + base[pos:]
                    yield "%s %d %s" % (op, ver, hx(N(root, kids=kids, tm=tm).enc()))
            for k in base:
                for nc in (0, 1):
                    d = k.clone(); d.nc = nc
                    kids = base[:pos] + [d] + base[pos:]
                    yield "%s %d %s" % (op, ver, hx(N(root, kids=kids, tm=tm).enc()))
    # the same for the request PDUs
    req = N(0x02, kids=[N(0x01, b"\x07"), N(0x02, bytes([1]) + bytes(32))], tm="KSI_AggregationReq_v2")
    for sub in itertools.permutations([hdr, req, mac, N(0x05, kids=[], tm="KSI_AggregationAckReq")]):
        yield "aggr 2 %s" % hx(N(0x220, kids=list(sub), tm="KSI_AggregationReqPdu").enc())
    ereq = N(0x02, kids=[N(0x01, b"\x07"), N(0x02, b"\x55")], tm="KSI_ExtendReq")
    for sub in itertools.permutations([hdr, ereq, mac]):
        yield "ext 2 %s" % hx(N(0x320, kids=list(sub), tm="KSI_ExtendReqPdu").enc())
    # publications file: every order of header / certificate / publication / signature records (+ an unknown one)
    ders = der_blobs()
    if ders["cert"] and ders["pkiSig"]:
        good = " ".join(hx(b) for b in ders["cert"] + ders["pkiSig"])
        ph = N(0x701, kids=[N(0x01, b"\x02"), N(0x02, b"\x05")], tm="KSI_PublicationsHeader")
        cr = N(0x702, kids=[N(0x01, b"\x01\x02"), N(0x02, ders["cert"][0])], tm="KSI_CertificateRecord")
        pr = N(0x703, kids=[N(0x10, kids=[N(0x02, b"\x05"), N(0x04, bytes([1]) + bytes(32))], tm="KSI_PublicationData")], tm="KSI_PublicationRecord")
        sg = N(0x704, ders["pkiSig"][0])
        un = N(0x7ff, b"\x01", nc=1)
        uc = N(0x7fe, b"\x01", nc=0)
        pool = [ph, cr, pr, sg]
        for r in range(0, 5):
            for sub in itertools.permutations(pool, r):
                yield "pub %s %s" % (hx(MAGIC + b"".join(k.enc() for k in sub)), good)
        for extra in (un, uc, cr, pr, ph, sg):
            for pos in range(5):
                kids = pool[:pos] + [extra] + pool[pos:]
                yield "pub %s %s" % (hx(MAGIC + b"".join(k.enc() for k in kids)), good)
        yield "pub %s %s" % (hx(MAGIC + b"".join(k.enc() for k in [ph, cr, cr, pr, pr, sg])), good)


def gen_pairs(rng, tier):
    """every table, every pair of rows (a row with itself included): a valid tree in which both rows are present, in row order —
    a repeated single-valued element, two members of an exclusive group, two rows that share a field"""
    reps = 2 if tier == "quick" else 12
    ders = der_blobs()
    good = " ".join(hx(b) for b in ders["cert"] + ders["pkiSig"])
    targets = [(root, root[3], root[2]) for root in ROOTS] + \
              [(None, tm, 0x10) for tm in sorted(schema().keys()) if tm not in ("KSI_Signature", "KSI_PublicationsFile", "KSI_MetaDataElement")]
    for root, tm, tag in targets:
        rows = schema()[tm]
        idx = {}
        for i, e in enumerate(rows):
            idx.setdefault(e["tag"], i)
        for i in range(len(rows)):
            for j in range(i, len(rows)):
                for _ in range(reps):
                    node = valid(rng, tm, tag, depth=4)
                    keep = [k for k in node.kids if k.tag not in (rows[i]["tag"], rows[j]["tag"])]
                    keep += [value(rng, rows[i], 3), value(rng, rows[j], 3)]
                    keep.sort(key=lambda k: idx.get(k.tag, 0))
                    node.kids = keep
                    if root is not None:
                        yield emit(root, node)
                    else:
                        yield "tmpl %s %s %s" % (tm, hx(node.enc()), good if ("Cert" in tm or "PublicationsFile" in tm) else "")


def trivial(cls):
    return cls.endswith(":256") or cls.endswith(":?")


CONFIG = Config()
CONFIG.pid = "C10"
CONFIG.props_module = "KsiVerif.Props.C10"
CONFIG.required_theorems = [
    "extract_iff_schema", "unknown_critical_rejected", "unknown_noncritical_ignored", "nothing_known_after_last",
    "nothing_known_before_first", "single_valued_once", "exclusive_group0_once", "fixed_order_sorted", "mandatory_present",
    "tables_are_the_reference_schema", "hash_algorithms_are_the_registry", "tables_within_model", "shared_fields_are_lists", "v2_pdu_header_first_mac_last",
    "pubfile_sections_in_order", "integer_minimal_64bit", "imprint_known_algorithm_and_length", "legacy_id_well_formed",
    "string_well_formed", "string_nonempty", "scalar_values", "composite_value", "templateParse_iff"]
CONFIG.translators = [tables.gen_templates, tables.gen_hashalgs]
def gen_all(rng, tier):
    yield from gen_positions(rng, tier)
    yield from gen_values(rng, tier)
    yield from gen_pairs(rng, tier)
    yield from gen(rng, tier)


CONFIG.engines = [Engine("c10", ["exec_c10.c"], "drv_c10", gen_all, trivial=trivial)]
CONFIG.rule = ("op lines from one PRNG (VERIF_SEED). (1) positional rules exhaustively on small containers: every permutation of every "
               "subset of {header, payloads, MAC} of v2 aggregation / extension response PDUs, an unknown element (4 tags, critical and not) "
               "and a repetition of every element (flagged critical and not) at every position; every order of every subset of the "
               "publications-file sections, each extra record at each position. (2) value parsers at their boundaries: legacy ids with every "
               "length octet and a changed octet at every position; integers of 0..10 octets with leading 00/01/80/ff; imprints for all 256 "
               "algorithm ids x digest lengths around the right one; strings with every lead octet x 0..4 continuation / non-continuation octets. "
               "(2b) every table x every pair of rows (a row with itself included) present together in an otherwise valid tree. (3) schema-directed random trees: a valid tree for each of the 8 roots (PDU v1/v2 request/response, signature, publications file) "
               "and for each of the 34 constructible tables, then mutated at a random node: drop / repeat (any flags) / unknown critical or "
               "non-critical / move / add a row of an exclusive group / malformed value per kind / flags / untiled content / emptied composite; "
               "the other PDU version and family. (4) the repository's sample signatures and publications files with an unknown element at "
               "every top-level position and inside a random part. Through KSI_AggregationPdu_parse, KSI_ExtendPdu_parse (context set to v1 or "
               "v2), KSI_Signature_parseWithPolicy(EMPTY)+serialize, KSI_PublicationsFile_parse, KSI_TlvTemplate_parse. Compared: status and a "
               "dump of every field of the parsed object (through the tables' own getters). Distinct by op line.")
CONFIG.trusted_base = [
    "Lean 4.33.0 kernel; axioms propext, Classical.choice, Quot.sound only (audited per theorem each run)",
    "template tables: regenerated every run from the built library (translator/dump.c walks the tables; harness/tmplinfo.h names the "
    "37 tables and maps value-parser function pointers to kinds; both fail loudly on an unknown table / parser / flag combination)",
    "engine and value-parser model KsiVerif.Model.Template hand-written from tlv_template.c:613-799, types_base.c, hash.c, hashchain.c:724-823, "
    "types.c, signature.c, signature_builder.c:1028-1059, publicationsfile.c:67-240; tied by harness/exec_c10.c (ASan+UBSan)",
    "schema KsiVerif.Spec.Schema (conforms, Utf8Seq, WellFormedString) and KsiVerif.Spec.SchemaRef (the tables at the pinned commit) are read by humans",
    "OpenSSL's acceptance of a certificate / PKCS#7 blob is a parameter (derOK); the generator only uses blobs from the repository's test files or short garbage"]
CONFIG.assumptions = [
    "rows flagged MORE_DEFS (several rows per tag) are not modelled; tables_within_model proves none exists in the current tables",
    "what follows parsing for a signature (verification verdict unchanged by an ignored element) is C01/C11 territory; here: same field values, byte-exact re-serialization"]
CONFIG.design_ref = "DESIGN.md section 4, C10"
CONFIG.technique = "Lean 4 refinement proof (template engine = declarative schema, for every table and value parser) + regenerated tables + differential correspondence on all entry points"
CONFIG.level_text = ("Kernel-checked for every table, every value parser and every element list: extractGenerator accepts exactly the lists that conform to the "
                     "declarative schema (unknown => non-critical; single-valued once; exclusive groups; FIRST / LAST / fixed order; mandatory rows and groups) "
                     "and returns the known values by row; a critical unknown element is refused and a non-critical one changes nothing, at any position; "
                     "integers = minimal big-endian <= 8 octets, strings = NUL-terminated well-formed lead/continuation sequences, imprints = known algorithm + "
                     "its length, legacy ids = 03 00 n ... zero padded; the current tables are the reference schema, have header FIRST / MAC LAST in v2 PDUs "
                     "and the four publications-file sections in fixed order. Tied to the code by regenerated tables and ~2*10^4 differential cases per run.")
CONFIG.level_note = ("Trusted: Lean kernel + the three standard axioms; the table walker and the hand-written model with its differential tie; the "
                     "reference schema is the pinned tables (the property does not list the schema). Deep nesting is proved one level at a time "
                     "(composite_value / templateParse_iff); certificate / PKCS#7 parsing is a parameter.")
