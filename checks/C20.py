"""C20 — service URIs: exact scheme dispatch; embedded credentials never reach the wire."""
import itertools
import os
import sys

sys.path.insert(0, os.path.join(os.path.dirname(os.path.abspath(__file__)), "..", "lib"))
sys.path.insert(0, os.path.join(os.path.dirname(os.path.abspath(__file__)), "..", "translator"))
from ksiverif.runner import Config, Engine  # noqa: E402
import tables  # noqa: E402

SCHEMES = ["ksi", "ksi+http", "ksi+https", "ksi+tcp", "file", "http", "https", "ftp", "ksi+udp", "ksix", "ks", "ksi+", "tcp"]
UNRES = "abcdefghijklmnopqrstuvwxyzABCXYZ0123456789-_.!~*'()"
USERC = UNRES + "%;&=+$,"
HOSTC = "abcdefghijklmnopqrstuvwxyzABC0123456789.-"
URLC = "abcxyzABC0123456789-_.~!$&'()*+,;=:@/%[]^`{|}"


def hx(b):
    if b is None:
        return "~"
    b = b.encode("latin-1") if isinstance(b, str) else b
    return b.hex() if b else "-"


def cases(s):
    """all letter-case variants of s"""
    idx = [i for i, c in enumerate(s) if c.isalpha()]
    for bits in range(1 << len(idx)):
        t = list(s)
        for j, i in enumerate(idx):
            if bits >> j & 1:
                t[i] = t[i].upper()
        yield "".join(t)


def rstr(rng, alphabet, lo, hi):
    return "".join(rng.choice(alphabet) for _ in range(rng.randrange(lo, hi + 1)))


class Parts:
    def __init__(self, scheme, user, key, hostform, host, port, path, query, fragment):
        self.scheme, self.user, self.key, self.hostform, self.host = scheme, user, key, hostform, host
        self.port, self.path, self.query, self.fragment = port, path, query, fragment

    def uri(self):
        s = self.scheme + "://"
        if self.user is not None:
            s += self.user + ":" + self.key + "@"
        s += ("[" + self.host + "]") if self.hostform == "6" else self.host
        if self.port is not None:
            s += ":" + str(self.port)
        s += self.path
        if self.query is not None:
            s += "?" + self.query
        if self.fragment is not None:
            s += "#" + self.fragment
        return s

    def spec(self):
        return "|".join([hx(self.scheme), hx(self.user), hx(self.key), self.hostform, hx(self.host),
                         "~" if self.port is None else str(self.port), hx(self.path), hx(self.query), hx(self.fragment)])


def rparts(rng, scheme):
    cred = rng.random() < 0.6
    user = rstr(rng, USERC, 0, 8) if cred else None
    key = rstr(rng, USERC + ":", 0, 8) if cred else None
    r = rng.random()
    if r < 0.6:
        hostform, host = "n", rstr(rng, HOSTC, 1, 12)
    elif r < 0.8:
        hostform, host = "n", "%d.%d.%d.%d" % tuple(rng.randrange(256) for _ in range(4))
    else:
        hostform, host = "6", rng.choice(["::1", "fe80::1", "2001:db8::8a2e:370:7334", "::ffff:10.0.0.1", "1::"])
    port = rng.choice([None, None, 1, 80, 3333, 65535, rng.randrange(1, 65536)])
    path = rng.choice(["", "", "/", "/" + rstr(rng, URLC, 1, 10), "/a/b/c.d", "//x", "/%41"])
    query = rng.choice([None, None, rstr(rng, URLC + "?", 1, 10), "a=1&b=2", "?"])
    fragment = rng.choice([None, None, None, rstr(rng, URLC + "?", 1, 8), "top"])
    return Parts(scheme, user, key, hostform, host, port, path, query, fragment)


def arg(rng, what):
    r = rng.random()
    if r < 0.5:
        return None
    if r < 0.55:
        return ""
    return what + str(rng.randrange(100))


def ops(rng, p, with_spec=True):
    login, key = arg(rng, "login"), arg(rng, "k3y")
    tail = " " + p.spec() if with_spec else ""
    u = hx(p.uri())
    yield "svc %s %s %s %s%s" % (rng.choice(["agg", "ext"]), u, hx(login), hx(key), tail)
    yield "async %s %s %s %s%s" % (rng.choice(["sign", "ext"]), u, hx(login), hx(key), tail)


def gen(rng, tier):
    big = tier == "thorough"
    # --- every letter-case variant of every scheme, with a fixed and with a random remainder
    for sch in SCHEMES:
        for v in cases(sch):
            p = Parts(v, "usr", "k:ey", "n", "host.example", 8080, "/path", "q=1", "frag")
            yield from ops(rng, p)
            for _ in range(1 if not big else 4):
                yield from ops(rng, rparts(rng, v))
    # --- all combinations of optional parts x explicit credentials (none / login only / key only / both)
    for sch in ("ksi", "KSI+HTTPS", "ksi+tcp", "file", "http", "Ksi+Http"):
        for cred, hostform, port, path, query, frag in itertools.product((0, 1), ("n", "6"), (None, 1, 65535), ("", "/p/q"), (None, "x=y"), (None, "f")):
            host = "h-1.example" if hostform == "n" else "2001:db8::1"
            p = Parts(sch, "u" if cred else None, "k" if cred else None, hostform, host, port, path, query, frag)
            for login, key in ((None, None), ("L", None), (None, "K"), ("L", "K")):
                yield "svc agg %s %s %s %s" % (hx(p.uri()), hx(login), hx(key), p.spec())
                yield "async sign %s %s %s %s" % (hx(p.uri()), hx(login), hx(key), p.spec())
    # --- the service set twice on one context: every ordered pair of schemes; what was set last decides the transport
    for a in ("ksi", "ksi+http", "https", "http", "ksi+tcp", "file", "ftp", "KSI+TCP"):
        for b in ("ksi", "ksi+http", "https", "http", "ksi+tcp", "file", "ftp", "Http"):
            pa, pb = rparts(rng, a), rparts(rng, b)
            yield "svc2 %s %s %s %s %s" % (rng.choice(["agg", "ext"]), hx(pa.uri()), hx(pb.uri()), hx("L"), hx("K"))
    # --- aggregator and extender on one context from every ordered pair of schemes: each request kind travels on its own service's transport
    for a in ("ksi", "ksi+http", "https", "http", "ksi+tcp", "file", "KSI+TCP"):
        for b in ("ksi", "ksi+http", "https", "http", "ksi+tcp", "file", "Http"):
            yield "route %s %s" % (hx(rparts(rng, a).uri()), hx(rparts(rng, b).uri()))
    # --- random well-formed URIs
    for _ in range(1500 if not big else 30000):
        p = rparts(rng, rng.choice(list(cases(rng.choice(SCHEMES)))))
        yield from ops(rng, p)
        if rng.random() < 0.3:
            yield "split %s" % hx(p.uri())
            yield "splitfull %s" % hx(p.uri())
    # --- the splitter on its own: every byte value at every kind of position
    base = ("ksi", "us", "pw", "host", "80", "/pa", "qu", "fr")
    for pos in range(8):
        for c in range(1, 256):
            parts = list(base)
            for where in (0, 1, 2):      # at the start, in the middle, at the end of the component
                s = parts[pos]
                ch = bytes([c]).decode("latin-1")
                t = [ch + s, s[:1] + ch + s[1:], s + ch][where]
                q = list(parts)
                q[pos] = t
                uri = "%s://%s:%s@%s:%s%s?%s#%s" % tuple(q)
                yield "splitfull %s" % hx(uri)
                if c % 8 == where:
                    yield "svc agg %s ~ ~" % hx(uri)
                    yield "async sign %s ~ ~" % hx(uri)
    # --- ports: boundaries, leading zeros, huge digit strings; user-info without ':'; odd shapes
    for port in ("0", "1", "65535", "65536", "080", "00065535", "99999", "4294967296", "18446744073709551616", "9" * 30, ""):
        for sch in ("ksi", "ksi+tcp"):
            uri = "%s://u:k@h.example:%s/x" % (sch, port)
            yield "splitfull %s" % hx(uri)
            yield "svc agg %s ~ ~" % hx(uri)
            yield "async sign %s ~ ~" % hx(uri)
    for uri in ("ksi://user@host/", "ksi://@host/", "ksi://:@host/", "ksi://u:k@/", "ksi://u:k@host", "ksi://host", "ksi:/host/x", "ksi:host",
                "ksi://", "ksi://u:k@h:1:2/", "ksi://[::1", "ksi://[::1]x/", "ksi://[]/", "ksi://h/p?", "ksi://h/p#", "ksi://h?#", "ksi://h#f",
                "ksi://a@b@c/", "ksi://u:k@@c/", "file:///tmp/x.tlv", "file://rel/x.tlv", "FILE:///tmp/X", "File://x", "file:/x", "file://", "/just/a/path",
                "*", "", "ksi+tcp://h", "ksi+tcp://h:0", "ksi+tcp://:5", "ksi+tcp://u:k@[::1]:5", "http://u:k@h/p?q#f", "HTTP://h/", "ksi://h/ p", "ksi://h/\tp",
                "ksi://h_x/", "ksi://h/\xe4", "ksi://\xe4/", "k\xe4i://h/"):
        yield "splitfull %s" % hx(uri)
        yield "split %s" % hx(uri)
        for login, key in ((None, None), ("L", "K")):
            yield "svc agg %s %s %s" % (hx(uri), hx(login), hx(key))
            yield "svc ext %s %s %s" % (hx(uri), hx(login), hx(key))
            yield "async sign %s %s %s" % (hx(uri), hx(login), hx(key))
            yield "async ext %s %s %s" % (hx(uri), hx(login), hx(key))
    # --- random garbage
    for _ in range(400 if not big else 8000):
        n = rng.randrange(1, 30)
        s = "".join(rng.choice("ksihtp+:/@.[]?#%-_a1 \t") for _ in range(n))
        yield "splitfull %s" % hx(s)
        yield "svc agg %s ~ ~" % hx(s)
    # --- length: around the 65535-byte buffer the URL is composed in
    for total in (65000, 65530, 65533, 65534, 65535, 65536, 70000):
        p = Parts("ksi", "u", "k", "n", "h.example", 1, "/" + "p" * 10, "q" * 5, None)
        fill = total - len(p.uri()) + 4 - 5      # the composed URL has "http" for "ksi" and no "u:k@"
        p.query = "q" * max(1, 5 + fill)
        yield "svc agg %s ~ ~ %s" % (hx(p.uri()), p.spec())
        yield "async sign %s ~ ~ %s" % (hx(p.uri()), p.spec())


def trivial(cls):
    return False


CONFIG = Config()
CONFIG.pid = "C20"
CONFIG.props_module = "KsiVerif.Props.C20"
CONFIG.required_theorems = ["scheme_dispatch", "split_render", "compose_parts", "blocking_service_spec", "async_service_spec",
                             "credentials_do_not_reach_the_url", "credential_precedence"]
CONFIG.translators = [tables.gen_uri]
CONFIG.engines = [Engine("c20", ["exec_c20.c"], "drv_c20", gen, trivial=trivial,
                         wraps=["KSI_HttpClient_setAggregator", "KSI_HttpClient_setExtender", "KSI_HttpAsyncClient_setService",
                                "KSI_FsClient_setAggregator", "KSI_FsClient_setExtender", "KSI_TcpClient_setAggregator",
                                "KSI_TcpClient_setExtender", "KSI_TcpAsyncClient_setService"])]
CONFIG.rule = ("op lines from one PRNG (VERIF_SEED): every letter-case variant of 13 scheme spellings (5 recognised, 8 not) with a fixed and "
               "with random remainders; all combinations of {credentials, host form name/IPv6, port absent/1/65535, path, query, fragment} x "
               "explicit {none, login, key, both} for 6 schemes; 1500 (thorough 30000) random well-formed URIs; every octet value 1..255 at the "
               "start / middle / end of each of the 8 components (splitter, and a sample through the services); port boundaries (0, 65535, 65536, "
               "leading zeros, 30 digits); 40 odd shapes (user-info without ':', '@@', empty host, IPv6 brackets unbalanced, FILE://, tabs, "
               "octets >= 0x80, '_' in host); random garbage; lengths around the 65535-byte compose buffer. Through KSI_UriSplitBasic, the client's "
               "uriSplit, KSI_CTX_setAggregator / setExtender and KSI_AsyncService_setEndpoint (signing and extending); observed: status and, "
               "captured with --wrap at the transport setters, the URL / host+port / path and the login id and key handed over. For URIs written "
               "from parts the Lean driver also evaluates the grammar-level specification (specBlocking / specAsync). Distinct by op line. Aggregator and extender set from every ordered pair of schemes on one context: probes in the three sub clients show where a signing and an extending request go (route).")
CONFIG.trusted_base = [
    "Lean 4.33.0 kernel; axioms propext, Classical.choice, Quot.sound only (audited per theorem each run; `decide +kernel` over the 256 octet values is kernel evaluation, no extra axiom)",
    "normal_url_char[] (as compiled: this build is HTTP_PARSER_STRICT=0) and schemeMap[] are regenerated every run from http_parser.c / net.c; "
    "the translator also checks that getClientByUriScheme still compares with KSI_strcasecmp",
    "the automaton transcription KsiVerif.Model.Uri (parse_url_char, http_parse_host incl. the ignored return value and the 16-bit field "
    "offsets, uriSplit, uriCompose as a truncating concatenation, setService, asyncService_setupAsyncClient) is hand-written; tied by harness/exec_c20.c",
    "snprintf(\"%d\") and strtoul are modelled by `decimal` / `digitsVal` (digitsVal_decimal proves them inverse); strcasecmp by ASCII lower-casing",
    "the grammar (render, wf) and the expected hand-over (specBlocking, specAsync, route) in KsiVerif.Spec.Uri are read by humans"]
CONFIG.assumptions = [
    "observation point = the transport setters (KSI_HttpClient_setAggregator/Extender, KSI_TcpClient_set…, KSI_FsClient_set…, KSI_HttpAsyncClient_setService, "
    "KSI_TcpAsyncClient_setService), not libcurl / getaddrinfo themselves",
    "theorems cover URIs of at most 65000 bytes whose fragment does not follow the authority directly (known findings F22, F23 describe the rest)"]
CONFIG.design_ref = "DESIGN.md section 4, C20"
CONFIG.technique = "Lean 4 proof that the transcribed URL automaton + split/compose/dispatch meet the grammar-level specification on every well-formed URI; regenerated tables; differential correspondence at the transport setters"
CONFIG.level_text = ("Kernel-checked for every well-formed URI (any scheme spelling, optional user:key, name / IPv4 / bracketed IPv6 host, port 1..65535, path, "
                     "query, fragment; up to 65000 bytes; fragment not directly after the authority) and any explicit credentials: uriSplit recovers exactly "
                     "the parts it was written from (through the transcribed http_parser automaton, host pass and port conversion); scheme recognition over "
                     "the generated map is exact and case-insensitive for every byte string; the blocking and the asynchronous service hand the transport "
                     "exactly what the specification says — scheme rewritten, credentials removed from the URL and used as login id / key unless explicit "
                     "ones are given, host, port, path, query, fragment preserved, file / unknown schemes routed or refused as stated.")
CONFIG.level_note = ("Trusted: Lean kernel + standard axioms; the hand transcription of the automaton and its differential tie (~2*10^4 cases per run incl. every "
                     "octet at every position); the wire is observed at the transport setters. Two deviations are recorded as known findings (fragment "
                     "directly after the authority; URIs above 64 KiB).")
