"""C09 — TLV encoding round-trips and never emits or accepts a mis-sized element."""
import os
import sys

sys.path.insert(0, os.path.join(os.path.dirname(os.path.abspath(__file__)), "..", "lib"))
from ksiverif.runner import Config, Engine  # noqa: E402

TAGS = [0, 1, 2, 0x1e, 0x1f, 0x20, 0x21, 0xff, 0x100, 0x101, 0x7ff, 0x800, 0x1ffe, 0x1fff]
SMALL_LENS = [0, 0, 1, 1, 2, 3, 5, 8, 17]
EDGE_LENS = [253, 254, 255, 256, 257, 258, 300]


def hx(b):
    return b.hex() if b else "-"


def rbytes(rng, n):
    return bytes(rng.getrandbits(8) for _ in range(n)) if n < 64 else rng.randbytes(n)


class T:
    """generator-side tree with its own (independent) encoder"""
    def __init__(self, tag, fl, payload=None, kids=None):
        self.tag, self.fl, self.payload, self.kids = tag, fl, payload, kids

    def content(self):
        if self.kids is None:
            return self.payload
        return b"".join(k.enc() for k in self.kids)

    def enc(self, force16=False):
        c = self.content()
        n = len(c)
        f = ((self.fl >> 1) & 1) * 0x40 | (self.fl & 1) * 0x20
        if self.tag <= 0x1f and n <= 0xff and not force16:
            return bytes([f | self.tag, n]) + c
        return bytes([0x80 | f | (self.tag >> 8), self.tag & 0xff, (n >> 8) & 0xff, n & 0xff]) + c

    def txt(self):
        if self.kids is None:
            return "R%d.%d:%s" % (self.tag, self.fl, hx(self.payload))
        return "N%d.%d[%s]" % (self.tag, self.fl, ",".join(k.txt() for k in self.kids))


def rtag(rng):
    return rng.choice(TAGS) if rng.random() < 0.7 else rng.randrange(0, 0x2000)


def rtree(rng, depth, big=False):
    tag, fl = rtag(rng), rng.randrange(4)
    if depth == 0 or rng.random() < 0.35:
        r = rng.random()
        n = rng.choice(SMALL_LENS) if r < 0.7 else rng.choice(EDGE_LENS) if r < 0.95 else rng.randrange(0, 600)
        if big:
            n = rng.choice([65531, 65532, 65533, 65534, 65535])
        return T(tag, fl, payload=rbytes(rng, n))
    k = rng.choice([0, 1, 1, 2, 2, 3, 4])
    return T(tag, fl, kids=[rtree(rng, depth - 1) for _ in range(k)])


def gen(rng, tier):
    n_trees = 1500 if tier == "quick" else 20000
    # --- serializers: random trees x buffer sizes around the need
    for i in range(n_trees):
        t = rtree(rng, rng.randrange(0, 7))
        need = len(t.enc())
        rooms = {need, need + rng.randrange(1, 50), 4 + 65536}
        rooms.add(max(0, need - rng.randrange(1, 4)))
        if i % 5 == 0:
            rooms.update({0, max(0, need - 1), need + 1, max(0, need - 2), max(0, need - 4)})
        for r in sorted(rooms):
            yield "ser %s %d" % (t.txt(), r)
            yield "elser %s %d" % (t.txt(), r)
    # --- the same serializer with its options (no header; octets left at the end of the buffer), and an element that is given a
    # plain value after it had sub elements
    for i in range(n_trees // 5):
        t = rtree(rng, rng.randrange(0, 6))
        need = len(t.enc())
        for opt in (0, 1, 2, 3):
            for r in sorted({need, need + rng.randrange(1, 300), max(0, need - rng.randrange(1, 6)), 4 + 65536}):
                yield "wb %s %d %d" % (t.txt(), r, opt)
        if t.kids is not None:
            yield "reraw %s %s" % (t.txt(), hx(rbytes(rng, rng.choice([1, 2, 10, 255, 256, 300]))))
        yield "serd %s" % t.txt()
        for r in sorted({need, need + 7, max(0, need - 1), 70000}):
            yield "elserp %s %d" % (t.txt(), r)
    # --- a value set two levels down: the middle element's encoding grows across the 255-octet form boundary, something follows it
    for i in range(40 if tier == "quick" else 400):
        g = [T(t_, 0, payload=rbytes(rng, rng.choice([0, 3, 40]))) for t_ in rng.sample([1, 2, 3, 4, 6], rng.randrange(1, 4))]
        base_len = rng.choice([200, 240, 250, 253, 254, 255, 256, 300])
        g.append(T(9, 0, payload=rbytes(rng, max(0, base_len - sum(len(k.enc()) for k in g) - 2))))
        mid = T(rng.choice([1, 0x10, 0x123]), rng.randrange(4), kids=g)
        sibs = [T(t_, rng.randrange(4), payload=rbytes(rng, rng.choice([0, 3, 30]))) for t_ in rng.sample([5, 7, 8, 0x200], rng.randrange(0, 3))]
        kids = [mid] + sibs
        rng.shuffle(kids)
        outer = T(rng.choice([0x10, 0x801, 0x1f]), rng.randrange(4), kids=kids)
        for t2, n2 in ((g[0].tag, rng.choice([0, 1, 20, 300])), (0x0b, rng.choice([1, 20, 60])), (9, 2), (9, base_len + 40)):
            yield "elset2 %s %d %d %s" % (hx(outer.enc()), mid.tag, t2, hx(rbytes(rng, n2)))
    # --- the 16-bit boundary at every depth: content 65531..65540 built from children
    for depth in range(0, 4):
        for total in ([65531, 65535, 65536, 65537, 65540] if tier == "quick" else range(65528, 65545)):
            # one big raw child (header 4) + filler raw children to reach `total` content bytes
            bigp = min(65535, total - 4)
            kids = [T(rng.choice(TAGS), rng.randrange(4), payload=rbytes(rng, bigp))]
            rest = total - 4 - bigp
            while rest >= 2:
                n = min(rest - 2, 200)
                kids.append(T(1, 0, payload=rbytes(rng, n)))
                rest -= n + 2
            t = T(rtag(rng), rng.randrange(4), kids=kids)
            for _ in range(depth):
                t = T(rtag(rng), rng.randrange(4), kids=[t])
            need = len(t.enc())
            for r in (need, 4 + 65536, 70000 + 4 * depth, need - 1):
                yield "ser %s %d" % (t.txt(), r)
                yield "elser %s %d" % (t.txt(), r)
            yield "serd %s" % t.txt()
    # --- parsers: valid encodings, non-minimal headers, truncations, perturbations
    n_parse = 600 if tier == "quick" else 8000
    for i in range(n_parse):
        t = rtree(rng, rng.randrange(0, 6))
        e = t.enc(force16=(rng.random() < 0.15))
        yield "parse %s 8" % hx(e)
        yield "ftlv %s" % hx(e)
        yield "ftlvn %s" % hx(e + rtree(rng, 1).enc())
        tail = rbytes(rng, rng.choice([0, 0, 1, 2, 7]))
        yield "stream %s %d" % (hx(e + tail), rng.choice([len(e), len(e) + 5, 0xffff + 4, max(0, len(e) - 1), 1, 3]))
        if i % 4 == 0:
            yield "sstream %s %d" % (hx(e + tail), rng.choice([len(e), 0xffff + 4, max(0, len(e) - 1)]))
        if len(e) <= 40 or i % 20 == 0:
            cuts = range(len(e)) if len(e) <= 40 else [rng.randrange(len(e)) for _ in range(8)]
            for c in cuts:
                yield "parse %s 8" % hx(e[:c])
                yield "ftlv %s" % hx(e[:c])
                yield "stream %s %d" % (hx(e[:c]), 0xffff + 4)
        # length-field perturbations at a random position that holds a length byte
        b = bytearray(e)
        hl = 4 if b[0] & 0x80 else 2
        for d in (1, -1):
            p = bytearray(b)
            p[hl - 1] = (p[hl - 1] + d) & 0xff
            yield "parse %s 8" % hx(bytes(p))
            yield "ftlvn %s" % hx(bytes(p))
        if hl == 4:
            for d in (1, -1):
                p = bytearray(b)
                p[2] = (p[2] + d) & 0xff
                yield "parse %s 8" % hx(bytes(p))
        if len(b) > hl + 2:
            p = bytearray(b)
            q = rng.randrange(hl, len(b))
            p[q] ^= 1 << rng.randrange(8)
            yield "parse %s 8" % hx(bytes(p))
        yield "parse %s 8" % hx(e + b"\x00")
        yield "elparse %s 8" % hx(e)
        yield "elparse %s 8" % hx(e + b"\x00")
        if t.kids:
            tags = [k.tag for k in t.kids]
            tg = rng.choice(tags + [rng.choice(TAGS)])
            yield "elremove %s %d %d" % (hx(e), tg, rng.randrange(2))
            c = rtree(rng, 1)
            if rng.random() < 0.5:
                c.tag = rng.choice(tags)
            yield "elset %s %s" % (hx(e), hx(c.enc()))
            # a sub element that grows from a short header to a long one (or shrinks back), with something behind it
            if i % 4 == 0:
                k0 = rng.choice(t.kids)
                for newlen in (255, 256, 300, 3):
                    yield "elset %s %s" % (hx(e), hx(T(k0.tag, k0.fl, payload=rbytes(rng, newlen)).enc()))
                    yield "elseto %s %d %s" % (hx(e), k0.tag, hx(rbytes(rng, newlen)))
        if t.kids is not None and i % 3 == 0:
            # stray bytes after the last child: the nested view must be refused
            for extra in (b"\x00", b"\x01", b"\x80", b"\x05\x01"):
                bad = T(t.tag, t.fl, payload=t.content() + extra).enc()
                yield "elparse %s 8" % hx(bad)
                yield "parse %s 8" % hx(bad)
                yield "elremove %s %d 1" % (hx(bad), t.kids[0].tag if t.kids else 1)
    for i in range(200 if tier == "quick" else 5000):
        r = rbytes(rng, rng.choice([0, 1, 2, 3, 4, 5, 8, 16, 40]))
        yield "parse %s 8" % hx(r)
        yield "ftlv %s" % hx(r)
        yield "ftlvn %s" % hx(r)
        yield "stream %s %d" % (hx(r), rng.choice([0, 1, 2, 3, 4, 8, 70000]))
    # --- all 2^16 two-byte prefixes (exhaustive in thorough, strided + random offset in quick)
    step = 1 if tier == "thorough" else 16
    off = rng.randrange(step)
    for v in range(off, 65536, step):
        b0, b1 = v >> 8, v & 0xff
        if b0 & 0x80:
            ln = rng.choice([0, 1, 3])
            body = bytes([b0, b1, 0, ln]) + rbytes(rng, ln)
        else:
            body = bytes([b0, b1]) + rbytes(rng, b1)
        yield "parse %s 2" % hx(body)
        yield "ftlv %s" % hx(body)
    # --- maximal elements
    for n in (65535, 65534):
        e = T(0x1fff, 3, payload=rbytes(rng, n)).enc()
        yield "parse %s 1" % hx(e)
        yield "stream %s %d" % (hx(e + b"\x01\x02"), 0xffff + 4)
        yield "stream %s %d" % (hx(e + b"\x01\x02"), 0xffff + 3)


def trivial(cls):
    # rejected-at-first-glance cases are trivial; everything accepted, and refusals for a
    # specific size reason, are not
    return cls in ("parse:err256", "ftlv:257", "ftlvn:256")


CONFIG = Config()
CONFIG.pid = "C09"
CONFIG.props_module = "KsiVerif.Props.C09"
CONFIG.required_theorems = [
    "serialize_sound", "serialize_refuses_oversize", "serialize_refuses_small_buffer",
    "serialize_complete", "serializeDefault_complete", "header_form", "parse_encode",
    "expand_encode", "serialize_parse", "parse_sound", "parseHdr_fields", "expand_sound",
]
CONFIG.engines = [Engine("c09", ["exec_c09.c"], "drv_c09", gen, trivial=trivial)]
CONFIG.rule = ("op lines generated from one PRNG (VERIF_SEED): random TLV trees (depth<=6, boundary tags "
               "and lengths) x buffer sizes around the exact need through KSI_TLV_serialize_ex and "
               "KSI_TlvElement_serialize; content sizes 65528..65544 at depths 0..3; byte strings = "
               "valid encodings, non-minimal header forms, every truncation of short encodings, "
               "length-field +-1/+-256, bit flips, random bytes, two-byte header prefixes (all 65536 in "
               "thorough, 1/16 stride in quick) through KSI_TLV_parseBlob(+getNestedList), "
               "KSI_FTLV_memRead(N), KSI_FTLV_fileRead/socketRead. A case is distinct by its op line; "
               "non-trivial = not rejected by the very first length/argument check. Element codec after changes: a value set / removed at the top and two levels down (the middle element's encoding crossing the 255-octet form boundary, a sibling behind it), then serialize, detach, serialize again (must be unchanged); elements that must be refused (serd) and partial serialization (elserp).")
CONFIG.trusted_base = [
    "Lean 4.33.0 kernel; axioms propext, Classical.choice, Quot.sound only (audited per theorem each run)",
    "model KsiVerif.Model.Tlv is hand-written from tlv.c/fast_tlv.c/tlv_element.c; tied to the code by the "
    "differential executor harness/exec_c09.c (ASan+UBSan build of /repo's current sources)",
    "spec KsiVerif.Spec.Tlv (format definition) is read by humans; the oracle evaluates it on the implementation's outputs",
]
CONFIG.assumptions = [
    "tags above 0x1fff are outside the property's domain (KSI_TLV_new does not range-check the tag)",
    "heap behaviour of the C code is observed under ASan, not proved",
]
CONFIG.design_ref = "DESIGN.md section 4, C09"
CONFIG.technique = "Lean 4 theorems (round-trip, soundness, refusal) over a TLV codec model + differential correspondence"
CONFIG.level_text = ("Kernel-checked theorems for all trees, byte strings and buffer sizes: any successful "
                     "serialization is exactly the format encoding and fits; oversize content and small buffers "
                     "are refused; parse(encode t) returns tag, flags and payload at every level; a successful parse "
                     "tiles its input exactly. The model is tied to tlv.c/fast_tlv.c/tlv_element.c by a differential "
                     "run (~4*10^4 cases quick) and the format oracle is evaluated on the implementation's own output.")
CONFIG.level_note = ("Trusted: Lean kernel + propext/Classical.choice/Quot.sound; the hand-written model and its "
                     "differential tie (generator quality bounds what the tie sees); ASan/UBSan observe, not prove, "
                     "memory safety. Element deep-parse (convertToNested) is covered by correspondence only.")
