"""C06 — PDUs are HMAC-authenticated: requests carry a correct MAC, responses need one."""
import hashlib
import hmac as pyhmac
import os
import sys

sys.path.insert(0, os.path.join(os.path.dirname(os.path.abspath(__file__)), "..", "lib"))
sys.path.insert(0, os.path.join(os.path.dirname(os.path.abspath(__file__)), "..", "translator"))
from ksiverif.runner import Config, Engine  # noqa: E402
from ksiverif.gen import tlv, be, hx  # noqa: E402
import tables  # noqa: E402

ALG = {0: ("sha1", 20), 1: ("sha256", 32), 4: ("sha384", 48), 5: ("sha512", 64)}
BLOCK = {0: 64, 1: 64, 4: 128, 5: 128}


def mac(alg, key, data):
    """independent HMAC (Python's)"""
    return bytes([alg]) + pyhmac.new(key, data, getattr(hashlib, ALG[alg][0])).digest()


def header(login=b"anon", inst=None, msg=None):
    b = tlv(0x01, login + b"\x00")
    if inst is not None:
        b += tlv(0x02, be(inst))
    if msg is not None:
        b += tlv(0x03, be(msg))
    return tlv(0x01, b)


def pdu_v2(root, payloads, alg, key, login=b"anon", extra_after=b""):
    """header ‖ payloads ‖ MAC, the MAC over everything before the digest"""
    body = header(login) + payloads
    hl = ALG[alg][1]
    whole = tlv(root, body + tlv(0x1f, bytes([alg]) + bytes(hl)) + extra_after)
    if extra_after:
        return whole[:len(whole) - hl - len(extra_after)] + mac(alg, key, whole[:len(whole) - hl - len(extra_after)])[1:] + extra_after
    return whole[:-hl] + mac(alg, key, whole[:-hl])[1:]


def pdu_v1(root, payload, alg, key, login=b"anon"):
    """header ‖ payload ‖ MAC, the MAC over header and payload"""
    h = header(login)
    return tlv(root, h + payload + tlv(0x1f, mac(alg, key, h + payload)))


def aggr_resp(tag, rid, status=0, conf=False):
    b = tlv(0x01, be(rid)) + tlv(0x04, be(status))
    if status:
        b += tlv(0x05, b"refused\x00")
    if conf:
        b += tlv(0x10, tlv(0x01, b"\x11") + tlv(0x03, b"\x02\x00"))
    return tlv(tag, b)


def ext_resp(tag, rid, status=0, v2=True):
    b = tlv(0x01, be(rid)) + tlv(0x04, be(status))
    b += tlv(0x12 if v2 else 0x10, be(1500000000))
    return tlv(tag, b)


def conf_aggr():
    return tlv(0x04, tlv(0x01, b"\x11") + tlv(0x04, b"\x10"))


def conf_ext():
    return tlv(0x04, tlv(0x04, b"\x10") + tlv(0x11, be(1136073600)))


def err_pdu(tag, status):
    return tlv(tag, tlv(0x04, be(status)) + tlv(0x05, b"err\x00"))


def rkey(rng, n=None):
    n = n if n is not None else rng.choice([1, 4, 8, 63, 64, 65, 127, 128, 129, 200])
    return bytes(rng.randrange(1, 256) for _ in range(n))


def valid_replies(rng, rid):
    """(family, version, alg, key, bytes, label)"""
    out = []
    for alg in (1, 4, 5, 0):
        key = rkey(rng)
        out.append(("aggr", 2, alg, key, pdu_v2(0x221, aggr_resp(0x02, rid), alg, key), "resp"))
        out.append(("aggr", 2, alg, key, pdu_v2(0x221, aggr_resp(0x02, rid) + conf_aggr(), alg, key), "resp+conf"))
        out.append(("aggr", 2, alg, key, pdu_v2(0x221, conf_aggr(), alg, key), "conf"))
        out.append(("aggr", 2, alg, key, pdu_v2(0x221, aggr_resp(0x02, rid, 0x101), alg, key), "status"))
        out.append(("aggr", 1, alg, key, pdu_v1(0x200, aggr_resp(0x202, rid), alg, key), "resp"))
        out.append(("aggr", 1, alg, key, pdu_v1(0x200, aggr_resp(0x202, rid, conf=True), alg, key), "resp+conf"))
        out.append(("ext", 2, alg, key, pdu_v2(0x321, ext_resp(0x02, rid), alg, key), "resp"))
        out.append(("ext", 2, alg, key, pdu_v2(0x321, ext_resp(0x02, rid) + conf_ext(), alg, key), "resp+conf"))
        out.append(("ext", 1, alg, key, pdu_v1(0x300, ext_resp(0x302, rid, v2=False), alg, key), "resp"))
    return out


def v1_range(b):
    """(start, end) of the authenticated bytes of a v1 PDU plus the digest range"""
    hl = 4 if b[0] & 0x80 else 2
    i = hl
    spans = []
    while i < len(b):
        if b[i] & 0x80:
            t, n, h = ((b[i] & 0x1f) << 8) | b[i + 1], (b[i + 2] << 8) | b[i + 3], 4
        else:
            t, n, h = b[i] & 0x1f, b[i + 1], 2
        spans.append((t, i, i + h, i + h + n))
        i += h + n
    return spans


def gen(rng, tier):
    big = tier == "thorough"
    # --- the HMAC itself: key lengths around the block sizes, all computable algorithms, chunked texts
    for alg in (0, 1, 4, 5):
        b = BLOCK[alg]
        for kl in sorted(set([1, 2, b - 1, b, b + 1, 2 * b, 2 * b + 1, 1000] + [rng.randrange(1, 300) for _ in range(4 if not big else 60)])):
            key = rkey(rng, kl)
            text = rng.randbytes(rng.choice([0, 1, 55, 56, 63, 64, 65, 111, 112, 119, 127, 128, 129, 500]))
            cuts = sorted(rng.sample(range(len(text) + 1), min(len(text) + 1, rng.randrange(0, 4))))
            chunks = [text[i:j] for i, j in zip([0] + cuts, cuts + [len(text)])]
            yield "hmac %d %s %s" % (alg, hx(key), " ".join(hx(c) for c in chunks))
    for alg in (3, 6, 7, 8, 9, 10, 11, 0x7e):      # not computable here: refused by both (RIPEMD-160 is left out: the Lean driver has no implementation of it)
        yield "hmac %d %s %s" % (alg, hx(b"key"), hx(b"text"))
    yield "hmac 1 %s %s" % (hx(bytes([65]) * 65535), hx(b"x"))
    # --- requests as handed to the transport
    for fam in ("aggr", "ext"):
        for ver in (1, 2):
            for alg in (1, 4, 5):
                for cb in (0, 1):
                    for kl in (1, 63, 64, 65, 128, 129):
                        login = bytes(rng.choice(b"abcdefghij-_.:") for _ in range(rng.choice([1, 4, 12, 200])))
                        yield "req %s %d %d %s %s %d" % (fam, ver, alg, hx(login), hx(rkey(rng, kl)), cb)
            # requests that carry a configuration request (2, 3: beside the payload request; 4, 5: on its own)
            for cb in (2, 3, 4, 5):
                for alg in (1, 4, 5):
                    yield "req %s %d %d %s %s %d" % (fam, ver, alg, hx(b"anon"), hx(rkey(rng, rng.choice([5, 64, 65, 200]))), cb)
            # credentials inside the service URI: keys with colons, long keys
            for k in (b"k", b"a:b", b"a:b:c", b":x", b"x:", b"key-" + b"y" * 70, b"p:" + b"q" * 64):
                yield "requ %s %d %d %s %s 0" % (fam, ver, rng.choice([1, 4, 5]), hx(rng.choice([b"anon", b"user.name", b"u"])), hx(k))
            yield "req %s %d 0 %s %s 0" % (fam, ver, hx(b"anon"), hx(b"key"))      # SHA-1 is not trusted for a MAC
    # --- replies through the blocking client: authentic ones, and every way of not being authentic
    reps = valid_replies(rng, 0x1234)
    for fam, ver, alg, key, b, label in reps:
        pins = ["-", str(alg)]
        for pin in pins:
            yield "resp %s %d %s %s %s auth=1" % (fam, ver, pin, hx(key), hx(b))
        # another key / another pinned algorithm / the other version / the other family
        yield "resp %s %d - %s %s auth=0" % (fam, ver, hx(key + b"x"), hx(b))
        yield "resp %s %d - %s %s auth=0" % (fam, ver, hx(key[:-1] or b"k"), hx(b))
        for other in (1, 4, 5):
            if other != alg:
                yield "resp %s %d %d %s %s auth=0" % (fam, ver, other, hx(key), hx(b))
        yield "resp %s %d - %s %s auth=0" % (fam, 3 - ver, hx(key), hx(b))
        yield "resp %s %d - %s %s auth=0" % ("ext" if fam == "aggr" else "aggr", ver, hx(key), hx(b))
    # every single-bit flip (exhaustive per reply; in quick mode for one algorithm per shape)
    for fam, ver, alg, key, b, label in reps:
        if not big and alg != 1:
            continue
        spans = v1_range(b) if ver == 1 else None
        for pos in range(len(b)):
            for bit in range(8):
                m = bytearray(b)
                m[pos] ^= 1 << bit
                auth = "auth=0"
                if ver == 1:
                    # v1 authenticates the header and payload elements and nothing else: a flip in the PDU's own
                    # header or in the header of the MAC element is outside the property's range
                    inside = any((t in (0x01, 0x202, 0x302) and s <= pos < e) or (t == 0x1f and hs <= pos < e and pos >= hs + 1)
                                 for t, s, hs, e in spans)
                    if not inside:
                        auth = "auth=?"
                yield "resp %s %d %s %s %s %s" % (fam, ver, rng.choice(["-", str(alg)]), hx(key), hx(bytes(m)), auth)
    # structural tampering
    for fam, ver, alg, key, b, label in reps:
        root = (b[0] & 0x1f) << 8 | b[1]
        hl = ALG[alg][1]
        if ver == 2:
            body = b[4:]
            no_mac = tlv(root, body[:-(hl + 3)])
            yield "resp %s %d - %s %s auth=0" % (fam, ver, hx(key), hx(no_mac))
            hdr_len = 2 + body[1]
            no_hdr = tlv(root, body[hdr_len:])
            yield "resp %s %d - %s %s auth=0" % (fam, ver, hx(key), hx(no_hdr))
            zero = b[:-hl] + bytes(hl)
            yield "resp %s %d - %s %s auth=0" % (fam, ver, hx(key), hx(zero))
            # an element behind the MAC (not covered by it)
            yield "resp %s %d - %s %s auth=0" % (fam, ver, hx(key), hx(tlv(root, body + tlv(0x1e, b"\x01", nc=1))))
            # a MAC computed correctly, but an extra (ignored) element placed after it
            good_extra = pdu_v2(root, body[hdr_len:-(hl + 3)], alg, key, extra_after=tlv(0x1e, b"\x01", nc=1))
            yield "resp %s %d - %s %s auth=?" % (fam, ver, hx(key), hx(good_extra))
            for cut in (1, 2, hl, hl + 3, len(b) // 2):
                yield "resp %s %d - %s %s auth=0" % (fam, ver, hx(key), hx(b[:-cut]))
            # payload replaced, MAC kept
            other = pdu_v2(root, body[hdr_len:-(hl + 3)] + tlv(0x05 if fam == "aggr" else 0x04, b""), alg, key)
            spliced = other[:-hl] + b[-hl:]
            yield "resp %s %d - %s %s auth=0" % (fam, ver, hx(key), hx(spliced))
        else:
            # the client's own authenticated request sent back with a response element spliced in: the MAC (over header and
            # request) is genuine, the response is not covered by it
            h = header()
            req = tlv(0x201, tlv(0x01, be(1)) + tlv(0x02, bytes([1]) + rng.randbytes(32))) if fam == "aggr" else tlv(0x301, tlv(0x01, be(1)) + tlv(0x02, be(1400000000)))
            resp_el = b[4 + 2 + b[5]:len(b) - (hl + 3)]
            for order in (req + resp_el, resp_el + req):
                yield "resp %s %d - %s %s auth=0" % (fam, ver, hx(key), hx(tlv(root, h + order + tlv(0x1f, mac(alg, key, h + req)))))
        # error PDUs need no MAC and never deliver content
        e = tlv(root, (header() if rng.random() < 0.5 else b"") + err_pdu({0x221: 0x03, 0x321: 0x03, 0x200: 0x203, 0x300: 0x303}[root], rng.choice([0x101, 0x102, 0x300, 0x55])))
        yield "resp %s %d - %s %s auth=0" % (fam, ver, hx(key), hx(e))
    # random multi-byte damage
    for _ in range(300 if not big else 6000):
        fam, ver, alg, key, b, label = rng.choice(reps)
        m = bytearray(b)
        for _ in range(rng.randrange(1, 4)):
            m[rng.randrange(len(m))] = rng.randrange(256)
        if bytes(m) != b:
            yield "resp %s %d - %s %s auth=?" % (fam, ver, hx(key), hx(bytes(m)))
    # --- the asynchronous service (PDU v2, signing): the request id of the first request is 1
    areps = [r for r in valid_replies(rng, 1) if r[0] == "aggr" and r[1] == 2]
    for fam, ver, alg, key, b, label in areps:
        yield "async 2 - %s %s auth=1" % (hx(key), hx(b))
        yield "async 2 %d %s %s auth=1" % (alg, hx(key), hx(b))
        yield "async 2 - %s %s auth=0" % (hx(key + b"x"), hx(b))
        for other in (1, 4, 5):
            if other != alg:
                yield "async 2 %d %s %s auth=0" % (other, hx(key), hx(b))
        hl = ALG[alg][1]
        yield "async 2 - %s %s auth=0" % (hx(key), hx(b[:-hl] + bytes(hl)))
        # a damaged reply followed by the good one: the good one is still delivered
        bad = bytearray(b); bad[-1] ^= 1
        yield "async 2 - %s %s auth=1" % (hx(key), hx(bytes(bad) + b))
        if big or alg == 1:
            for pos in range(4, len(b)):          # flips that keep the TLV framing of the stream intact
                m = bytearray(b)
                m[pos] ^= 1 << rng.randrange(8)
                yield "async 2 - %s %s auth=0" % (hx(key), hx(bytes(m)))


def trivial(cls):
    return False


CONFIG = Config()
CONFIG.pid = "C06"
CONFIG.props_module = "KsiVerif.Props.C06"
CONFIG.required_theorems = ["hmac_is_rfc2104", "hmac_chunking", "hmac_reset_after_close", "verify_ok_iff", "v2_authenticated_range",
                             "v1_authenticated_range", "delivered_only_if_authentic", "v2_changed_digest_refused",
                             "v2_changed_range_needs_collision", "create_error_nonzero", "calc_error_nonzero"]
CONFIG.translators = [tables.gen_templates, tables.gen_hashalgs]
CONFIG.engines = [Engine("c06", ["exec_c06.c"], "drv_c06", gen, trivial=trivial, wraps=["time"])]
CONFIG.rule = ("op lines from one PRNG (VERIF_SEED). hmac: SHA-1/256/384/512 x key lengths {1, 2, B-1, B, B+1, 2B, 2B+1, 1000, random} x texts around the "
               "block and padding boundaries fed in random chunks, then the same hasher after a reset, then KSI_HMAC_create; algorithms that cannot be "
               "computed. req: aggregation and extension requests, PDU v1 and v2, MAC algorithm SHA-256/384/512, key lengths around the blocks, login ids up "
               "to 200 octets, with and without a request-header callback that changes the header — the bytes handed to the (file) transport and the bytes the "
               "async TCP client writes to its socket. resp: 36 authentic replies (4 algorithms x 9 shapes: response, response + configuration, pushed "
               "configuration, non-zero status, v1 / v2, aggregation / extension, keys of random lengths, MAC by Python's hmac) through "
               "KSI_RequestHandle_getAggregationResponse / getExtendResponse over the file transport with the algorithm pinned or not; then another key, a "
               "truncated key, another pinned algorithm, the other PDU version, the other family, EVERY single-bit flip of the reply (quick: the SHA-256 "
               "replies; thorough: all), MAC removed, header removed, zeroed digest, element appended behind the MAC, truncations, payload spliced under a "
               "foreign MAC, error PDUs, random multi-byte damage. async: the same through the asynchronous signing service on a scripted socket, incl. a "
               "damaged reply followed by the good one. Each op line carries the generator's verdict auth=1 / auth=0 / auth=? (? = the change lies outside "
               "the authenticated range of a v1 PDU, or its effect is not predicted).")
CONFIG.trusted_base = [
    "Lean 4.33.0 kernel; axioms propext, Classical.choice, Quot.sound only",
    "hash functions are a parameter of every theorem; the driver instantiates them with the SHA-1/256/384/512 implementations of KsiVerif.Model.Sha, "
    "the generator with Python's hashlib/hmac, libksi with OpenSSL digests under its own hmac.c — three independent computations are compared",
    "PDU parsing is the C10 model over the regenerated template tables; PduMac (which bytes are authenticated, when content is used) is hand-written "
    "from types.c:746-994 and net.c:723-1098, tied by harness/exec_c06.c",
    "collision resistance of HMAC is not proved (it cannot be): v2_changed_range_needs_collision states exactly what remains"]
CONFIG.assumptions = [
    "the HTTP and blocking TCP transports share prepare…Request / KSI_RequestHandle_get…Response with the file transport used here; the HA service runs "
    "the same processResponseQueue as the asynchronous client (not driven separately in this check)",
    "RIPEMD-160 MACs are not compared (no Lean implementation); SHA-3 / SM-3 are not computable in this build (refused by both)"]
CONFIG.design_ref = "DESIGN.md section 4, C06"
CONFIG.technique = "Lean 4 proofs (hmac.c = RFC 2104; verification accepts exactly header + MAC + pinned algorithm + HMAC over the stated byte range; nothing delivered before) + three-way differential check of MACs and of every single-bit flip"
CONFIG.level_text = ("Kernel-checked for every hash function, key (1..65535 octets) and text: KSI_HMAC_create, fed in any chunking and after a reset, is RFC 2104. For every "
                     "received byte string and parse result: verification returns OK exactly when header and MAC are present, the MAC algorithm is the pinned one "
                     "and the MAC equals RFC 2104 over the bytes before the digest (v2) / the header and payload elements (v1); the blocking client hands on parsed "
                     "content only after that; a changed digest is always refused and a change inside the authenticated range is accepted only with an HMAC "
                     "collision. Requests: every request the SDK hands to a transport is checked by an independent recomputation (oracle on the real bytes).")
CONFIG.level_note = ("Trusted: Lean kernel + standard axioms; the PduMac model and its differential tie (~6*10^3 cases quick, every single-bit flip of 9-36 replies); "
                     "request construction is checked by oracle, not by a theorem; HMAC's cryptographic strength is assumed.")
