"""C14 — TCP clients frame the byte stream independently of how it is chunked."""
import os
import sys

sys.path.insert(0, os.path.join(os.path.dirname(os.path.abspath(__file__)), "..", "lib"))
from ksiverif.runner import Config, Engine  # noqa: E402
from ksiverif import gen as G  # noqa: E402

OPTS = "10:10:1000:1"


def pdu(rng, n=None):
    """a TLV element of total size n (2..65539)"""
    if n is None:
        n = rng.choice([2, 3, 4, 5, 6, 9, 17, 40]) if rng.random() < 0.85 else rng.choice([255, 257, 258, 259, 260, 300, 1000])
    if n >= 260 or (n >= 4 and rng.random() < 0.3 and n - 4 <= 0xffff):
        return G.tlv(rng.choice([0x200, 0x221, 0x321]), G.rbytes(rng, n - 4), force16=True)
    return G.tlv(rng.choice([1, 2, 0x1f]), G.rbytes(rng, max(0, min(n - 2, 255))))


def d(poll="IO", conn="y", recvs=None, sends=None):
    return "d:%s:%s:%s:%s" % (poll, conn, ".".join(str(x) for x in recvs) if recvs else "-",
                              ".".join(str(x) for x in sends) if sends else "-")


def gen(rng, tier):
    big = tier == "thorough"
    hx = G.hx
    # A. receive side: every split point of short streams (exhaustive), one and two cuts
    for i in range(30 if not big else 300):
        pdus = [pdu(rng) for _ in range(rng.randrange(1, 5))]
        stream = b"".join(pdus)
        if len(stream) > (64 if not big else 120):
            continue
        head = "q:%s,%s" % (hx(pdu(rng, 6)), d("O"))
        for cut in range(0, len(stream) + 1):
            yield "tcp %s %s %s,%s,%s" % (OPTS, hx(stream), head, d("I", recvs=[cut, "w"]) if cut else d("I", recvs=["w"]),
                                          d("I", recvs=[len(stream), "w"]))
            yield "tcp %s %s %s,%s" % (OPTS, hx(stream), head, d("I", recvs=[cut or 1, len(stream), "w"]))
        if len(stream) <= 24 or big:
            for c1 in range(1, len(stream)):
                for c2 in range(c1 + 1, len(stream) + 1):
                    if not big and rng.random() < 0.5:
                        continue
                    yield "tcp %s %s %s,%s,%s,%s" % (OPTS, hx(stream), head, d("I", recvs=[c1, "w"]),
                                                     d("I", recvs=[c2 - c1, "w"]), d("I", recvs=[len(stream)]))
    # A2. long streams with random chunking, incl. maximum-size PDUs and chunks larger than the buffer allows
    for i in range(40 if not big else 600):
        pdus = [pdu(rng, rng.choice([2, 6, 300, 4000, 65535, 65538, 65539])) if rng.random() < 0.3 else pdu(rng)
                for _ in range(rng.randrange(1, 12))]
        stream = b"".join(pdus)
        steps = ["q:%s" % hx(pdu(rng, 8)), d("O")]
        left = len(stream)
        while left > 0:
            items = []
            for _ in range(rng.randrange(1, 4)):
                k = rng.choice([1, 2, 3, 7, 100, 4096, 65539, 70000, 200000])
                items.append(k)
                left -= min(k, 65539, max(left, 0))
            if rng.random() < 0.7:
                items.append("w")
            steps.append(d(rng.choice(["I", "IO", "I"]), recvs=items))
        steps.append(d("I", recvs=[len(stream)]))
        yield "tcp %s %s %s" % (OPTS, hx(stream), ",".join(steps))
    # B. send side: partial sends, would-block, errors at every byte offset of short exchanges, reconnects
    for i in range(60 if not big else 800):
        reqs = [pdu(rng, rng.choice([2, 3, 5, 9, 20])) for _ in range(rng.randrange(1, 5))]
        total = sum(len(r) for r in reqs)
        base = ",".join("q:%s" % hx(r) for r in reqs)
        for off in range(0, total + 1):
            if not big and total > 24 and rng.random() < 0.5:
                continue
            for fault in ("w", "x"):
                first = ([off] if off else []) + [fault]
                yield "tcp %s - %s,%s,%s,%s" % (OPTS, base, d("O", sends=first), d("O", sends=[3, "w"]), d("O"))
                yield "tcp %s - %s,%s,%s,%s,%s" % (OPTS, base, d("O", sends=first), "q:%s" % hx(pdu(rng, 4)), d("O", sends=[1, 1, "w"]), d("O"))
    # B2. a request sent in part (would-block), then the connection ends for a reason the SEND path does not see (peer close or
    #     reset on the read side, POLLERR / POLLHUP, a poll error), then a new connection: it must carry the request from its start
    for i in range(12 if not big else 120):
        reqs = [pdu(rng, rng.choice([3, 5, 9, 20])) for _ in range(rng.randrange(1, 3))]
        base = ",".join("q:%s" % hx(r) for r in reqs)
        for off in range(1, len(reqs[0])):
            if not big and len(reqs[0]) > 9 and rng.random() < 0.6:
                continue
            for end in (d("I", recvs=["z"]), d("I", recvs=["x"]), d("IO", recvs=["z"], sends=["w"]), d("E"), d("H"), d("IOH"),
                        d("I", recvs=[1, "z"])):
                yield "tcp %s %s %s,%s,%s,%s,%s" % (OPTS, hx(pdu(rng, 6)) if "1.z" in end else "-", base, d("O", sends=[off, "w"]),
                                                    end, d("O"), d("O"))
    # C. mixed schedules with faults, timeouts, refused connections, clock
    for i in range(500 if not big else 8000):
        opts = "%d:%d:%d:%d" % (rng.choice([0, 1, 5, 10]), rng.choice([0, 1, 5, 10, 10]), rng.choice([1, 2, 3, 1000]), rng.choice([1, 1, 2]))
        stream = b"".join(pdu(rng) for _ in range(rng.randrange(0, 6)))
        steps = []
        for _ in range(rng.randrange(1, 14)):
            r = rng.random()
            if r < 0.25:
                steps.append("q:%s" % hx(pdu(rng, rng.choice([2, 4, 7, 12]))))
            elif r < 0.33:
                steps.append("t:%d" % rng.choice([1, 1, 2, 6, 11]))
            else:
                poll = rng.choice(["IO", "IO", "IO", "I", "O", "-", "0", "0", "E", "IOH", "H"])
                recvs = [rng.choice([1, 2, 3, 5, 8, 50, "w", "w", "z", "x"]) for _ in range(rng.randrange(0, 4))]
                sends = [rng.choice([1, 2, 3, 5, 50, "w", "w", "x"]) for _ in range(rng.randrange(0, 4))]
                steps.append(d(poll, rng.choice("yyyyn"), recvs, sends))
        yield "tcp %s %s %s" % (opts, hx(stream), ",".join(steps))
    # D. a partial response in the buffer while the send would block (stale status)
    for i in range(20):
        p = pdu(rng, rng.choice([6, 9, 40]))
        cut = rng.randrange(1, len(p))
        yield "tcp %s %s q:%s,q:%s,%s,%s,%s" % (OPTS, hx(p), hx(pdu(rng, 8)), hx(pdu(rng, 8)), d("O", sends=[8]),
                                               d("IO", recvs=[cut, "w"], sends=[3, "w"]), d("IO", recvs=[len(p)]))


def gen_b(rng, tier):
    big = tier == "thorough"
    hx = G.hx
    # where the client connects: ports of every number of digits, host names up to the resolver's limit
    for port in [0, 1, 9, 10, 99, 100, 999, 1000, 9999, 10000, 12345, 65535] + [rng.randrange(1, 65536) for _ in range(20)]:
        yield "baddr %s %d" % (hx(rng.choice([b"h", b"host.example", b"10.0.0.1", b"x" * 63 + b".example"])), port)
    for i in range(60 if not big else 800):
        req = pdu(rng, rng.choice([2, 3, 5, 9, 20, 300]))
        resp = pdu(rng, rng.choice([2, 3, 4, 5, 6, 9, 17, 260, 300, 65539]) if rng.random() < 0.9 else None)
        stream = resp + (pdu(rng) if rng.random() < 0.5 else b"")
        n = len(resp)
        if n <= 24:
            # every chunking of the response into 1..3 chunks + every partial-send pattern of short requests
            for c1 in range(1, n + 1):
                yield "btcp %s - %s %d y" % (hx(req), hx(stream), c1)
                for c2 in range(1, n - c1 + 1):
                    yield "btcp %s - %s %d.%d y" % (hx(req), hx(stream), c1, c2)
                    if c1 + c2 < n and (big or rng.random() < 0.3):
                        yield "btcp %s - %s %d.%d.%d.1.1 y" % (hx(req), hx(stream), c1, c2, rng.randrange(1, n - c1 - c2 + 1))
            yield "btcp %s - %s %s y" % (hx(req), hx(stream), ".".join(["1"] * n))
        for _ in range(4):
            recvs = ".".join(str(rng.choice([1, 2, 3, 5, 100, 70000])) for _ in range(rng.randrange(0, 8))) or "-"
            sends = ".".join(str(rng.choice([1, 2, 3, 100])) for _ in range(rng.randrange(0, 6))) or "-"
            yield "btcp %s %s %s %s y" % (hx(req), sends, hx(stream), recvs)
        if len(req) <= 20:
            for off in range(0, len(req) + 1):
                yield "btcp %s %s %s - y" % (hx(req), ".".join(([str(off)] if off else []) + ["x"]), hx(stream))
                yield "btcp %s %s %s - y" % (hx(req), ".".join(([str(off)] if off else []) + ["1", "1"]), hx(stream))
        for fault in ("z", "w", "x"):
            for pos in range(0, min(n, 12) + 1):
                yield "btcp %s - %s %s y" % (hx(req), hx(stream), ".".join(([str(pos)] if pos else []) + [fault]))
        yield "btcp %s - %s - n" % (hx(req), hx(stream))
        yield "btcp %s - %s - y" % (hx(req), hx(resp[:rng.randrange(0, n)]))


CONFIG = Config()
CONFIG.pid = "C14"
CONFIG.props_module = "KsiVerif.Props.C14"
CONFIG.required_theorems = ["reassembly_independent_of_chunking", "same_stream_same_pdus", "delivered_plus_rest_is_stream",
                             "inbuf_bound", "complete_pdu_is_extracted", "wouldBlock_postpones", "accept_sends_next_bytes",
                             "closeSocket_restarts_head", "send_error_closes", "sendLoop_writes_contiguous", "sendLoop_done_sends_rest"]
CONFIG.engines = [Engine("c14", ["exec_c14.c"], "drv_c14", gen), Engine("c14b", ["exec_c14b.c"], "drv_c14", gen_b)]
CONFIG.rule = ("the real dispatch() of net_tcp_async.c on a scripted socket (libc calls of that translation unit redirected by macros): "
               "server streams of 1..12 PDUs (2..65539 bytes) with EVERY split point (one cut; two cuts for streams <= 24 bytes) for "
               "short streams and random chunkings (1 byte .. larger than the buffer) for long ones; 1..4 queued requests with a partial "
               "send / would-block / error at EVERY byte offset, followed by reconnects; a partial send followed by an end of the "
               "connection seen on the read / poll side (peer close, reset, POLLERR, POLLHUP) at every offset, then a new connection; random mixed schedules with poll timeouts and "
               "errors, POLLHUP, refused connections, peer close/reset, connect and send timeouts (incl. 0), per-round limits, clock. "
               "Compared per case: every dispatch status, bytes per connection, PDUs delivered in order, buffer fill, every request's "
               "state and sent count. Distinct by op line. The handed-up PDUs are taken through the client's own getResponse; the bytes each connection delivered are reported and the PDUs must be first complete elements of each connection in turn.")
CONFIG.trusted_base = ["Lean 4.33.0 kernel; axioms propext, Classical.choice, Quot.sound only",
                       "model KsiVerif.Model.Tcp hand-written from net_tcp_async.c:171-480; tied by harness/exec_c14.c whose socket simulator is trusted to behave like a non-blocking stream socket"]
CONFIG.assumptions = ["kernel socket semantics are simulated, not exercised", "the blocking reader (net_tcp.c) is covered by C09's stream ops over a socketpair only"]
CONFIG.design_ref = "DESIGN.md section 4, C14"
CONFIG.technique = "Lean 4 theorems over a pure model of dispatch() (reassembly independent of chunking, buffer bound, send framing) + exhaustive split-point correspondence on a scripted socket"
CONFIG.level_text = ("Kernel-checked for every stream and every chunking (any number and size of chunks): the PDUs delivered and the bytes left "
                     "buffered equal one extraction over the whole stream; delivered PDUs ++ rest = bytes received; the remainder is always "
                     "shorter than a maximum PDU so the 2*MAX buffer is never exceeded and a complete PDU is always extracted; would-block "
                     "returns the state unchanged; an accepted send writes exactly the next unsent bytes; a send error closes; closing resets "
                     "the head request so the next connection starts with a whole request. Over ANY schedule of partial sends and would-blocks the send loop writes exactly the next k unsent "
                     "octets of the head request, contiguously, and advances its sent count by k (sendLoop_writes_contiguous, induction over "
                     "the schedule), and it reports the request sent only after the socket has accepted every remaining octet "
                     "(sendLoop_done_sends_rest). PARTIAL: the composition across requests and dispatch calls (whole-request framing per connection) "
                     "is checked by the oracle on every byte offset, not proved.")
CONFIG.level_note = "Trusted: Lean kernel; hand-written model + differential tie through a socket simulator."
