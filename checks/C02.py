"""C02 — a signature verifies only for the document hash and level it was issued for."""
import os
import sys

sys.path.insert(0, os.path.join(os.path.dirname(os.path.abspath(__file__)), "..", "lib"))
sys.path.insert(0, os.path.join(os.path.dirname(os.path.abspath(__file__)), "..", "translator"))
from ksiverif.runner import Config, Engine  # noqa: E402
from ksiverif import sig as S  # noqa: E402
from ksiverif.gen import hx  # noqa: E402
import tables  # noqa: E402

SIX = ["internal", "calendar", "key", "pubfile", "userpub", "general"]


def line(s, pol, doc, level, up, label):
    return "w %s %s %s %d %d %s" % (pol, hx(s.enc()), "-" if doc is None else hx(doc), level, up, label)


def gen(rng, tier):
    big = tier == "thorough"
    for i in range(14 if not big else 250):
        with_rfc = rng.random() < 0.25
        anchor = "pub" if rng.random() < 0.6 else rng.choice(["auth", None])
        base = S.build(rng, with_cal=True, anchor=anchor, with_rfc=with_rfc, first_lc=rng.choice([None, 0, 1, 3, 7, 40]),
                       doc_algo=rng.choice([1, 1, 4, 5]))
        doc = base.rfc.input_hash if base.rfc else base.chains[0].input_hash
        lc = 0 if base.rfc else (base.chains[0].links[0].lc or 0)
        ups = [0, 1] if anchor == "pub" else [0]
        for pol in SIX:
            for up in ups:
                okl = "ok-expected" if (pol == "internal" or (up == 1 and pol in ("userpub", "general"))) else "consistent"
                yield line(base, pol, doc, 0, up, okl)
                yield line(base, pol, None, 0, up, okl)
                if lc > 0:
                    yield line(base, pol, doc, rng.randrange(1, lc + 1), up, okl)
                    yield line(base, pol, doc, lc, up, okl)
                # another digest: every position class — first digest octet, last digest octet, a random bit
                for pos, bit in ((1, rng.randrange(8)), (len(doc) - 1, rng.randrange(8)), (len(doc) - 1, 0), (rng.randrange(1, len(doc)), rng.randrange(8))):
                    d = bytearray(doc); d[pos] ^= 1 << bit
                    yield line(base, pol, bytes(d), 0, up, "GEN-01")
                if rng.random() < 0.5:
                    yield line(base, pol, bytes([doc[0]]) + rng.randbytes(len(doc) - 1), rng.choice([0, lc]), up, "GEN-01")
                # another algorithm: unrelated digest, and the same digest octets under another algorithm id where lengths allow
                for other in [a for a in (0, 1, 4, 5) if a != doc[0]]:
                    dg = rng.randbytes(S.DLEN[other])
                    if S.DLEN[other] <= len(doc) - 1 and rng.random() < 0.5:
                        dg = doc[1:1 + S.DLEN[other]]
                    yield line(base, pol, bytes([other]) + dg, 0, up, "GEN-04")
                # another algorithm with a digest of the same length: the same octets under the other id, and unrelated ones
                for other in {1: [8, 0x0b], 0: [2], 4: [9], 5: [10]}.get(doc[0], []):
                    yield line(base, pol, bytes([other]) + doc[1:], 0, up, "GEN-04")
                    if rng.random() < 0.5:
                        yield line(base, pol, bytes([other]) + rng.randbytes(len(doc) - 1), 0, up, "GEN-04")
                if base.rfc:
                    yield line(base, pol, base.chains[0].input_hash, 0, up, "GEN-01" if base.chains[0].input_hash[0] == doc[0] else "GEN-04")
                # levels
                for lv in sorted(set([lc + 1, 255, 256, 257, 1 << 8, 1 << 16, 1 << 32, (1 << 32) + lc, (1 << 32) + 1, 1 << 63, (1 << 64) - 1])):
                    if lv <= lc:
                        continue
                    lab = "GEN-03" if lv <= 255 else "level-invalid"
                    yield line(base, pol, doc, lv, up, lab)
                    if rng.random() < 0.3:
                        yield line(base, pol, None, lv, up, lab)
        # wrong document and wrong level together: the document rules come first
        d = bytearray(doc); d[-1] ^= 0x80
        yield line(base, rng.choice(SIX), bytes(d), lc + 1, ups[-1], "GEN-01")


def trivial(cls):
    return cls.endswith(":P")


CONFIG = Config()
CONFIG.pid = "C02"
CONFIG.props_module = "KsiVerif.Props.C02"
CONFIG.required_theorems = ["six_gated", "no_fallbacks", "ok_only_if_consistent", "ok_only_for_this_document", "ok_only_for_this_level",
                             "same_verdict_as_internal", "wrong_digest_GEN01", "wrong_algorithm_GEN04", "wrong_level_GEN03", "api_ok_only_if",
                             "api_ok_only_for_this_document"]
CONFIG.translators = [tables.gen_templates, tables.gen_hashalgs, tables.gen_policies]
CONFIG.engines = [Engine("c02", ["exec_c01.c"], "drv_c01", gen, trivial=trivial)]
CONFIG.rule = ("op lines from one PRNG (VERIF_SEED). hashlib-built signatures (document algorithm SHA-256/384/512, with and without RFC3161 record, "
               "anchored by publication record / authentication record / nothing, first-link level correction in {absent, 0, 1, 3, 7, 40}) x the six "
               "verifying policies x {no user publication, the signature's own publication as user publication (the offline way to an OK beyond the "
               "internal rules)} x document hash {right, absent, first / last digest octet changed, one random bit changed, random digest, each other "
               "algorithm with unrelated digest or the same digest octets, the chain input of a legacy signature} x level {0, 1..lc, lc+1, 255, 256, 257, "
               "2^16, 2^32, 2^32+1, 2^32+lc, 2^63, 2^64-1}; observed: KSI_SignatureVerifier_verify (status, result, code), KSI_Signature_verifyWithPolicy, "
               "KSI_verifyDataHash. Oracle per label: wrong document => FAIL GEN-01 / GEN-04 and never OK at any of the three entry points; level => "
               "FAIL GEN-03, above 255 refused (status 5 / INVALID_FORMAT); right document => OK where an OK is reachable offline. Model comparison: exact "
               "whenever the internal rules do not pass (then every policy's verdict is the internal one, theorem same_verdict_as_internal).")
CONFIG.trusted_base = [
    "Lean 4.33.0 kernel; axioms propext, Classical.choice, Quot.sound only",
    "everything C01 trusts (Verify model, generated rule trees and names, parser model)",
    "the rules outside the internal set (extender, publications file, PKI, user publication) are an arbitrary oracle in every theorem — nothing is "
    "assumed about them; in the running check they are the real ones, exercised offline (user-publication path reaches OK, the others end in NA / error)",
    "translator/tables.py gen_policies (walks the six rule trees in the built library), harness/exec_c01.c, lean/Drv/C01.lean, lib/ksiverif/sig.py"]
CONFIG.assumptions = [
    "KSI_Signature_verifyDocument = hashing the document with the signature's algorithm + KSI_verifyDataHash path (signature_helper.c:151); the hashing "
    "step is the data hasher checked under C06/C17, not re-run here",
    "no predefined policy has a fallback policy (theorem no_fallbacks, from the generated tables); user-built policies with fallbacks are outside C02"]
CONFIG.design_ref = "DESIGN.md section 4 and 8, C02"
CONFIG.technique = ("Lean 4 proofs over the generated rule trees (each of the six policies is gated by the internal rules; OK only if consistent, for "
                    "every behaviour of the non-internal rules; non-OK verdict = internal verdict with GEN-01/03/04) + differential check on six policies "
                    "and three entry points + label oracle")
CONFIG.level_text = ("Kernel-checked for every hash function, signature, context and every possible behaviour of the rules outside the internal set: under "
                     "each of the six verifying predefined policies OK implies the supplied document hash equals the signature's input hash (algorithm and "
                     "digest) and the level is 0 or <= 255 and <= the first link's level correction with no RFC3161 record; otherwise the verdict is the "
                     "internal one — FAIL GEN-01 / GEN-04 / GEN-03, error status for levels above 255; KSI_Signature_verifyWithPolicy returns OK only then.")
CONFIG.level_note = ("Trusted: Lean kernel + standard axioms; Verify model and its differential tie (~5*10^3 verifications quick over six policies and three "
                     "entry points); rule trees regenerated from the built library each run.")
