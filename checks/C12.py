"""C12 (partial) — every parser of untrusted bytes is memory-safe, total and leak-free."""
import os
import sys

sys.path.insert(0, os.path.join(os.path.dirname(os.path.abspath(__file__)), "..", "lib"))
sys.path.insert(0, os.path.join(os.path.dirname(os.path.abspath(__file__)), "..", "translator"))
from ksiverif.runner import Config, Engine  # noqa: E402
from ksiverif import core, sig as S, pdu, pki, pubfile as PF  # noqa: E402
from ksiverif.gen import tlv, be, hx  # noqa: E402
import tables  # noqa: E402


def mutate(rng, b):
    """structure-aware damage: bit flips, length-field edits, truncation, extension, splices, repeated elements"""
    b = bytearray(b)
    for _ in range(rng.choice([1, 1, 1, 2, 3, 6])):
        if not b:
            b = bytearray(rng.randbytes(rng.randrange(1, 8))); continue
        r = rng.random()
        i = rng.randrange(len(b))
        if r < 0.30:
            b[i] ^= 1 << rng.randrange(8)
        elif r < 0.45:
            b[i] = rng.choice([0, 1, 2, 0x7f, 0x80, 0xff, 0xfe, len(b) & 0xff])
        elif r < 0.60:
            del b[i:i + rng.choice([1, 1, 2, 4, 33, len(b) // 2 + 1])]
        elif r < 0.72:
            b[i:i] = rng.randbytes(rng.choice([1, 2, 4, 34]))
        elif r < 0.82:
            j = rng.randrange(len(b)); k = rng.randrange(1, 40)
            b[i:i] = b[j:j + k]
        elif r < 0.90:
            del b[i:]
        else:
            b += rng.randbytes(rng.choice([1, 3, 40])) if rng.random() < 0.5 else b[:rng.randrange(1, 60)]
    return bytes(b)


def seeds(rng):
    out = {"sig": [], "apdu": [], "epdu": [], "pubf": [], "tlv": []}
    res = os.path.join(core.REPO, "test", "resource", "tlv")
    if os.path.isdir(res):
        for f in sorted(os.listdir(res)):
            p = os.path.join(res, f)
            if not os.path.isfile(p) or os.path.getsize(p) > 70000:
                continue
            raw = open(p, "rb").read()
            if not raw:
                continue
            if f.endswith(".ksig") or f.endswith(".gtts"):
                out["sig"].append(raw)
            elif "publ" in f and raw[:8] == b"KSIPUBLF":
                out["pubf"].append(raw)
            elif raw[0] in (0x82, 0x83) and len(raw) > 4:
                root = ((raw[0] & 0x1f) << 8) | raw[1]
                if root in (0x200, 0x220, 0x221):
                    out["apdu"].append(raw)
                elif root in (0x300, 0x320, 0x321):
                    out["epdu"].append(raw)
                else:
                    out["tlv"].append(raw)
            else:
                out["tlv"].append(raw)
    for _ in range(6):
        s = S.build(rng, with_rfc=rng.random() < 0.3)
        out["sig"].append(s.enc())
        ver = rng.choice([1, 2])
        body = tlv(0x01, be(1)) + tlv(0x04, b"") + s.body()
        out["apdu"].append(pdu.pdu_v2(0x221, tlv(0x02, body), 1, b"anon") if ver == 2 else pdu.pdu_v1(0x200, tlv(0x202, body), 1, b"anon"))
        if s.cal:
            out["epdu"].append(pdu.ext_reply(ver, 1, 0, s.cal))
    ee = pki.ee_certs()
    pk = pki.sign(b"x")
    out["pubf"].append(PF.build([(b"\x01\x02", ee[0])], [(1400000000 + k, S.H(1, b"%d" % k)) for k in range(4)], lambda b: pk))
    return out


def pubstring(t, imprint, good_crc=True):
    """a publication string built from scratch: base32(time ‖ imprint ‖ crc32), grouped by 6"""
    import base64, zlib
    data = t.to_bytes(8, "big") + imprint
    crc = zlib.crc32(data) & 0xffffffff
    if not good_crc:
        crc ^= 1
    b = base64.b32encode(data + crc.to_bytes(4, "big")).decode().rstrip("=")
    return "-".join(b[i:i + 6] for i in range(0, len(b), 6))


def targeted(rng):
    """inputs aimed at the bounds the parsers check: legacy-id lengths, imprint algorithm / length combinations behind a
    correct CRC, fast-reader buffers one or two octets short, user info without a colon"""
    # legacy identifiers with every length octet around the bound, in a signature whose identity is then extracted
    for n in (0, 1, 24, 25, 26, 27, 28, 29, 100, 255):
        for pad in (0, 1):
            s = S.build(rng, nchains=1, with_cal=False, anchor="none")
            name = b"a" * min(n, 26)
            data = (bytes([3, 0, n]) + name + bytes(29))[:29 - pad * 0] if not pad else (bytes([3, 0, n]) + name + b"\x01" * 29)[:29]
            s.chains[0].links[0] = S.Link(True, None, "l", data)
            s.chains[0].index[-1] = s.chains[0].shape()
            s.relink()
            yield "sig %s %d" % (hx(s.enc()), rng.randrange(0, 6))
    # publication strings whose CRC is right but whose imprint is not one: unknown algorithm, digest too short / long
    for alg, dl in ((1, 32), (1, 31), (1, 33), (1, 0), (0, 20), (3, 32), (6, 32), (0x7e, 32), (0xff, 32), (4, 48), (4, 32), (5, 64), (5, 63), (2, 20), (11, 32)):
        for ok in (True, False):
            yield "pubs %s %d" % (hx(pubstring(1400000000, bytes([alg]) + rng.randbytes(dl), ok).encode()), rng.randrange(0, 6))
    yield "pubs %s 0" % hx(pubstring(1400000000, b"").encode())
    # the file variant of the fast reader: buffers from far too small to exactly right
    for body in (tlv(0x01, rng.randbytes(5)), tlv(0x123, rng.randbytes(9)), tlv(0x01, rng.randbytes(300)), tlv(0x1fff, b""), tlv(0x02, rng.randbytes(255)),
                 tlv(0x02, rng.randbytes(256)), tlv(0x03, rng.randbytes(4), force16=True)):
        for bs in sorted(set([0, 1, 2, 3, 4, 5, len(body) - 3, len(body) - 2, len(body) - 1, len(body), len(body) + 1, len(body) + 100])):
            if bs >= 0:
                yield "ffile %s %d" % (hx(body), bs)
                yield "ffile %s %d" % (hx(body[:max(len(body) - 2, 0)]), bs)
    # publication strings without separators, of every length: the decoder's buffer is sized from the text length
    good = "AAAAAACVZ2AQAANGVKSV7GJL36LN65AVJYZR6XRZSLHIMRH36GU7WRYNRY7CX2XECYWFQXRB"
    for k in list(range(0, 20)) + [len(good) - 9, len(good) - 8, len(good) - 7, len(good) - 2, len(good) - 1, len(good)]:
        yield "pubs %s 0" % (hx(good[:k].encode()) if k else "-")
        yield "pubs %s 0" % (hx(("A" * k).encode()) if k else "-")
        yield "pubs %s 0" % (hx(("7" * k).encode()) if k else "-")
    # elements in non-minimal encoding (16-bit header on a short element) at the top and nested: serialized into an exact-size buffer
    for body in (b"", b"\xaa\xbb", rng.randbytes(30), rng.randbytes(254)):
        for tag in (0x01, 0x1f, 0x10):
            leaf = tlv(tag, body, force16=True)
            yield "el %s" % hx(leaf)
            yield "el %s" % hx(tlv(0x05, leaf + tlv(0x02, b"\x01")))
            yield "el %s" % hx(tlv(0x105, tlv(0x05, leaf), force16=True))
            yield "tlv %s 0" % hx(leaf)
    # calendar chains in which a left link (not the first link) carries an imprint of an algorithm the table knows but the build
    # cannot compute (SHA3, SM3): the hasher cannot be re-opened in the middle of the chain
    for alg, dl in ((7, 28), (8, 32), (9, 48), (0x0a, 64), (0x0b, 32), (2, 20), (6, 32)):
        for _ in range(2):
            s = S.build(rng, with_cal=True, anchor=rng.choice(["pub", "auth", None]))
            lefts = [i for i, (d, _) in enumerate(s.cal.links) if d and i > 0]
            if not lefts:
                continue
            k = rng.choice(lefts)
            s.cal.links[k] = (True, bytes([alg]) + rng.randbytes(dl))
            yield "sig %s %d" % (hx(s.enc()), rng.randrange(0, 6))
            yield "tlv %s 0" % hx(s.cal.enc())
    # a composite element whose payload ends in the beginning of a header: 1 octet of a short header, 1..3 octets of a long one
    for outer in (0x800, 0x801, 0x221, 0x0100, 0x1f):
        for first in (b"", tlv(0x01, b"\x05"), tlv(0x02, rng.randbytes(40))):
            for stub in (b"\x01", b"\x81", b"\x81\x00", b"\x81\x00\x00", b"\xff\xff\xff", b"\x1f"):
                e = tlv(outer, first + stub)
                yield "tlv %s 0" % hx(e)
                yield "el %s" % hx(e)
                if outer == 0x800: yield "sig %s 0" % hx(e)
                if outer == 0x221: yield "apdu 2 %s 0" % hx(e)
                yield "tlv %s 0" % hx(tlv(0x0101, tlv(outer, first + stub)))
    # renderers: values longer than the caller's buffer can hold (each octet takes two or three characters)
    for n in (0, 1, 2, 5, 33, 100, 341, 342, 400, 1000):
        for bl in (0, 1, 2, 3, 10, 64, 1024):
            yield "str %s %d" % (hx(rng.randbytes(n)) if n else "-", bl)
    yield "str %s 40" % hx(bytes([1]) + rng.randbytes(32))
    yield "str %s 4" % hx(tlv(0x0101, tlv(0x01, b"abc") * 20))
    # metadata sequence numbers around the pool of shared small integers, in a signature whose identity is then extracted
    for seq in (0, 1, 255, 256, 257, 70000, 1 << 40):
        s = S.build(rng, nchains=rng.choice([1, 2]), with_cal=False, anchor="none")
        md = tlv(0x01, b"client\x00") + tlv(0x02, b"machine\x00") + tlv(0x03, be(seq)) + tlv(0x04, be(1500000000000000))
        if len(md) % 2 == 0: md = tlv(0x1e, b"\x01\x01", nc=1, fwd=1) + md
        else: md = tlv(0x1e, b"\x01", nc=1, fwd=1) + md
        s.chains[0].links[0] = S.Link(True, None, "m", md)
        s.chains[0].index[-1] = s.chains[0].shape()
        s.relink()
        yield "sig %s %d" % (hx(s.enc()), rng.randrange(0, 6))
        yield "sig %s %d" % (hx(s.enc()), rng.randrange(0, 6))
    # service URIs through the full splitter: user info with and without a key, empty parts
    for u in ("ksi+http://user@host.example/p", "ksi+tcp://user@host.example:1", "ksi+http://user:@h/", "ksi+http://:key@h/", "ksi+http://@h/", "ksi://u:k@h:1/p?q#f",
              "http://user@h", "ksi+tcp://u@h", "ksi+tcp://u:k@h", "file:///tmp/x", "ksi+http://u:k:extra@h/", "ksi+http://" + "u" * 300 + "@h/", "ksi+http://u%40x@h/"):
        yield "svc %s" % hx(u.encode())
        for _ in range(3):
            yield "svc %s" % hx(mutate(rng, u.encode()).replace(b"\x00", b"0") or b"x")


def gen(rng, tier):
    big = tier == "thorough"
    for l in targeted(rng):
        yield l
    sd = seeds(rng)
    n = 60 if not big else 500
    for kind in ("sig", "apdu", "epdu", "pubf", "tlv"):
        pool = sd[kind]
        if not pool:
            continue
        for raw in pool[: (12 if not big else len(pool))]:
            lv = rng.randrange(0, 6)
            if kind in ("apdu", "epdu"):
                yield "%s %d %s %d" % (kind, rng.choice([1, 2]), hx(raw), lv)
            else:
                yield "%s %s %d" % (kind, hx(raw), lv)
        for _ in range(n):
            raw = mutate(rng, rng.choice(pool))
            if len(raw) > 70000:
                raw = raw[:70000]
            lv = rng.randrange(0, 6)
            if kind in ("apdu", "epdu"):
                yield "%s %d %s %d" % (kind, rng.choice([1, 2]), hx(raw), lv)
            else:
                yield "%s %s %d" % (kind, hx(raw), lv)
            if kind != "tlv" and rng.random() < 0.3:
                yield "tlv %s %d" % (hx(raw), lv)
                yield "ftlv %s" % hx(raw)
                yield "el %s" % hx(raw)
    # raw readers on short and boundary inputs
    for ln in list(range(0, 9)) + [255, 256, 257, 258, 259, 260, 65535 + 4, 65536 + 4, 70000]:
        for hdr in (b"\x01", b"\x81\x00", b"\x9f\xff", b"\x61", b"\xe1\x01"):
            body = hdr + (bytes([ln & 0xff]) if hdr[0] < 0x80 else bytes([(ln >> 8) & 0xff, ln & 0xff]))
            for have in (0, 1, max(ln - 1, 0), ln, ln + 1):
                raw = (body + rng.randbytes(min(have, 70000)))[:70000]
                yield "ftlv %s" % hx(raw)
                yield "tlv %s 0" % hx(raw)
                yield "el %s" % hx(raw)
    # text entry points
    good = "AAAAAA-CVZ2AQ-AANGVK-SV7GJL-36LN65-AVJYZR-6XRZSL-HIMRH3-6GU7WR-YNRY7C-X2XECY-WFQXRB"
    alphabet = "ABCDEFGHIJKLMNOPQRSTUVWXYZ234567-=01899abc \x00\xff"
    for _ in range(40 if not big else 600):
        s = list(good)
        for _ in range(rng.choice([0, 1, 1, 2, 5])):
            i = rng.randrange(len(s) + 1)
            r = rng.random()
            if r < 0.5 and i < len(s):
                s[i] = rng.choice(alphabet)
            elif r < 0.8:
                s[i:i] = rng.choice(alphabet)
            elif i < len(s):
                del s[i:i + rng.choice([1, 6, 30])]
        t = "".join(s).encode("latin1")
        if rng.random() < 0.1:
            t = t * rng.choice([2, 50, 600])
        yield "pubs %s %d" % (hx(t[:70000]) if t else "-", rng.randrange(0, 6))
    uris = ["ksi+http://u:k@host.example:8080/path?x=1#f", "ksi+tcp://[::1]:99", "file:///tmp/x", "http://", "://", "ksi://a@", "a:b:c:d", "ksi+tcp://h:99999999999",
            "ksi://" + "h" * 300, "ksi://h/" + "p" * 70000, "%%%", "", "ksi://[::1", "ksi://h:0x10/"]
    for u in uris:
        yield "uri %s" % (hx(u.encode()) if u else "-")
    for _ in range(40 if not big else 600):
        u = bytearray(rng.choice(uris[:8]).encode())
        yield "uri %s" % hx(mutate(rng, bytes(u)).replace(b"\x00", b"0") or b"x")
    names = ["SHA-256", "sha2-256", "SHA2_256", "sha-1", "SHA3-512", "ripemd160", "RIPEMD-160", "default", "SM3", "", "sha", "SHA-256 ", "SHA--256", "s" * 300, "sha2-256\xff"]
    for nm in names:
        yield "alg %s" % (hx(nm.encode("latin1")) if nm else "-")
    for _ in range(30 if not big else 300):
        yield "alg %s" % hx(mutate(rng, rng.choice(names[:9]).encode()).replace(b"\x00", b"_") or b"x")


def trivial(cls):
    return False


CONFIG = Config()
CONFIG.pid = "C12"
CONFIG.props_module = "KsiVerif.Props.C12"
CONFIG.required_theorems = ["fast_reader_in_bounds", "blob_reader_exact", "children_tile", "records_tile", "serializer_refuses_oversize"]
CONFIG.translators = [tables.gen_templates, tables.gen_hashalgs, tables.gen_policies]
CONFIG.engines = [Engine("c12", ["exec_c12.c"], "drv_c12", gen, trivial=trivial,
                         env={"LSAN_OPTIONS": "suppressions=%s:print_suppressions=0" % os.path.join(core.VERIF, "harness", "lsan.supp"),
                              "ASAN_OPTIONS": "detect_leaks=1:abort_on_error=0:exitcode=99:allocator_may_return_null=1:fast_unwind_on_malloc=0"})]
CONFIG.rule = ("op lines from one PRNG (VERIF_SEED). Targeted inputs first: legacy identifiers with length octets {0, 1, 24..29, 100, 255} in a signature "
               "whose identity is then extracted; publication strings built from scratch with a correct or wrong CRC around imprints of unknown "
               "algorithm or wrong digest length; KSI_FTLV_fileRead into heap buffers from 0 octets to exactly right (and with the file two octets "
               "short); service URIs with user info with / without a key through KSI_CTX_setAggregator / setExtender / setPublicationUrl. Seeds: every .ksig / .gtts / PDU / publications file / other TLV file under test/resource/tlv (up to "
               "70000 octets) plus reference-built signatures, aggregation and extension PDUs (v1, v2) and a publications file; each seed as is and "
               "60 (quick) / 500 (thorough) structure-aware mutations per kind (bit flips, boundary octets, deletions, insertions, self-splices, "
               "truncation, extension). Entry points: KSI_Signature_parseWithPolicy (then serialize, clone, verification under all seven policies, "
               "identity extraction, getters, string rendering), KSI_AggregationPdu_parse / KSI_ExtendPdu_parse under both configured versions (then "
               "serialize, getters, MAC check), KSI_PublicationsFile_parse (then lookups, serialize, verify), KSI_TLV_parseBlob (then recursive nested "
               "lists, serialize, toString, clone, logTlv), KSI_FTLV_memRead / memReadN, KSI_TlvElement_parse (+ serialize), lengths 0..8 and around 255 "
               "/ 65535 / 70000 with 0, 1, n-1, n, n+1 octets present; KSI_PublicationData_fromBase32, KSI_UriSplitBasic, KSI_getHashAlgorithmByName "
               "on edited texts; every call at a random log level 0..5 with a logger installed; inputs in heap buffers of exactly their size. A sanitizer "
               "report is a violation with the op line as replay; statuses of the modelled parsers are compared with the model.")
CONFIG.trusted_base = [
    "Lean 4.33.0 kernel; axioms propext, Classical.choice, Quot.sound only",
    "PARTIAL: the theorems are about the readers' logic (bounds checked before use, exact consumption, totality of the model's functions); absence of "
    "out-of-bounds access, use after free, double free and leaks in the C code is observed under ASan / UBSan / LeakSanitizer on the generated inputs, "
    "not proved — a model of immutable values cannot exhibit these",
    "harness/exec_c12.c, lean/Drv/C12.lean, harness/lsan.supp (OpenSSL-internal leak in PKCS7_verify on damaged blobs)"]
CONFIG.assumptions = [
    "coverage-guided generation is replaced by seeds + structure-aware mutation from one PRNG (reproducible by VERIF_SEED)",
    "findings of this kind made by other checks' executors (all run under the same sanitizers): F5, F7, F15, F18 (known_findings.json)"]
CONFIG.design_ref = "DESIGN.md section 4 and 8, C12"
CONFIG.technique = ("Lean 4 proofs of the readers' bounds logic (partial) + sanitizer-instrumented execution of every parsing entry point and follow-up "
                    "operation on seeds and structure-aware mutations, with model comparison of the modelled parsers' statuses")
CONFIG.level_text = ("PARTIAL. Kernel-checked: the fast reader accepts a header only with header and payload inside the input; a blob is accepted only "
                     "when its declared length is exactly the input; children tile a payload exactly; publications-file records tile the file; an "
                     "oversize element is refused, never written truncated; all model parsers are total. Not provable in this technique: the C code's "
                     "memory safety and leak freedom — observed under sanitizers on ~1500 (quick) / ~8000 (thorough) generated inputs across all entry points.")
CONFIG.level_note = ("Partial by nature: a functional model has no memory to corrupt. Trusted: Lean kernel + standard axioms; sanitizers for the runtime half.")
