"""C04 — trust-anchor policies say OK only if the calendar root is bound to the anchor."""
import os
import sys

sys.path.insert(0, os.path.join(os.path.dirname(os.path.abspath(__file__)), "..", "lib"))
sys.path.insert(0, os.path.join(os.path.dirname(os.path.abspath(__file__)), "..", "translator"))
from ksiverif.runner import Config, Engine  # noqa: E402
from ksiverif import core, sig as S, pdu, pki, pubfile as PF  # noqa: E402
from ksiverif.gen import hx  # noqa: E402
import tables  # noqa: E402

KEY = b"anon"
SIGTYPE = b"1.2.840.113549.1.1.11"


def up(t, im):
    return "%d:%s" % (t, hx(im))


class World:
    def __init__(self):
        self.pk = pki.sign(b"x")                  # any PKCS#7 blob that parses: a file handed over by the caller is not PKI-checked
        self.keys = {
            "wide": pki.key_cert("k_wide", "20100101000000Z", "21000101000000Z"),
            # validity edges with no zero and no repeated digit pair: every field of the ASN.1 time counts
            "late": pki.key_cert("k_late2", "20200317134756Z", "21000101000000Z"),
            "early": pki.key_cert("k_early2", "20100101000000Z", "20121128192738Z"),
        }
        self.ec = pki.ec_cert()

    def pubfile(self, certs, pubs):
        return PF.build(certs, pubs, lambda body: self.pk)


def line(pol, s, userpub, ext, ver, rep, pf, good, win, sigok, label):
    return "a %s %s %s %d %d %s %s %s | %s win=%d:%d sig=%d %s" % (
        pol, hx(s.enc()), userpub or "-", ext, ver, hx(KEY), "none" if rep is None else hx(rep), "-" if pf is None else (pf if isinstance(pf, str) else hx(pf)),
        ",".join(hx(g) for g in good) or "-", win[0], win[1], sigok, label)


def at_times(rng, t, p):
    """a consistent signature with an authentication record, aggregation time t, publication time p"""
    s = S.build(rng, with_cal=True, anchor="auth", time=t)
    s.cal = S.Cal(p, t, b"", [(d, bytes([1]) + rng.randbytes(32)) for d in S.cal_dirs(t, p)])
    s.auth = (p, b"")
    s.relink()
    return s


def key_cases(rng, W, ver):
    """certificate validity is judged at the aggregation time, not at the publication time; signature values that are not
    even well-formed for the certificate's algorithm"""
    others = [(1300000000, S.H(1, b"p"))]
    cid = b"\x11\x22\x33\x44"
    for kn, edge in (("late", W.keys["late"][2]), ("early", W.keys["early"][3])):
        der, keyfile, nb, na = W.keys[kn]
        for t, p in ((edge - 10, edge + 1000), (edge, edge + 1000), (edge + 1, edge + 1000), (edge - 1000, edge - 1), (edge - 1000, edge),
                     (edge - 45, edge + 1000), (edge + 7, edge + 1000), (edge - 3000, edge + 5), (edge + 3000, edge + 9000), (edge - 80000, edge), (edge + 80000, edge + 90000)):
            s = at_times(rng, t, p)
            s.auth_sd = (SIGTYPE, pki.rsa_sign(keyfile, S.published_data(*s.auth)), cid)
            label = "ok" if nb <= t <= na else "fail:1027"
            yield line("key", s, None, 0, ver, None, W.pubfile([(cid, der)], others), [der, W.pk], (nb, na), 1, label)
    # the publications file the *context* fetches and PKI-verifies: a trusted one serves the key-based policy like a user-supplied
    # one; an untrusted one (signed under another root, or under a constraint that does not match) must not be used at all
    der, keyfile, nb, na = W.keys["wide"]
    s = at_times(rng, 1450000000, 1450001000)
    s.auth_sd = (SIGTYPE, pki.rsa_sign(keyfile, S.published_data(*s.auth)), cid)
    blobs = []
    signed = PF.build([(cid, der)], others, lambda body: (blobs.append(pki.sign(body)), blobs[-1])[1])
    EMAIL = pki.OIDS["emailAddress"]
    for anchors, val, t in (("ca", pki.SUBJECT["emailAddress"], 1), ("other", pki.SUBJECT["emailAddress"], 0), ("ca", "someone@else.example", 0)):
        ctxpf = "ctx:%s:%s:%s:t%d:%s" % (anchors, EMAIL, hx(val.encode()), t, hx(signed))
        for pol in ("key", "general"):
            yield line(pol, s, None, 0, ver, None, ctxpf, [der, blobs[0]], (nb, na), 1, "ok" if t else "na:publications-file-not-trusted")
    der, keyfile, nb, na = W.ec
    ECTYPE = SIGTYPE       # the digest is found through the OID; OpenSSL 3 does not map ecdsa-with-SHA256 to one, the RSA name works for any key
    s = at_times(rng, 1450000000, 1450001000)
    data = S.published_data(*s.auth)
    good = pki.ec_sign(keyfile, data)
    for name, sv, ok in (("good", good, 1), ("truncated", good[:-3], 0), ("wrong-tag", b"\x31" + good[1:], 0), ("one-octet", b"\x00", 0),
                         ("random", rng.randbytes(70), 0), ("bit", good[:-1] + bytes([good[-1] ^ 1]), 0), ("rsa-length-zeros", bytes(256), 0)):
        k = s.clone(); k.auth_sd = (ECTYPE, sv, cid)
        yield line("key", k, None, 0, ver, None, W.pubfile([(cid, der)], others), [der, W.pk], (nb, na), ok, "ok" if ok else "fail:1026")
        yield line("general", k, None, 0, ver, None, W.pubfile([(cid, der)], others), [der, W.pk], (nb, na), ok, "ok" if ok else "fail:1026")


def gen(rng, tier):
    big = tier == "thorough"
    W = World()
    NOW = (0, 0)
    for _ in range(1 if not big else 6):
        for l in key_cases(rng, W, rng.choice([1, 2])):
            yield l
    for i in range(8 if not big else 120):
        ver = rng.choice([1, 2])
        for anchor in ("pub", "auth", "none", "nocal"):
            s = S.build(rng, with_cal=anchor != "nocal", anchor=anchor if anchor in ("pub", "auth") else "none")
            t = s.chains[0].time
            root = S.aggregation_root(s)
            pa = s.cal.pub_time if s.cal else None
            R = lambda cal, **kw: pdu.ext_reply(ver, kw.pop("rid", 1), kw.pop("status", 0), cal, **kw)   # noqa: E731
            L = lambda pol, label, userpub=None, ext=0, rep=None, pf=None, good=(), win=NOW, sigok=0, sig=None: line(   # noqa: E731
                pol, sig or s, userpub, ext, ver, rep, pf, list(good) + [W.pk], win, sigok, label)
            bad_s = s.clone(); bad_s.chains[0].index[-1] ^= 1                       # fails internal verification (INT-10) whatever else it carries

            # ---------------- calendar-based ----------------
            if s.cal:
                same = S.Cal(s.cal.pub_time, s.cal.aggr_time if s.cal.aggr_time is not None else None, s.cal.input_hash, list(s.cal.links))
                same_t = S.Cal(s.cal.pub_time, t, s.cal.input_hash, list(s.cal.links))
                yield L("calendar", "ok", rep=R(same_t))
                yield L("calendar", "na:mac", rep=pdu.drop_mac(R(same_t)))             # the honest reply without its MAC element
                rights = [k for k, (d, _) in enumerate(same_t.links) if not d]
                lefts = [k for k, (d, _) in enumerate(same_t.links) if d]
                if s.pub:
                    if lefts:
                        ls = list(same_t.links); k = rng.choice(lefts); sib = bytearray(ls[k][1]); sib[-1] ^= 1; ls[k] = (True, bytes(sib))
                        yield L("calendar", "fail:1281", rep=R(S.Cal(same_t.pub_time, t, same_t.input_hash, ls)))       # CAL-01 other root
                else:
                    if rights:
                        ls = list(same_t.links); k = rng.choice(rights); sib = bytearray(ls[k][1]); sib[-1] ^= 1; ls[k] = (False, bytes(sib))
                        yield L("calendar", "fail:1284", rep=R(S.Cal(same_t.pub_time, t, same_t.input_hash, ls)))       # CAL-04 altered
                        ls = [l for j, l in enumerate(same_t.links) if j != rights[-1]]
                        yield L("calendar", "fail:1284", rep=R(S.Cal(same_t.pub_time, t, same_t.input_hash, ls)))       # CAL-04 missing
                    ls = list(same_t.links) + [(False, bytes([1]) + rng.randbytes(32))]
                    yield L("calendar", "fail:1284", rep=R(S.Cal(same_t.pub_time, t, same_t.input_hash, ls)))           # CAL-04 extra
                    ls = [(False, bytes([1]) + rng.randbytes(32))] + list(same_t.links)
                    yield L("calendar", "fail:1284", rep=R(S.Cal(same_t.pub_time, t, same_t.input_hash, ls)))
                h = bytearray(root); h[-1] ^= 1
                # another input hash: with a publication record the root is compared first (CAL-01), else CAL-02
                yield L("calendar", "fail:1281" if s.pub else "fail:1282", rep=R(S.Cal(same_t.pub_time, t, bytes(h), list(same_t.links))))
                yield L("calendar", "fail:1283", rep=R(S.Cal(same_t.pub_time, t + 1, same_t.input_hash, list(same_t.links))))   # CAL-03
            else:
                p = t + rng.choice([0, 5, 86400])
                head = S.extender_chain(rng, s, t, p, root)
                yield L("calendar", "ok", rep=R(head))
                yield L("calendar", "na:mac", rep=pdu.drop_mac(R(head)))
                h = bytearray(root); h[1] ^= 1
                yield L("calendar", "fail:1282", rep=R(S.Cal(p, t, bytes(h), list(head.links))))
                yield L("calendar", "fail:1283", rep=R(S.extender_chain(rng, s, t + 1, max(p, t + 1), root)))
            anyc = S.extender_chain(rng, s, t, (pa or t) + 7, root)
            yield L("calendar", "na:extender-status", rep=R(anyc, status=rng.choice([0x101, 0x105, 0x200, 0x300])))
            yield L("calendar", "na:no-extender", rep=None)
            yield L("calendar", "na:mac", rep=R(anyc, key=b"other"))
            yield L("calendar", "na:foreign-id", rep=R(anyc, rid=2))
            yield L("calendar", "na:no-chain", rep=R(None))
            yield L("calendar", "na:malformed", rep=R(anyc)[:-5])
            yield L("calendar", "internal", rep=R(anyc), sig=bad_s)

            # ---------------- user publication ----------------
            if s.pub:
                yield L("userpub", "ok", userpub=up(*s.pub))
                yield L("userpub", "ok", userpub=up(*s.pub), ext=1, rep=None)
                h = bytearray(s.pub[1]); h[rng.randrange(1, len(h))] ^= 1 << rng.randrange(8)
                yield L("userpub", "fail:772", userpub=up(s.pub[0], bytes(h)))                                          # PUB-04
                yield L("userpub", "fail:772", userpub=up(s.pub[0], bytes([4]) + rng.randbytes(48)))
            later = (pa or t) + rng.choice([1, 3600, 86400 * 31])
            ext_chain = S.extender_chain(rng, s, t, later, root)
            good_up = up(later, ext_chain.root())
            yield L("userpub", "na:extending-not-allowed", userpub=good_up, ext=0, rep=R(ext_chain))
            yield L("userpub", "ok", userpub=good_up, ext=1, rep=R(ext_chain))
            yield L("userpub", "fail:769", userpub=up(later, S.H(1, b"not the root")), ext=1, rep=R(ext_chain))         # PUB-01
            yield L("userpub", "fail:770", userpub=good_up, ext=1, rep=R(S.Cal(later + 1, t, root, list(ext_chain.links))))   # PUB-02 pub time
            other_t = S.extender_chain(rng, s, t + 1, max(later, t + 1), root)
            yield L("userpub", "fail:770", userpub=up(other_t.pub_time, other_t.root()), ext=1, rep=R(other_t))          # PUB-02 aggregation time
            no_at = S.Cal(later, None, root, list(ext_chain.links))                                                      # the reply's chain does not state its aggregation time
            yield L("userpub", "fail:770", userpub=good_up, ext=1, rep=R(no_at))
            h = bytearray(root); h[-1] ^= 2
            wrong_in = S.Cal(later, t, bytes(h), list(ext_chain.links))
            yield L("userpub", "fail:771", userpub=up(later, wrong_in.root()), ext=1, rep=R(wrong_in))                   # PUB-03
            # (a signature published in its own second carries a record for that very time: then the hashes are compared)
            yield L("userpub", "fail:772" if (s.pub and s.pub[0] == t) else "na:publication-not-after-aggregation", userpub=up(t, S.H(1, b"x")), ext=1, rep=R(ext_chain))
            yield L("userpub", "na:publication-not-after-aggregation", userpub=up(t - 5, S.H(1, b"x")), ext=1, rep=R(ext_chain))
            yield L("userpub", "na:no-user-publication", ext=1, rep=R(ext_chain))
            yield L("userpub", "na:extender-status", userpub=good_up, ext=1, rep=R(ext_chain, status=0x104))
            yield L("userpub", "na:no-extender", userpub=good_up, ext=1, rep=None)
            yield L("userpub", "na:mac", userpub=good_up, ext=1, rep=R(ext_chain, key=b"nope"))
            yield L("userpub", "na:mac", userpub=good_up, ext=1, rep=pdu.drop_mac(R(ext_chain)))                           # no MAC element at all
            yield L("userpub", "na:foreign-id", userpub=good_up, ext=1, rep=R(ext_chain, rid=9))
            yield L("userpub", "na:no-chain", userpub=good_up, ext=1, rep=R(None))
            yield L("userpub", "internal", userpub=good_up, ext=1, rep=R(ext_chain), sig=bad_s)

            # ---------------- publications file ----------------
            others = [(1300000000 + 86400 * k, S.H(1, b"p%d" % k)) for k in range(3)]
            if s.pub:
                yield L("pubfile", "ok", pf=W.pubfile([], others + [s.pub]))
                yield L("pubfile", "fail:773", pf=W.pubfile([], others + [(s.pub[0], S.H(1, b"another hash"))]))            # PUB-05
            pf_ext = W.pubfile([], others + [(later, ext_chain.root()), (later + 86400, S.H(1, b"later"))])
            yield L("pubfile", "ok", ext=1, rep=R(ext_chain), pf=pf_ext)
            yield L("pubfile", "na:extending-not-allowed", ext=0, rep=R(ext_chain), pf=pf_ext)
            yield L("pubfile", "na:no-suitable-publication", ext=1, rep=R(ext_chain), pf=W.pubfile([], others))
            yield L("pubfile", "na:no-publications-file", ext=1, rep=R(ext_chain))
            yield L("pubfile", "fail:769", ext=1, rep=R(ext_chain), pf=W.pubfile([], others + [(later, S.H(1, b"other"))]))
            yield L("pubfile", "fail:770", ext=1, rep=R(S.Cal(later + 1, t, root, list(ext_chain.links))), pf=pf_ext)
            yield L("pubfile", "fail:771", ext=1, rep=R(wrong_in), pf=W.pubfile([], others + [(later, wrong_in.root())]))
            yield L("pubfile", "fail:770", ext=1, rep=R(no_at), pf=pf_ext)
            if other_t.pub_time == later:
                yield L("pubfile", "fail:770", ext=1, rep=R(other_t), pf=W.pubfile([], others + [(later, other_t.root())]))   # other aggregation time
            yield L("pubfile", "na:extender-status", ext=1, rep=R(ext_chain, status=0x202), pf=pf_ext)
            yield L("pubfile", "na:no-extender", ext=1, rep=None, pf=pf_ext)
            yield L("pubfile", "na:mac", ext=1, rep=R(ext_chain, key=b"k2"), pf=pf_ext)
            yield L("pubfile", "internal", ext=1, rep=R(ext_chain), pf=pf_ext, sig=bad_s)

            # ---------------- key-based ----------------
            if s.auth:
                der, keyfile, nb, na = W.keys["wide"]
                data = S.published_data(*s.auth)
                cid = b"\xaa\xbb\xcc\xdd"
                ks = s.clone(); ks.auth_sd = (SIGTYPE, pki.rsa_sign(keyfile, data), cid)
                pfk = W.pubfile([(b"\x00\x00\x00\x01", W.keys["late"][0]), (cid, der)], others)
                yield L("key", "ok", pf=pfk, good=[der, W.keys["late"][0]], win=(nb, na), sigok=1, sig=ks)
                sv = bytearray(ks.auth_sd[1]); sv[rng.randrange(len(sv))] ^= 1
                kt = s.clone(); kt.auth_sd = (SIGTYPE, bytes(sv), cid)
                yield L("key", "fail:1026", pf=pfk, good=[der, W.keys["late"][0]], win=(nb, na), sigok=0, sig=kt)              # KEY-02
                kw = s.clone(); kw.auth_sd = (SIGTYPE, pki.rsa_sign(W.keys["late"][1], data), cid)                       # signed with another key
                yield L("key", "fail:1026", pf=pfk, good=[der, W.keys["late"][0]], win=(nb, na), sigok=0, sig=kw)
                for kn in ("late", "early"):
                    d2, kf2, nb2, na2 = W.keys[kn]
                    k2 = s.clone(); k2.auth_sd = (SIGTYPE, pki.rsa_sign(kf2, data), cid)
                    yield L("key", "fail:1027", pf=W.pubfile([(cid, d2)], others), good=[d2], win=(nb2, na2), sigok=1, sig=k2)   # KEY-03
                yield L("key", "na:certificate-not-listed", pf=W.pubfile([(b"\x01\x02\x03\x05", der)], others), good=[der], win=(nb, na), sigok=1, sig=ks)
                yield L("key", "na:no-publications-file", sig=ks, win=(nb, na), sigok=1)
                kb = bad_s.clone(); kb.auth_sd = ks.auth_sd
                yield L("key", "internal", pf=pfk, good=[der, W.keys["late"][0]], win=(nb, na), sigok=1, sig=kb)
                # the general policy reaches the key-based rules last
                yield L("general", "ok", pf=pfk, good=[der, W.keys["late"][0]], win=(nb, na), sigok=1, sig=ks)
            else:
                yield L("key", "na:no-authentication-record" if s.cal else "na:no-calendar-chain", pf=W.pubfile([(b"\x01", W.keys["wide"][0])], others), good=[W.keys["wide"][0]])

            # ---------------- general ----------------
            if s.pub:
                yield L("general", "ok", userpub=up(*s.pub))
                yield L("general", "ok", pf=W.pubfile([], others + [s.pub]))
                # a user publication that does not settle the matter must not be replaced by the publications file
                yield L("general", "na:user-publication-inconclusive", userpub=good_up, ext=0, pf=W.pubfile([], others + [s.pub]))
                yield L("general", "fail:772", userpub=up(s.pub[0], S.H(1, b"zz")), pf=W.pubfile([], others + [s.pub]))
            yield L("general", "ok", userpub=good_up, ext=1, rep=R(ext_chain))
            yield L("general", "ok", ext=1, rep=R(ext_chain), pf=pf_ext)
            yield L("general", "na:nothing-to-anchor-to")
            yield L("general", "internal", userpub=good_up, ext=1, rep=R(ext_chain), sig=bad_s)


def trivial(cls):
    return cls.endswith(":P")


CONFIG = Config()
CONFIG.pid = "C04"
CONFIG.props_module = "KsiVerif.Props.C04"
CONFIG.required_theorems = ["rhoA_internal", "never_ok_unless_consistent", "key_tree", "key_ok_only_if", "userpub_tree", "userpub_ok_only_if",
                             "pubfile_tree", "pubfile_ok_only_if", "calendar_tree", "calendar_ok_only_if", "general_tree", "general_ok_only_if",
                             "userpub_other_hash_PUB04", "userpub_extending_forbidden_NA", "key_certificate_window_KEY03"]
CONFIG.translators = [tables.gen_templates, tables.gen_hashalgs, tables.gen_policies, tables.gen_crc]
CONFIG.engines = [Engine("c04", ["exec_c04.c"], "drv_c04", gen, env={"VERIF_PKI_DIR": os.path.join(core.VERIF, ".build", "pki")}, trivial=trivial)]
CONFIG.rule = ("op lines from one PRNG (VERIF_SEED). hashlib-built signatures without calendar chain / with one and a publication record, an "
               "authentication record, or neither, verified under the calendar-, key-, publications-file-, user-publication-based and general "
               "policies with everything outside the signature supplied: user publication (the signature's own, other hash, other time, not later than "
               "the signature, none), extending allowed or not, the extender's reply through the file transport (the honest chain; other root, other "
               "input hash, other aggregation time, other publication time, altered / missing / extra / prepended right link; non-zero status, wrong "
               "MAC, foreign request id, no chain, truncated, no extender at all), a publications file handed over by the caller (containing the "
               "signature's publication, the same time with another hash, a suitable later publication, none suitable, no file), listed certificates "
               "(RSA valid 2010-2100, valid only from 2020, valid only until 2012, P-256) with authentication records really signed by their keys, with "
               "aggregation / publication times on both sides of each validity edge, tampered or foreign-key signature values, signature values that are "
               "not well-formed for the key's algorithm, a certificate that is not listed; the same signatures made internally inconsistent. Oracle by "
               "label: bound => OK; contradicting anchor => FAIL with CAL-01..04 / PUB-01..05 / KEY-02/03; missing / forbidden / unavailable => never OK, "
               "never FAIL; internally inconsistent => never OK. Model comparison of every verdict (exact, all five policies).")
CONFIG.trusted_base = [
    "Lean 4.33.0 kernel; axioms propext, Classical.choice, Quot.sound only",
    "what lies outside the signature is the structure World (user publication, extending allowed, result of receiveCalendarHashChain per "
    "request, publications file or the status of getting one, certificate validity window, PKI raw-signature verdict): theorems hold for every World; "
    "in the running check the extender's part is computed from the reply octets by C06's model, the rest is the generator's knowledge "
    "(which key signed what, which window a certificate has)",
    "each read rule reads the chain of the fetch rule that precedes it in every predefined policy (fetchedFor) — a fact about the generated trees; "
    "with two extension requests in one verification (general policy) the verdicts are compared only by the oracle",
    "C01's Verify model for the internal rules, C18's lookups, C06's PDU authentication, C10's parser",
    "translator/tables.py, harness/exec_c04.c, lean/Drv/C04.lean, lib/ksiverif/{sig,pdu,pki,pubfile}.py"]
CONFIG.assumptions = [
    "a publications file the context would have to download and PKI-verify itself (no userPublicationsFile) is C18's subject; here the caller's file",
    "the certificate's validity window and the raw-signature verdict are OpenSSL's: parameters in the theorems, real RSA / ECDSA keys in the check"]
CONFIG.design_ref = "DESIGN.md section 4 and 8, C04"
CONFIG.technique = ("Lean 4 proofs over the generated rule trees for every World + differential check of all five policies with a scripted extender, "
                    "caller-supplied publications files and a throw-away PKI")
CONFIG.level_text = ("Kernel-checked for every hash function, signature, context and World (every behaviour of extender, publications file, PKI and "
                     "user): under each of the five policies OK implies the signature is internally Consistent, and — key-based: the authentication "
                     "record's signature verifies with a listed certificate whose validity window contains the aggregation time; user-publication-based: "
                     "the signature's publication record equals the user's publication (time and hash) or, extending allowed, the chain fetched for the "
                     "user's publication time has the user's hash as root, that publication time, the signature's aggregation time and aggregation "
                     "root as input; publications-file-based: the same with a record of the file (found by time and hash, or the nearest one for the "
                     "extension); calendar-based: the extender's chain starts from the aggregation root at the aggregation time and has the signature "
                     "chain's right links or, with a publication record, its root; general: one of the first three. Of the FAIL / NA clause three "
                     "representative cases are proved (another hash in the user's publication => FAIL PUB-04; extension needed but not allowed => NA "
                     "GEN-02; certificate window not containing the aggregation time => FAIL KEY-03); the rest of that classification is compared case "
                     "by case (model == implementation, label oracle).")
CONFIG.level_note = ("Trusted: Lean kernel + standard axioms; the Anchor model and its differential tie (~1600 verifications quick).")
