"""C16 — tree builder and block signer yield a valid inclusion proof for every leaf."""
import os
import sys

sys.path.insert(0, os.path.join(os.path.dirname(os.path.abspath(__file__)), "..", "lib"))
sys.path.insert(0, os.path.join(os.path.dirname(os.path.abspath(__file__)), "..", "translator"))
from ksiverif.runner import Config, Engine  # noqa: E402
from ksiverif import gen as G  # noqa: E402
import tables  # noqa: E402


def md_payload(cid, mid=None, seq=None, rt=None):
    """reference serialization of KSI_MetaData: padding TLV (0x1E, N+F flags) first, one or two 0x01 bytes so that the total length
    is even, then client id, machine id, sequence number, request time (those that are set)"""
    body = G.tlv(0x01, cid)
    if mid is not None:
        body += G.tlv(0x02, mid)
    if seq is not None:
        body += G.tlv(0x03, G.be(seq))
    if rt is not None:
        body += G.tlv(0x04, G.be(rt))
    ln = 2 + len(body)          # with an empty padding element
    pad = b"\x01\x01" if ln % 2 == 0 else b"\x01"
    return G.tlv(0x1e, pad, nc=1, fwd=1) + body


def rmd(rng):
    """(spec for the executor, reference payload)"""
    cid = rcid(rng)
    if rng.random() < 0.5:
        return G.hx(cid), G.hx(md_payload(cid))
    mid = rcid(rng)[:rng.choice([2, 3, 8])][:-1] + b"\x00" if rng.random() < 0.5 else None
    seq = rng.choice([1, 0x7f, 0x100, 0xffff, 0x10000, 1 << 40]) if rng.random() < 0.6 else None
    rt = rng.choice([1, 0xff, 0x100, 0xffffff, 0x1000000, 1759190400000000, 1 << 56, (1 << 64) - 1, rng.randrange(1, 1 << 63)]) if rng.random() < 0.8 else None
    spec = "%s,%s,%s,%s" % (G.hx(cid), G.hx(mid) if mid is not None else "-", seq if seq is not None else "-", rt if rt is not None else "-")
    return spec, G.hx(md_payload(cid, mid, seq, rt))


def rcid(rng):
    n = rng.choice([2, 3, 6, 9, 20, 254, 255, 256]) if rng.random() < 0.9 else rng.randrange(2, 300)
    return bytes(rng.choice(b"abcdefghijklmnopqrstuvwxyz") for _ in range(n - 1)) + b"\x00"


def gen(rng, tier):
    big = tier == "thorough"
    # uniform levels, every length 1..64 (thorough: ..200), with and without max level
    for n in range(1, 65 if not big else 201):
        algo = rng.choice([1, 4, 5])
        ops = ";".join("h:0:%s" % G.hx(G.imprint(rng, rng.choice(G.SUPPORTED))) for _ in range(n)) + ";c"
        yield "tb %d 0 %s" % (algo, ops)
        if n <= 40:
            for mx in (1, 2, 3, 5, 6):
                yield "tb %d %d %s" % (algo, mx, ops)
    # random levels 0..255, metadata leaves, closes in odd places, adds after close
    for i in range(400 if not big else 6000):
        algo = rng.choice(G.SUPPORTED)
        n = rng.randrange(1, 30)
        mode = rng.random()
        ops = []
        for _ in range(n):
            lv = rng.choice([0, 0, 0, 1, 2, 3]) if mode < 0.6 else rng.choice([0, 1, 5, 100, 200, 250, 253, 254, 255, 256, 300])
            r = rng.random()
            if r < 0.8:
                ops.append("h:%d:%s" % (lv, G.hx(G.imprint(rng))))
            elif r < 0.93:
                ops.append("m:%d:%s:%s" % ((lv,) + rmd(rng)))
            else:
                ops.append("c")
        if rng.random() < 0.9:
            ops.append("c")
        mx = rng.choice([0, 0, 0, 1, 3, 4, 8, 20, 255])
        yield "tb %d %d %s" % (algo, mx, ";".join(ops))
    # level arithmetic at the top: sequences that make a join exceed 255 mid-carry / at close
    for seq in (["h:254", "h:254", "h:254", "h:254"], ["h:254", "h:254", "h:255", "c"], ["h:255", "h:255"],
                ["h:253", "h:253", "h:253", "h:253", "h:254", "h:254", "h:254", "h:254", "c"],
                ["h:0", "h:254", "h:254", "h:0", "h:254", "h:254", "h:254", "c"],
                ["h:254", "h:254", "h:0", "h:0", "h:254", "h:254", "h:1", "c"]):
        for rep in range(3):
            ops = ";".join("%s:%s" % (o, G.hx(G.imprint(rng, 1))) if o != "c" else "c" for o in seq)
            yield "tb 1 0 %s" % ops
            yield "tb 1 0 %s;c" % ops
    # a close that is refused at its second or a later join: a sub tree of level 255 in a high slot, lower slots occupied
    for k in (1, 2, 3, 4):
        for extra in range(1, 2 ** k):
            seq = ["h:%d" % (255 - k)] + ["h:0"] * (2 ** k - 1 + extra)
            ops = ";".join("%s:%s" % (o, G.hx(G.imprint(rng, 1))) for o in seq)
            yield "tb 1 0 %s;c" % ops
            yield "tb 1 0 %s;c;h:0:%s;c" % (ops, G.hx(G.imprint(rng, 1)))
    # block signer: masking on/off, metadata on/off, reset at arbitrary points, max level
    for i in range(300 if not big else 5000):
        algo = rng.choice([1, 4, 5])
        mask = rng.random() < 0.6
        prev = G.hx(G.imprint(rng, algo)) if mask else "-"
        iv = G.hx(G.rbytes(rng, rng.choice([1, 16, 32, 64]))) if mask else "-"
        ops = []
        for _ in range(rng.randrange(1, 20)):
            r = rng.random()
            if r < 0.8:
                lv = rng.choice([0, 0, 0, 1, 2, 7, 252, 253, 254, 255])
                if rng.random() < 0.5:
                    ops.append("a:%d:%s:%s:%s" % ((lv, G.hx(G.imprint(rng, rng.choice([0, 1, 4, 5])))) + rmd(rng)))
                else:
                    ops.append("a:%d:%s:-:-" % (lv, G.hx(G.imprint(rng, rng.choice([1, 1, 4, 5])))))
            elif r < 0.88:
                ops.append("r")
            elif r < 0.94:
                ops.append("x:%d" % rng.choice([0, 2, 3, 4, 6, 10]))
            else:
                ops.append("c")
        ops.append("c")
        yield "bs %d %s %s %s" % (algo, prev, iv, ";".join(ops))


CONFIG = Config()
CONFIG.pid = "C16"
CONFIG.props_module = "KsiVerif.Props.C16"
CONFIG.required_theorems = ["inv_init", "addLeaf_inv", "close_inclusion", "open_forest_inclusion", "signerPrep_sound", "reset_eq_new", "heightCheck_ok_iff", "refused_close_keeps_builder",
                             "accepted_leaf_root_within_max", "treeBuilder_root_within_max", "refused_leaf_would_exceed"]
CONFIG.translators = [tables.gen_hashalgs]
CONFIG.engines = [Engine("c16", ["exec_c16.c"], "drv_c16", gen)]
CONFIG.rule = ("KSI_TreeBuilder (addDataHash/addMetaData/close) on uniform-level sequences of every length 1..64 (thorough ..200) with "
               "several maximum-level settings, random levels 0..255(+256,300), metadata leaves, closes and adds after close, "
               "level-overflow sequences failing mid-carry and at close; KSI_BlockSigner_addLeaf with/without blinding mask and per-leaf "
               "metadata, reset at arbitrary points, maximum level. Compared: every return code, root level and hash, every leaf's "
               "extracted chain, final previous-leaf value; oracle: each chain handed out by the implementation recomputes the "
               "implementation's root by the C03 reference formula. Distinct by op line. After a refused close (and for forests never closed) every leaf's chain to the top of its sub tree is compared too; closes refused at the second or a later join (255-k, then 2^k-1+extra zeros); metadata with machine id / sequence number / request time of every width.")
CONFIG.trusted_base = [
    "Lean 4.33.0 kernel; axioms propext, Classical.choice, Quot.sound only",
    "model KsiVerif.Model.Tree hand-written from tree_builder.c / blocksigner.c; tied by harness/exec_c16.c (ASan+UBSan+LSan)",
    "hash function abstract in theorems; executable SHA in Lean for the run",
]
CONFIG.assumptions = ["signing the root (KSI_BlockSigner_closeAndSign) is C07; here the tree is closed without the network",
                      "heap side of refusals (no corruption/leak) is observed under ASan/LSan, not proved"]
CONFIG.design_ref = "DESIGN.md section 4, C16"
CONFIG.technique = "Lean 4 invariant proof (well-formed forest + ordered leaves) and inclusion theorem against the C03 reference chain; differential correspondence under ASan"
CONFIG.level_text = ("Kernel-checked for every leaf sequence, every level assignment, any leaf-processor stage that is sound, any hash function: "
                     "the builder keeps a forest of join-made trees holding leaves 0..n-1 in order; after close every leaf's chain recomputes "
                     "(reference formula, from the leaf's level) exactly the root level and hash and the root contains all leaves in order; the "
                     "block signer's metadata+mask processors are sound; the height pre-check is characterised AND exact (calculateHighestLevel "
                     "predicts the level of the root that adding and closing really yields: insert_close_level), so an accepted leaf never "
                     "takes a closed tree above the configured maximum (accepted_leaf_root_within_max) and a leaf is refused for its height only when adding "
                     "and closing would yield a root above the maximum (refused_leaf_would_exceed); reset = new.")
CONFIG.level_note = ("Trusted: Lean kernel + standard axioms; hand-written model + differential tie. Memory behaviour of refusals is observed "
                     "(ASan/LSan), the functional model has no partial state by construction.")
