"""C17 — publication strings round-trip; every single-symbol corruption is rejected."""
import base64
import os
import struct
import sys
import zlib

sys.path.insert(0, os.path.join(os.path.dirname(os.path.abspath(__file__)), "..", "lib"))
sys.path.insert(0, os.path.join(os.path.dirname(os.path.abspath(__file__)), "..", "translator"))
from ksiverif.runner import Config, Engine  # noqa: E402
from ksiverif import gen as G  # noqa: E402
import tables  # noqa: E402

ALPHA = "ABCDEFGHIJKLMNOPQRSTUVWXYZ234567"
KNOWN = [0, 1, 2, 4, 5, 7, 8, 9, 10, 11]


def ref_pub(time, imprint):
    """reference encoder: Python's base64/zlib, dash-separated groups of six"""
    d = struct.pack(">Q", time) + imprint
    d += struct.pack(">I", zlib.crc32(d) & 0xffffffff)
    s = base64.b32encode(d).decode()
    return "-".join(s[i:i + 6] for i in range(0, len(s), 6))


def sx(s):
    return s.encode("latin-1").hex() if s else "-"


def gen(rng, tier):
    big = tier == "thorough"
    # raw base-32 and CRC
    for n in list(range(1, 42)) + [45, 61, 77, 100, 255, 1000]:
        d = G.rbytes(rng, n)
        for g in (0, 6, rng.choice([1, 2, 3, 4, 5, 7, 8, 9])):
            yield "b32enc %s %d" % (G.hx(d), g)
        yield "crc %s" % G.hx(d)
        s = base64.b32encode(d).decode()
        yield "b32dec %s" % sx(s)
        yield "b32dec %s" % sx(s.lower())
        yield "b32dec %s" % sx(s.rstrip("="))
    yield "b32enc - 6"
    yield "crc -"
    # all 255 non-NUL byte values as candidate symbols, at three positions of a fixed string
    base = "MFRGGZDFMZTWQ2LK"
    for v in range(1, 256):
        for pos in (0, 7, len(base)):
            s = base[:pos] + chr(v) + base[pos:]
            yield "b32dec %s" % sx(s)
    for i in range(300 if not big else 5000):
        n = rng.randrange(0, 40)
        s = "".join(rng.choice(ALPHA + ALPHA.lower() + "--=0189 !~") for _ in range(n))
        yield "b32dec %s" % sx(s)
    # publication strings
    times = [0, 1, 255, 256, 2**31 - 1, 2**32, 1413120674, 2**63 - 1, 2**63, 2**64 - 1]
    nstr = 12 if not big else 200
    for i in range(nstr):
        algo = KNOWN[i % len(KNOWN)]
        time = times[i % len(times)] if i < 2 * len(times) else rng.randrange(0, 2**64)
        imp = bytes([algo]) + G.rbytes(rng, G.DIGEST_LEN[algo])
        ref = ref_pub(time, imp)
        yield "topub %d %s %s" % (time, G.hx(imp), ref)
        exp_ok = "ok:%d:%s" % (time, G.hx(imp))
        exp_same = "same:%d:%s" % (time, G.hx(imp))
        yield "frompub %s %s" % (sx(ref), exp_ok)
        yield "frompub %s %s" % (sx(ref.lower()), exp_ok)
        yield "frompub %s %s" % (sx(ref.replace("-", "")), exp_ok)
        # every single-symbol substitution (31 x length) and every adjacent transposition
        pos = [k for k, c in enumerate(ref) if c in ALPHA]
        for k in pos:
            for c in ALPHA:
                if c != ref[k]:
                    yield "frompub %s %s" % (sx(ref[:k] + c + ref[k + 1:]), exp_same)
        for a, b in zip(pos, pos[1:]):
            if ref[a] != ref[b]:
                lst = list(ref)
                lst[a], lst[b] = lst[b], lst[a]
                yield "frompub %s %s" % (sx("".join(lst)), exp_same)
        # wrong total length / unknown algorithm / non-alphabet characters
        yield "frompub %s any" % sx(ref[:-1])
        yield "frompub %s any" % sx(ref + "A")
        yield "frompub %s any" % sx(ref[7:])
        k = rng.choice(pos)
        for c in "0189":
            yield "frompub %s %s" % (sx(ref[:k] + c + ref[k:]), exp_same)      # inserted digit: ignored or rejected
            yield "frompub %s %s" % (sx(ref[:k] + c + ref[k + 1:]), exp_same)  # replaced by a digit outside the alphabet
        for bad_algo in (3, 6, 12, 0x7e, 0xff):
            impb = bytes([bad_algo]) + G.rbytes(rng, 32)
            yield "frompub %s any" % sx(ref_pub(time, impb))
        wrong_len = bytes([algo]) + G.rbytes(rng, G.DIGEST_LEN[algo] + rng.choice([-1, 1, 4]))
        yield "frompub %s any" % sx(ref_pub(time, wrong_len))


def trivial(cls):
    return cls in ("crc",)


CONFIG = Config()
CONFIG.pid = "C17"
CONFIG.props_module = "KsiVerif.Props.C17"
CONFIG.required_theorems = [
    "pub_roundtrip", "pub_reference", "crc_table_is_standard", "base32_roundtrip", "nonalphabet_no_bits",
    "alphabet_decodes", "accepted_is_wellformed", "crc_detects_burst32", "corrupted_body_rejected",
    "corrupted_crc_field_rejected", "corrupted_straddle_1_2_rejected", "corrupted_straddle_2_1_rejected",
    "straddle_accepts_only_if", "replaced_symbol_changes_five_bits", "window2_same_or_rejected",
    "single_symbol_substitution_rejected", "window3_same_or_rejected", "adjacent_transposition_rejected",
]
CONFIG.translators = [tables.gen_crc, tables.gen_base32, tables.gen_hashalgs]
CONFIG.engines = [Engine("c17", ["exec_c17.c"], "drv_c17", gen, trivial=trivial)]
CONFIG.rule = ("KSI_base32Encode/Decode, KSI_crc32, KSI_PublicationData_to/fromBase32: random data of lengths 1..1000 with group "
               "lengths 0..9; all 255 byte values as candidate symbols; for each generated publication string (every known "
               "algorithm, boundary and random 64-bit times) ALL 31 x length single-symbol substitutions and ALL adjacent "
               "transpositions (exhaustive per string), wrong lengths, unknown algorithms, digits outside the alphabet. The "
               "expected string comes from Python's base64/zlib (independent reference). Distinct by op line.")
CONFIG.trusted_base = [
    "Lean 4.33.0 kernel; axioms propext, Classical.choice, Quot.sound only",
    "tables (crc32_table, base-32 alphabet, digit decode table incl. its C signedness, hash lengths) are regenerated from /repo each run (translator/tables.py, translator/dump.c)",
    "bit-string model of the codec (KsiVerif.Model.PubString) tied to base32.c / publicationsfile.c by harness/exec_c17.c",
]
CONFIG.assumptions = ["strings are NUL-free (C strings)", "'symbol' = a character of the base-32 alphabet; dashes and '=' are separators/padding"]
CONFIG.design_ref = "DESIGN.md section 4, C17"
CONFIG.technique = "Lean 4 theorems over a bit-string codec model with tables regenerated from source + exhaustive per-string substitution/transposition correspondence"
CONFIG.level_text = ("Kernel-checked, with the CRC table / alphabet / digit table / hash lengths regenerated from source: publication "
                     "strings round-trip for every 64-bit time and every known algorithm; base-32 round-trips for all data and group "
                     "lengths; the table is the reflected 0xEDB88320 table; bytes outside the alphabet contribute no bits; accepted "
                     "strings have exact length, known algorithm and matching CRC; CRC-32 as implemented detects every burst <= 32 bits "
                     "(XOR-linearity + trivial kernel of the zero step + top-byte argument, no polynomial algebra), hence every binary "
                     "whose time/imprint part was hit by a single-symbol (<=2 bytes) or adjacent-swap (<=3 bytes) pattern, or whose CRC "
                     "field alone was hit, is rejected; windows of <=3 bytes STRADDLING the body/CRC boundary are rejected too (1 body + <=2 field "
                     "octets, 2 body + 1 field octet) -- not the burst theorem, because the reflected CRC is stored big-endian, but two "
                     "kernel-computed facts about the generated table (T_low16, T2_low24) and the linearity lemma straddle_accepts_only_if, "
                     "which holds for error patterns of every length. EVERY SINGLE-SYMBOL SUBSTITUTION (single_symbol_substitution_rejected): for every accepted string, every "
                     "position whose character contributes five bits and every replacement that contributes five bits, the changed string "
                     "is refused or KSI_base32Decode yields the identical octets (only padding bits / a position behind '=' changed) -- "
                     "from replaced_symbol_changes_five_bits (string -> one five-bit window at a multiple of five), window_bytes (five bits "
                     "lie in <=2 consecutive octets or the dropped tail) and window2_same_or_rejected (body / field / straddling). EVERY SWAP OF TWO ADJACENT SYMBOLS likewise (adjacent_transposition_rejected: decodeBits_swap -> one ten-bit window, "
                     "window_bytes10 -> <=3 consecutive octets, window3_same_or_rejected -> body / field / 1+1, 1+2, 2+1 octets across the "
                     "boundary). Neighbours across a dash or ignored digits are covered (parameter m).")
CONFIG.level_note = ("Trusted: Lean kernel + standard axioms; translator/tables.py (regex over the preprocessed crc32.c/base32.c, refuses other "
                     "shapes) and translator/dump.c (hash lengths through the library API); bit-string model tied to addBits/readNextBits by "
                     "the differential run.")
