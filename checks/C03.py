"""C03 — hash-chain and calendar arithmetic equals the KSI chain formula for every chain."""
import hashlib
import os
import sys

sys.path.insert(0, os.path.join(os.path.dirname(os.path.abspath(__file__)), "..", "lib"))
from ksiverif.runner import Config, Engine  # noqa: E402
from ksiverif import gen as G  # noqa: E402

LC_EDGE = [0, 0, 0, 1, 1, 2, 3, 7, 254, 255, 256, 257, 2**31 - 1, 2**31, 2**32 - 1, 2**32, 2**32 + 1,
           2**63, 2**64 - 1]


def link(rng, lc=None, kind=None):
    d = rng.choice("LR")
    if lc is None:
        r = rng.random()
        lc = rng.choice([0, 0, 0, 1, 2, 3]) if r < 0.8 else rng.choice(LC_EDGE) if r < 0.97 else rng.randrange(0, 2**64)
    lcs = "x" if (lc == 0 and rng.random() < 0.5) else str(lc)
    kind = kind or rng.choice("iiiilmM")
    if kind == "M":
        n = rng.choice([1, 5, 30, 253, 254, 255, 256, 300]) if rng.random() < 0.6 else rng.randrange(1, 400)
        cid = bytes(rng.choice(b"abcdefghijklmnopqrstuvwxyz0123456789") for _ in range(n - 1)) + b"\x00"
        return "%s:%s:M:%s" % (d, lcs, G.hx(cid))
    if kind == "i":
        return "%s:%s:i:%s" % (d, lcs, G.hx(G.imprint(rng)))
    if kind == "l":
        return "%s:%s:l:%s" % (d, lcs, G.hx(G.legacy_id(rng)))
    return "%s:%s:m:%s" % (d, lcs, G.hx(G.tlv(0x04, G.metadata_payload(rng))))


def gen(rng, tier):
    big = tier == "thorough"
    # 0. the executable SHA of the model driver vs the library's hasher (padding boundaries)
    for algo in G.SUPPORTED:
        for n in list(range(0, 4)) + [54, 55, 56, 57, 63, 64, 65, 110, 111, 112, 113, 119, 120, 127, 128, 129, 255, 256, 1000]:
            yield "hash %d %s" % (algo, G.hx(G.rbytes(rng, n)))
    for algo in (2, 3, 6, 7, 8, 11, 0x7e, 0xff):
        if algo != 2:
            yield "hash %d %s" % (algo, G.hx(b"abc"))
    # 1. aggregation chains
    for i in range(1500 if not big else 25000):
        n = rng.choice([0, 1, 1, 2, 3, 4, 5, 8, 13, 30, 64, 70]) if rng.random() < 0.7 else rng.randrange(0, 75)
        algo = rng.choice(G.SUPPORTED) if rng.random() < 0.97 else rng.choice([3, 7, 9, 0x7e])
        start = rng.choice([0, 0, 0, 1, 5, 17, 200, 254, 255]) if rng.random() < 0.8 else rng.randrange(0, 256)
        small = rng.random() < 0.5        # keep many chains inside the level budget so that they succeed
        links = []
        for _ in range(n):
            links.append(link(rng, lc=(rng.choice([0, 0, 0, 1]) if small else None)))
        ls = ";".join(links) or "-"
        yield "agg %d %d %s %s" % (algo, start, G.hx(G.imprint(rng)), ls)
        if i % 6 == 0:
            yield "aggc %d %s %s %d %d" % (algo, G.hx(G.imprint(rng)), ls, rng.choice([0, 0, 3, 255, 256, 300]),
                                           rng.choice([0, 1, 7, 255]))
    # 1a. the same chain object asked three times: fine, out of range, fine again / three different levels
    for i in range(60 if not big else 600):
        n = rng.choice([1, 2, 3, 5])
        ls = ";".join(link(rng, lc=rng.choice([0, 0, 1])) for _ in range(n))
        a, b = rng.choice([0, 1, 3, 7]), rng.choice([0, 2, 5])
        hi = rng.choice([253, 254, 255])
        for trio in ((a, rng.choice([256, 300, 1000]), a), (a, b, a), (a, 255, b), (b, a, 256), (a, hi, hi), (a, 255, 255), (hi, hi, a)):
            yield "agg3 %d %s %s %d %d %d" % (rng.choice(G.SUPPORTED), G.hx(G.imprint(rng)), ls, trio[0], trio[1], trio[2])
    # 1c. RIPEMD-160 (the driver has no implementation of it): the reference root is computed here with Python's
    for i in range(40 if not big else 400):
        n = rng.choice([1, 2, 3, 6])
        start = rng.choice([0, 0, 2])
        inp = G.imprint(rng, rng.choice([0, 1, 2]))
        links, level, cur = [], start, inp
        for _ in range(n):
            d, lc, sib = rng.choice("LR"), rng.choice([0, 0, 1]), G.imprint(rng, rng.choice([1, 2, 0]))
            links.append("%s:%s:i:%s" % (d, "x" if lc == 0 else str(lc), G.hx(sib)))
            level += lc + 1
            cur = bytes([2]) + hashlib.new("ripemd160", (cur + sib if d == "L" else sib + cur) + bytes([level])).digest()
        yield "aggr 2 %d %s %s %d %s" % (start, G.hx(inp), ";".join(links), level, G.hx(cur))
    # 1d. links that were given two kinds of sibling through the setters
    for i in range(30 if not big else 300):
        n = rng.choice([1, 2, 4])
        ls = [link(rng, lc=0) for _ in range(n)]
        k = rng.randrange(n)
        ls[k] = "%s:x:%s:%s" % (rng.choice("LR"), rng.choice("xy"), G.hx(G.imprint(rng)) if False else "")
        kind = rng.choice("xy")
        ls[k] = "%s:x:%s:%s" % (rng.choice("LR"), kind, G.hx(G.imprint(rng) if kind == "x" else G.legacy_id(rng)))
        yield "aggx %d 0 %s %s" % (rng.choice(G.SUPPORTED), G.hx(G.imprint(rng)), ";".join(ls))
    # 1b. level boundary, exhaustively around 255: start + corrections + count
    for start in ([0, 250, 253, 254, 255] if not big else range(240, 256)):
        for lc in (0, 1, 2, 4, 5, 254, 255, 256, 2**32, 2**32 + 3, 0x7fffffff, 2**64 - 1):
            for nlinks in (1, 2):
                ls = ";".join(link(rng, lc=lc if k == 0 else 0, kind="i") for k in range(nlinks))
                yield "agg 1 %d %s %s" % (start, G.hx(G.imprint(rng, 1)), ls)
    # 2. calendar chains (algorithm switching on left links)
    for i in range(600 if not big else 8000):
        n = rng.choice([0, 1, 2, 3, 5, 10, 32, 40])
        links = ";".join("%s:%s" % (rng.choice("LR"), G.hx(G.imprint(rng))) for _ in range(n)) or "-"
        yield "cal %s %s" % (G.hx(G.imprint(rng)), links)
        if n and i % 5 == 0:
            # a left link of a registered algorithm this build cannot compute: the hasher has to be re-opened and cannot be
            ls = [(rng.choice("LR"), G.imprint(rng)) for _ in range(n)]
            k = rng.randrange(n)
            ls[k] = ("L", G.imprint(rng, rng.choice([7, 8, 9, 10, 11])))
            yield "cal %s %s" % (G.hx(G.imprint(rng)), ";".join("%s:%s" % (d, G.hx(b)) for d, b in ls))
    # 3. calendar time: all shapes up to a length x all publication times up to a bound
    maxlen, maxp = (7, 70) if not big else (10, 1024)
    for ln in range(0, maxlen + 1):
        for v in range(1 << ln):
            bits = format(v, "0%db" % ln) if ln else "-"
            for p in (range(0, maxp + 1) if (ln <= 5 or big) else [rng.randrange(0, maxp + 1) for _ in range(6)]):
                yield "caltime %d %s" % (p, bits)
    for i in range(1500 if not big else 30000):
        p = rng.choice([rng.randrange(0, 2**32), rng.randrange(0, 2**63), 2**63 - 1, 2**63, 2**64 - 1, 2**31, 2**32 - 1,
                        1 << rng.randrange(0, 63)])
        # mostly valid shapes: walk the tree from the root to a random leaf
        if rng.random() < 0.7 and 0 < p < 2**63:
            bits, r = [], p
            while r > 0:
                hb = 1 << (r.bit_length() - 1)
                if rng.random() < 0.5:
                    bits.append("1"); r = hb - 1
                else:
                    bits.append("0"); r -= hb
            bits = "".join(reversed(bits))
            if rng.random() < 0.2 and bits:
                k = rng.randrange(len(bits))
                bits = bits[:k] + ("0" if bits[k] == "1" else "1") + bits[k + 1:]
        else:
            bits = "".join(rng.choice("01") for _ in range(rng.randrange(0, 70)))
        yield "caltime %d %s" % (p, bits or "-")
    # 4. shape
    for ln in list(range(0, 12)) + [31, 32, 33, 62, 63, 64, 65, 66, 67, 100]:
        for _ in range(4 if ln > 3 else 1 << ln):
            yield "shape %s" % ("".join(rng.choice("01") for _ in range(ln)) or "-")
    for ln in (62, 63, 64, 65):
        yield "shape %s" % ("1" * ln)
        yield "shape %s" % ("0" * ln)


def trivial(cls):
    return cls.startswith("hash:")


CONFIG = Config()
CONFIG.pid = "C03"
CONFIG.props_module = "KsiVerif.Props.C03"
CONFIG.required_theorems = [
    "aggregate_eq_reference", "aggregate_level", "aggregate_rejects_out_of_range", "aggregate_single_step",
    "reference_chain_compose", "highBit_is_top_power", "calTime_iff_calendar_tree", "calTime_le_publication",
    "shape_eq_reference", "calendar_step",
]
CONFIG.engines = [Engine("c03", ["exec_c03.c"], "drv_c03", gen, trivial=trivial)]
CONFIG.rule = ("KSI_HashChain_aggregate / KSI_AggregationHashChain_aggregate (memoising, two start levels) on link lists "
               "of length 0..75 with every sibling kind (imprint, legacy id, metadata), corrections from the boundary set "
               "{0,1,254..257,2^31-1,2^31,2^32-1,2^32,2^32+1,2^63,2^64-1} and random 64-bit, start levels 0..255(+256,300); "
               "KSI_HashChain_aggregateCalendar on 0..40 links with mixed algorithms; calculateAggregationTime on all shapes "
               "of length<=7 x publication times<=70 (thorough: <=10 x <=1024, exhaustive) plus random 32/63/64-bit times "
               "with tree-walk generated valid shapes and single-bit corruptions; calculateShape for lengths 0..100. The "
               "model driver hashes with SHA-1/256/384/512 written in Lean, first validated against KSI_DataHash_create. "
               "Distinct by op line; hash self-test lines are counted trivial.")
CONFIG.trusted_base = [
    "Lean 4.33.0 kernel; axioms propext, Classical.choice, Quot.sound only",
    "model KsiVerif.Model.HashChain hand-written from hashchain.c; tied by harness/exec_c03.c (ASan+UBSan build of /repo)",
    "the hash function is a parameter in every theorem; the executable SHA in Lean is only used to run the model and is itself compared with the library",
]
CONFIG.assumptions = [
    "metadata siblings are given in shortest TLV header form (the property's stated domain)",
    "RIPEMD-160 is computable by the library but not by the model driver and is excluded from generated cases",
]
CONFIG.design_ref = "DESIGN.md section 4, C03"
CONFIG.technique = "Lean 4 theorems (model = reference fold; calendar loop <-> inductive calendar-tree semantics; bit-smearing highBit; shape) + differential correspondence"
CONFIG.level_text = ("Kernel-checked for all link lists, all corrections 0..2^64-1 and beyond, all start levels, any hash function: "
                     "aggregation = reference fold and is an error exactly when the formula is undefined (no truncation); level "
                     "= start + sum(correction+1) <= 255; calendar time loop <-> leaf addressed in the calendar tree (impossible "
                     "shapes, empty chain, times >= 2^63 rejected); highBit = 2^floor(log2 n) for all 0<n<2^64; shape = reference "
                     "bit string for <=63 links, refused beyond. Tied to hashchain.c differentially incl. exhaustive small calendar space.")
CONFIG.level_note = ("Trusted: Lean kernel + standard axioms; hand-written model + differential tie; SHA correctness is not assumed by any "
                     "theorem. An empty aggregation chain returns KSI_OK with no output hash in the code and in the model (the parser "
                     "never produces one); theorems are stated for non-empty chains.")
