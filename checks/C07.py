"""C07 — signing returns success only with a valid signature for the requested hash."""
import os
import sys

sys.path.insert(0, os.path.join(os.path.dirname(os.path.abspath(__file__)), "..", "lib"))
sys.path.insert(0, os.path.join(os.path.dirname(os.path.abspath(__file__)), "..", "translator"))
from ksiverif.runner import Config, Engine  # noqa: E402
from ksiverif import sig as S, pdu  # noqa: E402
from ksiverif.gen import tlv, be, hx  # noqa: E402
import tables  # noqa: E402

KEY = b"anon"


def aggregate(rng, h, level, nchains=None, anchor="auth"):
    """a reference aggregator: random tree shapes above the requested (hash, level); the reply's chains as the server computes
    them (levels counted from `level`), calendar chain and authentication record on top"""
    s = S.build(rng, nchains=nchains, with_cal=True, anchor=anchor, first_lc=rng.choice([None, 0, 1, 2]))
    s.chains[0].input_hash = h
    s.relink(start_level=level)
    return s


def height(s, level):
    for c in s.chains:
        level, _ = c.output(level)
    return level


def reply(ver, rid, status, s, key=KEY, alg=1, with_status=True, extra=b"", with_msg=True, upper_first=False):
    body = tlv(0x01, be(rid)) + (tlv(0x04, be(status)) if with_status else b"") + (tlv(0x05, b"no\x00") if status and with_msg else b"")
    body += (s.body(list(reversed(s.chains)) if upper_first else None) if s is not None else b"") + extra
    if ver == 2:
        return pdu.pdu_v2(0x221, tlv(0x02, body), alg, key)
    return pdu.pdu_v1(0x200, tlv(0x202, body), alg, key)


def echo_line(h, level, s, key=KEY):
    """PDU v1: the honest response element, to be put beside the client's own request"""
    body = tlv(0x01, be(1)) + tlv(0x04, be(0)) + s.body(None)
    return "se %s %d %s %s" % (hx(h), level, hx(key), hx(tlv(0x202, body)))


def line(h, level, ver, rep, label, key=KEY):
    return "s %s %d %d %s %s %s" % (hx(h), level, ver, hx(key), hx(rep), label)


def gen(rng, tier):
    big = tier == "thorough"
    for i in range(30 if not big else 500):
        alg = rng.choice([1, 1, 1, 4, 5])
        h = bytes([alg]) + rng.randbytes(S.DLEN[alg])
        level = rng.choice([0, 0, 0, 1, 2, 7, 100, 200, 250])
        ver = rng.choice([1, 2, 2])
        good = aggregate(rng, h, level)
        fits = height(good, level) <= 255
        R = lambda s=good, **kw: reply(ver, kw.pop("rid", 1), kw.pop("status", 0), s, **kw)   # noqa: E731
        if not fits:
            yield line(h, level, ver, R(), "levels-above-255")
            continue
        yield line(h, level, ver, R(), "ok")
        if rng.random() < 0.4:
            yield line(h, level, ver, R(extra=tlv(0x1e1, b"\x05", nc=1)), "ok")
        g2 = aggregate(rng, h, level, anchor="none")                                                # no authentication record yet
        yield line(h, level, ver, reply(ver, 1, 0, g2), "ok" if height(g2, level) <= 255 else "levels-above-255")
        # every other behaviour of the server
        # a caller's verification context that still holds another document's hash: the honest reply is accepted, a reply whose chains
        # are for that other document is not
        if rng.random() < 0.6:
            other = bytes([alg]) + rng.randbytes(S.DLEN[alg])
            yield "sp %s %d %d %s %s %s ok" % (hx(h), level, ver, hx(KEY), hx(R()), hx(other))
            go = aggregate(rng, other, level)
            if height(go, level) <= 255:
                yield "sp %s %d %d %s %s %s chains-for-the-hash-in-the-caller's-context" % (hx(h), level, ver, hx(KEY), hx(reply(ver, 1, 0, go)), hx(other))
        yield echo_line(h, level, good)            # PDU v1: the client's own header, request and MAC echoed, the response beside them
        yield line(h, level, ver, R(rid=rng.choice([0, 2, 3, 1 << 32, (1 << 64) - 1])), "foreign-request-id")
        st = rng.choice([0x101, 0x102, 0x103, 0x104, 0x105, 0x106, 0x107, 0x200, 0x300, 0x301, 5, 1 << 40])
        yield line(h, level, ver, R(status=st), "status-not-zero")
        yield line(h, level, ver, R(s=None, status=st), "status-not-zero")
        yield line(h, level, ver, R(status=st, with_msg=False), "status-not-zero")             # complete chains, no error message
        yield line(h, level, ver, R(upper_first=True), "ok")                                    # the order of the chains in the reply is free
        yield line(h, level, ver, R(s=None), "no-chains")
        yield line(h, level, ver, R(with_status=False), "status-absent")
        other = bytearray(h); other[rng.randrange(1, len(other))] ^= 1 << rng.randrange(8)
        yield line(h, level, ver, R(s=aggregate(rng, bytes(other), level)), "chains-for-another-hash")
        oa = rng.choice([a for a in (1, 4, 5) if a != alg])
        yield line(h, level, ver, R(s=aggregate(rng, bytes([oa]) + rng.randbytes(S.DLEN[oa]), level)), "chains-for-another-hash")
        if level != 0 or rng.random() < 0.5:
            ol = rng.choice([x for x in (0, 1, level + 1, max(level - 1, 0)) if x != level])
            yield line(h, level, ver, R(s=aggregate(rng, h, ol)), "chains-computed-for-another-level")
            yield line(h, level, ver, R(s=aggregate(rng, h, ol, nchains=rng.choice([2, 3])), upper_first=True), "chains-computed-for-another-level")
        # internally inconsistent chains
        bad = good.clone()
        k = rng.randrange(len(bad.chains)); l = rng.choice(bad.chains[k].links)
        if l.kind == "h":
            d = bytearray(l.data); d[-1] ^= 1; l.data = bytes(d)
            yield line(h, level, ver, R(s=bad), "inconsistent-chains")
        bad = good.clone(); bad.chains[-1].time += 1; yield line(h, level, ver, R(s=bad), "inconsistent-chains")
        bad = good.clone(); bad.chains[0].index[-1] ^= 1; yield line(h, level, ver, R(s=bad), "inconsistent-chains")
        bad = good.clone(); c = bytearray(bad.cal.input_hash); c[-1] ^= 1; bad.cal.input_hash = bytes(c); yield line(h, level, ver, R(s=bad), "inconsistent-chains")
        if good.auth:
            bad = good.clone(); bad.auth = (bad.auth[0] + 1, bad.auth[1]); yield line(h, level, ver, R(s=bad), "inconsistent-chains")
        # authentication, framing
        r0 = bytearray(R()); r0[rng.randrange(len(r0) - 33, len(r0))] ^= 1
        yield line(h, level, ver, bytes(r0), "mac-does-not-verify")
        r0 = bytearray(R()); pos = r0.find(h[1:9])
        if pos > 0:
            r0[pos] ^= 0x01
            yield line(h, level, ver, bytes(r0), "mac-does-not-verify")
        yield line(h, level, ver, R(key=b"someone else"), "mac-does-not-verify")
        yield line(h, level, ver, pdu.drop_mac(R()), "mac-absent")                      # well-formed and honest in every other respect
        yield line(h, level, ver, reply(3 - ver, 1, 0, good), "other-pdu-version")
        yield line(h, level, ver, pdu.err_pdu(0x03, 0x102) if ver == 2 else tlv(0x200, pdu.err_pdu(0x203, 0x102)), "error-pdu")
        yield line(h, level, ver, R()[:-2], "malformed")
        yield line(h, level, ver, tlv(0x221 if ver == 2 else 0x200, b""), "malformed")
        # statuses that only differ from zero above bit 31
        yield line(h, level, ver, R(status=rng.choice([1 << 32, 1 << 40, 1 << 63, (1 << 32) + 0x100000000])), "status-not-zero")
        # the asynchronous service (PDU v2, request id 1): the same server behaviours
        if i % 2 == 0:
            A = lambda s=good, **kw: reply(2, kw.pop("rid", 1), kw.pop("status", 0), s, **kw)   # noqa: E731
            aline = lambda rep, label: "as %s %d %s %s %s" % (hx(h), level, hx(KEY), hx(rep), label)   # noqa: E731
            yield aline(A(), "ok")
            yield aline(A(s=aggregate(rng, bytes(other), level)), "chains-for-another-hash")
            yield aline(A(rid=rng.choice([0, 2, 5])), "foreign-request-id")
            yield aline(A(status=rng.choice([0x101, 0x300, 1 << 32])), "status-not-zero")
            yield aline(A(with_status=False), "status-absent")
            bad = good.clone(); bad.chains[-1].time += 1; yield aline(A(s=bad), "inconsistent-chains")
            r0 = bytearray(A()); r0[-1] ^= 1; yield aline(bytes(r0), "mac-does-not-verify")
            yield aline(A(key=b"someone else"), "mac-does-not-verify")
            yield aline(pdu.drop_mac(A()), "mac-absent")
            if level != 0:
                yield aline(A(s=aggregate(rng, h, 0)), "chains-computed-for-another-level")
            # the handle that came back is used again: what the server answers to the second request (id 2) decides
            a2 = lambda rep2, label: "as2 %s %d %s %s %s %s" % (hx(h), level, hx(KEY), hx(A()), hx(rep2), label)   # noqa: E731
            yield a2(A(rid=2), "ok")
            yield a2(A(rid=2, status=0x101), "status-not-zero")
            yield a2(A(rid=2, s=aggregate(rng, bytes(other), level)), "chains-for-another-hash")
            yield a2(pdu.err_pdu(0x03, 0x102), "error-pdu")
            yield a2(A(rid=2, key=b"someone else"), "mac-does-not-verify")
        # the request
        login = rng.choice([b"anon", b"u", b"user-with-a-long-name-%d" % rng.randrange(1000), bytes(range(0x41, 0x41 + 40))])
        yield "q %s %d %d %s %s request" % (hx(h), level, ver, hx(login), hx(KEY))
        # aggregator and extender both on the TCP transport with different credentials; the request the HA service forwards
        yield "q2 %s %d %d %s %s %s %s request" % (hx(h), level, ver, hx(login), hx(KEY), hx(b"extender-user"), hx(b"extender-key"))
        if i % 3 == 0:
            yield "qh %s %d %s request" % (hx(h), level, hx(KEY))
    # refused before anything is sent: untrusted (deprecated) algorithm, levels out of range
    for _ in range(6 if not big else 40):
        ver = rng.choice([1, 2])
        h0 = bytes([0]) + rng.randbytes(20)
        good = aggregate(rng, h0, 0)
        yield line(h0, 0, ver, reply(ver, 1, 0, good), "untrusted-algorithm")
        yield "q %s 0 %d %s %s untrusted-algorithm" % (hx(h0), ver, hx(b"anon"), hx(KEY))
        h = bytes([1]) + rng.randbytes(32)
        for lv in (256, 257, 1000):
            yield line(h, lv, ver, reply(ver, 1, 0, aggregate(rng, h, 0)), "level-above-255")
            yield "q %s %d %d %s %s level-above-255" % (hx(h), lv, ver, hx(b"anon"), hx(KEY))
        for lv in (255, 254):
            yield "q %s %d %d %s %s request" % (hx(h), lv, ver, hx(b"anon"), hx(KEY))


def trivial(cls):
    return False


CONFIG = Config()
CONFIG.pid = "C07"
CONFIG.props_module = "KsiVerif.Props.C07"
CONFIG.required_theorems = ["convAggr_ne_zero", "addLevel_spec", "sign_ok_requires", "signed_for_the_requested_hash",
                             "unauthenticated_reply_refused", "untrusted_algorithm_refused"]
CONFIG.translators = [tables.gen_templates, tables.gen_hashalgs, tables.gen_policies]
CONFIG.engines = [Engine("c07", ["exec_c07.c"], "drv_c07", gen, trivial=trivial, wraps=["time"])]
CONFIG.rule = ("op lines from one PRNG (VERIF_SEED). Document hashes SHA-256/384/512 (and SHA-1 for the refusal), levels {0, 1, 2, 7, 100, 200, 250; 254..257, "
               "1000}, PDU v1 and v2. Honest replies come from a reference aggregator written with hashlib: 1-4 chains of random shape above the "
               "requested (hash, level) with imprint / legacy-id / metadata siblings and level corrections, levels counted from the requested level, "
               "calendar chain, with or without authentication record, with or without an unknown non-critical element. Deviations: foreign / stale "
               "request id {0, 2, 3, 2^32, 2^64-1}, 12 non-zero statuses with and without chains, status absent, no chains, chains for another hash (one "
               "bit, another algorithm), chains computed for another level, internally inconsistent chains (sibling, time, index, calendar input, "
               "authentication record time), MAC / payload damaged, other key, other PDU version, error PDU, truncated, empty payload; trees taller than "
               "255. Requests (KSI_createSignRequest + KSI_sendSignRequest): the octets handed to the transport are parsed and must carry the caller's "
               "hash, level (absent iff 0) and login id, request id 1; untrusted algorithm and levels above 255 must be refused with nothing sent. The "
               "asynchronous signing service on a scripted socket gets the same honest and deviating replies (statuses with only high bits set included). "
               "Oracle on "
               "the returned signature itself: parses, input hash = requested hash, first level correction >= requested level, internally consistent "
               "for that hash; never a signature together with an error. Also: the same through KSI_Signature_signAggregatedWithPolicy with a caller's verification context that still holds another document's hash (honest reply / reply whose chains are for that other hash); PDU v1 replies that echo the client's own header, request and MAC and carry a response beside them (se).")
CONFIG.trusted_base = [
    "Lean 4.33.0 kernel; axioms propext, Classical.choice, Quot.sound only",
    "PDU authentication is C06's model, the typed parser C10's, internal verification C01's; the hash-algorithm table is generated from hash.c",
    "the signature is modelled as the typed view of the response's elements (+ level); the octets of the result are compared after parsing "
    "(byte-exactness of what is kept is C11)",
    "translator/tables.py, harness/exec_c07.c, lean/Drv/C07.lean, lib/ksiverif/sig.py, lib/ksiverif/pdu.py"]
CONFIG.assumptions = [
    "asynchronous signing is driven (op `as`: scripted socket, KSI_AsyncHandle_getSignature) and judged by the same oracle; whether a signature "
    "comes out is compared with the blocking model (the service's own error reporting is C13's); block signing = KSI_Signature_signAggregated of "
    "the tree root at the tree's height followed by prepending each leaf's chain (C16 proves the chains, C11's histories drive the prepend "
    "operation) — not driven again here",
    "HTTP and TCP transports hand the reply octets to the same KSI_RequestHandle_getAggregationResponse (C14 / C20 cover framing and URIs)",
    "with two chains of equal index length the SDK's level update picks the first 0x801 element of that length; generated replies have distinct lengths"]
CONFIG.design_ref = "DESIGN.md section 4 and 8, C07"
CONFIG.technique = ("Lean 4 proofs (signing succeeds only for a trusted algorithm and level <= 255, with an authenticated reply of the request's id and "
                    "status 0 whose elements — level added — form a signature internally consistent for the requested hash) + differential check "
                    "against a reference aggregator with every deviating reply, and inspection of the request octets")
CONFIG.level_text = ("Kernel-checked for every hash function, hash, level, reply octets: signAggregated returns a signature only if the level is <= 255, the "
                     "algorithm is trusted, the reply passes PDU authentication and carries a response object with the request's id and status 0, and the "
                     "signature formed from its elements (requested level added to the first level correction, nothing else changed) is Consistent for "
                     "the requested hash — so its input hash is the requested hash; an unauthenticated reply or an untrusted algorithm never yields one.")
CONFIG.level_note = ("Trusted: Lean kernel + standard axioms; models of C06/C10/C01 and the Sign model's differential tie (~650 signing calls quick).")
