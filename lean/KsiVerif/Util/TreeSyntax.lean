import KsiVerif.Model.Tlv
/-!
One-token text syntax for TLV trees on the driver protocol:
`R<tag>.<f>:<hex>` (raw; `-` for the empty payload) and `N<tag>.<f>[t,t,…]` (nested),
tag decimal, `f = 2*nc + fwd`.
-/
namespace KsiVerif.Tlv
open KsiVerif

mutual
partial def Tlv.render : Tlv → String
  | .raw tag nc fwd p =>
    s!"R{tag}.{(if nc then 2 else 0) + (if fwd then 1 else 0)}:{toHex p}"
  | .nested tag nc fwd cs =>
    s!"N{tag}.{(if nc then 2 else 0) + (if fwd then 1 else 0)}[{",".intercalate (renderList cs)}]"
partial def renderList : List Tlv → List String
  | [] => []
  | c :: cs => c.render :: renderList cs
end

private def takeDigits : List Char → Nat → (Nat × List Char)
  | c :: cs, acc => if c.isDigit then takeDigits cs (acc * 10 + (c.toNat - 48)) else (acc, c :: cs)
  | [], acc => (acc, [])

private def takeHex : List Char → List Char → (List Char × List Char)
  | c :: cs, acc =>
    if (hexVal c).isSome || c == '-' then takeHex cs (c :: acc) else (acc.reverse, c :: cs)
  | [], acc => (acc.reverse, [])

mutual
partial def parseTreeChars : List Char → Option (Tlv × List Char)
  | k :: cs =>
    let (tag, cs) := takeDigits cs 0
    match cs with
    | '.' :: f :: cs =>
      let fl := f.toNat - 48
      let nc := fl / 2 == 1
      let fwd := fl % 2 == 1
      if k == 'R' then
        match cs with
        | ':' :: cs =>
          let (h, cs) := takeHex cs []
          match ofHex (String.ofList h) with
          | some p => some (.raw tag nc fwd p, cs)
          | none => none
        | _ => none
      else if k == 'N' then
        match cs with
        | '[' :: ']' :: cs => some (.nested tag nc fwd [], cs)
        | '[' :: cs =>
          match parseTreeList cs with
          | some (ts, cs) => some (.nested tag nc fwd ts, cs)
          | none => none
        | _ => none
      else none
    | _ => none
  | [] => none
partial def parseTreeList (cs : List Char) : Option (List Tlv × List Char) :=
  match parseTreeChars cs with
  | some (t, ',' :: cs) =>
    match parseTreeList cs with
    | some (ts, cs) => some (t :: ts, cs)
    | none => none
  | some (t, ']' :: cs) => some ([t], cs)
  | _ => none
end

def parseTree (s : String) : Option Tlv :=
  match parseTreeChars s.toList with
  | some (t, []) => some t
  | _ => none

end KsiVerif.Tlv
