import KsiVerif.Util.Hex
import KsiVerif.Model.VerifyPolicy
import KsiVerif.Model.Sha
/-! Shared by the drivers that verify signatures (C01, C02, C11): the real hash functions, the parser
configuration, rendering of verdicts. -/
namespace KsiVerif.VerifyDrv
open KsiVerif KsiVerif.Template KsiVerif.Verify KsiVerif.Policy

def Hreal : HashChain.HashFn := fun algo d => (Sha.hashById algo).map (· d)
def cfg : Cfg := { derOK := fun _ => false }

def resNum : Res → Nat
  | .ok => 0 | .na => 1 | .fail => 2

def isOKb (v : Verdict) : Bool := v.status == 0 && (match v.final with | some (.ok, _) => true | _ => false)

/-- `V<status>:<result>:<code>` and `A<status>` as the executors print them -/
def verdictStr (x : VCtx) (v : Verdict) : String × String :=
  let a := apiStatus x v
  match v.status, v.final with
  | 0, some (r, e) => (s!"V0:{resNum r}:{e}", s!"A{a}")
  | st, _ => (s!"V{st}:-:-", s!"A{a}")

def sixNames : List String := ["internal", "calendar", "key", "pubfile", "userpub", "general"]

/-- chains with index lists of equal length are ordered by an unstable sort in the library -/
def hasTie (s : Sig) : Bool :=
  let lens := s.chains.map (·.index.length)
  lens.eraseDups.length != lens.length

end KsiVerif.VerifyDrv
