import KsiVerif.Util.Hex
/-!
Generic line-protocol loop shared by every model driver.

Each input line is `op arg… => impl-output…` (written by the C executor that ran the real
library).  The handler returns a verdict line:

* `ok <class>`                 model output = implementation output and the spec oracle holds
* `diff <class> model=<…>`     correspondence broken on this input
* `specfail <class> <reason>`  the *implementation's* output violates the property's spec
* `skip <reason>`              line not understood (counted, never silently dropped)
-/
namespace KsiVerif

partial def driverLoop (h : IO.FS.Stream) (out : IO.FS.Stream)
    (handle : String → String → String) : IO Unit := do
  let line ← h.getLine
  if line.isEmpty then return ()
  let l := (line.dropEndWhile (fun c => c == '\n' || c == '\r')).toString
  if l.isEmpty || l.startsWith "#" then
    driverLoop h out handle
  else
    let (i, o) := splitArrow l
    out.putStrLn (handle i o)
    driverLoop h out handle

def runDriver (handle : String → String → String) : IO Unit := do
  let out ← IO.getStdout
  driverLoop (← IO.getStdin) out handle
  out.flush

end KsiVerif
