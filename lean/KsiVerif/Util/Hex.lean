/-!
Hex and line helpers for the model drivers (core Lean only; no Mathlib).
-/
namespace KsiVerif

abbrev Bytes := List UInt8

def hexDigit (n : Nat) : Char :=
  if n < 10 then Char.ofNat (48 + n) else Char.ofNat (87 + n)

def hexOfByte (b : UInt8) : String :=
  String.ofList [hexDigit (b.toNat / 16), hexDigit (b.toNat % 16)]

/-- Hex rendering; the empty byte string is written `-` so that every field is non-empty. -/
def toHex (bs : Bytes) : String :=
  if bs.isEmpty then "-" else String.join (bs.map hexOfByte)

def hexVal (c : Char) : Option Nat :=
  if '0' ≤ c ∧ c ≤ '9' then some (c.toNat - 48)
  else if 'a' ≤ c ∧ c ≤ 'f' then some (c.toNat - 87)
  else if 'A' ≤ c ∧ c ≤ 'F' then some (c.toNat - 55)
  else none

def ofHexChars : List Char → Option Bytes
  | [] => some []
  | [_] => none
  | a :: b :: rest => do
    let x ← hexVal a
    let y ← hexVal b
    let r ← ofHexChars rest
    pure (UInt8.ofNat (x * 16 + y) :: r)

def ofHex (s : String) : Option Bytes :=
  if s == "-" then some [] else ofHexChars s.toList

def words (s : String) : List String :=
  (s.splitOn " ").filter (· ≠ "")

/-- Split a protocol line `input => output` into its two halves. -/
def splitArrow (line : String) : String × String :=
  match line.splitOn " => " with
  | [a] => (a, "")
  | a :: rest => (a, " => ".intercalate rest)
  | [] => ("", "")

end KsiVerif
