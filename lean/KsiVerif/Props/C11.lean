import KsiVerif.Model.SigObject
import KsiVerif.Proofs.TlvParse
/-! # C11 — signatures are kept byte-exact; verification is repeatable and non-mutating -/
namespace KsiVerif.Props.C11
open KsiVerif KsiVerif.Tlv KsiVerif.TlvSpec KsiVerif.TlvProofs KsiVerif.HashChain KsiVerif.Verify KsiVerif.SigObj

/-! ## byte-exactness -/

mutual
/-- opening the parsed element along the tree it was encoded from gives that tree back, at every depth -/
theorem reparse_flatten : ∀ (t : Tlv), tagsOK t = true → lensOK t = true → reparse t (flatten t) = t
  | .raw tag nc fwd p, _, _ => by simp [flatten, payload, reparse, Tlv.tag, Tlv.nc, Tlv.fwd]
  | .nested tag nc fwd cs, ht, hl => by
    simp only [tagsOK, lensOK, Bool.and_eq_true] at ht hl
    simp only [flatten, payload, reparse, Tlv.tag, Tlv.nc, Tlv.fwd]
    rw [expand_encodeList cs ht.2 hl.2]
    simp only
    rw [reparseList_flatten cs ht.2 hl.2]
theorem reparseList_flatten : ∀ (cs : List Tlv), tagsOKList cs = true → lensOKList cs = true →
    reparseList cs (cs.map flatten) = cs
  | [], _, _ => by simp [reparseList]
  | c :: cs, ht, hl => by
    simp only [tagsOKList, lensOKList, Bool.and_eq_true] at ht hl
    simp only [List.map_cons, reparseList]
    rw [reparse_flatten c ht.1 hl.1, reparseList_flatten cs ht.2 hl.2]
end

/-- **A signature given in canonical encoding re-serializes to exactly the bytes it was parsed from**: for every
encodable element tree, parsing its encoding, opening it the way the templates do (along its own shape) and
serializing the kept tree gives the same octets. -/
theorem parse_serialize_canonical (t : Tlv) (ht : tagsOK t = true) (hl : lensOK t = true) :
    (parseBlob (encode t)).map (fun flat => encode (reparse t flat)) = .ok (encode t) := by
  rw [parseBlob_encode t (tagsOK_tag ht) hl]
  simp [Except.map, reparse_flatten t ht hl]

/-! ## the memo is invisible -/

def ValidCache (H : HashFn) (c : AggrChain) (cache : Cache) : Prop :=
  ∀ s l o, cache = some (s, l, o) → aggrChain H c s = .ok (l, o)

theorem aggrChain_level (H : HashFn) (c : AggrChain) (start : Nat) (h : start > 0xff) :
    aggrChain H c start = .error St.INVALID_ARGUMENT := by
  unfold aggrChain; rw [if_pos h]

/-- with a valid memo the memoised call returns what the computation returns, and leaves a valid memo -/
theorem aggrMemo_transparent (H : HashFn) (c : AggrChain) (cache : Cache) (start : Nat) (hv : ValidCache H c cache) :
    (aggrMemo H c cache start).1 = aggrChain H c start ∧ ValidCache H c (aggrMemo H c cache start).2 := by
  unfold aggrMemo
  by_cases hs : start > 0xff
  · rw [if_pos hs]; exact ⟨(aggrChain_level H c start hs).symm, hv⟩
  · rw [if_neg hs]
    have hcomp : ∀ (x : Except Nat (Nat × Bytes) × Cache),
        x = (match aggrChain H c start with
             | .ok r => (.ok r, some (start, r.1, r.2))
             | .error e => (.error e, none)) → x.1 = aggrChain H c start ∧ ValidCache H c x.2 := by
      intro x hx
      cases ha : aggrChain H c start with
      | error e => rw [ha] at hx; rw [hx]; exact ⟨rfl, by intro s l o h; cases h⟩
      | ok r =>
        rw [ha] at hx; rw [hx]
        refine ⟨rfl, ?_⟩
        intro s l o h
        simp only [Option.some.injEq, Prod.mk.injEq] at h
        obtain ⟨rfl, rfl, rfl⟩ := h
        exact ha
    cases cache with
    | none => exact hcomp _ rfl
    | some v =>
      obtain ⟨s, l, o⟩ := v
      simp only
      by_cases he : s = start
      · rw [if_pos he]
        exact ⟨(by rw [← he]; exact (hv s l o rfl).symm), hv⟩
      · rw [if_neg he]; exact hcomp _ rfl

def AllValid (H : HashFn) (chains : List AggrChain) (caches : List Cache) : Prop :=
  caches.length = chains.length ∧ ∀ (i : Nat) (c : AggrChain) (cache : Cache), chains[i]? = some c → caches[i]? = some cache → ValidCache H c cache

theorem allValid_fresh (H : HashFn) (chains : List AggrChain) : AllValid H chains (chains.map fun _ => none) := by
  refine ⟨by simp, ?_⟩
  intro i c cache _ hc
  show ValidCache H c cache
  have : cache = none := by
    simp only [List.getElem?_map, Option.map_eq_some_iff] at hc
    obtain ⟨_, _, h⟩ := hc; exact h.symm
  rw [this]; intro s l o h; cases h

theorem allValid_set (H : HashFn) (chains : List AggrChain) (caches : List Cache) (i : Nat) (c : AggrChain) (cache : Cache)
    (hv : AllValid H chains caches) (hc : chains[i]? = some c) (hn : ValidCache H c cache) : AllValid H chains (caches.set i cache) := by
  refine ⟨by simp [hv.1], ?_⟩
  intro j c' cache' hc' hcache'
  by_cases hij : i = j
  · subst hij
    rw [hc] at hc'; cases hc'
    rw [List.getElem?_set] at hcache'
    simp only [if_true] at hcache'
    split at hcache'
    · cases hcache'; exact hn
    · cases hcache'
  · rw [List.getElem?_set_ne hij] at hcache'
    exact hv.2 j c' cache' hc' hcache'

/-- **Repeatable, non-mutating verification.** Whatever verifications ran on the object before (any valid memo state),
a verification returns exactly what it returns on a freshly parsed object, and leaves a valid memo state. -/
theorem runMemo_eq_runPure (H : HashFn) (chains : List AggrChain) : ∀ (p : Prog α) (caches : List Cache),
    AllValid H chains caches → (runMemo H chains p caches).1 = runPure H chains p ∧ AllValid H chains (runMemo H chains p caches).2
  | .ret a, caches, hv => by simp [runMemo, runPure, hv]
  | .call i start k, caches, hv => by
    unfold runMemo runPure
    cases hc : chains[i]? with
    | none => simp only; exact runMemo_eq_runPure H chains _ caches hv
    | some c =>
      have hi : i < chains.length := by
        rcases List.getElem?_eq_some_iff.mp hc with ⟨h, _⟩; exact h
      have hi' : i < caches.length := by rw [hv.1]; exact hi
      have hcache : caches[i]? = some caches[i] := List.getElem?_eq_getElem hi'
      rw [hcache]
      simp only
      have ht := aggrMemo_transparent H c caches[i] start (hv.2 i c caches[i] hc hcache)
      rw [ht.1]
      exact runMemo_eq_runPure H chains _ _ (allValid_set H chains caches i c _ hv hc ht.2)

/-- the output of one operation on a fresh object -/
def freshOut (H : HashFn) (tree : Tlv) (chains : List AggrChain) : Op α → Out α
  | .verify p => .verdict (runPure H chains p)
  | .serialize => .bytes (encode tree)
  | .clone => .bytes (encode tree)

/-- **Every history behaves like fresh objects.** For every sequence of verifications (any policy, document hash,
level — any program over the chain outputs), serializations and clones on one object, each output is the one a freshly
parsed copy would give: serialization never changes, verdicts never depend on what ran before. -/
theorem history_eq_fresh (H : HashFn) (tree : Tlv) (chains : List AggrChain) : ∀ (ops : List (Op α)) (caches : List Cache),
    AllValid H chains caches → history H ⟨tree, chains, caches⟩ ops = ops.map (freshOut H tree chains)
  | [], _, _ => by simp [history]
  | op :: ops, caches, hv => by
    cases op with
    | verify p =>
      have h := runMemo_eq_runPure H chains p caches hv
      simp only [history, step, List.map_cons, freshOut, h.1]
      rw [history_eq_fresh H tree chains ops _ h.2]
    | serialize =>
      simp only [history, step, List.map_cons, freshOut]
      rw [history_eq_fresh H tree chains ops caches hv]
    | clone =>
      simp only [history, step, List.map_cons, freshOut, fresh]
      rw [history_eq_fresh H tree chains ops caches hv]

theorem history_from_parse (H : HashFn) (tree : Tlv) (chains : List AggrChain) (ops : List (Op α)) :
    history H (fresh tree chains) ops = ops.map (freshOut H tree chains) :=
  history_eq_fresh H tree chains ops _ (allValid_fresh H chains)

/-- a stale memo (an entry that is not what the chain computes from that level) is exactly what would break it:
non-vacuity of the validity hypothesis -/
example : ¬ ValidCache (fun _ _ => some [0]) ⟨0, [], [1, 2], 1, [⟨true, 0, .imprint 1 [7]⟩], [none]⟩ (some (0, 9, [9])) := by
  intro h
  have h1 := h 0 9 [9] rfl
  have h2 : aggrChain (fun _ _ => some [0]) ⟨0, [], [1, 2], 1, [⟨true, 0, .imprint 1 [7]⟩], [none]⟩ 0 = .ok (1, [1, 0]) := by rfl
  rw [h2] at h1
  cases h1

end KsiVerif.Props.C11
