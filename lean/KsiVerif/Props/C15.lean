import KsiVerif.Proofs.Ha
/-!
# C15 — HA service: first valid reply wins; error only when all endpoints fail;
configurations are consolidated field by field, independent of the order of the answers

Property theorems only.  The range predicates are the C functions of net_ha.c translated
expression by expression on every run (`KsiVerif.Gen.Ha`).
-/
namespace KsiVerif.Props.C15
open KsiVerif KsiVerif.Ha

/-- The translated range predicates are exactly the documented ranges: level 1..20,
period 100..20000 ms, requests 1..16000, calendar times from 2006-01-01 on. -/
theorem range_predicates_documented (v : Nat) :
    Gen.Ha.isMaxLevelValid v = decide (1 ≤ v ∧ v ≤ 20) ∧
    Gen.Ha.isAggrPeriodValid v = decide (100 ≤ v ∧ v ≤ 20000) ∧
    Gen.Ha.isMaxRequestsValid v = decide (1 ≤ v ∧ v ≤ 16000) ∧
    Gen.Ha.isCalendarTimeValid v = decide (1136073600 ≤ v) := by
  simp only [Gen.Ha.isMaxLevelValid, Gen.Ha.isAggrPeriodValid, Gen.Ha.isMaxRequestsValid,
    Gen.Ha.isCalendarTimeValid]
  refine ⟨?_, ?_, ?_, ?_⟩
  all_goals first | trivial | (rw [Bool.eq_iff_iff]; simp <;> omega)

/-- Closed form of the consolidation of any sequence of pushed configurations: per field the
largest / smallest of the values that are present, non-zero and in range — absent when there
is none. -/
theorem consolidate_closed_form (pushed : List Conf) :
    consolidateAll pushed =
      { maxLevel := (contribs Gen.Ha.isMaxLevelValid (pushed.map (·.maxLevel))).max?
        aggrPeriod := (contribs Gen.Ha.isAggrPeriodValid (pushed.map (·.aggrPeriod))).min?
        maxRequests := (contribs Gen.Ha.isMaxRequestsValid (pushed.map (·.maxRequests))).max?
        calFirst := (contribs Gen.Ha.isCalendarTimeValid (pushed.map (·.calFirst))).min?
        calLast := (contribs Gen.Ha.isCalendarTimeValid (pushed.map (·.calLast))).max? } := by
  unfold consolidateAll
  -- the fold over records is the record of the folds over fields
  have hrec : ∀ (l : List Conf) (z : Conf), l.foldl consolidate z =
      { maxLevel := (l.map (·.maxLevel)).foldl (fun a o => mx a (eff Gen.Ha.isMaxLevelValid o)) z.maxLevel
        aggrPeriod := (l.map (·.aggrPeriod)).foldl (fun a o => mn a (eff Gen.Ha.isAggrPeriodValid o)) z.aggrPeriod
        maxRequests := (l.map (·.maxRequests)).foldl (fun a o => mx a (eff Gen.Ha.isMaxRequestsValid o)) z.maxRequests
        calFirst := (l.map (·.calFirst)).foldl (fun a o => mn a (eff Gen.Ha.isCalendarTimeValid o)) z.calFirst
        calLast := (l.map (·.calLast)).foldl (fun a o => mx a (eff Gen.Ha.isCalendarTimeValid o)) z.calLast } := by
    intro l
    induction l with
    | nil => intro z; rfl
    | cons c cs ih =>
      intro z
      simp only [List.foldl_cons, List.map_cons]
      rw [ih]
      simp [consolidate, consMax_eq, consMin_eq]
  rw [hrec]
  simp only [foldl_mx, foldl_mn _ _ _ (by simp : (none : Option Nat) ≠ some 0)]
  congr 1 <;> (split <;> simp_all)

/-- The numeric result does not depend on the order in which the endpoints answer. -/
theorem consolidate_order_independent (l₁ l₂ : List Conf) (h : l₁.Perm l₂) :
    consolidateAll l₁ = consolidateAll l₂ := by
  rw [consolidate_closed_form, consolidate_closed_form]
  have hp : ∀ (valid : Nat → Bool) (f : Conf → Option Nat),
      (contribs valid (l₁.map f)).Perm (contribs valid (l₂.map f)) := by
    intro valid f
    exact (h.map f).filterMap _
  have hmax : ∀ {a b : List Nat}, a.Perm b → a.max? = b.max? := by
    intro a b hab
    cases ha : a.max? with
    | none =>
      have : a = [] := by simpa using ha
      subst this
      have : b = [] := hab.nil_eq.symm
      simp [this]
    | some m =>
      have ⟨hm, hle⟩ := List.max?_eq_some_iff.mp ha
      exact (List.max?_eq_some_iff.mpr ⟨hab.mem_iff.mp hm, fun x hx => hle x (hab.mem_iff.mpr hx)⟩).symm
  have hmin : ∀ {a b : List Nat}, a.Perm b → a.min? = b.min? := by
    intro a b hab
    cases ha : a.min? with
    | none =>
      have : a = [] := by simpa using ha
      subst this
      have : b = [] := hab.nil_eq.symm
      simp [this]
    | some m =>
      have ⟨hm, hle⟩ := List.min?_eq_some_iff.mp ha
      exact (List.min?_eq_some_iff.mpr ⟨hab.mem_iff.mp hm, fun x hx => hle x (hab.mem_iff.mpr hx)⟩).symm
  rw [hmax (hp _ (·.maxLevel)), hmin (hp _ (·.aggrPeriod)), hmax (hp _ (·.maxRequests)),
    hmin (hp _ (·.calFirst)), hmax (hp _ (·.calLast))]

/-- A request accepted by `n ≥ 1` endpoints, each of which delivers exactly one outcome, is
completed **exactly once**: with the first valid response if there is one, otherwise with the
first error. -/
theorem ha_completed_exactly_once (evs : List Ev) (h : 1 ≤ evs.length) :
    completions (run (start evs.length) evs) =
      [match firstResp evs with
       | some o => .response o
       | none => .failed ((errCodes evs).headD 0)] :=
  (run_waiting evs h).1

/-- Errors of the other endpoints surface only as separate error notices: every error when a
valid response exists, every error but the reported one otherwise. -/
theorem ha_errors_only_as_notices (evs : List Ev) (h : 1 ≤ evs.length) :
    (notices (run (start evs.length) evs)).Perm
      (match firstResp evs with | some _ => errCodes evs | none => (errCodes evs).tail) :=
  (run_waiting evs h).2

/-- After the first valid response, later responses are discarded and later errors are
notices only. -/
theorem ha_later_replies_discarded (evs : List Ev) (k : Nat) :
    completions (run ⟨.received, k⟩ evs) = [] ∧ notices (run ⟨.received, k⟩ evs) = errCodes evs :=
  run_received evs k

/-- The request fails only after *every* endpoint it was forwarded to has failed: while one
is outstanding and no valid response has arrived there is no completion. -/
theorem ha_error_only_when_all_failed (evs : List Ev) (n : Nat) (hno : firstResp evs = none)
    (hl : evs.length < n) : completions (run (start n) evs) = [] :=
  run_no_early_failure evs (start n) hno (by simp [start]) (by simpa [start] using hl)

/-! Non-vacuity. -/
example : consolidateAll [{ maxLevel := some 25, aggrPeriod := some 400 }, { maxLevel := some 7, aggrPeriod := some 50 },
    { maxLevel := some 3, calLast := some 1500000000 }] =
    { maxLevel := some 7, aggrPeriod := some 400, calLast := some 1500000000 } := by decide
example : run (start 3) [.err 0 0x202, .resp 1, .err 2 0x203] =
    [.notice 0x202, .response 1, .notice 0x203] := by decide

end KsiVerif.Props.C15
