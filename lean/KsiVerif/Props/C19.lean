import KsiVerif.Proofs.Alloc
/-!
# C19 — a failed allocation yields an error, never a crash, leak or corruption (the modelled core)

PARTIAL by nature: the property is about what the C code does with pointers on each of several thousand hand-written cleanup
paths. What is proved here is proved about the model of `Model/Alloc.lean` — the allocation funnel with an explicit heap, and on
top of it list.c (`KSI_List_new`, `appendElement`, `KSI_List_free`) and tlv.c (`KSI_TLV_parseBlob`, `encodeAsNestedTlvs` /
`KSI_TLV_getNestedList`, `KSI_TLV_free`) as two operations, `lstOp` and `tlvpOp`. For **every fault plan** (any set of refused
requests, not only single faults), every size and every element tree:

* nothing is leaked and nothing is released twice (`*_no_leak_no_double_free`);
* the operation fails only when a request was refused, and then the refused request is the last one it made
  (`*_error_only_after_a_refusal`);
* it succeeds exactly when every one of its `N` requests is granted, `N` depending on the input alone
  (`*_succeeds_iff_all_granted`; `N` = `lstCount n`, `tlvpCount t`) — so every allocation of these operations is essential;
* after any faulty run the same operation without faults succeeds and again leaves the heap as it was (`*_repeat_after_fault`).

The correspondence check (harness/exec_c19.c, ops `lst`, `tlvp`) compares, for every single fault index, the implementation's
status with the model's, the number of allocations of the fault-free run with `N`, and requires the implementation's own
accounting of live SDK blocks to return to zero. All other catalogue operations are judged by the property itself on the
implementation's output (`entrySpec` in Drv/C19.lean) under the sanitizers; nothing is proved about them.
-/
namespace KsiVerif.Props.C19
open KsiVerif.Alloc

/-- success ⇔ all `N` requests granted, from the three facts every operation lemma provides -/
theorem ok_iff {f : Fail} {h h1 : Heap} {ok : Bool} {N : Nat} (t : Tr f h h1 ok) (b : h1.count ≤ h.count + N)
    (c : ok = true → h1.count = h.count + N) :
    ok = true ↔ ∀ k, h.count < k → k ≤ h.count + N → f k = false := by
  constructor
  · intro hok k a bb
    subst hok
    exact t.all_granted k a (by rw [c rfl]; exact bb)
  · intro hall
    cases hk : ok with
    | true => rfl
    | false =>
      have ⟨x, y⟩ := t.lastFail hk
      have := hall h1.count x b
      rw [this] at y; cases y

theorem owned_nil (h : Heap) : Owned [] h.live h := by unfold Owned; simp

/-! ## the list operation -/

theorem lst_no_leak_no_double_free (f : Fail) (n : Nat) (h : Heap) (hi : Inv h) :
    (lstOp f n h).2.live.Perm h.live ∧ (lstOp f n h).2.bad = h.bad ∧ Inv (lstOp f n h).2 := by
  have ⟨t, o, _, _⟩ := lstOp_spec n h hi (owned_nil h) (lstOp f n h).1 (lstOp f n h).2 rfl
  exact ⟨by simpa [Owned] using o, t.bad, t.inv⟩

theorem lst_succeeds_iff_all_granted (f : Fail) (n : Nat) (h : Heap) (hi : Inv h) :
    (lstOp f n h).1 = true ↔ ∀ k, h.count < k → k ≤ h.count + lstCount n → f k = false := by
  have ⟨t, _, b, c⟩ := lstOp_spec n h hi (owned_nil h) (lstOp f n h).1 (lstOp f n h).2 rfl
  exact ok_iff t b c

theorem lst_error_only_after_a_refusal (f : Fail) (n : Nat) (h : Heap) (hi : Inv h) (he : (lstOp f n h).1 = false) :
    h.count < (lstOp f n h).2.count ∧ (lstOp f n h).2.count ≤ h.count + lstCount n ∧ f (lstOp f n h).2.count = true ∧
      ∀ k, h.count < k → k < (lstOp f n h).2.count → f k = false := by
  have ⟨t, _, b, _⟩ := lstOp_spec n h hi (owned_nil h) (lstOp f n h).1 (lstOp f n h).2 rfl
  have ⟨x, y⟩ := t.lastFail he
  exact ⟨x, b, y, t.before⟩

/-- a single fault: the operation fails exactly when the fault is one of its `lstCount n` requests -/
theorem lst_single_fault (k n : Nat) (h : Heap) (hi : Inv h) :
    (lstOp (only k) n h).1 = true ↔ ¬ (h.count < k ∧ k ≤ h.count + lstCount n) := by
  rw [lst_succeeds_iff_all_granted _ _ _ hi]
  constructor
  · intro hall ⟨a, b⟩
    have := hall k a b
    simp [only] at this
  · intro hn j a b
    simp only [only, beq_eq_false_iff_ne, ne_eq]
    intro hjk; subst hjk; exact hn ⟨a, b⟩

theorem lst_repeat_after_fault (f : Fail) (n : Nat) (h : Heap) (hi : Inv h) :
    (lstOp never n (lstOp f n h).2).1 = true ∧ (lstOp never n (lstOp f n h).2).2.live.Perm h.live ∧
      (lstOp never n (lstOp f n h).2).2.bad = h.bad := by
  have ⟨p1, b1, i1⟩ := lst_no_leak_no_double_free f n h hi
  have ⟨p2, b2, _⟩ := lst_no_leak_no_double_free never n _ i1
  exact ⟨(lst_succeeds_iff_all_granted never n _ i1).mpr (fun _ _ _ => rfl), p2.trans p1, by rw [b2, b1]⟩

/-! ## the TLV operation -/

theorem tlvp_no_leak_no_double_free (f : Fail) (t : TT) (h : Heap) (hi : Inv h) :
    (tlvpOp f t h).2.live.Perm h.live ∧ (tlvpOp f t h).2.bad = h.bad ∧ Inv (tlvpOp f t h).2 := by
  have ⟨tr, o, _, _⟩ := tlvpOp_spec t h hi (owned_nil h) (tlvpOp f t h).1 (tlvpOp f t h).2 rfl
  exact ⟨by simpa [Owned] using o, tr.bad, tr.inv⟩

theorem tlvp_succeeds_iff_all_granted (f : Fail) (t : TT) (h : Heap) (hi : Inv h) :
    (tlvpOp f t h).1 = true ↔ ∀ k, h.count < k → k ≤ h.count + tlvpCount t → f k = false := by
  have ⟨tr, _, b, c⟩ := tlvpOp_spec t h hi (owned_nil h) (tlvpOp f t h).1 (tlvpOp f t h).2 rfl
  exact ok_iff tr b c

theorem tlvp_error_only_after_a_refusal (f : Fail) (t : TT) (h : Heap) (hi : Inv h) (he : (tlvpOp f t h).1 = false) :
    h.count < (tlvpOp f t h).2.count ∧ (tlvpOp f t h).2.count ≤ h.count + tlvpCount t ∧ f (tlvpOp f t h).2.count = true ∧
      ∀ k, h.count < k → k < (tlvpOp f t h).2.count → f k = false := by
  have ⟨tr, _, b, _⟩ := tlvpOp_spec t h hi (owned_nil h) (tlvpOp f t h).1 (tlvpOp f t h).2 rfl
  have ⟨x, y⟩ := tr.lastFail he
  exact ⟨x, b, y, tr.before⟩

theorem tlvp_single_fault (k : Nat) (t : TT) (h : Heap) (hi : Inv h) :
    (tlvpOp (only k) t h).1 = true ↔ ¬ (h.count < k ∧ k ≤ h.count + tlvpCount t) := by
  rw [tlvp_succeeds_iff_all_granted _ _ _ hi]
  constructor
  · intro hall ⟨a, b⟩
    have := hall k a b
    simp [only] at this
  · intro hn j a b
    simp only [only, beq_eq_false_iff_ne, ne_eq]
    intro hjk; subst hjk; exact hn ⟨a, b⟩

theorem tlvp_repeat_after_fault (f : Fail) (t : TT) (h : Heap) (hi : Inv h) :
    (tlvpOp never t (tlvpOp f t h).2).1 = true ∧ (tlvpOp never t (tlvpOp f t h).2).2.live.Perm h.live ∧
      (tlvpOp never t (tlvpOp f t h).2).2.bad = h.bad := by
  have ⟨p1, b1, i1⟩ := tlvp_no_leak_no_double_free f t h hi
  have ⟨p2, b2, _⟩ := tlvp_no_leak_no_double_free never t _ i1
  exact ⟨(tlvp_succeeds_iff_all_granted never t _ i1).mpr (fun _ _ _ => rfl), p2.trans p1, by rw [b2, b1]⟩

/-- the fault-free run makes exactly `N` requests -/
theorem fault_free_counts (n : Nat) (t : TT) (h : Heap) (hi : Inv h) :
    (lstOp never n h).2.count = h.count + lstCount n ∧ (tlvpOp never t h).2.count = h.count + tlvpCount t := by
  have ⟨_, _, _, c1⟩ := lstOp_spec (f := never) n h hi (owned_nil h) _ _ rfl
  have ⟨_, _, _, c2⟩ := tlvpOp_spec (f := never) t h hi (owned_nil h) _ _ rfl
  exact ⟨c1 ((lst_succeeds_iff_all_granted never n h hi).mpr (fun _ _ _ => rfl)),
         c2 ((tlvp_succeeds_iff_all_granted never t h hi).mpr (fun _ _ _ => rfl))⟩

/-! ## the hypotheses are met, the statements are not vacuous -/

/-- the empty heap, and a heap with blocks of an unrelated owner, satisfy the invariant -/
example : Inv {} ∧ Inv { count := 7, live := [5, 2], bad := false } := by
  refine ⟨⟨List.nodup_nil, fun _ h => by cases h⟩, ⟨by decide, fun b hb => ?_⟩⟩
  simp at hb; rcases hb with rfl | rfl <;> decide

/-- a list of 12 integers: 16 requests; refusing the 14th (the second array) fails the operation with the other owner's blocks
untouched; refusing the 17th does not concern it -/
example : lstCount 12 = 16 ∧ (lstOp (only 14) 12 {}).1 = false ∧ (lstOp (only 14) 12 {}).2.live = [] ∧ (lstOp (only 17) 12 {}).1 = true ∧
    (lstOp (only 21) 12 { count := 7, live := [5, 2], bad := false }).2.live = [5, 2] := by decide

/-- a composite with two children, one of them composite with one child: 2 + (2+2+1) + (2+1+1) = 11 requests -/
example : tlvpCount (.node 0x800 [.node 0x801 [.node 1 []], .node 5 []]) = 11 ∧
    (tlvpOp (only 9) (.node 0x800 [.node 0x801 [.node 1 []], .node 5 []]) {}).1 = false ∧
    (tlvpOp (only 9) (.node 0x800 [.node 0x801 [.node 1 []], .node 5 []]) {}).2 = { count := 9, live := [], bad := false } := by decide

end KsiVerif.Props.C19
