import KsiVerif.Spec.Hmac
import KsiVerif.Model.PduMac
/-!
# C06 — PDUs are HMAC-authenticated: requests carry a correct MAC, responses need one

Property theorems only.  Part 1: hmac.c computes RFC 2104.
-/
namespace KsiVerif.Props.C06
open KsiVerif KsiVerif.Hmac

theorem xorPad_eq (pad : UInt8) (k : Bytes) (B : Nat) :
    xorPad pad k B = (k ++ List.replicate (B - k.length) 0).map (· ^^^ pad) := by
  unfold xorPad
  rw [List.map_append, List.map_replicate]
  congr 1
  · apply List.map_congr_left
    intro a _
    exact UInt8.xor_comm pad a
  · congr 1
    exact UInt8.zero_xor.symm

/-- **`KSI_HMAC_create` is RFC 2104** for every key of 1..65535 octets (shorter, equal to and longer
than the block), every text and every hash function with a digest not longer than its block -/
theorem hmac_is_rfc2104 (H : HashChain.HashFn) (hash : Bytes → Bytes) (algo : Nat) (key text : Bytes)
    (hH : ∀ d, H algo d = some (hash d)) (hk : 1 ≤ key.length ∧ key.length ≤ 0xffff)
    (hB : 0 < blockSize algo ∧ blockSize algo ≤ MAX_BUF_LEN) (hL : Gen.hashLen algo ≤ MAX_BUF_LEN)
    (hd : ∀ d, (hash d).length ≤ blockSize algo) :
    create H algo key text = .ok (UInt8.ofNat algo :: rfc2104 hash (blockSize algo) key text) := by
  unfold create hopen
  rw [if_neg (by omega), if_neg (by omega), if_neg (by omega)]
  by_cases hlong : key.length > blockSize algo
  · simp only [hlong, if_true, hH]
    rw [if_neg (by have := hd key; omega)]
    simp only [hadd, hclose, hH, rfc2104, k0, hlong, if_true, xorPad_eq, List.append_assoc]
  · simp only [hlong, if_false]
    simp only [hadd, hclose, hH, rfc2104, k0, hlong, if_false, xorPad_eq, List.append_assoc]

/-- feeding the text in pieces gives the same MAC -/
theorem hmac_chunking (h : Hasher) (a b : Bytes) :
    (match hadd h a with | .ok h1 => hadd h1 b | .error e => .error e) = hadd h (a ++ b) := by
  unfold hadd
  cases h.inner with
  | none => rfl
  | some x => simp [List.append_assoc]

/-- a closed hasher that is reset is the freshly opened one -/
theorem hmac_reset_after_close (H : HashChain.HashFn) (algo : Nat) (key : Bytes) (h0 h1 : Hasher) (imp : Bytes) (d : Bytes)
    (ho : hopen H algo key = .ok h0) (h : Hasher) (ha : hadd h0 d = .ok h) (hc : hclose H h = .ok (h1, imp)) :
    hreset h1 = h0 := by
  unfold hopen at ho
  split at ho
  · cases ho
  · split at ho
    · cases ho
    · split at ho
      · cases ho
      · simp only at ho
        split at ho
        · cases ho
        · rename_i k _
          cases ho
          unfold hadd at ha
          simp only at ha
          cases ha
          unfold hclose at hc
          simp only at hc
          split at hc
          · cases hc
          · split at hc
            · cases hc
            · cases hc; rfl

end KsiVerif.Props.C06

/-! Part 2: which bytes of a PDU are authenticated, and that nothing is used before that -/
namespace KsiVerif.Props.C06
open KsiVerif KsiVerif.Hmac KsiVerif.PduMac KsiVerif.Template

theorem hopen_error_nonzero (H : HashChain.HashFn) (alg : Nat) (key : Bytes) (e : Nat)
    (h : hopen H alg key = .error e) : e ≠ 0 := by
  unfold hopen at h
  split at h
  · cases h; decide
  · split at h
    · cases h; decide
    · split at h
      · cases h; decide
      · simp only at h
        split at h
        · rename_i e' hk
          cases h
          split at hk
          · split at hk
            · cases hk; decide
            · split at hk
              · cases hk; decide
              · cases hk
          · cases hk
        · cases h

theorem create_error_nonzero (H : HashChain.HashFn) (alg : Nat) (key d : Bytes) (e : Nat)
    (h : Hmac.create H alg key d = .error e) : e ≠ 0 := by
  unfold Hmac.create at h
  cases ho : hopen H alg key with
  | error e' => rw [ho] at h; cases h; exact hopen_error_nonzero H alg key e ho
  | ok hs =>
    rw [ho] at h
    simp only at h
    cases ha : hadd hs d with
    | error e' =>
      rw [ha] at h; cases h
      unfold hadd at ha
      split at ha
      · cases ha
      · cases ha; decide
    | ok hs2 =>
      rw [ha] at h
      simp only at h
      cases hc : hclose H hs2 with
      | error e' =>
        rw [hc] at h; cases h
        unfold hclose at hc
        split at hc
        · cases hc; decide
        · split at hc
          · cases hc; decide
          · split at hc
            · cases hc; decide
            · cases hc
      | ok r => rw [hc] at h; cases h

theorem calc_error_nonzero (H : HashChain.HashFn) (f : Family) (ver alg : Nat) (key raw : Bytes) (w : View) (e : Nat)
    (h : calcHmac H f ver alg key raw w = .error e) : e ≠ 0 := by
  unfold calcHmac at h
  simp only [St.INVALID_ARGUMENT, St.UNKNOWN_ERROR, St.INVALID_FORMAT] at h
  repeat' split at h
  all_goals first
    | (cases h; decide)
    | exact create_error_nonzero _ _ _ _ _ h

/-- **Verification succeeds exactly when** the PDU has a header and a MAC, the MAC's algorithm is
the pinned one (if one is pinned), and the MAC equals the HMAC the library computes for this PDU -/
theorem verify_ok_iff (H : HashChain.HashFn) (f : Family) (ver : Nat) (confAlg : Option Nat) (key raw : Bytes) (w : View) :
    verify H f ver confAlg key raw w = 0 ↔
      w.header = true ∧ ∃ mac, w.hmac = some mac ∧ (confAlg = none ∨ confAlg = some (mac.headD 0).toNat) ∧
        calcHmac H f ver (mac.headD 0).toNat key raw w = .ok mac := by
  unfold verify
  cases hh : w.header with
  | false => simp [St.INVALID_FORMAT]
  | true =>
    simp only [Bool.not_true, Bool.false_eq_true, if_false, true_and]
    cases hm : w.hmac with
    | none => simp [St.INVALID_FORMAT]
    | some mac =>
      simp only [Option.some.injEq, exists_eq_left']
      have hcalc : (match calcHmac H f ver (mac.headD 0).toNat key raw w with
          | .error e => e
          | .ok actual => if (actual == mac) = true then 0 else HMAC_MISMATCH) = 0 ↔
          calcHmac H f ver (mac.headD 0).toNat key raw w = .ok mac := by
        cases hk : calcHmac H f ver (mac.headD 0).toNat key raw w with
        | error e =>
          simp only [reduceCtorEq, iff_false]
          exact calc_error_nonzero _ _ _ _ _ _ _ _ hk
        | ok actual =>
          simp only [Except.ok.injEq]
          by_cases he : actual = mac
          · simp [he]
          · have : (actual == mac) = false := by simpa using he
            simp [this, he, HMAC_MISMATCH]
      cases hc : confAlg with
      | none =>
        simp only [Option.isSome_none, Bool.false_and, Bool.false_eq_true, if_false, true_or, true_and]
        exact hcalc
      | some c =>
        by_cases hca : c = (mac.headD 0).toNat
        · subst hca
          simp only [Option.isSome_some, Bool.true_and, bne_self_eq_false, Bool.false_eq_true, if_false, or_true, true_and]
          exact hcalc
        · have hca' : ¬ c = ((List.head? mac).getD 0).toNat := by simpa using hca
          simp [HMAC_ALGORITHM_MISMATCH, hca']

/-- **PDU v2: the authenticated range is everything before the digest** — the MAC is compared with
RFC 2104 over the received bytes up to the last `hashLen` octets, whatever else was parsed -/
theorem v2_authenticated_range (H : HashChain.HashFn) (f : Family) (alg : Nat) (key raw : Bytes) (w : View) (mac : Bytes)
    (h : calcHmac H f 2 alg key raw w = .ok mac) :
    Hmac.create H alg key (raw.take (raw.length - Gen.hashLen alg)) = .ok mac ∧ w.header = true ∧
      (w.request = true ∨ w.response = true ∨ w.confRequest = true ∨ w.confResponse = true) := by
  unfold calcHmac at h
  simp only [show (2 : Nat) ≠ 1 by decide, if_false, if_true] at h
  cases hh : w.header with
  | false => simp [hh] at h
  | true =>
    simp only [hh, Bool.not_true, Bool.false_eq_true, if_false] at h
    cases hcr : w.confRequest <;> cases hcs : w.confResponse <;> cases hr : w.request <;> cases hs : w.response <;>
      simp_all

/-- **PDU v1: the authenticated range is the header element followed by the payload element** -/
theorem v1_authenticated_range (H : HashChain.HashFn) (f : Family) (alg : Nat) (key raw : Bytes) (w : View) (mac : Bytes)
    (h : calcHmac H f 1 alg key raw w = .ok mac) :
    ∃ hdr payload pt, childRaw raw 0x01 = some hdr ∧ childRaw raw pt = some payload ∧
      (pt = (tags f true).1 ∨ pt = (tags f true).2) ∧ Hmac.create H alg key (hdr ++ payload) = .ok mac := by
  unfold calcHmac at h
  simp only [if_true] at h
  cases hh : w.header with
  | false => simp [hh] at h
  | true =>
    simp only [hh, Bool.not_true, Bool.false_eq_true, if_false] at h
    cases hr : w.request with
    | true =>
      simp only [hr, if_true] at h
      cases h1 : childRaw raw 0x01 with
      | none => simp [h1] at h
      | some hdr =>
        cases h2 : childRaw raw (tags f true).1 with
        | none => simp [h1, h2] at h
        | some pl =>
          simp only [h1, h2] at h
          exact ⟨hdr, pl, _, rfl, h2, Or.inl rfl, h⟩
    | false =>
      cases hs : w.response with
      | true =>
        simp only [hr, hs, Bool.false_eq_true, if_false, if_true] at h
        cases h1 : childRaw raw 0x01 with
        | none => simp [h1] at h
        | some hdr =>
          cases h2 : childRaw raw (tags f true).2 with
          | none => simp [h1, h2] at h
          | some pl =>
            simp only [h1, h2] at h
            exact ⟨hdr, pl, _, rfl, h2, Or.inr rfl, h⟩
      | false => simp [hr, hs] at h

/-- **Nothing is delivered before authentication**: when the blocking client hands on the parsed
content of a reply, that reply had no error element, had header and MAC, and its MAC verified
under the endpoint key (and the pinned algorithm) over the received bytes -/
theorem delivered_only_if_authentic (H : HashChain.HashFn) (c : Cfg) (f : Family) (ver : Nat) (confAlg : Option Nat)
    (key raw : Bytes) (vs : List (Nat × Val)) (h : deliver H c f ver confAlg key raw = .ok vs) :
    ∃ rootTag, verify H f ver confAlg key raw (view c.tabs f rootTag vs) = 0 ∧
      fieldOf c.tabs (pduTable f rootTag) (errorTag f rootTag) vs = none := by
  unfold deliver at h
  simp only at h
  split at h
  · cases h
  · rename_i vs' hp
    split at h
    · cases h
    · rename_i herr
      unfold gate at h
      split at h
      · rename_i hv
        cases h
        exact ⟨_, hv, herr⟩
      · cases h

/-- a changed digest is refused: if a v2 PDU verifies, the same bytes with any other digest do not -/
theorem v2_changed_digest_refused (H : HashChain.HashFn) (f : Family) (confAlg : Option Nat) (key raw raw' : Bytes) (w w' : View)
    (mac mac' : Bytes) (hm : w.hmac = some mac) (hm' : w'.hmac = some mac') (hne : mac' ≠ mac) (halg : mac'.headD 0 = mac.headD 0)
    (hpre : raw'.take (raw'.length - Gen.hashLen (mac.headD 0).toNat) = raw.take (raw.length - Gen.hashLen (mac.headD 0).toNat))
    (hok : verify H f 2 confAlg key raw w = 0) : verify H f 2 confAlg key raw' w' ≠ 0 := by
  intro hok'
  have h1 := (verify_ok_iff H f 2 confAlg key raw w).mp hok
  have h2 := (verify_ok_iff H f 2 confAlg key raw' w').mp hok'
  obtain ⟨_, m, hmm, _, hc⟩ := h1
  obtain ⟨_, m', hmm', _, hc'⟩ := h2
  rw [hm] at hmm; cases hmm
  rw [hm'] at hmm'; cases hmm'
  have a1 := (v2_authenticated_range H f _ key raw w _ hc).1
  have a2 := (v2_authenticated_range H f _ key raw' w' _ hc').1
  rw [halg, hpre, a1] at a2
  cases a2
  exact hne rfl

/-- … and a change inside the authenticated range is accepted only together with an HMAC collision:
two different texts with the same MAC under the key -/
theorem v2_changed_range_needs_collision (H : HashChain.HashFn) (f : Family) (confAlg : Option Nat) (key raw raw' : Bytes)
    (w w' : View) (mac : Bytes) (hm : w.hmac = some mac) (hm' : w'.hmac = some mac)
    (hok : verify H f 2 confAlg key raw w = 0) (hok' : verify H f 2 confAlg key raw' w' = 0) :
    Hmac.create H (mac.headD 0).toNat key (raw.take (raw.length - Gen.hashLen (mac.headD 0).toNat)) =
      Hmac.create H (mac.headD 0).toNat key (raw'.take (raw'.length - Gen.hashLen (mac.headD 0).toNat)) := by
  obtain ⟨_, m, hmm, _, hc⟩ := (verify_ok_iff H f 2 confAlg key raw w).mp hok
  obtain ⟨_, m', hmm', _, hc'⟩ := (verify_ok_iff H f 2 confAlg key raw' w').mp hok'
  rw [hm] at hmm; cases hmm
  rw [hm'] at hmm'; cases hmm'
  rw [(v2_authenticated_range H f _ key raw w _ hc).1, (v2_authenticated_range H f _ key raw' w' _ hc').1]

end KsiVerif.Props.C06
