import KsiVerif.Model.VerifyPolicy
import KsiVerif.Proofs.Verify
/-! # C01 — internal verification accepts exactly the internally consistent signatures -/
namespace KsiVerif.Props.C01
open KsiVerif KsiVerif.HashChain KsiVerif.Policy KsiVerif.Verify

/-- the tree the library was built with (regenerated on every run) is the one the proofs below walk -/
theorem internal_tree : Gen.policy_internal = some [
    .and [.or [.basic 25], .or [.basic 26, .basic 34, .basic 27]],
    .basic 3, .basic 1,
    .and [.or [.basic 47], .or [.basic 48, .basic 49, .basic 50]],
    .basic 2, .basic 4, .basic 0, .basic 7, .basic 8, .basic 5, .basic 6,
    .and [.or [.basic 17], .or [.basic 18, .basic 20, .basic 16, .basic 22, .basic 15,
      .and [.or [.basic 51, .and [.or [.basic 11], .or [.basic 12, .basic 9, .basic 10]]],
            .or [.basic 52, .basic 54, .basic 55]]]]] := rfl

section names
variable (H : HashFn) (s : Sig) (x : VCtx)
theorem n0 : ρ H s x 0 = rule H s x "AggregationChainHashAlgorithmVerification" := rfl
theorem n1 : ρ H s x 1 = rule H s x "AggregationChainInputHashAlgorithmVerification" := rfl
theorem n2 : ρ H s x 2 = rule H s x "AggregationChainInputHashVerification" := rfl
theorem n3 : ρ H s x 3 = rule H s x "AggregationChainInputLevelVerification" := rfl
theorem n4 : ρ H s x 4 = rule H s x "AggregationChainMetaDataVerification" := rfl
theorem n5 : ρ H s x 5 = rule H s x "AggregationHashChainConsistency" := rfl
theorem n6 : ρ H s x 6 = rule H s x "AggregationHashChainIndexConsistency" := rfl
theorem n7 : ρ H s x 7 = rule H s x "AggregationHashChainIndexContinuation" := rfl
theorem n8 : ρ H s x 8 = rule H s x "AggregationHashChainTimeConsistency" := rfl
theorem n9 : ρ H s x 9 = rule H s x "CalendarAuthenticationRecordAggregationHash" := rfl
theorem n10 : ρ H s x 10 = rule H s x "CalendarAuthenticationRecordAggregationTime" := rfl
theorem n11 : ρ H s x 11 = rule H s x "CalendarAuthenticationRecordDoesNotExist" := rfl
theorem n12 : ρ H s x 12 = rule H s x "CalendarAuthenticationRecordExistence" := rfl
theorem n15 : ρ H s x 15 = rule H s x "CalendarChainHashAlgorithmObsoleteAtPubTime" := rfl
theorem n16 : ρ H s x 16 = rule H s x "CalendarHashChainAggregationTime" := rfl
theorem n17 : ρ H s x 17 = rule H s x "CalendarHashChainDoesNotExist" := rfl
theorem n18 : ρ H s x 18 = rule H s x "CalendarHashChainExistence" := rfl
theorem n20 : ρ H s x 20 = rule H s x "CalendarHashChainInputHashVerification" := rfl
theorem n22 : ρ H s x 22 = rule H s x "CalendarHashChainRegistrationTime" := rfl
theorem n25 : ρ H s x 25 = rule H s x "DocumentHashDoesNotExist" := rfl
theorem n26 : ρ H s x 26 = rule H s x "DocumentHashExistence" := rfl
theorem n27 : ρ H s x 27 = rule H s x "DocumentHashVerification" := rfl
theorem n34 : ρ H s x 34 = rule H s x "InputHashAlgorithmVerification" := rfl
theorem n47 : ρ H s x 47 = rule H s x "Rfc3161DoesNotExist" := rfl
theorem n48 : ρ H s x 48 = rule H s x "Rfc3161Existence" := rfl
theorem n49 : ρ H s x 49 = rule H s x "Rfc3161RecordHashAlgorithmVerification" := rfl
theorem n50 : ρ H s x 50 = rule H s x "Rfc3161RecordOutputHashAlgorithmVerification" := rfl
theorem n51 : ρ H s x 51 = rule H s x "SignatureDoesNotContainPublication" := rfl
theorem n52 : ρ H s x 52 = rule H s x "SignaturePublicationRecordExistence" := rfl
theorem n54 : ρ H s x 54 = rule H s x "SignaturePublicationRecordPublicationHash" := rfl
theorem n55 : ρ H s x 55 = rule H s x "SignaturePublicationRecordPublicationTime" := rfl
end names

section groups
variable (H : HashFn) (s : Sig) (x : VCtx)

theorem bOk (id : Nat) : (evalRule (ρ H s x) (.basic id)).isOk ↔ okB (ρ H s x id) := basic_isOk _ _
theorem bNa (id : Nat) : (evalRule (ρ H s x) (.basic id)).isNa ↔ naB (ρ H s x id) := basic_isNa _ _

/-- GEN-04 / GEN-01 group: no document hash given, or it is the signature's input hash -/
theorem docGroup_ok :
    (evalRule (ρ H s x) (.and [.or [.basic 25], .or [.basic 26, .basic 34, .basic 27]])).isOk ↔
      ∀ d, x.docHash = some d → imprintAlgo s.docHash = imprintAlgo d ∧ s.docHash = d := by
  rw [evalRule_and, evalList_or2_ok _ _ _ rfl, evalRule_or, evalList_single, evalRule_or,
    evalList_and_ok _ _ (by simp) (by simp [Rule.isOr])]
  simp only [List.mem_cons, List.not_mem_nil, or_false, forall_eq_or_imp, forall_eq, bOk, bNa, n25, n26, n34, n27]
  rw [(r_docNotExist H s x).1, (r_docNotExist H s x).2, r_docExist]
  cases hd : x.docHash with
  | none => simp
  | some d =>
    rw [r_docAlgo H s x d hd, r_docHash H s x d hd]
    simp

/-- legacy record group (INT-14, INT-17) -/
theorem rfcGroup_ok :
    (evalRule (ρ H s x) (.and [.or [.basic 47], .or [.basic 48, .basic 49, .basic 50]])).isOk ↔
      ∀ r, s.rfc = some r → algoAlive (asAlgo r.sigAlgo) (asTime r.time) ∧ algoAlive (asAlgo r.tstAlgo) (asTime r.time) ∧
        algoAlive (imprintAlgo (firstInput s)) (asTime r.time) := by
  rw [evalRule_and, evalList_or2_ok _ _ _ rfl, evalRule_or, evalList_single, evalRule_or,
    evalList_and_ok _ _ (by simp) (by simp [Rule.isOr])]
  simp only [List.mem_cons, List.not_mem_nil, or_false, forall_eq_or_imp, forall_eq, bOk, bNa, n47, n48, n49, n50]
  rw [(r_rfcNotExist H s x).1, (r_rfcNotExist H s x).2, r_rfcExist]
  cases hr : s.rfc with
  | none => simp
  | some r =>
    rw [r_rfcAlgos H s x r hr, r_rfcOutAlgo H s x r hr]
    simp [and_assoc]

/-- calendar authentication record sub-group (INT-08, INT-06) -/
theorem authGroup_ok (c : CalChain) (hc : s.cal = some c) :
    (evalRule (ρ H s x) (.and [.or [.basic 11], .or [.basic 12, .basic 9, .basic 10]])).isOk ↔
      ∀ p, s.auth = some p → calRoot H c = .ok p.imprint ∧ c.pubTime = p.time := by
  rw [evalRule_and, evalList_or2_ok _ _ _ rfl, evalRule_or, evalList_single, evalRule_or,
    evalList_and_ok _ _ (by simp) (by simp [Rule.isOr])]
  simp only [List.mem_cons, List.not_mem_nil, or_false, forall_eq_or_imp, forall_eq, bOk, bNa, n11, n12, n9, n10]
  rw [(r_authNotExist H s x).1, (r_authNotExist H s x).2, r_authExist]
  cases hp : s.auth with
  | none => simp
  | some p =>
    rw [r_authHash H s x c hc p hp, r_authTime H s x c hc p hp]
    simp

/-- publication record / authentication record group (INT-09, INT-07, INT-08, INT-06) -/
theorem anchorGroup_ok (c : CalChain) (hc : s.cal = some c) :
    (evalRule (ρ H s x) (.and [.or [.basic 51, .and [.or [.basic 11], .or [.basic 12, .basic 9, .basic 10]]],
        .or [.basic 52, .basic 54, .basic 55]])).isOk ↔
      ((∀ p, s.pub = some p → calRoot H c = .ok p.imprint ∧ c.pubTime = p.time) ∧
       (s.pub = none → ∀ p, s.auth = some p → calRoot H c = .ok p.imprint ∧ c.pubTime = p.time)) := by
  rw [evalRule_and, evalList_or2_ok _ _ _ rfl]
  rw [evalRule_or, evalRule_or, evalList_and_ok _ [.basic 51, _] (by simp) (by simp [Rule.isOr]),
    evalList_and_ok _ [.basic 52, _, _] (by simp) (by simp [Rule.isOr])]
  simp only [List.mem_cons, List.not_mem_nil, or_false, forall_eq_or_imp, forall_eq, bOk, n51, n52, n54, n55]
  rw [authGroup_ok H s x c hc, (r_pubNotExist H s x).1, r_pubExist]
  cases hp : s.pub with
  | none => simp
  | some p =>
    rw [r_pubHash H s x c hc p hp, r_pubTime H s x c hc p hp]
    have hna : (evalList (ρ H s x) [.basic 51, .and [.or [.basic 11], .or [.basic 12, .basic 9, .basic 10]]]).isNa := by
      apply evalList_and2_na _ _ _ rfl
      rw [bNa, n51, (r_pubNotExist H s x).2, hp]; simp
    simp [hna]

/-- calendar group (INT-03, 04, 05, 16 and the anchors) -/
theorem calGroup_ok :
    (evalRule (ρ H s x) (.and [.or [.basic 17], .or [.basic 18, .basic 20, .basic 16, .basic 22, .basic 15,
      .and [.or [.basic 51, .and [.or [.basic 11], .or [.basic 12, .basic 9, .basic 10]]],
            .or [.basic 52, .basic 54, .basic 55]]]])).isOk ↔
      ∀ c, s.cal = some c →
        consistency H s.chains none 0 = .ok c.inputHash ∧
        (∃ a, s.chains.head? = some a ∧ c.aggrTime.getD c.pubTime = a.time) ∧
        calTime (c.links.map (·.isLeft)) c.pubTime = .ok (c.aggrTime.getD c.pubTime) ∧
        (∀ l ∈ c.links, l.isLeft = true → checkAlgoAt (l.algo : Int) (asTime c.pubTime) ≠ HASH_ALGORITHM_OBSOLETE) ∧
        (∀ p, s.pub = some p → calRoot H c = .ok p.imprint ∧ c.pubTime = p.time) ∧
        (s.pub = none → ∀ p, s.auth = some p → calRoot H c = .ok p.imprint ∧ c.pubTime = p.time) := by
  rw [evalRule_and, evalList_or2_ok _ _ _ rfl, evalRule_or, evalList_single, evalRule_or,
    evalList_and_ok _ _ (by simp) (by simp [Rule.isOr])]
  simp only [List.mem_cons, List.not_mem_nil, or_false, forall_eq_or_imp, forall_eq, bOk, bNa, n17, n18, n20, n16, n22, n15]
  rw [(r_calNotExist H s x).1, (r_calNotExist H s x).2, r_calExist]
  cases hc : s.cal with
  | none => simp
  | some c =>
    rw [r_calInput H s x c hc, r_calAggrTime H s x c hc, r_calRegTime H s x c hc, r_calObsolete H s x c hc,
      anchorGroup_ok H s x c hc]
    simp

end groups

def internalList : List Rule := [
    .and [.or [.basic 25], .or [.basic 26, .basic 34, .basic 27]],
    .basic 3, .basic 1,
    .and [.or [.basic 47], .or [.basic 48, .basic 49, .basic 50]],
    .basic 2, .basic 4, .basic 0, .basic 7, .basic 8, .basic 5, .basic 6,
    .and [.or [.basic 17], .or [.basic 18, .basic 20, .basic 16, .basic 22, .basic 15,
      .and [.or [.basic 51, .and [.or [.basic 11], .or [.basic 12, .basic 9, .basic 10]]],
            .or [.basic 52, .basic 54, .basic 55]]]]]

theorem internal_tree' : Gen.policy_internal = some internalList := rfl

/-- the twelve conditions, in the order the policy evaluates them -/
def cond (H : HashFn) (s : Sig) (x : VCtx) : Nat → Prop
  | 0 => ∀ d, x.docHash = some d → imprintAlgo s.docHash = imprintAlgo d ∧ s.docHash = d
  | 1 => x.level = 0 ∨ (x.level ≤ 0xff ∧ s.rfc = none ∧ x.level ≤ firstLc s)
  | 2 => algoAlive (imprintAlgo s.docHash) (asTime s.signTime)
  | 3 => ∀ r, s.rfc = some r → algoAlive (asAlgo r.sigAlgo) (asTime r.time) ∧ algoAlive (asAlgo r.tstAlgo) (asTime r.time) ∧
      algoAlive (imprintAlgo (firstInput s)) (asTime r.time)
  | 4 => ∀ r, s.rfc = some r → rfcOutput H s r = .ok (firstInput s) ∧ s.chains ≠ []
  | 5 => ∀ c ∈ s.chains, ∀ m ∈ c.metas, ∀ p, m = some p → metaOK p = true
  | 6 => ∀ c ∈ s.chains, algoAlive (asAlgo c.algo) (asTime c.time)
  | 7 => (∀ r c, s.rfc = some r → s.chains.head? = some c → r.index = c.index) ∧ indexChainOK s.chains = true
  | 8 => (∀ r c, s.rfc = some r → s.chains.head? = some c → r.time = c.time) ∧ timesEqual s.chains = true
  | 9 => ∃ root, consistency H s.chains none 0 = .ok root
  | 10 => ∀ c ∈ s.chains, c.index ≠ [] → ∃ sh, shape (c.links.map (·.isLeft)) = .ok sh ∧ c.index.getLast? = some sh
  | 11 => ∀ c, s.cal = some c →
      consistency H s.chains none 0 = .ok c.inputHash ∧
      (∃ a, s.chains.head? = some a ∧ c.aggrTime.getD c.pubTime = a.time) ∧
      calTime (c.links.map (·.isLeft)) c.pubTime = .ok (c.aggrTime.getD c.pubTime) ∧
      (∀ l ∈ c.links, l.isLeft = true → checkAlgoAt (l.algo : Int) (asTime c.pubTime) ≠ HASH_ALGORITHM_OBSOLETE) ∧
      (∀ p, s.pub = some p → calRoot H c = .ok p.imprint ∧ c.pubTime = p.time) ∧
      (s.pub = none → ∀ p, s.auth = some p → calRoot H c = .ok p.imprint ∧ c.pubTime = p.time)
  | _ => True

theorem consistent_iff_conds (H : HashFn) (s : Sig) (x : VCtx) : Consistent H s x ↔ ∀ k, k < 12 → cond H s x k := by
  constructor
  · intro h k hk
    match k, hk with
    | 0, _ => exact h.doc
    | 1, _ => exact h.level
    | 2, _ => exact h.docAlgo
    | 3, _ => exact h.rfcAlgos
    | 4, _ => exact h.rfcOut
    | 5, _ => exact h.metadata
    | 6, _ => exact h.chainAlgos
    | 7, _ => exact h.indexes
    | 8, _ => exact h.times
    | 9, _ => exact h.links
    | 10, _ => exact h.shapes
    | 11, _ => exact h.calendar
  · intro h
    exact ⟨h 0 (by omega), h 1 (by omega), h 2 (by omega), h 3 (by omega), h 4 (by omega), h 5 (by omega), h 6 (by omega),
      h 7 (by omega), h 8 (by omega), h 9 (by omega), h 10 (by omega), h 11 (by omega)⟩

/-- element `k` of the internal policy's rule array comes out OK exactly when condition `k` holds -/
theorem stage_iff (H : HashFn) (s : Sig) (x : VCtx) (k : Nat) (hk : k < internalList.length) :
    (evalRule (ρ H s x) internalList[k]).isOk ↔ cond H s x k := by
  match k, hk with
  | 0, _ => exact docGroup_ok H s x
  | 1, _ => show (evalRule (ρ H s x) (.basic 3)).isOk ↔ _; rw [bOk, n3]; exact r_level H s x
  | 2, _ => show (evalRule (ρ H s x) (.basic 1)).isOk ↔ _; rw [bOk, n1]; exact r_docAlgoLife H s x
  | 3, _ => exact rfcGroup_ok H s x
  | 4, _ => show (evalRule (ρ H s x) (.basic 2)).isOk ↔ _; rw [bOk, n2]; exact r_rfcInput H s x
  | 5, _ => show (evalRule (ρ H s x) (.basic 4)).isOk ↔ _; rw [bOk, n4]; exact r_meta H s x
  | 6, _ => show (evalRule (ρ H s x) (.basic 0)).isOk ↔ _; rw [bOk, n0]; exact r_chainAlgos H s x
  | 7, _ => show (evalRule (ρ H s x) (.basic 7)).isOk ↔ _; rw [bOk, n7]; exact r_index H s x
  | 8, _ => show (evalRule (ρ H s x) (.basic 8)).isOk ↔ _; rw [bOk, n8]; exact r_times H s x
  | 9, _ => show (evalRule (ρ H s x) (.basic 5)).isOk ↔ _; rw [bOk, n5]; exact r_links H s x
  | 10, _ => show (evalRule (ρ H s x) (.basic 6)).isOk ↔ _; rw [bOk, n6]; exact r_shapes H s x
  | 11, _ => exact calGroup_ok H s x

theorem internalList_and : ∀ r ∈ internalList, r.isOr = false := by
  intro r hr
  simp only [internalList, List.mem_cons, List.not_mem_nil, or_false] at hr
  rcases hr with rfl | rfl | rfl | rfl | rfl | rfl | rfl | rfl | rfl | rfl | rfl | rfl <;> rfl

/-- **C01.** Verification under the internal policy reports OK exactly for the internally consistent signatures. -/
theorem internal_ok_iff (H : HashFn) (s : Sig) (x : VCtx) :
    (verifyWith H Gen.policy_internal s x).isOK ↔ Consistent H s x := by
  unfold verifyWith Verdict.isOK
  rw [internal_tree', verify_single_ok, evalList_and_ok _ _ (by simp [internalList]) internalList_and, consistent_iff_conds]
  constructor
  · intro h k hk
    exact (stage_iff H s x k hk).mp (h _ (List.getElem_mem _))
  · intro h r hr
    obtain ⟨k, hk, rfl⟩ := List.mem_iff_getElem.mp hr
    exact (stage_iff H s x k hk).mpr (h k hk)

/-- a signature violating any condition is never reported OK -/
theorem never_ok_if_violated (H : HashFn) (s : Sig) (x : VCtx) (h : ¬ Consistent H s x) :
    ¬ (verifyWith H Gen.policy_internal s x).isOK := fun hok => h ((internal_ok_iff H s x).mp hok)

/-! ### what the `links` condition says, one chain at a time -/

/-- after the last chain, the value carried is the aggregation root -/
theorem links_nil (H : HashFn) (hsh : Option Bytes) (lvl : Nat) (root : Bytes) :
    consistency H [] hsh lvl = .ok root ↔ hsh = some root := by
  unfold consistency
  cases hsh with
  | none => simp
  | some v => simp

/-- a chain is accepted when its input is the previous chain's recomputed output (any input for the first chain),
it can be recomputed from the level reached so far, and the remaining chains continue from its output and level -/
theorem links_cons (H : HashFn) (c : AggrChain) (cs : List AggrChain) (hsh : Option Bytes) (lvl : Nat) (root : Bytes) :
    consistency H (c :: cs) hsh lvl = .ok root ↔
      ((hsh = none ∨ hsh = some c.inputHash) ∧
       ∃ lvl' out, aggrChain H c lvl = .ok (lvl', out) ∧ consistency H cs (some out) lvl' = .ok root) := by
  rw [consistency]
  by_cases h1 : hsh.isSome = true ∧ hsh ≠ some c.inputHash
  · rw [if_pos h1]
    simp only [reduceCtorEq, false_iff, not_and, not_exists]
    intro h; exfalso
    rcases h with h | h
    · rw [h] at h1; simp at h1
    · exact h1.2 h
  · rw [if_neg h1]
    have hin : hsh = none ∨ hsh = some c.inputHash := by
      cases hsh with
      | none => left; rfl
      | some v =>
        right
        have : ¬ (some v ≠ some c.inputHash) := fun hne => h1 ⟨rfl, hne⟩
        simpa using this
    cases ha : aggrChain H c lvl with
    | error e => simp
    | ok p =>
      obtain ⟨l', o⟩ := p
      simp only [hin, true_and, Except.ok.injEq, Prod.mk.injEq]
      constructor
      · intro h; exact ⟨l', o, ⟨rfl, rfl⟩, h⟩
      · rintro ⟨l2, o2, ⟨rfl, rfl⟩, h⟩; exact h

/-- the verdict `v` reports outcome `o`: result and error code with status OK, or only the error status -/
def reports (v : Verdict) (o : Outcome) : Prop :=
  (o.status = 0 → v.status = 0 ∧ v.final = some (o.res, o.err)) ∧ (o.status ≠ 0 → v.status = o.status ∧ v.final = none)

/-- the first condition that does not hold decides the verdict: it is what that element of the rule array reports -/
theorem first_violation (H : HashFn) (s : Sig) (x : VCtx) (k : Nat) (hk : k < internalList.length)
    (hpre : ∀ i, i < k → cond H s x i) (hbad : ¬ cond H s x k) :
    reports (verifyWith H Gen.policy_internal s x) (evalRule (ρ H s x) internalList[k]).outcome := by
  have ho := evalList_and_at (ρ H s x) internalList k hk internalList_and
    (fun i hi => (stage_iff H s x i (Nat.lt_trans hi hk)).mpr (hpre i hi))
    (fun h => hbad ((stage_iff H s x k hk).mp h))
  rw [← ho]
  unfold verifyWith reports
  rw [internal_tree']
  constructor
  · intro h0; exact verify_single_outcome _ _ h0
  · intro h0; exact verify_single_error _ _ h0

theorem stage_report (H : HashFn) (s : Sig) (x : VCtx) (k : Nat) (hk : k < internalList.length)
    (hpre : ∀ i, i < k → cond H s x i) (hbad : ¬ cond H s x k) (o : Outcome)
    (ho : (evalRule (ρ H s x) internalList[k]).outcome = o) :
    reports (verifyWith H Gen.policy_internal s x) o := ho ▸ first_violation H s x k hk hpre hbad

section codes
variable (H : HashFn) (s : Sig) (x : VCtx)

theorem bOut (id : Nat) : (evalRule (ρ H s x) (.basic id)).outcome = ρ H s x id := basic_outcome _ _

/-! ### the document hash group: GEN-04, GEN-01 -/

theorem docGroup_second (d : Bytes) (hd : x.docHash = some d) :
    (evalRule (ρ H s x) internalList[0]).outcome = (evalList (ρ H s x) [.basic 26, .basic 34, .basic 27]).outcome := by
  show (evalRule (ρ H s x) (.and [.or [.basic 25], .or [.basic 26, .basic 34, .basic 27]])).outcome = _
  rw [evalRule_and, evalList_or2_second _ _ _ rfl, evalRule_or]
  rw [evalRule_or, evalList_single, bNa, n25, (r_docNotExist H s x).2, hd]; simp

/-- GEN-04: the document hash was made with another algorithm -/
theorem code_GEN04 (d : Bytes) (hd : x.docHash = some d) (h : imprintAlgo s.docHash ≠ imprintAlgo d) :
    reports (verifyWith H Gen.policy_internal s x) (failOut (GEN 4)) := by
  apply stage_report H s x 0 (by decide) (fun i hi => absurd hi (by omega))
  · intro hc; exact h (hc d hd).1
  · rw [docGroup_second H s x d hd]
    rw [evalList_and_at _ _ 1 (by decide) (by simp [Rule.isOr])]
    · show (evalRule (ρ H s x) (.basic 34)).outcome = _
      rw [bOut, n34, b_docAlgo H s x d hd h]
    · intro i hi
      match i, hi with
      | 0, _ => show (evalRule (ρ H s x) (.basic 26)).isOk; rw [bOk, n26, r_docExist, hd]; simp
    · show ¬ (evalRule (ρ H s x) (.basic 34)).isOk
      rw [bOk, n34, r_docAlgo H s x d hd]; exact h

/-- GEN-01: same algorithm, another digest ("wrong document") -/
theorem code_GEN01 (d : Bytes) (hd : x.docHash = some d) (ha : imprintAlgo s.docHash = imprintAlgo d) (h : s.docHash ≠ d) :
    reports (verifyWith H Gen.policy_internal s x) (failOut (GEN 1)) := by
  apply stage_report H s x 0 (by decide) (fun i hi => absurd hi (by omega))
  · intro hc; exact h (hc d hd).2
  · rw [docGroup_second H s x d hd]
    rw [evalList_and_at _ _ 2 (by decide) (by simp [Rule.isOr])]
    · show (evalRule (ρ H s x) (.basic 27)).outcome = _
      rw [bOut, n27, b_docHash H s x d hd h]
    · intro i hi
      match i, hi with
      | 0, _ => show (evalRule (ρ H s x) (.basic 26)).isOk; rw [bOk, n26, r_docExist, hd]; simp
      | 1, _ => show (evalRule (ρ H s x) (.basic 34)).isOk; rw [bOk, n34, r_docAlgo H s x d hd]; exact ha
    · show ¬ (evalRule (ρ H s x) (.basic 27)).isOk
      rw [bOk, n27, r_docHash H s x d hd]; exact h

/-- GEN-03 (level larger than the first link allows, or any level on a legacy signature); a level above 255 is an
error status (invalid verification input) -/
theorem code_GEN03 (h0 : cond H s x 0) (h : ¬ cond H s x 1) :
    (x.level ≤ 0xff ∧ reports (verifyWith H Gen.policy_internal s x) (failOut (GEN 3))) ∨
    (x.level > 0xff ∧ reports (verifyWith H Gen.policy_internal s x) (errOut INVALID_VERIFICATION_INPUT)) := by
  have hpre : ∀ i, i < 1 → cond H s x i := fun i hi => by
    match i, hi with
    | 0, _ => exact h0
  rcases b_level H s x h with ⟨hl, hr⟩ | ⟨hl, hr⟩
  · left; refine ⟨hl, stage_report H s x 1 (by decide) hpre h _ ?_⟩
    show (evalRule (ρ H s x) (.basic 3)).outcome = _
    rw [bOut, n3, hr]
  · right; refine ⟨hl, stage_report H s x 1 (by decide) hpre h _ ?_⟩
    show (evalRule (ρ H s x) (.basic 3)).outcome = _
    rw [bOut, n3, hr]

/-- INT-13 -/
theorem code_INT13 (hpre : ∀ i, i < 2 → cond H s x i) (h : ¬ cond H s x 2) :
    reports (verifyWith H Gen.policy_internal s x) (failOut (INT 13)) := by
  apply stage_report H s x 2 (by decide) hpre h
  show (evalRule (ρ H s x) (.basic 1)).outcome = _
  rw [bOut, n1, b_docAlgoLife H s x h]

/-! ### the legacy record group: INT-14, INT-17 -/

theorem rfcGroup_second (r : Rfc3161) (hr : s.rfc = some r) :
    (evalRule (ρ H s x) internalList[3]).outcome = (evalList (ρ H s x) [.basic 48, .basic 49, .basic 50]).outcome := by
  show (evalRule (ρ H s x) (.and [.or [.basic 47], .or [.basic 48, .basic 49, .basic 50]])).outcome = _
  rw [evalRule_and, evalList_or2_second _ _ _ rfl, evalRule_or]
  rw [evalRule_or, evalList_single, bNa, n47, (r_rfcNotExist H s x).2, hr]; simp

theorem code_INT14 (hpre : ∀ i, i < 3 → cond H s x i) (r : Rfc3161) (hr : s.rfc = some r)
    (h : ¬ (algoAlive (asAlgo r.sigAlgo) (asTime r.time) ∧ algoAlive (asAlgo r.tstAlgo) (asTime r.time))) :
    reports (verifyWith H Gen.policy_internal s x) (failOut (INT 14)) := by
  apply stage_report H s x 3 (by decide) hpre
  · intro hc; have := hc r hr; exact h ⟨this.1, this.2.1⟩
  · rw [rfcGroup_second H s x r hr]
    rw [evalList_and_at _ _ 1 (by decide) (by simp [Rule.isOr])]
    · show (evalRule (ρ H s x) (.basic 49)).outcome = _
      rw [bOut, n49, b_rfcAlgos H s x r hr h]
    · intro i hi
      match i, hi with
      | 0, _ => show (evalRule (ρ H s x) (.basic 48)).isOk; rw [bOk, n48, r_rfcExist, hr]; simp
    · show ¬ (evalRule (ρ H s x) (.basic 49)).isOk
      rw [bOk, n49, r_rfcAlgos H s x r hr]; exact h

theorem code_INT17 (hpre : ∀ i, i < 3 → cond H s x i) (r : Rfc3161) (hr : s.rfc = some r)
    (ha : algoAlive (asAlgo r.sigAlgo) (asTime r.time) ∧ algoAlive (asAlgo r.tstAlgo) (asTime r.time))
    (h : ¬ algoAlive (imprintAlgo (firstInput s)) (asTime r.time)) :
    reports (verifyWith H Gen.policy_internal s x) (failOut (INT 17)) := by
  apply stage_report H s x 3 (by decide) hpre
  · intro hc; exact h (hc r hr).2.2
  · rw [rfcGroup_second H s x r hr]
    rw [evalList_and_at _ _ 2 (by decide) (by simp [Rule.isOr])]
    · show (evalRule (ρ H s x) (.basic 50)).outcome = _
      rw [bOut, n50, b_rfcOutAlgo H s x r hr h]
    · intro i hi
      match i, hi with
      | 0, _ => show (evalRule (ρ H s x) (.basic 48)).isOk; rw [bOk, n48, r_rfcExist, hr]; simp
      | 1, _ => show (evalRule (ρ H s x) (.basic 49)).isOk; rw [bOk, n49, r_rfcAlgos H s x r hr]; exact ha
    · show ¬ (evalRule (ρ H s x) (.basic 50)).isOk
      rw [bOk, n50, r_rfcOutAlgo H s x r hr]; exact h

/-- INT-01 (legacy record output): FAIL when the output can be computed, an error status when it cannot -/
theorem code_INT01_rfc (hpre : ∀ i, i < 4 → cond H s x i) (h : ¬ cond H s x 4) :
    reports (verifyWith H Gen.policy_internal s x) (failOut (INT 1)) ∨
    ∃ e r, s.rfc = some r ∧ rfcOutput H s r = .error e ∧ reports (verifyWith H Gen.policy_internal s x) (errOut e) := by
  have hno : ¬ okB (rule H s x "AggregationChainInputHashVerification") := fun hk => h ((r_rfcInput H s x).mp hk)
  rcases b_rfcInput H s x with h1 | h1 | ⟨e, r, hr, he, h1⟩
  · rw [h1] at hno; exact absurd okB_okOut hno
  · left; apply stage_report H s x 4 (by decide) hpre h
    show (evalRule (ρ H s x) (.basic 2)).outcome = _
    rw [bOut, n2, h1]
  · right; refine ⟨e, r, hr, he, stage_report H s x 4 (by decide) hpre h _ ?_⟩
    show (evalRule (ρ H s x) (.basic 2)).outcome = _
    rw [bOut, n2, h1]

theorem code_INT11 (hpre : ∀ i, i < 5 → cond H s x i) (h : ¬ cond H s x 5) :
    reports (verifyWith H Gen.policy_internal s x) (failOut (INT 11)) := by
  apply stage_report H s x 5 (by decide) hpre h
  show (evalRule (ρ H s x) (.basic 4)).outcome = _
  rw [bOut, n4, b_meta H s x h]

theorem code_INT15 (hpre : ∀ i, i < 6 → cond H s x i) (h : ¬ cond H s x 6) :
    reports (verifyWith H Gen.policy_internal s x) (failOut (INT 15)) := by
  apply stage_report H s x 6 (by decide) hpre h
  show (evalRule (ρ H s x) (.basic 0)).outcome = _
  rw [bOut, n0, b_chainAlgos H s x h]

theorem code_INT12 (hpre : ∀ i, i < 7 → cond H s x i) (h : ¬ cond H s x 7) :
    reports (verifyWith H Gen.policy_internal s x) (failOut (INT 12)) := by
  apply stage_report H s x 7 (by decide) hpre h
  show (evalRule (ρ H s x) (.basic 7)).outcome = _
  rw [bOut, n7, b_index H s x h]

theorem code_INT02 (hpre : ∀ i, i < 8 → cond H s x i) (h : ¬ cond H s x 8) :
    reports (verifyWith H Gen.policy_internal s x) (failOut (INT 2)) := by
  apply stage_report H s x 8 (by decide) hpre h
  show (evalRule (ρ H s x) (.basic 8)).outcome = _
  rw [bOut, n8, b_times H s x h]

/-- INT-01: a chain output that is not the next chain's input is FAIL INT-01; a chain that cannot be recomputed
(unavailable algorithm, level overflow) is an error status -/
theorem code_INT01 (hpre : ∀ i, i < 9 → cond H s x i) (h : ¬ cond H s x 9) :
    reports (verifyWith H Gen.policy_internal s x) (failOut (INT 1)) ∨
    ∃ e, reports (verifyWith H Gen.policy_internal s x) (errOut e) := by
  rcases b_links H s x h with h1 | ⟨e, h1⟩
  · left; apply stage_report H s x 9 (by decide) hpre h
    show (evalRule (ρ H s x) (.basic 5)).outcome = _
    rw [bOut, n5, h1]
  · right; refine ⟨e, stage_report H s x 9 (by decide) hpre h _ ?_⟩
    show (evalRule (ρ H s x) (.basic 5)).outcome = _
    rw [bOut, n5, h1]

theorem code_INT10 (hpre : ∀ i, i < 10 → cond H s x i) (h : ¬ cond H s x 10) :
    reports (verifyWith H Gen.policy_internal s x) (failOut (INT 10)) ∨
    ∃ e, reports (verifyWith H Gen.policy_internal s x) (errOut e) := by
  rcases b_shapes H s x h with h1 | ⟨e, h1⟩
  · left; apply stage_report H s x 10 (by decide) hpre h
    show (evalRule (ρ H s x) (.basic 6)).outcome = _
    rw [bOut, n6, h1]
  · right; refine ⟨e, stage_report H s x 10 (by decide) hpre h _ ?_⟩
    show (evalRule (ρ H s x) (.basic 6)).outcome = _
    rw [bOut, n6, h1]

/-! ### the calendar group: INT-03, 04, 05, 16 and the anchors INT-09, 07, 08, 06 -/

def anchorRule : Rule := .and [.or [.basic 51, .and [.or [.basic 11], .or [.basic 12, .basic 9, .basic 10]]], .or [.basic 52, .basic 54, .basic 55]]
def calList : List Rule := [.basic 18, .basic 20, .basic 16, .basic 22, .basic 15, anchorRule]

theorem calGroup_second (c : CalChain) (hc : s.cal = some c) :
    (evalRule (ρ H s x) internalList[11]).outcome = (evalList (ρ H s x) calList).outcome := by
  show (evalRule (ρ H s x) (.and [.or [.basic 17], .or calList])).outcome = _
  rw [evalRule_and, evalList_or2_second _ _ _ rfl, evalRule_or]
  rw [evalRule_or, evalList_single, bNa, n17, (r_calNotExist H s x).2, hc]; simp

theorem calList_and : ∀ r ∈ calList, r.isOr = false := by
  intro r hr
  simp only [calList, List.mem_cons, List.not_mem_nil, or_false] at hr
  rcases hr with rfl | rfl | rfl | rfl | rfl | rfl <;> rfl

/-- the sub-conditions of the calendar group, in evaluation order -/
def calCond (c : CalChain) : Nat → Prop
  | 0 => True
  | 1 => consistency H s.chains none 0 = .ok c.inputHash
  | 2 => ∃ a, s.chains.head? = some a ∧ c.aggrTime.getD c.pubTime = a.time
  | 3 => calTime (c.links.map (·.isLeft)) c.pubTime = .ok (c.aggrTime.getD c.pubTime)
  | 4 => ∀ l ∈ c.links, l.isLeft = true → checkAlgoAt (l.algo : Int) (asTime c.pubTime) ≠ HASH_ALGORITHM_OBSOLETE
  | 5 => (∀ p, s.pub = some p → calRoot H c = .ok p.imprint ∧ c.pubTime = p.time) ∧
         (s.pub = none → ∀ p, s.auth = some p → calRoot H c = .ok p.imprint ∧ c.pubTime = p.time)
  | _ => True

theorem calStage_iff (c : CalChain) (hc : s.cal = some c) (k : Nat) (hk : k < calList.length) :
    (evalRule (ρ H s x) calList[k]).isOk ↔ calCond H s c k := by
  match k, hk with
  | 0, _ => show (evalRule (ρ H s x) (.basic 18)).isOk ↔ _; rw [bOk, n18, r_calExist, hc]; simp [calCond]
  | 1, _ => show (evalRule (ρ H s x) (.basic 20)).isOk ↔ _; rw [bOk, n20]; exact r_calInput H s x c hc
  | 2, _ => show (evalRule (ρ H s x) (.basic 16)).isOk ↔ _; rw [bOk, n16]; exact r_calAggrTime H s x c hc
  | 3, _ => show (evalRule (ρ H s x) (.basic 22)).isOk ↔ _; rw [bOk, n22]; exact r_calRegTime H s x c hc
  | 4, _ => show (evalRule (ρ H s x) (.basic 15)).isOk ↔ _; rw [bOk, n15]; exact r_calObsolete H s x c hc
  | 5, _ => exact anchorGroup_ok H s x c hc

theorem cal_cond_of (c : CalChain) (hc : s.cal = some c) (h : ∀ k, k < 6 → calCond H s c k) : cond H s x 11 := by
  intro c' hc'
  rw [hc] at hc'; cases hc'
  exact ⟨h 1 (by omega), h 2 (by omega), h 3 (by omega), h 4 (by omega), (h 5 (by omega)).1, (h 5 (by omega)).2⟩

/-- inside the calendar group too, the first sub-condition that fails decides the verdict -/
theorem cal_report (hpre : ∀ i, i < 11 → cond H s x i) (c : CalChain) (hc : s.cal = some c) (k : Nat) (hk : k < calList.length)
    (hcpre : ∀ i, i < k → calCond H s c i) (hbad : ¬ calCond H s c k) (o : Outcome)
    (ho : (evalRule (ρ H s x) calList[k]).outcome = o) :
    reports (verifyWith H Gen.policy_internal s x) o := by
  apply stage_report H s x 11 (by decide) hpre
  · intro h11
    have := h11 c hc
    match k, hk with
    | 0, _ => exact hbad trivial
    | 1, _ => exact hbad this.1
    | 2, _ => exact hbad this.2.1
    | 3, _ => exact hbad this.2.2.1
    | 4, _ => exact hbad this.2.2.2.1
    | 5, _ => exact hbad ⟨this.2.2.2.2.1, this.2.2.2.2.2⟩
  · rw [calGroup_second H s x c hc, ← ho]
    exact evalList_and_at (ρ H s x) calList k hk calList_and
      (fun i hi => (calStage_iff H s x c hc i (Nat.lt_trans hi hk)).mpr (hcpre i hi))
      (fun h => hbad ((calStage_iff H s x c hc k hk).mp h))

/-- INT-03: the aggregation root is not the calendar chain's input -/
theorem code_INT03 (hpre : ∀ i, i < 11 → cond H s x i) (c : CalChain) (hc : s.cal = some c)
    (h : consistency H s.chains none 0 ≠ .ok c.inputHash) :
    reports (verifyWith H Gen.policy_internal s x) (failOut (INT 3)) := by
  obtain ⟨root, hroot⟩ := hpre 9 (by omega)
  apply cal_report H s x hpre c hc 1 (by decide) (fun i hi => by match i, hi with | 0, _ => trivial) h
  show (evalRule (ρ H s x) (.basic 20)).outcome = _
  rw [bOut, n20, b_calInput H s x c hc root hroot (fun he => h (by rw [hroot, he]))]

/-- INT-04: the calendar chain's aggregation time is not the aggregation chains' time -/
theorem code_INT04 (hpre : ∀ i, i < 11 → cond H s x i) (c : CalChain) (hc : s.cal = some c)
    (h1 : calCond H s c 1) (a : AggrChain) (ha : s.chains.head? = some a) (h : c.aggrTime.getD c.pubTime ≠ a.time) :
    reports (verifyWith H Gen.policy_internal s x) (failOut (INT 4)) := by
  apply cal_report H s x hpre c hc 2 (by decide)
    (fun i hi => by match i, hi with | 0, _ => trivial | 1, _ => exact h1)
  · rintro ⟨a', ha', he⟩; rw [ha] at ha'; cases ha'; exact h he
  · show (evalRule (ρ H s x) (.basic 16)).outcome = _
    rw [bOut, n16, b_calAggrTime H s x c hc a ha h]

/-- INT-05: FAIL when the shape yields a time, inconclusive with INT-05 when the shape is impossible for the publication time -/
theorem code_INT05 (hpre : ∀ i, i < 11 → cond H s x i) (c : CalChain) (hc : s.cal = some c)
    (h1 : calCond H s c 1) (h2 : calCond H s c 2) (h : ¬ calCond H s c 3) :
    ((∃ t, calTime (c.links.map (·.isLeft)) c.pubTime = .ok t) ∧ reports (verifyWith H Gen.policy_internal s x) (failOut (INT 5))) ∨
    ((∃ e, calTime (c.links.map (·.isLeft)) c.pubTime = .error e) ∧ reports (verifyWith H Gen.policy_internal s x) ⟨0, .na, INT 5⟩) := by
  have hcpre : ∀ i, i < 3 → calCond H s c i := fun i hi => by
    match i, hi with
    | 0, _ => trivial
    | 1, _ => exact h1
    | 2, _ => exact h2
  rcases b_calRegTime H s x c hc h with ⟨ht, hr⟩ | ⟨ht, hr⟩
  · left; refine ⟨ht, cal_report H s x hpre c hc 3 (by decide) hcpre h _ ?_⟩
    show (evalRule (ρ H s x) (.basic 22)).outcome = _
    rw [bOut, n22, hr]
  · right; refine ⟨ht, cal_report H s x hpre c hc 3 (by decide) hcpre h _ ?_⟩
    show (evalRule (ρ H s x) (.basic 22)).outcome = _
    rw [bOut, n22, hr]

/-- INT-16 -/
theorem code_INT16 (hpre : ∀ i, i < 11 → cond H s x i) (c : CalChain) (hc : s.cal = some c)
    (hcpre : ∀ i, i < 4 → calCond H s c i) (h : ¬ calCond H s c 4) :
    reports (verifyWith H Gen.policy_internal s x) (failOut (INT 16)) := by
  apply cal_report H s x hpre c hc 4 (by decide) hcpre h
  show (evalRule (ρ H s x) (.basic 15)).outcome = _
  rw [bOut, n15, b_calObsolete H s x c hc h]

theorem anchor_pub (p : PubData) (hp : s.pub = some p) :
    (evalRule (ρ H s x) anchorRule).outcome = (evalList (ρ H s x) [.basic 52, .basic 54, .basic 55]).outcome := by
  unfold anchorRule
  rw [evalRule_and, evalList_or2_second _ _ _ rfl, evalRule_or]
  rw [evalRule_or]
  apply evalList_and2_na _ _ _ rfl
  rw [bNa, n51, (r_pubNotExist H s x).2, hp]; simp

/-- INT-09: the publication record does not carry the recomputed calendar root (error status if the root cannot be computed) -/
theorem code_INT09 (hpre : ∀ i, i < 11 → cond H s x i) (c : CalChain) (hc : s.cal = some c)
    (hcpre : ∀ i, i < 5 → calCond H s c i) (p : PubData) (hp : s.pub = some p) (h : calRoot H c ≠ .ok p.imprint) :
    ((∃ r, calRoot H c = .ok r) ∧ reports (verifyWith H Gen.policy_internal s x) (failOut (INT 9))) ∨
    (∃ e, calRoot H c = .error e ∧ reports (verifyWith H Gen.policy_internal s x) (errOut e)) := by
  have hbad : ¬ calCond H s c 5 := fun h5 => h (h5.1 p hp).1
  have hsub : ∀ o, ρ H s x 54 = o → (evalRule (ρ H s x) calList[5]).outcome = o := by
    intro o ho
    show (evalRule (ρ H s x) anchorRule).outcome = _
    rw [anchor_pub H s x p hp, evalList_and_at _ _ 1 (by decide) (by simp [Rule.isOr])]
    · show (evalRule (ρ H s x) (.basic 54)).outcome = _
      rw [bOut, ho]
    · intro i hi
      match i, hi with
      | 0, _ => show (evalRule (ρ H s x) (.basic 52)).isOk; rw [bOk, n52, r_pubExist, hp]; simp
    · show ¬ (evalRule (ρ H s x) (.basic 54)).isOk
      rw [bOk, n54, r_pubHash H s x c hc p hp]; exact h
  rcases b_pubHash H s x c hc p hp h with ⟨hr, ho⟩ | ⟨e, he, ho⟩
  · left; exact ⟨hr, cal_report H s x hpre c hc 5 (by decide) hcpre hbad _ (hsub _ (by rw [n54, ho]))⟩
  · right; exact ⟨e, he, cal_report H s x hpre c hc 5 (by decide) hcpre hbad _ (hsub _ (by rw [n54, ho]))⟩

/-- INT-07: the publication record's time is not the calendar chain's publication time -/
theorem code_INT07 (hpre : ∀ i, i < 11 → cond H s x i) (c : CalChain) (hc : s.cal = some c)
    (hcpre : ∀ i, i < 5 → calCond H s c i) (p : PubData) (hp : s.pub = some p) (hh : calRoot H c = .ok p.imprint)
    (h : c.pubTime ≠ p.time) :
    reports (verifyWith H Gen.policy_internal s x) (failOut (INT 7)) := by
  apply cal_report H s x hpre c hc 5 (by decide) hcpre (fun h5 => h (h5.1 p hp).2)
  show (evalRule (ρ H s x) anchorRule).outcome = _
  rw [anchor_pub H s x p hp, evalList_and_at _ _ 2 (by decide) (by simp [Rule.isOr])]
  · show (evalRule (ρ H s x) (.basic 55)).outcome = _
    rw [bOut, n55, b_pubTime H s x c hc p hp h]
  · intro i hi
    match i, hi with
    | 0, _ => show (evalRule (ρ H s x) (.basic 52)).isOk; rw [bOk, n52, r_pubExist, hp]; simp
    | 1, _ => show (evalRule (ρ H s x) (.basic 54)).isOk; rw [bOk, n54, r_pubHash H s x c hc p hp]; exact hh
  · show ¬ (evalRule (ρ H s x) (.basic 55)).isOk
    rw [bOk, n55, r_pubTime H s x c hc p hp]; exact h

theorem not_isNa_of_fail (r : Run) (c : Nat) (h : r.outcome = failOut c) : ¬ r.isNa := by
  intro hna
  have : r.outcome.res = .fail := by rw [h]; rfl
  have h2 : r.outcome.res = r.res := rfl
  rw [h2, hna.2] at this; cases this

/-- without a publication record, the anchor group reports what the authentication-record rules report -/
theorem anchor_auth (p : PubData) (hn : s.pub = none) (hp : s.auth = some p) (k : Nat) (hk : k < 3) (c : Nat)
    (hpre : ∀ i (hi : i < k), (evalRule (ρ H s x) ([.basic 12, .basic 9, .basic 10][i]'(by simp; omega))).isOk)
    (hbad : (evalRule (ρ H s x) ([.basic 12, .basic 9, .basic 10][k]'(by simpa using hk))).outcome = failOut c) :
    (evalRule (ρ H s x) anchorRule).outcome = failOut c := by
  have hnotok : ¬ (evalRule (ρ H s x) ([.basic 12, .basic 9, .basic 10][k]'(by simpa using hk))).isOk := by
    intro hok
    have h1 : (evalRule (ρ H s x) ([.basic 12, .basic 9, .basic 10][k]'(by simpa using hk))).outcome.res = .fail := by rw [hbad]; rfl
    have h2 := hok.2
    have h3 : (evalRule (ρ H s x) ([.basic 12, .basic 9, .basic 10][k]'(by simpa using hk))).outcome.res
      = (evalRule (ρ H s x) ([.basic 12, .basic 9, .basic 10][k]'(by simpa using hk))).res := rfl
    rw [h3, h2] at h1; cases h1
  -- the inner list
  have hL : (evalList (ρ H s x) [.basic 12, .basic 9, .basic 10]).outcome = failOut c := by
    rw [evalList_and_at _ _ k (by simpa using hk) (by simp [Rule.isOr]) hpre hnotok, hbad]
  -- Y
  have hY : (evalRule (ρ H s x) (.and [.or [.basic 11], .or [.basic 12, .basic 9, .basic 10]])).outcome = failOut c := by
    rw [evalRule_and, evalList_or2_second _ _ _ rfl, evalRule_or, hL]
    rw [evalRule_or, evalList_single, bNa, n11, (r_authNotExist H s x).2, hp]; simp
  have hYnot : ¬ (evalRule (ρ H s x) (.and [.or [.basic 11], .or [.basic 12, .basic 9, .basic 10]])).isOk := by
    intro hok
    have h1 : (evalRule (ρ H s x) (.and [.or [.basic 11], .or [.basic 12, .basic 9, .basic 10]])).outcome.res = .fail := by rw [hY]; rfl
    have h3 : (evalRule (ρ H s x) (.and [.or [.basic 11], .or [.basic 12, .basic 9, .basic 10]])).outcome.res
      = (evalRule (ρ H s x) (.and [.or [.basic 11], .or [.basic 12, .basic 9, .basic 10]])).res := rfl
    rw [h3, hok.2] at h1; cases h1
  -- A' = [51, Y]
  have hA : (evalRule (ρ H s x) (.or [.basic 51, .and [.or [.basic 11], .or [.basic 12, .basic 9, .basic 10]]])).outcome = failOut c := by
    rw [evalRule_or, evalList_and_at _ _ 1 (by decide) (by simp [Rule.isOr])]
    · exact hY
    · intro i hi
      match i, hi with
      | 0, _ => show (evalRule (ρ H s x) (.basic 51)).isOk; rw [bOk, n51, (r_pubNotExist H s x).1]; exact hn
    · exact hYnot
  unfold anchorRule
  rw [evalRule_and, evalList_or2_first _ _ _ rfl (not_isNa_of_fail _ c hA), hA]

/-- INT-08: the authentication record does not carry the recomputed calendar root -/
theorem code_INT08 (hpre : ∀ i, i < 11 → cond H s x i) (c : CalChain) (hc : s.cal = some c)
    (hcpre : ∀ i, i < 5 → calCond H s c i) (hn : s.pub = none) (p : PubData) (hp : s.auth = some p)
    (r : Bytes) (hr : calRoot H c = .ok r) (h : r ≠ p.imprint) :
    reports (verifyWith H Gen.policy_internal s x) (failOut (INT 8)) := by
  apply cal_report H s x hpre c hc 5 (by decide) hcpre
  · intro h5; have := (h5.2 hn p hp).1; rw [hr] at this; cases this; exact h rfl
  · show (evalRule (ρ H s x) anchorRule).outcome = _
    apply anchor_auth H s x p hn hp 1 (by omega)
    · intro i hi
      match i, hi with
      | 0, _ => show (evalRule (ρ H s x) (.basic 12)).isOk; rw [bOk, n12, r_authExist, hp]; simp
    · show (evalRule (ρ H s x) (.basic 9)).outcome = _
      rw [bOut, n9, b_authHash H s x c hc p hp r hr h]

/-- INT-06: the authentication record's time is not the calendar chain's publication time -/
theorem code_INT06 (hpre : ∀ i, i < 11 → cond H s x i) (c : CalChain) (hc : s.cal = some c)
    (hcpre : ∀ i, i < 5 → calCond H s c i) (hn : s.pub = none) (p : PubData) (hp : s.auth = some p)
    (hh : calRoot H c = .ok p.imprint) (h : c.pubTime ≠ p.time) :
    reports (verifyWith H Gen.policy_internal s x) (failOut (INT 6)) := by
  apply cal_report H s x hpre c hc 5 (by decide) hcpre
  · intro h5; exact h (h5.2 hn p hp).2
  · show (evalRule (ρ H s x) anchorRule).outcome = _
    apply anchor_auth H s x p hn hp 2 (by omega)
    · intro i hi
      match i, hi with
      | 0, _ => show (evalRule (ρ H s x) (.basic 12)).isOk; rw [bOk, n12, r_authExist, hp]; simp
      | 1, _ => show (evalRule (ρ H s x) (.basic 9)).isOk; rw [bOk, n9, r_authHash H s x c hc p hp]; exact hh
    · show (evalRule (ρ H s x) (.basic 10)).outcome = _
      rw [bOut, n10, b_authTime H s x c hc p hp h]

end codes

/-! ### the hypotheses are satisfiable: a consistent signature, and one violating only INT-10 -/
section nonvacuous
def H0 : HashFn := fun _ d => some [d.length.toUInt8]
def c0 : AggrChain := ⟨5, [3], [1, 9], 1, [⟨true, 0, .imprint 1 [7]⟩], [none]⟩
def s0 : Sig := ⟨[c0], none, none, none, none⟩
def s1 : Sig := ⟨[{ c0 with index := [2] }], none, none, none, none⟩

example : Consistent H0 s0 {} := by
  apply (internal_ok_iff H0 s0 {}).mp
  have h : (verifyWith H0 Gen.policy_internal s0 {}).status = 0 ∧ (verifyWith H0 Gen.policy_internal s0 {}).final = some (.ok, 0) := by
    decide +kernel
  exact ⟨h.1, 0, h.2⟩

example : (verifyWith H0 Gen.policy_internal s1 {}).status = 0 ∧
    (verifyWith H0 Gen.policy_internal s1 {}).final = some (.fail, INT 10) := by decide +kernel
end nonvacuous

end KsiVerif.Props.C01
