import KsiVerif.Proofs.HashChain
/-!
# C03 — hash-chain and calendar arithmetic equals the KSI chain formula for every chain

Property theorems only.  Model: `KsiVerif.HashChain` (hashchain.c); reference formulas:
`KsiVerif.HashChainSpec`.  The hash function `H` is an arbitrary parameter in every
statement; link lists, level corrections (full 64-bit range and beyond), start levels,
publication times and shapes are unbounded.
-/
namespace KsiVerif.Props.C03
open KsiVerif KsiVerif.HashChain KsiVerif.HashChainSpec

/-- The aggregation of a non-empty chain is exactly the reference fold — step hash
`H(left ‖ right ‖ level byte)`, `level' = level + correction + 1` — and it is an error
exactly when the reference fold is undefined (a correction above 255, a level above 255, or
an algorithm that cannot be computed): nothing is truncated. -/
theorem aggregate_eq_reference (H : HashFn) (algo : Nat) (l : Link) (ls : List Link)
    (input : Bytes) (start : Nat) :
    (match aggregate H algo (l :: ls) input start with
     | .ok (e, out) => ∃ c, out = some c ∧ refChain H algo start input (l :: ls) = some (e, c)
     | .error _ => refChain H algo start input (l :: ls) = none) := by
  unfold aggregate
  have h := aggFold_eq_refChain H algo (l :: ls) start input
  cases hf : aggFold H algo ⟨start, input⟩ (l :: ls) with
  | error e => simpa [hf] using h
  | ok s => simp only [hf] at h ⊢; exact ⟨s.cur, rfl, h⟩

/-- Level arithmetic: on success the root level is `start + Σ (correction_i + 1)`, it is at
most 255, and every correction is at most 255. -/
theorem aggregate_level (H : HashFn) (algo : Nat) (l : Link) (ls : List Link) (input : Bytes)
    (start e : Nat) (out : Option Bytes) (h : aggregate H algo (l :: ls) input start = .ok (e, out)) :
    e = start + levelSum (l :: ls) ∧ e ≤ 255 ∧ ∀ k ∈ l :: ls, k.lc ≤ 255 := by
  have h1 := aggregate_eq_reference H algo l ls input start
  rw [h] at h1
  obtain ⟨c, _, hc⟩ := h1
  have ⟨a, b, c'⟩ := refChain_level H algo (l :: ls) start input e c hc
  exact ⟨a, b (by simp), c'⟩

/-- A chain whose level would leave 0..255, or with a correction above 255 (any value up to
2^64-1 and beyond), is rejected — never truncated. -/
theorem aggregate_rejects_out_of_range (H : HashFn) (algo : Nat) (l : Link) (ls : List Link)
    (input : Bytes) (start : Nat)
    (h : (∃ k ∈ l :: ls, k.lc > 255) ∨ start + levelSum (l :: ls) > 255) :
    ∃ err, aggregate H algo (l :: ls) input start = .error err := by
  cases ha : aggregate H algo (l :: ls) input start with
  | error e => exact ⟨e, rfl⟩
  | ok r =>
    obtain ⟨e, out⟩ := r
    have ⟨h1, h2, h3⟩ := aggregate_level H algo l ls input start e out ha
    rcases h with ⟨k, hk, hlc⟩ | h
    · have := h3 k hk; omega
    · omega

/-- One step, spelled out: a left link hashes `current ‖ sibling ‖ level`, a right link
`sibling ‖ current ‖ level`; the sibling contributes its imprint, legacy-id bytes or
serialized metadata. -/
theorem aggregate_single_step (H : HashFn) (algo : Nat) (l : Link) (input : Bytes) (start : Nat)
    (hl : l.lc ≤ 255) (hlv : start + l.lc + 1 ≤ 255) (d : Bytes)
    (hH : H algo ((if l.isLeft then input ++ l.sib.bytes else l.sib.bytes ++ input) ++
        [UInt8.ofNat (start + l.lc + 1)]) = some d) :
    aggregate H algo [l] input start = .ok (start + l.lc + 1, some (UInt8.ofNat algo :: d)) := by
  have hc : ¬ (l.lc > 0xff ∨ start + l.lc + 1 > 0xff) := by omega
  simp only [aggregate, aggFold, aggStep, hc, ↓reduceIte, hH]

/-- Chains compose: aggregating `l₁ ++ l₂` is aggregating `l₂` from the output of `l₁`
(used when a signature's chains are aggregated one after the other). -/
theorem reference_chain_compose (H : HashFn) (algo : Nat) (l1 l2 : List Link) (lvl : Nat) (cur : Bytes) :
    refChain H algo lvl cur (l1 ++ l2) =
      match refChain H algo lvl cur l1 with
      | some (lvl', cur') => refChain H algo lvl' cur' l2
      | none => none :=
  refChain_append H algo l1 l2 lvl cur

/-- `highBit` of hashchain.c is the highest power of two not above its argument. -/
theorem highBit_is_top_power (n : Nat) (h0 : 0 < n) (h : n < 2 ^ 64) : highBit n = 2 ^ n.log2 :=
  highBit_spec n h0 h

/-- **Calendar time.** The registration time derived from the link directions and the
publication time is the leaf that those directions address in the calendar tree over
`0..publication time`; every shape impossible for that publication time, the empty chain
and publication times that do not fit a signed 64-bit `time_t` are rejected. -/
theorem calTime_iff_calendar_tree (shape : List Bool) (p t : Nat) :
    calTime shape p = .ok t ↔ shape ≠ [] ∧ p < 2 ^ 63 ∧ CalPath p shape.reverse t := by
  unfold calTime
  cases shape with
  | nil => simp
  | cons b bs =>
    simp only [List.isEmpty_cons, Bool.false_eq_true, ↓reduceIte, ne_eq, reduceCtorEq,
      not_false_eq_true, true_and]
    by_cases hp : p ≥ 2 ^ 63
    · simp only [hp, ↓reduceIte]
      constructor
      · intro h; cases h
      · intro ⟨h, _⟩; omega
    · simp only [hp, ↓reduceIte]
      rw [calTimeLoop_iff _ p 0 t (by omega)]
      constructor
      · rintro ⟨t', h, rfl⟩; exact ⟨by omega, by simpa using h⟩
      · rintro ⟨_, h⟩; exact ⟨t, h, by omega⟩

/-- the derived time never exceeds the publication time and is unique for a shape -/
theorem calTime_le_publication (shape : List Bool) (p t : Nat) (h : calTime shape p = .ok t) : t ≤ p :=
  calPath_le ((calTime_iff_calendar_tree shape p t).mp h).2.2

/-- The shape-derived chain index is the reference bit string (leading 1, then the link
directions, link 0 in bit 0) for chains of up to 63 links; longer chains have no 64-bit
index and are refused. -/
theorem shape_eq_reference (dirs : List Bool) :
    shape dirs = if dirs.length ≤ 63 then .ok (refShape dirs) else .error St.INVALID_STATE := by
  unfold shape
  by_cases h : dirs.length ≤ 63
  · have : ¬ dirs.length > 63 := by omega
    simp only [this, h, ↓reduceIte]
    rw [shape_fold dirs h]
  · have : dirs.length > 63 := by omega
    simp [this, h]

/-- Calendar root: the hash algorithm of a step is that of the input hash until the first
left link and afterwards that of the most recent left link's sibling; the level byte is 0xff. -/
theorem calendar_step (H : HashFn) (algo : Nat) (cur : Bytes) (l : CalLink) (ls : List CalLink) :
    calFold H algo cur (l :: ls) =
      match H (if l.isLeft then l.algo else algo)
          ((if l.isLeft then cur ++ UInt8.ofNat l.algo :: l.digest
            else UInt8.ofNat l.algo :: l.digest ++ cur) ++ [0xff]) with
      | none => .error St.UNAVAILABLE_HASH_ALGORITHM
      | some d => calFold H (if l.isLeft then l.algo else algo)
          (UInt8.ofNat (if l.isLeft then l.algo else algo) :: d) ls := by
  rw [calFold]
  cases l.isLeft <;> simp <;> rfl

/-! Non-vacuity. -/
example : CalPath 5 [false, true] 4 := by
  have h5 : hb 5 = 4 := by decide
  have h1 : hb 1 = 1 := by decide
  have : CalPath 5 [false, true] (hb 5 + 0) :=
    CalPath.right (by decide) (by
      rw [h5]; exact CalPath.left (by decide) (by rw [h1]; exact CalPath.leaf))
  simpa [h5] using this
example : calTime [true, false] 5 = .ok 4 := by rfl
example : calTime [true, true] 5 = .error St.INVALID_FORMAT := by rfl
example : shape [true, false, true] = .ok 13 := by rfl

end KsiVerif.Props.C03
