import KsiVerif.Spec.Uri
/-! # C20 — property theorems (under construction) -/
namespace KsiVerif.Props.C20
end KsiVerif.Props.C20
