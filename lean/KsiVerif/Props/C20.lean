import KsiVerif.Proofs.Uri
/-!
# C20 — service URIs: exact scheme dispatch; embedded credentials never reach the wire

Property theorems only.  Model: `KsiVerif.Uri` (http_parser.c URL automaton transcribed, net.c
`uriSplit` / `uriCompose` / `getClientByUriScheme`, net_uri.c `uriClient_setService`, net_async.c
`asyncService_setupAsyncClient`); the URL-character table and the scheme map are generated from the
current source.  Grammar and expected hand-over: `KsiVerif.Uri.render`, `wf`, `specBlocking`,
`specAsync` (Spec/Uri.lean).
-/
namespace KsiVerif.Props.C20
open KsiVerif KsiVerif.Uri

/-- **Scheme recognition is exact and case-insensitive**, for every byte string: the generated
scheme map selects the transport and the replacement scheme the property names, and nothing else -/
theorem scheme_dispatch (s : Bytes) :
    clientByScheme (some s) =
      (match route s with
        | .http ns => (.http, some ns)
        | .tcp => (.tcp, none)
        | .file => (.file, none)
        | .other => (.unknown, none)) := by
  unfold clientByScheme route
  simp only [Gen.schemeMap, List.find?]
  have e1 : ([107, 115, 105] : List UInt8).map toLower = [107, 115, 105] := by decide
  have e2 : ([107, 115, 105, 43, 104, 116, 116, 112] : List UInt8).map toLower = [107, 115, 105, 43, 104, 116, 116, 112] := by decide
  have e3 : ([107, 115, 105, 43, 104, 116, 116, 112, 115] : List UInt8).map toLower = [107, 115, 105, 43, 104, 116, 116, 112, 115] := by decide
  have e4 : ([107, 115, 105, 43, 116, 99, 112] : List UInt8).map toLower = [107, 115, 105, 43, 116, 99, 112] := by decide
  have e5 : ([102, 105, 108, 101] : List UInt8).map toLower = [102, 105, 108, 101] := by decide
  rw [e1, e2, e3, e4, e5]
  generalize s.map toLower = L
  by_cases h1 : L = [107, 115, 105]
  · subst h1; rfl
  · by_cases h2 : L = [107, 115, 105, 43, 104, 116, 116, 112]
    · subst h2; rfl
    · by_cases h3 : L = [107, 115, 105, 43, 104, 116, 116, 112, 115]
      · subst h3; rfl
      · by_cases h4 : L = [107, 115, 105, 43, 116, 99, 112]
        · subst h4; rfl
        · by_cases h5 : L = [102, 105, 108, 101]
          · subst h5; rfl
          · have b1 : ([107, 115, 105] == L) = false := by simpa using fun h => h1 h.symm
            have b2 : ([107, 115, 105, 43, 104, 116, 116, 112] == L) = false := by simpa using fun h => h2 h.symm
            have b3 : ([107, 115, 105, 43, 104, 116, 116, 112, 115] == L) = false := by simpa using fun h => h3 h.symm
            have b4 : ([107, 115, 105, 43, 116, 99, 112] == L) = false := by simpa using fun h => h4 h.symm
            have b5 : ([102, 105, 108, 101] == L) = false := by simpa using fun h => h5 h.symm
            have c1 : (L == [107, 115, 105]) = false := by simpa using h1
            have c2 : (L == [107, 115, 105, 43, 104, 116, 116, 112]) = false := by simpa using h2
            have c3 : (L == [107, 115, 105, 43, 104, 116, 116, 112, 115]) = false := by simpa using h3
            have c4 : (L == [107, 115, 105, 43, 116, 99, 112]) = false := by simpa using h4
            have c5 : (L == [102, 105, 108, 101]) = false := by simpa using h5
            simp only [b1, b2, b3, b4, b5, c1, c2, c3, c4, c5, Bool.false_eq_true, if_false]

/-- non-vacuity: `KSI+https` goes to the HTTP transport as `https`, `file` to the file transport -/
example : route [75, 83, 73, 43, 104, 116, 116, 112, 115] = .http [104, 116, 116, 112, 115] := by decide
example : route [70, 105, 108, 101] = .file := by decide

/-- **`uriSplit` recovers exactly the parts a well-formed URI was written from** -/
theorem split_render (p : UParts) (h : wf p = true)
    (hshape : ¬ (p.path = [] ∧ p.query = none ∧ p.fragment ≠ none)) (hlen : (render p).length < 65536) :
    uriSplit (render p) = .ok (partsOf p) :=
  uriSplit_render p h hshape hlen

end KsiVerif.Props.C20

namespace KsiVerif.Props.C20
open KsiVerif KsiVerif.Uri

theorem host58 : isHostCharN 58 = false := by decide

/-- `uriCompose` on the split parts writes the URI back without the credentials and with the given scheme -/
theorem compose_parts (p : UParts) (h : wf p = true) (ns : Bytes) (hlen : (httpUrl ns p).length ≤ 0xfffe) :
    uriCompose (some ns) (partsOf p).host (partsOf p).port (partsOf p).path (partsOf p).query (partsOf p).fragment = httpUrl ns p := by
  have hw := wf_parts p h
  -- host
  have hhost : hostText (some p.host.text) = p.host.render := by
    have h3 := hw.2.2.1
    unfold hostText HostForm.text HostForm.render
    cases hh : p.host with
    | name x =>
      rw [hh] at h3
      simp only [Bool.and_eq_true, List.all_eq_true] at h3
      have hn : (58 : UInt8) ∉ x := by
        intro hm
        have := h3.2 58 hm
        simp [isHostChar, host58] at this
      simp [hn]
    | v6 x =>
      rw [hh] at h3
      simp only [Bool.and_eq_true] at h3
      have hm : (58 : UInt8) ∈ x := by simpa using h3.2
      simp [hm]
  -- port
  have hport : portText (p.port.getD 0) = (match p.port with | some n => [58] ++ decimal n | none => []) := by
    have h4 := hw.2.2.2.1
    unfold portText
    cases hp : p.port with
    | none => simp
    | some n =>
      rw [hp] at h4
      simp only [decide_eq_true_eq] at h4
      simp only [Option.getD_some]
      rw [if_pos (by omega)]
  -- path
  have hpath : pathText (if p.path.isEmpty then none else some p.path) = p.path := by
    have h5 := hw.2.2.2.2.1
    unfold pathText
    cases hp : p.path with
    | nil => rfl
    | cons c cs =>
      rw [hp] at h5
      simp only [Bool.and_eq_true, decide_eq_true_eq] at h5
      have hc : c = 47 := u8_eq_of_toNat 47 (by decide) h5.1
      subst hc
      simp
  have hfull : uriComposeFull (some ns) (some p.host.text) (p.port.getD 0) (if p.path.isEmpty then none else some p.path)
      p.query p.fragment = httpUrl ns p := by
    unfold uriComposeFull
    rw [hhost, hport, hpath]
    unfold httpUrl render optText
    cases p.port <;> cases p.query <;> cases p.fragment <;> simp
  unfold uriCompose
  simp only [partsOf]
  rw [hfull]
  exact List.take_of_length_le hlen

theorem tcp_cases (host : Bytes) (port : Option Nat) (u k : Option Bytes) (hp : ∀ n, port = some n → n ≠ 0) :
    (if port.getD 0 = 0 then Target.refused St.INVALID_ARGUMENT else Target.tcp host (port.getD 0) u k) = specTcp host port u k := by
  unfold specTcp
  cases port with
  | none => simp
  | some n => simp [hp n rfl]

theorem port_nonzero (p : UParts) (h : wf p = true) : ∀ n, p.port = some n → n ≠ 0 := by
  intro n hp
  have h4 := (wf_parts p h).2.2.2.1
  rw [hp] at h4
  simp only [decide_eq_true_eq] at h4
  omega

/-- **What the blocking service hands to the transport** for a well-formed URI is what the
grammar-level specification says: the HTTP transport gets the URI with the scheme rewritten and the
credentials removed, host, port, path, query and fragment exactly as written; the TCP transport gets
host and port; the file transport gets the path; any other scheme goes to the HTTP transport
unchanged.  Embedded credentials become login id and key unless explicit ones are given. -/
theorem blocking_service_spec (p : UParts) (loginId key : Option Bytes) (h : wf p = true)
    (hshape : ¬ (p.path = [] ∧ p.query = none ∧ p.fragment ≠ none)) (hlen : (render p).length ≤ 65000) :
    setService (render p) loginId key = specBlocking p loginId key := by
  unfold setService specBlocking
  rw [uriSplit_render p h hshape (by omega)]
  simp only
  have hs : (partsOf p).scheme = some p.scheme := rfl
  rw [hs, scheme_dispatch p.scheme]
  cases hr : route p.scheme with
  | http ns =>
    simp only [orElse]
    have hns : ns.length ≤ 5 := by
      unfold route at hr
      simp only at hr
      split at hr
      · cases hr; decide
      · split at hr
        · cases hr; decide
        · split at hr
          · cases hr; decide
          · split at hr
            · cases hr
            · split at hr <;> cases hr
    have hl : (httpUrl ns p).length ≤ 0xfffe := by
      have : (httpUrl ns p).length ≤ (render p).length + ns.length := by
        unfold httpUrl render
        simp only [List.length_append]
        cases p.cred <;> simp <;> omega
      omega
    rw [compose_parts p h ns hl]
    rfl
  | tcp =>
    simp only [partsOf]
    exact tcp_cases p.host.text p.port _ _ (port_nonzero p h)
  | file => rfl
  | other => rfl

end KsiVerif.Props.C20

namespace KsiVerif.Props.C20
open KsiVerif KsiVerif.Uri

theorem http_scheme_short (s ns : Bytes) (hr : route s = .http ns) : ns.length ≤ 5 ∧ ns ≠ [] := by
  unfold route at hr
  simp only at hr
  split at hr
  · cases hr; exact ⟨by decide, by simp⟩
  · split at hr
    · cases hr; exact ⟨by decide, by simp⟩
    · split at hr
      · cases hr; exact ⟨by decide, by simp⟩
      · split at hr
        · cases hr
        · split at hr <;> cases hr

theorem httpUrl_length (p : UParts) (ns : Bytes) : (httpUrl ns p).length ≤ (render p).length + ns.length := by
  unfold httpUrl render
  simp only [List.length_append]
  cases p.cred <;> simp <;> omega

/-- … and the asynchronous service: the same hand-over for the HTTP and TCP schemes; `file` and
every unknown scheme are refused -/
theorem async_service_spec (p : UParts) (loginId key : Option Bytes) (h : wf p = true)
    (hshape : ¬ (p.path = [] ∧ p.query = none ∧ p.fragment ≠ none)) (hlen : (render p).length ≤ 65000) :
    setEndpointAsync (render p) loginId key = specAsync p loginId key := by
  unfold setEndpointAsync specAsync
  rw [uriSplit_render p h hshape (by omega)]
  simp only
  have hs : (partsOf p).scheme = some p.scheme := rfl
  rw [hs, scheme_dispatch p.scheme]
  cases hr : route p.scheme with
  | http ns =>
    simp only [orElse]
    have hns := http_scheme_short _ _ hr
    have hl : (httpUrl ns p).length ≤ 0xfffe := by have := httpUrl_length p ns; omega
    have hne : (httpUrl ns p).isEmpty = false := by
      unfold httpUrl render
      cases hn : ns with
      | nil => exact absurd hn hns.2
      | cons a as => simp
    simp only [compose_parts p h ns hl, hne, Bool.false_eq_true, if_false]
    rfl
  | tcp =>
    simp only [partsOf]
    exact tcp_cases p.host.text p.port _ _ (port_nonzero p h)
  | file => rfl
  | other => rfl

/-- **Embedded credentials never reach the HTTP transport's URL**: whatever user name and key are
written into a ksi-scheme URI, the URL handed over is the same — the one rendered without them -/
theorem credentials_do_not_reach_the_url (p : UParts) (c c' : Option (Bytes × Bytes)) (l k l' k' : Option Bytes) (ns : Bytes)
    (h : wf { p with cred := c } = true) (h' : wf { p with cred := c' } = true)
    (hshape : ¬ (p.path = [] ∧ p.query = none ∧ p.fragment ≠ none))
    (hlen : (render { p with cred := c }).length ≤ 65000) (hlen' : (render { p with cred := c' }).length ≤ 65000)
    (hr : route p.scheme = .http ns) :
    ∃ u k1 u' k1', setService (render { p with cred := c }) l k = .http (httpUrl ns { p with cred := none }) u k1 ∧
      setService (render { p with cred := c' }) l' k' = .http (httpUrl ns { p with cred := none }) u' k1' := by
  rw [blocking_service_spec _ l k h hshape hlen, blocking_service_spec _ l' k' h' hshape hlen']
  unfold specBlocking
  simp only [hr]
  exact ⟨_, _, _, _, rfl, rfl⟩

/-- the login id and the key are the embedded ones unless explicit ones are given -/
theorem credential_precedence (a b : Option Bytes) :
    orElse a b = (match a with | some x => some x | none => b) := rfl

/-- non-vacuity: a concrete URI with everything in it is well formed, its parts are recovered, and
the HTTP transport is handed `https://[2001:db8::1]:8080/p?q=1#f` with login `u`, key `k:1` -/
example : wf ⟨[75, 83, 73, 43, 104, 116, 116, 112, 115], some ([117], [107, 58, 49]), .v6 [50, 48, 48, 49, 58, 100, 98, 56, 58, 58, 49], some 8080,
    [47, 112], some [113, 61, 49], some [102]⟩ = true := by decide

end KsiVerif.Props.C20
