import KsiVerif.Model.Sign
import KsiVerif.Props.C01
/-! # C07 — signing returns success only with a valid signature for the requested hash -/
namespace KsiVerif.Props.C07
open KsiVerif KsiVerif.Template KsiVerif.HashChain KsiVerif.Verify KsiVerif.Policy KsiVerif.Sign

theorem convAggr_ne_zero (st : Nat) (h : st ≠ 0) : PduMac.convAggr st ≠ 0 := by
  unfold PduMac.convAggr
  rw [if_neg h]
  by_cases h0 : st = 0x101
  · rw [if_pos h0]; decide
  · rw [if_neg h0]
    by_cases h1 : st = 0x102
    · rw [if_pos h1]; decide
    · rw [if_neg h1]
      by_cases h2 : st = 0x103
      · rw [if_pos h2]; decide
      · rw [if_neg h2]
        by_cases h3 : st = 0x104
        · rw [if_pos h3]; decide
        · rw [if_neg h3]
          by_cases h4 : st = 0x105
          · rw [if_pos h4]; decide
          · rw [if_neg h4]
            by_cases h5 : st = 0x106
            · rw [if_pos h5]; decide
            · rw [if_neg h5]
              by_cases h6 : st = 0x107
              · rw [if_pos h6]; decide
              · rw [if_neg h6]
                by_cases h7 : st = 0x200
                · rw [if_pos h7]; decide
                · rw [if_neg h7]
                  by_cases h8 : st = 0x300
                  · rw [if_pos h8]; decide
                  · rw [if_neg h8]
                    by_cases h9 : st = 0x301
                    · rw [if_pos h9]; decide
                    · rw [if_neg h9]
                      decide

/-- the level is put into the first link's level correction, nothing else changes -/
theorem addLevel_spec (level : Nat) (s s' : Sig) (h : addLevel level s = .ok s') :
    s'.cal = s.cal ∧ s'.pub = s.pub ∧ s'.auth = s.auth ∧ s'.rfc = s.rfc ∧
    (level = 0 → s' = s) ∧
    (level ≠ 0 → ∃ c cs l ls, s.chains = c :: cs ∧ c.links = l :: ls ∧ l.lc % 2 ^ 64 + level ≤ 0xff ∧
        s'.chains = { c with links := { l with lc := l.lc + level } :: ls } :: cs) := by
  unfold addLevel at h
  by_cases h0 : level = 0
  · rw [if_pos h0] at h; cases h
    exact ⟨rfl, rfl, rfl, rfl, fun _ => rfl, fun hn => absurd h0 hn⟩
  · rw [if_neg h0] at h
    cases hc : s.chains with
    | nil => rw [hc] at h; cases h
    | cons c cs =>
      rw [hc] at h
      simp only at h
      cases hl : c.links with
      | nil => rw [hl] at h; cases h
      | cons l ls =>
        rw [hl] at h
        simp only at h
        by_cases hb : l.lc % 2 ^ 64 + level > 0xff
        · rw [if_pos hb] at h; cases h
        · rw [if_neg hb] at h
          cases h
          exact ⟨rfl, rfl, rfl, rfl, fun hz => absurd hz h0, fun _ => ⟨c, cs, l, ls, rfl, hl, by omega, rfl⟩⟩

/-- what a successful signing call establishes -/
structure Signed (H : HashFn) (c : Cfg) (hash : Bytes) (level rid ver : Nat) (confAlg : Option Nat) (key reply : Bytes) (s : Sig) : Prop where
  /-- refused before anything is sent otherwise -/
  level_ok : level ≤ 0xff
  algorithm_trusted : trusted (hash.headD 0).toNat = true
  /-- the reply passed PDU authentication (C06) and carries a response object with the request's id and status zero -/
  authenticated : ∃ pdu fs, PduMac.deliver H c .aggr ver confAlg key reply = .ok pdu ∧
    PduMac.fieldOf c.tabs (PduMac.pduTable .aggr (PduMac.rootTagOf reply)) (respTag (PduMac.rootTagOf reply)) pdu = some (.obj fs) ∧
    vInt (fld c.tabs (respName (PduMac.rootTagOf reply)) 0x01 fs) = some rid ∧
    vInt (fld c.tabs (respName (PduMac.rootTagOf reply)) 0x04 fs) = some 0 ∧
    /- the signature is the response's elements with the requested level added to the first level correction -/
    addLevel level (Sig.ofValsIn c.tabs (respName (PduMac.rootTagOf reply)) fs) = .ok s
  /-- it is internally consistent and its input hash is the requested hash (C01 / C02) -/
  consistent : Consistent H s ⟨some hash, 0⟩

/-- **C07.** `KSI_Signature_signAggregated` returns a signature only under all of these conditions. -/
theorem sign_ok_requires (H : HashFn) (c : Cfg) (hash : Bytes) (level rid ver : Nat) (confAlg : Option Nat) (key reply : Bytes) (s : Sig)
    (h : signAggregated H c hash level rid ver confAlg key reply = .ok s) : Signed H c hash level rid ver confAlg key reply s := by
  unfold signAggregated at h
  by_cases hl : level > 0xff
  · rw [if_pos hl] at h; cases h
  · rw [if_neg hl] at h
    by_cases ht : trusted (hash.headD 0).toNat = true
    · rw [if_neg (by rw [ht]; decide)] at h
      cases hd : PduMac.deliver H c .aggr ver confAlg key reply with
      | error e => rw [hd] at h; cases h
      | ok pdu =>
        rw [hd] at h
        simp only at h
        cases hf : PduMac.fieldOf c.tabs (PduMac.pduTable .aggr (PduMac.rootTagOf reply)) (respTag (PduMac.rootTagOf reply)) pdu with
        | none => rw [hf] at h; cases h
        | some rv =>
          rw [hf] at h
          cases rv with
          | obj fs =>
            simp only at h
            by_cases hid : vInt (fld c.tabs (respName (PduMac.rootTagOf reply)) 0x01 fs) = some rid
            · rw [if_neg (by simpa using hid)] at h
              cases hst : vInt (fld c.tabs (respName (PduMac.rootTagOf reply)) 0x04 fs) with
              | none => rw [hst] at h; cases h
              | some status =>
                rw [hst] at h
                simp only at h
                by_cases hcv : PduMac.convAggr status = 0
                · rw [if_neg (by simpa using hcv)] at h
                  have hs0 : status = 0 := by
                    by_cases hz : status = 0
                    · exact hz
                    · exact absurd hcv (convAggr_ne_zero status hz)
                  subst hs0
                  split at h
                  · cases h
                  · split at h
                    · cases h
                    · cases ha : addLevel level (Sig.ofValsIn c.tabs (respName (PduMac.rootTagOf reply)) fs) with
                      | error e => rw [ha] at h; cases h
                      | ok s1 =>
                        rw [ha] at h
                        simp only at h
                        by_cases hvs : (verifyWith H Gen.policy_internal s1 ⟨some hash, 0⟩).status = 0
                        · rw [if_neg (by simpa using hvs)] at h
                          cases hfin : (verifyWith H Gen.policy_internal s1 ⟨some hash, 0⟩).final with
                          | none => rw [hfin] at h; cases h
                          | some pr =>
                            obtain ⟨r, e⟩ := pr
                            cases r with
                            | ok =>
                              rw [hfin] at h
                              simp only [Except.ok.injEq] at h
                              subst h
                              exact ⟨by omega, ht, ⟨pdu, fs, hd, hf, hid, hst, ha⟩,
                                (C01.internal_ok_iff H _ _).mp ⟨hvs, e, hfin⟩⟩
                            | na => rw [hfin] at h; cases h
                            | fail => rw [hfin] at h; cases h
                        · rw [if_pos hvs] at h; cases h
                · rw [if_pos hcv] at h; cases h
            · rw [if_pos hid] at h; cases h
          | int _ => cases h
          | str _ => cases h
          | oct _ => cases h
          | imprint _ => cases h
          | mdata _ => cases h
          | der _ => cases h
          | link _ _ => cases h
          | calLink _ _ => cases h
    · have hf : trusted (hash.headD 0).toNat = false := by simpa using ht
      rw [if_pos (by rw [hf]; rfl)] at h; cases h

/-- the returned signature's input hash is the requested hash, and (no legacy record can come out of a response) its first
link's level correction is at least the requested level -/
theorem signed_for_the_requested_hash (H : HashFn) (c : Cfg) (hash : Bytes) (level rid ver : Nat) (confAlg : Option Nat)
    (key reply : Bytes) (s : Sig) (h : signAggregated H c hash level rid ver confAlg key reply = .ok s) :
    s.docHash = hash ∧ imprintAlgo s.docHash = imprintAlgo hash := by
  have hc := (sign_ok_requires H c hash level rid ver confAlg key reply s h).consistent
  exact ⟨(hc.doc hash rfl).2, (hc.doc hash rfl).1⟩

theorem unauthenticated_reply_refused (H : HashFn) (c : Cfg) (hash : Bytes) (level rid ver : Nat) (confAlg : Option Nat)
    (key reply : Bytes) (e : Nat) (hd : PduMac.deliver H c .aggr ver confAlg key reply = .error e) (s : Sig) :
    signAggregated H c hash level rid ver confAlg key reply ≠ .ok s := by
  intro h
  obtain ⟨pdu, fs, hp, _⟩ := (sign_ok_requires H c hash level rid ver confAlg key reply s h).authenticated
  rw [hd] at hp; cases hp

/-- an input hash of an untrusted (deprecated or obsolete) algorithm is refused whatever the reply -/
theorem untrusted_algorithm_refused (H : HashFn) (c : Cfg) (hash : Bytes) (level rid ver : Nat) (confAlg : Option Nat)
    (key reply : Bytes) (ht : trusted (hash.headD 0).toNat = false) :
    signAggregated H c hash level rid ver confAlg key reply = .error (if level > 0xff then St.INVALID_FORMAT else UNTRUSTED_HASH_ALGORITHM) := by
  unfold signAggregated
  by_cases hl : level > 0xff
  · rw [if_pos hl, if_pos hl]
  · rw [if_neg hl, if_neg hl, if_pos (by rw [ht]; rfl)]

/-- SHA-1 is untrusted in the table generated from hash.c; SHA-256 is trusted (non-vacuity) -/
example : trusted 0 = false ∧ trusted 1 = true := by decide

end KsiVerif.Props.C07
