import KsiVerif.Proofs.BitWindow
/-!
# C17 — publication strings round-trip; every single-symbol corruption is rejected

Property theorems only.  Model: `KsiVerif.Pub` (base32.c, crc32.c, publicationsfile.c) with
the CRC table, the base-32 alphabet, the digit decode table (with the signedness its C type
gives it) and the hash-length table **regenerated from the current source on every run**.
-/
namespace KsiVerif.Props.C17
open KsiVerif KsiVerif.Pub

/-- Round trip for every 64-bit time and every imprint of a known algorithm. -/
theorem pub_roundtrip (time algo : Nat) (digest : Bytes) (ht : time < 2 ^ 64) (ha : algo < 256)
    (hv : Gen.hashValid algo = true) (hl : digest.length = Gen.hashLen algo) (hpos : 0 < Gen.hashLen algo) :
    fromPubString ((toPubString time (UInt8.ofNat algo :: digest)).map charByte) =
      .ok (time, UInt8.ofNat algo :: digest) :=
  fromPub_toPub time algo digest ht ha hv hl hpos

/-- The string is the reference encoding: base-32, groups of six, of
8-byte big-endian time ‖ imprint ‖ big-endian CRC-32 of both … -/
theorem pub_reference (time : Nat) (imprint : Bytes) :
    toPubString time imprint =
      b32encode (beBytes 8 time ++ imprint ++ beBytes 4 (crc32 (beBytes 8 time ++ imprint))) 6 := rfl

/-- … where the CRC is the standard reflected CRC-32 (polynomial 0xEDB88320): the table in
crc32.c is that polynomial's table. -/
theorem crc_table_is_standard : ∀ i, i < 256 →
    T i = bitStep (bitStep (bitStep (bitStep (bitStep (bitStep (bitStep (bitStep i))))))) :=
  table_is_reflected_poly

/-- Base-32 itself round-trips for all data and every group length. -/
theorem base32_roundtrip (data : Bytes) (g : Nat) :
    b32decode ((b32encode data g).map charByte) = .ok data :=
  b32decode_b32encode data g

/-- Characters outside the base-32 alphabet never contribute data bits: a byte that does
contribute five bits is (case-insensitively) the alphabet symbol of exactly that value. -/
theorem nonalphabet_no_bits : ∀ n, n < 256 → ∀ v, v < 32 →
    classify (UInt8.ofNat n) = .bits v → charByte (symChar v) = toUpper (UInt8.ofNat n) := by
  decide +kernel

/-- …and conversely every alphabet symbol contributes exactly its value. -/
theorem alphabet_decodes : ∀ v, v < 32 → classify (charByte (symChar v)) = .bits v :=
  classify_symChar

/-- Anything accepted has exactly the length `8 + 1 + digest length + 4` for a known
algorithm and a matching CRC: wrong total length or unknown algorithm ⇒ rejected. -/
theorem accepted_is_wellformed (s : List UInt8) (time : Nat) (imprint : Bytes)
    (h : fromPubString s = .ok (time, imprint)) :
    ∃ bin, b32decode s = .ok bin ∧
      bin.length = 8 + 1 + Gen.hashLen (bin.getD 8 0).toNat + 4 ∧
      0 < Gen.hashLen (bin.getD 8 0).toNat ∧ Gen.hashValid (bin.getD 8 0).toNat = true ∧
      crc32 (bin.take (bin.length - 4)) = beNat (bin.drop (bin.length - 4)) ∧
      time = beNat (bin.take 8) ∧ imprint = (bin.drop 8).take (Gen.hashLen (bin.getD 8 0).toNat + 1) :=
  fromPub_sound s time imprint h

/-- CRC-32 as implemented detects every error burst of up to 32 bits (≤ 4 consecutive bytes),
wherever it lies in a message of any length. -/
theorem crc_detects_burst32 (pre mid post e : Bytes) (hl : e.length = mid.length)
    (h4 : e.length ≤ 4) (hne : ∃ x ∈ e, x ≠ 0) :
    crc32 (pre ++ xorBytes mid e ++ post) ≠ crc32 (pre ++ mid ++ post) :=
  crc32_detects_burst pre mid post e hl h4 hne

/-- **Corruption inside time ‖ imprint is rejected.**  A replaced symbol changes 5 consecutive
bits (at most 2 bytes), two swapped adjacent symbols 10 consecutive bits (at most 3 bytes).
If a string decodes to a valid binary whose body was hit by such a non-zero pattern and whose
CRC field is intact, it is rejected. -/
theorem corrupted_body_rejected (s' : List UInt8) (pre mid post e : Bytes)
    (hl : e.length = mid.length) (h4 : e.length ≤ 4) (hne : ∃ x ∈ e, x ≠ 0)
    (hdec : b32decode s' = .ok (pre ++ xorBytes mid e ++ post ++ beBytes 4 (crc32 (pre ++ mid ++ post)))) :
    ∃ err, fromPubString s' = .error err := by
  unfold fromPubString
  rw [hdec]
  simp only
  split
  · exact ⟨_, rfl⟩
  · have hlen : (pre ++ xorBytes mid e ++ post ++ beBytes 4 (crc32 (pre ++ mid ++ post))).length - 4 =
        (pre ++ xorBytes mid e ++ post).length := by
      simp [beBytes_length]; omega
    rw [hlen, List.take_left, List.drop_left, beNat_beBytes, Nat.mod_eq_of_lt (crc32_lt _)]
    have := crc32_detects_burst pre mid post e hl h4 hne
    simp only [ne_eq, this, not_false_eq_true, ↓reduceIte]
    exact ⟨_, rfl⟩

/-- **Corruption confined to the CRC field is rejected.** -/
theorem corrupted_crc_field_rejected (s' : List UInt8) (body field' : Bytes)
    (hf : field'.length = 4) (hne : field' ≠ beBytes 4 (crc32 body))
    (hdec : b32decode s' = .ok (body ++ field')) :
    ∃ err, fromPubString s' = .error err := by
  unfold fromPubString
  rw [hdec]
  simp only
  split
  · exact ⟨_, rfl⟩
  · have hlen : (body ++ field').length - 4 = body.length := by simp [hf]
    rw [hlen, List.take_left, List.drop_left]
    have hcrc : crc32 body ≠ beNat field' := by
      intro heq
      apply hne
      -- a 4-byte big-endian field is determined by its value
      match field', hf with
      | [a, b, c, d], _ =>
        have ha := a.toNat_lt; have hb := b.toNat_lt; have hc := c.toNat_lt; have hd := d.toNat_lt
        have hv : beNat [a, b, c, d] = ((a.toNat * 256 + b.toNat) * 256 + c.toNat) * 256 + d.toNat := by
          simp [beNat]
        rw [heq, hv]
        simp only [beBytes]
        have e1 : (((a.toNat * 256 + b.toNat) * 256 + c.toNat) * 256 + d.toNat) / 256 ^ 3 % 256 = a.toNat := by omega
        have e2 : (((a.toNat * 256 + b.toNat) * 256 + c.toNat) * 256 + d.toNat) / 256 ^ 2 % 256 = b.toNat := by omega
        have e3 : (((a.toNat * 256 + b.toNat) * 256 + c.toNat) * 256 + d.toNat) / 256 ^ 1 % 256 = c.toNat := by omega
        have e4 : (((a.toNat * 256 + b.toNat) * 256 + c.toNat) * 256 + d.toNat) / 256 ^ 0 % 256 = d.toNat := by omega
        rw [e1, e2, e3, e4]
        simp
    simp only [ne_eq, hcrc, not_false_eq_true, ↓reduceIte]
    exact ⟨_, rfl⟩

/-- **Corruption straddling the boundary between `time ‖ imprint` and the CRC field is
rejected — one body octet, up to two field octets** (a replaced symbol whose five bits lie
across the boundary; two swapped symbols with at most eight of their ten bits in the body).
The stored CRC is big-endian while the register is reflected, so this is *not* the burst
theorem; it is proved from the generated table (`T_low16`). -/
theorem corrupted_straddle_1_2_rejected (s' : List UInt8) (pre : Bytes) (m b x y : UInt8)
    (hne : ¬ (b = 0 ∧ x = 0 ∧ y = 0))
    (hdec : b32decode s' = .ok (pre ++ xorBytes [m] [b] ++
      xorBytes (beBytes 4 (crc32 (pre ++ [m]))) [x, y, 0, 0])) :
    ∃ err, fromPubString s' = .error err := by
  unfold fromPubString
  rw [hdec]
  simp only
  split
  · exact ⟨_, rfl⟩
  · have hlen : (pre ++ xorBytes [m] [b] ++ xorBytes (beBytes 4 (crc32 (pre ++ [m]))) [x, y, 0, 0]).length - 4 =
        (pre ++ xorBytes [m] [b]).length := by
      simp [beBytes, xorBytes]
    rw [hlen, List.take_left, List.drop_left]
    have hcrc : crc32 (pre ++ xorBytes [m] [b]) ≠
        beNat (xorBytes (beBytes 4 (crc32 (pre ++ [m]))) [x, y, 0, 0]) :=
      fun h => hne (straddle_1_2 pre m b x y h)
    simp only [ne_eq, hcrc, not_false_eq_true, ↓reduceIte]
    exact ⟨_, rfl⟩

/-- **… two body octets, one field octet** (two swapped symbols with nine of their ten bits in
the body), from `T2_low24`.  With `corrupted_body_rejected` (window inside the body) and
`corrupted_crc_field_rejected` (window inside the field) every non-zero error confined to at
most three consecutive octets of the decoded binary is covered, wherever it lies. -/
theorem corrupted_straddle_2_1_rejected (s' : List UInt8) (pre : Bytes) (m1 m2 b1 b2 x : UInt8)
    (hne : ¬ (b1 = 0 ∧ b2 = 0 ∧ x = 0))
    (hdec : b32decode s' = .ok (pre ++ xorBytes [m1, m2] [b1, b2] ++
      xorBytes (beBytes 4 (crc32 (pre ++ [m1, m2]))) [x, 0, 0, 0])) :
    ∃ err, fromPubString s' = .error err := by
  unfold fromPubString
  rw [hdec]
  simp only
  split
  · exact ⟨_, rfl⟩
  · have hlen : (pre ++ xorBytes [m1, m2] [b1, b2] ++
        xorBytes (beBytes 4 (crc32 (pre ++ [m1, m2]))) [x, 0, 0, 0]).length - 4 =
        (pre ++ xorBytes [m1, m2] [b1, b2]).length := by
      simp [beBytes, xorBytes]
    rw [hlen, List.take_left, List.drop_left]
    have hcrc : crc32 (pre ++ xorBytes [m1, m2] [b1, b2]) ≠
        beNat (xorBytes (beBytes 4 (crc32 (pre ++ [m1, m2]))) [x, 0, 0, 0]) :=
      fun h => hne (straddle_2_1 pre m1 m2 b1 b2 x h)
    simp only [ne_eq, hcrc, not_false_eq_true, ↓reduceIte]
    exact ⟨_, rfl⟩

/-- The general form behind both: after an error `e` on the tail of the body and `d` on the
field, the comparison in `KSI_PublicationData_fromBase32` can succeed only if `d` is exactly
the register image of `e` — for error patterns of every length. -/
theorem straddle_accepts_only_if (pre mid e d : Bytes) (hl : e.length = mid.length) (hd : d.length = 4)
    (h : crc32 (pre ++ xorBytes mid e) = beNat (xorBytes (beBytes 4 (crc32 (pre ++ mid))) d)) :
    e.foldl crcStep 0 = beNat d :=
  tail_and_field_error pre mid e d hl hd h

/-- **A replaced symbol changes exactly its own five bits** (first half of the step from "symbol
k of the string" to "these octets of the binary"): replacing a character that contributes the
bits of `v` by one that contributes those of `v'` changes the bit string `KSI_base32Decode`
accumulates in one five-bit window at a multiple of five — or leaves it as it was when the
position lies behind an `=`.  Dashes, ignored digits and case play no part: the statement is
about any prefix `p` and suffix `q`.  The second half (five bits at 5k lie in at most two
consecutive octets, or in the dropped tail) is not proved; it is covered per string by the
exhaustive substitution run. -/
theorem replaced_symbol_changes_five_bits (v v' : Nat) (c c' : UInt8)
    (hc : classify c = .bits v) (hc' : classify c' = .bits v') (p q : List UInt8) (bits : List Bool)
    (h : decodeBits (p ++ c :: q) = .ok bits) :
    decodeBits (p ++ c' :: q) = .ok bits ∨
    ∃ A B, bits = A ++ fiveBits v ++ B ∧ decodeBits (p ++ c' :: q) = .ok (A ++ fiveBits v' ++ B) ∧
      A.length % 5 = 0 :=
  decodeBits_subst v v' c c' hc hc' p q bits h

/-- **A changed window of at most two octets anywhere in an accepted binary**: the changed
binary is refused — inside `time ‖ imprint`, inside the CRC field, or across the boundary. -/
theorem window2_same_or_rejected (s' : List UInt8) (body field pre mid mid' post : Bytes)
    (hf : field.length = 4) (hcrc : crc32 body = beNat field)
    (hbin : body ++ field = pre ++ mid ++ post) (hm : mid.length = mid'.length) (hm2 : mid.length ≤ 2)
    (hdec : b32decode s' = .ok (pre ++ mid' ++ post)) :
    mid' = mid ∨ ∃ err, fromPubString s' = .error err := by
  have hfield : field = beBytes 4 (crc32 body) := by rw [hcrc, beBytes4_beNat field hf]
  by_cases heq : mid' = mid
  · exact .inl heq
  right
  have hel : (xorBytes mid mid').length = mid.length := xorBytes_length mid mid' hm
  have hmid' : mid' = xorBytes mid (xorBytes mid mid') := (xorBytes_xorBytes mid mid' hm).symm
  have hne : ∃ x ∈ xorBytes mid mid', x ≠ 0 := by
    apply Classical.byContradiction
    intro hcon
    apply heq
    exact (xorBytes_zero_eq mid mid' hm (by
      intro x hx; apply Classical.byContradiction; intro hx0; exact hcon ⟨x, hx, hx0⟩)).symm
  have hlen := congrArg List.length hbin
  simp only [List.length_append, hf] at hlen
  by_cases hA : 4 ≤ post.length
  · -- the window lies inside the body
    have hp : post = post.take (post.length - 4) ++ post.drop (post.length - 4) := (List.take_append_drop _ _).symm
    have hfl : (post.drop (post.length - 4)).length = 4 := by rw [List.length_drop]; omega
    rw [hp, ← List.append_assoc] at hbin
    obtain ⟨hb, hfd⟩ := List.append_inj' hbin (by rw [hf, hfl])
    apply corrupted_body_rejected s' pre mid (post.take (post.length - 4)) (xorBytes mid mid') hel (by omega) hne
    rw [hdec, ← hmid', ← hb, ← hfield, hfd]
    congr 1
    simp [List.take_append_drop, List.append_assoc]
  · by_cases hB : mid.length + post.length ≤ 4
    · -- the window lies inside the CRC field
      have hp : pre = pre.take body.length ++ pre.drop body.length := (List.take_append_drop _ _).symm
      have htl : (pre.take body.length).length = body.length := by rw [List.length_take]; omega
      rw [hp, List.append_assoc, List.append_assoc] at hbin
      obtain ⟨hb, hfd⟩ := List.append_inj hbin htl.symm
      apply corrupted_crc_field_rejected s' body (pre.drop body.length ++ (mid' ++ post))
      · have := congrArg List.length hfd
        simp only [List.length_append, hf] at this ⊢
        omega
      · rw [← hfield, hfd]
        intro h
        exact heq (List.append_cancel_right (List.append_cancel_left h))
      · have hpre : body ++ pre.drop body.length = pre := by
          have := List.take_append_drop body.length pre
          rwa [← hb] at this
        rw [hdec]; congr 1
        simp only [← List.append_assoc]
        rw [hpre]
    · -- one octet of the body, one of the field
      have hm2' : mid.length = 2 := by omega
      have hp3 : post.length = 3 := by omega
      match mid, mid', post, hm2', hm, hp3 with
      | [m1, f1], [m1', f1'], [f2, f3, f4], _, _, _ =>
        have hbin' : body ++ field = (pre ++ [m1]) ++ [f1, f2, f3, f4] := by rw [hbin]; simp
        obtain ⟨hb, hfd⟩ := List.append_inj' hbin' (by rw [hf]; rfl)
        apply corrupted_straddle_1_2_rejected s' pre m1 (m1 ^^^ m1') (f1 ^^^ f1') 0
        · intro ⟨h1, h2, _⟩
          apply heq
          rw [UInt8.xor_eq_zero_iff.mp h1, UInt8.xor_eq_zero_iff.mp h2]
        · rw [hdec, ← hb, ← hfield, hfd]
          simp only [xorBytes]
          rw [← UInt8.xor_assoc, UInt8.xor_self, UInt8.zero_xor, ← UInt8.xor_assoc, UInt8.xor_self, UInt8.zero_xor]
          simp

/-- **A changed window of at most three octets anywhere in an accepted binary**: the changed
binary is refused — inside `time ‖ imprint`, inside the CRC field, or across the boundary
(one body octet with up to two field octets, or two body octets with one field octet). -/
theorem window3_same_or_rejected (s' : List UInt8) (body field pre mid mid' post : Bytes)
    (hf : field.length = 4) (hcrc : crc32 body = beNat field)
    (hbin : body ++ field = pre ++ mid ++ post) (hm : mid.length = mid'.length) (hm2 : mid.length ≤ 3)
    (hdec : b32decode s' = .ok (pre ++ mid' ++ post)) :
    mid' = mid ∨ ∃ err, fromPubString s' = .error err := by
  have hfield : field = beBytes 4 (crc32 body) := by rw [hcrc, beBytes4_beNat field hf]
  by_cases heq : mid' = mid
  · exact .inl heq
  right
  have hel : (xorBytes mid mid').length = mid.length := xorBytes_length mid mid' hm
  have hmid' : mid' = xorBytes mid (xorBytes mid mid') := (xorBytes_xorBytes mid mid' hm).symm
  have hne : ∃ x ∈ xorBytes mid mid', x ≠ 0 := by
    apply Classical.byContradiction
    intro hcon
    apply heq
    exact (xorBytes_zero_eq mid mid' hm (by
      intro x hx; apply Classical.byContradiction; intro hx0; exact hcon ⟨x, hx, hx0⟩)).symm
  have hlen := congrArg List.length hbin
  simp only [List.length_append, hf] at hlen
  by_cases hA : 4 ≤ post.length
  · -- the window lies inside the body
    have hp : post = post.take (post.length - 4) ++ post.drop (post.length - 4) := (List.take_append_drop _ _).symm
    have hfl : (post.drop (post.length - 4)).length = 4 := by rw [List.length_drop]; omega
    rw [hp, ← List.append_assoc] at hbin
    obtain ⟨hb, hfd⟩ := List.append_inj' hbin (by rw [hf, hfl])
    apply corrupted_body_rejected s' pre mid (post.take (post.length - 4)) (xorBytes mid mid') hel (by omega) hne
    rw [hdec, ← hmid', ← hb, ← hfield, hfd]
    congr 1
    simp [List.take_append_drop, List.append_assoc]
  · by_cases hB : mid.length + post.length ≤ 4
    · -- the window lies inside the CRC field
      have hp : pre = pre.take body.length ++ pre.drop body.length := (List.take_append_drop _ _).symm
      have htl : (pre.take body.length).length = body.length := by rw [List.length_take]; omega
      rw [hp, List.append_assoc, List.append_assoc] at hbin
      obtain ⟨hb, hfd⟩ := List.append_inj hbin htl.symm
      apply corrupted_crc_field_rejected s' body (pre.drop body.length ++ (mid' ++ post))
      · have := congrArg List.length hfd
        simp only [List.length_append, hf] at this ⊢
        omega
      · rw [← hfield, hfd]
        intro h
        exact heq (List.append_cancel_right (List.append_cancel_left h))
      · have hpre : body ++ pre.drop body.length = pre := by
          have := List.take_append_drop body.length pre
          rwa [← hb] at this
        rw [hdec]; congr 1
        simp only [← List.append_assoc]
        rw [hpre]
    · -- across the boundary
      have hcases : (mid.length = 2 ∧ post.length = 3) ∨ (mid.length = 3 ∧ post.length = 2) ∨
          (mid.length = 3 ∧ post.length = 3) := by omega
      rcases hcases with ⟨hm2', hp3⟩ | ⟨hm2', hp3⟩ | ⟨hm2', hp3⟩
      · -- one octet of the body, one of the field
        match mid, mid', post, hm2', hm, hp3 with
        | [m1, f1], [m1', f1'], [f2, f3, f4], _, _, _ =>
          have hbin' : body ++ field = (pre ++ [m1]) ++ [f1, f2, f3, f4] := by rw [hbin]; simp
          obtain ⟨hb, hfd⟩ := List.append_inj' hbin' (by rw [hf]; rfl)
          apply corrupted_straddle_1_2_rejected s' pre m1 (m1 ^^^ m1') (f1 ^^^ f1') 0
          · intro ⟨h1, h2, _⟩
            apply heq
            rw [UInt8.xor_eq_zero_iff.mp h1, UInt8.xor_eq_zero_iff.mp h2]
          · rw [hdec, ← hb, ← hfield, hfd]
            simp only [xorBytes]
            rw [← UInt8.xor_assoc, UInt8.xor_self, UInt8.zero_xor, ← UInt8.xor_assoc, UInt8.xor_self, UInt8.zero_xor]
            simp
      · -- one octet of the body, two of the field
        match mid, mid', post, hm2', hm, hp3 with
        | [m1, f1, f2], [m1', f1', f2'], [f3, f4], _, _, _ =>
          have hbin' : body ++ field = (pre ++ [m1]) ++ [f1, f2, f3, f4] := by rw [hbin]; simp
          obtain ⟨hb, hfd⟩ := List.append_inj' hbin' (by rw [hf]; rfl)
          apply corrupted_straddle_1_2_rejected s' pre m1 (m1 ^^^ m1') (f1 ^^^ f1') (f2 ^^^ f2')
          · intro ⟨h1, h2, h3⟩
            apply heq
            rw [UInt8.xor_eq_zero_iff.mp h1, UInt8.xor_eq_zero_iff.mp h2, UInt8.xor_eq_zero_iff.mp h3]
          · rw [hdec, ← hb, ← hfield, hfd]
            simp only [xorBytes]
            rw [← UInt8.xor_assoc, UInt8.xor_self, UInt8.zero_xor, ← UInt8.xor_assoc, UInt8.xor_self, UInt8.zero_xor,
              ← UInt8.xor_assoc, UInt8.xor_self, UInt8.zero_xor]
            simp
      · -- two octets of the body, one of the field
        match mid, mid', post, hm2', hm, hp3 with
        | [m1, m2, f1], [m1', m2', f1'], [f2, f3, f4], _, _, _ =>
          have hbin' : body ++ field = (pre ++ [m1, m2]) ++ [f1, f2, f3, f4] := by rw [hbin]; simp
          obtain ⟨hb, hfd⟩ := List.append_inj' hbin' (by rw [hf]; rfl)
          apply corrupted_straddle_2_1_rejected s' pre m1 m2 (m1 ^^^ m1') (m2 ^^^ m2') (f1 ^^^ f1')
          · intro ⟨h1, h2, h3⟩
            apply heq
            rw [UInt8.xor_eq_zero_iff.mp h1, UInt8.xor_eq_zero_iff.mp h2, UInt8.xor_eq_zero_iff.mp h3]
          · rw [hdec, ← hb, ← hfield, hfd]
            simp only [xorBytes]
            rw [← UInt8.xor_assoc, UInt8.xor_self, UInt8.zero_xor, ← UInt8.xor_assoc, UInt8.xor_self, UInt8.zero_xor,
              ← UInt8.xor_assoc, UInt8.xor_self, UInt8.zero_xor]
            simp

/-- **Every single-symbol substitution is rejected, unless it decodes to the identical data.**
For every string the library accepts as a publication string, every position holding a
character that contributes five bits, and every replacement character that contributes five
bits (any base-32 symbol in either case, or a digit the decode table maps to a value): the
changed string is refused, or `KSI_base32Decode` yields exactly the same octets as before
(only unused trailing padding bits, or a position behind an `=`, changed) — and then
`KSI_PublicationData_fromBase32`, a function of those octets, returns the identical data. -/
theorem single_symbol_substitution_rejected (v v' : Nat) (c c' : UInt8)
    (hc : classify c = .bits v) (hc' : classify c' = .bits v') (p q : List UInt8) (time : Nat) (imprint : Bytes)
    (hok : fromPubString (p ++ c :: q) = .ok (time, imprint)) :
    b32decode (p ++ c' :: q) = b32decode (p ++ c :: q) ∨
    ∃ err, fromPubString (p ++ c' :: q) = .error err := by
  obtain ⟨bin, hdec, hlen, _, _, hcrc, _, _⟩ := accepted_is_wellformed _ time imprint hok
  -- the bit string behind the accepted binary
  have hbits : ∃ bits, decodeBits (p ++ c :: q) = .ok bits ∧ bin = bitsToBytes bits := by
    unfold b32decode at hdec
    cases hd : decodeBits (p ++ c :: q) with
    | error e => rw [hd] at hdec; cases hdec
    | ok bits => rw [hd] at hdec; simp only [Except.ok.injEq] at hdec; exact ⟨bits, rfl, hdec.symm⟩
  obtain ⟨bits, hdb, hbin⟩ := hbits
  rcases decodeBits_subst v v' c c' hc hc' p q bits hdb with hsame | ⟨A, B, hAB, hdb', _⟩
  · left
    unfold b32decode
    rw [hsame, hdb]
  · obtain ⟨pre, mid, mid', post, h1, h2, hm, hm2⟩ := window_bytes A (fiveBits v) (fiveBits v') B rfl rfl
    have hdec' : b32decode (p ++ c' :: q) = .ok (pre ++ mid' ++ post) := by
      unfold b32decode; rw [hdb']; simp only; rw [h2]
    have hbin' : bin = pre ++ mid ++ post := by rw [hbin, hAB, h1]
    have hn : 4 ≤ bin.length := by omega
    have hfl : (bin.drop (bin.length - 4)).length = 4 := by rw [List.length_drop]; omega
    rcases window2_same_or_rejected (p ++ c' :: q) (bin.take (bin.length - 4)) (bin.drop (bin.length - 4))
        pre mid mid' post hfl hcrc (by rw [List.take_append_drop, hbin']) hm hm2 hdec' with heq | hrej
    · left
      rw [hdec', hdec, heq, hbin']
    · exact .inr hrej

/-- **Every swap of two neighbouring symbols is rejected, unless it decodes to the identical data**
(two equal symbols, padding bits only, or a position behind an `=`).  Neighbours in the symbol
sequence: `m` holds the characters between them that contribute nothing (a dash, ignored
digits; `m = []` for directly adjacent characters).  The ten bits of the two
symbols lie in at most three consecutive octets, and a changed window of three octets anywhere
in an accepted binary is refused (`window3_same_or_rejected`). -/
theorem adjacent_transposition_rejected (v1 v2 : Nat) (c1 c2 : UInt8)
    (h1 : classify c1 = .bits v1) (h2 : classify c2 = .bits v2) (m : List UInt8) (hskip : ∀ x ∈ m, classify x = .skip)
    (p q : List UInt8) (time : Nat) (imprint : Bytes)
    (hok : fromPubString (p ++ c1 :: (m ++ c2 :: q)) = .ok (time, imprint)) :
    b32decode (p ++ c2 :: (m ++ c1 :: q)) = b32decode (p ++ c1 :: (m ++ c2 :: q)) ∨
    ∃ err, fromPubString (p ++ c2 :: (m ++ c1 :: q)) = .error err := by
  obtain ⟨bin, hdec, hlen, _, _, hcrc, _, _⟩ := accepted_is_wellformed _ time imprint hok
  have hbits : ∃ bits, decodeBits (p ++ c1 :: (m ++ c2 :: q)) = .ok bits ∧ bin = bitsToBytes bits := by
    unfold b32decode at hdec
    cases hd : decodeBits (p ++ c1 :: (m ++ c2 :: q)) with
    | error e => rw [hd] at hdec; cases hdec
    | ok bits => rw [hd] at hdec; simp only [Except.ok.injEq] at hdec; exact ⟨bits, rfl, hdec.symm⟩
  obtain ⟨bits, hdb, hbin⟩ := hbits
  rcases decodeBits_swap v1 v2 c1 c2 h1 h2 m hskip p q bits hdb with hsame | ⟨A, B, hAB, hdb'⟩
  · left
    unfold b32decode
    rw [hsame, hdb]
  · obtain ⟨pre, mid, mid', post, e1, e2, hm, hm2⟩ :=
      window_bytes10 A (fiveBits v1 ++ fiveBits v2) (fiveBits v2 ++ fiveBits v1) B rfl (by simp [fiveBits])
    have hdec' : b32decode (p ++ c2 :: (m ++ c1 :: q)) = .ok (pre ++ mid' ++ post) := by
      unfold b32decode; rw [hdb']; simp only; rw [e2]
    have hbin' : bin = pre ++ mid ++ post := by rw [hbin, hAB, e1]
    have hn : 4 ≤ bin.length := by omega
    have hfl : (bin.drop (bin.length - 4)).length = 4 := by rw [List.length_drop]; omega
    rcases window3_same_or_rejected (p ++ c2 :: (m ++ c1 :: q)) (bin.take (bin.length - 4)) (bin.drop (bin.length - 4))
        pre mid mid' post hfl hcrc (by rw [List.take_append_drop, hbin']) hm hm2 hdec' with heq | hrej
    · left
      rw [hdec', hdec, heq, hbin']
    · exact .inr hrej

/-! Non-vacuity: a concrete SHA-256 publication meets the hypotheses of `pub_roundtrip`. -/
example : Gen.hashValid 1 = true ∧ Gen.hashLen 1 = 32 ∧ 0 < Gen.hashLen 1 := by decide
example : ∃ x ∈ ([0x10, 0x00] : Bytes), x ≠ 0 := ⟨0x10, by simp, by decide⟩
example : classify 65 = .bits 0 ∧ classify 55 = .bits 31 ∧ classify 45 = .skip := by decide
example : ¬ ((0x03 : UInt8) = 0 ∧ (0xC0 : UInt8) = 0 ∧ (0 : UInt8) = 0) := by decide

/-- a real publication string (time 1400604800, SHA-256) is accepted, and its 37th character is a
symbol: the hypotheses of `single_symbol_substitution_rejected` are met by `p`, `'7'`, `q` below
and any replacement symbol such as `'Q'` -/
example : (fromPubString ("AAAAAA-CTPOEI-AAOZ4D-T655P4-AMFBCG-A".toList.map charByte ++ charByte '7' ::
      "EYWT-IO2CJF-IFOXTF-NRZXVA-MIR6LJ-3JFLWJ-FYQZIQ".toList.map charByte)).toOption.map (·.1) = some 1400604800 ∧
    classify (charByte '7') = .bits 31 ∧ classify (charByte 'Q') = .bits 16 := by
  decide +kernel

end KsiVerif.Props.C17
