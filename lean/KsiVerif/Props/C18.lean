import KsiVerif.Proofs.PubFile
import KsiVerif.Proofs.PubLookup
import KsiVerif.Props.C10
/-! # C18 — publications file: strict structure, exact signed range, trust only via PKI, lookups -/
namespace KsiVerif.Props.C18
open KsiVerif KsiVerif.Tlv KsiVerif.Template KsiVerif.Verify KsiVerif.PubFile

/-- **Acceptance.** `KSI_PublicationsFile_parse` accepts exactly the octet strings that start with the magic header,
split into TLV records with nothing left over, have no record after a PKI-signature record, whose record sequence
conforms to the file schema (the generated table: one header, certificate records, publication records, one signature, in
that order; unknown records only when flagged non-critical) and whose known records all parse; the values are those
records' values and `signedDataLength` is the offset of the signature record. -/
theorem parse_iff (c : Cfg) (raw : Bytes) (vs : List (Nat × Val)) (sl : Nat) :
    parsePubFile c raw = .ok (vs, sl) ↔
      (raw ≠ [] ∧ raw.take 8 = PUB_MAGIC ∧
        ∃ recs, splitRecords (raw.length + 1) (raw.drop 8) = .ok recs ∧ sigLast recs = true ∧
          conforms (lookup c.tabs "KSI_PublicationsFile") (recs.map (·.el)) = true ∧
          ∃ ws, specValues (lookup c.tabs "KSI_PublicationsFile") (parseVal c.tabs c.derOK FUEL) (recs.map (·.el)) = some ws ∧
            vs = keyed (lookup c.tabs "KSI_PublicationsFile") ws ∧ sl = 8 + sigOffOf 0 0 recs) := by
  unfold parsePubFile
  by_cases he : raw.isEmpty = true
  · have : raw = [] := by simpa using he
    simp [this]
  · have hne : raw ≠ [] := by simpa using he
    rw [if_neg he]
    by_cases hm : raw.take 8 = PUB_MAGIC
    · have hb : ¬ ((raw.take 8 != PUB_MAGIC) = true) := by simp [hm]
      rw [if_neg hb]
      simp only [ne_eq, hne, not_false_eq_true, true_and, hm]
      cases hp : pubRun (lookup c.tabs "KSI_PublicationsFile") (parseVal c.tabs c.derOK FUEL) (raw.length + 1) {} (raw.drop 8) false 0 0 with
      | error e =>
        simp only [reduceCtorEq, false_iff, not_exists, not_and]
        intro recs h1 h2 h3 ws h4 _ _
        unfold conforms at h3
        simp only [Bool.and_eq_true] at h3
        have hrun := (run_spec (lookup c.tabs "KSI_PublicationsFile") (parseVal c.tabs c.derOK FUEL) (recs.map (·.el)) [] []
          (stOf (known (lookup c.tabs "KSI_PublicationsFile") (recs.map (·.el))) ws)).mpr ⟨h3.1.1, h3.1.2, ws, h4, by simp⟩
        rw [stOf_nil] at hrun
        have := (pubRun_spec (lookup c.tabs "KSI_PublicationsFile") (parseVal c.tabs c.derOK FUEL) (raw.length + 1) {} (raw.drop 8) false 0 0
          (stOf (known (lookup c.tabs "KSI_PublicationsFile") (recs.map (·.el))) ws) (sigOffOf 0 0 recs)).mpr
          ⟨recs, h1, fun h => Bool.noConfusion h, h2, hrun, rfl⟩
        rw [hp] at this; cases this
      | ok p =>
        obtain ⟨s, so⟩ := p
        simp only
        obtain ⟨recs, h1, _, h2, h3, h4⟩ := (pubRun_spec _ _ (raw.length + 1) {} (raw.drop 8) false 0 0 s so).mp hp
        have hr := (run_spec _ (parseVal c.tabs c.derOK FUEL) (recs.map (·.el)) [] [] s).mp (by rw [stOf_nil]; exact h3)
        obtain ⟨hu, hs, ws, hsv, hst⟩ := hr
        simp only [List.nil_append] at hst
        rw [hst, finalCheck_spec]
        by_cases hc : completeFrom (known (lookup c.tabs "KSI_PublicationsFile") (recs.map (·.el))) (lookup c.tabs "KSI_PublicationsFile") 0 = true
        · rw [if_pos hc]
          constructor
          · intro h
            simp only [Except.ok.injEq, Prod.mk.injEq] at h
            refine ⟨recs, h1, h2, ?_, ws, hsv, h.1.symm, by rw [← h.2, h4]⟩
            unfold conforms; simp [hu, hs, hc]
          · rintro ⟨recs', h1', _, _, ws', hsv', hvs, hsl⟩
            rw [h1] at h1'; cases h1'
            rw [hsv] at hsv'; cases hsv'
            rw [hvs, hsl, h4]
            rfl
        · rw [if_neg hc]
          simp only [reduceCtorEq, false_iff, not_exists, not_and]
          intro recs' h1' _ h3' _ _ _ _
          rw [h1] at h1'; cases h1'
          unfold conforms at h3'
          simp only [Bool.and_eq_true] at h3'
          exact hc h3'.2
    · have hb : (raw.take 8 != PUB_MAGIC) = true := by simpa using hm
      rw [if_pos hb]
      simp [hm]

/-! ## the file schema, read off the generated table -/

abbrev pubTable : List Entry := Gen.tKSI_PublicationsFile

theorem pubTable_lookup : lookup Gen.templates "KSI_PublicationsFile" = pubTable := by decide

/-- section number of a top-level tag: header 0, certificate record 1, publication record 2, signature 3 -/
def sec (tag : Nat) : Option Nat :=
  if tag = 0x701 then some 0 else if tag = 0x702 then some 1 else if tag = 0x703 then some 2 else if tag = 0x704 then some 3 else none

def dflt : Entry := ⟨0, 0, false, .int, 0, "", 0⟩

def secRow (tag : Nat) : Option (Nat × Entry) :=
  match sec tag with
  | some i => some (i, pubTable.getD i dflt)
  | none => none

theorem rowOf_eq (e : Elem) : rowOf pubTable e = secRow e.tag := by
  by_cases h1 : e.tag = 0x701
  · simp [rowOf, secRow, sec, pubTable, Gen.tKSI_PublicationsFile, findEntry, h1]
  · have h1' : ¬ (0x701 = e.tag) := fun h => h1 h.symm
    by_cases h2 : e.tag = 0x702
    · simp [rowOf, secRow, sec, pubTable, Gen.tKSI_PublicationsFile, findEntry, h2]
    · have h2' : ¬ (0x702 = e.tag) := fun h => h2 h.symm
      by_cases h3 : e.tag = 0x703
      · simp [rowOf, secRow, sec, pubTable, Gen.tKSI_PublicationsFile, findEntry, h3]
      · have h3' : ¬ (0x703 = e.tag) := fun h => h3 h.symm
        by_cases h4 : e.tag = 0x704
        · simp [rowOf, secRow, sec, pubTable, Gen.tKSI_PublicationsFile, findEntry, h4]
        · have h4' : ¬ (0x704 = e.tag) := fun h => h4 h.symm
          simp [rowOf, secRow, sec, pubTable, Gen.tKSI_PublicationsFile, findEntry, h1, h2, h3, h4, h1', h2', h3', h4']

theorem sec_cases (tag i : Nat) (h : sec tag = some i) :
    (tag = 0x701 ∧ i = 0) ∨ (tag = 0x702 ∧ i = 1) ∨ (tag = 0x703 ∧ i = 2) ∨ (tag = 0x704 ∧ i = 3) := by
  unfold sec at h
  by_cases h1 : tag = 0x701
  · rw [if_pos h1] at h; cases h; exact Or.inl ⟨h1, rfl⟩
  · rw [if_neg h1] at h
    by_cases h2 : tag = 0x702
    · rw [if_pos h2] at h; cases h; exact Or.inr (Or.inl ⟨h2, rfl⟩)
    · rw [if_neg h2] at h
      by_cases h3 : tag = 0x703
      · rw [if_pos h3] at h; cases h; exact Or.inr (Or.inr (Or.inl ⟨h3, rfl⟩))
      · rw [if_neg h3] at h
        by_cases h4 : tag = 0x704
        · rw [if_pos h4] at h; cases h; exact Or.inr (Or.inr (Or.inr ⟨h4, rfl⟩))
        · rw [if_neg h4] at h; cases h

theorem sec_lt (tag i : Nat) (h : sec tag = some i) : i < 4 := by
  rcases sec_cases tag i h with ⟨_, h⟩ | ⟨_, h⟩ | ⟨_, h⟩ | ⟨_, h⟩ <;> omega

theorem sec_tag (tag i : Nat) (h : sec tag = some i) : tag = 0x701 + i := by
  rcases sec_cases tag i h with ⟨h1, h2⟩ | ⟨h1, h2⟩ | ⟨h1, h2⟩ | ⟨h1, h2⟩ <;> omega

theorem rows_fixed_order : ∀ i, i < 4 → (pubTable.getD i dflt).has FLG_FIXED_ORDER = true ∧ (pubTable.getD i dflt).getter = i ∧
    ((pubTable.getD i dflt).multiple = false ↔ (i = 0 ∨ i = 3)) := by decide

theorem rowOf_of_sec (e : Elem) (i : Nat) (h : sec e.tag = some i) : rowOf pubTable e = some (i, pubTable.getD i dflt) := by
  rw [rowOf_eq, secRow, h]

/-- **Order of the sections**: of two known records, the earlier one belongs to an earlier or the same section -/
theorem sections_in_order (l1 l2 l3 : List Elem) (e1 e2 : Elem) (i1 i2 : Nat)
    (hc : conforms pubTable (l1 ++ e1 :: l2 ++ e2 :: l3) = true) (h1 : sec e1.tag = some i1) (h2 : sec e2.tag = some i2) : i1 ≤ i2 :=
  C10.fixed_order_sorted pubTable l1 l2 l3 e1 e2 i1 i2 _ _ hc (rowOf_of_sec e1 i1 h1) (rowOf_of_sec e2 i2 h2)
    (rows_fixed_order i1 (sec_lt _ _ h1)).1 (rows_fixed_order i2 (sec_lt _ _ h2)).1

/-- two records of the same section: only certificate records and publication records repeat -/
theorem header_and_signature_once (l1 l2 l3 : List Elem) (e1 e2 : Elem) (i : Nat)
    (hc : conforms pubTable (l1 ++ e1 :: l2 ++ e2 :: l3) = true) (h1 : sec e1.tag = some i) (h2 : sec e2.tag = some i) :
    i = 1 ∨ i = 2 := by
  have hlt := sec_lt _ _ h1
  have hm := C10.single_valued_once pubTable l1 l2 l3 e1 e2 i i _ _ hc (rowOf_of_sec e1 i h1) (rowOf_of_sec e2 i h2) rfl
  have := (rows_fixed_order i hlt).2.2
  have hn : ¬ (i = 0 ∨ i = 3) := fun h => by
    have h' := this.mpr h
    rw [hm] at h'; cases h'
  omega

/-- both mandatory records are there -/
theorem header_and_signature_present (es : List Elem) (hc : conforms pubTable es = true) :
    (∃ e ∈ es, e.tag = 0x701) ∧ (∃ e ∈ es, e.tag = 0x704) := by
  have h0 := (C10.mandatory_present pubTable es 0 (pubTable.getD 0 dflt) hc (by decide)).1 (by decide)
  have h3 := (C10.mandatory_present pubTable es 3 (pubTable.getD 3 dflt) hc (by decide)).1 (by decide)
  obtain ⟨e0, he0, u0, hr0⟩ := h0
  obtain ⟨e3, he3, u3, hr3⟩ := h3
  refine ⟨⟨e0, he0, ?_⟩, ⟨e3, he3, ?_⟩⟩
  · rw [rowOf_eq, secRow] at hr0
    cases hs : sec e0.tag with
    | none => rw [hs] at hr0; cases hr0
    | some i =>
      rw [hs] at hr0
      simp only [Option.some.injEq, Prod.mk.injEq] at hr0
      have := sec_tag _ _ hs; omega
  · rw [rowOf_eq, secRow] at hr3
    cases hs : sec e3.tag with
    | none => rw [hs] at hr3; cases hr3
    | some i =>
      rw [hs] at hr3
      simp only [Option.some.injEq, Prod.mk.injEq] at hr3
      have := sec_tag _ _ hs; omega

/-- **The signed range is exactly everything before the signature record, and that record ends the file.** -/
theorem signed_range_exact (c : Cfg) (hc : c.tabs = Gen.templates) (raw : Bytes) (vs : List (Nat × Val)) (sl : Nat)
    (h : parsePubFile c raw = .ok (vs, sl)) :
    ∃ body sigRec hd, raw = PUB_MAGIC ++ body ++ sigRec ∧ sl = 8 + body.length ∧ sl = raw.length - sigRec.length ∧
      memRead sigRec = .ok hd ∧ hd.tag = 0x704 ∧ sigRec.length = hd.hdrLen + hd.datLen := by
  obtain ⟨_, hmagic, recs, hsplit, hlast, hconf, ws, _, _, hsl⟩ := (parse_iff c raw vs sl).mp h
  rw [hc, pubTable_lookup] at hconf
  obtain ⟨e, he, htag⟩ := (header_and_signature_present _ hconf).2
  obtain ⟨r, hr, rfl⟩ := List.mem_map.mp he
  obtain ⟨pre, hrecs, hpre⟩ := sigLast_split recs r hlast hr htag
  obtain ⟨hd, hm, ht, hl⟩ := split_records_are_tlvs _ _ _ hsplit r hr
  have hcat := split_concat _ _ _ hsplit
  rw [hrecs] at hcat hsl
  rw [sigOffOf_spec pre r 0 0 hpre htag] at hsl
  simp only [List.map_append, List.map_cons, List.map_nil, List.flatten_append, List.flatten_cons, List.flatten_nil,
    List.append_nil] at hcat
  have hraw : raw = PUB_MAGIC ++ (pre.map (·.raw)).flatten ++ r.raw := by
    have := (List.take_append_drop 8 raw).symm
    rw [hmagic, hcat] at this
    rw [this]; simp [List.append_assoc]
  have hlen : raw.length = 8 + ((pre.map (·.raw)).flatten).length + r.raw.length := by
    have h8 : PUB_MAGIC.length = 8 := by decide
    have := congrArg List.length hraw
    simp only [List.length_append, h8] at this
    exact this
  exact ⟨(pre.map (·.raw)).flatten, r.raw, hd, hraw, by omega, by omega, hm, by rw [ht, htag], hl⟩

/-! ## trust -/

theorem constraints_ok_iff (pki : Pki) (sg : Bytes) : ∀ (cs : Constraints),
    constraintsStatus pki sg cs = 0 ↔ ∀ c ∈ cs, pki.subject sg c.1 = some c.2 := by
  intro cs
  induction cs with
  | nil => simp [constraintsStatus]
  | cons c rest ih =>
    obtain ⟨oid, val⟩ := c
    simp only [constraintsStatus, List.mem_cons, forall_eq_or_imp]
    cases hs : pki.subject sg oid with
    | none => simp [PKI_CERTIFICATE_NOT_TRUSTED]
    | some v =>
      by_cases hv : v = val
      · simp [hv, ih]
      · simp [hv, PKI_CERTIFICATE_NOT_TRUSTED]

/-- **Trusted exactly when** a signature record exists, the PKCS#7 signature verifies over exactly the signed range,
the signer certificate chains to a configured anchor, a non-empty constraint set is configured (on the file, else on the
context) and every constraint names a subject attribute present with exactly that value. -/
theorem verify_ok_iff (pki : Pki) (raw : Bytes) (sl : Nat) (sig : Option Bytes) (fileCons ctxCons : Option Constraints) :
    verify pki raw sl sig fileCons ctxCons = 0 ↔
      ∃ sg cs, sig = some sg ∧ pki.pkcs7 sg (raw.take sl) = 0 ∧ pki.chain sg = 0 ∧
        (fileCons.orElse fun _ => ctxCons) = some cs ∧ cs ≠ [] ∧ ∀ c ∈ cs, pki.subject sg c.1 = some c.2 := by
  unfold verify
  cases sig with
  | none => simp [PUBLICATIONS_FILE_NOT_SIGNED_WITH_PKI]
  | some sg =>
    simp only [Option.some.injEq, exists_and_left, exists_eq_left']
    by_cases h1 : pki.pkcs7 sg (raw.take sl) = 0
    · simp only [h1, ne_eq, not_true_eq_false, if_false, true_and]
      by_cases h2 : pki.chain sg = 0
      · simp only [h2, not_true_eq_false, if_false, true_and]
        cases hc : (fileCons.orElse fun _ => ctxCons) with
        | none => simp [PUBFILE_VERIFICATION_NOT_CONFIGURED]
        | some cs =>
          cases cs with
          | nil => simp [PUBFILE_VERIFICATION_NOT_CONFIGURED]
          | cons c rest =>
            simp only [Option.some.injEq, ne_eq, exists_eq_left', reduceCtorEq, not_false_eq_true, true_and]
            exact constraints_ok_iff pki sg (c :: rest)
      · simp [h2]
    · simp [h1]

/-- without any configured constraint the file is never trusted -/
theorem no_constraints_never_trusted (pki : Pki) (raw : Bytes) (sl : Nat) (sig : Option Bytes) :
    verify pki raw sl sig none none ≠ 0 ∧ verify pki raw sl sig (some []) none ≠ 0 ∧ verify pki raw sl sig none (some []) ≠ 0 := by
  refine ⟨?_, ?_, ?_⟩ <;> intro h <;> obtain ⟨sg, cs, _, _, _, h4, h5, _⟩ := (verify_ok_iff _ _ _ _ _ _).mp h <;> simp at h4
  · exact h5 h4
  · exact h5 h4

/-- the verdict depends on the file's octets only through the signed range (and the signature record) -/
theorem verify_reads_only_signed_range (pki : Pki) (raw raw' : Bytes) (sl : Nat) (sig : Option Bytes) (fc cc : Option Constraints)
    (h : raw.take sl = raw'.take sl) : verify pki raw sl sig fc cc = verify pki raw' sl sig fc cc := by
  unfold verify; rw [h]

/-- a wrong, missing or merely prefix-equal constraint value is refused -/
theorem wrong_constraint_refused (pki : Pki) (raw : Bytes) (sl : Nat) (sg : Bytes) (cs : Constraints) (oid val : String)
    (hc : (oid, val) ∈ cs) (hv : pki.subject sg oid ≠ some val) : verify pki raw sl (some sg) (some cs) none ≠ 0 := by
  intro h
  obtain ⟨sg', cs', h1, _, _, h4, _, h6⟩ := (verify_ok_iff _ _ _ _ _ _).mp h
  cases h1
  simp only [Option.orElse, Option.some.injEq] at h4
  subst h4
  exact hv (h6 (oid, val) hc)

/-! ## lookups against a reference scan -/

/-- by time: the first record with that time; none exactly when there is none -/
theorem by_time_spec (ps : List PubRec) (t : Nat) :
    (∀ r, byTime ps t = some r → r ∈ ps ∧ r.time = t ∧ ∃ l1 l2, ps = l1 ++ r :: l2 ∧ ∀ p ∈ l1, p.time ≠ t) ∧
    (byTime ps t = none ↔ ∀ p ∈ ps, p.time ≠ t) := by
  unfold byTime
  constructor
  · intro r h
    obtain ⟨h1, l1, l2, h2, h3⟩ := List.find?_eq_some_iff_append.mp h
    refine ⟨by rw [h2]; simp, by simpa using h1, l1, l2, h2, ?_⟩
    intro p hp; simpa using h3 p hp
  · simp [List.find?_eq_none]

/-- by publication (time and imprint): the first record with both -/
theorem find_spec (ps : List PubRec) (t : Nat) (im : Bytes) :
    (∀ r, findPub ps t im = some r → r ∈ ps ∧ r.time = t ∧ r.imprint = im) ∧
    (findPub ps t im = none ↔ ∀ p ∈ ps, ¬ (p.time = t ∧ p.imprint = im)) := by
  unfold findPub
  constructor
  · intro r h
    obtain ⟨h1, l1, l2, h2, _⟩ := List.find?_eq_some_iff_append.mp h
    simp only [Bool.and_eq_true, beq_iff_eq] at h1
    exact ⟨by rw [h2]; simp, h1.1, h1.2⟩
  · simp [List.find?_eq_none]

/-- nearest: a record not before `t` with the earliest such time — the last one in file order among equals; none
exactly when every record is before `t` -/
theorem nearest_spec (ps : List PubRec) (t : Nat) :
    (∀ r, nearest ps t = some r → r ∈ ps ∧ t ≤ r.time ∧ (∀ p ∈ ps, t ≤ p.time → r.time ≤ p.time) ∧
        ∃ l1 l2, ps = l1 ++ r :: l2 ∧ ∀ p ∈ l2, t ≤ p.time → r.time < p.time) ∧
    (nearest ps t = none ↔ ∀ p ∈ ps, p.time < t) := by
  have hinv := nearest_inv ps t
  constructor
  · intro r hr
    rcases hinv with ⟨hn, _⟩ | ⟨r', l1, l2, h1, h2, h3, h4, h5⟩
    · rw [hn] at hr; cases hr
    · rw [h1] at hr; cases hr
      refine ⟨by rw [h2]; simp, h3, ?_, l1, l2, h2, h5⟩
      intro p hp hpt
      rw [h2] at hp
      rcases List.mem_append.mp hp with hp | hp
      · exact h4 p hp hpt
      · rcases List.mem_cons.mp hp with rfl | hp
        · exact Nat.le_refl _
        · exact Nat.le_of_lt (h5 p hp hpt)
  · constructor
    · intro hn
      rcases hinv with ⟨_, hall⟩ | ⟨r', _, _, h1, _⟩
      · exact hall
      · rw [hn] at h1; cases h1
    · intro hall
      rcases hinv with ⟨hn, _⟩ | ⟨r', l1, l2, _, h2, h3, _⟩
      · exact hn
      · have := hall r' (by rw [h2]; simp); omega

/-- latest: the record with the greatest time among those not before `t` (all records when no time is given) — the
last one in file order among equals; none exactly when no record qualifies -/
theorem latest_spec (ps : List PubRec) (t : Option Nat) :
    (∀ r, latest ps t = some r → r ∈ ps ∧ t.all (· ≤ r.time) = true ∧ (∀ p ∈ ps, t.all (· ≤ p.time) = true → p.time ≤ r.time) ∧
        ∃ l1 l2, ps = l1 ++ r :: l2 ∧ ∀ p ∈ l2, t.all (· ≤ p.time) = true → p.time < r.time) ∧
    (latest ps t = none ↔ ∀ p ∈ ps, t.all (· ≤ p.time) = false) := by
  have hinv := latest_inv ps t
  constructor
  · intro r hr
    rcases hinv with ⟨hn, _⟩ | ⟨r', l1, l2, h1, h2, h3, h4, h5⟩
    · rw [hn] at hr; cases hr
    · rw [h1] at hr; cases hr
      refine ⟨by rw [h2]; simp, h3, ?_, l1, l2, h2, h5⟩
      intro p hp hpt
      rw [h2] at hp
      rcases List.mem_append.mp hp with hp | hp
      · exact h4 p hp hpt
      · rcases List.mem_cons.mp hp with rfl | hp
        · exact Nat.le_refl _
        · exact Nat.le_of_lt (h5 p hp hpt)
  · constructor
    · intro hn
      rcases hinv with ⟨_, hall⟩ | ⟨r', _, _, h1, _⟩
      · exact hall
      · rw [hn] at h1; cases h1
    · intro hall
      rcases hinv with ⟨hn, _⟩ | ⟨r', l1, l2, _, h2, h3, _⟩
      · exact hn
      · have := hall r' (by rw [h2]; simp); rw [this] at h3; cases h3

/-- certificate by id: the first record with the identical id -/
theorem cert_by_id_spec (cs : List CertRec) (id : Bytes) :
    (∀ r, certById cs id = some r → r ∈ cs ∧ r.id = id) ∧ (certById cs id = none ↔ ∀ c ∈ cs, c.id ≠ id) := by
  unfold certById
  constructor
  · intro r h
    obtain ⟨h1, l1, l2, h2, _⟩ := List.find?_eq_some_iff_append.mp h
    exact ⟨by rw [h2]; simp, by simpa using h1⟩
  · simp [List.find?_eq_none]

example : nearest [⟨5, [1]⟩, ⟨9, [2]⟩, ⟨7, [3]⟩, ⟨7, [4]⟩] 6 = some ⟨7, [4]⟩ := by decide
example : latest [⟨5, [1]⟩, ⟨9, [2]⟩, ⟨9, [3]⟩, ⟨7, [4]⟩] none = some ⟨9, [3]⟩ := by decide
example : latest [⟨5, [1]⟩, ⟨9, [2]⟩] (some 10) = none := by decide

end KsiVerif.Props.C18
