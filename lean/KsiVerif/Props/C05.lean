import KsiVerif.Proofs.Policy
/-!
# C05 — the policy engine evaluates rule trees with the documented AND/OR/fallback semantics

Property theorems only.  Model: `KsiVerif.Policy` (policy.c `Rule_verify`,
`KSI_SignatureVerifier_verify`).  Statements hold for every rule tree (any depth and
width), every assignment `ρ` of outcomes to basic rules, every fallback chain.
-/
namespace KsiVerif.Props.C05
open KsiVerif KsiVerif.Policy

/-- A FAIL or an internal error of an element ends its list at once, whatever the element's
type and whatever follows. -/
theorem fail_or_error_ends_list (ρ : Nat → Outcome) (r : Rule) (rest : List Rule)
    (h : (evalRule ρ r).status ≠ 0 ∨ (evalRule ρ r).res = .fail) :
    evalList ρ (r :: rest) = evalRule ρ r := by
  cases rest with
  | nil => unfold evalList; rfl
  | cons r' rest =>
    unfold evalList
    have : stops r (evalRule ρ r) = true := by
      unfold stops
      rcases h with h | h
      · simp [h]
      · simp [h]
    simp [this]

/-- A basic or AND element lets evaluation continue only on OK: any other result is the
result of the list and nothing after it is invoked. -/
theorem basic_and_continue_only_on_ok (ρ : Nat → Outcome) (r : Rule) (rest : List Rule)
    (hr : r.isOr = false) (h : (evalRule ρ r).res ≠ .ok) :
    evalList ρ (r :: rest) = evalRule ρ r := by
  cases rest with
  | nil => unfold evalList; rfl
  | cons r' rest =>
    unfold evalList
    have : stops r (evalRule ρ r) = true := by
      unfold stops
      split
      · rfl
      · cases hres : (evalRule ρ r).res <;> simp_all
    simp [this]

/-- …and on OK (status OK) the next element is evaluated; the list's result is that of the
remainder, the invocations are appended. -/
theorem basic_and_continue_on_ok (ρ : Nat → Outcome) (r r' : Rule) (rest : List Rule)
    (hr : r.isOr = false) (hs : (evalRule ρ r).status = 0) (h : (evalRule ρ r).res = .ok) :
    evalList ρ (r :: r' :: rest) =
      { evalList ρ (r' :: rest) with
        trace := (evalRule ρ r).trace ++ (evalList ρ (r' :: rest)).trace } := by
  rw [evalList]
  have : stops r (evalRule ρ r) = false := by simp [stops, hs, h, hr]
  simp [this]

/-- An OR element ends its list on OK. -/
theorem or_ends_list_on_ok (ρ : Nat → Outcome) (r : Rule) (rest : List Rule)
    (hr : r.isOr = true) (h : (evalRule ρ r).res = .ok) :
    evalList ρ (r :: rest) = evalRule ρ r := by
  cases rest with
  | nil => unfold evalList; rfl
  | cons r' rest =>
    unfold evalList
    have : stops r (evalRule ρ r) = true := by
      unfold stops; split
      · rfl
      · simp [h, hr]
    simp [this]

/-- An inconclusive OR element passes on to the next element. -/
theorem or_passes_on_when_na (ρ : Nat → Outcome) (r r' : Rule) (rest : List Rule)
    (hr : r.isOr = true) (hs : (evalRule ρ r).status = 0) (h : (evalRule ρ r).res = .na) :
    evalList ρ (r :: r' :: rest) =
      { evalList ρ (r' :: rest) with
        trace := (evalRule ρ r).trace ++ (evalList ρ (r' :: rest)).trace } := by
  rw [evalList]
  have : stops r (evalRule ρ r) = false := by simp [stops, hs, h, hr]
  simp [this]

/-- The reported status, result and error code are those of the last rule invoked. -/
theorem reported_is_last_rule (ρ : Nat → Outcome) (rs : List Rule) (hne : rs ≠ [])
    (hw : wfList rs = true) :
    ∃ pre id, (evalList ρ rs).trace = pre ++ [id] ∧ (evalList ρ rs).outcome = ρ id :=
  (inv_list ρ rs hne hw).last

/-- A FAIL or error of an invoked rule is never masked and nothing is invoked after it:
such a rule is the last entry of the trace (and so, by `reported_is_last_rule`, the
reported result). -/
theorem bad_rule_is_last (ρ : Nat → Outcome) (rs : List Rule) (hne : rs ≠ [])
    (hw : wfList rs = true) (pre : List Nat) (id : Nat) (post : List Nat)
    (ht : (evalList ρ rs).trace = pre ++ id :: post)
    (hbad : (ρ id).status ≠ 0 ∨ (ρ id).res = .fail) : post = [] := by
  by_cases hp : post = []
  · exact hp
  · exact absurd hbad ((inv_list ρ rs hne hw).notbad pre id post ht hp)

/-- Rules are invoked strictly in order: the trace is a subsequence of the depth-first,
left-to-right listing of the tree (rules are skipped, never reordered or repeated). -/
theorem invoked_in_order (ρ : Nat → Outcome) (rs : List Rule) :
    (evalList ρ rs).trace.Sublist (dfsList rs) :=
  trace_sublist_list ρ rs

/-- A rule array without rules is an internal error, not a verdict. -/
theorem empty_rule_array_is_error (ρ : Nat → Outcome) : (evalList ρ []).status ≠ 0 := by
  unfold evalList emptyRun; decide

/-! ### fallback -/

/-- Fallback semantics, complete characterisation.  With `k = v.policies` the number of
policies evaluated: every policy before the last evaluated one ended without error and with
FAIL or NA (so a fallback is evaluated exactly when its predecessor ended so); the verdict is
that of the last policy evaluated; evaluation stops after OK; an internal error (or a policy
without rule array) is returned as a status without verdict and stops the chain. -/
theorem fallback_semantics (ρ : Nat → Outcome) : ∀ (ps : List PolicyRules), ps ≠ [] →
    let v := verify ρ ps
    1 ≤ v.policies ∧ v.policies ≤ ps.length ∧
    (∀ i, i + 1 < v.policies → ∃ rs, ps[i]? = some (some rs) ∧
        (evalList ρ rs).status = 0 ∧ (evalList ρ rs).res ≠ .ok) ∧
    (match ps[v.policies - 1]? with
     | some (some rs) =>
        if (evalList ρ rs).status ≠ 0 then
          v.status = (evalList ρ rs).status ∧ v.final = none
        else
          v.status = 0 ∧ v.final = some ((evalList ρ rs).res, (evalList ρ rs).err) ∧
            ((evalList ρ rs).res = .ok ∨ v.policies = ps.length)
     | some none => v.status ≠ 0 ∧ v.final = none
     | none => False)
  | [], h => absurd rfl h
  | none :: rest, _ => by
    simp [verify, St.INVALID_ARGUMENT]
  | some rs :: rest, _ => by
    by_cases hs : (evalList ρ rs).status ≠ 0
    · simp [verify, hs]
    · by_cases hok : (evalList ρ rs).res = .ok
      · simp [verify, hs, hok]
      · cases rest with
        | nil => simp [verify, hs, hok]
        | cons q rest' =>
          have ih := fallback_semantics ρ (q :: rest') (by simp)
          simp only at ih
          obtain ⟨h1, h2, h3, h4⟩ := ih
          have hv : verify ρ (some rs :: q :: rest') =
              { verify ρ (q :: rest') with
                trace := (evalList ρ rs).trace ++ (verify ρ (q :: rest')).trace,
                policies := (verify ρ (q :: rest')).policies + 1 } := by
            rw [verify]; simp [hs, hok]
          simp only [hv, List.length_cons]
          refine ⟨by omega, by simp at h2; omega, ?_, ?_⟩
          · intro i hi
            cases i with
            | zero => exact ⟨rs, rfl, by simpa using hs, hok⟩
            | succ j => simpa using h3 j (by omega)
          · have : (verify ρ (q :: rest')).policies + 1 - 1 = ((verify ρ (q :: rest')).policies - 1) + 1 := by omega
            rw [this, List.getElem?_cons_succ]
            revert h4
            cases (q :: rest')[(verify ρ (q :: rest')).policies - 1]? with
            | none => simp
            | some o =>
              cases o with
              | none => simp
              | some rs' =>
                simp only [List.length_cons]
                split <;> simp_all

/-- Corollary: never after OK. -/
theorem no_fallback_after_ok (ρ : Nat → Outcome) (rs : List Rule) (rest : List PolicyRules)
    (hs : (evalList ρ rs).status = 0) (hok : (evalList ρ rs).res = .ok) :
    verify ρ (some rs :: rest) = ⟨0, some (.ok, (evalList ρ rs).err), (evalList ρ rs).trace, 1⟩ := by
  simp [verify, hs, hok]

/-- Corollary: never after an internal error, which is returned without a verdict. -/
theorem no_fallback_after_error (ρ : Nat → Outcome) (rs : List Rule) (rest : List PolicyRules)
    (hs : (evalList ρ rs).status ≠ 0) :
    verify ρ (some rs :: rest) = ⟨(evalList ρ rs).status, none, (evalList ρ rs).trace, 1⟩ := by
  simp [verify, hs]

/-- Corollary: the fallback *is* evaluated after FAIL or NA. -/
theorem fallback_after_fail_or_na (ρ : Nat → Outcome) (rs : List Rule) (q : PolicyRules)
    (rest : List PolicyRules) (hs : (evalList ρ rs).status = 0) (hok : (evalList ρ rs).res ≠ .ok) :
    verify ρ (some rs :: q :: rest) =
      { verify ρ (q :: rest) with
        trace := (evalList ρ rs).trace ++ (verify ρ (q :: rest)).trace,
        policies := (verify ρ (q :: rest)).policies + 1 } := by
  rw [verify]; simp [hs, hok]

/-! Non-vacuity: a well-formed three-level tree in which an OR element is inconclusive,
a later basic rule fails, and a fallback is tried. -/
def exρ : Nat → Outcome
  | 1 => ⟨0, .na, 0⟩
  | 3 => ⟨0, .fail, 0x201⟩
  | _ => ⟨0, .ok, 0⟩
def exTree : List Rule := [.or [.basic 1, .basic 2], .and [.basic 0, .or [.basic 3]], .basic 4]
example : wfList exTree = true ∧ exTree ≠ [] := by decide
example : evalList exρ exTree = ⟨0, .fail, 0x201, [1, 0, 3]⟩ := by decide
example : verify exρ [some exTree, some [.basic 5]] = ⟨0, some (.ok, 0), [1, 0, 3, 5], 2⟩ := by decide

end KsiVerif.Props.C05
