import KsiVerif.Proofs.TlvParse
/-!
# C09 — TLV encoding round-trips and never emits or accepts a mis-sized element

Property theorems only.  Model: `KsiVerif.Tlv` (tlv.c / fast_tlv.c / tlv_element.c);
format definition: `KsiVerif.TlvSpec`.  All statements are for every tree / byte string /
buffer size — no bound on payload sizes, number of children or nesting depth.
-/
namespace KsiVerif.Props.C09
open KsiVerif KsiVerif.Tlv KsiVerif.TlvSpec KsiVerif.TlvProofs

/-- Any successful serialization (any output-buffer size) is the format's encoding of the
tree, fits the buffer, and every node's content fits the 16-bit length field. -/
theorem serialize_sound (t : Tlv) (room : Nat) (b : Bytes)
    (h : serialize t room = .ok b) :
    lensOK t = true ∧ b = encode t ∧ b.length ≤ room :=
  serTlv_sound t room b h

/-- A tree whose content exceeds the length field is refused, whatever the buffer size —
never written with a wrong length. -/
theorem serialize_refuses_oversize (t : Tlv) (room : Nat) (h : lensOK t = false) :
    ∃ e, serialize t room = .error e := by
  cases hs : serialize t room with
  | error e => exact ⟨e, rfl⟩
  | ok b => have := (serialize_sound t room b hs).1; simp [h] at this

/-- A buffer smaller than the encoding is refused. -/
theorem serialize_refuses_small_buffer (t : Tlv) (room : Nat) (h : room < (encode t).length) :
    ∃ e, serialize t room = .error e := by
  cases hs : serialize t room with
  | error e => exact ⟨e, rfl⟩
  | ok b =>
    have ⟨_, h2, h3⟩ := serialize_sound t room b hs
    rw [h2] at h3; omega

/-- Every encodable tree serializes to exactly its encoding in every sufficient buffer. -/
theorem serialize_complete (t : Tlv) (room : Nat) (hl : lensOK t = true)
    (hr : (encode t).length ≤ room) : serialize t room = .ok (encode t) :=
  serTlv_complete t room hl hr

/-- The default buffer of `KSI_TLV_serialize` (4 + 65536) suffices for every encodable tree. -/
theorem serializeDefault_complete (t : Tlv) (hl : lensOK t = true) :
    serializeDefault t = .ok (encode t) := by
  apply serialize_complete t _ hl
  rw [encode_eq, List.length_append, header_length]
  have := lensOK_payload hl
  split <;> omega

/-- The two-byte header is used exactly when `tag ≤ 0x1f` and `length ≤ 0xff`. -/
theorem header_form (t : Tlv) :
    ((header t.tag t.nc t.fwd (payload t).length).length = 2 ↔
      (t.tag ≤ 0x1f ∧ (payload t).length ≤ 0xff)) ∧
    encode t = header t.tag t.nc t.fwd (payload t).length ++ payload t := by
  refine ⟨?_, encode_eq t⟩
  rw [header_length]; split <;> simp_all

/-- Round trip, top level: parsing the encoding of an encodable tree yields its tag, both
flags and exactly its payload bytes. -/
theorem parse_encode (t : Tlv) (ht : tagsOK t = true) (hl : lensOK t = true) :
    parseBlob (encode t) = .ok (flatten t) :=
  parseBlob_encode t (tagsOK_tag ht) hl

/-- Round trip, every level: expanding the payload of a nested element yields exactly its
children (each with tag, flags and payload), for any number of children; with
`parse_encode` this recovers the whole tree by induction on depth. -/
theorem expand_encode (tag : Nat) (nc fwd : Bool) (cs : List Tlv)
    (ht : tagsOK (.nested tag nc fwd cs) = true) (hl : lensOK (.nested tag nc fwd cs) = true) :
    expand (payload (.nested tag nc fwd cs)) = .ok (cs.map flatten) := by
  simp only [tagsOK, lensOK, Bool.and_eq_true] at ht hl
  exact expand_encodeList cs ht.2 hl.2

/-- Serialization followed by parsing is the identity (composition of the two halves). -/
theorem serialize_parse (t : Tlv) (ht : tagsOK t = true) (hl : lensOK t = true) :
    (serializeDefault t).toOption.map parseBlob = some (.ok (flatten t)) := by
  rw [serializeDefault_complete t hl]
  simp [Except.toOption, parse_encode t ht hl]

/-- For every byte string: a successful parse means the declared length tiles the input
exactly and the element reports the tag, flags and payload encoded in it. -/
theorem parse_sound (b : Bytes) (t : Tlv) (h : parseBlob b = .ok t) :
    ∃ hd : Hdr, parseHdr b = .ok hd ∧ b.length = hd.hdrLen + hd.datLen ∧
      t = .raw hd.tag hd.nc hd.fwd (b.drop hd.hdrLen) ∧ (b.drop hd.hdrLen).length = hd.datLen := by
  have hr := parseBlob_readFirst h
  obtain ⟨hd, hp, hn, _, ht, hlen⟩ := readFirst_sound hr
  refine ⟨hd, hp, hn, ?_, ?_⟩
  · rw [ht]; congr 1; apply List.take_of_length_le; simp; omega
  · simp; omega

/-- The header reader reports the format's fields: it agrees with the independent decoder. -/
theorem parseHdr_fields (b : Bytes) (hd : Hdr) (h : parseHdr b = .ok hd) :
    (hd.hdrLen = 2 ∨ hd.hdrLen = 4) ∧ hd.hdrLen ≤ b.length ∧ hd.tag ≤ 0x1fff ∧
      hd.datLen ≤ 0xffff := by
  match b, h with
  | [], h => simp [parseHdr] at h
  | [b0], h => simp [parseHdr] at h
  | b0 :: b1 :: rest, h =>
    have := b0.toNat_lt; have := b1.toNat_lt
    by_cases h128 : b0.toNat ≥ 128
    · match rest, h with
      | b2 :: b3 :: r, h =>
        rw [parseHdr_cons4 _ _ _ _ _ h128] at h
        cases h
        have := b2.toNat_lt; have := b3.toNat_lt
        simp; omega
      | [b2], h => simp [parseHdr, h128] at h
      | [], h => simp [parseHdr, h128] at h
    · rw [parseHdr_cons2 _ _ _ (by omega)] at h
      cases h
      simp; omega

/-- For every byte string: expanding one level succeeds only if the children's declared
lengths tile the payload exactly (no gap, no overlap, no trailing bytes). -/
theorem expand_sound (b : Bytes) (ts : List Tlv) (h : expand b = .ok ts) :
    ∃ pieces : List Bytes, pieces.flatten = b ∧ Tiles pieces ts :=
  expand_tiles b ts h

/-! Non-vacuity: concrete trees meeting the hypotheses, incl. a nested one and the
boundary of the length field. -/
example : tagsOK (.nested 0x800 false false [.raw 1 true false [1, 2, 3], .nested 0x1fff false true []]) = true
    ∧ lensOK (.nested 0x800 false false [.raw 1 true false [1, 2, 3], .nested 0x1fff false true []]) = true := by
  decide
example : lensOK (.nested 1 false false [.raw 2 false false (List.replicate 65535 0)]) = false := by
  simp only [lensOK, encodeList, encode, List.append_nil, List.length_append,
    List.length_replicate, header_length]
  decide
example : parseBlob [0x01, 0x02, 0xaa, 0xbb] = .ok (.raw 1 false false [0xaa, 0xbb]) := rfl

end KsiVerif.Props.C09
