import KsiVerif.Proofs.Async
import KsiVerif.Proofs.Tcp
import KsiVerif.Proofs.TcpLen
import KsiVerif.Proofs.AsyncKeep
import KsiVerif.Proofs.AsyncCount
/-!
# C13 — the asynchronous service completes every accepted request exactly once, correctly matched

Property theorems only.  Model: `KsiVerif.Async` on top of `KsiVerif.Tcp` (net_async.c,
net_tcp_async.c).  Schedules are arbitrary lists of operations — submissions and service runs,
each run with an arbitrary network environment (poll / recv / send / connect results, clock)
and an arbitrary interpretation of the received PDUs.
-/
namespace KsiVerif.Props.C13
open KsiVerif KsiVerif.Tcp KsiVerif.Async

/-! ### list facts about the slot table -/

theorem set_some_mem : ∀ (l : List (Option Nat)) (i x y : Nat),
    y ∈ (l.set i (some x)).filterMap id → y = x ∨ y ∈ l.filterMap id
  | [], _, _, _, h => by simp at h
  | a :: as, 0, x, y, h => by
    simp only [List.set_cons_zero, List.filterMap_cons, id] at h ⊢
    cases a with
    | none => simpa using h
    | some v => simp at h ⊢; rcases h with h | h <;> simp [h]
  | a :: as, i + 1, x, y, h => by
    simp only [List.set_cons_succ, List.filterMap_cons, id] at h ⊢
    cases a with
    | none => exact set_some_mem as i x y h
    | some v =>
      simp at h ⊢
      rcases h with h | h
      · exact Or.inr (Or.inl h)
      · rcases set_some_mem as i x y (by simpa using h) with h' | h'
        · exact Or.inl h'
        · exact Or.inr (Or.inr (by simpa using h'))

theorem set_none_mem : ∀ (l : List (Option Nat)) (i y : Nat),
    y ∈ (l.set i none).filterMap id → y ∈ l.filterMap id
  | [], _, _, h => by simp at h
  | a :: as, 0, y, h => by
    simp only [List.set_cons_zero, List.filterMap_cons, id] at h ⊢
    cases a with
    | none => exact h
    | some v => simp at h ⊢; exact Or.inr h
  | a :: as, i + 1, y, h => by
    simp only [List.set_cons_succ, List.filterMap_cons, id] at h ⊢
    cases a with
    | none => exact set_none_mem as i y h
    | some v =>
      simp at h ⊢
      rcases h with h | h
      · exact Or.inl h
      · exact Or.inr (by simpa using set_none_mem as i y (by simpa using h))

theorem set_none_nodup : ∀ (l : List (Option Nat)) (i : Nat),
    (l.filterMap id).Nodup → ((l.set i none).filterMap id).Nodup
  | [], _, h => by simpa using h
  | a :: as, 0, h => by
    simp only [List.set_cons_zero, List.filterMap_cons, id] at h ⊢
    cases a with
    | none => exact h
    | some v => simp at h ⊢; exact h.2
  | a :: as, i + 1, h => by
    simp only [List.set_cons_succ, List.filterMap_cons, id] at h ⊢
    cases a with
    | none => exact set_none_nodup as i h
    | some v =>
      simp only [List.nodup_cons] at h ⊢
      exact ⟨fun hm => h.1 (set_none_mem as i v hm), set_none_nodup as i h.2⟩

theorem set_none_removed : ∀ (l : List (Option Nat)) (i h : Nat),
    l.getD i none = some h → (l.filterMap id).Nodup → h ∉ (l.set i none).filterMap id
  | [], _, _, hg, _ => by simp at hg
  | a :: as, 0, h, hg, hn => by
    simp only [List.getD_cons_zero] at hg
    subst hg
    simp only [List.set_cons_zero, List.filterMap_cons, id] at hn ⊢
    simp at hn
    simpa using hn.1
  | a :: as, i + 1, h, hg, hn => by
    simp only [List.getD_cons_succ] at hg
    simp only [List.set_cons_succ, List.filterMap_cons, id] at hn ⊢
    cases a with
    | none => exact set_none_removed as i h hg hn
    | some v =>
      simp only [List.nodup_cons] at hn
      simp only [List.mem_cons, not_or]
      refine ⟨?_, set_none_removed as i h hg hn.2⟩
      intro hv
      subst hv
      -- h sits in `as` at position i, so it is a member of its filterMap — contradiction with Nodup
      exact hn.1 (getD_some_mem as i h hg)

theorem set_some_nodup : ∀ (l : List (Option Nat)) (i x : Nat),
    l.getD i none = none → (l.filterMap id).Nodup → x ∉ l.filterMap id →
    ((l.set i (some x)).filterMap id).Nodup
  | [], _, _, _, h, _ => by simpa using h
  | a :: as, 0, x, hg, hn, hx => by
    simp only [List.getD_cons_zero] at hg
    subst hg
    simp only [List.set_cons_zero, List.filterMap_cons, id] at hn hx ⊢
    simp only [List.nodup_cons]
    exact ⟨hx, hn⟩
  | a :: as, i + 1, x, hg, hn, hx => by
    simp only [List.getD_cons_succ] at hg
    simp only [List.set_cons_succ, List.filterMap_cons, id] at hn hx ⊢
    cases a with
    | none => exact set_some_nodup as i x hg hn hx
    | some v =>
      simp only [List.nodup_cons, List.mem_cons, not_or] at hn hx ⊢
      refine ⟨fun hm => ?_, set_some_nodup as i x hg hn.2 hx.2⟩
      rcases set_some_mem as i x v hm with h | h
      · exact hx.1 h.symm
      · exact hn.1 h

/-! ### histories -/

inductive Op where
  | add (now : Nat)
  | run (e : Tcp.Env)

/-- one operation; the handle handed back by a run, if any -/
def stepOp (interp : Bytes → Pdu) (o : Tcp.Opts) (rcvT : Nat) (s : Async.State) : Op → Async.State × Option Nat
  | .add now => ((add s now).1, none)
  | .run e =>
    match run interp o rcvT e s with
    | (s', .handle h _ _) => (s', some h)
    | (s', _) => (s', none)

/-- the handles handed back over a whole history, in order -/
def returned (interp : Bytes → Pdu) (o : Tcp.Opts) (rcvT : Nat) : Async.State → List Op → List Nat
  | _, [] => []
  | s, op :: ops =>
    match stepOp interp o rcvT s op with
    | (s', some h) => h :: returned interp o rcvT s' ops
    | (s', none) => returned interp o rcvT s' ops

/-- history invariant: cached handles are distinct existing request objects; nothing that has
been handed back is still cached -/
structure J (s : Async.State) (back : List Nat) : Prop where
  occ_lt : ∀ h ∈ occupied s, h < s.tcp.reqs.length
  occ_nodup : (occupied s).Nodup
  back_lt : ∀ h ∈ back, h < s.tcp.reqs.length
  back_not_occ : ∀ h ∈ back, h ∉ occupied s

theorem J_add (s : Async.State) (back : List Nat) (now : Nat) (hj : J s back) : J (add s now).1 back := by
  rcases add_spec s now with ⟨_, heq⟩ | ⟨_, slot, hfree, hslots, hlen, _⟩
  · rw [heq]; exact hj
  · have hfresh : s.tcp.reqs.length ∉ occupied s := fun hm => Nat.lt_irrefl _ (hj.occ_lt _ hm)
    constructor
    · intro h hm
      unfold occupied at hm
      rw [hslots] at hm
      rw [hlen]
      rcases set_some_mem _ _ _ _ hm with h1 | h1
      · omega
      · have := hj.occ_lt h h1; omega
    · unfold occupied; rw [hslots]
      exact set_some_nodup _ _ _ hfree hj.occ_nodup hfresh
    · intro h hm; rw [hlen]; have := hj.back_lt h hm; omega
    · intro h hm hocc
      unfold occupied at hocc
      rw [hslots] at hocc
      rcases set_some_mem _ _ _ _ hocc with h1 | h1
      · have := hj.back_lt h hm; omega
      · exact hj.back_not_occ h hm h1

/-- everything a run does before looking for the next response leaves the cache alone -/
theorem run_prefix_same (interp : Bytes → Pdu) (o : Tcp.Opts) (e : Tcp.Env) (s : Async.State) :
    ∃ s1, Same s1 s ∧ ∀ rcvT, run interp o rcvT e s = findNext s1 rcvT e.now := by
  unfold run
  have hd := dispatch_len o e s.tcp
  generalize Tcp.dispatch o e s.tcp = dr at hd
  obtain ⟨tcp, rc⟩ := dr
  simp only at hd ⊢
  have h0 : Same { s with tcp := tcp } s := ⟨rfl, rfl, hd⟩
  have h1 : Same (if (!decide (rc = CONNECTION_CLOSED) ∧ rc ≠ 0) then failWaiting { s with tcp := tcp } rc else { s with tcp := tcp }) s := by
    split
    · exact (failWaiting_same _ _).trans h0
    · exact h0
  generalize (if (!decide (rc = CONNECTION_CLOSED) ∧ rc ≠ 0) then failWaiting { s with tcp := tcp } rc else { s with tcp := tcp }) = sa at h1
  have h2 := processQueue_same interp (sa.tcp.respQueue.length + 1) sa none
  generalize processQueue interp (sa.tcp.respQueue.length + 1) sa none = pq at h2
  obtain ⟨sb, hr⟩ := pq
  simp only at h2 ⊢
  have h3 : Same (if hr ≠ 0 then failWaiting sb hr else sb) s := by
    split
    · exact (failWaiting_same _ _).trans (h2.trans h1)
    · exact h2.trans h1
  generalize (if hr ≠ 0 then failWaiting sb hr else sb) = sc at h3
  have h4 : Same (if decide (rc = CONNECTION_CLOSED) = true then failWaiting sc CONNECTION_CLOSED else sc) s := by
    split
    · exact (failWaiting_same _ _).trans h3
    · exact h3
  exact ⟨_, h4, fun _ => by simp⟩

theorem J_run (interp : Bytes → Pdu) (o : Tcp.Opts) (rcvT : Nat) (e : Tcp.Env) (s : Async.State) (back : List Nat)
    (hj : J s back) :
    (∀ s' h st er, run interp o rcvT e s = (s', .handle h st er) → h ∉ back ∧ J s' (h :: back)) ∧
    (∀ s', (run interp o rcvT e s).1 = s' → (∀ h st er, (run interp o rcvT e s).2 ≠ .handle h st er) → J s' back) := by
  obtain ⟨s1, hsame, hrun⟩ := run_prefix_same interp o e s
  have hj1 : J s1 back := by
    constructor
    · intro h hm; unfold occupied at hm; rw [hsame.1] at hm; rw [hsame.2.2]; exact hj.occ_lt h hm
    · unfold occupied; rw [hsame.1]; exact hj.occ_nodup
    · intro h hm; rw [hsame.2.2]; exact hj.back_lt h hm
    · intro h hm; unfold occupied; rw [hsame.1]; exact hj.back_not_occ h hm
  constructor
  · intro s' h st er hr
    rw [hrun rcvT] at hr
    obtain ⟨i, hslot, hslots, _, hlen⟩ := findNext_returns s1 s' rcvT e.now h st er hr
    have hocc : h ∈ occupied s1 := getD_some_mem _ _ _ hslot
    refine ⟨fun hb => hj1.back_not_occ h hb hocc, ?_⟩
    constructor
    · intro x hm; unfold occupied at hm; rw [hslots] at hm; rw [hlen]
      exact hj1.occ_lt x (set_none_mem _ _ _ hm)
    · unfold occupied; rw [hslots]; exact set_none_nodup _ _ hj1.occ_nodup
    · intro x hm; rw [hlen]
      rcases List.mem_cons.mp hm with rfl | hm
      · exact hj1.occ_lt _ hocc
      · exact hj1.back_lt x hm
    · intro x hm hx
      unfold occupied at hx; rw [hslots] at hx
      rcases List.mem_cons.mp hm with rfl | hm
      · exact set_none_removed _ _ _ hslot hj1.occ_nodup hx
      · exact hj1.back_not_occ x hm (set_none_mem _ _ _ hx)
  · intro s' hs' hno
    -- nothing handed back: findNext changed no slot
    subst hs'
    rw [hrun rcvT] at hno ⊢
    have hs := findNext_nohandle s1 rcvT e.now hno
    constructor
    · intro h hm; unfold occupied at hm; rw [hs.1] at hm; rw [hs.2.2]; exact hj1.occ_lt h hm
    · unfold occupied; rw [hs.1]; exact hj1.occ_nodup
    · intro h hm; rw [hs.2.2]; exact hj1.back_lt h hm
    · intro h hm; unfold occupied; rw [hs.1]; exact hj1.back_not_occ h hm

theorem returned_fresh (interp : Bytes → Pdu) (o : Tcp.Opts) (rcvT : Nat) : ∀ (ops : List Op) (s : Async.State) (back : List Nat),
    J s back → back.Nodup →
    (returned interp o rcvT s ops).Nodup ∧ ∀ h ∈ returned interp o rcvT s ops, h ∉ back
  | [], _, _, _, _ => ⟨List.nodup_nil, fun _ hm => by cases hm⟩
  | op :: ops, s, back, hj, hn => by
    unfold returned
    cases op with
    | add now =>
      simp only [stepOp]
      exact returned_fresh interp o rcvT ops _ back (J_add s back now hj) hn
    | run e =>
      have ⟨hA, hB⟩ := J_run interp o rcvT e s back hj
      simp only [stepOp]
      cases hr : run interp o rcvT e s with
      | mk s' r =>
        cases r with
        | handle h st er =>
          simp only
          have ⟨hnb, hj'⟩ := hA s' h st er hr
          have ⟨ih1, ih2⟩ := returned_fresh interp o rcvT ops s' (h :: back) hj' (List.nodup_cons.mpr ⟨hnb, hn⟩)
          refine ⟨List.nodup_cons.mpr ⟨fun hm => ih2 h hm (List.mem_cons_self ..), ih1⟩, ?_⟩
          intro x hx
          rcases List.mem_cons.mp hx with rfl | hx
          · exact hnb
          · exact fun hb => ih2 x hx (List.mem_cons_of_mem _ hb)
        | none =>
          simp only
          exact returned_fresh interp o rcvT ops s' back (hB s' (by rw [hr]) (by rw [hr]; intro _ _ _ hc; cases hc)) hn
        | conf =>
          simp only
          exact returned_fresh interp o rcvT ops s' back (hB s' (by rw [hr]) (by rw [hr]; intro _ _ _ hc; cases hc)) hn

/-- **Exactly once.** Over every history — any interleaving of submissions and service runs,
any network behaviour, any meaning of the received PDUs — no request handle is handed back
twice. -/
theorem no_request_returned_twice (interp : Bytes → Pdu) (o : Tcp.Opts) (rcvT : Nat) (cacheSize : Nat) (ops : List Op) :
    (returned interp o rcvT (Async.init cacheSize) ops).Nodup := by
  have hj : J (Async.init cacheSize) [] := by
    constructor
    · intro h hm
      simp [occupied, Async.init] at hm
    · simp [occupied, Async.init]
    · intro h hm; cases hm
    · intro h hm; cases hm
  exact (returned_fresh interp o rcvT ops _ [] hj List.nodup_nil).1

/-- **Matching.** Only the request whose own full 64-bit id the reply carries (slot = low 32 bits,
generation in the high bits) and which is waiting for a response is affected by a reply; it
completes successfully only for status 0. -/
theorem reply_matched_by_full_id (s : Async.State) (id st h : Nat)
    (hne : ((handleResp s id st).tcp.getReq h).state ≠ (s.tcp.getReq h).state) :
    s.slots.getD (id % 2 ^ 32) none = some h ∧ s.ids.getD h 0 = id ∧
    (s.tcp.getReq h).state = .waitResponse ∧ id % 2 ^ 32 < s.size ∧
    ((handleResp s id st).tcp.getReq h).state =
      (if s.conv st ≠ 0 then .error (s.conv st) else .received) :=
  handleResp_matched s id st h hne

/-- **Success needs status zero, for the signing and for the extending service.** A request goes to RESPONSE_RECEIVED through a
reply only if that reply carries status 0 and the request's own identifier. -/
theorem completes_only_with_status_zero (s : Async.State) (id st h : Nat)
    (hne : ((handleResp s id st).tcp.getReq h).state ≠ (s.tcp.getReq h).state)
    (hrec : ((handleResp s id st).tcp.getReq h).state = .received) :
    st = 0 ∧ s.ids.getD h 0 = id ∧ (s.tcp.getReq h).state = .waitResponse := by
  obtain ⟨_, hid, hw, _, hst⟩ := handleResp_matched s id st h hne
  refine ⟨?_, hid, hw⟩
  by_cases hc : s.conv st ≠ 0
  · rw [if_pos hc] at hst
    rw [hst] at hrec
    cases hrec
  · exact (conv_eq_zero_iff s st).mp (by simpa using hc)

/-- a non-zero status fails exactly the request it was sent for, with the service's own meaning of the code -/
theorem error_status_fails_its_own_request (s : Async.State) (id st h : Nat) (hst0 : st ≠ 0)
    (hne : ((handleResp s id st).tcp.getReq h).state ≠ (s.tcp.getReq h).state) :
    s.ids.getD h 0 = id ∧ ((handleResp s id st).tcp.getReq h).state = .error (s.conv st) ∧ 0x400 ≤ s.conv st := by
  obtain ⟨_, hid, _, _, hst⟩ := handleResp_matched s id st h hne
  have hc : s.conv st ≠ 0 := fun h0 => hst0 ((conv_eq_zero_iff s st).mp h0)
  rw [if_pos hc] at hst
  refine ⟨hid, hst, ?_⟩
  unfold State.conv
  split
  · exact convertStatusExt_ge st hst0
  · exact convertStatus_ge st hst0

/-- a reply for an unknown id, a stale id generation, or a request that is not waiting changes nothing -/
theorem foreign_reply_ignored (s : Async.State) (id st : Nat)
    (h : ∀ hd, s.slots.getD (id % 2 ^ 32) none = some hd →
      s.ids.getD hd 0 ≠ id ∨ (s.tcp.getReq hd).state ≠ .waitResponse) :
    handleResp s id st = s := by
  rcases handleResp_cases s id st with heq | ⟨hd, hs, hid, hst, _, _⟩
  · exact heq
  · rcases h hd hs with h1 | h1
    · exact absurd hid h1
    · exact absurd hst h1

/-- a submission is refused with "cache full" when the outstanding requests fill the cache,
and then nothing changes; otherwise it goes into a free slot under a fresh handle whose id
names that slot -/
theorem add_cache_full (s : Async.State) (now : Nat) (h : s.size = s.pending + s.received + 1) :
    (add s now).2.1 = CACHE_FULL ∧ (add s now).1 = s := by
  unfold add
  have : calcId (s.size + 1) s = none := by unfold calcId; simp [h]
  simp [this]

theorem add_accepts_into_free_slot (s : Async.State) (now : Nat) :
    ((add s now).2.1 = CACHE_FULL ∧ (add s now).1 = s) ∨
    ((add s now).2.1 = 0 ∧ ∃ slot, s.slots.getD slot none = none ∧
      (add s now).1.slots = s.slots.set slot (some s.tcp.reqs.length) ∧
      (add s now).1.tcp.reqs.length = s.tcp.reqs.length + 1 ∧
      (add s now).2.2 % 2 ^ 32 = slot % 2 ^ 32) :=
  add_spec s now

/-- a receive timeout is reported only once the configured time has elapsed (or is 0) -/
theorem recv_timeout_only_when_elapsed (s s' : Async.State) (rcvT now h st : Nat)
    (hf : finalize s rcvT now h = some (s', .handle h st RECV_TIMEOUT))
    (hw : (s.tcp.getReq h).state = .waitResponse) :
    rcvT = 0 ∨ now - (s.tcp.getReq h).sndTime > rcvT := by
  unfold finalize at hf
  simp only [hw] at hf
  split at hf
  · rename_i hc; exact hc
  · cases hf

/-- what does not concern the cache leaves it alone: error fan-out and response processing
never add, remove or move a cached request -/
theorem response_processing_keeps_cache (interp : Bytes → Pdu) (fuel : Nat) (s : Async.State) (e : Option Nat) :
    (processQueue interp fuel s e).1.slots = s.slots ∧ (processQueue interp fuel s e).1.ids = s.ids :=
  ⟨(processQueue_same interp fuel s e).1, (processQueue_same interp fuel s e).2.1⟩

/-! Non-vacuity: a history with two requests, replies in reverse order, on a cache of size 2. -/
example : (Async.init 2).size = 3 ∧ (add (Async.init 2) 1000).2 = (0, 1) := by decide

end KsiVerif.Props.C13

namespace KsiVerif.Props.C13
open KsiVerif KsiVerif.Tcp KsiVerif.Async

/-- enlarging the cache while requests are outstanding loses none of them: every old slot keeps
its handle, the new slots are free, nothing else changes; a smaller size is refused -/
theorem grow_keeps_slots (s : Async.State) (n : Nat) :
    ((grow s n).2 = St.INVALID_ARGUMENT ∧ n + 1 < s.size ∧ (grow s n).1 = s) ∨
    ((grow s n).2 = 0 ∧ (grow s n).1.size = n + 1 ∧
      (∀ i, i < s.slots.length → (grow s n).1.slots.getD i none = s.slots.getD i none) ∧
      (∀ i, s.slots.length ≤ i → (grow s n).1.slots.getD i none = none) ∧
      (grow s n).1.tcp = s.tcp ∧ (grow s n).1.ids = s.ids ∧
      (grow s n).1.pending = s.pending ∧ (grow s n).1.received = s.received) := by
  unfold grow
  split
  · rename_i h; exact Or.inl ⟨rfl, h, rfl⟩
  · refine Or.inr ⟨rfl, rfl, ?_, ?_, rfl, rfl, rfl, rfl⟩
    · intro i hi
      simp only [List.getD_eq_getElem?_getD]
      rw [List.getElem?_append_left hi]
    · intro i hi
      simp only [List.getD_eq_getElem?_getD]
      rw [List.getElem?_append_right hi]
      cases h : (List.replicate (n + 1 - s.size) (none : Option Nat))[i - s.slots.length]? with
      | none => rfl
      | some v =>
        have := List.mem_of_getElem? h
        simp only [List.mem_replicate] at this
        simp [this.2]

theorem J_grow (s : Async.State) (back : List Nat) (n : Nat) (hj : J s back) : J (grow s n).1 back := by
  have hocc : occupied (grow s n).1 = occupied s := by
    unfold grow occupied
    split
    · rfl
    · simp [List.filterMap_append, List.filterMap_replicate]
  have htcp : (grow s n).1.tcp = s.tcp := by unfold grow; split <;> rfl
  constructor
  · intro h hm; rw [hocc] at hm; rw [htcp]; exact hj.occ_lt h hm
  · rw [hocc]; exact hj.occ_nodup
  · intro h hm; rw [htcp]; exact hj.back_lt h hm
  · intro h hm; rw [hocc]; exact hj.back_not_occ h hm

/-! ### never lost -/

/-- every accepted request (handles are the indices of the request objects) is still cached or has been handed back -/
def K (s : Async.State) (back : List Nat) : Prop := ∀ h, h < s.tcp.reqs.length → h ∈ occupied s ∨ h ∈ back

theorem K_add (s : Async.State) (back : List Nat) (now : Nat) (hw : W s) (hk : K s back) :
    W (add s now).1 ∧ K (add s now).1 back := by
  rcases add_spec_W s now hw with ⟨_, heq⟩ | ⟨_, hw', slot, hlt, hfree, hslots, hlen⟩
  · rw [heq]; exact ⟨hw, hk⟩
  · refine ⟨hw', fun h hh => ?_⟩
    rw [hlen] at hh
    unfold occupied
    rw [hslots]
    by_cases hnew : h = s.tcp.reqs.length
    · left; subst hnew; exact mem_set_some_self _ _ _ hlt
    · rcases hk h (by omega) with h1 | h1
      · left; exact mem_set_some_of_mem _ _ _ _ hfree h1
      · right; exact h1

theorem K_run (interp : Bytes → Pdu) (o : Tcp.Opts) (rcvT : Nat) (e : Tcp.Env) (s : Async.State) (back : List Nat)
    (hw : W s) (hk : K s back) :
    W (run interp o rcvT e s).1 ∧
    (∀ s' h st er, run interp o rcvT e s = (s', .handle h st er) → K s' (h :: back)) ∧
    ((∀ h st er, (run interp o rcvT e s).2 ≠ .handle h st er) → K (run interp o rcvT e s).1 back) := by
  obtain ⟨s1, hsame, hkeep, hrun⟩ := run_prefix_keep interp o e s
  have hk1 : K s1 back := by
    intro h hh; rw [hsame.2.2] at hh
    unfold occupied; rw [hsame.1]; exact hk h hh
  have hw1 : W s1 := ⟨by rw [hsame.1, hkeep.1]; exact hw.1, by rw [hkeep.1, hkeep.2]; exact hw.2.1, by rw [hkeep.1]; exact hw.2.2⟩
  have hkf := findNext_keep s1 rcvT e.now
  refine ⟨?_, ?_, ?_⟩
  · rw [hrun rcvT]
    cases hr : findNext s1 rcvT e.now with
    | mk s' r =>
      rw [hr] at hkf
      have hlen : s'.slots.length = s1.slots.length := by
        cases r with
        | handle h st er =>
          obtain ⟨i, _, hslots, _, _⟩ := findNext_returns s1 s' rcvT e.now h st er hr
          rw [hslots]; simp
        | none =>
          have := findNext_nohandle s1 rcvT e.now (by rw [hr]; intro _ _ _ hc; cases hc)
          rw [hr] at this; rw [this.1]
        | conf =>
          have := findNext_nohandle s1 rcvT e.now (by rw [hr]; intro _ _ _ hc; cases hc)
          rw [hr] at this; rw [this.1]
      exact ⟨by rw [hlen, hkf.1]; exact hw1.1, by rw [hkf.1, hkf.2]; exact hw1.2.1, by rw [hkf.1]; exact hw1.2.2⟩
  · intro s' h st er hr
    rw [hrun rcvT] at hr
    obtain ⟨i, hslot, hslots, _, hlen⟩ := findNext_returns s1 s' rcvT e.now h st er hr
    intro x hx
    rw [hlen] at hx
    rcases hk1 x hx with h1 | h1
    · unfold occupied at h1 ⊢
      rw [hslots]
      rcases mem_set_none_or _ i x h1 with h2 | h2
      · left; exact h2
      · right; rw [hslot] at h2; cases h2; exact List.mem_cons_self ..
    · right; exact List.mem_cons_of_mem _ h1
  · intro hno
    rw [hrun rcvT] at hno ⊢
    have hs := findNext_nohandle s1 rcvT e.now hno
    intro x hx
    rw [hs.2.2] at hx
    unfold occupied; rw [hs.1]
    exact hk1 x hx

/-- the state a history ends in -/
def final (interp : Bytes → Pdu) (o : Tcp.Opts) (rcvT : Nat) : Async.State → List Op → Async.State
  | s, [] => s
  | s, op :: ops => final interp o rcvT (stepOp interp o rcvT s op).1 ops

theorem conserved (interp : Bytes → Pdu) (o : Tcp.Opts) (rcvT : Nat) : ∀ (ops : List Op) (s : Async.State) (back : List Nat),
    W s → K s back →
    ∀ h, h < (final interp o rcvT s ops).tcp.reqs.length →
      h ∈ occupied (final interp o rcvT s ops) ∨ h ∈ returned interp o rcvT s ops ∨ h ∈ back
  | [], s, back, _, hk => fun h hh => by
    rcases hk h hh with h1 | h1
    · exact Or.inl h1
    · exact Or.inr (Or.inr h1)
  | op :: ops, s, back, hw, hk => by
    intro h hh
    unfold final at hh ⊢
    unfold returned
    cases op with
    | add now =>
      simp only [stepOp] at hh ⊢
      have ⟨hw', hk'⟩ := K_add s back now hw hk
      exact conserved interp o rcvT ops _ back hw' hk' h hh
    | run e =>
      have ⟨hw', hA, hB⟩ := K_run interp o rcvT e s back hw hk
      simp only [stepOp] at hh ⊢
      cases hr : run interp o rcvT e s with
      | mk s' r =>
        rw [hr] at hw' hh
        cases r with
        | handle h0 st er =>
          simp only at hh ⊢
          rcases conserved interp o rcvT ops s' (h0 :: back) hw' (hA s' h0 st er hr) h hh with h1 | h1 | h1
          · exact Or.inl h1
          · exact Or.inr (Or.inl (List.mem_cons_of_mem _ h1))
          · rcases List.mem_cons.mp h1 with rfl | h1
            · exact Or.inr (Or.inl (List.mem_cons_self ..))
            · exact Or.inr (Or.inr h1)
        | none =>
          simp only at hh ⊢
          have hk' : K s' back := by have := hB (by rw [hr]; intro _ _ _ hc; cases hc); rw [hr] at this; exact this
          exact conserved interp o rcvT ops s' back hw' hk' h hh
        | conf =>
          simp only at hh ⊢
          have hk' : K s' back := by have := hB (by rw [hr]; intro _ _ _ hc; cases hc); rw [hr] at this; exact this
          exact conserved interp o rcvT ops s' back hw' hk' h hh

/-- **Never lost.** Over every history from a new service with room for at least one request — any interleaving of
submissions and runs, any network behaviour, any meaning of the received PDUs — every request object the service accepted is,
at the end, either still in its cache (waiting, or finished and waiting to be collected) or among the handles it handed back.
With `no_request_returned_twice`: handed back at most once, and never dropped. -/
theorem never_lost (interp : Bytes → Pdu) (o : Tcp.Opts) (rcvT : Nat) (cacheSize : Nat) (hc : 1 ≤ cacheSize) (ops : List Op) :
    ∀ h, h < (final interp o rcvT (Async.init cacheSize) ops).tcp.reqs.length →
      h ∈ occupied (final interp o rcvT (Async.init cacheSize) ops) ∨ h ∈ returned interp o rcvT (Async.init cacheSize) ops := by
  intro h hh
  have hw : W (Async.init cacheSize) := ⟨by simp [Async.init], by simp [Async.init], by simp [Async.init]; omega⟩
  have hk : K (Async.init cacheSize) [] := by intro x hx; simp [Async.init] at hx
  rcases conserved interp o rcvT ops _ [] hw hk h hh with h1 | h1 | h1
  · exact Or.inl h1
  · exact Or.inr h1
  · cases h1

/-- every accepted submission creates exactly one request object (so "accepted requests" = indices below `reqs.length`) -/
theorem accepted_creates_one (s : Async.State) (now : Nat) (hw : W s) (h0 : (add s now).2.1 = 0) :
    (add s now).1.tcp.reqs.length = s.tcp.reqs.length + 1 := by
  rcases add_spec_W s now hw with ⟨hf, _⟩ | ⟨_, _, _, _, _, _, hlen⟩
  · rw [h0] at hf; cases hf
  · exact hlen

/-! ### the counters -/

theorem W_run (interp : Bytes → Pdu) (o : Tcp.Opts) (rcvT : Nat) (e : Tcp.Env) (s : Async.State) (hw : W s) :
    W (run interp o rcvT e s).1 :=
  (K_run interp o rcvT e s (List.range s.tcp.reqs.length) hw (fun h hh => Or.inr (List.mem_range.mpr hh))).1

theorem W_add (s : Async.State) (now : Nat) (hw : W s) : W (add s now).1 := by
  rcases add_spec_W s now hw with ⟨_, heq⟩ | ⟨_, hw', _⟩
  · rw [heq]; exact hw
  · exact hw'

theorem counters_hist (interp : Bytes → Pdu) (o : Tcp.Opts) (rcvT : Nat) : ∀ (ops : List Op) (s : Async.State),
    W s → CI s → CI (final interp o rcvT s ops)
  | [], s, _, hc => hc
  | op :: ops, s, hw, hc => by
    unfold final
    cases op with
    | add now =>
      simp only [stepOp]
      exact counters_hist interp o rcvT ops _ (W_add s now hw) (CI_add s now hw hc)
    | run e =>
      simp only [stepOp]
      have hw' := W_run interp o rcvT e s hw
      have hc' := CI_run interp o rcvT e s hc
      cases hr : run interp o rcvT e s with
      | mk s' r =>
        rw [hr] at hw' hc'
        cases r <;> exact counters_hist interp o rcvT ops s' hw' hc'

/-- **The counters.** Over every history from a new service with room for at least one request: the pending count is the number
of cached handles not yet marked received, the received count the number of cached handles marked received plus one for a pushed
configuration waiting to be handed out — so their sum is the number of requests in the cache (accepted and, by `never_lost` and
`no_request_returned_twice`, exactly the ones not handed back yet) plus that one; in particular neither counter ever wraps. -/
theorem counters_correct (interp : Bytes → Pdu) (o : Tcp.Opts) (rcvT : Nat) (cacheSize : Nat) (hc : 1 ≤ cacheSize) (ops : List Op) :
    let s := final interp o rcvT (Async.init cacheSize) ops
    s.pending = nUnf s ∧ s.received = nRcv s + (if s.conf then 1 else 0) ∧
      s.pending + s.received = (occupied s).length + (if s.conf then 1 else 0) := by
  have hw : W (Async.init cacheSize) := ⟨by simp [Async.init], by simp [Async.init], by simp [Async.init]; omega⟩
  have h := counters_hist interp o rcvT ops _ hw (CI_init cacheSize)
  refine ⟨h.pend, h.recv, ?_⟩
  have hl := List.length_eq_countP_add_countP (rcvd (final interp o rcvT (Async.init cacheSize) ops).tcp)
    (l := occupied (final interp o rcvT (Async.init cacheSize) ops))
  have hp := h.pend
  have hr := h.recv
  unfold nUnf at hp
  unfold nRcv at hr
  have e : (occupied (final interp o rcvT (Async.init cacheSize) ops)).countP (fun a => decide ¬rcvd (final interp o rcvT (Async.init cacheSize) ops).tcp a = true)
      = (occupied (final interp o rcvT (Async.init cacheSize) ops)).countP (fun x => !rcvd (final interp o rcvT (Async.init cacheSize) ops).tcp x) :=
    List.countP_congr (fun x _ => by cases rcvd (final interp o rcvT (Async.init cacheSize) ops).tcp x <;> simp)
  rw [e] at hl
  omega

/-- The `sndTime` that `recv_timeout_only_when_elapsed` measures from is the time of the dispatch call in
which the request went out whole (set by the transport when the last octet has been accepted), not
the time the request was accepted by the service. -/
theorem sndTime_is_the_send_time (o : Tcp.Opts) (now : Nat) (sends : List Tcp.SendRes) (s : Tcp.State) (id : Nat)
    (restQ : List Nat) (hid : id < s.reqs.length)
    (hd : (Tcp.sendHead o now sends s id restQ).2.2 = .done) :
    ((Tcp.sendHead o now sends s id restQ).1.getReq id).sndTime = now ∧
    ((Tcp.sendHead o now sends s id restQ).1.getReq id).state = .waitResponse := by
  unfold Tcp.sendHead at hd ⊢
  simp only at hd ⊢
  obtain ⟨k, _, _, _, hlen⟩ := Tcp.sendLoop_contiguous ((s.getReq id).raw.length + sends.length + 1) sends s id hid (by
    intro hc
    rw [hc] at hd
    simp at hd)
  cases hr : (Tcp.sendLoop ((s.getReq id).raw.length + sends.length + 1) sends s id) with
  | mk s1 rest =>
    cases rest with
    | mk sends1 res =>
      rw [hr] at hd hlen
      simp only at hd hlen ⊢
      cases res with
      | blocked => simp at hd
      | closed => simp at hd
      | done =>
        simp only
        have h1 : id < ({ s1 with roundCount := s1.roundCount + 1, queue := restQ } : Tcp.State).reqs.length := by
          simpa using (by rw [hlen]; exact hid : id < s1.reqs.length)
        rw [Tcp.getReq_setReq_at _ _ _ h1]
        exact ⟨rfl, rfl⟩

end KsiVerif.Props.C13
