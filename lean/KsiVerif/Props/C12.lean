import KsiVerif.Props.C09
import KsiVerif.Props.C18
/-!
# C12 (partial) — what a model without memory can carry of "memory-safe, total, leak-free"

The model's values are immutable lists: there is no buffer to overrun and nothing to leak, so the runtime half of C12
(out-of-bounds access, use after free, double free, leaks) is *not* a theorem here — it is observed by running every
parsing entry point and the follow-up operations under ASan / UBSan / LeakSanitizer (checks/C12.py).  What is proved is
the logic those accesses depend on: every length a reader acts on has been checked against the octets that are really
there, readers consume exactly what they report, and every parser is a total function (all model parsers are structural
or fuel-bounded Lean functions: they terminate on every input by construction).
-/
namespace KsiVerif.Props.C12
open KsiVerif KsiVerif.Tlv KsiVerif.TlvSpec KsiVerif.TlvProofs KsiVerif.PubFile

/-- the fast TLV reader accepts a header only when header and payload lie inside the input -/
theorem fast_reader_in_bounds (b : Bytes) (h : Hdr) (hm : memRead b = .ok h) :
    (h.hdrLen = 2 ∨ h.hdrLen = 4) ∧ h.hdrLen + h.datLen ≤ b.length ∧ h.tag ≤ 0x1fff ∧ h.datLen ≤ 0xffff := by
  have hl := memRead_len hm
  have hp : parseHdr b = .ok h := by
    unfold memRead at hm
    split at hm
    · cases hm
    · rename_i h' hp'
      split at hm
      · cases hm
      · cases hm; exact hp'
  have := C09.parseHdr_fields b h hp
  exact ⟨this.1, hl, this.2.2.1, this.2.2.2⟩

/-- a TLV blob is accepted only when its declared length is exactly the octets given: nothing is read past the end and
nothing is left unread -/
theorem blob_reader_exact (b : Bytes) (t : Tlv) (h : parseBlob b = .ok t) :
    ∃ hd : Hdr, b.length = hd.hdrLen + hd.datLen ∧ t = .raw hd.tag hd.nc hd.fwd (b.drop hd.hdrLen) ∧ (b.drop hd.hdrLen).length = hd.datLen := by
  obtain ⟨hd, _, h2, h3, h4⟩ := C09.parse_sound b t h
  exact ⟨hd, h2, h3, h4⟩

/-- opening an element succeeds only when its children tile the payload exactly -/
theorem children_tile (b : Bytes) (ts : List Tlv) (h : expand b = .ok ts) : ∃ pieces : List Bytes, pieces.flatten = b ∧ Tiles pieces ts :=
  C09.expand_sound b ts h

/-- the records of a publications file tile the octets after the magic header -/
theorem records_tile (fuel : Nat) (b : Bytes) (recs : List Rec) (h : splitRecords fuel b = .ok recs) : b = (recs.map (·.raw)).flatten :=
  split_concat fuel b recs h

/-- an element that could not be encoded in the 16-bit length field is refused by the serializer rather than truncated -/
theorem serializer_refuses_oversize (t : Tlv) (room : Nat) (h : lensOK t = false) : ∃ e, serialize t room = .error e :=
  C09.serialize_refuses_oversize t room h

end KsiVerif.Props.C12
