import KsiVerif.Proofs.Template
import KsiVerif.Spec.SchemaRef
import KsiVerif.Proofs.TemplateValues
/-!
# C10 — typed parsing enforces the KSI schema; unknown elements obey the critical flag

Property theorems only.  Model: `KsiVerif.Template` (tlv_template.c `extractGenerator`, the value
parsers of types_base.c / hash.c / hashchain.c, the entry points of types.c / signature.c /
publicationsfile.c) over the template tables generated from the built library
(`KsiVerif.Gen.Templates`).  Schema: `KsiVerif.Template.conforms` (Spec/Schema.lean).
-/
namespace KsiVerif.Props.C10
open KsiVerif KsiVerif.Template

/-- **The engine accepts exactly the conforming element lists** (for every table, every value
parser and every list of elements), and then returns the values of the known elements by row in
input order. -/
theorem extract_iff_schema (tm : List Entry) (pv : Entry → Elem → Except Nat Val) (es : List Elem)
    (vs : List (Nat × Val)) (hne : tm.isEmpty = false) :
    extractG tm pv es = .ok vs ↔ conforms tm es = true ∧ specValues tm pv es = some vs :=
  extractG_spec tm pv es vs hne

/-- non-vacuity: a conforming list for a real table, and one that is not -/
example : conforms Gen.tKSI_PublicationData [⟨0x04, false, false, []⟩, ⟨0x02, false, false, []⟩, ⟨0x1f, true, false, [1]⟩] = true := by decide
example : conforms Gen.tKSI_PublicationData [⟨0x02, false, false, []⟩, ⟨0x04, false, false, []⟩, ⟨0x02, true, false, []⟩] = false := by decide

/-! ## unknown elements -/

/-- an unknown element that is not flagged non-critical makes the container unacceptable,
wherever it stands and whatever else is there -/
theorem unknown_critical_rejected (tm : List Entry) (pv : Entry → Elem → Except Nat Val) (l1 l2 : List Elem) (e : Elem)
    (hu : rowOf tm e = none) (hc : e.nc = false) (vs : List (Nat × Val)) :
    extractG tm pv (l1 ++ e :: l2) ≠ .ok vs := by
  intro h
  by_cases hne : tm.isEmpty = false
  · have := ((extractG_spec tm pv _ vs hne).mp h).1
    unfold conforms unknownOK at this
    simp only [Bool.and_eq_true, List.all_append, List.all_cons, hu, hc, Option.isSome_none, Bool.or_self,
      Bool.false_and, Bool.and_false, Bool.false_eq_true, false_and] at this
  · unfold extractG at h
    simp only [Bool.not_eq_false] at hne
    rw [hne] at h; simp at h

theorem run_skip_unknown (tm : List Entry) (pv : Entry → Elem → Except Nat Val) (e : Elem) (l2 : List Elem)
    (hu : rowOf tm e = none) (hn : e.nc = true) :
    ∀ (l1 : List Elem) (s : St), run tm pv s (l1 ++ e :: l2) = run tm pv s (l1 ++ l2) := by
  intro l1
  induction l1 with
  | nil => intro s; simp only [List.nil_append, run, step_unknown tm pv s e hu, hn, if_true]
  | cons a as ih =>
    intro s
    simp only [List.cons_append, run]
    cases step tm pv s a with
    | error c => rfl
    | ok s' => exact ih s'

/-- an unknown element flagged non-critical is ignored: with it or without it the container gives
the same result — the same values for every known field, or the same error -/
theorem unknown_noncritical_ignored (tm : List Entry) (pv : Entry → Elem → Except Nat Val) (l1 l2 : List Elem) (e : Elem)
    (hu : rowOf tm e = none) (hn : e.nc = true) :
    extractG tm pv (l1 ++ e :: l2) = extractG tm pv (l1 ++ l2) := by
  unfold extractG
  rw [run_skip_unknown tm pv e l2 hu hn l1 {}]

/-! ## what conformance means, position by position -/

theorem seqOK_at : ∀ (ks b k1 : List (Nat × Entry)) (k : Nat × Entry) (k2 : List (Nat × Entry)),
    seqOK b ks = true → ks = k1 ++ k :: k2 → okAt (b ++ k1) k = true := by
  intro ks
  induction ks with
  | nil => intro b k1 k k2 _ h; cases k1 <;> simp at h
  | cons x xs ih =>
    intro b k1 k k2 hs h
    simp only [seqOK, Bool.and_eq_true] at hs
    cases k1 with
    | nil => simp only [List.nil_append, List.cons.injEq] at h; rw [← h.1]; simpa using hs.1
    | cons y ys =>
      simp only [List.cons_append, List.cons.injEq] at h
      have := ih (b ++ [x]) ys k k2 hs.2 h.2
      rw [h.1] at this
      simpa using this

theorem known_append (tm : List Entry) (l1 l2 : List Elem) : known tm (l1 ++ l2) = known tm l1 ++ known tm l2 := by
  simp [known, List.filterMap_append]

/-- a LAST element (the MAC of a v2 PDU) is followed by no known element -/
theorem nothing_known_after_last (tm : List Entry) (l1 l2 : List Elem) (e : Elem) (i : Nat) (t : Entry)
    (hc : conforms tm (l1 ++ e :: l2) = true) (hr : rowOf tm e = some (i, t)) (hl : t.has FLG_LAST = true) :
    known tm l2 = [] := by
  unfold conforms at hc
  simp only [Bool.and_eq_true] at hc
  have hs := hc.1.2
  rw [known_append, known_cons_some tm e l2 (i, t) hr] at hs
  cases hk : known tm l2 with
  | nil => rfl
  | cons k ks =>
    rw [hk] at hs
    have := seqOK_at _ [] (known tm l1 ++ [(i, t)]) k ks hs (by simp)
    unfold okAt at this
    simp only [List.nil_append, Bool.and_eq_true, List.all_append, List.all_cons, hl, Bool.not_true, List.all_nil,
      Bool.and_true, Bool.and_false, Bool.false_eq_true, and_false, false_and] at this

/-- a FIRST element (the header of a v2 PDU, the padding of a metadata record) is preceded by no
known element -/
theorem nothing_known_before_first (tm : List Entry) (l1 l2 : List Elem) (e : Elem) (i : Nat) (t : Entry)
    (hc : conforms tm (l1 ++ e :: l2) = true) (hr : rowOf tm e = some (i, t)) (hf : t.has FLG_FIRST = true) :
    known tm l1 = [] := by
  unfold conforms at hc
  simp only [Bool.and_eq_true] at hc
  have hs := hc.1.2
  rw [known_append, known_cons_some tm e l2 (i, t) hr] at hs
  have := seqOK_at _ [] (known tm l1) (i, t) (known tm l2) hs rfl
  unfold okAt at this
  simp only [List.nil_append, Bool.and_eq_true, hf, Bool.not_true, Bool.false_or] at this
  simpa using this.1.1.1.1.2

/-- a single-valued field is assigned at most once: no two elements of rows storing into the
same field unless the later row is list-valued -/
theorem single_valued_once (tm : List Entry) (l1 l2 l3 : List Elem) (e1 e2 : Elem) (i1 i2 : Nat) (t1 t2 : Entry)
    (hc : conforms tm (l1 ++ e1 :: l2 ++ e2 :: l3) = true)
    (h1 : rowOf tm e1 = some (i1, t1)) (h2 : rowOf tm e2 = some (i2, t2)) (hg : t1.getter = t2.getter) :
    t2.multiple = true := by
  unfold conforms at hc
  simp only [Bool.and_eq_true] at hc
  have hs := hc.1.2
  rw [known_append, known_cons_some tm e2 l3 (i2, t2) h2, known_append, known_cons_some tm e1 l2 (i1, t1) h1] at hs
  have := seqOK_at _ [] _ (i2, t2) (known tm l3) hs rfl
  unfold okAt at this
  simp only [List.nil_append, Bool.and_eq_true, Bool.or_eq_true] at this
  rcases this.2 with h | h
  · exact h
  · simp only [List.all_append, List.all_cons, Bool.and_eq_true] at h
    have := h.2.1
    simp [hg] at this

/-- mutually exclusive alternatives (group 0) are not combined -/
theorem exclusive_group0_once (tm : List Entry) (l1 l2 l3 : List Elem) (e1 e2 : Elem) (i1 i2 : Nat) (t1 t2 : Entry)
    (hc : conforms tm (l1 ++ e1 :: l2 ++ e2 :: l3) = true)
    (h1 : rowOf tm e1 = some (i1, t1)) (h2 : rowOf tm e2 = some (i2, t2))
    (hm1 : t1.has FLG_MOST_ONE_G0 = true) : t2.has FLG_MOST_ONE_G0 = false := by
  unfold conforms at hc
  simp only [Bool.and_eq_true] at hc
  have hs := hc.1.2
  rw [known_append, known_cons_some tm e2 l3 (i2, t2) h2, known_append, known_cons_some tm e1 l2 (i1, t1) h1] at hs
  have := seqOK_at _ [] _ (i2, t2) (known tm l3) hs rfl
  unfold okAt at this
  simp only [List.nil_append, Bool.and_eq_true, Bool.or_eq_true] at this
  rcases this.1.1.2 with h | h
  · simpa using h
  · simp only [List.all_append, List.all_cons, Bool.and_eq_true] at h
    have := h.2.1
    simp [hm1] at this

/-- rows of a fixed-order table (the publications file) appear in table order -/
theorem fixed_order_sorted (tm : List Entry) (l1 l2 l3 : List Elem) (e1 e2 : Elem) (i1 i2 : Nat) (t1 t2 : Entry)
    (hc : conforms tm (l1 ++ e1 :: l2 ++ e2 :: l3) = true)
    (h1 : rowOf tm e1 = some (i1, t1)) (h2 : rowOf tm e2 = some (i2, t2))
    (hf1 : t1.has FLG_FIXED_ORDER = true) (hf2 : t2.has FLG_FIXED_ORDER = true) : i1 ≤ i2 := by
  unfold conforms at hc
  simp only [Bool.and_eq_true] at hc
  have hs := hc.1.2
  rw [known_append, known_cons_some tm e2 l3 (i2, t2) h2, known_append, known_cons_some tm e1 l2 (i1, t1) h1] at hs
  have := seqOK_at _ [] _ (i2, t2) (known tm l3) hs rfl
  unfold okAt at this
  simp only [List.nil_append, Bool.and_eq_true, Bool.or_eq_true] at this
  rcases this.1.1.1.1.1 with h | h
  · simp [hf2] at h
  · simp only [List.all_append, List.all_cons, Bool.and_eq_true] at h
    have := h.2.1
    simpa [hf1] using this

theorem completeFrom_at (ks : List (Nat × Entry)) : ∀ (tm : List Entry) (i0 j : Nat) (t : Entry),
    completeFrom ks tm i0 = true → tm[j]? = some t →
      (t.has FLG_MANDATORY = true → ks.any (·.1 == i0 + j) = true) ∧
      (t.has FLG_LEAST_ONE_G0 = true → ks.any (·.2.has FLG_LEAST_ONE_G0) = true) ∧
      (t.has FLG_LEAST_ONE_G1 = true → ks.any (·.2.has FLG_LEAST_ONE_G1) = true) := by
  intro tm
  induction tm with
  | nil => intro i0 j t _ h; simp at h
  | cons x xs ih =>
    intro i0 j t hc h
    simp only [completeFrom, Bool.and_eq_true, Bool.or_eq_true, Bool.not_eq_true'] at hc
    cases j with
    | zero =>
      simp only [List.getElem?_cons_zero, Option.some.injEq] at h
      subst h
      refine ⟨fun hm => ?_, fun hm => ?_, fun hm => ?_⟩
      · rcases hc.1.1.1 with h | h
        · rw [hm] at h; cases h
        · simpa using h
      · rcases hc.1.1.2 with h | h
        · rw [hm] at h; cases h
        · exact h
      · rcases hc.1.2 with h | h
        · rw [hm] at h; cases h
        · exact h
    | succ j =>
      simp only [List.getElem?_cons_succ] at h
      have := ih (i0 + 1) j t hc.2 h
      rw [show i0 + 1 + j = i0 + (j + 1) by omega] at this
      exact this

/-- every mandatory row is present, and every at-least-one group is hit -/
theorem mandatory_present (tm : List Entry) (es : List Elem) (j : Nat) (t : Entry)
    (hc : conforms tm es = true) (ht : tm[j]? = some t) :
    (t.has FLG_MANDATORY = true → ∃ e ∈ es, ∃ u, rowOf tm e = some (j, u)) ∧
    (t.has FLG_LEAST_ONE_G0 = true → ∃ e ∈ es, ∃ i u, rowOf tm e = some (i, u) ∧ u.has FLG_LEAST_ONE_G0 = true) ∧
    (t.has FLG_LEAST_ONE_G1 = true → ∃ e ∈ es, ∃ i u, rowOf tm e = some (i, u) ∧ u.has FLG_LEAST_ONE_G1 = true) := by
  unfold conforms at hc
  simp only [Bool.and_eq_true] at hc
  have := completeFrom_at (known tm es) tm 0 j t hc.2 ht
  refine ⟨fun hm => ?_, fun hm => ?_, fun hm => ?_⟩
  · have h := this.1 hm
    simp only [known, List.any_eq_true, List.mem_filterMap, Nat.zero_add, beq_iff_eq] at h
    obtain ⟨⟨i, u⟩, ⟨e, he, hr⟩, hi⟩ := h
    simp only at hi
    exact ⟨e, he, u, by rw [hr, hi]⟩
  · have h := this.2.1 hm
    simp only [known, List.any_eq_true, List.mem_filterMap] at h
    obtain ⟨⟨i, u⟩, ⟨e, he, hr⟩, hi⟩ := h
    exact ⟨e, he, i, u, hr, hi⟩
  · have h := this.2.2 hm
    simp only [known, List.any_eq_true, List.mem_filterMap] at h
    obtain ⟨⟨i, u⟩, ⟨e, he, hr⟩, hi⟩ := h
    exact ⟨e, he, i, u, hr, hi⟩

end KsiVerif.Props.C10

/-! ## the schema tables -/
namespace KsiVerif.Props.C10
open KsiVerif KsiVerif.Template

/-- the tables generated from the current source are the reference schema -/
theorem tables_are_the_reference_schema : Gen.templates = SchemaRef.templates := by decide

/-- the hash-algorithm table reported by the current library is the registry: same ids, same digest lengths -/
theorem hash_algorithms_are_the_registry :
    Gen.hashAlgs.map (fun a => (a.id, a.len)) = SchemaRef.hashLens ∧ ∀ a ∈ Gen.hashAlgs, a.name ≠ "" := by decide

/-- what the engine model leaves out does not occur in any table: no row is flagged MORE_DEFS
(several rows for one tag), no table is empty, no row has tag 0 (the table terminator) -/
theorem tables_within_model :
    ∀ t ∈ Gen.templates, t.2.isEmpty = false ∧ ∀ e ∈ t.2, e.has FLG_MORE_DEFS = false ∧ e.tag ≠ 0 := by decide

/-- a field shared by several rows (left / right links of a chain) is list-valued in all of them,
so "assigned once" is the same as "each single-valued row occurs at most once" -/
theorem shared_fields_are_lists :
    ∀ t ∈ Gen.templates, ∀ e ∈ t.2, ∀ e' ∈ t.2, e.getter = e'.getter → e.tag ≠ e'.tag → (e.multiple = true ∧ e'.multiple = true) := by
  decide

/-- v2 PDUs: the header row is FIRST, the MAC row is LAST (and is an imprint) -/
theorem v2_pdu_header_first_mac_last :
    ∀ tm ∈ [Gen.tKSI_AggregationReqPdu, Gen.tKSI_AggregationRespPdu, Gen.tKSI_ExtendReqPdu, Gen.tKSI_ExtendRespPdu],
      (∃ h ∈ tm, h.tag = 0x01 ∧ h.has FLG_FIRST = true ∧ h.multiple = false) ∧
      (∃ m ∈ tm, m.tag = 0x1f ∧ m.has FLG_LAST = true ∧ m.kind = .imprint ∧ m.multiple = false) ∧
      (∀ r ∈ tm, r.tag ≠ 0x01 → r.tag ≠ 0x1f → r.has FLG_LEAST_ONE_G0 = true) := by decide

/-- publications file: header, certificate records, publication records, signature — all rows
fixed-order, header and signature mandatory and single -/
theorem pubfile_sections_in_order :
    Gen.tKSI_PublicationsFile.map (fun e => (e.tag, e.has FLG_FIXED_ORDER, e.has FLG_MANDATORY, e.multiple)) =
      [(0x701, true, true, false), (0x702, true, false, true), (0x703, true, false, true), (0x704, true, true, false)] := by decide

end KsiVerif.Props.C10

/-! ## value parsers -/
namespace KsiVerif.Props.C10
open KsiVerif KsiVerif.Template

/-- integers: accepted exactly when at most 8 octets long with no leading zero octet (the minimal
big-endian encoding of a 64-bit value; zero is the empty string); the value is the big-endian value -/
theorem integer_minimal_64bit (p : Bytes) (n : Nat) :
    parseInt p = .ok n ↔ p.length ≤ 8 ∧ p.head? ≠ some 0 ∧ n = beVal p := by
  unfold parseInt
  cases p with
  | nil => simp [beVal]; exact eq_comm
  | cons h t =>
    by_cases hl : (h :: t).length > 8
    · simp only [hl, if_true]
      constructor
      · intro x; cases x
      · intro ⟨h1, _⟩; omega
    · simp only [hl, if_false]
      have hlt : t.length < 8 := by simp only [List.length_cons] at hl; omega
      have hv := beVal_cons h t
      have hb := beVal_lt t
      by_cases hz : h = 0
      · -- leading zero: the value needs fewer octets
        have hv' : beVal (h :: t) < 256 ^ t.length := by rw [hv, hz]; simpa using hb
        have := minSize_le _ _ (by omega) hv'
        have hne : ((h :: t).length != minSize (beVal (h :: t))) = true := by
          simp only [List.length_cons, bne_iff_ne, ne_eq]; omega
        have hcond : (decide ((h :: t).length > 0) && ((h :: t).length != minSize (beVal (h :: t)))) = true := by
          rw [hne]; simp
        rw [if_pos hcond]
        constructor
        · intro x; cases x
        · intro ⟨_, x, _⟩; rw [hz] at x; simp at x
      · have hpos : 1 ≤ h.toNat := by
          rcases Nat.eq_zero_or_pos h.toNat with h0 | h0
          · exact absurd (UInt8.toNat_inj.mp (by simpa using h0)) hz
          · exact h0
        have h1 : 256 ^ t.length ≤ beVal (h :: t) := by
          rw [hv]; exact Nat.le_trans (Nat.le_mul_of_pos_left _ hpos) (Nat.le_add_right _ _)
        have h2 : beVal (h :: t) < 256 ^ (t.length + 1) := beVal_lt (h :: t)
        have := minSize_eq _ _ hlt h1 h2
        have heq : ((h :: t).length != minSize (beVal (h :: t))) = false := by
          simp only [List.length_cons, this, bne_self_eq_false]
        have hcond : ¬ (decide ((h :: t).length > 0) && ((h :: t).length != minSize (beVal (h :: t)))) = true := by
          rw [heq]; simp
        rw [if_neg hcond]
        simp only [Except.ok.injEq, List.head?_cons, ne_eq, Option.some.injEq, hz, not_false_eq_true, true_and]
        constructor
        · intro x; exact ⟨by simp only [List.length_cons] at hl ⊢; omega, x.symm⟩
        · intro x; exact x.2.symm

/-- non-vacuity / boundary: 2^64-1 is accepted, a 9-octet value and `00` are not -/
example : parseInt [255, 255] = .ok 65535 := by simp [parseInt, beVal, minSize]
example : parseInt [1, 0, 0, 0, 0, 0, 0, 0, 0] = .error IF := by simp [parseInt]
example : parseInt [0] = .error IF := by simp [parseInt, beVal, minSize]

/-- imprints: accepted exactly when a known algorithm id is followed by a digest of that
algorithm's length -/
theorem imprint_known_algorithm_and_length (p h : Bytes) :
    parseImprint p = .ok h ↔
      h = p ∧ ∃ a d, p = a :: d ∧ d ≠ [] ∧ Gen.hashValid a.toNat = true ∧ Gen.hashLen a.toNat = d.length ∧ d.length ≤ MAX_IMPRINT_LEN := by
  unfold parseImprint
  cases p with
  | nil => simp
  | cons a d =>
    by_cases h1 : d.isEmpty = true
    · have : d = [] := List.isEmpty_iff.mp h1
      simp only [this, List.isEmpty_nil, if_true]
      constructor
      · intro x; cases x
      · rintro ⟨_, a', d', hp, hd', _⟩; cases hp; exact absurd rfl hd'
    · have hd : d ≠ [] := fun x => h1 (by simp [x])
      simp only [h1, Bool.false_eq_true, if_false]
      by_cases h2 : Gen.hashValid a.toNat = true
      · simp only [h2, Bool.not_true, Bool.false_eq_true, if_false]
        by_cases h3 : Gen.hashLen a.toNat = d.length
        · simp only [h3, bne_self_eq_false, Bool.false_eq_true, if_false]
          by_cases h4 : d.length > MAX_IMPRINT_LEN
          · simp only [h4, if_true]
            constructor
            · intro x; cases x
            · rintro ⟨_, a', d', hp, _, _, _, h5⟩; cases hp; omega
          · simp only [h4, if_false, Except.ok.injEq]
            constructor
            · intro x; exact ⟨x.symm, a, d, rfl, hd, h2, h3, by omega⟩
            · intro x; exact x.1.symm
        · have : (Gen.hashLen a.toNat != d.length) = true := by simpa using h3
          simp only [this, if_true]
          constructor
          · intro x; cases x
          · rintro ⟨_, a', d', hp, _, _, h5, _⟩; cases hp; exact absurd h5 h3
      · simp only [Bool.not_eq_true] at h2
        simp only [h2, Bool.not_false, if_true]
        constructor
        · intro x; cases x
        · rintro ⟨_, a', d', hp, _, h5, _, _⟩; cases hp; rw [h2] at h5; cases h5

/-- legacy identifiers: 29 octets `03 00 n <n octets> 00 … 00` with n ≤ 25 -/
theorem legacy_id_well_formed (p b : Bytes) :
    parseLegacyId p = .ok b ↔
      b = p ∧ p.length = 29 ∧ p.getD 0 0 = 3 ∧ p.getD 1 0 = 0 ∧ (p.getD 2 0).toNat ≤ 25 ∧
        ∀ x ∈ p.drop ((p.getD 2 0).toNat + 3), x = 0 := by
  unfold parseLegacyId
  by_cases h1 : p.length = 29
  · simp only [h1, bne_self_eq_false, Bool.false_eq_true, if_false, true_and]
    by_cases h2 : (p.getD 0 0 == 3 && p.getD 1 0 == 0) = true
    · simp only [h2, Bool.not_true, Bool.false_eq_true, if_false]
      simp only [Bool.and_eq_true, beq_iff_eq] at h2
      by_cases h3 : (p.getD 2 0).toNat > 25
      · simp only [h3, if_true]
        constructor
        · intro x; cases x
        · intro ⟨_, _, _, h, _⟩; omega
      · simp only [h3, if_false]
        by_cases h4 : (p.drop ((p.getD 2 0).toNat + 3)).any (· != 0) = true
        · simp only [h4, if_true]
          constructor
          · intro x; cases x
          · intro ⟨_, _, _, _, h⟩
            simp only [List.any_eq_true, bne_iff_ne, ne_eq] at h4
            obtain ⟨x, hx, hne⟩ := h4
            exact absurd (h x hx) hne
        · simp only [h4, Bool.false_eq_true, if_false, Except.ok.injEq]
          constructor
          · intro x
            refine ⟨x.symm, h2.1, h2.2, by omega, ?_⟩
            intro y hy
            simp only [List.any_eq_true, bne_iff_ne, ne_eq, not_exists, not_and, Decidable.not_not] at h4
            exact h4 y hy
          · intro x; exact x.1.symm
    · have : (!(p.getD 0 0 == 3 && p.getD 1 0 == 0)) = true := by
        cases hh : (p.getD 0 0 == 3 && p.getD 1 0 == 0) with
        | true => exact absurd hh h2
        | false => rfl
      simp only [this, if_true]
      constructor
      · intro x; cases x
      · intro ⟨_, h3, h4, _, _⟩; exact absurd (by rw [h3, h4]; rfl) h2
  · have : (p.length != 29) = true := by simpa using h1
    simp only [this, if_true]
    constructor
    · intro x; cases x
    · intro ⟨_, h, _⟩; exact absurd h h1

end KsiVerif.Props.C10

namespace KsiVerif.Props.C10
open KsiVerif KsiVerif.Template

/-- strings: accepted exactly when NUL-terminated, without another NUL, and with well-formed
UTF-8 lead / continuation structure -/
theorem string_well_formed (p s : Bytes) : parseUtf8 p = .ok s ↔ s = p ∧ WellFormedString p := by
  unfold parseUtf8 WellFormedString
  by_cases h1 : (p.isEmpty || p.getLast? != some 0) = true
  · rw [if_pos h1]
    constructor
    · intro x; cases x
    · intro ⟨_, h2, _⟩
      simp only [Bool.or_eq_true, bne_iff_ne, ne_eq] at h1
      rcases h1 with h1 | h1
      · have : p = [] := List.isEmpty_iff.mp h1
        rw [this] at h2; simp at h2
      · exact absurd h2 h1
  · rw [if_neg h1]
    have hlast : p.getLast? = some 0 := by
      simp only [Bool.or_eq_true, bne_iff_ne, ne_eq, not_or, Decidable.not_not] at h1
      exact h1.2
    cases hv : verifyUtf8 p with
    | error c =>
      simp only
      constructor
      · intro x; cases x
      · intro ⟨_, _, h3⟩; rw [verifyUtf8_complete p h3] at hv; cases hv
    | ok u =>
      simp only [Except.ok.injEq]
      constructor
      · intro x; exact ⟨x.symm, hlast, verifyUtf8_sound p.length p rfl hv⟩
      · intro x; exact x.1.symm

/-- strings that must not be empty (URIs, references): additionally at least one character -/
theorem string_nonempty (p s : Bytes) : parseUtf8NZ p = .ok s ↔ s = p ∧ WellFormedString p ∧ 2 ≤ p.length := by
  unfold parseUtf8NZ
  cases h : parseUtf8 p with
  | error c =>
    simp only
    constructor
    · intro x; cases x
    · intro ⟨_, h2, _⟩
      have := (string_well_formed p p).mpr ⟨rfl, h2⟩
      rw [h] at this; cases this
  | ok t =>
    have ht := (string_well_formed p t).mp h
    simp only
    rw [ht.1]
    by_cases hl : p.length ≤ 1
    · rw [if_pos hl]
      constructor
      · intro x; cases x
      · intro ⟨_, _, h3⟩; omega
    · rw [if_neg hl]
      simp only [Except.ok.injEq]
      constructor
      · intro x; exact ⟨x.symm, ht.2, by omega⟩
      · intro x; exact x.1.symm

/-- non-vacuity: "ä€" NUL is well formed; a lone continuation octet, a truncated character and an
embedded NUL are not -/
example : WellFormedString [0xc3, 0xa4, 0xe2, 0x82, 0xac, 0] :=
  ⟨rfl, .two _ _ _ (by decide) (by decide) ⟨by decide, by decide⟩
    (.three _ _ _ _ (by decide) (by decide) ⟨by decide, by decide⟩ ⟨by decide, by decide⟩
      (.one _ _ (by decide) (Or.inr rfl) .nil))⟩

end KsiVerif.Props.C10

namespace KsiVerif.Props.C10
open KsiVerif KsiVerif.Template KsiVerif.Tlv

/-- how the value of a row is obtained, kind by kind (scalars) -/
theorem scalar_values (tabs : Tables) (derOK : Bytes → Bool) (fuel : Nat) (t : Entry) (e : Elem) :
    (t.kind = .int → parseVal tabs derOK (fuel + 1) t e = (parseInt e.payload).map .int) ∧
    (t.kind = .utf8 → parseVal tabs derOK (fuel + 1) t e = (parseUtf8 e.payload).map .str) ∧
    (t.kind = .utf8nz → parseVal tabs derOK (fuel + 1) t e = (parseUtf8NZ e.payload).map .str) ∧
    (t.kind = .octet → parseVal tabs derOK (fuel + 1) t e = .ok (.oct e.payload)) ∧
    (t.kind = .imprint → parseVal tabs derOK (fuel + 1) t e = (parseImprint e.payload).map .imprint) ∧
    (t.kind = .legacyId → parseVal tabs derOK (fuel + 1) t e = (parseLegacyId e.payload).map .oct) := by
  refine ⟨fun h => ?_, fun h => ?_, fun h => ?_, fun h => ?_, fun h => ?_, fun h => ?_⟩
  · simp only [parseVal, h]; cases parseInt e.payload <;> rfl
  · simp only [parseVal, h]; cases parseUtf8 e.payload <;> rfl
  · simp only [parseVal, h]; cases parseUtf8NZ e.payload <;> rfl
  · simp only [parseVal, h]
  · simp only [parseVal, h]; cases parseImprint e.payload <;> rfl
  · simp only [parseVal, h]; cases parseLegacyId e.payload <;> rfl

/-- a composite row (and likewise every nested object): its content must tile into TLVs that
conform to the sub-table, all known values parsing one nesting level further down -/
theorem composite_value (tabs : Tables) (derOK : Bytes → Bool) (fuel : Nat) (t : Entry) (e : Elem) (v : Val)
    (hk : t.kind = .composite) (hne : (lookup tabs t.sub).isEmpty = false) :
    parseVal tabs derOK (fuel + 1) t e = .ok v ↔
      ∃ ts vs, expand e.payload = .ok ts ∧ conforms (lookup tabs t.sub) (ts.map Elem.ofTlv) = true ∧
        specValues (lookup tabs t.sub) (parseVal tabs derOK fuel) (ts.map Elem.ofTlv) = some vs ∧
        v = .obj (keyed (lookup tabs t.sub) vs) := by
  simp only [parseVal, hk, extractBytes]
  cases hx : expand e.payload with
  | error c => simp
  | ok ts =>
    simp only [Except.ok.injEq, exists_and_left, exists_eq_left']
    cases hg : extractG (lookup tabs t.sub) (parseVal tabs derOK fuel) (ts.map Elem.ofTlv) with
    | error c =>
      simp only
      constructor
      · intro x; cases x
      · rintro ⟨hc, vs, hs, _⟩
        have := (extractG_spec _ _ _ vs hne).mpr ⟨hc, hs⟩
        rw [hg] at this; cases this
    | ok ws =>
      have := (extractG_spec _ _ _ ws hne).mp hg
      simp only [Except.ok.injEq]
      constructor
      · intro x; exact ⟨this.1, ws, this.2, x.symm⟩
      · rintro ⟨_, vs, hs, hv⟩
        rw [this.2] at hs; cases hs; exact hv.symm

/-- `KSI_TlvTemplate_parse` (through which the PDU entry points go): one well-sized TLV whose
content tiles into elements conforming to the table -/
theorem templateParse_iff (c : Cfg) (name : String) (raw : Bytes) (out : List (Nat × Val))
    (hne : (lookup c.tabs name).isEmpty = false) :
    templateParse c name raw = .ok out ↔
      ∃ t ts vs, parseBlob raw = .ok t ∧ expand (Elem.ofTlv t).payload = .ok ts ∧
        conforms (lookup c.tabs name) (ts.map Elem.ofTlv) = true ∧
        specValues (lookup c.tabs name) (parseVal c.tabs c.derOK FUEL) (ts.map Elem.ofTlv) = some vs ∧
        out = keyed (lookup c.tabs name) vs := by
  unfold templateParse extractBytes
  cases hb : parseBlob raw with
  | error x => simp
  | ok t =>
    simp only [Except.ok.injEq, exists_and_left, exists_eq_left']
    cases hx : expand (Elem.ofTlv t).payload with
    | error x => simp
    | ok ts =>
      simp only [Except.ok.injEq, exists_eq_left']
      cases hg : extractG (lookup c.tabs name) (parseVal c.tabs c.derOK FUEL) (ts.map Elem.ofTlv) with
      | error x =>
        simp only
        constructor
        · intro x; cases x
        · rintro ⟨hc, vs, hs, _⟩
          have := (extractG_spec _ _ _ vs hne).mpr ⟨hc, hs⟩
          rw [hg] at this; cases this
      | ok ws =>
        have := (extractG_spec _ _ _ ws hne).mp hg
        simp only [Except.ok.injEq]
        constructor
        · intro x; exact ⟨this.1, ws, this.2, x.symm⟩
        · rintro ⟨_, vs, hs, hv⟩
          rw [this.2] at hs; cases hs; exact hv.symm

end KsiVerif.Props.C10
