import KsiVerif.Model.Template
/-! # C10 — property theorems (under construction) -/
namespace KsiVerif.Props.C10
end KsiVerif.Props.C10
