import KsiVerif.Model.Extend
import KsiVerif.Props.C01
/-! # C08 — extending needs a matching calendar chain and preserves the signature -/
namespace KsiVerif.Props.C08
open KsiVerif KsiVerif.Tlv KsiVerif.TlvSpec KsiVerif.Template KsiVerif.HashChain KsiVerif.Verify KsiVerif.Policy KsiVerif.Extend

/-! ## the reply against the request -/

theorem calTimeLoop_error : ∀ (l : List Bool) (r t e : Nat), calTimeLoop l r t = .error e → e = St.INVALID_FORMAT := by
  intro l
  induction l with
  | nil => intro r t e h; simp only [calTimeLoop] at h; split at h <;> cases h; rfl
  | cons b rest ih =>
    intro r t e h
    simp only [calTimeLoop] at h
    split at h
    · cases h; rfl
    · split at h
      · exact ih _ _ _ h
      · exact ih _ _ _ h

theorem calTime_error (sh : List Bool) (p e : Nat) (h : calTime sh p = .error e) : e = St.INVALID_FORMAT := by
  unfold calTime at h
  split at h
  · cases h; rfl
  · split at h
    · cases h; rfl
    · exact calTimeLoop_error _ _ _ _ h

theorem convExt_ne_zero (st : Nat) (h : st ≠ 0) : PduMac.convExt st ≠ 0 := by
  unfold PduMac.convExt
  rw [if_neg h]
  by_cases h0 : st = 0x101
  · rw [if_pos h0]; decide
  · rw [if_neg h0]
    by_cases h1 : st = 0x102
    · rw [if_pos h1]; decide
    · rw [if_neg h1]
      by_cases h2 : st = 0x103
      · rw [if_pos h2]; decide
      · rw [if_neg h2]
        by_cases h3 : st = 0x104
        · rw [if_pos h3]; decide
        · rw [if_neg h3]
          by_cases h4 : st = 0x105
          · rw [if_pos h4]; decide
          · rw [if_neg h4]
            by_cases h5 : st = 0x106
            · rw [if_pos h5]; decide
            · rw [if_neg h5]
              by_cases h6 : st = 0x107
              · rw [if_pos h6]; decide
              · rw [if_neg h6]
                by_cases h7 : st = 0x200
                · rw [if_pos h7]; decide
                · rw [if_neg h7]
                  by_cases h8 : st = 0x201
                  · rw [if_pos h8]; decide
                  · rw [if_neg h8]
                    by_cases h9 : st = 0x202
                    · rw [if_pos h9]; decide
                    · rw [if_neg h9]
                      by_cases h10 : st = 0x300
                      · rw [if_pos h10]; decide
                      · rw [if_neg h10]
                        by_cases h11 : st = 0x301
                        · rw [if_pos h11]; decide
                        · rw [if_neg h11]
                          decide

/-- **`verifyWithRequest` accepts exactly** a reply with status zero, the request's id, a calendar chain with the requested
publication time (when one was requested), the requested aggregation time, and a shape that yields that time. -/
theorem verifyWithRequest_ok_iff (r : ExtResp) (rid aggrTime : Nat) (pubTime : Option Nat) :
    verifyWithRequest r rid aggrTime pubTime = 0 ↔
      (r.status = some 0 ∧ r.requestId = some rid ∧
        ∃ c, r.cal = some c ∧ (∀ p, pubTime = some p → c.pubTime = p) ∧ c.aggrTime = some aggrTime ∧
          calTime (c.links.map (·.isLeft)) c.pubTime = .ok aggrTime) := by
  unfold verifyWithRequest
  cases hs : r.status with
  | none => simp [St.INVALID_FORMAT]
  | some st =>
    simp only [Option.some.injEq]
    by_cases h0 : st = 0
    · subst h0
      rw [if_neg (by simp)]
      by_cases hid : r.requestId = some rid
      · rw [if_neg (by simpa using hid)]
        cases hc : r.cal with
        | none => simp [St.INVALID_ARGUMENT, hid]
        | some c =>
          simp only [Option.some.injEq, exists_eq_left', hid, true_and]
          by_cases hp : pubTime.isSome = true ∧ pubTime ≠ some c.pubTime
          · rw [if_pos hp]
            constructor
            · intro h; exact absurd h (by decide)
            · rintro ⟨h1, _⟩
              cases hpt : pubTime with
              | none => rw [hpt] at hp; simp at hp
              | some p => rw [hpt] at hp; exact absurd (by rw [h1 p hpt]) hp.2
          · rw [if_neg hp]
            have hp' : ∀ p, pubTime = some p → c.pubTime = p := by
              intro p hpt
              rw [hpt] at hp
              simp only [Option.isSome_some, true_and, ne_eq, Option.some.injEq, Decidable.not_not] at hp
              exact hp.symm
            by_cases ha : c.aggrTime = some aggrTime
            · rw [if_neg (by simpa using ha)]
              cases hct : calTime (c.links.map (·.isLeft)) c.pubTime with
              | error e =>
                simp only [reduceCtorEq, and_false, iff_false]
                rw [calTime_error _ _ _ hct]; decide
              | ok t =>
                simp only [Except.ok.injEq]
                by_cases ht : t = aggrTime
                · rw [if_neg (by simpa using ht)]
                  exact ⟨fun _ => ⟨hp', ha, ht⟩, fun _ => rfl⟩
                · rw [if_pos ht]
                  exact ⟨fun h => absurd h (by decide), fun h => absurd h.2.2 ht⟩
            · rw [if_pos ha]
              exact ⟨fun h => absurd h (by decide), fun h => absurd h.2.1 ha⟩
      · rw [if_pos hid]
        exact ⟨fun h => absurd h (by decide), fun h => absurd h.2.1 hid⟩
    · rw [if_pos h0]
      exact ⟨fun h => absurd h (convExt_ne_zero st h0), fun h => absurd h.1 h0⟩

/-! ## the reply against the signature's previous calendar chain -/

/-- **compatible exactly when** aggregation time and input hash are the old chain's and the right links agree one by one -/
theorem compatible_ok_iff (a b : CalChain) :
    compatible a b = 0 ↔ (a.aggrTime.getD a.pubTime = b.aggrTime.getD b.pubTime ∧ a.inputHash = b.inputHash ∧ rights a = rights b) := by
  unfold compatible
  by_cases h1 : a.aggrTime.getD a.pubTime = b.aggrTime.getD b.pubTime
  · rw [if_neg (by simpa using h1)]
    by_cases h2 : a.inputHash = b.inputHash
    · rw [if_neg (by simpa using h2)]
      by_cases h3 : rights a = rights b
      · rw [if_neg (by simpa using h3)]; exact ⟨fun _ => ⟨h1, h2, h3⟩, fun _ => rfl⟩
      · rw [if_pos h3]; exact ⟨fun h => absurd h (by decide), fun h => absurd h.2.2 h3⟩
    · rw [if_pos h2]; exact ⟨fun h => absurd h (by decide), fun h => absurd h.2.1 h2⟩
  · rw [if_pos h1]; exact ⟨fun h => absurd h (by decide), fun h => absurd h.1 h1⟩

/-! ## what the result consists of -/

theorem filter_replaceFirst (nc : Tlv) (tag : Nat) (ht : tag ≠ 0x802) (hn : nc.tag = 0x802) : ∀ (els : List Tlv),
    (replaceFirst nc els).filter (·.tag == tag) = els.filter (·.tag == tag) := by
  intro els
  induction els with
  | nil => rfl
  | cons e es ih =>
    simp only [replaceFirst]
    by_cases he : e.tag = 0x802
    · rw [if_pos he]
      have h1 : (nc.tag == tag) = false := by rw [hn]; simpa using (Ne.symm ht)
      have h2 : (e.tag == tag) = false := by rw [he]; simpa using (Ne.symm ht)
      simp [List.filter_cons, h1, h2]
    · rw [if_neg he]
      simp only [List.filter_cons]
      rw [ih]

theorem filter_replaceCal (nc : Tlv) (tag : Nat) (ht : tag ≠ 0x802) (hn : nc.tag = 0x802) (els : List Tlv) :
    (replaceCal els nc).filter (·.tag == tag) = els.filter (·.tag == tag) := by
  unfold replaceCal
  split
  · exact filter_replaceFirst nc tag ht hn els
  · have h1 : (nc.tag == tag) = false := by rw [hn]; simpa using (Ne.symm ht)
    simp [List.filter_append, h1]

theorem filter_removeAnchors (tag : Nat) (els : List Tlv) :
    (removeAnchors els).filter (·.tag == tag) = if tag = 0x803 ∨ tag = 0x805 then [] else els.filter (·.tag == tag) := by
  unfold removeAnchors
  rw [List.filter_filter]
  by_cases h : tag = 0x803 ∨ tag = 0x805
  · rw [if_pos h]
    apply List.filter_eq_nil_iff.mpr
    intro e _
    rcases h with h | h <;> subst h <;> simp
    · intro he; simp [he]
    · intro he; simp [he]
  · rw [if_neg h]
    apply List.filter_congr
    intro e _
    by_cases he : e.tag = tag
    · have h3 : e.tag ≠ 0x803 := fun x => h (Or.inl (he ▸ x))
      have h5 : e.tag ≠ 0x805 := fun x => h (Or.inr (he ▸ x))
      simp [he, h3, h5]
      rw [he] at h3 h5; exact ⟨h3, h5⟩
    · simp [he]

/-- **Everything but the calendar chain and the anchor records is kept**, element by element and in order: the aggregation
chains (0x801), a legacy record (0x806), unknown elements -/
theorem compose_keeps (els : List Tlv) (nc : Tlv) (pub : Option Tlv) (tag : Nat) (hn : nc.tag = 0x802)
    (hp : ∀ p, pub = some p → p.tag = 0x803) (h2 : tag ≠ 0x802) (h3 : tag ≠ 0x803) (h5 : tag ≠ 0x805) :
    (compose els nc pub).filter (·.tag == tag) = els.filter (·.tag == tag) := by
  have hno : ¬ (tag = 0x803 ∨ tag = 0x805) := fun h => h.elim h3 h5
  unfold compose
  cases pub with
  | none => simp only; rw [filter_removeAnchors, if_neg hno, filter_replaceCal nc tag h2 hn]
  | some p =>
    have hpt : (p.tag == tag) = false := by rw [hp p rfl]; simpa using (Ne.symm h3)
    simp only [List.filter_append, List.filter_cons, hpt, List.filter_nil, List.append_nil, Bool.false_eq_true, if_false]
    rw [filter_removeAnchors, if_neg hno, filter_removeAnchors, if_neg hno, filter_replaceCal nc tag h2 hn]

/-- no calendar authentication record remains, and the publication record is exactly the supplied one (none if none was) -/
theorem compose_anchors (els : List Tlv) (nc : Tlv) (pub : Option Tlv) (hp : ∀ p, pub = some p → p.tag = 0x803) :
    (compose els nc pub).filter (·.tag == 0x805) = [] ∧ (compose els nc pub).filter (·.tag == 0x803) = pub.toList := by
  unfold compose
  cases pub with
  | none =>
    simp only [Option.toList]
    constructor
    · rw [filter_removeAnchors]; simp
    · rw [filter_removeAnchors]; simp
  | some p =>
    have h3 : p.tag = 0x803 := hp p rfl
    simp only [List.filter_append, List.filter_cons, List.filter_nil, Option.toList]
    constructor
    · rw [filter_removeAnchors]; simp [h3]
    · rw [filter_removeAnchors]; simp [h3]

theorem filter_replaceFirst_cal (nc : Tlv) (hn : nc.tag = 0x802) : ∀ (els : List Tlv), els.any (·.tag == 0x802) = true →
    ((els.filter (·.tag == 0x802)).length = 1 → (replaceFirst nc els).filter (·.tag == 0x802) = [nc]) := by
  intro els
  induction els with
  | nil => intro h; simp at h
  | cons e es ih =>
    intro hany hone
    simp only [replaceFirst]
    by_cases he : e.tag = 0x802
    · rw [if_pos he]
      have : (e.tag == 0x802) = true := by simpa using he
      simp only [List.filter_cons, this, if_true, List.length_cons] at hone
      have hnil : es.filter (·.tag == 0x802) = [] := List.eq_nil_of_length_eq_zero (by omega)
      have hnc : (nc.tag == 0x802) = true := by simpa using hn
      simp [List.filter_cons, hnc, hnil]
    · rw [if_neg he]
      have hf : (e.tag == 0x802) = false := by simpa using he
      simp only [List.filter_cons, hf, Bool.false_eq_true, if_false] at hone ⊢
      simp only [List.any_cons, hf, Bool.false_or] at hany
      exact ih hany hone

/-- the result carries exactly one calendar chain — the new one — when the source carried at most one -/
theorem compose_calendar (els : List Tlv) (nc : Tlv) (pub : Option Tlv) (hn : nc.tag = 0x802)
    (hp : ∀ p, pub = some p → p.tag = 0x803) (hone : (els.filter (·.tag == 0x802)).length ≤ 1) :
    (compose els nc pub).filter (·.tag == 0x802) = [nc] := by
  have hno : ¬ ((0x802 : Nat) = 0x803 ∨ (0x802 : Nat) = 0x805) := by decide
  have hcal : (replaceCal els nc).filter (·.tag == 0x802) = [nc] := by
    unfold replaceCal
    by_cases hany : els.any (·.tag == 0x802) = true
    · rw [if_pos hany]
      apply filter_replaceFirst_cal nc hn els hany
      have : 0 < (els.filter (·.tag == 0x802)).length := by
        apply List.length_pos_iff.mpr
        intro hnil
        have := List.filter_eq_nil_iff.mp hnil
        obtain ⟨e, he, ht⟩ := List.any_eq_true.mp hany
        exact this e he ht
      omega
    · rw [if_neg hany]
      have hnil : els.filter (·.tag == 0x802) = [] := by
        apply List.filter_eq_nil_iff.mpr
        intro e he ht
        exact hany (List.any_eq_true.mpr ⟨e, he, ht⟩)
      have hnc : (nc.tag == 0x802) = true := by simpa using hn
      simp [List.filter_append, hnil, hnc]
  unfold compose
  cases pub with
  | none => simp only; rw [filter_removeAnchors, if_neg hno, hcal]
  | some p =>
    have hpt : (p.tag == 0x802) = false := by rw [hp p rfl]; decide
    simp only [List.filter_append, List.filter_cons, hpt, List.filter_nil, List.append_nil, Bool.false_eq_true, if_false]
    rw [filter_removeAnchors, if_neg hno, filter_removeAnchors, if_neg hno, hcal]

/-! ## the whole operation -/

/-- what a successful extension establishes -/
structure Extended (H : HashFn) (c : Cfg) (src : Bytes) (to : Option Nat) (pub : Option Tlv) (rid ver : Nat)
    (confAlg : Option Nat) (key reply out : Bytes) : Prop where
  /-- the reply passed PDU authentication (C06: header, MAC, pinned algorithm, HMAC over the stated range) -/
  authenticated : ∃ pdu, PduMac.deliver H c .ext ver confAlg key reply = .ok pdu ∧
    ∃ rv cal vs top els,
      PduMac.fieldOf c.tabs (PduMac.pduTable .ext (PduMac.rootTagOf reply)) (respTag (PduMac.rootTagOf reply)) pdu = some rv ∧
      parseSignature c src = .ok vs ∧ parseBlob src = .ok top ∧ expand (payload top) = .ok els ∧
      /- status zero, the request's id, the requested times, a shape that gives the aggregation time -/
      (respOf c.tabs (respName (PduMac.rootTagOf reply)) rv).status = some 0 ∧
      (respOf c.tabs (respName (PduMac.rootTagOf reply)) rv).requestId = some rid ∧
      (respOf c.tabs (respName (PduMac.rootTagOf reply)) rv).cal = some cal ∧
      (∀ p, to = some p → cal.pubTime = p) ∧ cal.aggrTime = some (Sig.ofVals c.tabs vs).signTime ∧
      calTime (cal.links.map (·.isLeft)) cal.pubTime = .ok (Sig.ofVals c.tabs vs).signTime ∧
      /- input hash and right links of the signature's previous calendar chain -/
      (∀ old, (Sig.ofVals c.tabs vs).cal = some old → old.inputHash = cal.inputHash ∧ rights old = rights cal) ∧
      /- the result: the source's elements with the calendar chain replaced and the anchors removed / replaced -/
      out = encode (.nested 0x800 false false (compose els (calTlv cal) pub)) ∧
      /- and it passed internal verification: in particular the new chain's input is the aggregation root (C01) -/
      ∃ vs', parseSignature c out = .ok vs' ∧ Consistent H (Sig.ofVals c.tabs vs') {}

/-- **C08.** `KSI_Signature_extendTo` / `KSI_Signature_extend` return a signature only under all of these conditions. -/
theorem extend_ok_requires (H : HashFn) (c : Cfg) (src : Bytes) (to : Option Nat) (pub : Option Tlv) (rid ver : Nat)
    (confAlg : Option Nat) (key reply out : Bytes)
    (h : extendTo H c src to pub rid ver confAlg key reply = .ok out) :
    Extended H c src to pub rid ver confAlg key reply out := by
  unfold extendTo at h
  cases hps : parseSignature c src with
  | error e => rw [hps] at h; simp at h
  | ok vs =>
    cases hpb : parseBlob src with
    | error e => rw [hps, hpb] at h; simp at h
    | ok top =>
      rw [hps, hpb] at h
      simp only at h
      by_cases hto : (to.any fun p => decide ((Sig.ofVals c.tabs vs).signTime > p)) = true
      · rw [if_pos hto] at h; cases h
      · rw [if_neg hto] at h
        cases hd : PduMac.deliver H c .ext ver confAlg key reply with
        | error e => rw [hd] at h; simp at h
        | ok pdu =>
          rw [hd] at h
          simp only at h
          cases hf : PduMac.fieldOf c.tabs (PduMac.pduTable .ext (PduMac.rootTagOf reply)) (respTag (PduMac.rootTagOf reply)) pdu with
          | none => rw [hf] at h; simp at h
          | some rv =>
            rw [hf] at h
            simp only at h
            by_cases hst : verifyWithRequest (respOf c.tabs (respName (PduMac.rootTagOf reply)) rv) rid (Sig.ofVals c.tabs vs).signTime to = 0
            · rw [if_neg (by simpa using hst)] at h
              obtain ⟨h1, h2, cal, h3, h4, h5, h6⟩ := (verifyWithRequest_ok_iff _ _ _ _).mp hst
              rw [h3] at h
              simp only at h
              by_cases hcst : compatOld (Sig.ofVals c.tabs vs).cal cal = 0
              · rw [if_neg (by simpa using hcst)] at h
                cases he : expand (payload top) with
                | error e => rw [he] at h; simp at h
                | ok els =>
                  rw [he] at h
                  simp only at h
                  cases hpo : parseSignature c (encode (.nested 0x800 false false (compose els (calTlv cal) pub))) with
                  | error e => rw [hpo] at h; simp at h
                  | ok vs' =>
                    rw [hpo] at h
                    simp only at h
                    by_cases hvs : (verifyWith H Gen.policy_internal (Sig.ofVals c.tabs vs') {}).status = 0
                    · rw [if_neg (by simpa using hvs)] at h
                      cases hfin : (verifyWith H Gen.policy_internal (Sig.ofVals c.tabs vs') {}).final with
                      | none => rw [hfin] at h; simp at h
                      | some pr =>
                        obtain ⟨r, e⟩ := pr
                        cases r with
                        | ok =>
                          rw [hfin] at h
                          simp only [Except.ok.injEq] at h
                          subst h
                          refine ⟨⟨pdu, hd, rv, cal, vs, top, els, hf, hps, hpb, he, h1, h2, h3, h4, h5, h6, ?_, rfl, vs', hpo, ?_⟩⟩
                          · intro old hold
                            rw [hold] at hcst
                            simp only [compatOld] at hcst
                            have := (compatible_ok_iff old cal).mp hcst
                            exact ⟨this.2.1, this.2.2⟩
                          · apply (C01.internal_ok_iff H _ _).mp
                            exact ⟨hvs, e, hfin⟩
                        | na => rw [hfin] at h; simp at h
                        | fail => rw [hfin] at h; simp at h
                    · rw [if_pos hvs] at h; cases h
              · rw [if_pos hcst] at h; cases h
            · rw [if_pos hst] at h; cases h

/-- a reply that does not pass PDU authentication (missing or wrong MAC, other algorithm than the pinned one, error PDU,
malformed octets) never yields a signature -/
theorem unauthenticated_reply_refused (H : HashFn) (c : Cfg) (src : Bytes) (to : Option Nat) (pub : Option Tlv) (rid ver : Nat)
    (confAlg : Option Nat) (key reply : Bytes) (e : Nat) (hd : PduMac.deliver H c .ext ver confAlg key reply = .error e) (out : Bytes) :
    extendTo H c src to pub rid ver confAlg key reply ≠ .ok out := by
  intro h
  obtain ⟨pdu, hp, _⟩ := (extend_ok_requires H c src to pub rid ver confAlg key reply out h).authenticated
  rw [hd] at hp; cases hp

/-- the aggregation chains of the result are those of the source, octet for octet and in order; so are a legacy record
and any unknown element; exactly one calendar chain, the reply's; no authentication record; the supplied publication record -/
theorem result_structure (H : HashFn) (c : Cfg) (src : Bytes) (to : Option Nat) (pub : Option Tlv) (rid ver : Nat)
    (confAlg : Option Nat) (key reply out : Bytes) (hp : ∀ p, pub = some p → p.tag = 0x803)
    (h : extendTo H c src to pub rid ver confAlg key reply = .ok out) :
    ∃ top els cal, parseBlob src = .ok top ∧ expand (payload top) = .ok els ∧
      out = encode (.nested 0x800 false false (compose els (calTlv cal) pub)) ∧
      (∀ tag, tag ≠ 0x802 → tag ≠ 0x803 → tag ≠ 0x805 →
        (compose els (calTlv cal) pub).filter (·.tag == tag) = els.filter (·.tag == tag)) ∧
      (compose els (calTlv cal) pub).filter (·.tag == 0x805) = [] ∧
      (compose els (calTlv cal) pub).filter (·.tag == 0x803) = pub.toList ∧
      ((els.filter (·.tag == 0x802)).length ≤ 1 → (compose els (calTlv cal) pub).filter (·.tag == 0x802) = [calTlv cal]) := by
  obtain ⟨pdu, _, rv, cal, vs, top, els, _, _, hpb, he, _, _, _, _, _, _, _, hout, _⟩ :=
    (extend_ok_requires H c src to pub rid ver confAlg key reply out h).authenticated
  have hn : (calTlv cal).tag = 0x802 := rfl
  exact ⟨top, els, cal, hpb, he, hout,
    fun tag h2 h3 h5 => compose_keeps els _ pub tag hn hp h2 h3 h5,
    (compose_anchors els _ pub hp).1, (compose_anchors els _ pub hp).2,
    fun hone => compose_calendar els _ pub hn hp hone⟩

end KsiVerif.Props.C08
