import KsiVerif.Proofs.Tcp
/-!
# C14 — TCP clients frame the byte stream independently of how it is chunked

Property theorems only.  Model: `KsiVerif.Tcp` (net_tcp_async.c `dispatch`).
-/
namespace KsiVerif.Props.C14
open KsiVerif KsiVerif.Tcp

/-- **Reassembly is independent of the chunking**: for every way of cutting the server's
stream into receive chunks (any number, any sizes), the sequence of PDUs handed to the upper
layer and the bytes left buffered are those of a single extraction over the whole stream. -/
theorem reassembly_independent_of_chunking (chunks : List Bytes) :
    feed ([], []) chunks = ((extract chunks.flatten).1, (extract chunks.flatten).2) := by
  have := feed_eq_extract chunks [] [] (extract_nil rfl)
  simpa using this

/-- two chunkings of the same stream deliver the same PDUs -/
theorem same_stream_same_pdus (c₁ c₂ : List Bytes) (h : c₁.flatten = c₂.flatten) :
    feed ([], []) c₁ = feed ([], []) c₂ := by
  rw [reassembly_independent_of_chunking, reassembly_independent_of_chunking, h]

/-- only complete elements are delivered, nothing is lost or invented: the delivered PDUs
followed by the buffered remainder are exactly the bytes received -/
theorem delivered_plus_rest_is_stream (b : Bytes) : (extract b).1.flatten ++ (extract b).2 = b :=
  extract_partition b

/-- **Buffer bound / no spinning**: what remains buffered after extraction is an incomplete
element, strictly shorter than a maximum-size PDU; hence the test "a maximum-size PDU still
fits" (`inLen + MAX ≤ 2·MAX`) always holds before a `recv`, the read of at most MAX bytes
stays inside the 2·MAX buffer, and a complete PDU is never left waiting. -/
theorem inbuf_bound (b : Bytes) :
    (extract b).2.length < MAX ∧ (extract b).2.length + MAX ≤ 2 * MAX ∧
    extract (extract b).2 = ([], (extract b).2) :=
  ⟨extract_rest_lt b, by have := extract_rest_lt b; omega, extract_idem b⟩

/-- a complete element at the front of the buffer is always extracted (progress) -/
theorem complete_pdu_is_extracted (b : Bytes) (hd : Tlv.Hdr) (h0 : b.isEmpty = false)
    (h : Tlv.memRead b = .ok hd) : (extract b).1.head? = some (b.take (hd.hdrLen + hd.datLen)) := by
  rw [extract_complete h0 h]; rfl

/-- A would-block result of `send` merely postpones: the state is returned unchanged. -/
theorem wouldBlock_postpones (fuel : Nat) (rest : List SendRes) (s : State) (id : Nat)
    (h : (s.getReq id).sent < (s.getReq id).raw.length) :
    sendLoop (fuel + 1) (.wouldBlock :: rest) s id = (s, rest, .blocked) := by
  simp [sendLoop, h]

/-- One accepted `send` writes exactly the next unsent bytes of the head request. -/
theorem accept_sends_next_bytes (fuel k : Nat) (rest : List SendRes) (s : State) (id : Nat)
    (h : (s.getReq id).sent < (s.getReq id).raw.length) :
    sendLoop (fuel + 1) (.accept k :: rest) s id =
      let r := s.getReq id
      let c := min (max k 1) (r.raw.length - r.sent)
      sendLoop fuel rest ((logSent s ((r.raw.drop r.sent).take c)).setReq id fun q => { q with sent := q.sent + c }) id := by
  simp [sendLoop, h]

/-- **After a connection loss the next connection starts with a whole request**: closing the
socket empties the input buffer and resets the sent count of the request at the head of the
queue (the only one that can be partially sent). -/
theorem closeSocket_restarts_head (s : State) (h : Nat) (rest : List Nat) (hq : s.queue = h :: rest)
    (hh : h < s.reqs.length) :
    (closeSocket s).sockOpen = false ∧ (closeSocket s).inBuf = [] ∧
    ((closeSocket s).getReq h).sent = 0 ∧ (closeSocket s).queue = s.queue := by
  unfold closeSocket
  simp only [hq]
  refine ⟨rfl, rfl, ?_, rfl⟩
  simp [State.getReq, State.setReq, List.getD_eq_getElem?_getD, hh]

/-- a failed `send` closes the connection -/
theorem send_error_closes (fuel : Nat) (rest : List SendRes) (s : State) (id : Nat)
    (h : (s.getReq id).sent < (s.getReq id).raw.length) :
    sendLoop (fuel + 1) (.error :: rest) s id = (closeSocket s, rest, .closed) := by
  simp [sendLoop, h]

/-- **Send side, any schedule**: whatever sequence of partial sends and would-blocks the socket
answers with, the send loop — unless it closes the connection — puts exactly the next `k`
unsent octets of the head request on the wire, contiguously and in order, and advances the
request's sent count by `k`; the request's octets are untouched. -/
theorem sendLoop_writes_contiguous (fuel : Nat) (sends : List SendRes) (s : State) (id : Nat)
    (hid : id < s.reqs.length) (hnc : (sendLoop fuel sends s id).2.2 ≠ .closed) :
    ∃ k, ((sendLoop fuel sends s id).1.getReq id).sent = (s.getReq id).sent + k ∧
      ((sendLoop fuel sends s id).1.getReq id).raw = (s.getReq id).raw ∧
      (sendLoop fuel sends s id).1.conns.flatten =
        s.conns.flatten ++ ((s.getReq id).raw.drop (s.getReq id).sent).take k ∧
      (sendLoop fuel sends s id).1.reqs.length = s.reqs.length :=
  sendLoop_contiguous fuel sends s id hid hnc

/-- **A request the send loop reports as sent has gone out whole**: with the fuel `sendHead`
gives it (more than the octets still to send), the loop ends `done` only after the socket has
accepted every remaining octet — the wire has received exactly the unsent rest of the request,
in order, whatever the schedule of partial sends.  Together with `closeSocket_restarts_head`
(a new connection starts the head request from octet 0) each request reported sent is on one
connection from its first to its last octet. -/
theorem sendLoop_done_sends_rest (fuel : Nat) (sends : List SendRes) (s : State) (id : Nat)
    (hid : id < s.reqs.length) (hle : (s.getReq id).sent ≤ (s.getReq id).raw.length)
    (hf : (s.getReq id).raw.length - (s.getReq id).sent < fuel)
    (hd : (sendLoop fuel sends s id).2.2 = .done) :
    (sendLoop fuel sends s id).1.conns.flatten = s.conns.flatten ++ (s.getReq id).raw.drop (s.getReq id).sent ∧
    ((sendLoop fuel sends s id).1.getReq id).sent = (s.getReq id).raw.length := by
  have hc := sendLoop_done_complete fuel sends s id hid hle hf hd
  obtain ⟨k, h1, _, h3, _⟩ := sendLoop_contiguous fuel sends s id hid (by rw [hd]; decide)
  refine ⟨?_, hc⟩
  rw [h3]
  congr 1
  apply List.take_of_length_le
  rw [List.length_drop]
  omega

/-! Non-vacuity: three PDUs, two chunkings. -/
example : Tlv.memRead [1, 1, 0xaa, 2, 0] = .ok ⟨1, false, false, 2, 1⟩ ∧ ([1, 1, 0xaa, 2, 0] : Bytes).isEmpty = false :=
  ⟨rfl, rfl⟩
example : ([[1, 1], [0xaa, 2], [0]] : List Bytes).flatten = ([[1], [1, 0xaa, 2, 0]] : List Bytes).flatten := rfl
example : (extract [0x81, 0x00, 0x00]).2.length < MAX := (inbuf_bound _).1

/-- a five-octet request, two octets accepted, then would-block: the hypotheses of
`sendLoop_writes_contiguous` hold with `k = 2` -/
example : ((sendLoop 10 [.accept 2, .wouldBlock] (enqueue {} [1, 2, 3, 4, 5] 0) 0).1.getReq 0).sent = 2 ∧
    (sendLoop 10 [.accept 2, .wouldBlock] (enqueue {} [1, 2, 3, 4, 5] 0) 0).1.conns = [[1, 2]] ∧
    (sendLoop 10 [.accept 2, .wouldBlock] (enqueue {} [1, 2, 3, 4, 5] 0) 0).2.2 = .blocked ∧
    0 < (enqueue {} [1, 2, 3, 4, 5] 0).reqs.length := by decide

end KsiVerif.Props.C14
