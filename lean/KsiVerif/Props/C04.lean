import KsiVerif.Model.Anchor
/-! # C04 — (under construction) -/
namespace KsiVerif.Props.C04
end KsiVerif.Props.C04
