import KsiVerif.Model.Anchor
import KsiVerif.Props.C02
/-! # C04 — trust-anchor policies say OK only if the calendar root is bound to the anchor -/
namespace KsiVerif.Props.C04
open KsiVerif KsiVerif.HashChain KsiVerif.Policy KsiVerif.Verify KsiVerif.PubFile KsiVerif.Anchor KsiVerif.Props.C01

/-! ## the internal rules are the same rules in every world -/

theorem rhoA_internal (H : HashFn) (s : Sig) (x : VCtx) (w : World) : ∀ id ∈ C02.internalIds, ρA H s x w id = ρ H s x id := by
  intro id hid
  have : id ∈ [25, 26, 34, 27, 3, 1, 47, 48, 49, 50, 2, 4, 0, 7, 8, 5, 6, 17, 18, 20, 16, 22, 15, 51, 11, 12, 9, 10, 52, 54, 55] := hid
  simp only [List.mem_cons, List.not_mem_nil, or_false] at this
  rcases this with rfl | rfl | rfl | rfl | rfl | rfl | rfl | rfl | rfl | rfl | rfl | rfl | rfl | rfl | rfl | rfl | rfl | rfl | rfl | rfl |
    rfl | rfl | rfl | rfl | rfl | rfl | rfl | rfl | rfl | rfl | rfl <;> rfl

theorem ρx_ρA (H : HashFn) (s : Sig) (x : VCtx) (w : World) : C02.ρx H s x (ρA H s x w) = ρA H s x w := by
  funext id
  unfold C02.ρx
  by_cases h : id ∈ C02.internalIds
  · rw [if_pos h, rhoA_internal H s x w id h]
  · rw [if_neg h]

/-- the five trust-anchor policies -/
def five : List PolicyRules := [Gen.policy_calendar, Gen.policy_key, Gen.policy_pubfile, Gen.policy_userpub, Gen.policy_general]

theorem five_sub_six : ∀ P ∈ five, P ∈ C02.six := by
  intro P hP
  simp only [five, List.mem_cons, List.not_mem_nil, or_false] at hP
  rcases hP with rfl | rfl | rfl | rfl | rfl <;> simp [C02.six]

/-- **A signature that fails internal verification is never OK under any of these policies**, whatever the extender, the
publications file, the PKI and the user supply. -/
theorem never_ok_unless_consistent (H : HashFn) (s : Sig) (x : VCtx) (w : World) (P : PolicyRules) (hP : P ∈ five)
    (h : (verifyIn H P s x w).isOK) : Consistent H s x := by
  unfold verifyIn at h
  rw [← ρx_ρA] at h
  exact C02.ok_only_if_consistent H s x (ρA H s x w) P (five_sub_six P hP) h

/-! ## helpers -/

theorem not_okB_naGen : ¬ okB naGen := fun h => by cases h.2
theorem not_okB_resourceFailure (e : Nat) : ¬ okB (resourceFailure e) := by
  unfold resourceFailure
  split
  · exact not_okB_err _
  · exact fun h => by cases h.2

theorem okIf_ok (b : Bool) (bad : Outcome) (hb : ¬ okB bad) (h : okB (okIf b bad)) : b = true := by
  unfold okIf at h
  cases b with
  | true => rfl
  | false => exact absurd h hb

theorem bOkA (H : HashFn) (s : Sig) (x : VCtx) (w : World) (id : Nat) : (evalRule (ρA H s x w) (.basic id)).isOk ↔ okB (ρA H s x w id) :=
  basic_isOk _ _

/-! ## key-based -/

/-- the authentication record's signature verifies with a listed certificate that is valid at the aggregation time -/
def BoundKey (s : Sig) (w : World) : Prop :=
  ∃ c cid st sv data pf cr, s.cal = some c ∧ s.auth ≠ none ∧ w.authSig = some (cid, st, sv, data) ∧ w.pubfile = .ok pf ∧
    certById pf.certs cid = some cr ∧
    (w.certWindow cr.cert).1 ≤ c.aggrTime.getD c.pubTime ∧ c.aggrTime.getD c.pubTime ≤ (w.certWindow cr.cert).2 ∧
    w.rawSigOK data st sv cr.cert = true

theorem k_calPresent (H : HashFn) (s : Sig) (x : VCtx) (w : World) (h : okB (ρA H s x w 21)) : s.cal ≠ none := by
  have : ρA H s x w 21 = ruleA H s x w "CalendarHashChainPresenceVerification" := rfl
  rw [this] at h; simp only [ruleA] at h
  have := okIf_ok _ _ not_okB_naGen h
  intro hn; rw [hn] at this; cases this

theorem k_authPresent (H : HashFn) (s : Sig) (x : VCtx) (w : World) (h : okB (ρA H s x w 13)) : s.auth ≠ none := by
  have : ρA H s x w 13 = ruleA H s x w "CalendarAuthenticationRecordPresenceVerification" := rfl
  rw [this] at h; simp only [ruleA] at h
  have := okIf_ok _ _ not_okB_naGen h
  intro hn; rw [hn] at this; cases this

theorem k_validity (H : HashFn) (s : Sig) (x : VCtx) (w : World) (h : okB (ρA H s x w 24)) :
    ∃ c cid st sv data pf cr, s.cal = some c ∧ w.authSig = some (cid, st, sv, data) ∧ w.pubfile = .ok pf ∧ certById pf.certs cid = some cr ∧
      (w.certWindow cr.cert).1 ≤ c.aggrTime.getD c.pubTime ∧ c.aggrTime.getD c.pubTime ≤ (w.certWindow cr.cert).2 := by
  have : ρA H s x w 24 = ruleA H s x w "CertificateValidity" := rfl
  rw [this] at h; simp only [ruleA] at h
  cases ha : w.authSig with
  | none => rw [ha] at h; exact absurd h (not_okB_err _)
  | some a =>
    obtain ⟨cid, st, sv, data⟩ := a
    rw [ha] at h
    cases hp : w.pubfile with
    | error e => rw [hp] at h; exact absurd h (not_okB_resourceFailure e)
    | ok pf =>
      rw [hp] at h
      cases hc : s.cal with
      | none => rw [hc] at h; exact absurd h (not_okB_err _)
      | some c =>
        rw [hc] at h
        simp only at h
        cases hcr : certById pf.certs cid with
        | none => rw [hcr] at h; exact absurd h (not_okB_err _)
        | some cr =>
          rw [hcr] at h
          simp only at h
          have := okIf_ok _ _ (not_okB_fail _) h
          simp only [Bool.not_eq_true', Bool.or_eq_false_iff, decide_eq_false_iff_not, Nat.not_lt] at this
          exact ⟨c, cid, st, sv, data, pf, cr, rfl, rfl, rfl, hcr, this.1, this.2⟩

theorem k_signature (H : HashFn) (s : Sig) (x : VCtx) (w : World) (h : okB (ρA H s x w 14)) :
    ∃ cid st sv data pf cr, w.authSig = some (cid, st, sv, data) ∧ w.pubfile = .ok pf ∧ certById pf.certs cid = some cr ∧
      w.rawSigOK data st sv cr.cert = true := by
  have : ρA H s x w 14 = ruleA H s x w "CalendarAuthenticationRecordSignatureVerification" := rfl
  rw [this] at h; simp only [ruleA] at h
  cases ha : w.authSig with
  | none => rw [ha] at h; exact absurd h (not_okB_err _)
  | some a =>
    obtain ⟨cid, st, sv, data⟩ := a
    rw [ha] at h
    cases hp : w.pubfile with
    | error e => rw [hp] at h; exact absurd h (not_okB_resourceFailure e)
    | ok pf =>
      rw [hp] at h
      simp only at h
      cases hcr : certById pf.certs cid with
      | none => rw [hcr] at h; exact absurd h (not_okB_err _)
      | some cr =>
        rw [hcr] at h
        simp only at h
        exact ⟨cid, st, sv, data, pf, cr, rfl, rfl, hcr, okIf_ok _ _ (not_okB_fail _) h⟩

/-- the rules of the key-based policy after the internal ones -/
def keyRules : List Rule := [.basic 21, .basic 19, .basic 13, .basic 23, .basic 24, .basic 14]

theorem keyRules_ok (H : HashFn) (s : Sig) (x : VCtx) (w : World) (h : (evalList (ρA H s x w) keyRules).isOk) : BoundKey s w := by
  unfold keyRules at h
  rw [evalList_and_ok _ _ (by simp) (by simp [Rule.isOr])] at h
  have h13 := (bOkA H s x w 13).mp (h _ (by simp))
  have h24 := (bOkA H s x w 24).mp (h _ (by simp))
  have h14 := (bOkA H s x w 14).mp (h _ (by simp))
  obtain ⟨c, cid, st, sv, data, pf, cr, hc, ha, hp, hcr, hw1, hw2⟩ := k_validity H s x w h24
  obtain ⟨cid', st', sv', data', pf', cr', ha', hp', hcr', hs⟩ := k_signature H s x w h14
  rw [ha] at ha'; cases ha'
  rw [hp] at hp'; cases hp'
  rw [hcr] at hcr'; cases hcr'
  exact ⟨c, cid, st, sv, data, pf, cr, hc, k_authPresent H s x w h13, ha, hp, hcr, hw1, hw2, hs⟩

theorem key_tree : Gen.policy_key = some (.and internalList :: keyRules) := rfl

/-- **Key-based policy.** OK only for an internally consistent signature whose authentication record is signed by a listed
certificate valid at the aggregation time. -/
theorem key_ok_only_if (H : HashFn) (s : Sig) (x : VCtx) (w : World) (h : (verifyIn H Gen.policy_key s x w).isOK) :
    Consistent H s x ∧ BoundKey s w := by
  refine ⟨never_ok_unless_consistent H s x w _ (by simp [five]) h, ?_⟩
  unfold verifyIn Verdict.isOK at h
  rw [key_tree, verify_single_ok] at h
  have := (evalList_cons_and_ok _ (.and internalList) (.basic 21) _ rfl).mp h
  exact keyRules_ok H s x w this.2

/-! ## what an extension has to reproduce -/

/-- an extended chain `c` reproduces the anchor `(time, imprint)` for this signature: its root is the anchor's hash, its
publication time the anchor's time, it starts at the signature's own aggregation time and from its aggregation root -/
def Reproduces (H : HashFn) (s : Sig) (c : CalChain) (time : Nat) (imprint : Bytes) : Prop :=
  calRootOf H c = .ok imprint ∧ c.pubTime = time ∧ c.aggrTime = some s.signTime ∧ aggrOut H s = some c.inputHash

theorem beq_bytes {a b : Option Bytes} (h : (a == b) = true) : a = b := by simpa using h

/-! ## user-publication-based -/

def BoundUser (H : HashFn) (s : Sig) (w : World) : Prop :=
  ∃ u, w.userPub = some u ∧
    ((∃ p, s.pub = some p ∧ p.time = u.time ∧ p.imprint = u.imprint) ∨
     (w.extendingAllowed = true ∧ ∃ c, chainOf s w .user = .ok c ∧ Reproduces H s c u.time u.imprint))

section user
variable (H : HashFn) (s : Sig) (x : VCtx) (w : World)

theorem u_time (h : okB (ρA H s x w 67)) : ∃ p u, s.pub = some p ∧ w.userPub = some u ∧ p.time = u.time := by
  have : ρA H s x w 67 = ruleA H s x w "UserProvidedPublicationTimeVerification" := rfl
  rw [this] at h; simp only [ruleA] at h
  cases hp : s.pub with
  | none => rw [hp] at h; exact absurd h (not_okB_err _)
  | some p =>
    cases hu : w.userPub with
    | none => rw [hp, hu] at h; exact absurd h (not_okB_err _)
    | some u =>
      rw [hp, hu] at h
      exact ⟨p, u, rfl, rfl, by simpa using okIf_ok _ _ not_okB_naGen h⟩

theorem u_hash (h : okB (ρA H s x w 63)) : ∃ p u, s.pub = some p ∧ w.userPub = some u ∧ p.imprint = u.imprint := by
  have : ρA H s x w 63 = ruleA H s x w "UserProvidedPublicationHashVerification" := rfl
  rw [this] at h; simp only [ruleA] at h
  cases hp : s.pub with
  | none => rw [hp] at h; exact absurd h (not_okB_err _)
  | some p =>
    cases hu : w.userPub with
    | none => rw [hp, hu] at h; exact absurd h (not_okB_err _)
    | some u =>
      rw [hp, hu] at h
      exact ⟨p, u, rfl, rfl, by simpa using okIf_ok _ _ (not_okB_fail _) h⟩

theorem u_permitted (h : okB (ρA H s x w 61)) : w.extendingAllowed = true := by
  have : ρA H s x w 61 = ruleA H s x w "UserProvidedPublicationExtendingPermittedVerification" := rfl
  rw [this] at h; simp only [ruleA] at h
  exact okIf_ok _ _ not_okB_naGen h

theorem u_root (h : okB (ρA H s x w 62)) : ∃ c u, chainOf s w .user = .ok c ∧ w.userPub = some u ∧ calRootOf H c = .ok u.imprint := by
  have : ρA H s x w 62 = ruleA H s x w "UserProvidedPublicationHashMatchesExtendedResponse" := rfl
  rw [this] at h; simp only [ruleA] at h
  cases hc : chainOf s w .user with
  | error e => rw [hc] at h; exact absurd h (not_okB_err _)
  | ok c =>
    cases hu : w.userPub with
    | none => rw [hc, hu] at h; exact absurd h (not_okB_err _)
    | some u =>
      rw [hc, hu] at h
      simp only at h
      cases hr : calRootOf H c with
      | error e => rw [hr] at h; exact absurd h (not_okB_err _)
      | ok r =>
        rw [hr] at h
        have := okIf_ok _ _ (not_okB_fail _) h
        exact ⟨c, u, rfl, rfl, by rw [hr, show r = u.imprint by simpa using this]⟩

theorem u_times (h : okB (ρA H s x w 66)) :
    ∃ c u, chainOf s w .user = .ok c ∧ w.userPub = some u ∧ c.pubTime = u.time ∧ c.aggrTime = some s.signTime := by
  have : ρA H s x w 66 = ruleA H s x w "UserProvidedPublicationTimeMatchesExtendedResponse" := rfl
  rw [this] at h; simp only [ruleA] at h
  cases hc : chainOf s w .user with
  | error e => rw [hc] at h; exact absurd h (not_okB_err _)
  | ok c =>
    cases hu : w.userPub with
    | none => rw [hc, hu] at h; exact absurd h (not_okB_err _)
    | some u =>
      rw [hc, hu] at h
      simp only at h
      by_cases ht : (u.time != c.pubTime) = true
      · rw [if_pos ht] at h; exact absurd h (not_okB_fail _)
      · rw [if_neg ht] at h
        have h1 : u.time = c.pubTime := by simpa using ht
        have h2 := okIf_ok _ _ (not_okB_fail _) h
        exact ⟨c, u, rfl, rfl, h1.symm, by simpa using h2⟩

theorem u_input (h : okB (ρA H s x w 60)) : ∃ c, chainOf s w .user = .ok c ∧ aggrOut H s = some c.inputHash := by
  have : ρA H s x w 60 = ruleA H s x w "UserProvidedPublicationExtendedSignatureInputHash" := rfl
  rw [this] at h; simp only [ruleA] at h
  cases hc : chainOf s w .user with
  | error e => rw [hc] at h; exact absurd h (not_okB_err _)
  | ok c =>
    rw [hc] at h
    exact ⟨c, rfl, beq_bytes (okIf_ok _ _ (not_okB_fail _) h)⟩

theorem u_exists (h : okB (ρA H s x w 57)) : w.userPub ≠ none := by
  have : ρA H s x w 57 = ruleA H s x w "UserProvidedPublicationExistence" := rfl
  rw [this] at h; simp only [ruleA] at h
  intro hn; rw [hn] at h; exact absurd h not_okB_naNone

def and7u : Rule := .and [.basic 56, .basic 61, .basic 58, .basic 59, .basic 62, .basic 66, .basic 60]
def userX : Rule := .and [.or [.basic 52, .or [.basic 67, .basic 63, .basic 64], .or [.basic 65, and7u]], .or [.basic 53, and7u]]

/-- the extension branch of the user-publication rules -/
theorem and7u_ok (h : (evalRule (ρA H s x w) and7u).isOk) :
    w.extendingAllowed = true ∧ ∃ c u, chainOf s w .user = .ok c ∧ w.userPub = some u ∧ Reproduces H s c u.time u.imprint := by
  unfold and7u at h
  rw [evalRule_and, evalList_and_ok _ _ (by simp) (by simp [Rule.isOr])] at h
  have h61 := u_permitted H s x w ((bOkA H s x w 61).mp (h _ (by simp)))
  obtain ⟨c, u, hc, hu, hr⟩ := u_root H s x w ((bOkA H s x w 62).mp (h _ (by simp)))
  obtain ⟨c2, u2, hc2, hu2, ht1, ht2⟩ := u_times H s x w ((bOkA H s x w 66).mp (h _ (by simp)))
  obtain ⟨c3, hc3, hi⟩ := u_input H s x w ((bOkA H s x w 60).mp (h _ (by simp)))
  rw [hc] at hc2 hc3; cases hc2; cases hc3
  rw [hu] at hu2; cases hu2
  exact ⟨h61, c, u, hc, hu, hr, ht1, ht2, hi⟩

theorem userX_ok (h : (evalRule (ρA H s x w) userX).isOk) : BoundUser H s w := by
  unfold userX at h
  rw [evalRule_and, evalList_cons_or_ok _ _ _ _ rfl] at h
  have ext : (evalRule (ρA H s x w) and7u).isOk → BoundUser H s w := by
    intro h7
    obtain ⟨hp, c, u, hc, hu, hr⟩ := and7u_ok H s x w h7
    exact ⟨u, hu, Or.inr ⟨hp, c, hc, hr⟩⟩
  rcases h with h | ⟨_, h⟩
  · -- the signature carries a publication record
    rw [evalRule_or, evalList_cons_and_ok _ _ _ _ rfl, evalList_cons_or_ok _ _ _ _ rfl] at h
    rcases h.2 with h2 | ⟨_, h2⟩
    · rw [evalRule_or, evalList_and_ok _ _ (by simp) (by simp [Rule.isOr])] at h2
      obtain ⟨p, u, hp, hu, ht⟩ := u_time H s x w ((bOkA H s x w 67).mp (h2 _ (by simp)))
      obtain ⟨p2, u2, hp2, hu2, hh⟩ := u_hash H s x w ((bOkA H s x w 63).mp (h2 _ (by simp)))
      rw [hp] at hp2; cases hp2
      rw [hu] at hu2; cases hu2
      exact ⟨u, hu, Or.inl ⟨p, hp, ht, hh⟩⟩
    · rw [evalList_single, evalRule_or, evalList_cons_and_ok _ _ _ _ rfl, evalList_single] at h2
      exact ext h2.2
  · rw [evalList_single, evalRule_or, evalList_cons_and_ok _ _ _ _ rfl, evalList_single] at h
    exact ext h.2

theorem userpub_tree : Gen.policy_userpub = some [.and internalList, .basic 57, userX] := rfl

/-- **User-publication-based policy.** OK only for an internally consistent signature whose publication record is the
user's publication (time and hash), or — extending allowed — whose extension to the user's publication time reproduces it. -/
theorem userpub_ok_only_if (h : (verifyIn H Gen.policy_userpub s x w).isOK) : Consistent H s x ∧ BoundUser H s w := by
  refine ⟨never_ok_unless_consistent H s x w _ (by simp [five]) h, ?_⟩
  unfold verifyIn Verdict.isOK at h
  rw [userpub_tree, verify_single_ok, evalList_and_ok _ _ (by simp) (by simp [Rule.isOr, userX])] at h
  exact userX_ok H s x w (h _ (by simp))

end user

/-! ## publications-file-based -/

def BoundPubfile (H : HashFn) (s : Sig) (w : World) : Prop :=
  ∃ pf, w.pubfile = .ok pf ∧
    ((∃ p q, s.pub = some p ∧ findPub pf.pubs p.time p.imprint = some q) ∨
     (w.extendingAllowed = true ∧ ∃ q c, nearestPub s pf = some q ∧ chainOf s w .pubfile = .ok c ∧ Reproduces H s c q.time q.imprint))

section pubfile
variable (H : HashFn) (s : Sig) (x : VCtx) (w : World)

theorem p_sigPub (h : okB (ρA H s x w 45)) : ∃ p pf q, s.pub = some p ∧ w.pubfile = .ok pf ∧ findPub pf.pubs p.time p.imprint = some q := by
  have : ρA H s x w 45 = ruleA H s x w "PublicationsFileSignaturePublicationVerification" := rfl
  rw [this] at h; simp only [ruleA] at h
  cases hp : s.pub with
  | none => rw [hp] at h; exact absurd h (not_okB_err _)
  | some p =>
    cases hf : w.pubfile with
    | error e => rw [hp, hf] at h; exact absurd h (not_okB_resourceFailure e)
    | ok pf =>
      rw [hp, hf] at h
      have := okIf_ok _ _ (not_okB_fail _) h
      cases hq : findPub pf.pubs p.time p.imprint with
      | none => rw [hq] at this; cases this
      | some q => exact ⟨p, pf, q, rfl, rfl, hq⟩

theorem p_permitted (h : okB (ρA H s x w 41)) : w.extendingAllowed = true := by
  have : ρA H s x w 41 = ruleA H s x w "PublicationsFileExtendingPermittedVerification" := rfl
  rw [this] at h; simp only [ruleA] at h
  exact okIf_ok _ _ not_okB_naGen h

theorem p_root (h : okB (ρA H s x w 42)) :
    ∃ pf q c, w.pubfile = .ok pf ∧ nearestPub s pf = some q ∧ chainOf s w .pubfile = .ok c ∧ calRootOf H c = .ok q.imprint := by
  have : ρA H s x w 42 = ruleA H s x w "PublicationsFilePublicationHashMatchesExtenderResponse" := rfl
  rw [this] at h; simp only [ruleA] at h
  cases hf : w.pubfile with
  | error e => rw [hf] at h; exact absurd h (not_okB_resourceFailure e)
  | ok pf =>
    rw [hf] at h
    simp only at h
    cases hq : nearestPub s pf with
    | none =>
      rw [hq] at h
      cases hc : chainOf s w .pubfile with
      | error e => rw [hc] at h; exact absurd h (not_okB_err _)
      | ok c => rw [hc] at h; exact absurd h (not_okB_err _)
    | some q =>
      rw [hq] at h
      cases hc : chainOf s w .pubfile with
      | error e => rw [hc] at h; exact absurd h (not_okB_err _)
      | ok c =>
        rw [hc] at h
        simp only at h
        cases hr : calRootOf H c with
        | error e => rw [hr] at h; exact absurd h (not_okB_err _)
        | ok r =>
          rw [hr] at h
          have := okIf_ok _ _ (not_okB_fail _) h
          exact ⟨pf, q, c, rfl, hq, rfl, by rw [hr, show r = q.imprint by simpa using this]⟩

theorem p_times (h : okB (ρA H s x w 43)) :
    ∃ pf q c, w.pubfile = .ok pf ∧ nearestPub s pf = some q ∧ chainOf s w .pubfile = .ok c ∧ c.pubTime = q.time ∧ c.aggrTime = some s.signTime := by
  have : ρA H s x w 43 = ruleA H s x w "PublicationsFilePublicationTimeMatchesExtenderResponse" := rfl
  rw [this] at h; simp only [ruleA] at h
  cases hf : w.pubfile with
  | error e => rw [hf] at h; exact absurd h (not_okB_resourceFailure e)
  | ok pf =>
    rw [hf] at h
    simp only at h
    cases hq : nearestPub s pf with
    | none =>
      rw [hq] at h
      cases hc : chainOf s w .pubfile with
      | error e => rw [hc] at h; exact absurd h (not_okB_err _)
      | ok c => rw [hc] at h; exact absurd h (not_okB_err _)
    | some q =>
      rw [hq] at h
      cases hc : chainOf s w .pubfile with
      | error e => rw [hc] at h; exact absurd h (not_okB_err _)
      | ok c =>
        rw [hc] at h
        simp only at h
        by_cases ht : (q.time != c.pubTime) = true
        · rw [if_pos ht] at h; exact absurd h (not_okB_fail _)
        · rw [if_neg ht] at h
          have h1 : q.time = c.pubTime := by simpa using ht
          have h2 := okIf_ok _ _ (not_okB_fail _) h
          exact ⟨pf, q, c, rfl, hq, rfl, h1.symm, by simpa using h2⟩

theorem p_input (h : okB (ρA H s x w 40)) : ∃ c, chainOf s w .pubfile = .ok c ∧ aggrOut H s = some c.inputHash := by
  have : ρA H s x w 40 = ruleA H s x w "PublicationsFileExtendedSignatureInputHash" := rfl
  rw [this] at h; simp only [ruleA] at h
  cases hf : w.pubfile with
  | error e => rw [hf] at h; exact absurd h (not_okB_resourceFailure e)
  | ok pf =>
    rw [hf] at h
    simp only at h
    cases hc : chainOf s w .pubfile with
    | error e => rw [hc] at h; exact absurd h (not_okB_err _)
    | ok c =>
      rw [hc] at h
      exact ⟨c, rfl, beq_bytes (okIf_ok _ _ (not_okB_fail _) h)⟩

def and7p : Rule := .and [.basic 36, .basic 41, .basic 38, .basic 39, .basic 42, .basic 43, .basic 40]
def pubX : Rule := .and [.or [.basic 52, .or [.basic 35, .basic 45, .basic 44], .or [.basic 37, and7p]], .or [.basic 53, and7p]]

theorem and7p_ok (h : (evalRule (ρA H s x w) and7p).isOk) : BoundPubfile H s w := by
  unfold and7p at h
  rw [evalRule_and, evalList_and_ok _ _ (by simp) (by simp [Rule.isOr])] at h
  have h41 := p_permitted H s x w ((bOkA H s x w 41).mp (h _ (by simp)))
  obtain ⟨pf, q, c, hf, hq, hc, hr⟩ := p_root H s x w ((bOkA H s x w 42).mp (h _ (by simp)))
  obtain ⟨pf2, q2, c2, hf2, hq2, hc2, ht1, ht2⟩ := p_times H s x w ((bOkA H s x w 43).mp (h _ (by simp)))
  obtain ⟨c3, hc3, hi⟩ := p_input H s x w ((bOkA H s x w 40).mp (h _ (by simp)))
  rw [hf] at hf2; cases hf2
  rw [hq] at hq2; cases hq2
  rw [hc] at hc2 hc3; cases hc2; cases hc3
  exact ⟨pf, hf, Or.inr ⟨h41, q, c, hq, hc, hr, ht1, ht2, hi⟩⟩

theorem pubX_ok (h : (evalRule (ρA H s x w) pubX).isOk) : BoundPubfile H s w := by
  unfold pubX at h
  rw [evalRule_and, evalList_cons_or_ok _ _ _ _ rfl] at h
  rcases h with h | ⟨_, h⟩
  · rw [evalRule_or, evalList_cons_and_ok _ _ _ _ rfl, evalList_cons_or_ok _ _ _ _ rfl] at h
    rcases h.2 with h2 | ⟨_, h2⟩
    · rw [evalRule_or, evalList_and_ok _ _ (by simp) (by simp [Rule.isOr])] at h2
      obtain ⟨p, pf, q, hp, hf, hq⟩ := p_sigPub H s x w ((bOkA H s x w 45).mp (h2 _ (by simp)))
      exact ⟨pf, hf, Or.inl ⟨p, q, hp, hq⟩⟩
    · rw [evalList_single, evalRule_or, evalList_cons_and_ok _ _ _ _ rfl, evalList_single] at h2
      exact and7p_ok H s x w h2.2
  · rw [evalList_single, evalRule_or, evalList_cons_and_ok _ _ _ _ rfl, evalList_single] at h
    exact and7p_ok H s x w h.2

theorem pubfile_tree : Gen.policy_pubfile = some [.and internalList, pubX] := rfl

/-- **Publications-file-based policy.** OK only for an internally consistent signature whose publication record (time and
hash) is in the file, or — extending allowed — whose extension to the nearest publication of the file reproduces that one. -/
theorem pubfile_ok_only_if (h : (verifyIn H Gen.policy_pubfile s x w).isOK) : Consistent H s x ∧ BoundPubfile H s w := by
  refine ⟨never_ok_unless_consistent H s x w _ (by simp [five]) h, ?_⟩
  unfold verifyIn Verdict.isOK at h
  rw [pubfile_tree, verify_single_ok, evalList_cons_and_ok _ _ _ _ rfl, evalList_single] at h
  exact pubX_ok H s x w h.2

end pubfile

/-! ## calendar-based -/

/-- the extender's chain for the signature's aggregation time starts from its aggregation root at its aggregation time and,
when the signature has a calendar chain, agrees with it: same right links (no publication record) or same root -/
def BoundCalendar (H : HashFn) (s : Sig) (w : World) : Prop :=
  ∃ c a, chainOf s w (calKind s) = .ok c ∧ aggrOut H s = some c.inputHash ∧ s.chains.head? = some a ∧ a.time = c.aggrTime.getD c.pubTime ∧
    (∀ old, s.cal = some old →
      ((s.pub = none ∧ rightsOf old = rightsOf c) ∨ (s.pub ≠ none ∧ ∃ r, calRootOf H old = .ok r ∧ calRootOf H c = .ok r)))

section calendar
variable (H : HashFn) (s : Sig) (x : VCtx) (w : World)

theorem c_input (h : okB (ρA H s x w 31)) : ∃ c, chainOf s w (calKind s) = .ok c ∧ aggrOut H s = some c.inputHash := by
  have : ρA H s x w 31 = ruleA H s x w "ExtendedSignatureCalendarChainInputHash" := rfl
  rw [this] at h; simp only [ruleA] at h
  cases hc : chainOf s w (calKind s) with
  | error e => rw [hc] at h; exact absurd h (not_okB_err _)
  | ok c => rw [hc] at h; exact ⟨c, rfl, beq_bytes (okIf_ok _ _ (not_okB_fail _) h)⟩

theorem c_time (h : okB (ρA H s x w 30)) :
    ∃ c a, chainOf s w (calKind s) = .ok c ∧ s.chains.head? = some a ∧ a.time = c.aggrTime.getD c.pubTime := by
  have : ρA H s x w 30 = ruleA H s x w "ExtendedSignatureCalendarChainAggregationTime" := rfl
  rw [this] at h; simp only [ruleA] at h
  cases hc : chainOf s w (calKind s) with
  | error e => rw [hc] at h; exact absurd h (not_okB_err _)
  | ok c =>
    rw [hc] at h
    cases ha : s.chains.head? with
    | none => rw [ha] at h; exact absurd h (not_okB_err _)
    | some a =>
      rw [ha] at h
      exact ⟨c, a, rfl, rfl, by simpa using okIf_ok _ _ (not_okB_fail _) h⟩

theorem c_rights (h : okB (ρA H s x w 32)) : ∃ c old, chainOf s w .samePub = .ok c ∧ s.cal = some old ∧ rightsOf old = rightsOf c := by
  have : ρA H s x w 32 = ruleA H s x w "ExtendedSignatureCalendarChainRightLinksMatch" := rfl
  rw [this] at h; simp only [ruleA] at h
  cases hc : chainOf s w .samePub with
  | error e => rw [hc] at h; exact absurd h (not_okB_err _)
  | ok c =>
    rw [hc] at h
    cases ho : s.cal with
    | none => rw [ho] at h; exact absurd h (not_okB_err _)
    | some old =>
      rw [ho] at h
      exact ⟨c, old, rfl, rfl, by simpa using okIf_ok _ _ (not_okB_fail _) h⟩

theorem c_root (h : okB (ρA H s x w 33)) :
    ∃ c old r, chainOf s w .samePub = .ok c ∧ s.cal = some old ∧ calRootOf H old = .ok r ∧ calRootOf H c = .ok r := by
  have : ρA H s x w 33 = ruleA H s x w "ExtendedSignatureCalendarChainRootHash" := rfl
  rw [this] at h; simp only [ruleA] at h
  cases hc : chainOf s w .samePub with
  | error e => rw [hc] at h; exact absurd h (not_okB_err _)
  | ok c =>
    rw [hc] at h
    cases ho : s.cal with
    | none => rw [ho] at h; exact absurd h (not_okB_err _)
    | some old =>
      rw [ho] at h
      simp only at h
      cases h1 : calRootOf H old with
      | error e => rw [h1] at h; exact absurd h (not_okB_err _)
      | ok r1 =>
        cases h2 : calRootOf H c with
        | error e => rw [h1, h2] at h; exact absurd h (not_okB_err _)
        | ok r2 =>
          rw [h1, h2] at h
          have : r1 = r2 := by simpa using okIf_ok _ _ (not_okB_fail _) h
          exact ⟨c, old, r1, rfl, rfl, h1, by rw [h2, this]⟩

def anchorChoice : Rule := .and [.or [.basic 51, .basic 32], .or [.basic 52, .basic 33]]
def calX : Rule := .and [.or [.basic 17, .basic 28, .basic 31, .basic 30], .or [.basic 18, .basic 29, anchorChoice, .basic 31, .basic 30]]

theorem calKind_none (h : s.cal = none) : calKind s = .head := by unfold calKind; rw [h]; rfl
theorem calKind_some (h : s.cal ≠ none) : calKind s = .samePub := by
  unfold calKind
  cases hc : s.cal with
  | none => exact absurd hc h
  | some c => rfl

theorem calX_ok (h : (evalRule (ρA H s x w) calX).isOk) : BoundCalendar H s w := by
  unfold calX at h
  rw [evalRule_and, evalList_cons_or_ok _ _ _ _ rfl] at h
  rcases h with h | ⟨_, h⟩
  · -- no calendar chain in the signature: extension to the calendar head
    rw [evalRule_or, evalList_and_ok _ _ (by simp) (by simp [Rule.isOr])] at h
    have h17 : okB (rule H s x "CalendarHashChainDoesNotExist") := (bOkA H s x w 17).mp (h _ (by simp))
    have hnone := (r_calNotExist H s x).1.mp h17
    obtain ⟨c, hc, hi⟩ := c_input H s x w ((bOkA H s x w 31).mp (h _ (by simp)))
    obtain ⟨c2, a, hc2, ha, ht⟩ := c_time H s x w ((bOkA H s x w 30).mp (h _ (by simp)))
    rw [hc] at hc2; cases hc2
    exact ⟨c, a, hc, hi, ha, ht, fun old ho => by rw [hnone] at ho; cases ho⟩
  · rw [evalList_single, evalRule_or, evalList_and_ok _ _ (by simp) (by simp [Rule.isOr, anchorChoice])] at h
    have h18 : okB (rule H s x "CalendarHashChainExistence") := (bOkA H s x w 18).mp (h _ (by simp))
    have hsome := (r_calExist H s x).mp h18
    have hk := calKind_some s hsome
    obtain ⟨c, hc, hi⟩ := c_input H s x w ((bOkA H s x w 31).mp (h _ (by simp)))
    obtain ⟨c2, a, hc2, ha, ht⟩ := c_time H s x w ((bOkA H s x w 30).mp (h _ (by simp)))
    rw [hc] at hc2; cases hc2
    have hch : (evalRule (ρA H s x w) anchorChoice).isOk := h _ (by simp)
    unfold anchorChoice at hch
    rw [evalRule_and, evalList_cons_or_ok _ _ _ _ rfl] at hch
    refine ⟨c, a, hc, hi, ha, ht, ?_⟩
    intro old ho
    rw [hk] at hc
    rcases hch with h1 | ⟨_, h1⟩
    · rw [evalRule_or, evalList_and_ok _ _ (by simp) (by simp [Rule.isOr])] at h1
      have h51 : okB (rule H s x "SignatureDoesNotContainPublication") := (bOkA H s x w 51).mp (h1 _ (by simp))
      obtain ⟨c3, old3, hc3, ho3, hr⟩ := c_rights H s x w ((bOkA H s x w 32).mp (h1 _ (by simp)))
      rw [hc] at hc3; cases hc3
      rw [ho] at ho3; cases ho3
      exact Or.inl ⟨(r_pubNotExist H s x).1.mp h51, hr⟩
    · rw [evalList_single, evalRule_or, evalList_and_ok _ _ (by simp) (by simp [Rule.isOr])] at h1
      have h52 : okB (rule H s x "SignaturePublicationRecordExistence") := (bOkA H s x w 52).mp (h1 _ (by simp))
      obtain ⟨c3, old3, r, hc3, ho3, hr1, hr2⟩ := c_root H s x w ((bOkA H s x w 33).mp (h1 _ (by simp)))
      rw [hc] at hc3; cases hc3
      rw [ho] at ho3; cases ho3
      exact Or.inr ⟨(r_pubExist H s x).mp h52, r, hr1, hr2⟩

theorem calendar_tree : Gen.policy_calendar = some [.and internalList, calX] := rfl

/-- **Calendar-based policy.** OK only for an internally consistent signature for which the extender's (authenticated)
chain starts from the signature's aggregation root at its aggregation time and agrees with the signature's own calendar
chain — same right links, or, when the signature carries a publication record, the same root. -/
theorem calendar_ok_only_if (h : (verifyIn H Gen.policy_calendar s x w).isOK) : Consistent H s x ∧ BoundCalendar H s w := by
  refine ⟨never_ok_unless_consistent H s x w _ (by simp [five]) h, ?_⟩
  unfold verifyIn Verdict.isOK at h
  rw [calendar_tree, verify_single_ok, evalList_cons_and_ok _ _ _ _ rfl, evalList_single] at h
  exact calX_ok H s x w h.2

end calendar

/-! ## what is reported otherwise: three representative cases -/

theorem reports_of_outcome (ρ' : Nat → Outcome) (rs : List Rule) (o : Outcome) (h : (evalList ρ' rs).outcome = o) :
    reports (Policy.verify ρ' [some rs]) o := by
  subst h
  unfold reports
  exact ⟨fun h0 => verify_single_outcome _ _ h0, fun h0 => verify_single_error _ _ h0⟩

theorem internal_part_ok (H : HashFn) (s : Sig) (x : VCtx) (w : World) (hc : Consistent H s x) :
    (evalRule (ρA H s x w) (.and internalList)).isOk := by
  rw [evalRule_and]
  have := C02.internal_same H s x (ρA H s x w)
  rw [ρx_ρA] at this
  rw [this]
  exact (C02.internal_isOk_iff H s x).mpr hc

theorem bOutA (H : HashFn) (s : Sig) (x : VCtx) (w : World) (id : Nat) : (evalRule (ρA H s x w) (.basic id)).outcome = ρA H s x w id :=
  basic_outcome _ _

theorem okB_isOk (H : HashFn) (s : Sig) (x : VCtx) (w : World) (id : Nat) (o : Outcome) (h : ρA H s x w id = o) (ho : o = okOut) :
    (evalRule (ρA H s x w) (.basic id)).isOk := by
  rw [bOkA, h, ho]; exact okB_okOut

/-- **Contradicting user publication.** The signature's publication record has the user's publication time but another
hash: FAIL PUB-04 (for an internally consistent signature; whatever the extender would say). -/
theorem userpub_other_hash_PUB04 (H : HashFn) (s : Sig) (x : VCtx) (w : World) (hc : Consistent H s x) (u p : PubData)
    (hu : w.userPub = some u) (hp : s.pub = some p) (ht : p.time = u.time) (hh : p.imprint ≠ u.imprint) :
    reports (verifyIn H Gen.policy_userpub s x w) (failOut (PUB 4)) := by
  unfold verifyIn
  rw [userpub_tree]
  apply reports_of_outcome
  have h57 : (evalRule (ρA H s x w) (.basic 57)).isOk :=
    okB_isOk H s x w 57 _ rfl (by show ruleA H s x w "UserProvidedPublicationExistence" = okOut; simp [ruleA, hu])
  rw [evalList_cons_and_outcome _ _ _ _ rfl (internal_part_ok H s x w hc), evalList_cons_and_outcome _ _ _ _ rfl h57, evalList_single]
  unfold userX
  rw [evalRule_and]
  -- the first alternative (a publication record exists) decides with FAIL
  have hA : (evalRule (ρA H s x w) (.or [.basic 52, .or [.basic 67, .basic 63, .basic 64], .or [.basic 65, and7u]])).outcome = failOut (PUB 4) := by
    rw [evalRule_or]
    have h52 : (evalRule (ρA H s x w) (.basic 52)).isOk := by
      rw [bOkA]; show okB (rule H s x "SignaturePublicationRecordExistence")
      rw [r_pubExist, hp]; simp
    rw [evalList_cons_and_outcome _ _ _ _ rfl h52]
    have hO1 : (evalRule (ρA H s x w) (.or [.basic 67, .basic 63, .basic 64])).outcome = failOut (PUB 4) := by
      rw [evalRule_or, evalList_and_at _ _ 1 (by decide) (by simp [Rule.isOr])]
      · show (evalRule (ρA H s x w) (.basic 63)).outcome = _
        rw [bOutA]; show ruleA H s x w "UserProvidedPublicationHashVerification" = _
        simp [ruleA, hp, hu, okIf, hh]
      · intro i hi
        match i, hi with
        | 0, _ =>
          show (evalRule (ρA H s x w) (.basic 67)).isOk
          exact okB_isOk H s x w 67 _ rfl (by show ruleA H s x w "UserProvidedPublicationTimeVerification" = okOut; simp [ruleA, hp, hu, okIf, ht])
      · show ¬ (evalRule (ρA H s x w) (.basic 63)).isOk
        rw [bOkA]; show ¬ okB (ruleA H s x w "UserProvidedPublicationHashVerification")
        have : ruleA H s x w "UserProvidedPublicationHashVerification" = failOut (PUB 4) := by simp [ruleA, hp, hu, okIf, hh]
        rw [this]; exact not_okB_fail _
    rw [evalList_cons_or_outcome_decides _ _ _ _ rfl (by rw [isNa_of_outcome _ _ hO1]; simp [failOut]), hO1]
  rw [evalList_cons_or_outcome_decides _ _ _ _ rfl (by rw [isNa_of_outcome _ _ hA]; simp [failOut]), hA]

/-- **Forbidden extension.** No publication record in the signature, a later user publication, extending not allowed:
inconclusive (NA, GEN-02) — never OK, never FAIL. -/
theorem userpub_extending_forbidden_NA (H : HashFn) (s : Sig) (x : VCtx) (w : World) (hc : Consistent H s x) (u : PubData) (t : Nat)
    (hu : w.userPub = some u) (hp : s.pub = none) (hst : startTime s = some t) (hlt : t < u.time) (hext : w.extendingAllowed = false) :
    reports (verifyIn H Gen.policy_userpub s x w) naGen := by
  unfold verifyIn
  rw [userpub_tree]
  apply reports_of_outcome
  have h57 : (evalRule (ρA H s x w) (.basic 57)).isOk :=
    okB_isOk H s x w 57 _ rfl (by show ruleA H s x w "UserProvidedPublicationExistence" = okOut; simp [ruleA, hu])
  rw [evalList_cons_and_outcome _ _ _ _ rfl (internal_part_ok H s x w hc), evalList_cons_and_outcome _ _ _ _ rfl h57, evalList_single]
  unfold userX
  rw [evalRule_and]
  have hA : (evalRule (ρA H s x w) (.or [.basic 52, .or [.basic 67, .basic 63, .basic 64], .or [.basic 65, and7u]])).outcome = naNone := by
    rw [evalRule_or, evalList_head_bad _ _ _ rfl]
    · rw [bOutA]; show rule H s x "SignaturePublicationRecordExistence" = naNone
      simp [rule, hp]
    · rw [bOkA]; show ¬ okB (rule H s x "SignaturePublicationRecordExistence")
      rw [r_pubExist, hp]; simp
  rw [evalList_cons_or_outcome_na _ _ _ _ rfl (by rw [isNa_of_outcome _ _ hA]; simp [naNone]), evalList_single, evalRule_or]
  have h53 : (evalRule (ρA H s x w) (.basic 53)).isOk :=
    okB_isOk H s x w 53 _ rfl (by show ruleA H s x w "SignaturePublicationRecordMissing" = okOut; simp [ruleA, hp])
  rw [evalList_cons_and_outcome _ _ _ _ rfl h53, evalList_single]
  unfold and7u
  rw [evalRule_and, evalList_and_at _ _ 1 (by decide) (by simp [Rule.isOr])]
  · show (evalRule (ρA H s x w) (.basic 61)).outcome = _
    rw [bOutA]; show ruleA H s x w "UserProvidedPublicationExtendingPermittedVerification" = _
    simp [ruleA, okIf, hext]
  · intro i hi
    match i, hi with
    | 0, _ =>
      show (evalRule (ρA H s x w) (.basic 56)).isOk
      exact okB_isOk H s x w 56 _ rfl (by show ruleA H s x w "UserProvidedPublicationCreationTimeVerification" = okOut; simp [ruleA, hst, hu, okIf, hlt])
  · show ¬ (evalRule (ρA H s x w) (.basic 61)).isOk
    rw [bOkA]; show ¬ okB (ruleA H s x w "UserProvidedPublicationExtendingPermittedVerification")
    have : ruleA H s x w "UserProvidedPublicationExtendingPermittedVerification" = naGen := by simp [ruleA, okIf, hext]
    rw [this]; exact not_okB_naGen

/-- **Certificate not valid at the aggregation time**: FAIL KEY-03, although everything else about the key fits. -/
theorem key_certificate_window_KEY03 (H : HashFn) (s : Sig) (x : VCtx) (w : World) (hc : Consistent H s x) (c : CalChain) (a : PubData)
    (cid st sv data : Bytes) (pf : PubFile) (cr : CertRec)
    (hcal : s.cal = some c) (hauth : s.auth = some a) (hdep : calDeprecated c = false) (hsig : w.authSig = some (cid, st, sv, data))
    (hpf : w.pubfile = .ok pf) (hcr : certById pf.certs cid = some cr)
    (hwin : c.aggrTime.getD c.pubTime < (w.certWindow cr.cert).1 ∨ (w.certWindow cr.cert).2 < c.aggrTime.getD c.pubTime) :
    reports (verifyIn H Gen.policy_key s x w) (failOut (KEY 3)) := by
  unfold verifyIn
  rw [key_tree]
  apply reports_of_outcome
  unfold keyRules
  rw [evalList_cons_and_outcome _ _ _ _ rfl (internal_part_ok H s x w hc)]
  rw [evalList_and_at _ _ 4 (by decide) (by simp [Rule.isOr])]
  · show (evalRule (ρA H s x w) (.basic 24)).outcome = _
    rw [bOutA]; show ruleA H s x w "CertificateValidity" = _
    simp only [ruleA, hsig, hpf, hcal, hcr, okIf]
    rcases hwin with h | h <;> simp [h]
  · intro i hi
    match i, hi with
    | 0, _ => exact okB_isOk H s x w 21 _ rfl (by show ruleA H s x w "CalendarHashChainPresenceVerification" = okOut; simp [ruleA, hcal, okIf])
    | 1, _ => exact okB_isOk H s x w 19 _ rfl (by show ruleA H s x w "CalendarHashChainHashAlgorithmDeprecatedAtPubTime" = okOut; simp [ruleA, hcal, okIf, hdep])
    | 2, _ => exact okB_isOk H s x w 13 _ rfl (by show ruleA H s x w "CalendarAuthenticationRecordPresenceVerification" = okOut; simp [ruleA, hauth, okIf])
    | 3, _ => exact okB_isOk H s x w 23 _ rfl (by show ruleA H s x w "CertificateExistence" = okOut; simp [ruleA, hsig, hpf, hcr, okIf])
  · show ¬ (evalRule (ρA H s x w) (.basic 24)).isOk
    rw [bOkA]; show ¬ okB (ruleA H s x w "CertificateValidity")
    have : ruleA H s x w "CertificateValidity" = failOut (KEY 3) := by
      simp only [ruleA, hsig, hpf, hcal, hcr, okIf]
      rcases hwin with h | h <;> simp [h]
    rw [this]; exact not_okB_fail _

/-! ## general -/

theorem general_tree : Gen.policy_general = some [.and internalList, .or [.and internalList, .basic 57, userX], .basic 46,
    .or [.and internalList, pubX], .or (.and internalList :: keyRules)] := rfl

/-- **General policy.** OK only for an internally consistent signature bound to the user's publication, to the publications
file, or to a listed key. -/
theorem general_ok_only_if (H : HashFn) (s : Sig) (x : VCtx) (w : World) (h : (verifyIn H Gen.policy_general s x w).isOK) :
    Consistent H s x ∧ (BoundUser H s w ∨ BoundPubfile H s w ∨ BoundKey s w) := by
  refine ⟨never_ok_unless_consistent H s x w _ (by simp [five]) h, ?_⟩
  unfold verifyIn Verdict.isOK at h
  rw [general_tree, verify_single_ok, evalList_cons_and_ok _ _ _ _ rfl, evalList_cons_or_ok _ _ _ _ rfl] at h
  rcases h.2 with h1 | ⟨_, h1⟩
  · rw [evalRule_or, evalList_and_ok _ _ (by simp) (by simp [Rule.isOr, userX])] at h1
    exact Or.inl (userX_ok H s x w (h1 _ (by simp)))
  · rw [evalList_cons_and_ok _ _ _ _ rfl, evalList_cons_or_ok _ _ _ _ rfl] at h1
    rcases h1.2 with h2 | ⟨_, h2⟩
    · rw [evalRule_or, evalList_cons_and_ok _ _ _ _ rfl, evalList_single] at h2
      exact Or.inr (Or.inl (pubX_ok H s x w h2.2))
    · rw [evalList_single, evalRule_or] at h2
      have := (evalList_cons_and_ok _ (.and internalList) (.basic 21) _ rfl).mp h2
      exact Or.inr (Or.inr (keyRules_ok H s x w this.2))

end KsiVerif.Props.C04
