import KsiVerif.Props.C01
/-!
# C02 — a signature verifies only for the document hash and level it was issued for

Every verifying predefined policy starts with the internal rules as an AND-type element (theorem
`six_gated`, about the rule trees regenerated from the built library).  The remaining rules of those
policies (extender, publications file, PKI, user publication) are an arbitrary oracle `ext` here: whatever
they answer, the verdict is OK only for a consistent signature — in particular only for the right document
hash and level — and otherwise it is the internal policy's verdict, code included.
-/
namespace KsiVerif.Props.C02
open KsiVerif KsiVerif.HashChain KsiVerif.Policy KsiVerif.Verify KsiVerif.Props.C01

/-- identities of the basic rules of the internal policy -/
def internalIds : List Nat := dfsList internalList

/-- the modelled rules for the internal identities, an arbitrary answer for every other rule -/
def ρx (H : HashFn) (s : Sig) (x : VCtx) (ext : Nat → Outcome) (id : Nat) : Outcome :=
  if id ∈ internalIds then ρ H s x id else ext id

/-- a policy whose rule array is the internal rules, or starts with them as an AND-type element -/
def Gated (P : PolicyRules) : Prop := P = some internalList ∨ ∃ rest, P = some (.and internalList :: rest)

/-- the six verifying predefined policies -/
def six : List PolicyRules :=
  [Gen.policy_internal, Gen.policy_calendar, Gen.policy_key, Gen.policy_pubfile, Gen.policy_userpub, Gen.policy_general]

theorem six_gated : ∀ P ∈ six, Gated P := by
  intro P hP
  simp only [six, List.mem_cons, List.not_mem_nil, or_false] at hP
  rcases hP with rfl | rfl | rfl | rfl | rfl | rfl
  · exact Or.inl rfl
  · exact Or.inr ⟨_, rfl⟩
  · exact Or.inr ⟨_, rfl⟩
  · exact Or.inr ⟨_, rfl⟩
  · exact Or.inr ⟨_, rfl⟩
  · exact Or.inr ⟨_, rfl⟩

/-- no predefined verifying policy has a fallback policy: the verdict is that of its own rule array -/
theorem no_fallbacks : Gen.policy_internal_hasFallback = false ∧ Gen.policy_calendar_hasFallback = false ∧
    Gen.policy_key_hasFallback = false ∧ Gen.policy_pubfile_hasFallback = false ∧ Gen.policy_userpub_hasFallback = false ∧
    Gen.policy_general_hasFallback = false := ⟨rfl, rfl, rfl, rfl, rfl, rfl⟩

section
variable (H : HashFn) (s : Sig) (x : VCtx) (ext : Nat → Outcome)

theorem internal_same : evalList (ρx H s x ext) internalList = evalList (ρ H s x) internalList := by
  apply evalList_congr
  intro id hid
  unfold ρx
  have hid' : id ∈ internalIds := hid
  rw [if_pos hid']

/-- the rule array of a gated policy, as a list -/
theorem gated_outcome (P : PolicyRules) (hP : Gated P) :
    ∃ rs, P = some rs ∧
      ((evalList (ρx H s x ext) rs).isOk → (evalList (ρ H s x) internalList).isOk) ∧
      (¬ (evalList (ρ H s x) internalList).isOk → (evalList (ρx H s x ext) rs).outcome = (evalList (ρ H s x) internalList).outcome) := by
  rcases hP with rfl | ⟨rest, rfl⟩
  · exact ⟨internalList, rfl, by rw [internal_same]; exact id, by intro _; rw [internal_same]⟩
  · refine ⟨.and internalList :: rest, rfl, ?_, ?_⟩
    · intro h
      have := evalList_head_ok _ _ _ rfl h
      rwa [evalRule_and, internal_same] at this
    · intro h
      rw [evalList_head_bad _ _ _ rfl (by rw [evalRule_and, internal_same]; exact h), evalRule_and, internal_same]

theorem internal_isOk_iff : (evalList (ρ H s x) internalList).isOk ↔ Consistent H s x := by
  have := internal_ok_iff H s x
  unfold verifyWith Verdict.isOK at this
  rw [internal_tree', verify_single_ok] at this
  exact this

/-- **C02 (gate).** Under each of the six verifying policies, whatever the rules outside the internal set answer,
OK is reported only for an internally consistent signature — so only when a supplied document hash is the
signature's input hash, algorithm and digest, and a supplied level does not exceed the first link's level correction. -/
theorem ok_only_if_consistent (P : PolicyRules) (hP : P ∈ six)
    (h : (Policy.verify (ρx H s x ext) [P]).isOK) : Consistent H s x := by
  obtain ⟨rs, rfl, hok, _⟩ := gated_outcome H s x ext P (six_gated P hP)
  unfold Verdict.isOK at h
  rw [verify_single_ok] at h
  exact (internal_isOk_iff H s x).mp (hok h)

theorem ok_only_for_this_document (P : PolicyRules) (hP : P ∈ six) (d : Bytes) (hd : x.docHash = some d)
    (h : (Policy.verify (ρx H s x ext) [P]).isOK) : s.docHash = d ∧ imprintAlgo s.docHash = imprintAlgo d :=
  let c := ok_only_if_consistent H s x ext P hP h
  ⟨(c.doc d hd).2, (c.doc d hd).1⟩

theorem ok_only_for_this_level (P : PolicyRules) (hP : P ∈ six)
    (h : (Policy.verify (ρx H s x ext) [P]).isOK) : x.level = 0 ∨ (x.level ≤ 0xff ∧ s.rfc = none ∧ x.level ≤ firstLc s) :=
  (ok_only_if_consistent H s x ext P hP h).level

/-- when the signature is not consistent, every verifying policy returns the internal policy's verdict -/
theorem same_verdict_as_internal (P : PolicyRules) (hP : P ∈ six) (hbad : ¬ Consistent H s x) :
    (Policy.verify (ρx H s x ext) [P]).status = (verifyWith H Gen.policy_internal s x).status ∧
    (Policy.verify (ρx H s x ext) [P]).final = (verifyWith H Gen.policy_internal s x).final := by
  obtain ⟨rs, rfl, _, hout⟩ := gated_outcome H s x ext P (six_gated P hP)
  unfold verifyWith
  rw [internal_tree']
  exact verify_single_of_outcome _ _ _ _ (hout (fun h => hbad ((internal_isOk_iff H s x).mp h)))

theorem reports_transfer (P : PolicyRules) (hP : P ∈ six) (hbad : ¬ Consistent H s x) (o : Outcome)
    (h : reports (verifyWith H Gen.policy_internal s x) o) : reports (Policy.verify (ρx H s x ext) [P]) o := by
  obtain ⟨h1, h2⟩ := same_verdict_as_internal H s x ext P hP hbad
  unfold reports at h ⊢
  rw [h1, h2]; exact h

/-- another digest of the same algorithm: FAIL "wrong document" (GEN-01) under every verifying policy -/
theorem wrong_digest_GEN01 (P : PolicyRules) (hP : P ∈ six) (d : Bytes) (hd : x.docHash = some d)
    (ha : imprintAlgo s.docHash = imprintAlgo d) (h : s.docHash ≠ d) :
    reports (Policy.verify (ρx H s x ext) [P]) (failOut (GEN 1)) :=
  reports_transfer H s x ext P hP (fun c => h (c.doc d hd).2) _ (code_GEN01 H s x d hd ha h)

/-- another algorithm: FAIL GEN-04 under every verifying policy -/
theorem wrong_algorithm_GEN04 (P : PolicyRules) (hP : P ∈ six) (d : Bytes) (hd : x.docHash = some d)
    (h : imprintAlgo s.docHash ≠ imprintAlgo d) :
    reports (Policy.verify (ρx H s x ext) [P]) (failOut (GEN 4)) :=
  reports_transfer H s x ext P hP (fun c => h (c.doc d hd).1) _ (code_GEN04 H s x d hd h)

/-- a level larger than the first link's level correction (any non-zero level for a legacy signature): FAIL GEN-03;
a level above 255: refused as invalid verification input — under every verifying policy, when the document hash matches -/
theorem wrong_level_GEN03 (P : PolicyRules) (hP : P ∈ six) (h0 : cond H s x 0) (h : ¬ cond H s x 1) :
    (x.level ≤ 0xff ∧ reports (Policy.verify (ρx H s x ext) [P]) (failOut (GEN 3))) ∨
    (x.level > 0xff ∧ reports (Policy.verify (ρx H s x ext) [P]) (errOut INVALID_VERIFICATION_INPUT)) := by
  have hbad : ¬ Consistent H s x := fun c => h c.level
  rcases code_GEN03 H s x h0 h with ⟨hl, hr⟩ | ⟨hl, hr⟩
  · exact Or.inl ⟨hl, reports_transfer H s x ext P hP hbad _ hr⟩
  · exact Or.inr ⟨hl, reports_transfer H s x ext P hP hbad _ hr⟩

/-- `KSI_Signature_verifyWithPolicy` (and `KSI_verifyDataHash` / `KSI_Signature_verifyDocument` built on it) returns
`KSI_OK` only for a level ≤ 255 and an OK verdict — hence only for the right document and level -/
theorem api_ok_only_if (v : Verdict) (h : apiStatus x v = 0) : x.level ≤ 0xff ∧ v.isOK := by
  unfold apiStatus at h
  by_cases hl : x.level > 0xff
  · rw [if_pos hl] at h; simp [St.INVALID_FORMAT] at h
  · rw [if_neg hl] at h
    refine ⟨by omega, ?_⟩
    by_cases hs : v.status ≠ 0
    · rw [if_pos hs] at h; exact absurd h hs
    · rw [if_neg hs] at h
      have hs0 : v.status = 0 := by simpa using hs
      cases hf : v.final with
      | none => rw [hf] at h; simp [VERIFICATION_FAILURE] at h
      | some p =>
        obtain ⟨r, e⟩ := p
        cases r with
        | ok => exact ⟨hs0, e, hf⟩
        | na => rw [hf] at h; simp [VERIFICATION_FAILURE] at h
        | fail => rw [hf] at h; simp [VERIFICATION_FAILURE] at h

theorem api_ok_only_for_this_document (P : PolicyRules) (hP : P ∈ six) (d : Bytes) (hd : x.docHash = some d)
    (h : apiStatus x (Policy.verify (ρx H s x ext) [P]) = 0) : s.docHash = d ∧ x.level ≤ 0xff :=
  ⟨(ok_only_for_this_document H s x ext P hP d hd (api_ok_only_if x _ h).2).1, (api_ok_only_if x _ h).1⟩

end

end KsiVerif.Props.C02
