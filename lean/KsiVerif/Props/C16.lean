import KsiVerif.Proofs.Tree
/-!
# C16 — tree builder and block signer yield a valid inclusion proof for every leaf

Property theorems only.  Model: `KsiVerif.Tree` (tree_builder.c, blocksigner.c); the chain
formula is the C03 reference `refChain`; the hash function is an arbitrary parameter.
-/
namespace KsiVerif.Props.C16
open KsiVerif KsiVerif.HashChain KsiVerif.HashChainSpec KsiVerif.Tree

/-- builder invariant: every slot holds a well-formed tree, and the user leaves held are
exactly `0 .. count-1` in order -/
structure Inv (H : HashFn) (algo : Nat) (b : Builder) : Prop where
  wf : StackWF H algo b.stack
  leaves : stackLeaves b.stack = List.range b.count

theorem inv_init (H : HashFn) (algo : Nat) (m : Nat) : Inv H algo { maxLevel := m } :=
  ⟨fun n hn => by simp at hn, by simp [stackLeaves]⟩

/-- A leaf processor stage is *sound* if it returns a well-formed tree containing exactly the
leaf it was given (plus nodes of its own that are not user leaves). -/
def PrepSound (H : HashFn) (algo : Nat) (prep : Node → Except Nat Node) : Prop :=
  ∀ n t, WF H algo n → prep n = .ok t → WF H algo t ∧ userLeaves t = userLeaves n

/-- Every accepted leaf preserves the invariant; a refused leaf leaves the builder untouched
(the result is an error and there is no new state). -/
theorem addLeaf_inv (H : HashFn) (algo : Nat) (b b' : Builder) (c : Content) (level nproc : Nat)
    (prep : Node → Except Nat Node) (hp : PrepSound H algo prep) (hc : Content.ok c)
    (hi : Inv H algo b) (h : b.addLeaf H algo c level nproc prep = .ok b') : Inv H algo b' := by
  unfold Builder.addLeaf at h
  split at h
  · cases h
  · rename_i hlv
    split at h
    · cases h
    · split at h
      · cases h
      · rename_i n hn
        split at h
        · cases h
        · rename_i st hst
          cases h
          have hleaf : WF H algo (.leaf (some b.count) c level) := WF.leaf _ _ _ (by omega) hc
          have ⟨hwn, hln⟩ := hp _ _ hleaf hn
          refine ⟨insert_wf H algo _ _ _ hi.wf hwn hst, ?_⟩
          simp only
          rw [insert_leaves H algo _ _ _ hst, hi.leaves, hln]
          simp [userLeaves, List.range_succ]

/-- **Inclusion proofs.** After closing, the chain extracted for every accepted leaf
recomputes — by the independent chain formula, starting at the leaf's own level — exactly the
builder's root hash and root level; and the closed tree contains all accepted leaves, in the
order they were added (canonical left-to-right merge). -/
theorem close_inclusion (H : HashFn) (algo : Nat) (b : Builder) (root : Node) (hi : Inv H algo b)
    (h : close H algo b.stack = .ok root) :
    userLeaves root = List.range b.count ∧
    ∀ k lv bytes ch, (k, lv, bytes, ch) ∈ chains root →
      refChain H algo lv bytes ch = some (root.level, root.bytes) := by
  unfold close at h
  cases hf : closeFold H algo none b.stack with
  | error e => simp [hf] at h
  | ok out =>
    cases out with
    | none => simp [hf] at h
    | some r =>
      simp only [hf, Except.ok.injEq] at h
      subst h
      have hw := closeFold_wf H algo b.stack none (some r) hi.wf (by intro a ha; cases ha) hf r rfl
      have hl := closeFold_leaves H algo b.stack none (some r) hf
      simp only [List.append_nil] at hl
      exact ⟨by rw [hl, hi.leaves], inclusion H algo r hw⟩

/-- **Open forest.** Before closing — and after a close that was refused, which leaves the builder as it was — the chain
handed out for a leaf leads to the top of the sub tree the leaf sits in: it recomputes, from the leaf's own level, exactly that
sub tree's level and hash.  (What `KSI_TreeLeafHandle_getAggregationChain` returns on an unclosed builder; compared by the
executor's `U` entries.) -/
theorem open_forest_inclusion (H : HashFn) (algo : Nat) (b : Builder) (hi : Inv H algo b) (n : Node) (hn : some n ∈ b.stack) :
    ∀ k lv bytes ch, (k, lv, bytes, ch) ∈ chains n → refChain H algo lv bytes ch = some (n.level, n.bytes) :=
  inclusion H algo n (hi.wf n hn)

/-- a refused close changes nothing: the function is pure on the stack, the builder keeps its slots and its leaves -/
theorem refused_close_keeps_builder (H : HashFn) (algo : Nat) (b : Builder) (e : Nat) (hi : Inv H algo b)
    (_h : close H algo b.stack = .error e) : Inv H algo b := hi

/-- The block signer's leaf processors (metadata sibling first, then the blinding mask) are
sound in the above sense, whatever the mask chain state. -/
theorem signerPrep_sound (H : HashFn) (algo : Nat) (prev iv md : Option Bytes) :
    PrepSound H algo (fun n => (signerPrep H algo prev iv md n).map (·.1)) := by
  intro n t hn h
  unfold signerPrep at h
  -- metadata stage
  have hstage1 : ∀ cur, (match md with
      | none => Except.ok n
      | some p => join H algo (.leaf none (.mdata p) n.level) n) = .ok cur →
      WF H algo cur ∧ userLeaves cur = userLeaves n := by
    intro cur hcur
    cases md with
    | none => simp only [Except.ok.injEq] at hcur; subst hcur; exact ⟨hn, rfl⟩
    | some p =>
      simp only at hcur
      have hlv : n.level ≤ 0xff := wf_level_le hn
      have hm : WF H algo (.leaf none (.mdata p) n.level) := WF.leaf _ _ _ hlv trivial
      exact ⟨join_wf hm hn hcur, by rw [join_leaves hcur]; simp [userLeaves]⟩
  simp only at h
  split at h
  · simp [Except.map] at h
  · rename_i cur hcur
    have ⟨hwc, hlc⟩ := hstage1 cur hcur
    split at h
    · rename_i pv ivb
      split at h
      · simp [Except.map] at h
      · rename_i m hm
        split at h
        · simp [Except.map] at h
        · split at h
          · simp [Except.map] at h
          · rename_i t' ht'
            simp only [Except.map, Except.ok.injEq] at h
            subst h
            have hmask : WF H algo (.leaf none (.hash (UInt8.ofNat algo :: m)) cur.level) :=
              WF.leaf _ _ _ (wf_level_le hwc) (by simp [Content.ok])
            exact ⟨join_wf hmask hwc ht', by rw [join_leaves ht', ← hlc]; simp [userLeaves]⟩
    · simp only [Except.map, Except.ok.injEq] at h
      subst h
      exact ⟨hwc, hlc⟩

/-- A reset signer is a newly created one (same initial previous-leaf value, same
initialisation vector, empty tree, same order of leaf processors). -/
theorem reset_eq_new (s : Signer) (hm : s.b.maxLevel = 0 ∨ True) :
    s.reset = { Signer.new s.origPrev s.iv with b := { maxLevel := 0 } } := by
  simp [Signer.reset, Signer.new]

/-- the height pre-check refuses exactly when adding the leaf (with the processors'
overhead) and closing would exceed the configured maximum -/
theorem heightCheck_ok_iff (b : Builder) (level nproc : Nat) (hm : 0 < b.maxLevel) :
    heightCheck b level nproc = .ok () ↔
      level ≤ b.maxLevel ∧ ∃ actual, levelWithOverhead level nproc = .ok actual ∧
        highestLevel b.stack actual ≤ b.maxLevel := by
  unfold heightCheck
  have : ¬ b.maxLevel = 0 := by omega
  simp only [this, ↓reduceIte]
  by_cases hl : level > b.maxLevel
  · simp [hl]; omega
  · simp only [hl, ↓reduceIte]
    cases hlo : levelWithOverhead level nproc with
    | error e => simp
    | ok a =>
      simp only
      by_cases hh : highestLevel b.stack a > b.maxLevel
      · simp [hh] <;> omega
      · simp [hh] <;> omega

/-- **An accepted leaf never takes the tree beyond the configured maximum level**: if the
builder has a maximum and `addLeaf` accepts, then closing the builder yields a root whose
level is exactly what `calculateHighestLevel` predicted and hence at most the maximum — for
every stack, every leaf level and every leaf processor that raises the level as
`levelWithOverhead` assumes (`prep = .ok`, `nproc = 0` for the plain tree builder).  With
`heightCheck_ok_iff` (refused exactly when the predicted level exceeds the maximum) the
pre-check is neither too lax nor too strict. -/
theorem accepted_leaf_root_within_max (H : HashFn) (algo : Nat) (b b' : Builder) (c : Content) (level nproc : Nat)
    (prep : Node → Except Nat Node) (hm : 0 < b.maxLevel)
    (hprep : ∀ n', prep (.leaf (some b.count) c level) = .ok n' → levelWithOverhead level nproc = .ok n'.level)
    (h : b.addLeaf H algo c level nproc prep = .ok b') (root : Node) (hc : close H algo b'.stack = .ok root) :
    root.level ≤ b.maxLevel ∧ b'.maxLevel = b.maxLevel := by
  unfold Builder.addLeaf at h
  split at h
  · cases h
  · split at h
    · cases h
    · rename_i hcheck
      obtain ⟨_, actual, hlo, hle⟩ := (heightCheck_ok_iff b level nproc hm).mp hcheck
      split at h
      · cases h
      · rename_i n hp
        have hn := hprep n hp
        rw [hlo] at hn
        simp only [Except.ok.injEq] at hn
        split at h
        · cases h
        · rename_i st hins
          simp only [Except.ok.injEq] at h
          subst h
          refine ⟨?_, rfl⟩
          unfold close at hc
          simp only at hc
          split at hc
          · cases hc
          · cases hc
          · rename_i r hcf
            simp only [Except.ok.injEq] at hc
            subst hc
            rw [insert_close_level H algo b.stack n st r hins hcf, ← hn]
            exact hle

/-- the plain tree builder (no leaf processors) -/
theorem treeBuilder_root_within_max (H : HashFn) (algo : Nat) (b b' : Builder) (c : Content) (level : Nat)
    (hm : 0 < b.maxLevel) (h : b.addLeaf H algo c level 0 .ok = .ok b') (root : Node)
    (hc : close H algo b'.stack = .ok root) : root.level ≤ b.maxLevel :=
  (accepted_leaf_root_within_max H algo b b' c level 0 .ok hm
    (by intro n' hn; simp only [Except.ok.injEq] at hn; subst hn; rfl) h root hc).1

/-- **A leaf is refused by the height pre-check only when it would push the tree beyond the
configured maximum**: if the plain tree builder refuses a leaf for its height, then adding it
and closing — whenever those succeed — would yield a root above the maximum. -/
theorem refused_leaf_would_exceed (H : HashFn) (algo : Nat) (b : Builder) (c : Content) (level : Nat) (e : Nat)
    (hm : 0 < b.maxLevel) (h : heightCheck b level 0 = .error e) :
    e = St.BUFFER_OVERFLOW ∧
    ∀ st r, insert H algo b.stack (.leaf (some b.count) c level) = .ok st →
      closeFold H algo none st = .ok (some r) → b.maxLevel < r.level := by
  unfold heightCheck at h
  have hm0 : ¬ b.maxLevel = 0 := by omega
  simp only [hm0, ↓reduceIte, levelWithOverhead] at h
  split at h
  · rename_i hl
    simp only [Except.error.injEq] at h
    refine ⟨h.symm, ?_⟩
    intro st r hi hc
    rw [insert_close_level H algo b.stack _ st r hi hc]
    exact Nat.lt_of_lt_of_le hl (highestLevel_ge b.stack level)
  · split at h
    · rename_i hh
      simp only [Except.error.injEq] at h
      refine ⟨h.symm, ?_⟩
      intro st r hi hc
      rw [insert_close_level H algo b.stack _ st r hi hc]
      exact hh
    · cases h

/-! Non-vacuity: three leaves through a toy hash function. -/
def toyH : HashFn := fun _ m => some [UInt8.ofNat m.length]
example : ∃ b1 b2 b3 root,
    ({} : Builder).addLeaf toyH 1 (.hash [1, 7]) 0 0 .ok = .ok b1 ∧
    b1.addLeaf toyH 1 (.hash [1, 8]) 0 0 .ok = .ok b2 ∧
    b2.addLeaf toyH 1 (.hash [1, 9]) 3 0 .ok = .ok b3 ∧
    close toyH 1 b3.stack = .ok root ∧ root.level = 4 ∧ (chains root).length = 3 := by
  refine ⟨_, _, _, _, rfl, rfl, rfl, rfl, ?_, ?_⟩ <;> decide

/-- …and with a maximum of 4 the same third leaf is accepted (root level 4 = the maximum),
while with a maximum of 3 it is refused. -/
example : ∃ b1 b2 b3 root,
    ({ maxLevel := 4 } : Builder).addLeaf toyH 1 (.hash [1, 7]) 0 0 .ok = .ok b1 ∧
    b1.addLeaf toyH 1 (.hash [1, 8]) 0 0 .ok = .ok b2 ∧
    b2.addLeaf toyH 1 (.hash [1, 9]) 3 0 .ok = .ok b3 ∧
    close toyH 1 b3.stack = .ok root ∧ root.level = 4 ∧
    ({ b2 with maxLevel := 3 } : Builder).addLeaf toyH 1 (.hash [1, 9]) 3 0 .ok = .error St.BUFFER_OVERFLOW := by
  refine ⟨_, _, _, _, rfl, rfl, rfl, rfl, ?_, rfl⟩
  decide

end KsiVerif.Props.C16
