import KsiVerif.Model.Hmac
import KsiVerif.Model.Template
import KsiVerif.Spec.Tlv
/-!
# PDU authentication (types.c `pdu_verifyHmac`, `pdu_calculateHmac`, `pdu_calculateHmac_v2`,
`KSI_AggregationPdu_verify`, `KSI_ExtendPdu_verify`) and the blocking clients' use of it
(net.c `KSI_RequestHandle_getAggregationResponse` / `getExtendResponse`)

Parsing is the typed parser of C10 (`KsiVerif.Template`); this file adds which bytes are
authenticated and what is delivered.
-/
namespace KsiVerif.PduMac
open KsiVerif KsiVerif.Template KsiVerif.HashChain

def HMAC_MISMATCH : Nat := 0x20e
def HMAC_ALGORITHM_MISMATCH : Nat := 0x211

inductive Family where
  | aggr | ext
deriving Repr, DecidableEq

/-- template name for a root tag (after the version gate of the parse function) -/
def pduTable (f : Family) (tag : Nat) : String :=
  match f with
  | .aggr => if tag = 0x200 then "KSI_AggregationPdu" else if tag = 0x220 then "KSI_AggregationReqPdu" else "KSI_AggregationRespPdu"
  | .ext => if tag = 0x300 then "KSI_ExtendPdu" else if tag = 0x320 then "KSI_ExtendReqPdu" else "KSI_ExtendRespPdu"

/-- the value parsed for the row with tag `tag` of table `tname` -/
def fieldOf (tabs : Tables) (tname : String) (tag : Nat) (vs : List (Nat × Val)) : Option Val :=
  match (lookup tabs tname).find? (·.tag == tag) with
  | some e => (vs.find? (·.1 == e.gid)).map (·.2)
  | none => none

/-- the element with tag `tag` among the PDU's children, re-serialized canonically
(`FROMTLV_ADD_RAW`: `KSI_TLV_serialize` of the parsed element) -/
def childRaw (raw : Bytes) (tag : Nat) : Option Bytes :=
  match Tlv.parseBlob raw with
  | .error _ => none
  | .ok t =>
    match Tlv.expand (Elem.ofTlv t).payload with
    | .error _ => none
    | .ok ts => (ts.find? (·.tag == tag)).map TlvSpec.encode

structure View where
  header : Bool
  request : Bool
  response : Bool
  confRequest : Bool
  confResponse : Bool
  hmac : Option Bytes
deriving Repr

def tags (f : Family) (v1 : Bool) : Nat × Nat :=       -- (request tag, response tag) in the PDU
  match f, v1 with
  | .aggr, true => (0x201, 0x202) | .aggr, false => (0x02, 0x02)
  | .ext, true => (0x301, 0x302) | .ext, false => (0x02, 0x02)

def view (tabs : Tables) (f : Family) (rootTag : Nat) (vs : List (Nat × Val)) : View :=
  let tn := pduTable f rootTag
  let has (tag : Nat) := (fieldOf tabs tn tag vs).isSome
  let v1 := rootTag = 0x200 ∨ rootTag = 0x300
  let isReq := rootTag = 0x220 ∨ rootTag = 0x320
  { header := has 0x01,
    request := if v1 then has (tags f true).1 else isReq && has 0x02,
    response := if v1 then has (tags f true).2 else !isReq && has 0x02,
    confRequest := !v1 && isReq && has 0x04,
    confResponse := !v1 && !isReq && has 0x04,
    hmac := match fieldOf tabs tn 0x1f vs with | some (.imprint b) => some b | _ => none }

/-- `KSI_AggregationPdu_calculateHmac` / `KSI_ExtendPdu_calculateHmac` for context version `ver` -/
def calcHmac (H : HashFn) (f : Family) (ver : Nat) (alg : Nat) (key raw : Bytes) (w : View) : Except Nat Bytes :=
  if ver = 1 then
    if !w.header then .error St.INVALID_ARGUMENT
    else
      let payloadTag := if w.request then some (tags f true).1 else if w.response then some (tags f true).2 else none
      match payloadTag with
      | none => .error St.INVALID_ARGUMENT
      | some pt =>
        match childRaw raw 0x01, childRaw raw pt with
        | some h, some p => Hmac.create H alg key (h ++ p)
        | _, _ => .error St.UNKNOWN_ERROR
  else if ver = 2 then
    if !w.header then .error St.INVALID_ARGUMENT
    else
      let (rq, rs) := if w.confRequest || w.confResponse then (w.confRequest, w.confResponse) else (w.request, w.response)
      if !rq && !rs then .error St.INVALID_ARGUMENT
      else Hmac.create H alg key (raw.take (raw.length - Gen.hashLen alg))
  else .error St.INVALID_FORMAT

/-- `KSI_…Pdu_verify(pdu, key)` with the configured HMAC algorithm `confAlg` (`none` = not pinned) -/
def verify (H : HashFn) (f : Family) (ver : Nat) (confAlg : Option Nat) (key raw : Bytes) (w : View) : Nat :=
  if !w.header then St.INVALID_FORMAT
  else match w.hmac with
    | none => St.INVALID_FORMAT
    | some mac =>
      let alg := (mac.headD 0).toNat
      if confAlg.isSome && confAlg != some alg then HMAC_ALGORITHM_MISMATCH
      else match calcHmac H f ver alg key raw w with
        | .error e => e
        | .ok actual => if actual == mac then 0 else HMAC_MISMATCH

end KsiVerif.PduMac

namespace KsiVerif.PduMac
open KsiVerif KsiVerif.Template KsiVerif.HashChain

/-- `KSI_convertAggregatorStatusCode` -/
def convAggr (s : Nat) : Nat :=
  if s = 0 then 0
  else if s = 0x101 then 0x400 else if s = 0x102 then 0x401 else if s = 0x103 then 0x402
  else if s = 0x104 then 0x407 else if s = 0x105 then 0x408 else if s = 0x106 then 0x409
  else if s = 0x107 then 0x40a else if s = 0x200 then 0x403 else if s = 0x300 then 0x404
  else if s = 0x301 then 0x405 else 0x406

/-- `KSI_convertExtenderStatusCode` -/
def convExt (s : Nat) : Nat :=
  if s = 0 then 0
  else if s = 0x101 then 0x400 else if s = 0x102 then 0x401 else if s = 0x103 then 0x402
  else if s = 0x104 then 0x501 else if s = 0x105 then 0x504 else if s = 0x106 then 0x505
  else if s = 0x107 then 0x506 else if s = 0x200 then 0x403 else if s = 0x201 then 0x502
  else if s = 0x202 then 0x503 else if s = 0x300 then 0x404 else if s = 0x301 then 0x405 else 0x406

def errorTag (f : Family) (rootTag : Nat) : Nat :=
  if rootTag = 0x200 then 0x203 else if rootTag = 0x300 then 0x303 else 0x03

/-- the status element of an error PDU -/
def errorStatus (tabs : Tables) (v : Val) : Option Nat :=
  match v with
  | .obj fs =>
    match fieldOf tabs "KSI_ErrorPdu" 0x04 fs with
    | some (.int n) => some n
    | _ => none
  | _ => none

def rootTagOf (raw : Bytes) : Nat := match Tlv.memRead raw with | .ok h => h.tag | .error _ => 0

/-- content passes only with status 0 -/
def gate (st : Nat) (vs : List (Nat × Val)) : Except Nat (List (Nat × Val)) := if st = 0 then .ok vs else .error st

/-- net.c `KSI_RequestHandle_getAggregationResponse` / `getExtendResponse` up to the point where
content is handed on: parse, error PDU, authentication.  `.ok vs` = the parsed fields are used. -/
def deliver (H : HashFn) (c : Cfg) (f : Family) (ver : Nat) (confAlg : Option Nat) (key raw : Bytes) :
    Except Nat (List (Nat × Val)) :=
  let parsed := match f with | .aggr => parseAggrPdu c ver raw | .ext => parseExtPdu c ver raw
  match parsed with
  | .error e => .error e
  | .ok vs =>
    match fieldOf c.tabs (pduTable f (rootTagOf raw)) (errorTag f (rootTagOf raw)) vs with
    | some ev =>
      let st := (errorStatus c.tabs ev).getD 0
      .error (match f with | .aggr => convAggr st | .ext => convExt st)
    | none => gate (verify H f ver confAlg key raw (view c.tabs f (rootTagOf raw) vs)) vs

end KsiVerif.PduMac
