import KsiVerif.Model.Tlv
import KsiVerif.Gen.Templates
import KsiVerif.Gen.HashAlgo
/-!
# Typed parsing: the template engine (tlv_template.c `extractGenerator`) and the value parsers

`step` follows the body of the element loop of `extractGenerator` check by check (match,
FIXED_ORDER, FIRST, LAST, MOST_ONE groups, "value already set", value parser); `finalCheck`
is the loop over the template after the last element.  The template tables themselves are
generated from the built library (`KsiVerif.Gen.Templates`).  The engine is generic in the value
parser `pv`, so everything proved about it holds whatever the element values are.
-/
namespace KsiVerif.Template
open KsiVerif KsiVerif.Tlv

/-- one TLV as the generator hands it to the engine -/
structure Elem where
  tag : Nat
  nc : Bool
  fwd : Bool
  payload : Bytes
deriving Repr, DecidableEq

def Elem.ofTlv : Tlv → Elem
  | .raw t n f p => ⟨t, n, f, p⟩
  | .nested t n f _ => ⟨t, n, f, []⟩      -- not produced by `expand`

/-- a parsed value -/
inductive Val where
  | int (n : Nat)
  | str (b : Bytes)
  | oct (b : Bytes)
  | imprint (b : Bytes)
  | mdata (payload : Bytes)
  | der (b : Bytes)
  /-- an object: (global field id, value) in input order -/
  | obj (fields : List (Nat × Val))
  | link (isLeft : Bool) (fields : List (Nat × Val))
  | calLink (isLeft : Bool) (imprint : Bytes)
deriving Repr

/-- bookkeeping of one `extractGenerator` call -/
structure St where
  /-- `templateHit[]`: indices of the entries matched so far -/
  hit : List Nat := []
  /-- fields (first row with the same getter) that hold a value: `getValue(payload) != NULL` -/
  set : List Nat := []
  g0 : Bool := false
  g1 : Bool := false
  o0 : Bool := false
  o1 : Bool := false
  first : Bool := false
  last : Bool := false
  maxOrder : Nat := 0
  /-- (row index, value) in input order -/
  vals : List (Nat × Val) := []
deriving Repr

/-- first row carrying the tag (`for (i = 0; ...) if (tmpl[i].tag != tag) continue;`) -/
def findEntry : List Entry → Nat → Nat → Option (Nat × Entry)
  | [], _, _ => none
  | t :: ts, tag, i => if t.tag = tag then some (i, t) else findEntry ts tag (i + 1)

def IF : Nat := St.INVALID_FORMAT

/-- one element through the loop body of `extractGenerator` -/
def step (tm : List Entry) (pv : Entry → Elem → Except Nat Val) (s : St) (e : Elem) : Except Nat St :=
  match findEntry tm e.tag 0 with
  | none => if e.nc then .ok s else .error IF            -- unknown tag: ignored iff flagged non-critical
  | some (i, t) =>
    if t.has FLG_FIXED_ORDER && decide (i < s.maxOrder) then .error IF
    else if t.has FLG_FIRST && s.first then .error IF
    else if s.last then .error IF
    else if t.has FLG_MOST_ONE_G0 && s.o0 then .error IF
    else if t.has FLG_MOST_ONE_G1 && s.o1 then .error IF
    else if !t.multiple && s.set.contains t.getter then .error IF
    else match pv t e with
      | .error c => .error c
      | .ok v => .ok
        { hit := i :: s.hit, set := t.getter :: s.set,
          g0 := s.g0 || t.has FLG_LEAST_ONE_G0, g1 := s.g1 || t.has FLG_LEAST_ONE_G1,
          o0 := s.o0 || t.has FLG_MOST_ONE_G0, o1 := s.o1 || t.has FLG_MOST_ONE_G1,
          first := true, last := s.last || t.has FLG_LAST,
          maxOrder := if t.has FLG_FIXED_ORDER then i else s.maxOrder,
          vals := s.vals ++ [(i, v)] }

def run (tm : List Entry) (pv : Entry → Elem → Except Nat Val) : St → List Elem → Except Nat St
  | s, [] => .ok s
  | s, e :: es =>
    match step tm pv s e with
    | .error c => .error c
    | .ok s' => run tm pv s' es

/-- the loop over the template after the last element: mandatory rows and at-least-one groups -/
def finalCheck (s : St) : List Entry → Nat → Bool
  | [], _ => true
  | t :: ts, i =>
    if t.has FLG_MANDATORY && !s.hit.contains i then false
    else if (t.has FLG_LEAST_ONE_G0 && !s.g0) || (t.has FLG_LEAST_ONE_G1 && !s.g1) then false
    else finalCheck s ts (i + 1)

/-- `extractGenerator` on a list of elements: the values by row, in input order -/
def extractG (tm : List Entry) (pv : Entry → Elem → Except Nat Val) (es : List Elem) :
    Except Nat (List (Nat × Val)) :=
  if tm.isEmpty then .error St.INVALID_ARGUMENT
  else match run tm pv {} es with
    | .error c => .error c
    | .ok s => if finalCheck s tm 0 then .ok s.vals else .error IF

/-! ## value parsers -/

/-- `KSI_UINT64_MINSIZE` -/
def minSize (v : Nat) : Nat :=
  if v = 0 then 0 else if v < 2 ^ 8 then 1 else if v < 2 ^ 16 then 2 else if v < 2 ^ 24 then 3
  else if v < 2 ^ 32 then 4 else if v < 2 ^ 40 then 5 else if v < 2 ^ 48 then 6 else if v < 2 ^ 56 then 7 else 8

def beVal (b : Bytes) : Nat := b.foldl (fun a x => a * 256 + x.toNat) 0

/-- `KSI_Integer_fromTlv` -/
def parseInt (p : Bytes) : Except Nat Nat :=
  if p.length > 8 then .error IF
  else if p.length > 0 && p.length != minSize (beVal p) then .error IF
  else .ok (beVal p)

/-- the character loop of `verifyUtf8`; `k` = continuation bytes still expected after a lead byte
has been consumed is handled inside one iteration, as in C -/
def takeCont : Nat → Bytes → Nat × Bytes
  | 0, bs => (0, bs)
  | k + 1, [] => (k + 1, [])
  | k + 1, b :: bs => if 0x80 ≤ b.toNat ∧ b.toNat ≤ 0xbf then takeCont k bs else (k + 1, b :: bs)

theorem takeCont_length (k : Nat) (bs : Bytes) : (takeCont k bs).2.length ≤ bs.length := by
  induction k generalizing bs with
  | zero => simp [takeCont]
  | succ k ih =>
    cases bs with
    | nil => simp [takeCont]
    | cons b bs =>
      simp only [takeCont]
      split
      · have := ih bs; simp only [List.length_cons]; omega
      · simp

/-- continuation octets a lead octet asks for -/
def leadLen (c : Nat) : Option Nat :=
  if c ≤ 0x7f then some 0 else if 0xc0 ≤ c ∧ c ≤ 0xdf then some 1
  else if 0xe0 ≤ c ∧ c ≤ 0xef then some 2 else if 0xf0 ≤ c ∧ c ≤ 0xf4 then some 3 else none

def verifyUtf8 : Bytes → Except Nat Unit
  | [] => .ok ()
  | b :: bs =>
    if !bs.isEmpty && b.toNat = 0 then .error IF                 -- NUL before the last byte
    else
      match leadLen b.toNat with
      | none => .error IF
      | some k =>
        if k ≥ bs.length + 1 then .error St.BUFFER_OVERFLOW        -- i + k >= len
        else
          match h : takeCont k bs with
          | (0, rest) => verifyUtf8 rest
          | (_ + 1, _) => .error IF
termination_by b => b.length
decreasing_by
  have := takeCont_length k bs
  rw [h] at this
  simp only [List.length_cons] at this ⊢
  omega

/-- `KSI_Utf8String_new(ctx, str, len, …)` on the raw value -/
def parseUtf8 (p : Bytes) : Except Nat Bytes :=
  if p.isEmpty || p.getLast? != some 0 then .error IF
  else match verifyUtf8 p with
    | .error c => .error c
    | .ok () => .ok p

/-- `KSI_Utf8StringNZ_fromTlv` -/
def parseUtf8NZ (p : Bytes) : Except Nat Bytes :=
  match parseUtf8 p with
  | .error c => .error c
  | .ok s => if s.length ≤ 1 then .error IF else .ok s

def CRYPTO_FAILURE : Nat := 0x20d
def MAX_IMPRINT_LEN : Nat := 64

/-- `KSI_DataHash_fromImprint` / `KSI_DataHash_fromDigest` on the raw value -/
def parseImprint (p : Bytes) : Except Nat Bytes :=
  match p with
  | [] => .error IF                                         -- an empty imprint has no algorithm byte
  | a :: d =>
    if d.isEmpty then .error St.INVALID_ARGUMENT             -- digest_length == 0
    else if !Gen.hashValid a.toNat then .error St.UNAVAILABLE_HASH_ALGORITHM
    else if Gen.hashLen a.toNat != d.length then .error IF
    else if d.length > MAX_IMPRINT_LEN then .error CRYPTO_FAILURE
    else .ok p

/-- hashchain.c `legacyId_verify` -/
def parseLegacyId (p : Bytes) : Except Nat Bytes :=
  if p.length != 29 then .error IF
  else if !(p.getD 0 0 == 3 && p.getD 1 0 == 0) then .error IF
  else if (p.getD 2 0).toNat > 25 then .error IF
  else if (p.drop ((p.getD 2 0).toNat + 3)).any (· != 0) then .error IF
  else .ok p

abbrev Tables := List (String × List Entry)

def lookup (tabs : Tables) (name : String) : List Entry :=
  match tabs.find? (·.1 == name) with
  | some (_, t) => t
  | none => []

/-- which template a tag-dispatching `…_fromTlv` uses for the element, if any -/
def dispatch (k : Kind) (tag : Nat) : Option String :=
  match k with
  | .header => if tag = 0x01 then some "KSI_Header" else none
  | .pubData => if tag = 0x10 then some "KSI_PublicationData" else none
  | .aggrReq => if tag = 0x201 then some "KSI_AggregationReq" else if tag = 0x02 then some "KSI_AggregationReq_v2" else none
  | .aggrResp => if tag = 0x202 then some "KSI_AggregationResp" else if tag = 0x02 then some "KSI_AggregationResp_v2" else none
  | .extReq => if tag = 0x301 ∨ tag = 0x02 then some "KSI_ExtendReq" else none
  | .extResp => if tag = 0x302 then some "KSI_ExtendResp" else if tag = 0x02 then some "KSI_ExtendResp_v2" else none
  | _ => none

/-- `extract(ctx, payload, tlv, tmpl)`: the element's value is tiled into TLVs (`KSI_TLV_getNestedList`)
which are fed to the engine -/
def extractBytes (tm : List Entry) (pv : Entry → Elem → Except Nat Val) (payload : Bytes) :
    Except Nat (List (Nat × Val)) :=
  match expand payload with
  | .error c => .error c
  | .ok ts => extractG tm pv (ts.map Elem.ofTlv)

/-- values keyed by row index → keyed by the row's global field id -/
def keyed (tm : List Entry) (vs : List (Nat × Val)) : List (Nat × Val) :=
  vs.map fun (i, v) => ((tm.getD i ⟨0, 0, false, .int, 0, "", 0⟩).gid, v)

/-- the value parser of one row (`extractObject` / `extractComposite`); `derOK` stands for
OpenSSL accepting the bytes as a certificate / PKCS#7 structure; `fuel` bounds the nesting -/
def parseVal (tabs : Tables) (derOK : Bytes → Bool) : Nat → Entry → Elem → Except Nat Val
  | 0, _, _ => .error St.UNKNOWN_ERROR
  | fuel + 1, t, e =>
    let sub (name : String) : Except Nat (List (Nat × Val)) :=
      match extractBytes (lookup tabs name) (parseVal tabs derOK fuel) e.payload with
      | .error c => .error c
      | .ok vs => .ok (keyed (lookup tabs name) vs)
    match t.kind with
    | .int => match parseInt e.payload with | .error c => .error c | .ok n => .ok (.int n)
    | .utf8 => match parseUtf8 e.payload with | .error c => .error c | .ok s => .ok (.str s)
    | .utf8nz => match parseUtf8NZ e.payload with | .error c => .error c | .ok s => .ok (.str s)
    | .octet => .ok (.oct e.payload)
    | .imprint => match parseImprint e.payload with | .error c => .error c | .ok h => .ok (.imprint h)
    | .legacyId => match parseLegacyId e.payload with | .error c => .error c | .ok b => .ok (.oct b)
    | .metaData =>
      match sub "KSI_MetaDataElement" with
      | .error c => .error c
      | .ok _ => .ok (.mdata e.payload)
    | .composite => match sub t.sub with | .error c => .error c | .ok fs => .ok (.obj fs)
    | .link =>
      if e.tag = 0x07 ∨ e.tag = 0x08 then
        match sub "KSI_HashChainLink" with
        | .error c => .error c
        | .ok fs => .ok (.link (e.tag = 0x07) fs)
      else .error IF
    | .calLink =>
      if e.tag = 0x07 ∨ e.tag = 0x08 then
        match parseImprint e.payload with
        | .error c => .error c
        | .ok h => .ok (.calLink (e.tag = 0x07) h)
      else .error IF
    | .cert =>
      if e.payload.isEmpty then .error St.INVALID_ARGUMENT
      else if derOK e.payload then .ok (.der e.payload) else .error IF
    | .pkiSig =>
      if e.payload.isEmpty then .error St.INVALID_ARGUMENT
      else if derOK e.payload then .ok (.der e.payload) else .error CRYPTO_FAILURE
    | k =>
      match dispatch k e.tag with
      | none => .error IF
      | some name => match sub name with | .error c => .error c | .ok fs => .ok (.obj fs)

def FUEL : Nat := 12

/-! ## entry points -/

structure Cfg where
  derOK : Bytes → Bool
  /-- the template tables: the ones generated from the source, or the reference schema -/
  tabs : Tables := Gen.templates

/-- `KSI_TlvTemplate_parse(ctx, raw, len, tmpl, payload)` -/
def templateParse (c : Cfg) (name : String) (raw : Bytes) : Except Nat (List (Nat × Val)) :=
  match parseBlob raw with
  | .error e => .error e
  | .ok t =>
    match extractBytes (lookup c.tabs name) (parseVal c.tabs c.derOK FUEL) (Elem.ofTlv t).payload with
    | .error e => .error e
    | .ok vs => .ok (keyed (lookup c.tabs name) vs)

def V1_TO_V2_AGGR : Nat := 0x40c
def V2_TO_V1_AGGR : Nat := 0x40b
def V1_TO_V2_EXT : Nat := 0x508
def V2_TO_V1_EXT : Nat := 0x507

/-- `KSI_AggregationPdu_parse` with the context configured for PDU version `ver` (1 or 2) -/
def parseAggrPdu (c : Cfg) (ver : Nat) (raw : Bytes) : Except Nat (List (Nat × Val)) :=
  match memRead raw with
  | .error e => .error e
  | .ok h =>
    if h.hdrLen + h.datLen ≠ raw.length then .error IF
    else if h.tag = 0x200 then (if ver = 2 then .error V1_TO_V2_AGGR else templateParse c "KSI_AggregationPdu" raw)
    else if h.tag = 0x220 then (if ver = 1 then .error V2_TO_V1_AGGR else templateParse c "KSI_AggregationReqPdu" raw)
    else if h.tag = 0x221 then (if ver = 1 then .error V2_TO_V1_AGGR else templateParse c "KSI_AggregationRespPdu" raw)
    else .error IF

/-- `KSI_ExtendPdu_parse` -/
def parseExtPdu (c : Cfg) (ver : Nat) (raw : Bytes) : Except Nat (List (Nat × Val)) :=
  match memRead raw with
  | .error e => .error e
  | .ok h =>
    if h.hdrLen + h.datLen ≠ raw.length then .error IF
    else if h.tag = 0x300 then (if ver = 2 then .error V1_TO_V2_EXT else templateParse c "KSI_ExtendPdu" raw)
    else if h.tag = 0x320 then (if ver = 1 then .error V2_TO_V1_EXT else templateParse c "KSI_ExtendReqPdu" raw)
    else if h.tag = 0x321 then (if ver = 1 then .error V2_TO_V1_EXT else templateParse c "KSI_ExtendRespPdu" raw)
    else .error IF

/-- is a field present among the keyed values -/
def hasField (vs : List (Nat × Val)) (g : Nat) : Bool := vs.any (·.1 == g)

/-- `KSI_Signature_parseWithPolicy(…, KSI_VERIFICATION_POLICY_EMPTY, …)`: blob, tag 0x800, template,
then signature_builder.c `checkSignatureInternals` (whose second branch forgets to set the
status and so reports KSI_UNKNOWN_ERROR) -/
def parseSignature (c : Cfg) (raw : Bytes) : Except Nat (List (Nat × Val)) :=
  if raw.isEmpty then .error St.INVALID_ARGUMENT
  else match parseBlob raw with
    | .error e => .error e
    | .ok t =>
      if t.tag ≠ 0x800 then .error IF
      else match extractBytes (lookup c.tabs "KSI_Signature") (parseVal c.tabs c.derOK FUEL) (Elem.ofTlv t).payload with
        | .error e => .error e
        | .ok vs0 =>
          let vs := keyed (lookup c.tabs "KSI_Signature") vs0
          let has (row : Nat) := vs0.any (·.1 == row)
          if !has 0 then .error IF
          else if !has 1 && (has 4 || has 2) then .error St.UNKNOWN_ERROR
          else if has 4 && has 2 then .error IF
          else .ok vs

def PUB_MAGIC : Bytes := [0x4b, 0x53, 0x49, 0x50, 0x55, 0x42, 0x4c, 0x46]

/-- the record generator of publicationsfile.c (`generateNextTlv`) driving the engine: records are
read with the fast TLV reader; once the signature record (0x704) has been delivered any further
record is refused; `off` counts the bytes consumed, `sigOff` is the offset of the signature record -/
def pubRun (tm : List Entry) (pv : Entry → Elem → Except Nat Val) :
    Nat → St → Bytes → Bool → Nat → Nat → Except Nat (St × Nat)
  | 0, _, _, _, _, _ => .error St.UNKNOWN_ERROR
  | fuel + 1, s, b, hasSig, off, sigOff =>
    if b.isEmpty then .ok (s, sigOff)
    else match memRead b with
      | .error e => .error e
      | .ok h =>
        if hasSig then .error IF
        else
          let el : Elem := ⟨h.tag, h.nc, h.fwd, (b.drop h.hdrLen).take h.datLen⟩
          let n := h.hdrLen + h.datLen
          match step tm pv s el with
          | .error c => .error c
          | .ok s' => pubRun tm pv fuel s' (b.drop n) (h.tag = 0x704) (off + n) (if h.tag = 0x704 then off else sigOff)

/-- `KSI_PublicationsFile_parse`: the values and `signedDataLength` -/
def parsePubFile (c : Cfg) (raw : Bytes) : Except Nat (List (Nat × Val) × Nat) :=
  if raw.isEmpty then .error St.INVALID_ARGUMENT
  else if raw.take 8 != PUB_MAGIC then .error IF
  else
    let tm := lookup c.tabs "KSI_PublicationsFile"
    match pubRun tm (parseVal c.tabs c.derOK FUEL) (raw.length + 1) {} (raw.drop 8) false 0 0 with
    | .error e => .error e
    | .ok (s, sigOff) =>
      if finalCheck s tm 0 then .ok (keyed tm s.vals, 8 + sigOff) else .error IF

end KsiVerif.Template
