import KsiVerif.Gen.HaPredicates
/-!
# High-availability service: configuration consolidation (net_ha.c:240-617)

Each pushed configuration is a record of optional unsigned values.  The range predicates
are the **translated C functions** (`Gen.Ha.*`, regenerated from net_ha.c on every run), so
that an operator typed wrongly there is seen by the theorems, not only by a test.
-/
namespace KsiVerif.Ha
open KsiVerif

structure Conf where
  maxLevel : Option Nat := none
  aggrPeriod : Option Nat := none
  maxRequests : Option Nat := none
  calFirst : Option Nat := none
  calLast : Option Nat := none
deriving DecidableEq, Repr

/-- `KSI_Integer_getUInt64(NULL) = 0` -/
def val (o : Option Nat) : Nat := o.getD 0

/-- "the largest value should be taken": `KSI_Config_consolidateMaxLevel/MaxRequests/CalendarLastTime` -/
def consMax (valid : Nat → Bool) (ha resp : Option Nat) : Option Nat :=
  match resp with
  | none => ha
  | some r =>
    if r = 0 then ha
    else if !valid r then ha
    else match ha with              -- KSI_Integer_compare(haVal, respVal) < 0 ; NULL is smallest
      | none => some r
      | some h => if h < r then some r else some h

/-- "the smallest value should be taken": `KSI_Config_consolidateAggrPeriod/CalendarFirstTime` -/
def consMin (valid : Nat → Bool) (ha resp : Option Nat) : Option Nat :=
  match resp with
  | none => ha
  | some r =>
    if r = 0 then ha
    else if !valid r then ha
    else if val ha = 0 then some r        -- KSI_Integer_getUInt64(haVal) == 0
    else match ha with
      | none => some r
      | some h => if h > r then some r else some h

/-- `KSI_HighAvailabilityService_consolidateConfig`, numeric fields -/
def consolidate (ha resp : Conf) : Conf :=
  { maxLevel := consMax Gen.Ha.isMaxLevelValid ha.maxLevel resp.maxLevel
    aggrPeriod := consMin Gen.Ha.isAggrPeriodValid ha.aggrPeriod resp.aggrPeriod
    maxRequests := consMax Gen.Ha.isMaxRequestsValid ha.maxRequests resp.maxRequests
    calFirst := consMin Gen.Ha.isCalendarTimeValid ha.calFirst resp.calFirst
    calLast := consMax Gen.Ha.isCalendarTimeValid ha.calLast resp.calLast }

def consolidateAll (pushed : List Conf) : Conf := pushed.foldl consolidate {}

end KsiVerif.Ha

/-! ## request fan-out: first valid response wins (net_ha.c `handleReqResponse`, `handleErrorResponse`) -/
namespace KsiVerif.Ha

inductive ReqState where
  | waiting
  | error (e : Nat)
  | received
deriving DecidableEq, Repr

/-- what one sub-service delivers for its clone of the request -/
inductive Ev where
  | resp (origin : Nat)
  | err (origin : Nat) (e : Nat)
deriving DecidableEq, Repr

/-- what the HA service appends to its response queue -/
inductive Out where
  | response (origin : Nat)       -- the request handle, state RESPONSE_RECEIVED
  | failed (e : Nat)              -- the request handle, state ERROR
  | notice (e : Nat)              -- a separate error-notice handle
deriving DecidableEq, Repr

structure Req where
  state : ReqState
  expected : Nat
deriving DecidableEq, Repr

def step (r : Req) : Ev → Req × List Out
  | .resp o =>
    let exp := r.expected - 1
    match r.state with
    | .waiting => (⟨.received, exp⟩, [.response o])
    | .error e => (⟨.received, exp⟩, [.notice e, .response o])
    | .received => (⟨.received, exp⟩, [])
  | .err _ e' =>
    let exp := r.expected - 1
    match r.state with
    | .waiting => (⟨.error e', exp⟩, if exp = 0 then [.failed e'] else [])
    | .error e => (⟨.error e, exp⟩, .notice e' :: (if exp = 0 then [.failed e] else []))
    | .received => (⟨.received, exp⟩, [.notice e'])

def run : Req → List Ev → List Out
  | _, [] => []
  | r, ev :: evs => (step r ev).2 ++ run (step r ev).1 evs

/-- a request accepted by `n` endpoints -/
def start (n : Nat) : Req := ⟨.waiting, n⟩

end KsiVerif.Ha
