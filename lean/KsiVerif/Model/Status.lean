/-!
KSI status codes as the C integers (`enum KSI_StatusCode`, ksi.h).  The numeric values are
re-read from the current source by the table dumper and compared (Gen/Consts); the models
use the names below so that the executor's numeric status is compared exactly.
-/
namespace KsiVerif.St
def OK : Nat := 0
def INVALID_VERIFICATION_INPUT : Nat := 0x05
def INVALID_ARGUMENT : Nat := 0x100
def INVALID_FORMAT : Nat := 0x101
def UNTRUSTED_HASH_ALGORITHM : Nat := 0x102
def UNAVAILABLE_HASH_ALGORITHM : Nat := 0x103
def BUFFER_OVERFLOW : Nat := 0x104
def TLV_PAYLOAD_TYPE_MISMATCH : Nat := 0x105
def ASYNC_NOT_FINISHED : Nat := 0x106
def INVALID_SIGNATURE : Nat := 0x107
def INVALID_PKI_SIGNATURE : Nat := 0x108
def PKI_CERTIFICATE_NOT_TRUSTED : Nat := 0x109
def INVALID_STATE : Nat := 0x10a
def UNKNOWN_HASH_ALGORITHM_ID : Nat := 0x10b
def HASH_ALGORITHM_DEPRECATED : Nat := 0x10c
def HASH_ALGORITHM_OBSOLETE : Nat := 0x10d
def OUT_OF_MEMORY : Nat := 0x200
def IO_ERROR : Nat := 0x201
def NETWORK_ERROR : Nat := 0x202
def NETWORK_CONNECTION_TIMEOUT : Nat := 0x203
def NETWORK_SEND_TIMEOUT : Nat := 0x204
def NETWORK_RECIEVE_TIMEOUT : Nat := 0x205
def HTTP_ERROR : Nat := 0x206
def EXTEND_WRONG_CAL_CHAIN : Nat := 0x207
def UNKNOWN_ERROR : Nat := 0xffff
end KsiVerif.St
