import KsiVerif.Model.Tlv
/-!
# Asynchronous TCP transport (net_tcp_async.c `dispatch`, `closeSocket`, `openSocket`)

`dispatch` is a pure function of the client state and of an *environment script* for this one
call: what `poll`, each `recv`, each `send` and `connect` return, and the clock.  The server's
byte stream is a list from which `recv` takes its chunks.  Bytes accepted by `send` are logged
per connection (observation only).
-/
namespace KsiVerif.Tcp
open KsiVerif

/-- `KSI_TLV_MAX_SIZE` = 0xffff + 4 -/
def MAX : Nat := 0xffff + 4

def CONNECTION_CLOSED : Nat := 0x604

inductive ReqState where
  | dispatch                -- KSI_ASYNC_STATE_WAITING_FOR_DISPATCH
  | waitResponse            -- KSI_ASYNC_STATE_WAITING_FOR_RESPONSE
  | error (e : Nat)
  | received                -- KSI_ASYNC_STATE_RESPONSE_RECEIVED (set by the async layer)
  | other                   -- changed by the application layer
deriving DecidableEq, Repr

structure Req where
  raw : Bytes
  sent : Nat := 0
  state : ReqState := .dispatch
  reqTime : Nat := 0
  sndTime : Nat := 0
deriving Repr

structure Opts where
  conTimeout : Nat
  sndTimeout : Nat
  maxRequests : Nat
  roundDuration : Nat
deriving Repr

inductive RecvRes where
  | data (k : Nat)     -- up to k bytes of the server stream (≤ what was asked for)
  | wouldBlock
  | closed             -- recv returns 0
  | error              -- ECONNRESET …
deriving Repr

inductive SendRes where
  | accept (k : Nat)   -- the socket takes up to k bytes (k ≥ 1)
  | wouldBlock
  | error
deriving Repr

inductive PollRes where
  | timeout                           -- poll returns 0
  | error                             -- poll returns -1
  | ready (pin pout hup : Bool)
deriving Repr

structure Env where
  poll : PollRes
  recvs : List RecvRes
  sends : List SendRes
  connectOk : Bool
  now : Nat
deriving Repr

structure State where
  sockOpen : Bool := false
  ready : Bool := false
  connectedAt : Nat := 0
  inBuf : Bytes := []
  /-- all request handles ever queued (index = handle id) -/
  reqs : List Req := []
  /-- ids waiting in the output queue, head first -/
  queue : List Nat := []
  respQueue : List Bytes := []
  roundStartAt : Nat := 0
  roundCount : Nat := 0
  /-- bytes accepted by `send`, one entry per connection, newest last (observation) -/
  conns : List Bytes := []
  /-- server bytes not yet handed to `recv` (observation / environment) -/
  stream : Bytes := []
deriving Repr

def State.setReq (s : State) (id : Nat) (f : Req → Req) : State :=
  { s with reqs := s.reqs.mapIdx fun i r => if i = id then f r else r }

def State.getReq (s : State) (id : Nat) : Req := s.reqs.getD id { raw := [] }

/-- `addToSendQueue` -/
def enqueue (s : State) (raw : Bytes) (now : Nat) : State :=
  { s with reqs := s.reqs ++ [{ raw := raw, reqTime := now }], queue := s.queue ++ [s.reqs.length] }

/-- `closeSocket`: also forgets the input buffer; a partially sent head request starts over on
the next connection -/
def closeSocket (s : State) : State :=
  let s := { s with sockOpen := false, ready := false, inBuf := [] }
  match s.queue with
  | [] => s
  | h :: _ => s.setReq h fun r => { r with sent := 0 }

/-- `reqQueue_clearWithError` -/
def clearQueue (s : State) (e : Nat) : State :=
  let s' := s.queue.foldl (fun acc id => acc.setReq id fun r => { r with state := .error e }) s
  { s' with queue := [] }

/-- the `while (inLen > 0)` extraction loop: move every complete TLV to the response queue -/
def extract (buf : Bytes) : List Bytes × Bytes :=
  if h0 : buf.isEmpty then ([], buf)
  else
    match hm : Tlv.memRead buf with
    | .error _ => ([], buf)                 -- header or payload not complete yet
    | .ok h =>
      let n := h.hdrLen + h.datLen
      let (ps, rest) := extract (buf.drop n)
      (buf.take n :: ps, rest)
termination_by buf.length
decreasing_by
  have ⟨hp, hl⟩ := Tlv.memRead_ok hm
  have := Tlv.parseHdr_hdrLen hp
  simp only [List.length_drop]
  have : 0 < buf.length := by
    cases buf with
    | nil => simp at h0
    | cons _ _ => simp
  omega

inductive InRes where
  | ok
  | closed
deriving DecidableEq

/-- the `do … while (!inputProcessed)` loop; `fuel` bounds the script -/
def inputLoop : Nat → Bool → List RecvRes → State → State × InRes
  | 0, _, _, s => (s, .ok)
  | fuel + 1, pollin, recvs, s =>
    if pollin then
      -- read only while a maximum-size PDU still fits
      if s.inBuf.length + MAX ≤ 2 * MAX then
        let (r, rest) := match recvs with
          | [] => (RecvRes.wouldBlock, [])
          | r :: rest => (r, rest)
        match r with
        | .closed => (closeSocket s, .closed)
        | .error => (closeSocket s, .closed)
        | .wouldBlock =>
          let (ps, buf) := extract s.inBuf
          ({ s with inBuf := buf, respQueue := s.respQueue ++ ps }, .ok)
        | .data k =>
          let c := min (min k MAX) s.stream.length
          if c = 0 then     -- nothing to deliver: the simulated socket reports would-block
            let (ps, buf) := extract s.inBuf
            ({ s with inBuf := buf, respQueue := s.respQueue ++ ps }, .ok)
          else
            let (ps, buf) := extract (s.inBuf ++ s.stream.take c)
            inputLoop fuel pollin rest { s with inBuf := buf, stream := s.stream.drop c, respQueue := s.respQueue ++ ps }
      else
        let (ps, buf) := extract s.inBuf
        ({ s with inBuf := buf, respQueue := s.respQueue ++ ps }, .ok)
    else
      let (ps, buf) := extract s.inBuf
      ({ s with inBuf := buf, respQueue := s.respQueue ++ ps }, .ok)

def logSent (s : State) (bytes : Bytes) : State :=
  match s.conns.reverse with
  | [] => { s with conns := [bytes] }
  | last :: before => { s with conns := (before.reverse) ++ [last ++ bytes] }

inductive OutRes where
  | done
  | blocked
  | closed
deriving DecidableEq

/-- the inner `while (req->sentCount < req->len)` send loop for the head request -/
def sendLoop : Nat → List SendRes → State → Nat → State × List SendRes × OutRes
  | 0, sends, s, _ => (s, sends, .done)
  | fuel + 1, sends, s, id =>
    let r := s.getReq id
    if r.sent < r.raw.length then
      let (x, rest) := match sends with
        | [] => (SendRes.accept (r.raw.length - r.sent), [])
        | x :: rest => (x, rest)
      match x with
      | .wouldBlock => (s, rest, .blocked)
      | .error => (closeSocket s, rest, .closed)
      | .accept k =>
        let c := min (max k 1) (r.raw.length - r.sent)
        let s := logSent s ((r.raw.drop r.sent).take c)
        sendLoop fuel rest (s.setReq id fun q => { q with sent := q.sent + c }) id
    else (s, sends, .done)

/-- "check if the request count can be restarted" -/
def roundReset (o : Opts) (now : Nat) (s : State) : State :=
  if now - s.roundStartAt ≥ o.roundDuration then { s with roundCount := 0, roundStartAt := now } else s

/-- what happens to the head request `id` once it may be sent -/
def sendHead (o : Opts) (now : Nat) (sends : List SendRes) (s : State) (id : Nat) (restQ : List Nat) :
    State × List SendRes × OutRes :=
  let r := s.getReq id
  let (s, sends, res) := sendLoop (r.raw.length + sends.length + 1) sends s id
  match res with
  | .blocked => (s, sends, .blocked)
  | .closed => (s, sends, .closed)
  | .done =>
    ({ s with roundCount := s.roundCount + 1, queue := restQ }.setReq id fun q =>
      { q with raw := [], sent := 0, state := .waitResponse, sndTime := now }, sends, .done)

/-- the `while (reqQueue not empty)` output loop -/
def outputLoop (o : Opts) (now : Nat) : Nat → List SendRes → State → State × OutRes
  | 0, _, s => (s, .done)
  | fuel + 1, sends, s =>
    match s.queue with
    | [] => (s, .done)
    | id :: restQ =>
      let s := roundReset o now s
      if ¬ (s.roundCount < o.maxRequests) then (s, .done)
      else
        let r := s.getReq id
        if r.state ≠ .dispatch then outputLoop o now fuel sends { s with queue := restQ }
        else if o.sndTimeout = 0 ∨ now - r.reqTime > o.sndTimeout then
          outputLoop o now fuel sends
            ({ s with queue := restQ }.setReq id fun q => { q with state := .error St.NETWORK_SEND_TIMEOUT })
        else
          match sendHead o now sends s id restQ with
          | (s, _, .blocked) => (s, .blocked)
          | (s, _, .closed) => (s, .closed)
          | (s, sends, .done) => outputLoop o now fuel sends s

/-- `dispatch(tcpCtx)`; returns the new state and the status code -/
def dispatch (o : Opts) (e : Env) (s : State) : State × Nat :=
  -- check connection
  let opened : Option State :=
    if s.sockOpen then some s
    else if s.queue.isEmpty then none
    else if e.connectOk then some { s with sockOpen := true, connectedAt := e.now, conns := s.conns ++ [[]] }
    else none
  match opened with
  | none =>
    if s.sockOpen ∨ s.queue.isEmpty then (s, 0)
    else (closeSocket (clearQueue s St.NETWORK_ERROR), 0)       -- openSocket failed
  | some s =>
    match e.poll with
    | .timeout =>
      if !s.ready ∧ (o.conTimeout = 0 ∨ e.now - s.connectedAt > o.conTimeout) then
        (clearQueue (closeSocket s) St.NETWORK_CONNECTION_TIMEOUT, 0)
      else (s, 0)
    | .error => (closeSocket s, CONNECTION_CLOSED)
    | .ready pin pout hup =>
      let hs : Option State :=
        if !s.ready then (if hup then none else some { s with ready := true }) else some s
      match hs with
      | none => (closeSocket (clearQueue s St.NETWORK_ERROR), CONNECTION_CLOSED)
      | some s =>
        let (s, ir) := inputLoop (e.recvs.length + 2) pin e.recvs s
        if ir = .closed then (s, CONNECTION_CLOSED)
        else if !pout then (s, 0)
        else
          let (s, orr) := outputLoop o e.now (s.queue.length + 1) e.sends s
          match orr with
          | .closed => (s, CONNECTION_CLOSED)
          | _ => (s, 0)

end KsiVerif.Tcp

/-! ## blocking client (net_tcp.c `readResponse`, io.c `KSI_IO_readSocket`, fast_tlv.c `readData`) -/
namespace KsiVerif.Tcp
open KsiVerif

inductive BRecv where
  | data (k : Nat)
  | closed
  | timeout
  | error
deriving Repr

/-- `KSI_IO_readSocket(fd, buf, n, &count)`: loops on `recv` until `n` bytes have arrived -/
def readSock : Nat → Nat → List BRecv → Bytes → Except Nat (Bytes × List BRecv × Bytes)
  | 0, _, script, stream => .ok ([], script, stream)
  | _, 0, script, stream => .ok ([], script, stream)
  | fuel + 1, n + 1, script, stream =>
    let (item, rest) := match script with
      | [] => (BRecv.data (n + 1), [])
      | x :: r => (x, r)
    match item with
    | .closed => .error St.NETWORK_ERROR
    | .timeout => .error St.NETWORK_RECIEVE_TIMEOUT
    | .error => .error St.IO_ERROR
    | .data k =>
      let c := min (min (max k 1) (n + 1)) stream.length
      if c = 0 then .error St.NETWORK_ERROR          -- nothing more to come: orderly close
      else match readSock fuel (n + 1 - c) rest (stream.drop c) with
        | .error e => .error e
        | .ok (more, r, s) => .ok (stream.take c ++ more, r, s)

/-- `KSI_FTLV_socketRead` into a buffer large enough for any element -/
def readElement (script : List BRecv) (stream : Bytes) : Except Nat Bytes :=
  match readSock 3 2 script stream with
  | .error e => .error e
  | .ok (h2, script, stream) =>
    let more : Except Nat (Bytes × List BRecv × Bytes) :=
      if (h2.headD 0).toNat ≥ 128 then readSock 3 2 script stream else .ok ([], script, stream)
    match more with
    | .error e => .error e
    | .ok (h4, script, stream) =>
      match Tlv.parseHdr (h2 ++ h4) with
      | .error e => .error e
      | .ok hd =>
        if hd.datLen = 0 then .ok (h2 ++ h4)
        else match readSock (hd.datLen + 1) hd.datLen script stream with
          | .error e => .error e
          | .ok (d, _, _) => .ok (h2 ++ h4 ++ d)

/-- the send loop of `readResponse`: returns what reached the wire and whether it failed -/
def blockingSend : Nat → Bytes → List SendRes → Bytes × Bool
  | 0, _, _ => ([], true)
  | _, [], _ => ([], true)
  | fuel + 1, req, script =>
    let (item, rest) := match script with
      | [] => (SendRes.accept req.length, [])
      | x :: r => (x, r)
    match item with
    | .error => ([], false)
    | .wouldBlock => ([], false)
    | .accept k =>
      let c := min (max k 1) req.length
      let (w, ok) := blockingSend fuel (req.drop c) rest
      (req.take c ++ w, ok)

/-- `readResponse(handle)`: status, bytes written, response -/
def blockingExchange (req : Bytes) (sends : List SendRes) (stream : Bytes) (recvs : List BRecv) (connectOk : Bool) :
    Nat × Bytes × Option Bytes :=
  if !connectOk then (St.NETWORK_ERROR, [], none)
  else
    let (wire, ok) := blockingSend (req.length + 1) req sends
    if !ok then (St.NETWORK_ERROR, wire, none)
    else match readElement recvs stream with
      | .error e => (e, wire, none)
      | .ok r => (0, wire, some r)

end KsiVerif.Tcp
