import KsiVerif.Util.Hex
import KsiVerif.Model.Status
import KsiVerif.Gen.Uri
/-!
# Service URIs: http_parser.c `http_parser_parse_url`, net.c `uriSplit` / `uriCompose` /
`getClientByUriScheme`, net_uri.c `uriClient_setService`, net_async.c `asyncService_setupAsyncClient`

The URL automaton is transcribed state by state (`parseUrlChar` = `parse_url_char`, `hostChar` =
`http_parse_host_char`); strings are byte lists (C strings without their NUL).  The bit table
`normal_url_char` and the scheme map are generated from the current source (`KsiVerif.Gen.Uri`).
-/
namespace KsiVerif.Uri
open KsiVerif

/-! ## character classes (http_parser.c macros, strict mode) -/

/-- the classes on the octet value (`n = c` as unsigned char) -/
def lowerN (n : Nat) : Nat := n ||| 0x20                             -- (unsigned char)(c | 0x20)
def isAlphaN (n : Nat) : Bool := decide (97 ≤ lowerN n ∧ lowerN n ≤ 122)
def isNumN (n : Nat) : Bool := decide (48 ≤ n ∧ n ≤ 57)
def isAlphaNumN (n : Nat) : Bool := isAlphaN n || isNumN n
def isHexN (n : Nat) : Bool := isNumN n || decide (97 ≤ lowerN n ∧ lowerN n ≤ 102)
/-- `- _ . ! ~ * ' ( )` -/
def isMarkN (n : Nat) : Bool := [45, 95, 46, 33, 126, 42, 39, 40, 41].contains n
/-- … `% ; : & = + $ ,` -/
def isUserinfoCharN (n : Nat) : Bool := isAlphaNumN n || isMarkN n || [37, 59, 58, 38, 61, 43, 36, 44].contains n
def isSchemeCharN (n : Nat) : Bool := isAlphaNumN n || [43, 45, 46].contains n
/-- `BIT_AT(normal_url_char, c)`, and octets >= 0x80 in the lenient build -/
def isUrlCharN (n : Nat) : Bool :=
  (Gen.normalUrlChar.getD (n / 8) 0) / 2 ^ (n % 8) % 2 == 1 || (!Gen.urlStrict && decide (n ≥ 0x80))
def isHostCharN (n : Nat) : Bool := isAlphaNumN n || n == 46 || n == 45 || (!Gen.urlStrict && n == 95)

def isAlpha (c : UInt8) : Bool := isAlphaN c.toNat
def isNum (c : UInt8) : Bool := isNumN c.toNat
def isHex (c : UInt8) : Bool := isHexN c.toNat
def isUserinfoChar (c : UInt8) : Bool := isUserinfoCharN c.toNat
def isSchemeChar (c : UInt8) : Bool := isSchemeCharN c.toNat
def isUrlChar (c : UInt8) : Bool := isUrlCharN c.toNat
def isHostChar (c : UInt8) : Bool := isHostCharN c.toNat

/-! ## `parse_url_char` -/

inductive S where
  | dead | spacesBeforeUrl | schema | schemaSlash | schemaSlashSlash | serverStart | server | serverWithAt
  | path | queryStart | query | fragmentStart | fragment
deriving Repr, DecidableEq

def serverCharN (n : Nat) : S :=
  if n = 47 then .path                    -- '/'
  else if n = 63 then .queryStart         -- '?'
  else if n = 64 then .serverWithAt       -- '@'
  else if isUserinfoCharN n || n == 91 || n == 93 then .server
  else .dead

def parseUrlCharN (s : S) (n : Nat) : S :=
  if n = 32 ∨ n = 13 ∨ n = 10 ∨ (Gen.urlStrict = true ∧ (n = 9 ∨ n = 12)) then .dead
  else match s with
    | .spacesBeforeUrl =>
      if n = 47 ∨ n = 42 then .path else if isAlphaN n then .schema else .dead
    | .schema => if isSchemeCharN n then .schema else if n = 58 then .schemaSlash else .dead
    | .schemaSlash => if n = 47 then .schemaSlashSlash else .dead
    | .schemaSlashSlash => if n = 47 then .serverStart else .dead
    | .serverWithAt => if n = 64 then .dead else serverCharN n
    | .serverStart | .server => serverCharN n
    | .path =>
      if isUrlCharN n then .path else if n = 63 then .queryStart else if n = 35 then .fragmentStart else .dead
    | .queryStart | .query =>
      if isUrlCharN n then .query else if n = 63 then .query else if n = 35 then .fragmentStart else .dead
    | .fragmentStart =>
      if isUrlCharN n then .fragment else if n = 63 then .fragment else if n = 35 then .fragmentStart else .dead
    | .fragment =>
      if isUrlCharN n then .fragment else if n = 63 ∨ n = 35 then .fragment else .dead
    | .dead => .dead

def parseUrlChar (s : S) (ch : UInt8) : S := parseUrlCharN s ch.toNat

/-! ## `struct http_parser_url` -/

structure Fld where
  off : Nat := 0
  len : Nat := 0
deriving Repr, DecidableEq

inductive UF where
  | schema | host | port | path | query | fragment | userinfo
deriving Repr, DecidableEq

structure Url where
  hasSchema : Bool := false
  hasHost : Bool := false
  hasPort : Bool := false
  hasPath : Bool := false
  hasQuery : Bool := false
  hasFragment : Bool := false
  hasUserinfo : Bool := false
  schema : Fld := {}
  host : Fld := {}
  portF : Fld := {}
  path : Fld := {}
  query : Fld := {}
  fragment : Fld := {}
  userinfo : Fld := {}
  port : Nat := 0
deriving Repr, DecidableEq

def Url.get (u : Url) : UF → Fld
  | .schema => u.schema | .host => u.host | .port => u.portF | .path => u.path
  | .query => u.query | .fragment => u.fragment | .userinfo => u.userinfo

/-- `field_data[uf] = f; field_set |= 1 << uf` -/
def Url.put (u : Url) (uf : UF) (f : Fld) : Url :=
  match uf with
  | .schema => { u with schema := f, hasSchema := true }
  | .host => { u with host := f, hasHost := true }
  | .port => { u with portF := f, hasPort := true }
  | .path => { u with path := f, hasPath := true }
  | .query => { u with query := f, hasQuery := true }
  | .fragment => { u with fragment := f, hasFragment := true }
  | .userinfo => { u with userinfo := f, hasUserinfo := true }

/-- the character loop of `http_parser_parse_url`; `none` = `return 1` -/
structure Loop where
  s : S := .spacesBeforeUrl
  oldUf : Option UF := none
  foundAt : Bool := false
  u : Url := {}
deriving Repr

/-- `field_data[].off` and `.len` are `uint16_t` -/
def w16 (n : Nat) : Nat := n % 65536

def field (l : Loop) (p : Nat) (uf : UF) (s : S) (at_ : Bool) : Loop :=
  if l.oldUf = some uf then
    { l with s := s, foundAt := l.foundAt || at_, u := l.u.put uf { (l.u.get uf) with len := w16 ((l.u.get uf).len + 1) } }
  else
    { s := s, oldUf := some uf, foundAt := l.foundAt || at_, u := l.u.put uf ⟨w16 p, 1⟩ }

def urlStep (l : Loop) (p : Nat) (ch : UInt8) : Option Loop :=
  match parseUrlChar l.s ch with
  | .dead => none
  | .schemaSlash => some { l with s := .schemaSlash }
  | .schemaSlashSlash => some { l with s := .schemaSlashSlash }
  | .serverStart => some { l with s := .serverStart }
  | .queryStart => some { l with s := .queryStart }
  | .fragmentStart => some { l with s := .fragmentStart }
  | .schema => some (field l p .schema .schema false)
  | .serverWithAt => some (field l p .host .serverWithAt true)
  | .server => some (field l p .host .server false)
  | .path => some (field l p .path .path false)
  | .query => some (field l p .query .query false)
  | .fragment => some (field l p .fragment .fragment false)
  | .spacesBeforeUrl => none

def urlLoop : Loop → Nat → Bytes → Option Loop
  | l, _, [] => some l
  | l, p, ch :: rest =>
    match urlStep l p ch with
    | none => none
    | some l' => urlLoop l' (p + 1) rest

/-! ## `http_parse_host` -/

inductive HS where
  | dead | userinfoStart | userinfo | hostStart | v6Start | host | v6 | v6End | portStart | port
deriving Repr, DecidableEq

def hostCharN (s : HS) (n : Nat) : HS :=
  let afterHost : HS := if n = 58 then .portStart else .dead
  let v6Body : HS := if isHexN n || n == 58 || n == 46 then .v6 else .dead
  match s with
  | .userinfo | .userinfoStart => if n = 64 then .hostStart else if isUserinfoCharN n then .userinfo else .dead
  | .hostStart => if n = 91 then .v6Start else if isHostCharN n then .host else .dead
  | .host => if isHostCharN n then .host else afterHost
  | .v6End => afterHost
  | .v6 => if n = 93 then .v6End else v6Body
  | .v6Start => v6Body
  | .port | .portStart => if isNumN n then .port else .dead
  | .dead => .dead

def hostChar (s : HS) (ch : UInt8) : HS := hostCharN s ch.toNat

/-- the loop of `http_parse_host` over the server part; its verdict is ignored by the caller, so
what matters is the field data at the point where it stops -/
def hostLoop : Url → HS → Nat → Bytes → Url
  | u, _, _, [] => u
  | u, s, p, ch :: rest =>
    let ns := hostChar s ch
    if ns = .dead then u
    else
      let bump (uf : UF) (fresh : Bool) (u : Url) : Url :=
        if fresh then u.put uf ⟨w16 p, 1⟩ else u.put uf { (u.get uf) with len := w16 ((u.get uf).len + 1) }
      let u' :=
        match ns with
        | .host => { u with host := if s ≠ .host then ⟨w16 p, w16 (u.host.len + 1)⟩ else ⟨u.host.off, w16 (u.host.len + 1)⟩ }
        | .v6 => { u with host := if s ≠ .v6 then ⟨w16 p, w16 (u.host.len + 1)⟩ else ⟨u.host.off, w16 (u.host.len + 1)⟩ }
        | .port => bump .port (s ≠ .port) u
        | .userinfo => bump .userinfo (s ≠ .userinfo) u
        | _ => u
      hostLoop u' ns (p + 1) rest

/-- `strtoul(buf + off, NULL, 10)` on a digit run -/
def digitsVal : Nat → Bytes → Nat
  | acc, [] => acc
  | acc, c :: cs => if isNum c then digitsVal (acc * 10 + (c.toNat - 48)) cs else acc

/-- `http_parser_parse_url(buf, buflen, 0, &u)`; `none` = non-zero return -/
def parseUrl (b : Bytes) : Option Url :=
  match urlLoop {} 0 b with
  | none => none
  | some l =>
    let u := l.u
    -- a scheme needs a host, except for the exact field set {scheme, path}
    if u.hasSchema && !(u.hasPath && !u.hasHost && !u.hasQuery && !u.hasFragment) && !u.hasHost then none
    else
      let u :=
        if u.hasSchema && u.hasHost then
          hostLoop { u with host := ⟨u.host.off, 0⟩ } (if l.foundAt then .userinfoStart else .hostStart) u.host.off
            ((b.drop u.host.off).take u.host.len)
        else u
      if u.hasPort then
        let v := digitsVal 0 (b.drop u.portF.off)
        if v > 0xffff then none else some { u with port := v }
      else some u

/-! ## net.c -/

structure Parts where
  scheme : Option Bytes := none
  user : Option Bytes := none
  pass : Option Bytes := none
  host : Option Bytes := none
  port : Nat := 0
  path : Option Bytes := none
  query : Option Bytes := none
  fragment : Option Bytes := none
deriving Repr, DecidableEq

def sub (b : Bytes) (f : Fld) : Bytes := (b.drop f.off).take f.len

/-- `uriSplit(uri, &scheme, &user, &pass, &host, &port, &path, &query, &fragment)`; `wantUser` is
false for `KSI_UriSplitBasic`, which passes no user / pass pointers -/
def uriSplit (uri : Bytes) (wantUser : Bool := true) : Except Nat Parts :=
  match parseUrl uri with
  | none => .error St.INVALID_FORMAT
  | some u =>
    let ui : Except Nat (Option Bytes × Option Bytes) :=
      if u.hasUserinfo && wantUser then
        let info := sub uri u.userinfo
        if info.contains 58 then .ok (some (info.takeWhile (· != 58)), some ((info.dropWhile (· != 58)).drop 1))
        else .error St.INVALID_FORMAT
      else .ok (none, none)
    match ui with
    | .error e => .error e
    | .ok (user, pass) =>
      .ok { scheme := if u.hasSchema then some (sub uri u.schema) else none, user := user, pass := pass,
            host := if u.hasHost then some (sub uri u.host) else none, port := u.port,
            path := if u.hasPath then some (sub uri u.path) else none,
            query := if u.hasQuery then some (sub uri u.query) else none,
            fragment := if u.hasFragment then some (sub uri u.fragment) else none }

def str (s : String) : Bytes := s.toUTF8.toList

/-- `%d` of a non-negative number -/
def decimal (n : Nat) : Bytes :=
  if h : n < 10 then [UInt8.ofNat (48 + n)] else decimal (n / 10) ++ [UInt8.ofNat (48 + n % 10)]
termination_by n
decreasing_by omega

/-- `uriCompose(scheme, NULL, NULL, host, port, path, query, fragment, buf, 0xffff)`: a chain of
`snprintf`s into a 65535-byte buffer, i.e. the first 65534 bytes of the concatenation -/
def hostText (host : Option Bytes) : Bytes :=
  match host with | some h => if h.contains 58 then [91] ++ h ++ [93] else h | none => []
def portText (port : Nat) : Bytes := if port ≠ 0 then [58] ++ decimal port else []
def pathText (path : Option Bytes) : Bytes :=
  match path with | some p => (if p.head? = some 47 then [] else [47]) ++ p | none => []
def optText (d : UInt8) (q : Option Bytes) : Bytes := match q with | some q => [d] ++ q | none => []

/-- the concatenation the `snprintf` chain of `uriCompose` aims at -/
def uriComposeFull (scheme host : Option Bytes) (port : Nat) (path query fragment : Option Bytes) : Bytes :=
  (match scheme with | some s => s ++ [58, 47, 47] | none => []) ++ hostText host ++ portText port ++ pathText path ++
    optText 63 query ++ optText 35 fragment

def uriCompose (scheme host : Option Bytes) (port : Nat) (path query fragment : Option Bytes) : Bytes :=
  (uriComposeFull scheme host port path query fragment).take 0xfffe

def toLower (c : UInt8) : UInt8 := if 65 ≤ c.toNat ∧ c.toNat ≤ 90 then UInt8.ofNat (c.toNat + 32) else c

inductive Client where
  | http | tcp | file | unknown
deriving Repr, DecidableEq

def clientOf (name : String) : Client :=
  if name == "URI_HTTP" then .http else if name == "URI_TCP" then .tcp else if name == "URI_FILE" then .file else .unknown

/-- `getClientByUriScheme(scheme, &replace)` over the generated scheme map (`strcasecmp`) -/
def clientByScheme (scheme : Option Bytes) : Client × Option Bytes :=
  match scheme with
  | none => (.unknown, none)
  | some s =>
    match Gen.schemeMap.find? (fun r => r.1.map toLower == s.map toLower) with
    | some (_, rep, cl) => (clientOf cl, rep)
    | none => (.unknown, none)

/-- what reaches a transport -/
inductive Target where
  | http (url : Bytes) (user key : Option Bytes)
  | tcp (host : Bytes) (port : Nat) (user key : Option Bytes)
  | file (path : Bytes) (user key : Option Bytes)
  | refused (status : Nat)
deriving Repr, DecidableEq

/-- status returned by the transport's setter: the HTTP and TCP clients insist on a login id and a key -/
def Target.status : Target → Nat
  | .http _ u k => if u.isNone || k.isNone then St.INVALID_ARGUMENT else 0
  | .tcp _ _ u k => if u.isNone || k.isNone then St.INVALID_ARGUMENT else 0
  | .file _ _ _ => 0
  | .refused st => st

def orElse (a b : Option Bytes) : Option Bytes := match a with | some x => some x | none => b

/-- net_uri.c `uriClient_setService(client, uri, loginId, key, …)` (blocking service) -/
def setService (uri : Bytes) (loginId key : Option Bytes) : Target :=
  let (ok, p) : Bool × Parts := match uriSplit uri with | .ok p => (true, p) | .error _ => (false, {})
  let (c, rep) := clientByScheme p.scheme
  let scheme := orElse rep p.scheme
  match c with
  | .http =>
    .http (if ok then uriCompose scheme p.host p.port p.path p.query p.fragment else uri) (orElse loginId p.user) (orElse key p.pass)
  | .unknown => .http uri loginId key
  | .tcp =>
    match p.host with
    | some h => if p.port = 0 then .refused St.INVALID_ARGUMENT else .tcp h p.port (orElse loginId p.user) (orElse key p.pass)
    | none => .refused St.INVALID_ARGUMENT
  | .file =>
    -- net_file.c `KSI_FsClient_extractPath`: everything after "file://" (7 bytes; the scheme matched without regard to case)
    .file (uri.drop 7) loginId key

/-- net_async.c `asyncService_setupAsyncClient` -/
def setEndpointAsync (uri : Bytes) (loginId key : Option Bytes) : Target :=
  let (_, p) : Bool × Parts := match uriSplit uri with | .ok p => (true, p) | .error _ => (false, {})
  let (c, rep) := clientByScheme p.scheme
  let scheme := orElse rep p.scheme
  match c with
  | .tcp =>
    match p.host with
    | some h => if p.port = 0 then .refused St.INVALID_ARGUMENT else .tcp h p.port (orElse loginId p.user) (orElse key p.pass)
    | none => .refused St.INVALID_ARGUMENT
  | .http =>
    let addr := uriCompose scheme p.host p.port p.path p.query p.fragment
    .http (if addr.isEmpty then uri else addr) (orElse loginId p.user) (orElse key p.pass)
  | _ => .refused St.INVALID_FORMAT

end KsiVerif.Uri
