import KsiVerif.Util.Hex
/-!
# Executable SHA-1 / SHA-256 / SHA-384 / SHA-512 for the model drivers

Used only to *run* models against the implementation (the OpenSSL build of libksi supports
SHA-1, RIPEMD-160 and SHA2-256/384/512).  Nothing is proved from these definitions: in
theorems the hash function is a parameter.  Validated against `KSI_DataHash_create` by the
correspondence run of C03 (padding boundaries included).
-/
namespace KsiVerif.Sha
open KsiVerif

def rotr32 (x : UInt32) (n : UInt32) : UInt32 := (x >>> n) ||| (x <<< (32 - n))
def rotl32 (x : UInt32) (n : UInt32) : UInt32 := (x <<< n) ||| (x >>> (32 - n))
def rotr64 (x : UInt64) (n : UInt64) : UInt64 := (x >>> n) ||| (x <<< (64 - n))

def be32 (a b c d : UInt8) : UInt32 :=
  (a.toUInt32 <<< 24) ||| (b.toUInt32 <<< 16) ||| (c.toUInt32 <<< 8) ||| d.toUInt32

def be64 (bs : Array UInt8) (i : Nat) : UInt64 := Id.run do
  let mut r : UInt64 := 0
  for j in [0:8] do
    r := (r <<< 8) ||| (bs[i + j]!).toUInt64
  return r

def bytesOf32 (x : UInt32) : List UInt8 :=
  [(x >>> 24).toUInt8, (x >>> 16).toUInt8, (x >>> 8).toUInt8, x.toUInt8]

def bytesOf64 (x : UInt64) : List UInt8 :=
  [(x >>> 56).toUInt8, (x >>> 48).toUInt8, (x >>> 40).toUInt8, (x >>> 32).toUInt8,
   (x >>> 24).toUInt8, (x >>> 16).toUInt8, (x >>> 8).toUInt8, x.toUInt8]

/-- message ‖ 0x80 ‖ 0… ‖ bit length (lenBytes wide), total a multiple of `block` -/
def pad (msg : Array UInt8) (block lenBytes : Nat) : Array UInt8 := Id.run do
  let bitLen := msg.size * 8
  let mut m := msg.push 0x80
  while (m.size + lenBytes) % block != 0 do
    m := m.push 0
  for j in [0:lenBytes] do
    let sh := 8 * (lenBytes - 1 - j)
    m := m.push (UInt8.ofNat ((bitLen >>> sh) % 256))
  return m

/-! ## SHA-256 -/

def k256 : Array UInt32 := #[
  0x428a2f98, 0x71374491, 0xb5c0fbcf, 0xe9b5dba5, 0x3956c25b, 0x59f111f1, 0x923f82a4, 0xab1c5ed5,
  0xd807aa98, 0x12835b01, 0x243185be, 0x550c7dc3, 0x72be5d74, 0x80deb1fe, 0x9bdc06a7, 0xc19bf174,
  0xe49b69c1, 0xefbe4786, 0x0fc19dc6, 0x240ca1cc, 0x2de92c6f, 0x4a7484aa, 0x5cb0a9dc, 0x76f988da,
  0x983e5152, 0xa831c66d, 0xb00327c8, 0xbf597fc7, 0xc6e00bf3, 0xd5a79147, 0x06ca6351, 0x14292967,
  0x27b70a85, 0x2e1b2138, 0x4d2c6dfc, 0x53380d13, 0x650a7354, 0x766a0abb, 0x81c2c92e, 0x92722c85,
  0xa2bfe8a1, 0xa81a664b, 0xc24b8b70, 0xc76c51a3, 0xd192e819, 0xd6990624, 0xf40e3585, 0x106aa070,
  0x19a4c116, 0x1e376c08, 0x2748774c, 0x34b0bcb5, 0x391c0cb3, 0x4ed8aa4a, 0x5b9cca4f, 0x682e6ff3,
  0x748f82ee, 0x78a5636f, 0x84c87814, 0x8cc70208, 0x90befffa, 0xa4506ceb, 0xbef9a3f7, 0xc67178f2]

def sha256 (msg : List UInt8) : List UInt8 := Id.run do
  let m := pad msg.toArray 64 8
  let mut h : Array UInt32 := #[0x6a09e667, 0xbb67ae85, 0x3c6ef372, 0xa54ff53a,
                                 0x510e527f, 0x9b05688c, 0x1f83d9ab, 0x5be0cd19]
  for blk in [0:m.size / 64] do
    let mut w : Array UInt32 := Array.replicate 64 0
    for t in [0:16] do
      let i := blk * 64 + t * 4
      w := w.set! t (be32 m[i]! m[i+1]! m[i+2]! m[i+3]!)
    for t in [16:64] do
      let s0 := rotr32 w[t-15]! 7 ^^^ rotr32 w[t-15]! 18 ^^^ (w[t-15]! >>> 3)
      let s1 := rotr32 w[t-2]! 17 ^^^ rotr32 w[t-2]! 19 ^^^ (w[t-2]! >>> 10)
      w := w.set! t (w[t-16]! + s0 + w[t-7]! + s1)
    let mut a := h[0]!; let mut b := h[1]!; let mut c := h[2]!; let mut d := h[3]!
    let mut e := h[4]!; let mut f := h[5]!; let mut g := h[6]!; let mut hh := h[7]!
    for t in [0:64] do
      let s1 := rotr32 e 6 ^^^ rotr32 e 11 ^^^ rotr32 e 25
      let ch := (e &&& f) ^^^ ((~~~ e) &&& g)
      let t1 := hh + s1 + ch + k256[t]! + w[t]!
      let s0 := rotr32 a 2 ^^^ rotr32 a 13 ^^^ rotr32 a 22
      let mj := (a &&& b) ^^^ (a &&& c) ^^^ (b &&& c)
      let t2 := s0 + mj
      hh := g; g := f; f := e; e := d + t1; d := c; c := b; b := a; a := t1 + t2
    h := #[h[0]! + a, h[1]! + b, h[2]! + c, h[3]! + d, h[4]! + e, h[5]! + f, h[6]! + g, h[7]! + hh]
  return (h.toList.map bytesOf32).flatten

/-! ## SHA-512 / SHA-384 -/

def k512 : Array UInt64 := #[
  0x428a2f98d728ae22, 0x7137449123ef65cd, 0xb5c0fbcfec4d3b2f, 0xe9b5dba58189dbbc, 0x3956c25bf348b538,
  0x59f111f1b605d019, 0x923f82a4af194f9b, 0xab1c5ed5da6d8118, 0xd807aa98a3030242, 0x12835b0145706fbe,
  0x243185be4ee4b28c, 0x550c7dc3d5ffb4e2, 0x72be5d74f27b896f, 0x80deb1fe3b1696b1, 0x9bdc06a725c71235,
  0xc19bf174cf692694, 0xe49b69c19ef14ad2, 0xefbe4786384f25e3, 0x0fc19dc68b8cd5b5, 0x240ca1cc77ac9c65,
  0x2de92c6f592b0275, 0x4a7484aa6ea6e483, 0x5cb0a9dcbd41fbd4, 0x76f988da831153b5, 0x983e5152ee66dfab,
  0xa831c66d2db43210, 0xb00327c898fb213f, 0xbf597fc7beef0ee4, 0xc6e00bf33da88fc2, 0xd5a79147930aa725,
  0x06ca6351e003826f, 0x142929670a0e6e70, 0x27b70a8546d22ffc, 0x2e1b21385c26c926, 0x4d2c6dfc5ac42aed,
  0x53380d139d95b3df, 0x650a73548baf63de, 0x766a0abb3c77b2a8, 0x81c2c92e47edaee6, 0x92722c851482353b,
  0xa2bfe8a14cf10364, 0xa81a664bbc423001, 0xc24b8b70d0f89791, 0xc76c51a30654be30, 0xd192e819d6ef5218,
  0xd69906245565a910, 0xf40e35855771202a, 0x106aa07032bbd1b8, 0x19a4c116b8d2d0c8, 0x1e376c085141ab53,
  0x2748774cdf8eeb99, 0x34b0bcb5e19b48a8, 0x391c0cb3c5c95a63, 0x4ed8aa4ae3418acb, 0x5b9cca4f7763e373,
  0x682e6ff3d6b2b8a3, 0x748f82ee5defb2fc, 0x78a5636f43172f60, 0x84c87814a1f0ab72, 0x8cc702081a6439ec,
  0x90befffa23631e28, 0xa4506cebde82bde9, 0xbef9a3f7b2c67915, 0xc67178f2e372532b, 0xca273eceea26619c,
  0xd186b8c721c0c207, 0xeada7dd6cde0eb1e, 0xf57d4f7fee6ed178, 0x06f067aa72176fba, 0x0a637dc5a2c898a6,
  0x113f9804bef90dae, 0x1b710b35131c471b, 0x28db77f523047d84, 0x32caab7b40c72493, 0x3c9ebe0a15c9bebc,
  0x431d67c49c100d4c, 0x4cc5d4becb3e42b6, 0x597f299cfc657e2a, 0x5fcb6fab3ad6faec, 0x6c44198c4a475817]

def sha512core (iv : Array UInt64) (msg : List UInt8) : Array UInt64 := Id.run do
  let m := pad msg.toArray 128 16
  let mut h := iv
  for blk in [0:m.size / 128] do
    let mut w : Array UInt64 := Array.replicate 80 0
    for t in [0:16] do
      w := w.set! t (be64 m (blk * 128 + t * 8))
    for t in [16:80] do
      let s0 := rotr64 w[t-15]! 1 ^^^ rotr64 w[t-15]! 8 ^^^ (w[t-15]! >>> 7)
      let s1 := rotr64 w[t-2]! 19 ^^^ rotr64 w[t-2]! 61 ^^^ (w[t-2]! >>> 6)
      w := w.set! t (w[t-16]! + s0 + w[t-7]! + s1)
    let mut a := h[0]!; let mut b := h[1]!; let mut c := h[2]!; let mut d := h[3]!
    let mut e := h[4]!; let mut f := h[5]!; let mut g := h[6]!; let mut hh := h[7]!
    for t in [0:80] do
      let s1 := rotr64 e 14 ^^^ rotr64 e 18 ^^^ rotr64 e 41
      let ch := (e &&& f) ^^^ ((~~~ e) &&& g)
      let t1 := hh + s1 + ch + k512[t]! + w[t]!
      let s0 := rotr64 a 28 ^^^ rotr64 a 34 ^^^ rotr64 a 39
      let mj := (a &&& b) ^^^ (a &&& c) ^^^ (b &&& c)
      let t2 := s0 + mj
      hh := g; g := f; f := e; e := d + t1; d := c; c := b; b := a; a := t1 + t2
    h := #[h[0]! + a, h[1]! + b, h[2]! + c, h[3]! + d, h[4]! + e, h[5]! + f, h[6]! + g, h[7]! + hh]
  return h

def sha512 (msg : List UInt8) : List UInt8 :=
  ((sha512core #[0x6a09e667f3bcc908, 0xbb67ae8584caa73b, 0x3c6ef372fe94f82b, 0xa54ff53a5f1d36f1,
    0x510e527fade682d1, 0x9b05688c2b3e6c1f, 0x1f83d9abfb41bd6b, 0x5be0cd19137e2179] msg).toList.map bytesOf64).flatten

def sha384 (msg : List UInt8) : List UInt8 :=
  (((sha512core #[0xcbbb9d5dc1059ed8, 0x629a292a367cd507, 0x9159015a3070dd17, 0x152fecd8f70e5939,
    0x67332667ffc00b31, 0x8eb44a8768581511, 0xdb0c2e0d64f98fa7, 0x47b5481dbefa4fa4] msg).toList.map bytesOf64).flatten).take 48

/-! ## SHA-1 -/

def sha1 (msg : List UInt8) : List UInt8 := Id.run do
  let m := pad msg.toArray 64 8
  let mut h : Array UInt32 := #[0x67452301, 0xefcdab89, 0x98badcfe, 0x10325476, 0xc3d2e1f0]
  for blk in [0:m.size / 64] do
    let mut w : Array UInt32 := Array.replicate 80 0
    for t in [0:16] do
      let i := blk * 64 + t * 4
      w := w.set! t (be32 m[i]! m[i+1]! m[i+2]! m[i+3]!)
    for t in [16:80] do
      w := w.set! t (rotl32 (w[t-3]! ^^^ w[t-8]! ^^^ w[t-14]! ^^^ w[t-16]!) 1)
    let mut a := h[0]!; let mut b := h[1]!; let mut c := h[2]!; let mut d := h[3]!; let mut e := h[4]!
    for t in [0:80] do
      let (f, k) : UInt32 × UInt32 :=
        if t < 20 then ((b &&& c) ||| ((~~~ b) &&& d), 0x5a827999)
        else if t < 40 then (b ^^^ c ^^^ d, 0x6ed9eba1)
        else if t < 60 then ((b &&& c) ||| (b &&& d) ||| (c &&& d), 0x8f1bbcdc)
        else (b ^^^ c ^^^ d, 0xca62c1d6)
      let tmp := rotl32 a 5 + f + e + k + w[t]!
      e := d; d := c; c := rotl32 b 30; b := a; a := tmp
    h := #[h[0]! + a, h[1]! + b, h[2]! + c, h[3]! + d, h[4]! + e]
  return (h.toList.map bytesOf32).flatten

/-- KSI hash-algorithm id → digest function, for the algorithms this build can compute.
0 = SHA-1, 1 = SHA2-256, 4 = SHA2-384, 5 = SHA2-512. -/
def hashById (id : Nat) : Option (List UInt8 → List UInt8) :=
  match id with
  | 0 => some sha1
  | 1 => some sha256
  | 4 => some sha384
  | 5 => some sha512
  | _ => none

end KsiVerif.Sha
