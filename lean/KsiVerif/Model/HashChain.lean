import KsiVerif.Util.Hex
import KsiVerif.Model.Status
/-!
# Hash-chain model (hashchain.c `aggregateChain`, `calculateCalendarAggregationTime`,
`highBit`, `KSI_AggregationHashChain_calculateShape`)

The hash function is a parameter `H : Nat → Bytes → Option Bytes` (algorithm id, message ↦
digest; `none` = the algorithm cannot be computed by this build).  An *imprint* is the
algorithm byte followed by the digest.  C integer types are made explicit where the code
relies on them (`long long` in the calendar arithmetic, 64-bit shift in the shape).
-/
namespace KsiVerif.HashChain
open KsiVerif

abbrev HashFn := Nat → Bytes → Option Bytes

/-- what a link contributes as sibling data -/
inductive Sibling where
  | imprint (algo : Nat) (digest : Bytes)
  | legacyId (raw : Bytes)
  | metaData (payload : Bytes)     -- serialized content of the metadata element (no header)
deriving Repr, DecidableEq

def Sibling.bytes : Sibling → Bytes
  | .imprint a d => UInt8.ofNat a :: d
  | .legacyId r => r
  | .metaData p => p

structure Link where
  isLeft : Bool
  /-- level correction, full 64-bit range (absent = 0) -/
  lc : Nat
  sib : Sibling
deriving Repr, DecidableEq

/-- running state of the fold: level and current imprint -/
structure AggState where
  level : Nat
  cur : Bytes

/-- one iteration of the aggregation-chain loop of `aggregateChain` (`isCalendar = 0`) -/
def aggStep (H : HashFn) (algo : Nat) (s : AggState) (l : Link) : Except Nat AggState :=
  if l.lc > 0xff ∨ s.level + l.lc + 1 > 0xff then .error St.INVALID_ARGUMENT
  else
    let level := s.level + l.lc + 1
    let data := (if l.isLeft then s.cur ++ l.sib.bytes else l.sib.bytes ++ s.cur) ++ [UInt8.ofNat level]
    match H algo data with
    | none => .error St.UNAVAILABLE_HASH_ALGORITHM
    | some d => .ok ⟨level, UInt8.ofNat algo :: d⟩

def aggFold (H : HashFn) (algo : Nat) : AggState → List Link → Except Nat AggState
  | s, [] => .ok s
  | s, l :: ls =>
    match aggStep H algo s l with
    | .error e => .error e
    | .ok s' => aggFold H algo s' ls

/-- `KSI_HashChain_aggregate(ctx, chain, inputHash, startLevel, algo, &endLevel, &outputHash)`;
`none` as output hash = the C function leaves `*outputHash = NULL` (empty chain). -/
def aggregate (H : HashFn) (algo : Nat) (links : List Link) (input : Bytes) (startLevel : Nat) :
    Except Nat (Nat × Option Bytes) :=
  match links with
  | [] => .ok (startLevel, none)
  | _ => match aggFold H algo ⟨startLevel, input⟩ links with
    | .error e => .error e
    | .ok s => .ok (s.level, some s.cur)

/-! ## Calendar chain -/

structure CalLink where
  isLeft : Bool
  /-- sibling imprint: algorithm id and digest -/
  algo : Nat
  digest : Bytes
deriving Repr, DecidableEq

/-- calendar fold: the algorithm is that of the input hash until a left link is met, then
that of the latest left link's sibling; the level byte is always 0xff -/
def calFold (H : HashFn) : Nat → Bytes → List CalLink → Except Nat Bytes
  | _, cur, [] => .ok cur
  | algo, cur, l :: ls =>
    let algo' := if l.isLeft then l.algo else algo
    let sib := UInt8.ofNat l.algo :: l.digest
    let data := (if l.isLeft then cur ++ sib else sib ++ cur) ++ [0xff]
    match H algo' data with
    | none => .error St.UNAVAILABLE_HASH_ALGORITHM
    | some d => calFold H algo' (UInt8.ofNat algo' :: d) ls

/-- `KSI_HashChain_aggregateCalendar`; input is an imprint (first byte = algorithm) -/
def aggregateCalendar (H : HashFn) (links : List CalLink) (input : Bytes) : Except Nat (Option Bytes) :=
  match links, input with
  | [], _ => .ok none
  | _, [] => .error St.INVALID_ARGUMENT
  | _, a :: _ => match calFold H a.toNat input links with
    | .error e => .error e
    | .ok c => .ok (some c)

/-- `highBit` on `long long`, for the values the caller passes (0 < n < 2^63): the highest
power of two not exceeding n, computed as in C by smearing the bits to the right. -/
def highBit (n : Nat) : Nat :=
  let n := n ||| (n >>> 1)
  let n := n ||| (n >>> 2)
  let n := n ||| (n >>> 4)
  let n := n ||| (n >>> 8)
  let n := n ||| (n >>> 16)
  let n := n ||| (n >>> 32)
  n - (n >>> 1)

/-- loop of `calculateCalendarAggregationTime`, links taken from the last to the first;
`r` and `t` are the C variables (non-negative throughout, `r ≤ 0` is the exit test) -/
def calTimeLoop : List Bool → Nat → Nat → Except Nat Nat
  | [], r, t => if r ≠ 0 then .error St.INVALID_FORMAT else .ok t
  | isLeft :: rest, r, t =>
    if r = 0 then .error St.INVALID_FORMAT
    else if isLeft then calTimeLoop rest (highBit r - 1) t
    else calTimeLoop rest (r - highBit r) (t + highBit r)

/-- `calculateCalendarAggregationTime(chain, pub_time, &t)`: `shape` lists `isLeft` of the
links first to last; publication time as unsigned 64-bit, cast to `time_t` (signed). -/
def calTime (shape : List Bool) (pubTime : Nat) : Except Nat Nat :=
  if shape.isEmpty then .error St.INVALID_FORMAT
  else if pubTime ≥ 2 ^ 63 then .error St.INVALID_FORMAT      -- (time_t) cast is negative: r <= 0
  else calTimeLoop shape.reverse pubTime 0

/-- `KSI_AggregationHashChain_calculateShape`: 1 followed by the direction bits, last link
first (bit i = isLeft of link i); chains of 64 or more links have no 64-bit shape -/
def shape (dirs : List Bool) : Except Nat Nat :=
  if dirs.length > 63 then .error St.INVALID_STATE
  else .ok (dirs.reverse.foldl (fun acc b => (acc * 2 + (if b then 1 else 0)) % 2 ^ 64) 1)

end KsiVerif.HashChain
