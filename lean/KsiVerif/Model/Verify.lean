import KsiVerif.Model.Policy
import KsiVerif.Model.HashChain
import KsiVerif.Model.PduMac
/-!
# Internal verification (verification_rule.c:94-2303, policy.c:183-299)

A signature is the output of the typed parser (C10 model); `Sig.ofVals` reads it into typed
records.  Every basic rule is a pure function `Sig → VCtx → Outcome`; the one piece of shared
state (`tempData.aggregationOutputHash`) is, inside the internal policy, always the value left by
the chain-consistency rule, i.e. the aggregation from level 0.
-/
namespace KsiVerif.Verify
open KsiVerif KsiVerif.Template KsiVerif.HashChain KsiVerif.Policy

/-! ## typed view of a parsed signature -/

structure AggrChain where
  time : Nat
  index : List Nat
  inputHash : Bytes
  algo : Nat
  links : List Link
  /-- raw payloads of the metadata siblings, by link position (for the padding rule) -/
  metas : List (Option Bytes)
deriving Repr

structure CalChain where
  pubTime : Nat
  aggrTime : Option Nat
  inputHash : Bytes
  links : List CalLink
deriving Repr

structure PubData where
  time : Nat
  imprint : Bytes
deriving Repr

structure Rfc3161 where
  time : Nat
  index : List Nat
  inputHash : Bytes
  tstPrefix : Bytes
  tstSuffix : Bytes
  tstAlgo : Nat
  sigPrefix : Bytes
  sigSuffix : Bytes
  sigAlgo : Nat
deriving Repr

structure Sig where
  chains : List AggrChain
  cal : Option CalChain
  pub : Option PubData
  auth : Option PubData
  rfc : Option Rfc3161
deriving Repr

/-- verification context: what the caller supplies -/
structure VCtx where
  docHash : Option Bytes := none
  level : Nat := 0
deriving Repr

/-! ### reading the parser's output -/

def fld (tabs : Tables) (tn : String) (tag : Nat) (fs : List (Nat × Val)) : Option Val := PduMac.fieldOf tabs tn tag fs

def flds (tabs : Tables) (tn : String) (tag : Nat) (fs : List (Nat × Val)) : List Val :=
  match (lookup tabs tn).find? (·.tag == tag) with
  | some e => (fs.filter (·.1 == e.gid)).map (·.2)
  | none => []

def vInt : Option Val → Option Nat
  | some (.int n) => some n
  | _ => none
def vBytes : Option Val → Option Bytes
  | some (.oct b) => some b | some (.imprint b) => some b | some (.str b) => some b | some (.mdata b) => some b
  | _ => none

def listOf (tabs : Tables) (tn : String) (tag : Nat) (fs : List (Nat × Val)) : List Val := flds tabs tn tag fs

def linkOf (tabs : Tables) (v : Val) : Option (Link × Option Bytes) :=
  match v with
  | .link isLeft fs =>
    let lc := (vInt (fld tabs "KSI_HashChainLink" 0x01 fs)).getD 0
    match fld tabs "KSI_HashChainLink" 0x02 fs, fld tabs "KSI_HashChainLink" 0x03 fs, fld tabs "KSI_HashChainLink" 0x04 fs with
    | some (.imprint h), _, _ => some (⟨isLeft, lc, .imprint (h.headD 0).toNat (h.drop 1)⟩, none)
    | _, some (.oct l), _ => some (⟨isLeft, lc, .legacyId l⟩, none)
    | _, _, some (.mdata m) => some (⟨isLeft, lc, .metaData m⟩, some m)
    | _, _, _ => none
  | _ => none

def aggrOf (tabs : Tables) (v : Val) : Option AggrChain :=
  match v with
  | .obj fs =>
    let tn := "KSI_AggregationHashChain"
    -- left (0x07) and right (0x08) links share one list, in input order
    let ls := (listOf tabs tn 0x07 fs).filterMap (linkOf tabs)
    match vInt (fld tabs tn 0x02 fs), vBytes (fld tabs tn 0x05 fs), vInt (fld tabs tn 0x06 fs) with
    | some t, some ih, some a =>
      some { time := t, index := (flds tabs tn 0x03 fs).filterMap (fun x => vInt (some x)), inputHash := ih, algo := a,
             links := ls.map (·.1), metas := ls.map (·.2) }
    | _, _, _ => none
  | _ => none

def calLinkOf : Val → Option CalLink
  | .calLink isLeft h => some ⟨isLeft, (h.headD 0).toNat, h.drop 1⟩
  | _ => none

def calOf (tabs : Tables) (v : Val) : Option CalChain :=
  match v with
  | .obj fs =>
    let tn := "KSI_CalendarHashChain"
    let ls := (listOf tabs tn 0x07 fs).filterMap calLinkOf
    match vInt (fld tabs tn 0x01 fs), vBytes (fld tabs tn 0x05 fs) with
    | some pt, some ih => some { pubTime := pt, aggrTime := vInt (fld tabs tn 0x02 fs), inputHash := ih, links := ls }
    | _, _ => none
  | _ => none

def pubDataOf (tabs : Tables) (v : Option Val) : Option PubData :=
  match v with
  | some (.obj fs) =>
    match vInt (fld tabs "KSI_PublicationData" 0x02 fs), vBytes (fld tabs "KSI_PublicationData" 0x04 fs) with
    | some t, some h => some ⟨t, h⟩
    | _, _ => none
  | _ => none

def rfcOf (tabs : Tables) (v : Val) : Option Rfc3161 :=
  match v with
  | .obj fs =>
    let tn := "KSI_RFC3161"
    match vInt (fld tabs tn 0x02 fs), vBytes (fld tabs tn 0x05 fs), vBytes (fld tabs tn 0x10 fs), vBytes (fld tabs tn 0x11 fs),
      vInt (fld tabs tn 0x12 fs), vBytes (fld tabs tn 0x13 fs), vBytes (fld tabs tn 0x14 fs), vInt (fld tabs tn 0x15 fs) with
    | some t, some ih, some tp, some ts, some ta, some sp, some ss, some sa =>
      some { time := t, index := (flds tabs tn 0x03 fs).filterMap (fun x => vInt (some x)), inputHash := ih,
             tstPrefix := tp, tstSuffix := ts, tstAlgo := ta, sigPrefix := sp, sigSuffix := ss, sigAlgo := sa }
    | _, _, _, _, _, _, _, _ => none
  | _ => none

/-- stable insertion sort by descending chain-index length (`KSI_AggregationHashChain_compare`) -/
def insertChain (c : AggrChain) : List AggrChain → List AggrChain
  | [] => [c]
  | d :: ds => if d.index.length < c.index.length then c :: d :: ds else d :: insertChain c ds

def sortChains (cs : List AggrChain) : List AggrChain := cs.foldr insertChain []

/-- the typed view of an object that carries a signature's elements under table `tn` (a signature, an aggregation response) -/
def Sig.ofValsIn (tabs : Tables) (tn : String) (vs : List (Nat × Val)) : Sig :=
  { chains := sortChains ((flds tabs tn 0x801 vs).filterMap (aggrOf tabs)),
    cal := (fld tabs tn 0x802 vs).bind (calOf tabs),
    pub := match fld tabs tn 0x803 vs with
      | some (.obj fs) => pubDataOf tabs (fld tabs "KSI_PublicationRecord" 0x10 fs)
      | _ => none,
    auth := match fld tabs tn 0x805 vs with
      | some (.obj fs) => pubDataOf tabs (fld tabs "KSI_CalendarAuthRec" 0x10 fs)
      | _ => none,
    rfc := (fld tabs tn 0x806 vs).bind (rfcOf tabs) }

def Sig.ofVals (tabs : Tables) (vs : List (Nat × Val)) : Sig := Sig.ofValsIn tabs "KSI_Signature" vs

/-! ## helpers of the rules -/

def GEN (n : Nat) : Nat := 0x100 + n
def INT (n : Nat) : Nat := 0x200 + n

def okOut : Outcome := ⟨0, .ok, 0⟩
def naNone : Outcome := ⟨0, .na, 0⟩
def failOut (code : Nat) : Outcome := ⟨0, .fail, code⟩
/-- a library call failed inside a rule: its status is returned, the result stays NA / GEN-02 -/
def errOut (status : Nat) : Outcome := ⟨status, .na, GEN 2⟩

def INVALID_VERIFICATION_INPUT : Nat := 0x05
def UNKNOWN_HASH_ALGORITHM_ID : Nat := 0x10b
def HASH_ALGORITHM_DEPRECATED : Nat := 0x10c
def HASH_ALGORITHM_OBSOLETE : Nat := 0x10d

/-- `(KSI_HashAlgorithm)` of a 64-bit integer: an `int` -/
def asAlgo (n : Nat) : Int := ((n % 2 ^ 32 + 2 ^ 31) % 2 ^ 32 : Nat) - 2 ^ 31
/-- `(time_t)` of a 64-bit integer -/
def asTime (n : Nat) : Int := ((n % 2 ^ 64 + 2 ^ 63) % 2 ^ 64 : Nat) - 2 ^ 63

/-- `KSI_checkHashAlgorithmAt` -/
def checkAlgoAt (algo : Int) (t : Int) : Nat :=
  if algo < 0 then UNKNOWN_HASH_ALGORITHM_ID
  else match Gen.hashAlgs.find? (·.id == algo.toNat) with
    | none => UNKNOWN_HASH_ALGORITHM_ID
    | some a =>
      if a.name == "" then UNKNOWN_HASH_ALGORITHM_ID
      else if a.obsoleteFrom ≠ 0 ∧ (a.obsoleteFrom : Int) ≤ t then HASH_ALGORITHM_OBSOLETE
      else if a.deprecatedFrom ≠ 0 ∧ (a.deprecatedFrom : Int) ≤ t then HASH_ALGORITHM_DEPRECATED
      else 0

/-- the switch every algorithm-lifetime rule ends with -/
def lifetime (algo : Int) (t : Int) (code : Nat) : Outcome :=
  let r := checkAlgoAt algo t
  if r = 0 ∨ r = UNKNOWN_HASH_ALGORITHM_ID then okOut
  else if r = HASH_ALGORITHM_DEPRECATED ∨ r = HASH_ALGORITHM_OBSOLETE then failOut code
  else errOut r

def imprintAlgo (h : Bytes) : Int := ((h.headD 0).toNat : Int)

/-- `KSI_Signature_getDocumentHash` -/
def Sig.docHash (s : Sig) : Bytes :=
  match s.rfc with
  | some r => r.inputHash
  | none => (s.chains.head?.map (·.inputHash)).getD []

/-- `KSI_Signature_getSigningTime` -/
def Sig.signTime (s : Sig) : Nat :=
  match s.cal with
  | some c => c.aggrTime.getD c.pubTime
  | none => (s.chains.head?.map (·.time)).getD 0

/-- `KSI_AggregationHashChain_aggregate(chain, startLevel, &endLevel, &root)` -/
def aggrChain (H : HashFn) (c : AggrChain) (startLevel : Nat) : Except Nat (Nat × Bytes) :=
  if startLevel > 0xff then .error St.INVALID_ARGUMENT
  else match aggregate H (c.algo % 2 ^ 32) c.links c.inputHash startLevel with
    | .error e => .error e
    | .ok (lvl, some root) => .ok (lvl, root)
    | .ok (_, none) => .error St.INVALID_STATE

/-- the loop of the chain-consistency rule: `(hsh, level)` threaded through the chains -/
def consistency (H : HashFn) : List AggrChain → Option Bytes → Nat → Except Outcome Bytes
  | [], hsh, _ => match hsh with | some h => .ok h | none => .error (failOut (INT 1))
  | c :: cs, hsh, level =>
    if hsh.isSome ∧ hsh ≠ some c.inputHash then .error (failOut (INT 1))
    else match aggrChain H c level with
      | .error e => .error (errOut e)
      | .ok (lvl, root) => consistency H cs (some root) lvl

/-- `rfc3161_preSufHasher` -/
def preSuf (H : HashFn) (pre hsh suf : Bytes) (algo : Nat) : Except Nat Bytes :=
  match H algo (pre ++ hsh.drop 1 ++ suf) with
  | some d => .ok (UInt8.ofNat algo :: d)
  | none => .error St.UNAVAILABLE_HASH_ALGORITHM

/-- `rfc3161_getOutputHash` -/
def rfcOutput (H : HashFn) (s : Sig) (r : Rfc3161) : Except Nat Bytes :=
  if r.tstAlgo > 0xff ∨ r.sigAlgo > 0xff then .error St.UNAVAILABLE_HASH_ALGORITHM
  else match preSuf H r.tstPrefix r.inputHash r.tstSuffix r.tstAlgo with
    | .error e => .error e
    | .ok h1 =>
      match preSuf H r.sigPrefix h1 r.sigSuffix r.sigAlgo with
      | .error e => .error e
      | .ok h2 =>
        let a := ((s.chains.head?.map (·.inputHash)).getD []).headD 0
        match H a.toNat h2 with
        | some d => .ok (a :: d)
        | none => .error St.UNAVAILABLE_HASH_ALGORITHM

/-- `metaDataPadding_verify` and the surrounding checks for one metadata record (payload `m`) -/
def metaOK (m : Bytes) : Bool :=
  match Tlv.expand m with
  | .error _ => true       -- cannot be taken apart: the parser has refused it long before
  | .ok els =>
    let pads := els.filter (·.tag == 0x1e)
    if pads.length > 1 then false
    else if pads.length = 1 then
      match els.head? with
      | none => false
      | some first =>
        let raw := match first with | .raw _ _ _ p => p | .nested _ _ _ _ => []
        first.tag == 0x1e && (m.headD 0).toNat < 128 && first.nc && first.fwd
          && (raw == [1] || raw == [1, 1]) && m.length % 2 == 0
    else
      let len := Gen.hashLen (m.headD 0).toNat
      !(len ≠ 0 && len + 1 == m.length)

def prefixEq : List Nat → List Nat → Bool
  | [], _ => true
  | _ :: _, [] => false
  | a :: as, b :: bs => a == b && prefixEq as bs

def indexChainOK : List AggrChain → Bool
  | a :: b :: rest => a.index.length == b.index.length + 1 && prefixEq b.index a.index && indexChainOK (b :: rest)
  | _ => true

def timesEqual : List AggrChain → Bool
  | a :: b :: rest => a.time == b.time && timesEqual (b :: rest)
  | _ => true

/-! ## the basic rules, by name -/

def optMetaOK : Option Bytes → Bool
  | some p => metaOK p
  | none => true

def metasOK (s : Sig) : Bool := s.chains.all fun c => c.metas.all optMetaOK

/-- the loops that stop at the first chain whose check is not OK -/
def firstBad (os : List Outcome) : Outcome :=
  match os.find? (fun o => o.res ≠ .ok ∨ o.status ≠ 0) with
  | some o => o
  | none => okOut

def rfcIndexBad (s : Sig) : Bool :=
  match s.rfc, s.chains.head? with
  | some r, some c => r.index != c.index
  | _, _ => false

def rfcTimeBad (s : Sig) : Bool :=
  match s.rfc, s.chains.head? with
  | some r, some c => r.time != c.time
  | _, _ => false

def shapeOne (c : AggrChain) : Outcome :=
  if c.index.isEmpty then okOut
  else match shape (c.links.map (·.isLeft)) with
    | .error e => errOut e
    | .ok sh => if c.index.getLast? ≠ some sh then failOut (INT 10) else okOut

def obsoleteLeft (c : CalChain) : Bool :=
  (c.links.filter (·.isLeft)).any (fun l => checkAlgoAt (l.algo : Int) (asTime c.pubTime) == HASH_ALGORITHM_OBSOLETE)

def calRoot (H : HashFn) (c : CalChain) : Except Nat Bytes :=
  match aggregateCalendar H c.links c.inputHash with
  | .error e => .error e
  | .ok (some r) => .ok r
  | .ok none => .error St.INVALID_STATE

def rule (H : HashFn) (s : Sig) (x : VCtx) (name : String) : Outcome :=
  match name with
  | "DocumentHashDoesNotExist" => if x.docHash.isSome then naNone else okOut
  | "DocumentHashExistence" => if x.docHash.isNone then naNone else okOut
  | "InputHashAlgorithmVerification" =>
    match x.docHash with
    | none => errOut St.INVALID_ARGUMENT
    | some d => if imprintAlgo s.docHash ≠ imprintAlgo d then failOut (GEN 4) else okOut
  | "DocumentHashVerification" =>
    match x.docHash with
    | none => errOut St.INVALID_ARGUMENT
    | some d => if s.docHash ≠ d then failOut (GEN 1) else okOut
  | "AggregationChainInputLevelVerification" =>
    if x.level = 0 then okOut
    else if x.level > 0xff then errOut INVALID_VERIFICATION_INPUT
    else if s.rfc.isSome then failOut (GEN 3)
    else
      let lc := ((s.chains.head?.bind (·.links.head?)).map (·.lc)).getD 0
      if lc < x.level then failOut (GEN 3) else okOut
  | "AggregationChainInputHashAlgorithmVerification" => lifetime (imprintAlgo s.docHash) (asTime s.signTime) (INT 13)
  | "Rfc3161DoesNotExist" => if s.rfc.isSome then naNone else okOut
  | "Rfc3161Existence" => if s.rfc.isNone then naNone else okOut
  | "Rfc3161RecordHashAlgorithmVerification" =>
    match s.rfc with
    | none => errOut St.INVALID_ARGUMENT
    | some r =>
      let a := lifetime (asAlgo r.sigAlgo) (asTime r.time) (INT 14)
      if a.res ≠ .ok ∨ a.status ≠ 0 then a else lifetime (asAlgo r.tstAlgo) (asTime r.time) (INT 14)
  | "Rfc3161RecordOutputHashAlgorithmVerification" =>
    match s.rfc with
    | none => errOut St.INVALID_ARGUMENT
    | some r => lifetime (imprintAlgo ((s.chains.head?.map (·.inputHash)).getD [])) (asTime r.time) (INT 17)
  | "AggregationChainInputHashVerification" =>
    match s.rfc with
    | none => okOut
    | some r =>
      match rfcOutput H s r with
      | .error e => errOut e
      | .ok out => if some out ≠ s.chains.head?.map (·.inputHash) then failOut (INT 1) else okOut
  | "AggregationChainMetaDataVerification" =>
    if metasOK s then okOut else failOut (INT 11)
  | "AggregationChainHashAlgorithmVerification" =>
    firstBad (s.chains.map fun c => lifetime (asAlgo c.algo) (asTime c.time) (INT 15))
  | "AggregationHashChainIndexContinuation" =>
    if rfcIndexBad s then failOut (INT 12)
    else if indexChainOK s.chains then okOut else failOut (INT 12)
  | "AggregationHashChainTimeConsistency" =>
    if rfcTimeBad s then failOut (INT 2)
    else if timesEqual s.chains then okOut else failOut (INT 2)
  | "AggregationHashChainConsistency" =>
    match consistency H s.chains none 0 with
    | .error o => o
    | .ok _ => okOut
  | "AggregationHashChainIndexConsistency" =>
    firstBad (s.chains.map shapeOne)
  | "CalendarHashChainDoesNotExist" => if s.cal.isSome then naNone else okOut
  | "CalendarHashChainExistence" => if s.cal.isNone then naNone else okOut
  | "CalendarHashChainInputHashVerification" =>
    match s.cal with
    | none => errOut St.INVALID_ARGUMENT
    | some c =>
      match consistency H s.chains none 0 with
      | .error _ => errOut St.INVALID_ARGUMENT
      | .ok out => if out ≠ c.inputHash then failOut (INT 3) else okOut
  | "CalendarHashChainAggregationTime" =>
    match s.cal, s.chains.head? with
    | some c, some a => if c.aggrTime.getD c.pubTime ≠ a.time then failOut (INT 4) else okOut
    | _, _ => errOut St.INVALID_STATE
  | "CalendarHashChainRegistrationTime" =>
    match s.cal with
    | none => errOut St.INVALID_ARGUMENT
    | some c =>
      match calTime (c.links.map (·.isLeft)) c.pubTime with
      | .error _ => ⟨0, .na, INT 5⟩
      | .ok t => if c.aggrTime.getD c.pubTime ≠ t then failOut (INT 5) else okOut
  | "CalendarChainHashAlgorithmObsoleteAtPubTime" =>
    match s.cal with
    | none => errOut St.INVALID_ARGUMENT
    | some c =>
      if obsoleteLeft c then failOut (INT 16) else okOut
  | "SignatureDoesNotContainPublication" => if s.pub.isSome then naNone else okOut
  | "SignaturePublicationRecordExistence" => if s.pub.isNone then naNone else okOut
  | "SignaturePublicationRecordPublicationHash" =>
    match s.cal, s.pub with
    | some c, some p => match calRoot H c with
      | .error e => errOut e
      | .ok r => if r ≠ p.imprint then failOut (INT 9) else okOut
    | _, _ => errOut St.INVALID_ARGUMENT
  | "SignaturePublicationRecordPublicationTime" =>
    match s.cal, s.pub with
    | some c, some p => if c.pubTime ≠ p.time then failOut (INT 7) else okOut
    | _, _ => errOut St.INVALID_ARGUMENT
  | "CalendarAuthenticationRecordDoesNotExist" => if s.auth.isSome then naNone else okOut
  | "CalendarAuthenticationRecordExistence" => if s.auth.isNone then naNone else okOut
  | "CalendarAuthenticationRecordAggregationHash" =>
    match s.cal, s.auth with
    | some c, some p => match calRoot H c with
      | .error e => errOut e
      | .ok r => if r ≠ p.imprint then failOut (INT 8) else okOut
    | _, _ => errOut St.INVALID_ARGUMENT
  | "CalendarAuthenticationRecordAggregationTime" =>
    match s.cal, s.auth with
    | some c, some p => if c.pubTime ≠ p.time then failOut (INT 6) else okOut
    | _, _ => errOut St.INVALID_ARGUMENT
  | _ => errOut St.UNKNOWN_ERROR

end KsiVerif.Verify
