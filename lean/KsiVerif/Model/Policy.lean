import KsiVerif.Model.Status
/-!
# Policy engine model (policy.c `Rule_verify`, `KSI_SignatureVerifier_verify`)

Basic rules are opaque: an oracle `ρ : Nat → Outcome` gives, for the rule with identity
`id`, the returned status (0 = `KSI_OK`), the result code and the error code.  The model
returns, besides status and final result, the **trace** of invoked basic rules.
-/
namespace KsiVerif.Policy

inductive Res where
  | ok | na | fail
deriving DecidableEq, Repr

/-- `KSI_VER_ERR_GEN_2`, the value `Rule_verify` pre-loads before every rule -/
def GEN_2 : Nat := 0x102

structure Outcome where
  status : Nat
  res : Res
  err : Nat
deriving DecidableEq, Repr

inductive Rule where
  | basic (id : Nat)
  | and (rs : List Rule)
  | or (rs : List Rule)
deriving Repr

structure Run where
  status : Nat
  res : Res
  err : Nat
  trace : List Nat
deriving DecidableEq, Repr

def Run.outcome (x : Run) : Outcome := ⟨x.status, x.res, x.err⟩

/-- what `Rule_verify` returns for a rule array whose first entry is already the terminator:
`res` still holds its initial `KSI_UNKNOWN_ERROR`; the result is whatever the caller
pre-loaded (NA / GEN-02). -/
def emptyRun : Run := ⟨St.UNKNOWN_ERROR, .na, GEN_2, []⟩

def Rule.isOr : Rule → Bool
  | .or _ => true
  | _ => false

/-- the four `break` conditions of the `Rule_verify` loop, for the element just evaluated -/
def stops (r : Rule) (x : Run) : Bool :=
  if x.status ≠ 0 then true
  else match x.res with
    | .fail => true
    | .ok => r.isOr
    | .na => !r.isOr

mutual
/-- one element of a rule array -/
def evalRule (ρ : Nat → Outcome) : Rule → Run
  | .basic id => ⟨(ρ id).status, (ρ id).res, (ρ id).err, [id]⟩
  | .and rs => evalList ρ rs
  | .or rs => evalList ρ rs
/-- `Rule_verify(rule, …)` on a `{NULL}`-terminated rule array -/
def evalList (ρ : Nat → Outcome) : List Rule → Run
  | [] => emptyRun
  | [r] => evalRule ρ r
  | r :: r' :: rest =>
    let x := evalRule ρ r
    if stops r x then x
    else
      let y := evalList ρ (r' :: rest)
      { y with trace := x.trace ++ y.trace }
end

/-- A policy: its rule array (`none` = `policy->rules == NULL`). -/
abbrev PolicyRules := Option (List Rule)

structure Verdict where
  /-- status returned by `KSI_SignatureVerifier_verify` -/
  status : Nat
  /-- final result, present only when status = OK -/
  final : Option (Res × Nat)
  /-- basic rules invoked, over all policies tried -/
  trace : List Nat
  /-- number of policies evaluated -/
  policies : Nat
deriving DecidableEq, Repr

/-- `KSI_SignatureVerifier_verify`: the primary policy, then its fallback chain. -/
def verify (ρ : Nat → Outcome) : List PolicyRules → Verdict
  | [] => ⟨St.INVALID_ARGUMENT, none, [], 0⟩
  | p :: fallbacks =>
    match p with
    | none => ⟨St.INVALID_ARGUMENT, none, [], 1⟩
    | some rs =>
      let x := evalList ρ rs
      if x.status ≠ 0 then ⟨x.status, none, x.trace, 1⟩
      else if x.res = .ok then ⟨0, some (x.res, x.err), x.trace, 1⟩
      else match fallbacks with
        | [] => ⟨0, some (x.res, x.err), x.trace, 1⟩
        | _ :: _ =>
          let v := verify ρ fallbacks
          { v with trace := x.trace ++ v.trace, policies := v.policies + 1 }

mutual
/-- depth-first, left-to-right list of the basic rules of a tree -/
def Rule.dfs : Rule → List Nat
  | .basic id => [id]
  | .and rs => dfsList rs
  | .or rs => dfsList rs
def dfsList : List Rule → List Nat
  | [] => []
  | r :: rs => r.dfs ++ dfsList rs
end

end KsiVerif.Policy
