import KsiVerif.Model.Verify
/-!
# Publications file (publicationsfile.c, pkitruststore_openssl.c)

* the record view of the octets after the magic header (`splitRecords`), used to say what
  `KSI_PublicationsFile_parse` accepts and what `signedDataLength` is;
* the typed content (`PubFile.ofVals`) and the lookup functions;
* `KSI_PublicationsFile_verify` over an abstract PKI (PKCS#7 verification, chain building and subject
  lookup are OpenSSL's: parameters here).
-/
namespace KsiVerif.PubFile
open KsiVerif KsiVerif.Tlv KsiVerif.Template KsiVerif.Verify

/-- one top-level record: the element handed to the template engine and its octets (header and payload) -/
structure Rec where
  el : Elem
  raw : Bytes

/-- the octets after the magic header cut into records by the fast TLV reader -/
def splitRecords : Nat → Bytes → Except Nat (List Rec)
  | 0, _ => .error St.UNKNOWN_ERROR
  | fuel + 1, b =>
    if b.isEmpty then .ok []
    else match memRead b with
      | .error e => .error e
      | .ok h =>
        let n := h.hdrLen + h.datLen
        match splitRecords fuel (b.drop n) with
        | .error e => .error e
        | .ok rs => .ok (⟨⟨h.tag, h.nc, h.fwd, (b.drop h.hdrLen).take h.datLen⟩, b.take n⟩ :: rs)

/-- no record follows a PKI-signature record (0x704) -/
def sigLast : List Rec → Bool
  | [] => true
  | r :: rs => if r.el.tag = 0x704 then rs.isEmpty else sigLast rs

/-- the offset `generateNextTlv` remembers: that of the last 0x704 record delivered, `sigOff` if there was none -/
def sigOffOf : Nat → Nat → List Rec → Nat
  | _, sigOff, [] => sigOff
  | off, sigOff, r :: rs => sigOffOf (off + r.raw.length) (if r.el.tag = 0x704 then off else sigOff) rs

/-! ## typed content -/

structure PubRec where
  time : Nat
  imprint : Bytes
deriving Repr, DecidableEq

structure CertRec where
  id : Bytes
  cert : Bytes
deriving Repr, DecidableEq

structure PubFile where
  certs : List CertRec
  pubs : List PubRec
  signature : Option Bytes
deriving Repr

def certOf (tabs : Tables) : Val → Option CertRec
  | .obj fs => match vBytes (fld tabs "KSI_CertificateRecord" 0x01 fs), fld tabs "KSI_CertificateRecord" 0x02 fs with
    | some i, some (.der c) => some ⟨i, c⟩
    | _, _ => none
  | _ => none

def pubOf (tabs : Tables) : Val → Option PubRec
  | .obj fs => (pubDataOf tabs (fld tabs "KSI_PublicationRecord" 0x10 fs)).map fun p => ⟨p.time, p.imprint⟩
  | _ => none

def PubFile.ofVals (tabs : Tables) (vs : List (Nat × Val)) : PubFile :=
  let tn := "KSI_PublicationsFile"
  { certs := (flds tabs tn 0x702 vs).filterMap (certOf tabs),
    pubs := (flds tabs tn 0x703 vs).filterMap (pubOf tabs),
    signature := match fld tabs tn 0x704 vs with
      | some (.der b) => some b
      | _ => none }

/-! ## lookups -/

/-- `KSI_PublicationsFile_getPublicationDataByTime` / `findPublicationByTime`: the first record with that time -/
def byTime (ps : List PubRec) (t : Nat) : Option PubRec := ps.find? (·.time == t)

/-- `KSI_PublicationsFile_findPublication`: the first record with that time and imprint -/
def findPub (ps : List PubRec) (t : Nat) (imprint : Bytes) : Option PubRec := ps.find? (fun p => p.time == t && p.imprint == imprint)

/-- the loop of `getNearestPublication`: `(result)` after the records seen so far -/
def nearestStep (t : Nat) (res : Option PubRec) (p : PubRec) : Option PubRec :=
  if t ≤ p.time then
    match res with
    | none => some p
    | some r => if r.time ≥ p.time then some p else some r
  else res

def nearest (ps : List PubRec) (t : Nat) : Option PubRec := ps.foldl (nearestStep t) none

/-- the loop of `getLatestPublication`; `t = none` is the `NULL` time -/
def latestStep (t : Option Nat) (res : Option PubRec) (p : PubRec) : Option PubRec :=
  if t.all (· ≤ p.time) then
    match res with
    | none => some p
    | some r => if r.time ≤ p.time then some p else some r
  else res

def latest (ps : List PubRec) (t : Option Nat) : Option PubRec := ps.foldl (latestStep t) none

/-- `KSI_PublicationsFile_getPKICertificateById`: the first record with the identical id -/
def certById (cs : List CertRec) (id : Bytes) : Option CertRec := cs.find? (·.id == id)

/-! ## verification -/

/-- what OpenSSL answers about a PKCS#7 signature blob -/
structure Pki where
  /-- `PKCS7_verify(sig, data, PKCS7_NOVERIFY)`: 0 = verified, otherwise the status returned
  (`KSI_INVALID_PKI_SIGNATURE`, `KSI_CRYPTO_FAILURE`) -/
  pkcs7 : Bytes → Bytes → Nat
  /-- `X509_verify_cert` of the signer certificate against the configured trust anchors: 0 = trusted -/
  chain : Bytes → Nat
  /-- `X509_NAME_get_text_by_OBJ(subject, oid)` of the signer certificate -/
  subject : Bytes → String → Option String

def PUBLICATIONS_FILE_NOT_SIGNED_WITH_PKI : Nat := 0x20c
def PUBFILE_VERIFICATION_NOT_CONFIGURED : Nat := 0x04
def PKI_CERTIFICATE_NOT_TRUSTED : Nat := 0x109
def INVALID_PKI_SIGNATURE : Nat := 0x108

abbrev Constraints := List (String × String)

/-- `pki_truststore_verifyCertificateConstraints` after the constraint set has been chosen -/
def constraintsStatus (pki : Pki) (sig : Bytes) : Constraints → Nat
  | [] => 0
  | (oid, val) :: rest =>
    match pki.subject sig oid with
    | none => PKI_CERTIFICATE_NOT_TRUSTED
    | some v => if v ≠ val then PKI_CERTIFICATE_NOT_TRUSTED else constraintsStatus pki sig rest

/-- `KSI_PublicationsFile_verify`: `fileCons` are the constraints set on the file object, `ctxCons` those of the context -/
def verify (pki : Pki) (raw : Bytes) (signedLen : Nat) (sig : Option Bytes) (fileCons ctxCons : Option Constraints) : Nat :=
  match sig with
  | none => PUBLICATIONS_FILE_NOT_SIGNED_WITH_PKI
  | some sg =>
    let r := pki.pkcs7 sg (raw.take signedLen)
    if r ≠ 0 then r
    else
      let c := pki.chain sg
      if c ≠ 0 then c
      else
        match (fileCons.orElse fun _ => ctxCons) with
        | none => PUBFILE_VERIFICATION_NOT_CONFIGURED
        | some [] => PUBFILE_VERIFICATION_NOT_CONFIGURED
        | some cs => constraintsStatus pki sg cs

end KsiVerif.PubFile
