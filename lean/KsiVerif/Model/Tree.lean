import KsiVerif.Model.HashChain
/-!
# Tree builder and block-signer leaf pipeline (tree_builder.c, blocksigner.c)

Persistent trees over an abstract hash function.  The builder's `stack[]` is a binary
counter of sub-trees (slot index, not level); `close` folds the occupied slots from slot 0
upwards, higher slots becoming left siblings.  A failed insertion leaves the state as it was
(the model is functional; the C code has to undo its partial carry).
-/
namespace KsiVerif.Tree
open KsiVerif KsiVerif.HashChain

/-- what a node contributes when hashed: an imprint, or the serialized metadata payload -/
inductive Content where
  | hash (imprint : Bytes)
  | mdata (payload : Bytes)
deriving Repr, DecidableEq

def Content.bytes : Content → Bytes
  | .hash i => i
  | .mdata p => p

inductive Node where
  /-- `id = some k`: the k-th leaf handed in by the user; `none`: a node made by a leaf processor -/
  | leaf (id : Option Nat) (c : Content) (level : Nat)
  | inner (imprint : Bytes) (level : Nat) (l r : Node)
deriving Repr

def Node.level : Node → Nat
  | .leaf _ _ lv => lv
  | .inner _ lv _ _ => lv

def Node.bytes : Node → Bytes
  | .leaf _ c _ => c.bytes
  | .inner i _ _ _ => i

/-- `KSI_TreeNode_join`: level = max + 1 (must stay ≤ 0xff), hash = H(left ‖ right ‖ level) -/
def join (H : HashFn) (algo : Nat) (l r : Node) : Except Nat Node :=
  let level := max l.level r.level + 1
  if level > 0xff then .error St.UNKNOWN_ERROR
  else match H algo (l.bytes ++ r.bytes ++ [UInt8.ofNat level]) with
    | none => .error St.UNAVAILABLE_HASH_ALGORITHM
    | some d => .ok (.inner (UInt8.ofNat algo :: d) level l r)

/-- `insertNode(builder, node, at)` on the slots from `at` upwards -/
def insert (H : HashFn) (algo : Nat) : List (Option Node) → Node → Except Nat (List (Option Node))
  | [], n => .ok [some n]
  | none :: rest, n => .ok (some n :: rest)
  | some p :: rest, n =>
    match join H algo p n with
    | .error e => .error e
    | .ok root =>
      match insert H algo rest root with
      | .error e => .error e
      | .ok rest' => .ok (none :: rest')

/-- `KSI_TreeBuilder_close`: slots from 0 upwards; each further occupied slot becomes the
left sibling of what has been merged so far -/
def closeFold (H : HashFn) (algo : Nat) : Option Node → List (Option Node) → Except Nat (Option Node)
  | acc, [] => .ok acc
  | acc, none :: rest => closeFold H algo acc rest
  | none, some n :: rest => closeFold H algo (some n) rest
  | some root, some n :: rest =>
    match join H algo n root with
    | .error e => .error e
    | .ok t => closeFold H algo (some t) rest

def close (H : HashFn) (algo : Nat) (stack : List (Option Node)) : Except Nat Node :=
  match closeFold H algo none stack with
  | .error e => .error e
  | .ok none => .error St.INVALID_STATE
  | .ok (some r) => .ok r

/-- `calculateHighestLevel(builder, level)` -/
def highestLevel : List (Option Node) → Nat → Nat
  | [], lv => lv
  | none :: rest, lv => highestLevel rest lv
  | some n :: rest, lv => highestLevel rest (max n.level lv + 1)

/-! ## aggregation chain of a leaf (`getHashChainLinks`) -/

def sibling (n : Node) : Sibling :=
  match n with
  | .leaf _ (.hash i) _ => .imprint (i.headD 0).toNat (i.drop 1)
  | .leaf _ (.mdata p) _ => .metaData p
  | .inner i _ _ _ => .imprint (i.headD 0).toNat (i.drop 1)

/-- link from a child at level `childLevel` up to `parent`, the other child being `sib` -/
def linkTo (childIsLeft : Bool) (sib : Node) (parentLevel childLevel : Nat) : Link :=
  ⟨childIsLeft, parentLevel - childLevel - 1, sibling sib⟩

/-- all user leaves of a tree with their level, content bytes and chain to the root -/
def chains : Node → List (Nat × Nat × Bytes × List Link)
  | .leaf (some k) c lv => [(k, lv, c.bytes, [])]
  | .leaf none _ _ => []
  | .inner _ lv l r =>
    (chains l).map (fun (k, ll, b, ch) => (k, ll, b, ch ++ [linkTo true r lv l.level])) ++
    (chains r).map (fun (k, ll, b, ch) => (k, ll, b, ch ++ [linkTo false l lv r.level]))

end KsiVerif.Tree

/-! ## builder and block signer as state machines -/
namespace KsiVerif.Tree
open KsiVerif KsiVerif.HashChain

structure Builder where
  stack : List (Option Node) := []
  /-- user leaves accepted so far (the next leaf gets this id) -/
  count : Nat := 0
  /-- `maxTreeLevel`, 0 = unlimited -/
  maxLevel : Nat := 0
deriving Repr

/-- `levelWithOverhead`: one step per registered leaf processor -/
def levelWithOverhead : Nat → Nat → Except Nat Nat
  | lv, 0 => .ok lv
  | lv, n + 1 => if lv + 1 > 0xff then .error St.INVALID_STATE else levelWithOverhead (lv + 1) n

/-- the height pre-check of `addLeaf` -/
def heightCheck (b : Builder) (level nproc : Nat) : Except Nat Unit :=
  if b.maxLevel = 0 then .ok ()
  else if level > b.maxLevel then .error St.BUFFER_OVERFLOW
  else match levelWithOverhead level nproc with
    | .error e => .error e
    | .ok actual => if highestLevel b.stack actual > b.maxLevel then .error St.BUFFER_OVERFLOW else .ok ()

/-- `KSI_TreeBuilder_addDataHash/addMetaData` with `prep` standing for the leaf processors -/
def Builder.addLeaf (H : HashFn) (algo : Nat) (b : Builder) (c : Content) (level nproc : Nat)
    (prep : Node → Except Nat Node) : Except Nat Builder :=
  if level > 0xff then .error St.INVALID_ARGUMENT
  else match heightCheck b level nproc with
    | .error e => .error e
    | .ok () =>
      match prep (.leaf (some b.count) c level) with
      | .error e => .error e
      | .ok n =>
        match insert H algo b.stack n with
        | .error e => .error e
        | .ok st => .ok { b with stack := st, count := b.count + 1 }

/-- block signer: blinding-mask chain state -/
structure Signer where
  b : Builder := {}
  prev : Option Bytes := none      -- current "previous leaf" imprint
  origPrev : Option Bytes := none
  iv : Option Bytes := none
deriving Repr

/-- the two leaf processors in the order `KSI_BlockSigner_new` registers them:
metadata first (so that it is the first link), then the blinding mask.  Returns the prepared
node and the new "previous leaf". -/
def signerPrep (H : HashFn) (algo : Nat) (prev iv md : Option Bytes) (n : Node) :
    Except Nat (Node × Option Bytes) :=
  let afterMeta : Except Nat Node :=
    match md with
    | none => .ok n
    | some p => join H algo (.leaf none (.mdata p) n.level) n
  match afterMeta with
  | .error e => .error e
  | .ok cur =>
    match prev, iv with
    | some pv, some ivb =>
      match H algo (pv ++ ivb) with
      | none => .error St.UNAVAILABLE_HASH_ALGORITHM
      | some m =>
        if cur.level + 1 > 0xff then .error St.INVALID_STATE
        else match join H algo (.leaf none (.hash (UInt8.ofNat algo :: m)) cur.level) cur with
          | .error e => .error e
          | .ok t => .ok (t, some t.bytes)
    | _, _ => .ok (cur, prev)

/-- `KSI_BlockSigner_addLeaf` (tree part); the mask chain advances as soon as the processors
have run, also when the insertion is then refused -/
def Signer.addLeaf (H : HashFn) (algo : Nat) (s : Signer) (imprint : Bytes) (level : Nat)
    (md : Option Bytes) : Signer × Nat :=
  if level > 0xff then (s, St.INVALID_ARGUMENT)
  else match heightCheck s.b level 2 with
    | .error e => (s, e)
    | .ok () =>
      match signerPrep H algo s.prev s.iv md (.leaf (some s.b.count) (.hash imprint) level) with
      | .error e => (s, e)
      | .ok (n, prev') =>
        match insert H algo s.b.stack n with
        | .error e => ({ s with prev := prev' }, e)
        | .ok st => ({ s with b := { s.b with stack := st, count := s.b.count + 1 }, prev := prev' }, 0)

/-- `KSI_BlockSigner_reset` -/
def Signer.reset (s : Signer) : Signer :=
  { s with b := { maxLevel := 0 }, prev := s.origPrev }

def Signer.new (prev iv : Option Bytes) : Signer := { prev := prev, origPrev := prev, iv := iv }

end KsiVerif.Tree
