import KsiVerif.Util.Hex
/-!
# TLV templates: the types the generated tables (`KsiVerif.Gen.Templates`) are written in
-/
namespace KsiVerif.Template
open KsiVerif

/-- how the value of a template entry is built from its TLV: the identity of the entry's
`fromTlv` function (or "composite": construct + recursive extraction with the sub-template) -/
inductive Kind where
  | int | utf8 | utf8nz | octet | imprint | legacyId | metaData | header | aggrReq | aggrResp
  | extReq | extResp | pubData | link | calLink | cert | pkiSig | composite
deriving Repr, DecidableEq

/-- one row of a `KSI_TlvTemplate` table -/
structure Entry where
  tag : Nat
  flags : Nat
  /-- `multiple` / `listAppend != NULL`: the value is appended to a list -/
  multiple : Bool
  kind : Kind
  /-- index of the first row with the same getter: the field the value is stored in -/
  getter : Nat
  /-- name of the sub-template (composites), "" otherwise -/
  sub : String
  /-- number of the getter among all distinct getters of all tables (the C field, whatever table
  the object was parsed with) -/
  gid : Nat
deriving Repr, DecidableEq

def FLG_MANDATORY : Nat := 0x04
def FLG_LEAST_ONE_G0 : Nat := 0x08
def FLG_LEAST_ONE_G1 : Nat := 0x10
def FLG_MORE_DEFS : Nat := 0x20
def FLG_MOST_ONE_G0 : Nat := 0x80
def FLG_MOST_ONE_G1 : Nat := 0x100
def FLG_FIXED_ORDER : Nat := 0x200
def FLG_FIRST : Nat := 0x400
def FLG_LAST : Nat := 0x800

/-- `IS_FLAG_SET(tmpl, flg)` for a single-bit flag -/
def Entry.has (e : Entry) (flg : Nat) : Bool := e.flags / flg % 2 == 1

end KsiVerif.Template
