import KsiVerif.Model.VerifyPolicy
import KsiVerif.Model.PduMac
import KsiVerif.Spec.Tlv
import KsiVerif.Model.PubString
/-!
# Extending a signature (signature.c:683-916, types.c:2682, hashchain.c:1296-1442, signature_builder.c)

`extendTo` follows `KSI_Signature_extendTo` / `KSI_Signature_extend` from the request that is made to the signature
that is returned: the reply is authenticated and parsed (PduMac.deliver, C06), checked against the request
(`verifyWithRequest`), against the signature's previous calendar chain (`compatible`), put into a copy of the
signature at the level of its top-level elements (`compose`), and the result is verified internally (C01).
-/
namespace KsiVerif.Extend
open KsiVerif KsiVerif.Tlv KsiVerif.TlvSpec KsiVerif.Template KsiVerif.HashChain KsiVerif.Verify KsiVerif.Policy

def REQUEST_ID_MISMATCH : Nat := 0x210
def INCOMPATIBLE_HASH_CHAIN : Nat := 0x213

/-- the response object of an extension reply -/
structure ExtResp where
  requestId : Option Nat
  status : Option Nat
  cal : Option CalChain
deriving Repr

def respOf (tabs : Tables) (tn : String) : Val → ExtResp
  | .obj fs => { requestId := vInt (fld tabs tn 0x01 fs), status := vInt (fld tabs tn 0x04 fs), cal := (fld tabs tn 0x802 fs).bind (calOf tabs) }
  | _ => ⟨none, none, none⟩

/-- `KSI_ExtendResp_verifyWithRequest(resp, req)`: `rid`, `aggrTime`, `pubTime` are the request's -/
def verifyWithRequest (r : ExtResp) (rid aggrTime : Nat) (pubTime : Option Nat) : Nat :=
  match r.status with
  | none => St.INVALID_FORMAT
  | some st =>
    if st ≠ 0 then PduMac.convExt st
    else if r.requestId ≠ some rid then REQUEST_ID_MISMATCH
    else match r.cal with
      | none => St.INVALID_ARGUMENT
      | some c =>
        if pubTime.isSome ∧ pubTime ≠ some c.pubTime then St.INVALID_ARGUMENT
        else if c.aggrTime ≠ some aggrTime then St.INVALID_ARGUMENT
        else match calTime (c.links.map (·.isLeft)) c.pubTime with
          | .error e => e
          | .ok t => if t ≠ aggrTime then St.INVALID_ARGUMENT else 0

/-- the right links of a calendar chain: sibling imprints, in order -/
def rights (c : CalChain) : List (Nat × Bytes) := (c.links.filter (!·.isLeft)).map fun l => (l.algo, l.digest)

/-- `KSI_CalendarHashChain_verifyCompatibilityTo(old, new)` -/
def compatible (a b : CalChain) : Nat :=
  if a.aggrTime.getD a.pubTime ≠ b.aggrTime.getD b.pubTime then INCOMPATIBLE_HASH_CHAIN
  else if a.inputHash ≠ b.inputHash then INCOMPATIBLE_HASH_CHAIN
  else if rights a ≠ rights b then INCOMPATIBLE_HASH_CHAIN
  else 0

/-! ## the result, element by element -/

/-- minimal big-endian octets of an integer (zero is empty) -/
def beMin (n : Nat) : Bytes := Pub.beBytes (minSize n) n

def intTlv (tag n : Nat) : Tlv := .raw tag false false (beMin n)

/-- the calendar chain as `KSI_TlvTemplate_construct` writes it -/
def calTlv (c : CalChain) : Tlv :=
  .nested 0x802 false false
    ([intTlv 0x01 c.pubTime] ++ (match c.aggrTime with | some t => [intTlv 0x02 t] | none => []) ++
     [.raw 0x05 false false c.inputHash] ++
     c.links.map fun l => .raw (if l.isLeft then 0x07 else 0x08) false false (UInt8.ofNat l.algo :: l.digest))

/-- `replaceCalendarChain`: in place of the old chain, or appended when there was none -/
def replaceFirst (newCal : Tlv) : List Tlv → List Tlv
  | [] => []
  | e :: es => if e.tag = 0x802 then newCal :: es else e :: replaceFirst newCal es

def replaceCal (els : List Tlv) (newCal : Tlv) : List Tlv :=
  if els.any (·.tag == 0x802) then replaceFirst newCal els else els ++ [newCal]

/-- `removeCalAuthAndPublication` -/
def removeAnchors (els : List Tlv) : List Tlv := els.filter fun e => e.tag != 0x803 && e.tag != 0x805

/-- top-level elements of the extended signature; `pub` = the supplied publication record (`KSI_Signature_extend`) -/
def compose (els : List Tlv) (newCal : Tlv) (pub : Option Tlv) : List Tlv :=
  let r := removeAnchors (replaceCal els newCal)
  match pub with
  | some p => removeAnchors r ++ [p]
  | none => r

def VERIFICATION_FAILURE : Nat := 0x20a

/-- the compatibility check is made only when the signature has a calendar chain -/
def compatOld (old : Option CalChain) (cal : CalChain) : Nat :=
  match old with
  | some o => compatible o cal
  | none => 0

/-- table and tag of the response object inside a v1 (root 0x300) or v2 PDU -/
def respName (root : Nat) : String := if root = 0x300 then "KSI_ExtendResp" else "KSI_ExtendResp_v2"
def respTag (root : Nat) : Nat := if root = 0x300 then 0x302 else 0x02

/-- `KSI_Signature_extendTo(sig, ctx, to, &ext)` / `KSI_Signature_extend(sig, ctx, pubRec, &ext)`:
`src` the signature's octets, `to` the requested publication time, `rid` the request id the context assigns, `reply`
the octets received; the result is the serialization of the extended signature -/
def extendTo (H : HashFn) (c : Cfg) (src : Bytes) (to : Option Nat) (pub : Option Tlv) (rid ver : Nat) (confAlg : Option Nat)
    (key reply : Bytes) : Except Nat Bytes :=
  match parseSignature c src, parseBlob src with
  | .ok vs, .ok top =>
    let s := Sig.ofVals c.tabs vs
    if to.any (fun p => s.signTime > p) then .error St.INVALID_ARGUMENT
    else match PduMac.deliver H c .ext ver confAlg key reply with
      | .error e => .error e
      | .ok pdu =>
        let root := PduMac.rootTagOf reply
        let tn := PduMac.pduTable .ext root
        match PduMac.fieldOf c.tabs tn (respTag root) pdu with
        | none => .error St.INVALID_ARGUMENT          -- no response object: `KSI_ExtendResp_verifyWithRequest(NULL, …)`
        | some rv =>
          let resp := respOf c.tabs (respName root) rv
          let st := verifyWithRequest resp rid s.signTime to
          if st ≠ 0 then .error st
          else match resp.cal with
            | none => .error St.INVALID_ARGUMENT
            | some cal =>
              let cst := compatOld s.cal cal
              if cst ≠ 0 then .error cst
              else match expand (payload top) with
                | .error e => .error e
                | .ok els =>
                  let out := encode (.nested 0x800 false false (compose els (calTlv cal) pub))
                  -- the result is verified under the internal policy before it is handed out
                  match parseSignature c out with
                  | .error e => .error e
                  | .ok vs' =>
                    let v := verifyWith H Gen.policy_internal (Sig.ofVals c.tabs vs') {}
                    if v.status ≠ 0 then .error v.status
                    else match v.final with
                      | some (.ok, _) => .ok out
                      | _ => .error VERIFICATION_FAILURE
  | .error e, _ => .error e
  | _, .error e => .error e

end KsiVerif.Extend
