import KsiVerif.Model.VerifyPolicy
import KsiVerif.Model.PduMac
/-!
# Signing (signature.c:330-621, signature_builder.c openFromAggregationResp / close / addRootLevel)

`signAggregated` follows `KSI_Signature_signAggregated(ctx, hash, level, &sig)` from the request that is made to the
signature that is returned, at the level of the typed signature (the octets of the result are not modelled: the
driver compares the parsed result).
-/
namespace KsiVerif.Sign
open KsiVerif KsiVerif.Template KsiVerif.HashChain KsiVerif.Verify KsiVerif.Policy

def REQUEST_ID_MISMATCH : Nat := 0x210
def UNTRUSTED_HASH_ALGORITHM : Nat := 0x102
def VERIFICATION_FAILURE : Nat := 0x20a

/-- `KSI_isHashAlgorithmTrusted`: known, neither deprecated nor obsolete at any time (generated table of hash.c) -/
def trusted (algo : Nat) : Bool :=
  match Gen.hashAlgs.find? (·.id == algo) with
  | some a => a.name != "" && a.deprecatedFrom == 0 && a.obsoleteFrom == 0
  | none => false

def respName (root : Nat) : String := if root = 0x200 then "KSI_AggregationResp" else "KSI_AggregationResp_v2"
def respTag (root : Nat) : Nat := if root = 0x200 then 0x202 else 0x02

/-- `addRootLevel`: the requested level is added to the first link of the first chain -/
def addLevel (level : Nat) (s : Sig) : Except Nat Sig :=
  if level = 0 then .ok s
  else match s.chains with
    | [] => .error St.INVALID_ARGUMENT
    | c :: cs =>
      match c.links with
      | [] => .error St.INVALID_ARGUMENT
      | l :: ls =>
        if l.lc % 2 ^ 64 + level > 0xff then .error St.INVALID_FORMAT
        else .ok { s with chains := { c with links := { l with lc := l.lc + level } :: ls } :: cs }

/-- `KSI_Signature_signAggregated(ctx, hash, level, &sig)`; `rid` = the id the context gives the request -/
def signAggregated (H : HashFn) (c : Cfg) (hash : Bytes) (level : Nat) (rid ver : Nat) (confAlg : Option Nat)
    (key reply : Bytes) : Except Nat Sig :=
  if level > 0xff then .error St.INVALID_FORMAT
  else if !trusted (hash.headD 0).toNat then .error UNTRUSTED_HASH_ALGORITHM
  else match PduMac.deliver H c .aggr ver confAlg key reply with
    | .error e => .error e
    | .ok pdu =>
      let root := PduMac.rootTagOf reply
      match PduMac.fieldOf c.tabs (PduMac.pduTable .aggr root) (respTag root) pdu with
      | some (.obj fs) =>
        let tn := respName root
        if vInt (fld c.tabs tn 0x01 fs) ≠ some rid then .error REQUEST_ID_MISMATCH
        else match vInt (fld c.tabs tn 0x04 fs) with
        | none => .error St.INVALID_FORMAT
        | some status =>
          let st := PduMac.convAggr status
          if st ≠ 0 then .error st
          else if (flds c.tabs tn 0x801 fs).isEmpty then .error St.INVALID_ARGUMENT      -- sorting the absent chain list
          else
            let s0 := Sig.ofValsIn c.tabs tn fs
            if s0.cal.isNone ∧ s0.auth.isSome then .error St.UNKNOWN_ERROR          -- checkSignatureInternals
            else match addLevel level s0 with
              | .error e => .error e
              | .ok s =>
                let v := verifyWith H Gen.policy_internal s ⟨some hash, 0⟩
                if v.status ≠ 0 then .error v.status
                else match v.final with
                  | some (.ok, _) => .ok s
                  | _ => .error VERIFICATION_FAILURE
      | _ => .error St.INVALID_ARGUMENT

end KsiVerif.Sign
