import KsiVerif.Util.Hex
import KsiVerif.Model.Status
/-!
# TLV codec model (fast_tlv.c, tlv.c, tlv_element.c)

Executable, total, core-Lean-only model of the three TLV codecs of libksi.  Each function
follows the control flow of the C function named in its doc comment: same order of checks,
same early exits, same status code.  Byte arithmetic is done on `Nat` (`b.toNat`), masks
are written as `/` and `%` (the correspondence check compares the result with the C
bit operations on every generated input, and exhaustively on all 2^16 header prefixes).
-/
namespace KsiVerif.Tlv
open KsiVerif

/-- `struct fast_tlv_s` without the offset field. -/
structure Hdr where
  tag : Nat
  nc : Bool
  fwd : Bool
  hdrLen : Nat
  datLen : Nat
deriving Repr, DecidableEq

/-- fast_tlv.c `parseHdr(hdr, len, t)` with `hdr[0..len)` given as the list. -/
def parseHdr (b : Bytes) : Except Nat Hdr :=
  match b with
  | [] => .error St.INVALID_FORMAT
  | b0 :: rest =>
    let tag8 := b0.toNat % 32                -- hdr[0] & KSI_TLV_MASK_TLV8_TYPE
    let nc := b0.toNat / 64 % 2 == 1         -- hdr[0] & KSI_TLV_MASK_LENIENT
    let fwd := b0.toNat / 32 % 2 == 1        -- hdr[0] & KSI_TLV_MASK_FORWARD
    if b0.toNat ≥ 128 then                   -- hdr[0] & KSI_TLV_MASK_TLV16
      match rest with
      | b1 :: b2 :: b3 :: _ =>
        .ok { tag := tag8 * 256 + b1.toNat, nc := nc, fwd := fwd, hdrLen := 4,
              datLen := b2.toNat * 256 + b3.toNat }
      | _ => .error St.INVALID_FORMAT
    else
      match rest with
      | b1 :: _ => .ok { tag := tag8, nc := nc, fwd := fwd, hdrLen := 2, datLen := b1.toNat }
      | _ => .error St.INVALID_FORMAT

/-- fast_tlv.c `KSI_FTLV_memRead(m, l, t)`. (With `l = 0` the function must not look at
`m[0]`; the model returns the `parseHdr` error for the empty input.) -/
def memRead (b : Bytes) : Except Nat Hdr :=
  match parseHdr b with
  | .error e => .error e
  | .ok h => if b.length < h.hdrLen + h.datLen then .error St.INVALID_FORMAT else .ok h

/-- The TLV tree as held by `KSI_TLV`: either a raw payload or a list of nested TLVs. -/
inductive Tlv where
  | raw (tag : Nat) (nc fwd : Bool) (payload : Bytes)
  | nested (tag : Nat) (nc fwd : Bool) (children : List Tlv)
deriving Repr, BEq

def Tlv.tag : Tlv → Nat
  | .raw t _ _ _ => t
  | .nested t _ _ _ => t
def Tlv.nc : Tlv → Bool
  | .raw _ n _ _ => n
  | .nested _ n _ _ => n
def Tlv.fwd : Tlv → Bool
  | .raw _ _ f _ => f
  | .nested _ _ f _ => f

/-! ## Serializer (tlv.c `serializeTlv` / `serializeNested` / `serializeRaw`) -/

def flagBits (nc fwd : Bool) : Nat := (if nc then 64 else 0) + (if fwd then 32 else 0)

/-- The header bytes exactly as `serializeTlv` writes them (right to left in C). -/
def hdrBytesC (tag : Nat) (nc fwd : Bool) (len : Nat) : Bytes :=
  if len > 0xff ∨ tag > 0x1f then
    [UInt8.ofNat (128 + flagBits nc fwd + tag / 256), UInt8.ofNat (tag % 256),
     UInt8.ofNat (len / 256 % 256), UInt8.ofNat (len % 256)]
  else
    [UInt8.ofNat (flagBits nc fwd + tag), UInt8.ofNat (len % 256)]

/-- Tail of `serializeTlv`: header selection, 16-bit length check, room check. -/
def finishHdr (tag : Nat) (nc fwd : Bool) (pl : Bytes) (bufSize : Nat) (withHdr : Bool) :
    Except Nat Bytes :=
  if !withHdr then .ok pl
  else if pl.length > 0xffff then .error St.BUFFER_OVERFLOW
  else
    let hl := if pl.length > 0xff ∨ tag > 0x1f then 4 else 2
    if bufSize < hl + pl.length then .error St.BUFFER_OVERFLOW
    else .ok (hdrBytesC tag nc fwd pl.length ++ pl)

mutual
/-- tlv.c `serializeTlv(tlv, buf, buf_size, &len, opt)` for `buf != NULL`; the result is the
byte string written at the end of the buffer. -/
def serTlv (t : Tlv) (bufSize : Nat) (withHdr : Bool) : Except Nat Bytes :=
  match t with
  | .raw tag nc fwd p =>
    if bufSize < p.length then .error St.INVALID_ARGUMENT      -- serializeRaw
    else finishHdr tag nc fwd p bufSize withHdr
  | .nested tag nc fwd cs =>
    match serList cs bufSize with
    | .error e => .error e
    | .ok pl => finishHdr tag nc fwd pl bufSize withHdr
/-- tlv.c `serializeNested`: children are written last to first, each into the room left
in front of what has been written so far. -/
def serList (cs : List Tlv) (bufSize : Nat) : Except Nat Bytes :=
  match cs with
  | [] => .ok []
  | c :: rest =>
    match serList rest bufSize with
    | .error e => .error e
    | .ok done =>
      match serTlv c (bufSize - done.length) true with
      | .error e => .error e
      | .ok me => .ok (me ++ done)
end

/-- `KSI_TLV_serialize_ex(tlv, buf, buf_size, &len)`. -/
def serialize (t : Tlv) (bufSize : Nat) : Except Nat Bytes := serTlv t bufSize true

/-- `KSI_TLV_serialize`: buffer of `4 + KSI_BUFFER_SIZE` bytes. -/
def serializeDefault (t : Tlv) : Except Nat Bytes := serialize t (4 + 0x10000)

/-! ## Parser (tlv.c `readFirstTlv`, `encodeAsNestedTlvs`, `KSI_TLV_parseBlob2`) -/

/-- tlv.c `readFirstTlv`: the first element as a raw TLV and the number of bytes consumed;
`none` stands for "consumed 0 bytes, no object". -/
def readFirst (b : Bytes) : Option (Tlv × Nat) :=
  if b.isEmpty then none
  else match memRead b with
    | .error _ => none
    | .ok h => some (.raw h.tag h.nc h.fwd ((b.drop h.hdrLen).take h.datLen), h.hdrLen + h.datLen)

theorem parseHdr_hdrLen {b : Bytes} {hd : Hdr} (hp : parseHdr b = .ok hd) :
    hd.hdrLen = 4 ∨ hd.hdrLen = 2 := by
  unfold parseHdr at hp
  split at hp
  · cases hp
  · simp only at hp
    split at hp
    · split at hp
      · cases hp; simp
      · cases hp
    · split at hp
      · cases hp; simp
      · cases hp

theorem memRead_ok {b : Bytes} {hd : Hdr} (h : memRead b = .ok hd) :
    parseHdr b = .ok hd ∧ hd.hdrLen + hd.datLen ≤ b.length := by
  unfold memRead at h
  cases hp : parseHdr b with
  | error e => simp [hp] at h
  | ok hd' =>
    simp only [hp] at h
    split at h
    · cases h
    · cases h; exact ⟨rfl, by omega⟩

theorem readFirst_consumed {b : Bytes} {t : Tlv} {n : Nat} (h : readFirst b = some (t, n)) :
    2 ≤ n ∧ n ≤ b.length := by
  unfold readFirst at h
  split at h
  · cases h
  · cases hm : memRead b with
    | error e => simp [hm] at h
    | ok hd =>
      simp only [hm, Option.some.injEq, Prod.mk.injEq] at h
      have ⟨hp, hl⟩ := memRead_ok hm
      have := parseHdr_hdrLen hp
      omega

/-- tlv.c `encodeAsNestedTlvs`: tile the payload with elements; any element that cannot be
read (short header, declared length beyond the remaining bytes) fails the whole level. -/
def expand (b : Bytes) : Except Nat (List Tlv) :=
  if b.isEmpty then .ok []
  else
    match h : readFirst b with
    | none => .error St.INVALID_FORMAT
    | some (t, n) =>
      match expand (b.drop n) with
      | .error e => .error e
      | .ok ts => .ok (t :: ts)
termination_by b.length
decreasing_by
  have := readFirst_consumed h
  simp only [List.length_drop]
  omega

/-- `KSI_TLV_parseBlob2(ctx, data, data_length, …)`. -/
def parseBlob (b : Bytes) : Except Nat Tlv :=
  if b.length < 2 then .error St.INVALID_ARGUMENT
  else match readFirst b with
    | none => .error St.INVALID_FORMAT
    | some (t, n) => if n ≠ b.length then .error St.INVALID_FORMAT else .ok t

/-- Greedy deep expansion used by the correspondence check: every raw payload that tiles is
replaced by its children (`KSI_TLV_getNestedList` succeeds), to depth `fuel`. -/
def deepen : Nat → Tlv → Tlv
  | 0, t => t
  | fuel + 1, .raw tag nc fwd p =>
    match expand p with
    | .error _ => .raw tag nc fwd p
    | .ok cs => .nested tag nc fwd (cs.map (deepen fuel))
  | _ + 1, t => t

/-! ## Element codec (tlv_element.c) -/

/-- `HDR_LEN(tag, dat_len)` -/
def elHdrLen (tag datLen : Nat) : Nat := if tag > 0x1f ∨ datLen > 0xff then 4 else 2

/-- Header as written by `KSI_TlvElement_serialize`. -/
def elHdrBytes (tag : Nat) (nc fwd : Bool) (len : Nat) : Bytes :=
  if elHdrLen tag len = 4 then
    [UInt8.ofNat (tag / 256 % 32 + 128 + flagBits nc fwd), UInt8.ofNat (tag % 256),
     UInt8.ofNat (len / 256 % 256), UInt8.ofNat (len % 256)]
  else
    [UInt8.ofNat (tag % 32 + flagBits nc fwd), UInt8.ofNat (len % 256)]

/-- common tail of `KSI_TlvElement_serialize`: 16-bit check, room check, header. -/
def elFinish (tag : Nat) (nc fwd : Bool) (pl : Bytes) (bufSize : Nat) (withHdr : Bool) :
    Except Nat Bytes :=
  if pl.length > 0xffff then .error St.BUFFER_OVERFLOW
  else
    let bl := pl.length + (if withHdr then elHdrLen tag pl.length else 0)
    if bl > bufSize then .error St.BUFFER_OVERFLOW
    else .ok ((if withHdr then elHdrBytes tag nc fwd pl.length else []) ++ pl)

def elSizeFinish (tag : Nat) (n : Nat) : Except Nat Nat :=
  if n > 0xffff then .error St.BUFFER_OVERFLOW else .ok (n + elHdrLen tag n)

mutual
/-- `KSI_TlvElement_serialize(el, buf, buf_size, &len, opt)` with `buf != NULL`; an element
with an empty sub-list is a leaf.  Children are first sized (`buf == NULL` pass) and then
written into an exactly fitting window. -/
def elSer (t : Tlv) (bufSize : Nat) (withHdr : Bool) : Except Nat Bytes :=
  match t with
  | .raw tag nc fwd p =>
    if bufSize ≤ p.length then .error St.BUFFER_OVERFLOW
    else elFinish tag nc fwd p bufSize withHdr
  | .nested tag nc fwd [] =>
    if bufSize ≤ 0 then .error St.BUFFER_OVERFLOW else elFinish tag nc fwd [] bufSize withHdr
  | .nested tag nc fwd (c :: cs) =>
    match elSerList (c :: cs) with
    | .error e => .error e
    | .ok pl => elFinish tag nc fwd pl bufSize withHdr
def elSerList (cs : List Tlv) : Except Nat Bytes :=
  match cs with
  | [] => .ok []
  | c :: rest =>
    match elSerList rest with
    | .error e => .error e
    | .ok done =>
      match elSize c with
      | .error e => .error e
      | .ok n =>
        match elSer c n true with
        | .error e => .error e
        | .ok me => .ok (me ++ done)
/-- the sizing pass `KSI_TlvElement_serialize(tmp, NULL, 0, &tmpLen, 0)` -/
def elSize (t : Tlv) : Except Nat Nat :=
  match t with
  | .raw tag _ _ p => elSizeFinish tag p.length
  | .nested tag _ _ cs =>
    match elSizeList cs with
    | .error e => .error e
    | .ok n => elSizeFinish tag n
def elSizeList (cs : List Tlv) : Except Nat Nat :=
  match cs with
  | [] => .ok 0
  | c :: rest =>
    match elSizeList rest with
    | .error e => .error e
    | .ok d => match elSize c with
      | .error e => .error e
      | .ok n => .ok (n + d)
end

end KsiVerif.Tlv
