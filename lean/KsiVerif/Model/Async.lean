import KsiVerif.Model.Tcp
/-!
# Asynchronous service (net_async.c): request cache, ids, response matching, finalisation

Built on the TCP transport model.  A *handle* is an index into `tcp.reqs` (the request object
is shared by the two layers, as in C).  What a received PDU *means* (parsed, authenticated,
its request id and status) is given by an interpretation function — that part is C06/C10.
-/
namespace KsiVerif.Async
open KsiVerif KsiVerif.Tcp

def CACHE_FULL : Nat := 0x607
def HMAC_MISMATCH : Nat := 0x20e
def RECV_TIMEOUT : Nat := St.NETWORK_RECIEVE_TIMEOUT

/-- meaning of one complete PDU taken from the connection -/
inductive Pdu where
  | resp (id : Nat) (status : Nat)     -- authenticated aggregation response
  | errPdu (status : Nat)              -- error PDU (carries no MAC check)
  | conf                               -- authenticated pushed configuration
  | bad (err : Nat)                    -- cannot be parsed / not authenticated: status code it yields
deriving Repr, DecidableEq

/-- `KSI_convertAggregatorStatusCode` -/
def convertStatus (s : Nat) : Nat :=
  if s = 0 then 0
  else if s = 0x101 then 0x400 else if s = 0x102 then 0x401 else if s = 0x103 then 0x402
  else if s = 0x104 then 0x407 else if s = 0x105 then 0x408 else if s = 0x106 then 0x409
  else if s = 0x107 then 0x40a else if s = 0x200 then 0x403 else if s = 0x300 then 0x404
  else if s = 0x301 then 0x405 else 0x406

/-- `KSI_convertExtenderStatusCode` -/
def convertStatusExt (s : Nat) : Nat :=
  if s = 0 then 0
  else if s = 0x101 then 0x400 else if s = 0x102 then 0x401 else if s = 0x103 then 0x402
  else if s = 0x104 then 0x501 else if s = 0x105 then 0x504 else if s = 0x106 then 0x505
  else if s = 0x107 then 0x506 else if s = 0x200 then 0x403 else if s = 0x201 then 0x502
  else if s = 0x202 then 0x503 else if s = 0x300 then 0x404 else if s = 0x301 then 0x405 else 0x406

structure State where
  /-- `options[KSI_ASYNC_OPT_REQUEST_CACHE_SIZE]` = configured size + 1 (slot 0 is reserved) -/
  size : Nat
  /-- the extending service (`KSI_ExtendingAsyncService_new`): it differs from the signing one in the status conversion only -/
  ext : Bool := false
  slots : List (Option Nat)
  requestCount : Nat := 0
  offset : Nat := 0
  tail : Nat := 1
  pending : Nat := 0
  received : Nat := 0
  /-- full 64-bit request id of every handle -/
  ids : List Nat := []
  /-- a pushed configuration waiting to be handed out -/
  conf : Bool := false
  tcp : Tcp.State := {}
deriving Repr

/-- the service's own status conversion (`convertStatusCode` argument of `handleResponse` / `processResponseQueue`) -/
def State.conv (s : State) (st : Nat) : Nat := if s.ext then convertStatusExt st else convertStatus st

def init (configured : Nat) : State :=
  { size := configured + 1, slots := List.replicate (configured + 1) none }

/-- `++c->requestCount`, wrapping to the first usable slot and bumping the id generation -/
def bump (s : State) : State :=
  if s.requestCount + 1 = s.size then { s with offset := (s.offset + 1) % 0xff, requestCount := 1 }
  else { s with requestCount := s.requestCount + 1 }

/-- `asyncClient_calculateRequestId`; returns the new counters and the slot, or "cache full" -/
def calcId : Nat → State → Option (State × Nat)
  | 0, _ => none
  | fuel + 1, s =>
    if s.size = s.pending + s.received + 1 then none
    else if ((bump s).slots.getD (bump s).requestCount none).isSome then calcId fuel (bump s)
    else some (bump s, (bump s).requestCount)

/-- `KSI_AsyncService_addRequest` for a signing request; returns status and the id given -/
def add (s : State) (now : Nat) : State × Nat × Nat :=
  match calcId (s.size + 1) s with
  | none => (s, CACHE_FULL, 0)
  | some (s, slot) =>
    let id := s.offset * 2 ^ 32 + slot
    let h := s.tcp.reqs.length
    let tcp := Tcp.enqueue s.tcp [0] now
    ({ s with tcp := tcp, slots := s.slots.set slot (some h), pending := s.pending + 1, ids := s.ids ++ [id] }, 0, id)

/-- `asyncClient_setOption(c, KSI_ASYNC_OPT_REQUEST_CACHE_SIZE, n)` on a client in use: the cache
may only grow; every slot keeps its handle -/
def grow (s : State) (n : Nat) : State × Nat :=
  if n + 1 < s.size then (s, St.INVALID_ARGUMENT)
  else ({ s with size := n + 1, slots := s.slots ++ List.replicate (n + 1 - s.size) none }, 0)

/-- `asyncClient_setResponseError(c, WAITING_FOR_RESPONSE, err)` -/
def failWaiting (s : State) (err : Nat) : State :=
  { s with tcp := s.slots.foldl (fun tcp o =>
      match o with
      | some h => if (tcp.getReq h).state = .waitResponse then tcp.setReq h fun r => { r with state := .error err } else tcp
      | none => tcp) s.tcp }

/-- `handleResponse` for one authenticated response -/
def handleResp (s : State) (id status : Nat) : State :=
  let slot := id % 2 ^ 32
  if s.size ≤ slot then s
  else match s.slots.getD slot none with
    | none => s
    | some h =>
      if s.ids.getD h 0 ≠ id then s
      else if (s.tcp.getReq h).state ≠ .waitResponse then s
      else if s.conv status ≠ 0 then
        { s with tcp := s.tcp.setReq h fun r => { r with state := .error (s.conv status) } }
      else
        { s with tcp := s.tcp.setReq h fun r => { r with state := .received },
                 pending := s.pending - 1, received := s.received + 1 }

/-- `processResponseQueue`: PDUs are taken one by one; a bad PDU stops processing (the rest stay
queued) and its status is returned; an error PDU is applied after the queue has been drained -/
def processQueue (interp : Bytes → Pdu) : Nat → State → Option Nat → State × Nat
  | 0, s, _ => (s, 0)
  | fuel + 1, s, errPdu =>
    match s.tcp.respQueue with
    | [] =>
      match errPdu with
      | some st => (failWaiting s (s.conv st), 0)
      | none => (s, 0)
    | p :: rest =>
      let s := { s with tcp := { s.tcp with respQueue := rest } }
      match interp p with
      | .bad e => (s, e)
      | .errPdu st => processQueue interp fuel s (some st)
      | .conf =>
        -- no configuration was requested: an empty handle is created for the pushed one
        let s := if s.conf then s else { s with conf := true, received := s.received + 1 }
        processQueue interp fuel s errPdu
      | .resp id st => processQueue interp fuel (handleResp s id st) errPdu

inductive Returned where
  | none
  | conf
  | handle (h : Nat) (state : Nat) (err : Nat)
deriving Repr, DecidableEq

/-- `asyncClient_finalizeRequest` on the handle in a slot -/
def finalize (s : State) (rcvTimeout now : Nat) (h : Nat) : Option (State × Returned) :=
  let r := s.tcp.getReq h
  match r.state with
  | .waitResponse =>
    if rcvTimeout = 0 ∨ now - r.sndTime > rcvTimeout then
      some ({ s with pending := s.pending - 1,
                     tcp := s.tcp.setReq h fun q => { q with state := .error RECV_TIMEOUT } }, .handle h 5 RECV_TIMEOUT)
    else none
  | .error e => some ({ s with pending := s.pending - 1 }, .handle h 5 e)
  | .received => some ({ s with received := s.received - 1 }, .handle h 3 0)
  | _ => none

/-- is the handle under the tail finalized? -/
def here (s : State) (rcvTimeout now : Nat) : Option (State × Returned) :=
  match s.slots.getD s.tail none with
  | some h => finalize s rcvTimeout now h
  | none => none

/-- `if (++c->tail == size) c->tail = KSI_ASYNC_CACHE_START_POS` -/
def advance (s : State) : State := { s with tail := if s.tail + 1 = s.size then 1 else s.tail + 1 }

/-- the tail scan of `asyncClient_findNextResponse` -/
def scan (rcvTimeout now : Nat) : Nat → State → Nat → State × Returned
  | 0, s, _ => (s, .none)
  | fuel + 1, s, last =>
    match here s rcvTimeout now with
    | some (s', ret) => ({ s' with slots := s'.slots.set s.tail none }, ret)
    | none => if (advance s).tail = last then (advance s, .none) else scan rcvTimeout now fuel (advance s) last

def findNext (s : State) (rcvTimeout now : Nat) : State × Returned :=
  if s.pending = 0 ∧ s.received = 0 then (s, .none)
  else if s.conf then ({ s with conf := false, received := s.received - 1 }, .conf)
  else scan rcvTimeout now (s.size + 1) s s.tail

/-- `asyncClient_run` -/
def run (interp : Bytes → Pdu) (o : Tcp.Opts) (rcvTimeout : Nat) (e : Tcp.Env) (s : State) : State × Returned :=
  let (tcp, rc) := Tcp.dispatch o e s.tcp
  let s := { s with tcp := tcp }
  let closed := rc = Tcp.CONNECTION_CLOSED
  let s := if !closed ∧ rc ≠ 0 then failWaiting s rc else s
  let (s, hr) := processQueue interp (s.tcp.respQueue.length + 1) s none
  let s := if hr ≠ 0 then failWaiting s hr else s
  let s := if closed then failWaiting s Tcp.CONNECTION_CLOSED else s
  findNext s rcvTimeout e.now

end KsiVerif.Async
