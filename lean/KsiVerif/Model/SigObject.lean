import KsiVerif.Model.Verify
import KsiVerif.Spec.Tlv
/-!
# The signature object: what is kept, what is memoised (signature.c, hashchain.c:1013)

* serialization is the encoding of the element tree kept from parsing (`baseTlv`); the template decides which
  elements of that tree were opened (`reparse` along a shape);
* the only state a verification leaves in the object is, per aggregation chain, the last computed
  `(inputLevel, outputLevel, outputHash)` (`KSI_AggregationHashChain_aggregate`); every rule reaches chain outputs
  through that function only.  A verification is therefore a program over that one call (`Prog`).
-/
namespace KsiVerif.SigObj
open KsiVerif KsiVerif.Tlv KsiVerif.TlvSpec KsiVerif.HashChain KsiVerif.Verify

mutual
/-- re-open a freshly parsed (flat) element along `shape`: nested where the shape is nested -/
def reparse : Tlv → Tlv → Tlv
  | .nested _ _ _ cs, .raw tag nc fwd p =>
    match expand p with
    | .ok fs => .nested tag nc fwd (reparseList cs fs)
    | .error _ => .raw tag nc fwd p
  | _, f => f
def reparseList : List Tlv → List Tlv → List Tlv
  | c :: cs, f :: fs => reparse c f :: reparseList cs fs
  | _, fs => fs
end

/-- memo of one chain: `(inputLevel, outputLevel, outputHash)`, `none` = `outputHash == NULL` -/
abbrev Cache := Option (Nat × Nat × Bytes)

/-- `KSI_AggregationHashChain_aggregate(chain, startLevel, &endLevel, &root)` with its memo -/
def aggrMemo (H : HashFn) (c : AggrChain) (cache : Cache) (start : Nat) : Except Nat (Nat × Bytes) × Cache :=
  if start > 0xff then (.error St.INVALID_ARGUMENT, cache)
  else
    let compute : Except Nat (Nat × Bytes) × Cache :=
      match aggrChain H c start with
      | .ok r => (.ok r, some (start, r.1, r.2))
      | .error e => (.error e, none)
    match cache with
    | some (s, l, o) => if s = start then (.ok (l, o), cache) else compute
    | none => compute

/-- a computation whose only access to chain outputs is `aggregate(chain i, start)` -/
inductive Prog (α : Type) where
  | ret (a : α)
  | call (i : Nat) (start : Nat) (k : Except Nat (Nat × Bytes) → Prog α)

/-- on a fresh object / with the pure function -/
def runPure (H : HashFn) (chains : List AggrChain) : Prog α → α
  | .ret a => a
  | .call i start k =>
    match chains[i]? with
    | some c => runPure H chains (k (aggrChain H c start))
    | none => runPure H chains (k (.error St.INVALID_ARGUMENT))

/-- on the real object: memo consulted and updated -/
def runMemo (H : HashFn) (chains : List AggrChain) : Prog α → List Cache → α × List Cache
  | .ret a, cs => (a, cs)
  | .call i start k, cs =>
    match chains[i]?, cs[i]? with
    | some c, some cache =>
      let r := aggrMemo H c cache start
      runMemo H chains (k r.1) (cs.set i r.2)
    | _, _ => runMemo H chains (k (.error St.INVALID_ARGUMENT)) cs

/-- one operation of a history on one object -/
inductive Op (α : Type) where
  | verify (p : Prog α)
  | serialize
  | clone

inductive Out (α : Type) where
  | verdict (a : α)
  | bytes (b : Bytes)

structure Obj where
  tree : Tlv
  chains : List AggrChain
  caches : List Cache

def fresh (tree : Tlv) (chains : List AggrChain) : Obj := ⟨tree, chains, chains.map fun _ => none⟩

/-- an operation on the object: its output and the object afterwards (a clone is parsed again from the kept tree: its
serialization is that of the tree) -/
def step (H : HashFn) (o : Obj) : Op α → Out α × Obj
  | .verify p => let r := runMemo H o.chains p o.caches; (.verdict r.1, { o with caches := r.2 })
  | .serialize => (.bytes (encode o.tree), o)
  | .clone => (.bytes (encode (fresh o.tree o.chains).tree), o)

def history (H : HashFn) : Obj → List (Op α) → List (Out α)
  | _, [] => []
  | o, op :: ops => let r := step H o op; r.1 :: history H r.2 ops

end KsiVerif.SigObj
