import KsiVerif.Model.Tlv
/-!
# A heap under the SDK's container and TLV code (C19, the modelled core)

The SDK allocates through one funnel (`KSI_malloc` / `KSI_calloc` / `KSI_free`, base.c:1033-1045). The model makes that funnel
explicit: blocks are numbered in the order they are requested, a *fault plan* `f : Nat → Bool` says which requests are refused,
`free` of a block that is not live sets `bad` (double free, free of a wild pointer). On top of it, written after the C code
line by line:

* `listNew`, `listAppend`, `listFree` — list.c `KSI_List_new` (two blocks: the list, its implementation record),
  `appendElement` (a new array of `size + 10` entries when the array is full, the old one released), `KSI_List_free`
  (elements through the element destructor, array, record, list);
* `lstOp n` — a list of `n` integers built and freed (executor op `lst`);
* `encodeNested` — tlv.c `encodeAsNestedTlvs`: a new list, per child one `KSI_TLV` and one append; on failure the child in
  hand and the list built so far are released;
* `tlvpOp t` — `KSI_TLV_parseBlob` (copy of the octets, the element), `KSI_TLV_getNestedList` on every element the caller
  treats as composite (depth first, the whole child list first), `KSI_TLV_free` of the root (executor op `tlvp`).

Everything a composite element allocates is owned by the root element at every moment except inside `encodeNested`, so the
model carries the set of owned blocks as a flat list.
-/
namespace KsiVerif.Alloc

structure Heap where
  /-- allocation requests so far -/
  count : Nat := 0
  /-- blocks handed out and not yet released -/
  live : List Nat := []
  /-- a block was released that was not live -/
  bad : Bool := false
deriving Repr, DecidableEq

/-- which requests (numbered from 1) are refused -/
abbrev Fail := Nat → Bool

def alloc (f : Fail) (h : Heap) : Option Nat × Heap :=
  if f (h.count + 1) then (none, { h with count := h.count + 1 })
  else (some (h.count + 1), { h with count := h.count + 1, live := (h.count + 1) :: h.live })

def free (b : Nat) (h : Heap) : Heap :=
  if b ∈ h.live then { h with live := h.live.erase b } else { h with bad := true }

def freeAll (bs : List Nat) (h : Heap) : Heap := bs.foldl (fun h b => free b h) h

/-! ## list.c -/

structure KList where
  hdr : Nat
  impl : Nat
  arr : Option Nat
  size : Nat
  /-- the blocks of the elements (one per element here), in order -/
  elems : List Nat
deriving Repr

def KList.blocks (l : KList) : List Nat := l.elems ++ (l.arr.toList ++ [l.impl, l.hdr])

/-- `KSI_List_new` -/
def listNew (f : Fail) (h : Heap) : Option KList × Heap :=
  match alloc f h with
  | (none, h1) => (none, h1)
  | (some a, h1) =>
    match alloc f h1 with
    | (none, h2) => (none, free a h2)
    | (some b, h2) => (some ⟨a, b, none, 0, []⟩, h2)

/-- `appendElement` (KSI_LIST_SIZE_INCREMENT = 10) -/
def listAppend (f : Fail) (l : KList) (x : Nat) (h : Heap) : Option KList × Heap :=
  if l.elems.length + 1 > l.size then
    match alloc f h with
    | (none, h1) => (none, h1)
    | (some a, h1) =>
      let h2 := match l.arr with | some o => free o h1 | none => h1
      (some { l with arr := some a, size := l.size + 10, elems := l.elems ++ [x] }, h2)
  else (some { l with elems := l.elems ++ [x] }, h)

/-- `KSI_List_free` with a destructor that releases one block per element -/
def listFree (l : KList) (h : Heap) : Heap := freeAll l.blocks h

/-- `n` times: make an element (one block), append it; on a failed append the element in hand is released.
Returns whether all went well and the list as it then is (the caller releases it either way). -/
def fill (f : Fail) : Nat → KList → Heap → Bool × KList × Heap
  | 0, l, h => (true, l, h)
  | n + 1, l, h =>
    match alloc f h with
    | (none, h1) => (false, l, h1)
    | (some x, h1) =>
      match listAppend f l x h1 with
      | (none, h2) => (false, l, free x h2)
      | (some l', h2) => fill f n l' h2

/-- executor op `lst n`: a list of `n` integers, built and released -/
def lstOp (f : Fail) (n : Nat) (h : Heap) : Bool × Heap :=
  match listNew f h with
  | (none, h1) => (false, h1)
  | (some l, h1) =>
    match fill f n l h1 with
    | (ok, l', h2) => (ok, listFree l' h2)

/-! ## tlv.c -/

/-- `encodeAsNestedTlvs` for an element with `n` children: the blocks of the new list and its children, or nothing left
allocated -/
def encodeNested (f : Fail) (n : Nat) (h : Heap) : Option (List Nat) × Heap :=
  match listNew f h with
  | (none, h1) => (none, h1)
  | (some l, h1) =>
    match fill f n l h1 with
    | (true, l', h2) => (some l'.blocks, h2)
    | (false, l', h2) => (none, listFree l' h2)

/-- an element as the caller walks it: composite (tag ≥ 0x100, with its children) or plain -/
inductive TT where
  | node (tag : Nat) (kids : List TT)
deriving Repr

mutual
/-- the caller's walk: `KSI_TLV_getNestedList` on every composite element, its children first built, then walked -/
def walk (f : Fail) : TT → List Nat → Heap → Bool × List Nat × Heap
  | .node tag kids, own, h =>
    if tag < 256 then (true, own, h)
    else
      match encodeNested f kids.length h with
      | (none, h1) => (false, own, h1)
      | (some bs, h1) => walkList f kids (bs ++ own) h1
def walkList (f : Fail) : List TT → List Nat → Heap → Bool × List Nat × Heap
  | [], own, h => (true, own, h)
  | k :: ks, own, h =>
    match walk f k own h with
    | (false, own', h') => (false, own', h')
    | (true, own', h') => walkList f ks own' h'
end

/-- executor op `tlvp`: `KSI_TLV_parseBlob`, the walk, `KSI_TLV_free` -/
def tlvpOp (f : Fail) (t : TT) (h : Heap) : Bool × Heap :=
  match alloc f h with
  | (none, h1) => (false, h1)
  | (some buf, h1) =>
    match alloc f h1 with
    | (none, h2) => (false, free buf h2)
    | (some el, h2) =>
      match walk f t [el, buf] h2 with
      | (ok, own, h3) => (ok, freeAll own h3)

/-! ## allocation counts of the fault-free runs -/

def lstCount (n : Nat) : Nat := 2 + n + (n + 9) / 10

mutual
def walkCount : TT → Nat
  | .node tag kids => if tag < 256 then 0 else lstCount kids.length + walkCountList kids
def walkCountList : List TT → Nat
  | [] => 0
  | k :: ks => walkCount k + walkCountList ks
end

def tlvpCount (t : TT) : Nat := 2 + walkCount t

/-! ## reading the executor's arguments -/

/-- the structure the executor's walk sees in an encoded element: children of every element whose tag is ≥ 0x100 -/
def ttOf : Nat → Tlv.Tlv → Option TT
  | 0, _ => none
  | fuel + 1, t =>
    if t.tag < 256 then some (.node t.tag [])
    else
      let kids : Option (List Tlv.Tlv) := match t with
        | .raw _ _ _ p => (Tlv.expand p).toOption
        | .nested _ _ _ cs => some cs
      match kids with
      | none => none
      | some cs =>
        let rec go : List Tlv.Tlv → Option (List TT)
          | [] => some []
          | c :: cs => match ttOf fuel c, go cs with
            | some a, some as => some (a :: as)
            | _, _ => none
        (go cs).map (TT.node t.tag)

def never : Fail := fun _ => false
def only (k : Nat) : Fail := fun i => i == k

/-- for the driver: allocations of the fault-free run and, for a single fault at request `k`, whether the operation still
succeeds — computed by running the model -/
def modelSweep (op : String) (args : List String) : Option (Nat × (Nat → Bool)) :=
  match op, args with
  | "lst", n :: _ =>
    match n.toNat? with
    | some n => some ((lstOp never n {}).2.count, fun k => (lstOp (only k) n {}).1)
    | none => none
  | "tlvp", hex :: _ =>
    match (ofHex hex).bind (fun b => (Tlv.parseBlob b).toOption) |>.bind (ttOf 32) with
    | some t => some ((tlvpOp never t {}).2.count, fun k => (tlvpOp (only k) t {}).1)
    | none => none
  | _, _ => none

end KsiVerif.Alloc
