import KsiVerif.Model.VerifyPolicy
import KsiVerif.Model.PubFile
/-!
# Trust-anchor rules (verification_rule.c:2305-5230): calendar-based, key-based, publications-file-based,
user-publication-based and general policies

What lies outside the signature is a `World`: the user publication, whether extending is allowed, what
`receiveCalendarHashChain` brings back for a request (the authenticated, id- and status-checked reply of the extender, or
the status it failed with), the publications file (or the status with which it could not be had), and OpenSSL's answers
about a listed certificate.  Each read rule reads the chain fetched by the fetch rule that precedes it in every
predefined policy (`fetchedFor`).
-/
namespace KsiVerif.Anchor
open KsiVerif KsiVerif.HashChain KsiVerif.Policy KsiVerif.Verify KsiVerif.PubFile

def PUB (n : Nat) : Nat := 0x300 + n
def KEY (n : Nat) : Nat := 0x400 + n
def CAL (n : Nat) : Nat := 0x500 + n

structure World where
  userPub : Option PubData := none
  extendingAllowed : Bool := false
  /-- `receiveCalendarHashChain(info, end)` for a request (aggregation time, publication time): the chain put into
  `tempData` (possibly none: a reply without a chain), or the status it failed with -/
  fetch : Nat → Option Nat → Except Nat (Option CalChain) := fun _ _ => .error St.INVALID_ARGUMENT
  /-- `initPublicationsFile`: the file's certificate and publication records, or the status -/
  pubfile : Except Nat PubFile := .error St.INVALID_ARGUMENT
  /-- validity window of a listed certificate (`notBefore`, `notAfter`) -/
  certWindow : Bytes → Nat × Nat := fun _ => (0, 0)
  /-- `KSI_PKITruststore_verifyRawSignature(data, sigtype, signature, cert)` = OK -/
  rawSigOK : Bytes → Bytes → Bytes → Bytes → Bool := fun _ _ _ _ => false
  /-- certificate id, signature type, signature value and the signed octets (serialized published data) of the calendar
  authentication record -/
  authSig : Option (Bytes × Bytes × Bytes × Bytes) := none

/-- `isFatalError` -/
def fatal (st : Nat) : Bool := st = 0x200 ∨ st = St.INVALID_ARGUMENT ∨ st = 0x104 ∨ st = St.UNKNOWN_ERROR

/-- `HANDLE_RESOURCE_FAILURE`: a failed fetch is inconclusive, unless the failure is one of the four fatal ones -/
def resourceFailure (st : Nat) : Outcome := if fatal st then errOut st else ⟨0, .na, GEN 2⟩

def naGen : Outcome := ⟨0, .na, GEN 2⟩

/-- start time of an extension request made by a rule -/
def startTime (s : Sig) : Option Nat :=
  match s.cal with
  | some c => some (c.aggrTime.getD c.pubTime)
  | none => s.chains.head?.map (·.time)

/-- `receiveCalendarHashChain(info, endTime)` -/
def receive (s : Sig) (w : World) (endTime : Option Nat) : Except Nat (Option CalChain) :=
  match startTime s with
  | none => .error St.INVALID_ARGUMENT
  | some t => if endTime.any (fun e => t > e) then .error St.INVALID_ARGUMENT else w.fetch t endTime

def nearestPub (s : Sig) (pf : PubFile) : Option PubRec := nearest pf.pubs s.signTime

/-- which extension request precedes a read rule in the predefined policies -/
inductive Fetch where
  | head | samePub | user | pubfile
deriving DecidableEq, Repr

def fetched (s : Sig) (w : World) : Fetch → Except Nat (Option CalChain)
  | .head => receive s w none
  | .samePub => receive s w (s.cal.map (·.pubTime))
  | .user => receive s w (w.userPub.map (·.time))
  | .pubfile =>
    match w.pubfile with
    | .ok pf => match nearestPub s pf with
      | some p => receive s w (some p.time)
      | none => .error St.INVALID_STATE
    | .error e => .error e

/-- a read rule's view: the chain in `tempData`; without one `getExtendedCalendarHashChain` fails -/
def chainOf (s : Sig) (w : World) (k : Fetch) : Except Nat CalChain :=
  match fetched s w k with
  | .ok (some c) => .ok c
  | _ => .error St.INVALID_STATE

/-- the calendar-based policy fetches to the calendar head when the signature has no calendar chain, else to the same
publication time -/
def calKind (s : Sig) : Fetch := if s.cal.isNone then .head else .samePub

def aggrOut (H : HashFn) (s : Sig) : Option Bytes :=
  match consistency H s.chains none 0 with
  | .ok out => some out
  | .error _ => none

/-- left links whose sibling algorithm was deprecated (or obsolete) at the chain's publication time -/
def calDeprecated (c : CalChain) : Bool :=
  (c.links.filter (·.isLeft)).any fun l =>
    let r := checkAlgoAt (l.algo : Int) (asTime c.pubTime)
    r == HASH_ALGORITHM_DEPRECATED || r == HASH_ALGORITHM_OBSOLETE

def calRootOf (H : HashFn) (c : CalChain) : Except Nat Bytes := calRoot H c

def rightsOf (c : CalChain) : List (Nat × Bytes) := (c.links.filter (!·.isLeft)).map fun l => (l.algo, l.digest)

def okIf (b : Bool) (bad : Outcome) : Outcome := if b then okOut else bad

/-- the rules outside the internal set; every other name is the internal rule -/
def ruleA (H : HashFn) (s : Sig) (x : VCtx) (w : World) (name : String) : Outcome :=
  match name with
  -- ---- calendar-based ----
  | "ExtendSignatureCalendarChainInputHashToHead" =>
    (match receive s w none with | .ok _ => okOut | .error e => resourceFailure e)
  | "ExtendSignatureCalendarChainInputHashToSamePubTime" =>
    (match s.cal with
     | none => errOut St.INVALID_STATE
     | some c => match receive s w (some c.pubTime) with | .ok _ => okOut | .error e => resourceFailure e)
  | "ExtendedSignatureCalendarChainInputHash" =>
    (match chainOf s w (calKind s) with
     | .error e => errOut e
     | .ok c => okIf (aggrOut H s == some c.inputHash) (failOut (CAL 2)))
  | "ExtendedSignatureCalendarChainAggregationTime" =>
    (match chainOf s w (calKind s), s.chains.head? with
     | .ok c, some a => okIf (a.time == c.aggrTime.getD c.pubTime) (failOut (CAL 3))
     | .error e, _ => errOut e
     | _, none => errOut St.INVALID_ARGUMENT)
  | "ExtendedSignatureCalendarChainRightLinksMatch" =>
    (match chainOf s w .samePub, s.cal with
     | .ok c, some old => okIf (rightsOf old == rightsOf c) (failOut (CAL 4))
     | .error e, _ => errOut e
     | _, none => errOut St.INVALID_ARGUMENT)
  | "ExtendedSignatureCalendarChainRootHash" =>
    (match chainOf s w .samePub, s.cal with
     | .ok c, some old =>
       (match calRootOf H old, calRootOf H c with
        | .ok r1, .ok r2 => okIf (r1 == r2) (failOut (CAL 1))
        | .error e, _ => errOut e
        | _, .error e => errOut e)
     | .error e, _ => errOut e
     | _, none => errOut St.INVALID_ARGUMENT)
  -- ---- user publication ----
  | "UserProvidedPublicationExistence" => if w.userPub.isSome then okOut else naNone
  | "RequireNoUserProvidedPublication" => if w.userPub.isSome then naGen else okOut
  | "SignaturePublicationRecordMissing" => if s.pub.isSome then naNone else okOut
  | "UserProvidedPublicationTimeVerification" =>
    (match s.pub, w.userPub with
     | some p, some u => okIf (p.time == u.time) naGen
     | _, _ => errOut St.UNKNOWN_ERROR)
  | "UserProvidedPublicationTimeDoesNotSuit" =>
    (match s.pub, w.userPub with
     | some p, some u => if p.time == u.time then naNone else okOut
     | _, _ => okOut)
  | "UserProvidedPublicationHashVerification" =>
    (match s.pub, w.userPub with
     | some p, some u => okIf (p.imprint == u.imprint) (failOut (PUB 4))
     | _, _ => errOut St.UNKNOWN_ERROR)
  | "UserProvidedPublicationSignatureCalendarChainHashAlgorithmDeprecatedAtPubTime" =>
    (match s.cal with | some c => okIf (!calDeprecated c) naGen | none => errOut St.INVALID_ARGUMENT)
  | "UserProvidedPublicationCreationTimeVerification" =>
    (match startTime s, w.userPub with
     | some t, some u => okIf (t < u.time) naGen
     | _, _ => errOut St.INVALID_ARGUMENT)
  | "UserProvidedPublicationExtendingPermittedVerification" => okIf w.extendingAllowed naGen
  | "UserProvidedPublicationExtendToPublication" =>
    (match w.userPub with
     | none => errOut St.INVALID_ARGUMENT
     | some u => match receive s w (some u.time) with | .ok _ => okOut | .error e => resourceFailure e)
  | "UserProvidedPublicationExtendedCalendarChainHashAlgorithmDeprecatedAtPubTime" =>
    (match chainOf s w .user with | .error e => errOut e | .ok c => okIf (!calDeprecated c) naGen)
  | "UserProvidedPublicationHashMatchesExtendedResponse" =>
    (match chainOf s w .user, w.userPub with
     | .ok c, some u => (match calRootOf H c with | .ok r => okIf (r == u.imprint) (failOut (PUB 1)) | .error e => errOut e)
     | .error e, _ => errOut e
     | _, none => errOut St.INVALID_ARGUMENT)
  | "UserProvidedPublicationTimeMatchesExtendedResponse" =>
    (match chainOf s w .user, w.userPub with
     | .ok c, some u =>
       if u.time != c.pubTime then failOut (PUB 2)
       else okIf (c.aggrTime == some s.signTime) (failOut (PUB 2))
     | .error e, _ => errOut e
     | _, none => errOut St.INVALID_ARGUMENT)
  | "UserProvidedPublicationExtendedSignatureInputHash" =>
    (match chainOf s w .user with
     | .error e => errOut e
     | .ok c => okIf (aggrOut H s == some c.inputHash) (failOut (PUB 3)))
  -- ---- publications file ----
  | "PublicationsFileContainsSignaturePublication" =>
    (match s.pub, w.pubfile with
     | some p, .ok pf => if (byTime pf.pubs p.time).isSome then okOut else naNone
     | some _, .error e => resourceFailure e
     | none, _ => errOut St.UNKNOWN_ERROR)
  | "PublicationsFileDoesNotContainSignaturePublication" =>
    (match s.pub, w.pubfile with
     | some p, .ok pf => if (byTime pf.pubs p.time).isSome then naNone else okOut
     | some _, .error e => resourceFailure e
     | none, _ => errOut St.UNKNOWN_ERROR)
  | "PublicationsFileSignaturePublicationVerification" =>
    (match s.pub, w.pubfile with
     | some p, .ok pf => okIf (findPub pf.pubs p.time p.imprint).isSome (failOut (PUB 5))
     | some _, .error e => resourceFailure e
     | none, _ => errOut St.UNKNOWN_ERROR)
  | "PublicationsFileSignatureCalendarChainHashAlgorithmDeprecatedAtPubTime" =>
    (match s.cal with | some c => okIf (!calDeprecated c) naGen | none => errOut St.INVALID_ARGUMENT)
  | "PublicationsFileContainsSuitablePublication" =>
    (match w.pubfile with
     | .ok pf => okIf (nearestPub s pf).isSome naGen
     | .error e => resourceFailure e)
  | "PublicationsFileExtendingPermittedVerification" => okIf w.extendingAllowed naGen
  | "PublicationsFileExtendToPublication" =>
    (match w.pubfile with
     | .error e => resourceFailure e
     | .ok pf => match nearestPub s pf with
       | none => errOut St.UNKNOWN_ERROR
       | some p => match receive s w (some p.time) with | .ok _ => okOut | .error e => resourceFailure e)
  | "PublicationsFileExtendedCalendarChainHashAlgorithmDeprecatedAtPubTime" =>
    (match w.pubfile with
     | .error e => resourceFailure e
     | .ok _ => match chainOf s w .pubfile with | .error e => errOut e | .ok c => okIf (!calDeprecated c) naGen)
  | "PublicationsFilePublicationHashMatchesExtenderResponse" =>
    (match w.pubfile with
     | .error e => resourceFailure e
     | .ok pf => match nearestPub s pf, chainOf s w .pubfile with
       | some p, .ok c => (match calRootOf H c with | .ok r => okIf (r == p.imprint) (failOut (PUB 1)) | .error e => errOut e)
       | _, .error e => errOut e
       | none, _ => errOut St.UNKNOWN_ERROR)
  | "PublicationsFilePublicationTimeMatchesExtenderResponse" =>
    (match w.pubfile with
     | .error e => resourceFailure e
     | .ok pf => match nearestPub s pf, chainOf s w .pubfile with
       | some p, .ok c =>
         if p.time != c.pubTime then failOut (PUB 2)
         else okIf (c.aggrTime == some s.signTime) (failOut (PUB 2))
       | _, .error e => errOut e
       | none, _ => errOut St.UNKNOWN_ERROR)
  | "PublicationsFileExtendedSignatureInputHash" =>
    (match w.pubfile with
     | .error e => resourceFailure e
     | .ok _ => match chainOf s w .pubfile with
       | .error e => errOut e
       | .ok c => okIf (aggrOut H s == some c.inputHash) (failOut (PUB 3)))
  -- ---- key-based ----
  | "CalendarHashChainPresenceVerification" => okIf s.cal.isSome naGen
  | "CalendarHashChainHashAlgorithmDeprecatedAtPubTime" =>
    (match s.cal with | some c => okIf (!calDeprecated c) naGen | none => errOut St.INVALID_ARGUMENT)
  | "CalendarAuthenticationRecordPresenceVerification" => okIf s.auth.isSome naGen
  | "CertificateExistence" =>
    (match w.authSig, w.pubfile with
     | some (cid, _, _, _), .ok pf => okIf (certById pf.certs cid).isSome naGen
     | some _, .error e => resourceFailure e
     | none, _ => errOut St.UNKNOWN_ERROR)
  | "CertificateValidity" =>
    (match w.authSig, w.pubfile, s.cal with
     | some (cid, _, _, _), .ok pf, some c =>
       (match certById pf.certs cid with
        | none => errOut St.UNKNOWN_ERROR
        | some cr =>
          let t := c.aggrTime.getD c.pubTime
          let (nb, na) := w.certWindow cr.cert
          okIf (!(t < nb || na < t)) (failOut (KEY 3)))
     | some _, .error e, _ => resourceFailure e
     | _, _, _ => errOut St.UNKNOWN_ERROR)
  | "CalendarAuthenticationRecordSignatureVerification" =>
    (match w.authSig, w.pubfile with
     | some (cid, sigType, sigVal, data), .ok pf =>
       (match certById pf.certs cid with
        | none => errOut St.UNKNOWN_ERROR
        | some cr => okIf (w.rawSigOK data sigType sigVal cr.cert) (failOut (KEY 2)))
     | some _, .error e => resourceFailure e
     | none, _ => errOut St.UNKNOWN_ERROR)
  | _ => rule H s x name

/-- the basic rule with identity `id` in the world `w` -/
def ρA (H : HashFn) (s : Sig) (x : VCtx) (w : World) (id : Nat) : Outcome := ruleA H s x w (Gen.ruleNames.getD id "?")

def verifyIn (H : HashFn) (pol : PolicyRules) (s : Sig) (x : VCtx) (w : World) : Verdict := Policy.verify (ρA H s x w) [pol]

end KsiVerif.Anchor
