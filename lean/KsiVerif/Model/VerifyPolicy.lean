import KsiVerif.Model.Verify
import KsiVerif.Gen.Policies
/-!
# Verifying a signature under a predefined policy

The rule trees are the generated ones (`Gen.policy_*`, walked out of the built library on every
run); a basic rule's identity is its position in the alphabetical list of
`KSI_VerificationRule_*` declarations, and `ρ` is the model's implementation of each.
-/
namespace KsiVerif.Verify
open KsiVerif KsiVerif.HashChain KsiVerif.Policy

/-- the basic rule with identity `id`, applied to signature `s` in context `x` -/
def ρ (H : HashFn) (s : Sig) (x : VCtx) (id : Nat) : Outcome := rule H s x (Gen.ruleNames.getD id "?")

/-- `KSI_SignatureVerifier_verify(policy, ctx, &result)` -/
def verifyWith (H : HashFn) (pol : PolicyRules) (s : Sig) (x : VCtx) : Verdict := Policy.verify (ρ H s x) [pol]

def VERIFICATION_FAILURE : Nat := 0x20a

/-- `KSI_Signature_verifyWithPolicy`: the status the caller sees -/
def apiStatus (x : VCtx) (v : Verdict) : Nat :=
  if x.level > 0xff then St.INVALID_FORMAT
  else if v.status ≠ 0 then v.status
  else match v.final with
    | some (.ok, _) => 0
    | _ => VERIFICATION_FAILURE

/-- the verdict says OK -/
def _root_.KsiVerif.Policy.Verdict.isOK (v : Verdict) : Prop := v.status = 0 ∧ ∃ e, v.final = some (.ok, e)

end KsiVerif.Verify
