import KsiVerif.Util.Hex
import KsiVerif.Model.Status
import KsiVerif.Gen.Crc
import KsiVerif.Gen.Base32
import KsiVerif.Gen.HashAlgo
/-!
# Publication strings: base-32 (base32.c), CRC-32 (crc32.c), to/from string (publicationsfile.c)

The tables (`crc32_table`, the base-32 alphabet and the digit decode table with the sign its
C element type gives it, the hash-length table) are **generated from the current source**.
The codec itself is modelled on bit strings; the byte-juggling of `addBits`/`readNextBits`
is tied to it by the correspondence run.
-/
namespace KsiVerif.Pub
open KsiVerif

/-! ## bits -/

/-- the 8 bits of a byte, most significant first -/
def byteBits (b : UInt8) : List Bool :=
  [b.toNat.testBit 7, b.toNat.testBit 6, b.toNat.testBit 5, b.toNat.testBit 4,
   b.toNat.testBit 3, b.toNat.testBit 2, b.toNat.testBit 1, b.toNat.testBit 0]

/-- big-endian value of a bit list -/
def bitsNat : List Bool → Nat
  | [] => 0
  | b :: bs => (if b then 2 ^ bs.length else 0) + bitsNat bs

def bytesToBits : Bytes → List Bool
  | [] => []
  | b :: bs => byteBits b ++ bytesToBits bs

/-- whole bytes of a bit string; an incomplete tail is dropped (`*data_len = bits_decoded / 8`) -/
def bitsToBytes : List Bool → Bytes
  | b7 :: b6 :: b5 :: b4 :: b3 :: b2 :: b1 :: b0 :: rest =>
    UInt8.ofNat (bitsNat [b7, b6, b5, b4, b3, b2, b1, b0]) :: bitsToBytes rest
  | _ => []

/-- the 5 bits of a symbol value, most significant first -/
def fiveBits (v : Nat) : List Bool :=
  [v.testBit 4, v.testBit 3, v.testBit 2, v.testBit 1, v.testBit 0]

/-- groups of five bits, the last group padded with zero bits (`readNextBits`) -/
def chunks5 : List Bool → List (List Bool)
  | [] => []
  | [a] => [[a, false, false, false, false]]
  | [a, b] => [[a, b, false, false, false]]
  | [a, b, c] => [[a, b, c, false, false]]
  | [a, b, c, d] => [[a, b, c, d, false]]
  | a :: b :: c :: d :: e :: rest => [a, b, c, d, e] :: chunks5 rest

/-! ## base-32 -/

def symChar (v : Nat) : Char := Gen.b32Alphabet.getD v 'A'

/-- the symbols (no grouping, no padding) of `KSI_base32Encode` -/
def encodeSymbols (data : Bytes) : List Char :=
  (chunks5 (bytesToBits data)).map fun c => symChar (bitsNat c)

/-- layout loop of `KSI_base32Encode`: a dash after every `g` symbols unless the data is
exhausted; `k` = symbols emitted so far, `retLen` = characters emitted so far -/
def layoutSyms (g dataBits : Nat) : List Char → Nat → Nat → List Char × Nat
  | [], _, retLen => ([], retLen)
  | s :: rest, k, retLen =>
    let retLen := retLen + 1
    if g > 0 ∧ retLen % (g + 1) = g ∧ 5 * k + 5 < dataBits then
      let (out, rl) := layoutSyms g dataBits rest (k + 1) (retLen + 1)
      (s :: '-' :: out, rl)
    else
      let (out, rl) := layoutSyms g dataBits rest (k + 1) retLen
      (s :: out, rl)

/-- padding loop: `=` until the symbol count is a multiple of 8, dashes as in the C loop;
`fuel` bounds the (at most 7) iterations -/
def layoutPad (g : Nat) : Nat → Nat → Nat → List Char
  | 0, _, _ => []
  | fuel + 1, bitsRead, retLen =>
    if bitsRead % 40 = 0 then []
    else
      let retLen := retLen + 1
      if g > 0 ∧ retLen % (g + 1) = g ∧ bitsRead % 40 ≠ 35 then
        '=' :: '-' :: layoutPad g fuel (bitsRead + 5) (retLen + 1)
      else
        '=' :: layoutPad g fuel (bitsRead + 5) retLen

/-- `KSI_base32Encode(data, len, group_len, &out)` for non-empty data -/
def b32encode (data : Bytes) (g : Nat) : List Char :=
  let syms := encodeSymbols data
  let (body, retLen) := layoutSyms g (8 * data.length) syms 0 0
  body ++ layoutPad g 8 (5 * syms.length) retLen

def toUpper (c : UInt8) : UInt8 := if 97 ≤ c.toNat ∧ c.toNat ≤ 122 then UInt8.ofNat (c.toNat - 32) else c

/-- what one character contributes in `KSI_base32Decode` -/
inductive CharClass where
  | stop            -- '='
  | skip            -- '-' and digits the decode table marks with a negative value
  | bits (v : Nat)  -- five data bits
  | bad
deriving DecidableEq, Repr

def classify (c0 : UInt8) : CharClass :=
  let c := toUpper c0
  if c.toNat = 61 then .stop
  else if c.toNat = 45 then .skip
  else if 48 ≤ c.toNat ∧ c.toNat ≤ 57 then
    let v := Gen.b32DigitValues.getD (c.toNat - 48) (-1)
    if v < 0 then .skip else .bits (v.toNat % 32)      -- addBits: `if (bits < 0) return;`, low 5 bits used
  else if 65 ≤ c.toNat ∧ c.toNat ≤ 90 then .bits (c.toNat - 65)
  else .bad

/-- the bit string accumulated by `KSI_base32Decode` -/
def decodeBits : List UInt8 → Except Nat (List Bool)
  | [] => .ok []
  | c :: cs =>
    match classify c with
    | .stop => .ok []
    | .bad => .error St.INVALID_FORMAT
    | .skip => decodeBits cs
    | .bits v =>
      match decodeBits cs with
      | .error e => .error e
      | .ok r => .ok (fiveBits v ++ r)

/-- `KSI_base32Decode(str, &data, &len)` -/
def b32decode (s : List UInt8) : Except Nat Bytes :=
  match decodeBits s with
  | .error e => .error e
  | .ok bits => .ok (bitsToBytes bits)

/-! ## CRC-32 -/

def crcStep (r : Nat) (b : UInt8) : Nat :=
  Gen.crcTable.getD ((r ^^^ b.toNat) % 256) 0 ^^^ (r >>> 8)

/-- `KSI_crc32(data, len, 0)` -/
def crc32 (data : Bytes) : Nat :=
  (data.foldl crcStep 0xffffffff) ^^^ 0xffffffff

/-! ## publication strings -/

def beBytes : Nat → Nat → Bytes
  | 0, _ => []
  | n + 1, v => UInt8.ofNat (v / 256 ^ n % 256) :: beBytes n v

def beNat (bs : Bytes) : Nat := bs.foldl (fun a b => a * 256 + b.toNat) 0

/-- the binary form: 8-byte big-endian time ‖ imprint ‖ CRC-32 of both (big-endian) -/
def pubBinary (time : Nat) (imprint : Bytes) : Bytes :=
  let d := beBytes 8 time ++ imprint
  d ++ beBytes 4 (crc32 d)

/-- `KSI_PublicationData_toBase32` -/
def toPubString (time : Nat) (imprint : Bytes) : List Char :=
  b32encode (pubBinary time imprint) 6

/-- `KSI_PublicationData_fromBase32`: (time, imprint) -/
def fromPubString (s : List UInt8) : Except Nat (Nat × Bytes) :=
  match b32decode s with
  | .error e => .error e
  | .ok bin =>
    if bin.length < 13 then .error St.INVALID_FORMAT
    else
      let body := bin.take (bin.length - 4)
      if crc32 body ≠ beNat (bin.drop (bin.length - 4)) then .error St.INVALID_FORMAT
      else
        let algo := (bin.getD 8 0).toNat
        let h := Gen.hashLen algo
        if h = 0 then .error St.UNAVAILABLE_HASH_ALGORITHM
        else if bin.length ≠ 8 + 1 + h + 4 then .error St.INVALID_FORMAT
        else if !Gen.hashValid algo then .error St.UNAVAILABLE_HASH_ALGORITHM
        else .ok (beNat (bin.take 8), (bin.drop 8).take (h + 1))

end KsiVerif.Pub
