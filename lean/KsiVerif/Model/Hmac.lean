import KsiVerif.Model.HashChain
import KsiVerif.Gen.HashAlgo
/-!
# HMAC (hmac.c): `KSI_HmacHasher_open / reset / add / close`, `KSI_HMAC_create`

The hasher is modelled as a state machine over an abstract hash function `H algo data`
(`none` = the algorithm cannot be computed).  `inner` is what has been fed to the data hasher
since the last reset.
-/
namespace KsiVerif.Hmac
open KsiVerif KsiVerif.HashChain

def MAX_BUF_LEN : Nat := 128

def blockSize (algo : Nat) : Nat :=
  match Gen.hashAlgs.find? (·.id == algo) with
  | some a => a.block
  | none => 0

structure Hasher where
  algo : Nat
  ipad : Bytes
  opad : Bytes
  /-- bytes given to the underlying data hasher since its last reset; `none` once it was closed -/
  inner : Option Bytes
deriving Repr, DecidableEq

/-- the two pads: `pad ^ key[i]` for the key bytes, `pad` for the rest of the block -/
def xorPad (pad : UInt8) (key : Bytes) (block : Nat) : Bytes :=
  key.map (pad ^^^ ·) ++ List.replicate (block - key.length) pad

/-- `KSI_HmacHasher_open(ctx, algo, key, &hasher)`; the key is a C string -/
def hopen (H : HashFn) (algo : Nat) (key : Bytes) : Except Nat Hasher :=
  if key.length = 0 ∨ key.length > 0xffff then .error St.INVALID_ARGUMENT
  else if blockSize algo = 0 then .error St.UNKNOWN_ERROR
  else if Gen.hashLen algo > MAX_BUF_LEN ∨ blockSize algo > MAX_BUF_LEN then .error St.BUFFER_OVERFLOW
  else
    let k : Except Nat Bytes :=
      if key.length > blockSize algo then
        match H algo key with
        | none => .error St.UNAVAILABLE_HASH_ALGORITHM
        | some d => if d.length > blockSize algo then .error St.INVALID_ARGUMENT else .ok d
      else .ok key
    match k with
    | .error e => .error e
    | .ok k =>
      let ip := xorPad 0x36 k (blockSize algo)
      .ok { algo := algo, ipad := ip, opad := xorPad 0x5c k (blockSize algo), inner := some ip }   -- reset: ipad fed

/-- `KSI_HmacHasher_reset` -/
def hreset (h : Hasher) : Hasher := { h with inner := some h.ipad }

/-- `KSI_HmacHasher_add` -/
def hadd (h : Hasher) (d : Bytes) : Except Nat Hasher :=
  match h.inner with
  | some x => .ok { h with inner := some (x ++ d) }
  | none => .error St.INVALID_STATE

/-- `KSI_HmacHasher_close`: the imprint (algorithm id ‖ digest) -/
def hclose (H : HashFn) (h : Hasher) : Except Nat (Hasher × Bytes) :=
  match h.inner with
  | none => .error St.INVALID_STATE
  | some x =>
    match H h.algo x with
    | none => .error St.UNAVAILABLE_HASH_ALGORITHM
    | some innerD =>
      match H h.algo (h.opad ++ innerD) with
      | none => .error St.UNAVAILABLE_HASH_ALGORITHM
      | some outerD => .ok ({ h with inner := none }, UInt8.ofNat h.algo :: outerD)

/-- `KSI_HMAC_create(ctx, algo, key, data, len, &hmac)` -/
def create (H : HashFn) (algo : Nat) (key data : Bytes) : Except Nat Bytes :=
  match hopen H algo key with
  | .error e => .error e
  | .ok h =>
    match hadd h data with
    | .error e => .error e
    | .ok h =>
      match hclose H h with
      | .error e => .error e
      | .ok (_, imp) => .ok imp

end KsiVerif.Hmac
