import KsiVerif.Model.Tree
import KsiVerif.Proofs.HashChain
namespace KsiVerif.Tree
open KsiVerif KsiVerif.HashChain KsiVerif.HashChainSpec

def Content.ok : Content → Prop
  | .hash i => i ≠ []
  | .mdata _ => True

/-- a tree all of whose inner nodes were made by `join` and whose hash leaves carry a
non-empty imprint -/
inductive WF (H : HashFn) (algo : Nat) : Node → Prop
  | leaf (id c lv) : lv ≤ 0xff → Content.ok c → WF H algo (.leaf id c lv)
  | inner {l r : Node} {d : Bytes} :
      WF H algo l → WF H algo r → max l.level r.level + 1 ≤ 0xff →
      H algo (l.bytes ++ r.bytes ++ [UInt8.ofNat (max l.level r.level + 1)]) = some d →
      WF H algo (.inner (UInt8.ofNat algo :: d) (max l.level r.level + 1) l r)

theorem join_wf {H : HashFn} {algo : Nat} {l r t : Node} (hl : WF H algo l) (hr : WF H algo r)
    (h : join H algo l r = .ok t) : WF H algo t := by
  unfold join at h
  simp only at h
  split at h
  · cases h
  · rename_i hlv
    split at h
    · cases h
    · rename_i d hd
      cases h
      exact WF.inner hl hr (by omega) hd

theorem ofNat_toNat (a : UInt8) : UInt8.ofNat a.toNat = a := by simp

theorem sibling_bytes {H : HashFn} {algo : Nat} {n : Node} (h : WF H algo n) :
    (sibling n).bytes = n.bytes := by
  cases h with
  | leaf id c lv _ hc =>
    cases c with
    | hash i =>
      cases i with
      | nil => simp [Content.ok] at hc
      | cons a rest => simp [sibling, Sibling.bytes, Node.bytes, Content.bytes]
    | mdata p => simp [sibling, Sibling.bytes, Node.bytes, Content.bytes]
  | inner _ _ _ _ =>
    simp only [sibling, Sibling.bytes, Node.bytes, List.headD_cons, List.drop_one, List.tail_cons]
    rw [ofNat_toNat]

theorem wf_level_le {H : HashFn} {algo : Nat} {n : Node} (h : WF H algo n) : n.level ≤ 0xff := by
  cases h with
  | leaf _ _ _ hl _ => simpa [Node.level] using hl
  | inner _ _ hl _ => simpa [Node.level] using hl

/-- **Inclusion.** In a well-formed tree, the chain extracted for any user leaf recomputes, by
the reference chain formula started at the leaf's own level, exactly the root's level and hash. -/
theorem inclusion (H : HashFn) (algo : Nat) : ∀ (t : Node), WF H algo t →
    ∀ k lv b ch, (k, lv, b, ch) ∈ chains t → refChain H algo lv b ch = some (t.level, t.bytes) := by
  intro t hw
  induction hw with
  | leaf id c lv hl hc =>
    intro k lv' b ch hm
    cases id with
    | none => simp [chains] at hm
    | some k0 =>
      simp only [chains, List.mem_singleton, Prod.mk.injEq] at hm
      obtain ⟨_, rfl, rfl, rfl⟩ := hm
      simp [refChain, Node.level, Node.bytes]
  | @inner l r d hl hr hlv hd ihl ihr =>
    intro k lv b ch hm
    simp only [chains, List.mem_append, List.mem_map] at hm
    have hll := wf_level_le hl
    have hrl := wf_level_le hr
    rcases hm with ⟨⟨k', ll, b', ch'⟩, hmem, heq⟩ | ⟨⟨k', ll, b', ch'⟩, hmem, heq⟩
    · simp only [Prod.mk.injEq] at heq
      obtain ⟨rfl, rfl, rfl, rfl⟩ := heq
      rw [refChain_append, ihl _ _ _ _ hmem]
      simp only
      have hc : (linkTo true r (max l.level r.level + 1) l.level).lc ≤ 255 ∧
          l.level + (linkTo true r (max l.level r.level + 1) l.level).lc + 1 ≤ 255 := by
        simp only [linkTo]; omega
      rw [refChain_cons_ok H algo _ _ _ _ hc]
      have hlevel : l.level + (linkTo true r (max l.level r.level + 1) l.level).lc + 1 = max l.level r.level + 1 := by
        simp only [linkTo]; omega
      rw [hlevel]
      have hdata : stepData l.bytes (linkTo true r (max l.level r.level + 1) l.level) (max l.level r.level + 1) =
          l.bytes ++ r.bytes ++ [UInt8.ofNat (max l.level r.level + 1)] := by
        simp [stepData, linkTo, sibling_bytes hr]
      rw [hdata, hd]
      simp [refChain, Node.level, Node.bytes]
    · simp only [Prod.mk.injEq] at heq
      obtain ⟨rfl, rfl, rfl, rfl⟩ := heq
      rw [refChain_append, ihr _ _ _ _ hmem]
      simp only
      have hc : (linkTo false l (max l.level r.level + 1) r.level).lc ≤ 255 ∧
          r.level + (linkTo false l (max l.level r.level + 1) r.level).lc + 1 ≤ 255 := by
        simp only [linkTo]; omega
      rw [refChain_cons_ok H algo _ _ _ _ hc]
      have hlevel : r.level + (linkTo false l (max l.level r.level + 1) r.level).lc + 1 = max l.level r.level + 1 := by
        simp only [linkTo]; omega
      rw [hlevel]
      have hdata : stepData r.bytes (linkTo false l (max l.level r.level + 1) r.level) (max l.level r.level + 1) =
          l.bytes ++ r.bytes ++ [UInt8.ofNat (max l.level r.level + 1)] := by
        simp [stepData, linkTo, sibling_bytes hl]
      rw [hdata, hd]
      simp [refChain, Node.level, Node.bytes]

/-! ### the builder keeps every slot well formed -/

def StackWF (H : HashFn) (algo : Nat) (st : List (Option Node)) : Prop :=
  ∀ n, some n ∈ st → WF H algo n

theorem insert_wf (H : HashFn) (algo : Nat) : ∀ (st : List (Option Node)) (n : Node) (st' : List (Option Node)),
    StackWF H algo st → WF H algo n → insert H algo st n = .ok st' → StackWF H algo st'
  | [], n, st', _, hn, h => by
    simp only [insert, Except.ok.injEq] at h
    subst h
    intro m hm
    simp at hm
    subst hm; exact hn
  | none :: rest, n, st', hs, hn, h => by
    simp only [insert, Except.ok.injEq] at h
    subst h
    intro m hm
    simp only [List.mem_cons, Option.some.injEq] at hm
    rcases hm with rfl | hm
    · exact hn
    · exact hs m (List.mem_cons_of_mem _ hm)
  | some p :: rest, n, st', hs, hn, h => by
    unfold insert at h
    cases hj : join H algo p n with
    | error e => simp [hj] at h
    | ok root =>
      simp only [hj] at h
      cases hi : insert H algo rest root with
      | error e => simp [hi] at h
      | ok rest' =>
        simp only [hi, Except.ok.injEq] at h
        subst h
        have hp : WF H algo p := hs p (List.mem_cons_self ..)
        have hrest : StackWF H algo rest := fun m hm => hs m (List.mem_cons_of_mem _ hm)
        have := insert_wf H algo rest root rest' hrest (join_wf hp hn hj) hi
        intro m hm
        simp only [List.mem_cons, reduceCtorEq, false_or] at hm
        exact this m hm

theorem closeFold_wf (H : HashFn) (algo : Nat) : ∀ (st : List (Option Node)) (acc : Option Node) (out : Option Node),
    StackWF H algo st → (∀ a, acc = some a → WF H algo a) → closeFold H algo acc st = .ok out →
    ∀ r, out = some r → WF H algo r
  | [], acc, out, _, ha, h => by
    simp only [closeFold, Except.ok.injEq] at h
    subst h; exact ha
  | none :: rest, acc, out, hs, ha, h => by
    simp only [closeFold] at h
    exact closeFold_wf H algo rest acc out (fun m hm => hs m (List.mem_cons_of_mem _ hm)) ha h
  | some n :: rest, none, out, hs, ha, h => by
    simp only [closeFold] at h
    refine closeFold_wf H algo rest (some n) out (fun m hm => hs m (List.mem_cons_of_mem _ hm)) ?_ h
    intro a he; cases he; exact hs n (List.mem_cons_self ..)
  | some n :: rest, some root, out, hs, ha, h => by
    unfold closeFold at h
    cases hj : join H algo n root with
    | error e => simp [hj] at h
    | ok t =>
      simp only [hj] at h
      refine closeFold_wf H algo rest (some t) out (fun m hm => hs m (List.mem_cons_of_mem _ hm)) ?_ h
      intro a he; cases he
      exact join_wf (hs n (List.mem_cons_self ..)) (ha root rfl) hj

/-! ### leaves keep their left-to-right order -/

def userLeaves : Node → List Nat
  | .leaf (some k) _ _ => [k]
  | .leaf none _ _ => []
  | .inner _ _ l r => userLeaves l ++ userLeaves r

/-- leaves held by the stack, oldest (highest slot) first -/
def stackLeaves : List (Option Node) → List Nat
  | [] => []
  | none :: rest => stackLeaves rest
  | some n :: rest => stackLeaves rest ++ userLeaves n

theorem join_leaves {H : HashFn} {algo : Nat} {l r t : Node} (h : join H algo l r = .ok t) :
    userLeaves t = userLeaves l ++ userLeaves r := by
  unfold join at h
  simp only at h
  split at h
  · cases h
  · split at h
    · cases h
    · cases h; rfl

theorem insert_leaves (H : HashFn) (algo : Nat) : ∀ (st : List (Option Node)) (n : Node) (st' : List (Option Node)),
    insert H algo st n = .ok st' → stackLeaves st' = stackLeaves st ++ userLeaves n
  | [], n, st', h => by
    simp only [insert, Except.ok.injEq] at h; subst h; simp [stackLeaves]
  | none :: rest, n, st', h => by
    simp only [insert, Except.ok.injEq] at h; subst h; simp [stackLeaves]
  | some p :: rest, n, st', h => by
    unfold insert at h
    cases hj : join H algo p n with
    | error e => simp [hj] at h
    | ok root =>
      simp only [hj] at h
      cases hi : insert H algo rest root with
      | error e => simp [hi] at h
      | ok rest' =>
        simp only [hi, Except.ok.injEq] at h
        subst h
        simp only [stackLeaves]
        rw [insert_leaves H algo rest root rest' hi, join_leaves hj, List.append_assoc]

theorem closeFold_leaves (H : HashFn) (algo : Nat) : ∀ (st : List (Option Node)) (acc out : Option Node),
    closeFold H algo acc st = .ok out →
    (match out with | some r => userLeaves r | none => []) =
      stackLeaves st ++ (match acc with | some a => userLeaves a | none => [])
  | [], acc, out, h => by
    simp only [closeFold, Except.ok.injEq] at h; subst h; simp [stackLeaves]
  | none :: rest, acc, out, h => by
    simp only [closeFold] at h
    simpa [stackLeaves] using closeFold_leaves H algo rest acc out h
  | some n :: rest, none, out, h => by
    simp only [closeFold] at h
    have := closeFold_leaves H algo rest (some n) out h
    simpa [stackLeaves] using this
  | some n :: rest, some root, out, h => by
    unfold closeFold at h
    cases hj : join H algo n root with
    | error e => simp [hj] at h
    | ok t =>
      simp only [hj] at h
      have := closeFold_leaves H algo rest (some t) out h
      rw [this]
      simp [stackLeaves, join_leaves hj, List.append_assoc]

/-! ### the height pre-check predicts the closed root's level exactly -/
theorem join_level {H : HashFn} {algo : Nat} {l r t : Node} (h : join H algo l r = .ok t) :
    t.level = max l.level r.level + 1 := by
  unfold join at h
  simp only at h
  split at h
  · cases h
  · split at h
    · cases h
    · cases h; rfl

/-- closing from an accumulated root walks the remaining slots exactly as `calculateHighestLevel` does -/
theorem closeFold_level (H : HashFn) (algo : Nat) : ∀ (st : List (Option Node)) (acc r : Node),
    closeFold H algo (some acc) st = .ok (some r) → r.level = highestLevel st acc.level
  | [], acc, r, h => by
    simp only [closeFold, Except.ok.injEq, Option.some.injEq] at h; subst h; rfl
  | none :: rest, acc, r, h => by
    simp only [closeFold] at h
    simpa [highestLevel] using closeFold_level H algo rest acc r h
  | some n :: rest, acc, r, h => by
    simp only [closeFold] at h
    split at h
    · cases h
    · rename_i t ht
      have := closeFold_level H algo rest t r h
      rw [this, join_level ht]; rfl

/-- **`calculateHighestLevel` is exact**: the level it predicts for "add this node, then close"
is the level of the root that adding and closing really produces. -/
theorem insert_close_level (H : HashFn) (algo : Nat) : ∀ (st : List (Option Node)) (n : Node)
    (st' : List (Option Node)) (r : Node),
    insert H algo st n = .ok st' → closeFold H algo none st' = .ok (some r) →
    r.level = highestLevel st n.level
  | [], n, st', r, hi, hc => by
    simp only [insert, Except.ok.injEq] at hi; subst hi
    simp only [closeFold, Except.ok.injEq, Option.some.injEq] at hc; subst hc; rfl
  | none :: rest, n, st', r, hi, hc => by
    simp only [insert, Except.ok.injEq] at hi; subst hi
    simp only [closeFold] at hc
    simpa [highestLevel] using closeFold_level H algo rest n r hc
  | some p :: rest, n, st', r, hi, hc => by
    simp only [insert] at hi
    split at hi
    · cases hi
    · rename_i root hj
      split at hi
      · cases hi
      · rename_i rest' hr
        simp only [Except.ok.injEq] at hi; subst hi
        simp only [closeFold] at hc
        have := insert_close_level H algo rest root rest' r hr hc
        rw [this, join_level hj]; rfl

theorem highestLevel_ge : ∀ (st : List (Option Node)) (lv : Nat), lv ≤ highestLevel st lv
  | [], lv => Nat.le_refl _
  | none :: rest, lv => by simpa [highestLevel] using highestLevel_ge rest lv
  | some n :: rest, lv => by
    simp only [highestLevel]
    exact Nat.le_trans (by omega) (highestLevel_ge rest (max n.level lv + 1))

end KsiVerif.Tree
