import KsiVerif.Model.Policy
/-!
Lemmas about the policy engine model.
-/
namespace KsiVerif.Policy

mutual
/-- every rule array in the tree has at least one rule -/
def Rule.wf : Rule → Bool
  | .basic _ => true
  | .and rs => !rs.isEmpty && wfList rs
  | .or rs => !rs.isEmpty && wfList rs
def wfList : List Rule → Bool
  | [] => true
  | r :: rs => r.wf && wfList rs
end

/-- a rule outcome that lets nothing continue: internal error or FAIL -/
def Outcome.bad (o : Outcome) : Prop := o.status ≠ 0 ∨ o.res = .fail

/-- Invariant of a run: the trace is non-empty, the reported status/result/error is the
outcome of the last rule invoked, and no rule before the last one was bad. -/
structure Inv (ρ : Nat → Outcome) (x : Run) : Prop where
  last : ∃ pre id, x.trace = pre ++ [id] ∧ x.outcome = ρ id
  notbad : ∀ pre id post, x.trace = pre ++ id :: post → post ≠ [] → ¬ (ρ id).bad

theorem stops_false {r : Rule} {x : Run} (h : stops r x = false) : x.status = 0 ∧ x.res ≠ .fail := by
  unfold stops at h
  split at h
  · cases h
  · rename_i hs
    refine ⟨by simpa using hs, ?_⟩
    intro hf
    rw [hf] at h
    cases h

theorem Inv.append {ρ : Nat → Outcome} {x y : Run} (hx : Inv ρ x) (hy : Inv ρ y)
    (hc : x.status = 0 ∧ x.res ≠ .fail) : Inv ρ { y with trace := x.trace ++ y.trace } := by
  obtain ⟨prex, idx, htx, hox⟩ := hx.last
  obtain ⟨prey, idy, hty, hoy⟩ := hy.last
  constructor
  · exact ⟨x.trace ++ prey, idy, by simp [hty], hoy⟩
  · intro pre id post ht hpost
    simp only at ht
    -- split the position: inside x.trace or inside y.trace
    rcases List.append_eq_append_iff.mp ht with ⟨as, h1, h2⟩ | ⟨bs, h1, h2⟩
    · -- pre = x.trace ++ as ; y.trace = as ++ id :: post
      exact hy.notbad as id post h2 hpost
    · -- x.trace = pre ++ bs ; id :: post = bs ++ y.trace
      cases bs with
      | nil =>
        simp only [List.nil_append] at h2
        exact hy.notbad [] id post (by simpa using h2.symm) hpost
      | cons b bs' =>
        simp only [List.cons_append, List.cons.injEq] at h2
        obtain ⟨hb, hrest⟩ := h2
        subst hb
        by_cases hbs : bs' = []
        · -- id is the last rule of x: it is x's outcome, which did not stop
          subst hbs
          have : idx = id := by
            have := htx.symm.trans h1
            have h3 := List.append_inj_right' this (by simp)
            simpa using h3
          subst this
          intro hbad
          rw [← hox] at hbad
          rcases hbad with h | h
          · exact h hc.1
          · exact hc.2 h
        · exact hx.notbad pre id bs' h1 hbs

mutual
theorem inv_rule (ρ : Nat → Outcome) : ∀ (r : Rule), r.wf = true → Inv ρ (evalRule ρ r)
  | .basic id, _ => by
    unfold evalRule
    constructor
    · exact ⟨[], id, rfl, rfl⟩
    · intro pre i post h hp
      cases pre with
      | nil => simp at h; exact absurd h.2.symm (fun e => hp e.symm)
      | cons a as => simp at h
  | .and rs, h => by
    unfold evalRule
    simp only [Rule.wf, Bool.and_eq_true, Bool.not_eq_true', List.isEmpty_eq_false_iff] at h
    exact inv_list ρ rs h.1 h.2
  | .or rs, h => by
    unfold evalRule
    simp only [Rule.wf, Bool.and_eq_true, Bool.not_eq_true', List.isEmpty_eq_false_iff] at h
    exact inv_list ρ rs h.1 h.2
theorem inv_list (ρ : Nat → Outcome) : ∀ (rs : List Rule), rs ≠ [] → wfList rs = true →
    Inv ρ (evalList ρ rs)
  | [], h, _ => absurd rfl h
  | [r], _, hw => by
    unfold evalList
    simp only [wfList, Bool.and_true] at hw
    exact inv_rule ρ r hw
  | r :: r' :: rest, _, hw => by
    unfold evalList
    simp only [wfList, Bool.and_eq_true] at hw
    have hr := inv_rule ρ r hw.1
    simp only
    split
    · exact hr
    · rename_i hs
      have hy := inv_list ρ (r' :: rest) (by simp) (by simp [wfList, hw.2])
      exact Inv.append hr hy (stops_false (by simpa using hs))
end

/-! ### rules are invoked in depth-first order: the trace is a subsequence of the DFS listing -/

mutual
theorem trace_sublist_rule (ρ : Nat → Outcome) : ∀ (r : Rule), (evalRule ρ r).trace.Sublist r.dfs
  | .basic id => by unfold evalRule Rule.dfs; exact List.Sublist.refl _
  | .and rs => by unfold evalRule Rule.dfs; exact trace_sublist_list ρ rs
  | .or rs => by unfold evalRule Rule.dfs; exact trace_sublist_list ρ rs
theorem trace_sublist_list (ρ : Nat → Outcome) : ∀ (rs : List Rule),
    (evalList ρ rs).trace.Sublist (dfsList rs)
  | [] => by unfold evalList dfsList; exact List.Sublist.refl _
  | [r] => by
    unfold evalList
    simp only [dfsList, List.append_nil]
    exact trace_sublist_rule ρ r
  | r :: r' :: rest => by
    unfold evalList
    rw [dfsList]
    simp only
    split
    · exact (trace_sublist_rule ρ r).trans (List.sublist_append_left _ _)
    · exact List.Sublist.append (trace_sublist_rule ρ r) (trace_sublist_list ρ (r' :: rest))
end

end KsiVerif.Policy
