import KsiVerif.Model.Ha
namespace KsiVerif.Ha

/-- what a pushed value contributes: itself when present, non-zero and in range -/
def eff (valid : Nat → Bool) (o : Option Nat) : Option Nat :=
  match o with
  | some r => if r ≠ 0 ∧ valid r = true then some r else none
  | none => none

def mx : Option Nat → Option Nat → Option Nat
  | a, none => a
  | none, some r => some r
  | some h, some r => some (max h r)

/-- `mn` treats a consolidated 0 like "absent", as the C code does -/
def mn : Option Nat → Option Nat → Option Nat
  | a, none => a
  | none, some r => some r
  | some h, some r => if h = 0 then some r else some (min h r)

theorem consMax_eq (valid : Nat → Bool) (ha resp : Option Nat) :
    consMax valid ha resp = mx ha (eff valid resp) := by
  cases resp with
  | none => cases ha <;> rfl
  | some r =>
    by_cases h0 : r = 0
    · simp [consMax, eff, h0, mx]
    · cases hv : valid r
      · simp [consMax, eff, h0, hv, mx]
      · cases ha with
        | none => simp [consMax, eff, h0, hv, mx]
        | some h =>
          simp only [consMax, eff, h0, hv, ↓reduceIte, Bool.not_true, Bool.false_eq_true, ne_eq,
            not_false_eq_true, and_self, mx]
          split
          · congr 1; omega
          · congr 1; omega

theorem consMin_eq (valid : Nat → Bool) (ha resp : Option Nat) :
    consMin valid ha resp = mn ha (eff valid resp) := by
  cases resp with
  | none => cases ha <;> rfl
  | some r =>
    by_cases h0 : r = 0
    · simp [consMin, eff, h0, mn]
    · cases hv : valid r
      · simp [consMin, eff, h0, hv, mn]
      · cases ha with
        | none => simp [consMin, eff, h0, hv, mn, val]
        | some h =>
          simp only [consMin, eff, h0, hv, ↓reduceIte, Bool.not_true, Bool.false_eq_true, ne_eq,
            not_false_eq_true, and_self, mn, val, Option.getD_some]
          by_cases hh : h = 0
          · simp [hh]
          · simp only [hh, ↓reduceIte]
            split
            · congr 1; omega
            · congr 1; omega

theorem mx_comm (z x y : Option Nat) : mx (mx z x) y = mx (mx z y) x := by
  cases z <;> cases x <;> cases y <;> simp [mx] <;> omega

theorem mn_comm (z x y : Option Nat) (hz : z ≠ some 0) (hx : x ≠ some 0) (hy : y ≠ some 0) :
    mn (mn z x) y = mn (mn z y) x := by
  cases z with
  | none =>
    cases x with
    | none => cases y <;> simp [mn]
    | some a =>
      cases y with
      | none => simp [mn]
      | some b =>
        have : a ≠ 0 := fun h => hx (by rw [h])
        have : b ≠ 0 := fun h => hy (by rw [h])
        simp [mn, *]; omega
  | some c =>
    have hc : c ≠ 0 := fun h => hz (by rw [h])
    cases x with
    | none => cases y <;> simp [mn]
    | some a =>
      cases y with
      | none => simp [mn]
      | some b =>
        have hmin1 : min c a ≠ 0 := by
          have : a ≠ 0 := fun h => hx (by rw [h])
          omega
        have hmin2 : min c b ≠ 0 := by
          have : b ≠ 0 := fun h => hy (by rw [h])
          omega
        simp [mn, hc, hmin1, hmin2]; omega

theorem eff_ne_zero (valid : Nat → Bool) (o : Option Nat) : eff valid o ≠ some 0 := by
  cases o with
  | none => simp [eff]
  | some r =>
    show (if r ≠ 0 ∧ valid r = true then some r else none) ≠ some 0
    by_cases h : r ≠ 0 ∧ valid r = true
    · rw [if_pos h]; intro e; cases e; exact h.1 rfl
    · rw [if_neg h]; simp

theorem mn_ne_zero {z x : Option Nat} (hz : z ≠ some 0) (hx : x ≠ some 0) : mn z x ≠ some 0 := by
  cases z with
  | none => cases x <;> simp_all [mn]
  | some c =>
    cases x with
    | none => simpa [mn] using hz
    | some a =>
      have hc : c ≠ 0 := fun h => hz (by rw [h])
      have ha : a ≠ 0 := fun h => hx (by rw [h])
      simp [mn, hc]; omega

/-! ### closed forms: the fold is the maximum / minimum of the contributing values -/

def contribs (valid : Nat → Bool) (l : List (Option Nat)) : List Nat :=
  l.filterMap (eff valid)

theorem foldl_mx (valid : Nat → Bool) : ∀ (l : List (Option Nat)) (z : Option Nat),
    l.foldl (fun acc o => mx acc (eff valid o)) z =
      match z, (contribs valid l).max? with
      | z, none => z
      | none, some m => some m
      | some h, some m => some (max h m)
  | [], z => by cases z <;> simp [contribs]
  | o :: os, z => by
    simp only [List.foldl_cons]
    rw [foldl_mx valid os]
    unfold contribs
    cases he : eff valid o with
    | none =>
      simp only [List.filterMap_cons, he]
      cases z <;> simp [mx]
    | some a =>
      simp only [List.filterMap_cons, he, List.max?_cons]
      cases hm : (List.filterMap (eff valid) os).max? with
      | none => cases z <;> simp [mx]
      | some m => cases z <;> simp [mx, Nat.max_assoc]

theorem foldl_mn (valid : Nat → Bool) : ∀ (l : List (Option Nat)) (z : Option Nat), z ≠ some 0 →
    l.foldl (fun acc o => mn acc (eff valid o)) z =
      match z, (contribs valid l).min? with
      | z, none => z
      | none, some m => some m
      | some h, some m => some (min h m)
  | [], z, _ => by cases z <;> simp [contribs]
  | o :: os, z, hz => by
    simp only [List.foldl_cons]
    rw [foldl_mn valid os _ (mn_ne_zero hz (eff_ne_zero valid o))]
    unfold contribs
    cases he : eff valid o with
    | none =>
      simp only [List.filterMap_cons, he]
      cases z <;> simp [mn]
    | some a =>
      have ha : a ≠ 0 := fun h => eff_ne_zero valid o (by rw [he, h])
      simp only [List.filterMap_cons, he, List.min?_cons]
      cases hm : (List.filterMap (eff valid) os).min? with
      | none =>
        cases z with
        | none => simp [mn]
        | some c =>
          have hc : c ≠ 0 := fun h => hz (by rw [h])
          simp [mn, hc]
      | some m =>
        cases z with
        | none => simp [mn]
        | some c =>
          have hc : c ≠ 0 := fun h => hz (by rw [h])
          simp [mn, hc, Nat.min_assoc]

end KsiVerif.Ha

/-! ## request fan-out -/
namespace KsiVerif.Ha

def Out.isCompletion : Out → Bool
  | .notice _ => false
  | _ => true

def completions (outs : List Out) : List Out := outs.filter Out.isCompletion
def notices (outs : List Out) : List Nat := outs.filterMap fun o => match o with | .notice e => some e | _ => none

def firstResp : List Ev → Option Nat
  | [] => none
  | .resp o :: _ => some o
  | .err _ _ :: evs => firstResp evs

def errCodes : List Ev → List Nat
  | [] => []
  | .resp _ :: evs => errCodes evs
  | .err _ e :: evs => e :: errCodes evs

theorem completions_append (a b : List Out) : completions (a ++ b) = completions a ++ completions b := by
  simp [completions]

theorem notices_append (a b : List Out) : notices (a ++ b) = notices a ++ notices b := by
  simp [notices]

/-- once a response has been delivered nothing else completes the request: later responses
are discarded, later errors are notices -/
theorem run_received : ∀ (evs : List Ev) (k : Nat),
    completions (run ⟨.received, k⟩ evs) = [] ∧ notices (run ⟨.received, k⟩ evs) = errCodes evs
  | [], _ => ⟨rfl, rfl⟩
  | .resp o :: evs, k => by
    have ih := run_received evs (k - 1)
    simp only [run, step, List.nil_append, errCodes]
    exact ih
  | .err o e :: evs, k => by
    have ih := run_received evs (k - 1)
    simp only [run, step, completions_append, notices_append, errCodes]
    refine ⟨by simpa [completions, Out.isCompletion] using ih.1, ?_⟩
    rw [ih.2]; rfl

/-- request in state ERROR(e) with as many outstanding sub-requests as events to come -/
theorem run_error : ∀ (evs : List Ev) (e : Nat), 1 ≤ evs.length →
    completions (run ⟨.error e, evs.length⟩ evs) =
      [match firstResp evs with | some o => .response o | none => .failed e] ∧
    (notices (run ⟨.error e, evs.length⟩ evs)).Perm
      (match firstResp evs with | some _ => e :: errCodes evs | none => errCodes evs)
  | [], _, h => by simp at h
  | .resp o :: evs, e, _ => by
    have ih := run_received evs evs.length
    simp only [run, step, List.length_cons, Nat.add_sub_cancel, completions_append, notices_append,
      firstResp, errCodes]
    refine ⟨by rw [ih.1]; rfl, ?_⟩
    rw [ih.2]
    exact List.Perm.refl _
  | .err o e' :: evs, e, _ => by
    simp only [run, step, List.length_cons, Nat.add_sub_cancel, completions_append, notices_append,
      firstResp, errCodes]
    cases evs with
    | nil => simp [run, completions, notices, Out.isCompletion, firstResp, errCodes]
    | cons ev rest =>
      have ih := run_error (ev :: rest) e (by simp)
      have hne : ¬ (ev :: rest).length = 0 := by simp
      simp only [hne, ↓reduceIte]
      refine ⟨by simpa [completions, Out.isCompletion] using ih.1, ?_⟩
      have hn : notices [Out.notice e'] = [e'] := rfl
      rw [hn]
      cases hf : firstResp (ev :: rest) with
      | none =>
        have := ih.2; rw [hf] at this
        exact List.Perm.cons e' this
      | some o' =>
        have := ih.2; rw [hf] at this
        exact (List.Perm.cons e' this).trans (List.Perm.swap e e' _)

/-- request still WAITING with as many outstanding sub-requests as events to come -/
theorem run_waiting : ∀ (evs : List Ev), 1 ≤ evs.length →
    completions (run (start evs.length) evs) =
      [match firstResp evs with | some o => .response o | none => .failed ((errCodes evs).headD 0)] ∧
    (notices (run (start evs.length) evs)).Perm
      (match firstResp evs with | some _ => errCodes evs | none => (errCodes evs).tail)
  | [], h => by simp at h
  | .resp o :: evs, _ => by
    have ih := run_received evs evs.length
    simp only [start, run, step, List.length_cons, Nat.add_sub_cancel, completions_append, notices_append,
      firstResp, errCodes]
    refine ⟨by rw [ih.1]; rfl, ?_⟩
    rw [ih.2]; exact List.Perm.refl _
  | .err o e :: evs, _ => by
    simp only [start, run, step, List.length_cons, Nat.add_sub_cancel, completions_append, notices_append,
      firstResp, errCodes, List.headD_cons, List.tail_cons]
    cases evs with
    | nil => simp [run, completions, notices, Out.isCompletion, firstResp, errCodes]
    | cons ev rest =>
      have ih := run_error (ev :: rest) e (by simp)
      have hne : ¬ (ev :: rest).length = 0 := by simp
      simp only [hne, ↓reduceIte, List.nil_append]
      refine ⟨by simpa [completions] using ih.1, ?_⟩
      have := ih.2
      cases hf : firstResp (ev :: rest) with
      | none => rw [hf] at this; simpa [notices] using this
      | some o' => rw [hf] at this; simpa [notices] using this

/-- while some endpoint is still outstanding and none has answered validly, the request is
not completed (an error is reported only after *all* endpoints have failed) -/
theorem run_no_early_failure : ∀ (evs : List Ev) (r : Req), firstResp evs = none →
    r.state ≠ .received → evs.length < r.expected → completions (run r evs) = []
  | [], _, _, _, _ => rfl
  | .resp _ :: _, _, h, _, _ => by simp [firstResp] at h
  | .err o e :: evs, r, h, hs, hl => by
    simp only [firstResp] at h
    simp only [List.length_cons] at hl
    simp only [run, completions_append]
    have hexp : ¬ r.expected - 1 = 0 := by omega
    cases hst : r.state with
    | received => exact absurd hst hs
    | waiting =>
      simp only [step, hst, hexp, ↓reduceIte]
      have := run_no_early_failure evs ⟨.error e, r.expected - 1⟩ h (by simp) (by simp; omega)
      simpa [completions] using this
    | error e0 =>
      simp only [step, hst, hexp, ↓reduceIte]
      have := run_no_early_failure evs ⟨.error e0, r.expected - 1⟩ h (by simp) (by simp; omega)
      simpa [completions, Out.isCompletion] using this

end KsiVerif.Ha
