import KsiVerif.Proofs.Base32
/-!
Publication-string round trip and soundness.
-/
namespace KsiVerif.Pub
open KsiVerif

theorem beBytes_length : ∀ n v, (beBytes n v).length = n
  | 0, _ => rfl
  | n + 1, v => by simp [beBytes, beBytes_length n v]

theorem foldl_be (bs : Bytes) (a : Nat) :
    bs.foldl (fun a b => a * 256 + b.toNat) a = a * 256 ^ bs.length + beNat bs := by
  induction bs generalizing a with
  | nil => simp [beNat]
  | cons b bs ih =>
    simp only [List.foldl_cons, List.length_cons, beNat]
    rw [ih, ih (0 * 256 + b.toNat)]
    simp only [Nat.zero_mul, Nat.zero_add, Nat.pow_succ]
    rw [Nat.add_mul, Nat.mul_assoc, Nat.mul_comm 256 (256 ^ bs.length)]
    omega

theorem beNat_cons (b : UInt8) (bs : Bytes) : beNat (b :: bs) = b.toNat * 256 ^ bs.length + beNat bs := by
  simp only [beNat, List.foldl_cons]
  rw [foldl_be]
  simp [beNat]

theorem beNat_beBytes : ∀ n v, beNat (beBytes n v) = v % 256 ^ n
  | 0, v => by simp [beBytes, beNat, Nat.mod_one]
  | n + 1, v => by
    rw [beBytes, beNat_cons, beBytes_length, beNat_beBytes n v]
    have hd : (UInt8.ofNat (v / 256 ^ n % 256)).toNat = v / 256 ^ n % 256 := by
      simp [UInt8.toNat_ofNat']
    rw [hd, Nat.pow_succ, Nat.mod_mul]
    rw [Nat.mul_comm]
    omega

theorem crcTable_lt : ∀ i, i < 256 → Gen.crcTable.getD i 0 < 2 ^ 32 := by decide +kernel

theorem crcStep_lt {r : Nat} (b : UInt8) (h : r < 2 ^ 32) : crcStep r b < 2 ^ 32 := by
  unfold crcStep
  apply Nat.xor_lt_two_pow
  · exact crcTable_lt _ (Nat.mod_lt _ (by decide))
  · exact Nat.lt_of_le_of_lt (Nat.shiftRight_le _ _) h

theorem crcFold_lt (data : Bytes) : ∀ r, r < 2 ^ 32 → data.foldl crcStep r < 2 ^ 32 := by
  induction data with
  | nil => intro r h; exact h
  | cons b bs ih => intro r h; exact ih _ (crcStep_lt b h)

theorem crc32_lt (data : Bytes) : crc32 data < 2 ^ 32 := by
  unfold crc32
  exact Nat.xor_lt_two_pow (crcFold_lt data _ (by decide)) (by decide)

/-- **Round trip**: encoding publication data (any 64-bit time, an imprint of a known
algorithm with the matching digest length) and decoding the string returns the same time
and imprint. -/
theorem fromPub_toPub (time algo : Nat) (digest : Bytes) (ht : time < 2 ^ 64) (ha : algo < 256)
    (hv : Gen.hashValid algo = true) (hl : digest.length = Gen.hashLen algo) (hpos : 0 < Gen.hashLen algo) :
    fromPubString ((toPubString time (UInt8.ofNat algo :: digest)).map charByte) =
      .ok (time, UInt8.ofNat algo :: digest) := by
  unfold fromPubString toPubString
  rw [b32decode_b32encode]
  simp only
  have hlen : (pubBinary time (UInt8.ofNat algo :: digest)).length = 8 + (1 + digest.length) + 4 := by
    simp [pubBinary, beBytes_length]; omega
  have h13 : ¬ (pubBinary time (UInt8.ofNat algo :: digest)).length < 13 := by rw [hlen]; omega
  simp only [h13, ↓reduceIte]
  have hbody : (pubBinary time (UInt8.ofNat algo :: digest)).take
      ((pubBinary time (UInt8.ofNat algo :: digest)).length - 4) = beBytes 8 time ++ UInt8.ofNat algo :: digest := by
    rw [hlen]
    unfold pubBinary
    simp only
    rw [List.take_append_of_le_length (by simp [beBytes_length]; omega)]
    apply List.take_of_length_le
    simp [beBytes_length]; omega
  have hcrc : (pubBinary time (UInt8.ofNat algo :: digest)).drop
      ((pubBinary time (UInt8.ofNat algo :: digest)).length - 4) =
        beBytes 4 (crc32 (beBytes 8 time ++ UInt8.ofNat algo :: digest)) := by
    rw [hlen]
    unfold pubBinary
    simp only
    have : 8 + (1 + digest.length) + 4 - 4 = (beBytes 8 time ++ UInt8.ofNat algo :: digest).length := by
      simp [beBytes_length]; omega
    rw [this, List.drop_left]
  rw [hbody, hcrc, beNat_beBytes]
  have hmod : crc32 (beBytes 8 time ++ UInt8.ofNat algo :: digest) % 256 ^ 4 =
      crc32 (beBytes 8 time ++ UInt8.ofNat algo :: digest) :=
    Nat.mod_eq_of_lt (crc32_lt _)
  simp only [hmod, ne_eq, not_true_eq_false, ↓reduceIte]
  have halgo : ((pubBinary time (UInt8.ofNat algo :: digest)).getD 8 0).toNat = algo := by
    unfold pubBinary
    simp only [List.getD_eq_getElem?_getD]
    rw [List.append_assoc, List.getElem?_append_right (by simp [beBytes_length])]
    simp [beBytes_length, UInt8.toNat_ofNat', Nat.mod_eq_of_lt ha]
  rw [halgo]
  have h0 : ¬ Gen.hashLen algo = 0 := by omega
  have hl2 : ¬ (8 + (1 + digest.length) + 4 ≠ 8 + 1 + Gen.hashLen algo + 4) := by omega
  simp only [h0, ↓reduceIte, hlen, hl2, hv, Bool.not_true, Bool.false_eq_true]
  have ht8 : (pubBinary time (UInt8.ofNat algo :: digest)).take 8 = beBytes 8 time := by
    unfold pubBinary
    simp only
    rw [List.append_assoc, List.take_left' (beBytes_length 8 time)]
  have hd8 : ((pubBinary time (UInt8.ofNat algo :: digest)).drop 8).take (Gen.hashLen algo + 1) =
      UInt8.ofNat algo :: digest := by
    unfold pubBinary
    simp only
    rw [List.append_assoc, List.drop_left' (beBytes_length 8 time)]
    rw [List.take_left' (by simp; omega)]
  rw [ht8, hd8, beNat_beBytes]
  have : time % 256 ^ 8 = time := Nat.mod_eq_of_lt (by simpa using ht)
  rw [this]

/-- **Soundness**: whatever string is accepted, the decoded binary has exactly the length
`8 + 1 + digest length + 4` of a known algorithm, its CRC field is the CRC-32 of the rest,
and the reported time and imprint are its first fields: a string of wrong total length or
with an unknown algorithm is rejected. -/
theorem fromPub_sound (s : List UInt8) (time : Nat) (imprint : Bytes)
    (h : fromPubString s = .ok (time, imprint)) :
    ∃ bin, b32decode s = .ok bin ∧
      bin.length = 8 + 1 + Gen.hashLen (bin.getD 8 0).toNat + 4 ∧
      0 < Gen.hashLen (bin.getD 8 0).toNat ∧ Gen.hashValid (bin.getD 8 0).toNat = true ∧
      crc32 (bin.take (bin.length - 4)) = beNat (bin.drop (bin.length - 4)) ∧
      time = beNat (bin.take 8) ∧ imprint = (bin.drop 8).take (Gen.hashLen (bin.getD 8 0).toNat + 1) := by
  unfold fromPubString at h
  cases hd : b32decode s with
  | error e => simp [hd] at h
  | ok bin =>
    simp only [hd] at h
    refine ⟨bin, rfl, ?_⟩
    split at h
    · cases h
    · split at h
      · cases h
      · rename_i hcrc
        split at h
        · cases h
        · rename_i h0
          split at h
          · cases h
          · rename_i hlen
            split at h
            · cases h
            · rename_i hvalid
              cases h
              refine ⟨by simpa using hlen, by omega, by simpa using hvalid, by simpa using hcrc, rfl, rfl⟩

end KsiVerif.Pub
