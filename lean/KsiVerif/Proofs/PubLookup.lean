import KsiVerif.Model.PubFile
/-! # The publication lookups agree with a reference scan -/
namespace KsiVerif.PubFile
open KsiVerif

/-- state of the `getNearestPublication` loop after the records `seen` -/
def NearInv (t : Nat) (seen : List PubRec) (res : Option PubRec) : Prop :=
  (res = none ∧ ∀ p ∈ seen, p.time < t) ∨
  (∃ r l1 l2, res = some r ∧ seen = l1 ++ r :: l2 ∧ t ≤ r.time ∧ (∀ p ∈ l1, t ≤ p.time → r.time ≤ p.time) ∧
     (∀ p ∈ l2, t ≤ p.time → r.time < p.time))

theorem nearInv_step (t : Nat) (seen : List PubRec) (res : Option PubRec) (p : PubRec) (h : NearInv t seen res) :
    NearInv t (seen ++ [p]) (nearestStep t res p) := by
  unfold nearestStep
  by_cases hp : t ≤ p.time
  · rw [if_pos hp]
    rcases h with ⟨rfl, hall⟩ | ⟨r, l1, l2, rfl, hs, hr, h1, h2⟩
    · right
      refine ⟨p, seen, [], rfl, rfl, hp, ?_, by intro q hq; cases hq⟩
      intro q hq hqt; have := hall q hq; omega
    · simp only
      by_cases hge : r.time ≥ p.time
      · rw [if_pos hge]
        right
        refine ⟨p, seen, [], rfl, rfl, hp, ?_, by intro q hq; cases hq⟩
        intro q hq hqt
        rw [hs] at hq
        rcases List.mem_append.mp hq with hq | hq
        · have := h1 q hq hqt; omega
        · rcases List.mem_cons.mp hq with rfl | hq
          · omega
          · have := h2 q hq hqt; omega
      · rw [if_neg hge]
        right
        refine ⟨r, l1, l2 ++ [p], rfl, by rw [hs]; simp, hr, h1, ?_⟩
        intro q hq hqt
        rcases List.mem_append.mp hq with hq | hq
        · exact h2 q hq hqt
        · have : q = p := by simpa using hq
          subst this; omega
  · rw [if_neg hp]
    rcases h with ⟨rfl, hall⟩ | ⟨r, l1, l2, rfl, hs, hr, h1, h2⟩
    · left
      refine ⟨rfl, ?_⟩
      intro q hq
      rcases List.mem_append.mp hq with hq | hq
      · exact hall q hq
      · have : q = p := by simpa using hq
        subst this; omega
    · right
      refine ⟨r, l1, l2 ++ [p], rfl, by rw [hs]; simp, hr, h1, ?_⟩
      intro q hq hqt
      rcases List.mem_append.mp hq with hq | hq
      · exact h2 q hq hqt
      · have : q = p := by simpa using hq
        subst this; omega

theorem nearInv_fold (t : Nat) : ∀ (rest seen : List PubRec) (res : Option PubRec), NearInv t seen res →
    NearInv t (seen ++ rest) (rest.foldl (nearestStep t) res) := by
  intro rest
  induction rest with
  | nil => intro seen res h; simpa using h
  | cons p ps ih =>
    intro seen res h
    have := ih (seen ++ [p]) _ (nearInv_step t seen res p h)
    simpa using this

theorem nearest_inv (ps : List PubRec) (t : Nat) : NearInv t ps (nearest ps t) := by
  have := nearInv_fold t ps [] none (Or.inl ⟨rfl, by intro p hp; cases hp⟩)
  simpa [nearest] using this

/-- state of the `getLatestPublication` loop; `t = none` puts no lower bound -/
def LateInv (t : Option Nat) (seen : List PubRec) (res : Option PubRec) : Prop :=
  (res = none ∧ ∀ p ∈ seen, t.all (· ≤ p.time) = false) ∨
  (∃ r l1 l2, res = some r ∧ seen = l1 ++ r :: l2 ∧ t.all (· ≤ r.time) = true ∧
     (∀ p ∈ l1, t.all (· ≤ p.time) = true → p.time ≤ r.time) ∧
     (∀ p ∈ l2, t.all (· ≤ p.time) = true → p.time < r.time))

theorem lateInv_step (t : Option Nat) (seen : List PubRec) (res : Option PubRec) (p : PubRec) (h : LateInv t seen res) :
    LateInv t (seen ++ [p]) (latestStep t res p) := by
  unfold latestStep
  by_cases hp : t.all (· ≤ p.time) = true
  · rw [if_pos hp]
    rcases h with ⟨rfl, hall⟩ | ⟨r, l1, l2, rfl, hs, hr, h1, h2⟩
    · right
      refine ⟨p, seen, [], rfl, rfl, hp, ?_, by intro q hq; cases hq⟩
      intro q hq hqt; have := hall q hq; rw [this] at hqt; cases hqt
    · simp only
      by_cases hle : r.time ≤ p.time
      · rw [if_pos hle]
        right
        refine ⟨p, seen, [], rfl, rfl, hp, ?_, by intro q hq; cases hq⟩
        intro q hq hqt
        rw [hs] at hq
        rcases List.mem_append.mp hq with hq | hq
        · have := h1 q hq hqt; omega
        · rcases List.mem_cons.mp hq with rfl | hq
          · omega
          · have := h2 q hq hqt; omega
      · rw [if_neg hle]
        right
        refine ⟨r, l1, l2 ++ [p], rfl, by rw [hs]; simp, hr, h1, ?_⟩
        intro q hq hqt
        rcases List.mem_append.mp hq with hq | hq
        · exact h2 q hq hqt
        · have : q = p := by simpa using hq
          subst this; omega
  · rw [if_neg hp]
    have hpf : t.all (· ≤ p.time) = false := by simpa using hp
    rcases h with ⟨rfl, hall⟩ | ⟨r, l1, l2, rfl, hs, hr, h1, h2⟩
    · left
      refine ⟨rfl, ?_⟩
      intro q hq
      rcases List.mem_append.mp hq with hq | hq
      · exact hall q hq
      · have : q = p := by simpa using hq
        subst this; exact hpf
    · right
      refine ⟨r, l1, l2 ++ [p], rfl, by rw [hs]; simp, hr, h1, ?_⟩
      intro q hq hqt
      rcases List.mem_append.mp hq with hq | hq
      · exact h2 q hq hqt
      · have : q = p := by simpa using hq
        subst this; rw [hpf] at hqt; cases hqt

theorem lateInv_fold (t : Option Nat) : ∀ (rest seen : List PubRec) (res : Option PubRec), LateInv t seen res →
    LateInv t (seen ++ rest) (rest.foldl (latestStep t) res) := by
  intro rest
  induction rest with
  | nil => intro seen res h; simpa using h
  | cons p ps ih =>
    intro seen res h
    have := ih (seen ++ [p]) _ (lateInv_step t seen res p h)
    simpa using this

theorem latest_inv (ps : List PubRec) (t : Option Nat) : LateInv t ps (latest ps t) := by
  have := lateInv_fold t ps [] none (Or.inl ⟨rfl, by intro p hp; cases hp⟩)
  simpa [latest] using this

end KsiVerif.PubFile
