import KsiVerif.Spec.Uri
/-!
# The URL automaton on well-formed URIs

Character-class facts are decided over all 256 octet values; the loops are then followed segment
by segment (`scheme`, `://`, server section, path, query, fragment).
-/
namespace KsiVerif.Uri
open KsiVerif

/-! ## what each character class does in each state (all 256 octets, by evaluation) -/

theorem start_alpha : ∀ n, n < 256 → isAlphaN n = true → parseUrlCharN .spacesBeforeUrl n = .schema := by decide +kernel
theorem schema_stay : ∀ n, n < 256 → isSchemeCharN n = true → parseUrlCharN .schema n = .schema := by decide +kernel
theorem server_userinfo : ∀ n, n < 256 → isUserinfoCharN n = true →
    parseUrlCharN .serverStart n = .server ∧ parseUrlCharN .server n = .server ∧ parseUrlCharN .serverWithAt n = .server := by decide +kernel
theorem host_is_userinfo : ∀ n, n < 256 → isHostCharN n = true → isUserinfoCharN n = true := by decide +kernel
theorem v6_is_userinfo : ∀ n, n < 256 → (isHexN n || n == 58 || n == 46) = true → isUserinfoCharN n = true := by decide +kernel
theorem num_is_userinfo : ∀ n, n < 256 → isNumN n = true → isUserinfoCharN n = true := by decide +kernel
theorem path_stay : ∀ n, n < 256 → isUrlCharN n = true → parseUrlCharN .path n = .path := by decide +kernel
theorem query_stay : ∀ n, n < 256 → (isUrlCharN n || n == 63) = true →
    parseUrlCharN .queryStart n = .query ∧ parseUrlCharN .query n = .query := by decide +kernel
theorem fragment_stay : ∀ n, n < 256 → (isUrlCharN n || n == 63) = true →
    parseUrlCharN .fragmentStart n = .fragment ∧ parseUrlCharN .fragment n = .fragment := by decide +kernel


/-! ## field bookkeeping -/

theorem get_put_same (u : Url) (uf : UF) (f : Fld) : (u.put uf f).get uf = f := by cases uf <;> rfl

theorem get_put_other (u : Url) (uf uf' : UF) (f : Fld) (h : uf ≠ uf') : (u.put uf f).get uf' = u.get uf' := by
  cases uf <;> cases uf' <;> first | rfl | exact absurd rfl h

theorem put_put (u : Url) (uf : UF) (f g : Fld) : (u.put uf f).put uf g = u.put uf g := by cases uf <;> rfl

theorem w16_small {n : Nat} (h : n < 65536) : w16 n = n := Nat.mod_eq_of_lt h

/-- `k` more octets of the field `uf` -/
def bumpLen (u : Url) (uf : UF) (k : Nat) : Url := u.put uf ⟨(u.get uf).off, (u.get uf).len + k⟩

theorem bumpLen_bumpLen (u : Url) (uf : UF) (j k : Nat) : bumpLen (bumpLen u uf j) uf k = bumpLen u uf (j + k) := by
  unfold bumpLen
  rw [get_put_same, put_put]
  simp [Nat.add_assoc]

/-- the five states in which a character extends a field -/
theorem urlStep_field (l : Loop) (p : Nat) (c : UInt8) (s : S) (uf : UF)
    (hs : (s = .schema ∧ uf = .schema) ∨ (s = .server ∧ uf = .host) ∨ (s = .path ∧ uf = .path) ∨
          (s = .query ∧ uf = .query) ∨ (s = .fragment ∧ uf = .fragment))
    (h : parseUrlCharN l.s c.toNat = s) : urlStep l p c = some (field l p uf s false) := by
  unfold urlStep parseUrlChar
  rw [h]
  rcases hs with ⟨rfl, rfl⟩ | ⟨rfl, rfl⟩ | ⟨rfl, rfl⟩ | ⟨rfl, rfl⟩ | ⟨rfl, rfl⟩ <;> rfl

theorem bumpLen_flag (u : Url) (uf : UF) (k : Nat) :
    (bumpLen u uf k).put uf ((bumpLen u uf k).get uf) = bumpLen u uf k := by
  unfold bumpLen; rw [get_put_same, put_put]

/-- a run of characters that keep the automaton in a field state extends that field -/
theorem urlLoop_run (s : S) (uf : UF)
    (hs : (s = .schema ∧ uf = .schema) ∨ (s = .server ∧ uf = .host) ∨ (s = .path ∧ uf = .path) ∨
          (s = .query ∧ uf = .query) ∨ (s = .fragment ∧ uf = .fragment)) :
    ∀ (cs : Bytes) (l : Loop) (p : Nat) (rest : Bytes),
      l.s = s → l.oldUf = some uf → l.u.put uf (l.u.get uf) = l.u →
      (∀ c ∈ cs, parseUrlCharN s c.toNat = s) → (l.u.get uf).len + cs.length < 65536 →
      urlLoop l p (cs ++ rest) = urlLoop { l with u := bumpLen l.u uf cs.length } (p + cs.length) rest := by
  intro cs
  induction cs with
  | nil =>
    intro l p rest _ _ hflag _ _
    have : bumpLen l.u uf 0 = l.u := by unfold bumpLen; simpa using hflag
    simp [this]
  | cons c cs ih =>
    intro l p rest hls hold hflag hall hlen
    have hc : parseUrlCharN l.s c.toNat = s := by rw [hls]; exact hall c (by simp)
    simp only [List.cons_append, urlLoop, urlStep_field l p c s uf hs hc]
    have hf : field l p uf s false = { l with u := bumpLen l.u uf 1 } := by
      unfold field
      rw [if_pos hold]
      simp only [List.length_cons] at hlen
      rw [w16_small (by omega)]
      cases l
      simp_all [bumpLen]
    rw [hf]
    have := ih { l with u := bumpLen l.u uf 1 } (p + 1) rest hls hold (bumpLen_flag l.u uf 1)
      (fun x hx => hall x (by simp [hx]))
      (by simp only [List.length_cons] at hlen; unfold bumpLen; rw [get_put_same]; simp only; omega)
    rw [this]
    simp only [bumpLen_bumpLen, List.length_cons]
    rw [show 1 + cs.length = cs.length + 1 by omega, show p + 1 + cs.length = p + (cs.length + 1) by omega]

/-- a character that opens a new field, followed by a run that extends it -/
theorem urlLoop_phase (s : S) (uf : UF)
    (hs : (s = .schema ∧ uf = .schema) ∨ (s = .server ∧ uf = .host) ∨ (s = .path ∧ uf = .path) ∨
          (s = .query ∧ uf = .query) ∨ (s = .fragment ∧ uf = .fragment))
    (c0 : UInt8) (cs : Bytes) (l : Loop) (p : Nat) (rest : Bytes)
    (h0 : parseUrlCharN l.s c0.toNat = s) (hall : ∀ c ∈ cs, parseUrlCharN s c.toNat = s)
    (hold : l.oldUf ≠ some uf) (hp : p + cs.length + 1 < 65536) :
    urlLoop l p (c0 :: (cs ++ rest)) =
      urlLoop { s := s, oldUf := some uf, foundAt := l.foundAt, u := l.u.put uf ⟨p, cs.length + 1⟩ } (p + (cs.length + 1)) rest := by
  simp only [urlLoop, urlStep_field l p c0 s uf hs h0]
  have hf : field l p uf s false = { s := s, oldUf := some uf, foundAt := l.foundAt, u := l.u.put uf ⟨p, 1⟩ } := by
    unfold field
    rw [if_neg hold, w16_small (by omega)]
    simp
  rw [hf]
  have := urlLoop_run s uf hs cs { s := s, oldUf := some uf, foundAt := l.foundAt, u := l.u.put uf ⟨p, 1⟩ } (p + 1) rest rfl rfl
    (by simp only; rw [get_put_same, put_put]) hall (by simp only; rw [get_put_same]; simp only; omega)
  rw [this]
  simp only [bumpLen, get_put_same, put_put]
  rw [show 1 + cs.length = cs.length + 1 by omega, show p + 1 + cs.length = p + (cs.length + 1) by omega]

/-- a delimiter: the state moves on, nothing else changes -/
theorem urlStep_delim (l : Loop) (p : Nat) (c : UInt8) (s : S)
    (hs : s = .schemaSlash ∨ s = .schemaSlashSlash ∨ s = .serverStart ∨ s = .queryStart ∨ s = .fragmentStart)
    (h : parseUrlCharN l.s c.toNat = s) : urlStep l p c = some { l with s := s } := by
  unfold urlStep parseUrlChar
  rw [h]
  rcases hs with rfl | rfl | rfl | rfl | rfl <;> rfl

/-! ## the walk over a well-formed URI -/

theorem delims : parseUrlCharN .schema 58 = .schemaSlash ∧ parseUrlCharN .schemaSlash 47 = .schemaSlashSlash ∧
    parseUrlCharN .schemaSlashSlash 47 = .serverStart ∧ parseUrlCharN .server 47 = .path ∧
    parseUrlCharN .server 63 = .queryStart ∧ parseUrlCharN .path 63 = .queryStart ∧
    parseUrlCharN .path 35 = .fragmentStart ∧ parseUrlCharN .query 35 = .fragmentStart ∧
    parseUrlCharN .server 64 = .serverWithAt := by decide +kernel

theorem srv_stay : ∀ n, n < 256 → (isUserinfoCharN n || n == 91 || n == 93) = true →
    parseUrlCharN .serverStart n = .server ∧ parseUrlCharN .server n = .server ∧ parseUrlCharN .serverWithAt n = .server := by
  decide +kernel

def isSrv (c : UInt8) : Bool := isUserinfoCharN c.toNat || c.toNat == 91 || c.toNat == 93

theorem toNat_lt256 (c : UInt8) : c.toNat < 256 := c.toNat_lt

/-- scheme and "://" -/
theorem walk_scheme (c0 : UInt8) (cs rest : Bytes) (h0 : isAlpha c0 = true) (hcs : cs.all isSchemeChar = true)
    (hlen : cs.length + 1 < 65536) :
    urlLoop {} 0 (c0 :: (cs ++ 58 :: 47 :: 47 :: rest)) =
      urlLoop { s := .serverStart, oldUf := some .schema, foundAt := false, u := ({} : Url).put .schema ⟨0, cs.length + 1⟩ }
        (cs.length + 1 + 3) rest := by
  have h1 := urlLoop_phase .schema .schema (Or.inl ⟨rfl, rfl⟩) c0 cs {} 0 (58 :: 47 :: 47 :: rest)
    (start_alpha _ (toNat_lt256 c0) h0)
    (fun c hc => schema_stay _ (toNat_lt256 c) (by simpa [isSchemeChar] using (List.all_eq_true.mp hcs) c hc))
    (by simp) (by omega)
  rw [h1]
  simp only [Nat.zero_add]
  have d := delims
  have e58 : (58 : UInt8).toNat = 58 := rfl
  have e47 : (47 : UInt8).toNat = 47 := rfl
  simp only [urlLoop]
  rw [urlStep_delim _ _ 58 .schemaSlash (Or.inl rfl) (by simp only [e58]; exact d.1)]
  simp only
  rw [urlStep_delim _ _ 47 .schemaSlashSlash (Or.inr (Or.inl rfl)) (by simp only [e47]; exact d.2.1)]
  simp only
  rw [urlStep_delim _ _ 47 .serverStart (Or.inr (Or.inr (Or.inl rfl))) (by simp only [e47]; exact d.2.2.1)]

theorem urlStep_host_cont (l : Loop) (p : Nat) (c : UInt8) (s : S) (at_ : Bool)
    (hs : (s = .server ∧ at_ = false) ∨ (s = .serverWithAt ∧ at_ = true))
    (h : parseUrlCharN l.s c.toNat = s) : urlStep l p c = some (field l p .host s at_) := by
  unfold urlStep parseUrlChar
  rw [h]
  rcases hs with ⟨rfl, rfl⟩ | ⟨rfl, rfl⟩ <;> rfl

theorem field_cont (l : Loop) (p : Nat) (uf : UF) (s : S) (at_ : Bool) (hold : l.oldUf = some uf)
    (hlen : (l.u.get uf).len + 1 < 65536) :
    field l p uf s at_ = { l with s := s, foundAt := l.foundAt || at_, u := bumpLen l.u uf 1 } := by
  unfold field
  rw [if_pos hold, w16_small hlen]
  rfl

/-- the server section without credentials: `host[:port]` -/
theorem walk_server_plain (r0 : UInt8) (rs rest : Bytes) (l : Loop) (p : Nat)
    (hl : l.s = .serverStart) (hold : l.oldUf = some .schema)
    (hr0 : isSrv r0 = true) (hrs : rs.all isSrv = true) (hp : p + rs.length + 1 < 65536) :
    urlLoop l p (r0 :: (rs ++ rest)) =
      urlLoop { s := .server, oldUf := some .host, foundAt := l.foundAt, u := l.u.put .host ⟨p, rs.length + 1⟩ }
        (p + (rs.length + 1)) rest :=
  urlLoop_phase .server .host (Or.inr (Or.inl ⟨rfl, rfl⟩)) r0 rs l p rest
    (by rw [hl]; exact (srv_stay _ (toNat_lt256 r0) hr0).1)
    (fun c hc => (srv_stay _ (toNat_lt256 c) ((List.all_eq_true.mp hrs) c hc)).2.1)
    (by rw [hold]; simp) hp

/-- the server section with credentials: `user:key@host[:port]` -/
theorem walk_server_cred (x0 : UInt8) (xs : Bytes) (r0 : UInt8) (rs rest : Bytes) (l : Loop) (p : Nat)
    (hl : l.s = .serverStart) (hold : l.oldUf = some .schema)
    (hx0 : isSrv x0 = true) (hxs : xs.all isSrv = true) (hr0 : isSrv r0 = true) (hrs : rs.all isSrv = true)
    (hp : p + (xs.length + 1 + 1 + (rs.length + 1)) < 65536) :
    urlLoop l p (x0 :: (xs ++ 64 :: r0 :: (rs ++ rest))) =
      urlLoop { s := .server, oldUf := some .host, foundAt := true,
                u := l.u.put .host ⟨p, xs.length + 1 + 1 + (rs.length + 1)⟩ }
        (p + (xs.length + 1 + 1 + (rs.length + 1))) rest := by
  have h1 := urlLoop_phase .server .host (Or.inr (Or.inl ⟨rfl, rfl⟩)) x0 xs l p (64 :: r0 :: (rs ++ rest))
    (by rw [hl]; exact (srv_stay _ (toNat_lt256 x0) hx0).1)
    (fun c hc => (srv_stay _ (toNat_lt256 c) ((List.all_eq_true.mp hxs) c hc)).2.1)
    (by rw [hold]; simp) (by omega)
  rw [h1]
  have e64 : (64 : UInt8).toNat = 64 := rfl
  -- '@'
  simp only [urlLoop]
  rw [urlStep_host_cont _ _ 64 .serverWithAt true (Or.inr ⟨rfl, rfl⟩) (by simp only [e64]; exact delims.2.2.2.2.2.2.2.2)]
  rw [field_cont _ _ .host _ _ rfl (by simp only; rw [get_put_same]; simp only; omega)]
  simp only
  -- first character after '@'
  rw [urlStep_host_cont _ _ r0 .server false (Or.inl ⟨rfl, rfl⟩) (by simp only; exact (srv_stay _ (toNat_lt256 r0) hr0).2.2)]
  rw [field_cont _ _ .host _ _ rfl (by simp only [bumpLen]; rw [get_put_same, get_put_same]; simp only; omega)]
  simp only
  -- the rest of the section
  have h2 := urlLoop_run .server .host (Or.inr (Or.inl ⟨rfl, rfl⟩)) rs
    { s := .server, oldUf := some .host, foundAt := (l.foundAt || true) || false,
      u := bumpLen (bumpLen (l.u.put .host ⟨p, xs.length + 1⟩) .host 1) .host 1 }
    (p + (xs.length + 1) + 1 + 1) rest rfl rfl (by simp only; exact bumpLen_flag _ _ _)
    (fun c hc => (srv_stay _ (toNat_lt256 c) ((List.all_eq_true.mp hrs) c hc)).2.1)
    (by simp only [bumpLen]; rw [get_put_same, get_put_same, get_put_same]; simp only; omega)
  rw [h2]
  simp only [bumpLen, get_put_same, put_put, Bool.or_true, Bool.or_false]
  rw [show xs.length + 1 + 1 + 1 + rs.length = xs.length + 1 + 1 + (rs.length + 1) by omega,
    show p + (xs.length + 1) + 1 + 1 + rs.length = p + (xs.length + 1 + 1 + (rs.length + 1)) by omega]

/-! ### path, query, fragment -/

theorem walk_path (ps rest : Bytes) (l : Loop) (p : Nat) (hl : l.s = .server) (hold : l.oldUf = some .host)
    (hps : ps.all isUrlChar = true) (hp : p + ps.length + 1 < 65536) :
    urlLoop l p (47 :: (ps ++ rest)) =
      urlLoop { s := .path, oldUf := some .path, foundAt := l.foundAt, u := l.u.put .path ⟨p, ps.length + 1⟩ }
        (p + (ps.length + 1)) rest :=
  urlLoop_phase .path .path (Or.inr (Or.inr (Or.inl ⟨rfl, rfl⟩))) 47 ps l p rest
    (by rw [hl]; exact delims.2.2.2.1)
    (fun c hc => path_stay _ (toNat_lt256 c) (by simpa [isUrlChar] using (List.all_eq_true.mp hps) c hc))
    (by rw [hold]; simp) hp

def isQueryChar (c : UInt8) : Bool := isUrlCharN c.toNat || c.toNat == 63

theorem walk_query (q0 : UInt8) (qs rest : Bytes) (l : Loop) (p : Nat) (hl : l.s = .server ∨ l.s = .path)
    (hold : l.oldUf ≠ some .query) (hq0 : isQueryChar q0 = true) (hqs : qs.all isQueryChar = true)
    (hp : p + 1 + qs.length + 1 < 65536) :
    urlLoop l p (63 :: q0 :: (qs ++ rest)) =
      urlLoop { s := .query, oldUf := some .query, foundAt := l.foundAt, u := l.u.put .query ⟨p + 1, qs.length + 1⟩ }
        (p + 1 + (qs.length + 1)) rest := by
  have e63 : (63 : UInt8).toNat = 63 := rfl
  have hd : parseUrlCharN l.s (63 : UInt8).toNat = .queryStart := by
    rcases hl with h | h <;> rw [h, e63]
    · exact delims.2.2.2.2.1
    · exact delims.2.2.2.2.2.1
  simp only [urlLoop]
  rw [urlStep_delim l p 63 .queryStart (Or.inr (Or.inr (Or.inr (Or.inl rfl)))) hd]
  simp only
  exact urlLoop_phase .query .query (Or.inr (Or.inr (Or.inr (Or.inl ⟨rfl, rfl⟩)))) q0 qs { l with s := .queryStart } (p + 1) rest
    ((query_stay _ (toNat_lt256 q0) hq0).1)
    (fun c hc => (query_stay _ (toNat_lt256 c) ((List.all_eq_true.mp hqs) c hc)).2)
    hold (by omega)

theorem walk_fragment (f0 : UInt8) (fs rest : Bytes) (l : Loop) (p : Nat) (hl : l.s = .path ∨ l.s = .query)
    (hold : l.oldUf ≠ some .fragment) (hf0 : isQueryChar f0 = true) (hfs : fs.all isQueryChar = true)
    (hp : p + 1 + fs.length + 1 < 65536) :
    urlLoop l p (35 :: f0 :: (fs ++ rest)) =
      urlLoop { s := .fragment, oldUf := some .fragment, foundAt := l.foundAt, u := l.u.put .fragment ⟨p + 1, fs.length + 1⟩ }
        (p + 1 + (fs.length + 1)) rest := by
  have e35 : (35 : UInt8).toNat = 35 := rfl
  have hd : parseUrlCharN l.s (35 : UInt8).toNat = .fragmentStart := by
    rcases hl with h | h <;> rw [h, e35]
    · exact delims.2.2.2.2.2.2.1
    · exact delims.2.2.2.2.2.2.2.1
  simp only [urlLoop]
  rw [urlStep_delim l p 35 .fragmentStart (Or.inr (Or.inr (Or.inr (Or.inr rfl)))) hd]
  simp only
  exact urlLoop_phase .fragment .fragment (Or.inr (Or.inr (Or.inr (Or.inr ⟨rfl, rfl⟩)))) f0 fs { l with s := .fragmentStart } (p + 1) rest
    ((fragment_stay _ (toNat_lt256 f0) hf0).1)
    (fun c hc => (fragment_stay _ (toNat_lt256 c) ((List.all_eq_true.mp hfs) c hc)).2)
    hold (by omega)

/-- an optional `delimiter ++ text` segment -/
def seg (d : UInt8) (q : Option Bytes) : Bytes := match q with | some q => d :: q | none => []
def segLen (q : Option Bytes) : Nat := match q with | none => 0 | some q => 1 + q.length

theorem seg_length (d : UInt8) (q : Option Bytes) : (seg d q).length = segLen q := by
  cases q <;> simp [seg, segLen]; omega

def tailBytes (pa : Bytes) (q f : Option Bytes) : Bytes := pa ++ (seg 63 q ++ seg 35 f)

def putOpt (u : Url) (uf : UF) (off : Nat) (q : Option Bytes) : Url :=
  match q with | none => u | some q => u.put uf ⟨off, q.length⟩

def tailUrl (u : Url) (p : Nat) (pa : Bytes) (q f : Option Bytes) : Url :=
  putOpt (putOpt (if pa.isEmpty then u else u.put .path ⟨p, pa.length⟩) .query (p + pa.length + 1) q)
    .fragment (p + pa.length + segLen q + 1) f

def pathOK (pa : Bytes) : Bool := match pa with | [] => true | c :: cs => c.toNat == 47 && cs.all isUrlChar
def optOK (q : Option Bytes) : Bool := match q with | some q => !q.isEmpty && q.all isQueryChar | none => true

theorem u8_eq_of_toNat {c : UInt8} (n : Nat) (hn : n < 256) (h : c.toNat = n) : c = UInt8.ofNat n := by
  apply UInt8.toNat_inj.mp
  rw [h]
  simp [UInt8.toNat_ofNat, Nat.mod_eq_of_lt hn]

theorem walk_tail_path (l : Loop) (p : Nat) (pa : Bytes) (hl : l.s = .server) (hold : l.oldUf = some .host)
    (hpa : pathOK pa = true) (hlen : p + pa.length < 65536) :
    ∃ l1 : Loop, (∀ rest, urlLoop l p (pa ++ rest) = urlLoop l1 (p + pa.length) rest) ∧ l1.foundAt = l.foundAt ∧
      l1.u = (if pa.isEmpty then l.u else l.u.put .path ⟨p, pa.length⟩) ∧
      ((pa = [] ∧ l1.s = .server ∧ l1.oldUf = some .host) ∨ (pa ≠ [] ∧ l1.s = .path ∧ l1.oldUf = some .path)) := by
  cases pa with
  | nil => exact ⟨l, fun rest => by simp, rfl, by simp, Or.inl ⟨rfl, hl, hold⟩⟩
  | cons c ps =>
    simp only [pathOK, Bool.and_eq_true, beq_iff_eq] at hpa
    have hc : c = 47 := u8_eq_of_toNat 47 (by decide) hpa.1
    subst hc
    refine ⟨{ s := .path, oldUf := some .path, foundAt := l.foundAt, u := l.u.put .path ⟨p, ps.length + 1⟩ },
      fun rest => ?_, rfl, by simp, Or.inr ⟨by simp, rfl, rfl⟩⟩
    have := walk_path ps rest l p hl hold hpa.2 (by simp only [List.length_cons] at hlen; omega)
    simpa using this

theorem walk_tail_query (l1 : Loop) (p : Nat) (q : Option Bytes) (hs : l1.s = .server ∨ l1.s = .path)
    (ho : l1.oldUf = some .host ∨ l1.oldUf = some .path) (hq : optOK q = true) (hlen : p + segLen q < 65536) :
    ∃ l2 : Loop, (∀ rest, urlLoop l1 p (seg 63 q ++ rest) = urlLoop l2 (p + segLen q) rest) ∧ l2.foundAt = l1.foundAt ∧
      l2.u = putOpt l1.u .query (p + 1) q ∧
      ((q = none ∧ l2 = l1) ∨ (q ≠ none ∧ l2.s = .query ∧ l2.oldUf = some .query)) := by
  cases q with
  | none => exact ⟨l1, fun rest => by simp [seg, segLen], rfl, rfl, Or.inl ⟨rfl, rfl⟩⟩
  | some qq =>
    cases qq with
    | nil => simp [optOK] at hq
    | cons q0 qs =>
      simp only [optOK, List.isEmpty_cons, Bool.not_false, List.all_cons, Bool.true_and, Bool.and_eq_true] at hq
      refine ⟨{ s := .query, oldUf := some .query, foundAt := l1.foundAt, u := l1.u.put .query ⟨p + 1, qs.length + 1⟩ },
        fun rest => ?_, rfl, by simp [putOpt], Or.inr ⟨by simp, rfl, rfl⟩⟩
      have ho' : l1.oldUf ≠ some .query := by rcases ho with h | h <;> rw [h] <;> simp
      have := walk_query q0 qs rest l1 p hs ho' hq.1 hq.2 (by simp only [segLen, List.length_cons] at hlen; omega)
      simp only [seg, List.cons_append, segLen, List.length_cons]
      rw [this]
      congr 1
      omega

/-- everything after the server section -/
theorem walk_tail (l : Loop) (p : Nat) (pa : Bytes) (q f : Option Bytes) (hl : l.s = .server) (hold : l.oldUf = some .host)
    (hpa : pathOK pa = true) (hq : optOK q = true) (hf : optOK f = true)
    (hshape : ¬ (pa = [] ∧ q = none ∧ f ≠ none)) (hlen : p + (tailBytes pa q f).length < 65536) :
    ∃ s o, urlLoop l p (tailBytes pa q f) = some { s := s, oldUf := o, foundAt := l.foundAt, u := tailUrl l.u p pa q f } := by
  have hlen' : p + pa.length + segLen q + segLen f < 65536 := by
    simp only [tailBytes, List.length_append, seg_length] at hlen; omega
  obtain ⟨l1, h1, hfa1, hu1, hs1⟩ := walk_tail_path l p pa hl hold hpa (by omega)
  have hs1' : l1.s = .server ∨ l1.s = .path := by
    rcases hs1 with ⟨_, h, _⟩ | ⟨_, h, _⟩
    · exact Or.inl h
    · exact Or.inr h
  have ho1 : l1.oldUf = some .host ∨ l1.oldUf = some .path := by
    rcases hs1 with ⟨_, _, h⟩ | ⟨_, _, h⟩
    · exact Or.inl h
    · exact Or.inr h
  obtain ⟨l2, h2, hfa2, hu2, hs2⟩ := walk_tail_query l1 (p + pa.length) q hs1' ho1 hq (by omega)
  unfold tailBytes
  rw [h1, h2]
  cases f with
  | none =>
    refine ⟨l2.s, l2.oldUf, ?_⟩
    simp only [seg, urlLoop, tailUrl]
    congr 1
    cases l2
    simp only at hfa2 hu2
    subst hfa2 hu2
    rw [hu1, hfa1]
    rfl
  | some ff =>
    cases ff with
    | nil => simp [optOK] at hf
    | cons f0 fs =>
      simp only [optOK, List.isEmpty_cons, Bool.not_false, List.all_cons, Bool.true_and, Bool.and_eq_true] at hf
      have hs : l2.s = .path ∨ l2.s = .query := by
        rcases hs2 with ⟨hq0, h⟩ | ⟨_, h, _⟩
        · rcases hs1 with ⟨hp0, _, _⟩ | ⟨_, hh, _⟩
          · exact absurd ⟨hp0, hq0, by simp⟩ hshape
          · rw [h]; exact Or.inl hh
        · exact Or.inr h
      have ho : l2.oldUf ≠ some .fragment := by
        rcases hs2 with ⟨_, h⟩ | ⟨_, _, h⟩
        · rw [h]; rcases ho1 with hh | hh <;> rw [hh] <;> simp
        · rw [h]; simp
      have hsl : segLen (some (f0 :: fs)) = 1 + (fs.length + 1) := rfl
      have h3 := walk_fragment f0 fs [] l2 (p + pa.length + segLen q) hs ho hf.1 hf.2 (by
        rw [hsl] at hlen'; omega)
      refine ⟨.fragment, some .fragment, ?_⟩
      simp only [List.append_nil] at h3
      simp only [seg]
      rw [h3]
      simp only [urlLoop, tailUrl]
      rw [hfa2, hu2, hu1, hfa1]
      rfl

/-! ## `http_parse_host` on the server section -/

theorem hfacts_userinfo : ∀ n, n < 256 → isUserinfoCharN n = true →
    hostCharN .userinfoStart n = .userinfo ∧ hostCharN .userinfo n = .userinfo := by decide +kernel
theorem hfacts_host : ∀ n, n < 256 → isHostCharN n = true →
    hostCharN .hostStart n = .host ∧ hostCharN .host n = .host := by decide +kernel
theorem hfacts_v6 : ∀ n, n < 256 → (isHexN n || n == 58 || n == 46) = true →
    hostCharN .v6Start n = .v6 ∧ hostCharN .v6 n = .v6 := by decide +kernel
theorem hfacts_port : ∀ n, n < 256 → isNumN n = true →
    hostCharN .portStart n = .port ∧ hostCharN .port n = .port := by decide +kernel
theorem hfacts_delims : hostCharN .userinfo 64 = .hostStart ∧ hostCharN .hostStart 91 = .v6Start ∧
    hostCharN .v6 93 = .v6End ∧ hostCharN .host 58 = .portStart ∧ hostCharN .v6End 58 = .portStart := by decide +kernel

/-- the field update of one step: from state `s` into state `ns` at position `p` -/
def hostUpd (u : Url) (s ns : HS) (p : Nat) : Url :=
  match ns with
  | .host => { u with host := if s ≠ .host then ⟨w16 p, w16 (u.host.len + 1)⟩ else ⟨u.host.off, w16 (u.host.len + 1)⟩ }
  | .v6 => { u with host := if s ≠ .v6 then ⟨w16 p, w16 (u.host.len + 1)⟩ else ⟨u.host.off, w16 (u.host.len + 1)⟩ }
  | .port => if s ≠ .port then u.put .port ⟨w16 p, 1⟩ else u.put .port { (u.get .port) with len := w16 ((u.get .port).len + 1) }
  | .userinfo => if s ≠ .userinfo then u.put .userinfo ⟨w16 p, 1⟩ else u.put .userinfo { (u.get .userinfo) with len := w16 ((u.get .userinfo).len + 1) }
  | _ => u

/-- one step of the loop, spelled out -/
theorem hostLoop_cons (u : Url) (s : HS) (p : Nat) (ch : UInt8) (rest : Bytes) :
    hostLoop u s p (ch :: rest) =
      if hostCharN s ch.toNat = .dead then u
      else hostLoop (hostUpd u s (hostCharN s ch.toNat) p) (hostCharN s ch.toNat) (p + 1) rest := by
  simp only [hostLoop, hostChar, hostUpd]
  split
  · rfl
  · congr 1
    cases hostCharN s ch.toNat <;> simp

/-- a run of characters inside the user-info or the port -/
theorem hostLoop_run_put (s : HS) (uf : UF) (hs : (s = .userinfo ∧ uf = .userinfo) ∨ (s = .port ∧ uf = .port)) :
    ∀ (cs : Bytes) (u : Url) (p : Nat) (rest : Bytes),
      (∀ c ∈ cs, hostCharN s c.toNat = s) → (u.get uf).len + cs.length < 65536 →
      u.put uf (u.get uf) = u →
      hostLoop u s p (cs ++ rest) = hostLoop (bumpLen u uf cs.length) s (p + cs.length) rest := by
  intro cs
  induction cs with
  | nil =>
    intro u p rest _ _ hflag
    have : bumpLen u uf 0 = u := by unfold bumpLen; simpa using hflag
    simp [this]
  | cons c cs ih =>
    intro u p rest hall hlen hflag
    have hc : hostCharN s c.toNat = s := hall c (by simp)
    simp only [List.cons_append, hostLoop_cons, hc]
    have hnd : s ≠ .dead := by rcases hs with ⟨rfl, _⟩ | ⟨rfl, _⟩ <;> simp
    rw [if_neg hnd]
    simp only [List.length_cons] at hlen
    have hstep : hostUpd u s s p = bumpLen u uf 1 := by
      rcases hs with ⟨rfl, rfl⟩ | ⟨rfl, rfl⟩
      · simp only [hostUpd, ne_eq, not_true_eq_false, if_false, bumpLen]; rw [w16_small (by omega)]
      · simp only [hostUpd, ne_eq, not_true_eq_false, if_false, bumpLen]; rw [w16_small (by omega)]
    rw [hstep]
    have := ih (bumpLen u uf 1) (p + 1) rest (fun x hx => hall x (by simp [hx]))
      (by unfold bumpLen; rw [get_put_same]; simp only; omega) (bumpLen_flag u uf 1)
    rw [this, bumpLen_bumpLen]
    simp only [List.length_cons]
    rw [show 1 + cs.length = cs.length + 1 by omega, show p + 1 + cs.length = p + (cs.length + 1) by omega]

/-- a run of characters inside the host name / the IPv6 literal -/
theorem hostLoop_run_host (s : HS) (hs : s = .host ∨ s = .v6) :
    ∀ (cs : Bytes) (u : Url) (p : Nat) (rest : Bytes),
      (∀ c ∈ cs, hostCharN s c.toNat = s) → u.host.len + cs.length < 65536 →
      hostLoop u s p (cs ++ rest) = hostLoop { u with host := ⟨u.host.off, u.host.len + cs.length⟩ } s (p + cs.length) rest := by
  intro cs
  induction cs with
  | nil => intro u p rest _ _; simp
  | cons c cs ih =>
    intro u p rest hall hlen
    have hc : hostCharN s c.toNat = s := hall c (by simp)
    simp only [List.cons_append, hostLoop_cons, hc]
    have hnd : s ≠ .dead := by rcases hs with rfl | rfl <;> simp
    rw [if_neg hnd]
    simp only [List.length_cons] at hlen
    have hstep : hostUpd u s s p = { u with host := ⟨u.host.off, u.host.len + 1⟩ } := by
      rcases hs with rfl | rfl
      · simp only [hostUpd, ne_eq, not_true_eq_false, if_false]; rw [w16_small (by omega)]
      · simp only [hostUpd, ne_eq, not_true_eq_false, if_false]; rw [w16_small (by omega)]
    rw [hstep]
    have := ih { u with host := ⟨u.host.off, u.host.len + 1⟩ } (p + 1) rest (fun x hx => hall x (by simp [hx]))
      (by simp only; omega)
    rw [this]
    simp only [List.length_cons]
    rw [show u.host.len + 1 + cs.length = u.host.len + (cs.length + 1) by omega,
      show p + 1 + cs.length = p + (cs.length + 1) by omega]

theorem hostLoop_userinfo (x0 : UInt8) (xs rest : Bytes) (u : Url) (p : Nat)
    (hx0 : isUserinfoCharN x0.toNat = true) (hxs : ∀ c ∈ xs, isUserinfoCharN c.toNat = true) (hp : p + xs.length + 1 < 65536) :
    hostLoop u .userinfoStart p (x0 :: (xs ++ 64 :: rest)) =
      hostLoop (u.put .userinfo ⟨p, xs.length + 1⟩) .hostStart (p + (xs.length + 1) + 1) rest := by
  rw [hostLoop_cons, (hfacts_userinfo _ (toNat_lt256 x0) hx0).1]
  simp only [reduceCtorEq, if_false]
  have h1 : hostUpd u .userinfoStart .userinfo p = u.put .userinfo ⟨p, 1⟩ := by
    simp only [hostUpd, ne_eq, reduceCtorEq, not_false_eq_true, if_true]; rw [w16_small (by omega)]
  rw [h1]
  rw [hostLoop_run_put .userinfo .userinfo (Or.inl ⟨rfl, rfl⟩) xs _ (p + 1) (64 :: rest)
    (fun c hc => (hfacts_userinfo _ (toNat_lt256 c) (hxs c hc)).2)
    (by rw [get_put_same]; simp only; omega) (by rw [get_put_same, put_put])]
  have e64 : (64 : UInt8).toNat = 64 := rfl
  rw [hostLoop_cons, e64, hfacts_delims.1]
  simp only [reduceCtorEq, if_false, hostUpd, bumpLen, get_put_same, put_put]
  rw [show 1 + xs.length = xs.length + 1 by omega, show p + 1 + xs.length + 1 = p + (xs.length + 1) + 1 by omega]

theorem hostLoop_name (h0 : UInt8) (hs rest : Bytes) (u : Url) (p : Nat)
    (hh0 : isHostCharN h0.toNat = true) (hhs : ∀ c ∈ hs, isHostCharN c.toNat = true)
    (hp : p + hs.length + 1 < 65536) (hl : u.host.len = 0) :
    hostLoop u .hostStart p (h0 :: (hs ++ rest)) =
      hostLoop { u with host := ⟨p, hs.length + 1⟩ } .host (p + (hs.length + 1)) rest := by
  rw [hostLoop_cons, (hfacts_host _ (toNat_lt256 h0) hh0).1]
  simp only [reduceCtorEq, if_false]
  have h1 : hostUpd u .hostStart .host p = { u with host := ⟨p, 1⟩ } := by
    simp only [hostUpd, ne_eq, reduceCtorEq, not_false_eq_true, if_true, hl]
    rw [w16_small (by omega), w16_small (by omega)]
  rw [h1]
  rw [hostLoop_run_host .host (Or.inl rfl) hs _ (p + 1) rest
    (fun c hc => (hfacts_host _ (toNat_lt256 c) (hhs c hc)).2) (by simp only; omega)]
  simp only
  rw [show 1 + hs.length = hs.length + 1 by omega, show p + 1 + hs.length = p + (hs.length + 1) by omega]

theorem hostLoop_v6 (v0 : UInt8) (vs rest : Bytes) (u : Url) (p : Nat)
    (hv0 : (isHexN v0.toNat || v0.toNat == 58 || v0.toNat == 46) = true)
    (hvs : ∀ c ∈ vs, (isHexN c.toNat || c.toNat == 58 || c.toNat == 46) = true)
    (hp : p + vs.length + 3 < 65536) (hl : u.host.len = 0) :
    hostLoop u .hostStart p (91 :: v0 :: (vs ++ 93 :: rest)) =
      hostLoop { u with host := ⟨p + 1, vs.length + 1⟩ } .v6End (p + 1 + (vs.length + 1) + 1) rest := by
  have e91 : (91 : UInt8).toNat = 91 := rfl
  have e93 : (93 : UInt8).toNat = 93 := rfl
  rw [hostLoop_cons, e91, hfacts_delims.2.1]
  simp only [reduceCtorEq, if_false, hostUpd]
  rw [hostLoop_cons, (hfacts_v6 _ (toNat_lt256 v0) hv0).1]
  simp only [reduceCtorEq, if_false]
  have h1 : hostUpd u .v6Start .v6 (p + 1) = { u with host := ⟨p + 1, 1⟩ } := by
    simp only [hostUpd, ne_eq, reduceCtorEq, not_false_eq_true, if_true, hl]
    rw [w16_small (by omega), w16_small (by omega)]
  rw [h1]
  rw [hostLoop_run_host .v6 (Or.inr rfl) vs _ (p + 1 + 1) (93 :: rest)
    (fun c hc => (hfacts_v6 _ (toNat_lt256 c) (hvs c hc)).2) (by simp only; omega)]
  rw [hostLoop_cons, e93, hfacts_delims.2.2.1]
  simp only [reduceCtorEq, if_false, hostUpd]
  rw [show 1 + vs.length = vs.length + 1 by omega, show p + 1 + 1 + vs.length + 1 = p + 1 + (vs.length + 1) + 1 by omega]

theorem hostLoop_port (d0 : UInt8) (ds : Bytes) (u : Url) (s : HS) (p : Nat) (hs : s = .host ∨ s = .v6End)
    (hd0 : isNumN d0.toNat = true) (hds : ∀ c ∈ ds, isNumN c.toNat = true) (hp : p + ds.length + 2 < 65536) :
    hostLoop u s p (58 :: d0 :: ds) = u.put .port ⟨p + 1, ds.length + 1⟩ := by
  have e58 : (58 : UInt8).toNat = 58 := rfl
  have hd : hostCharN s 58 = .portStart := by
    rcases hs with rfl | rfl
    · exact hfacts_delims.2.2.2.1
    · exact hfacts_delims.2.2.2.2
  rw [hostLoop_cons, e58, hd]
  simp only [reduceCtorEq, if_false, hostUpd]
  rw [hostLoop_cons, (hfacts_port _ (toNat_lt256 d0) hd0).1]
  simp only [reduceCtorEq, if_false]
  have h1 : hostUpd u .portStart .port (p + 1) = u.put .port ⟨p + 1, 1⟩ := by
    simp only [hostUpd, ne_eq, reduceCtorEq, not_false_eq_true, if_true]; rw [w16_small (by omega)]
  rw [h1]
  have := hostLoop_run_put .port .port (Or.inr ⟨rfl, rfl⟩) ds (u.put .port ⟨p + 1, 1⟩) (p + 1 + 1) []
    (fun c hc => (hfacts_port _ (toNat_lt256 c) (hds c hc)).2)
    (by rw [get_put_same]; simp only; omega) (by rw [get_put_same, put_put])
  simp only [List.append_nil] at this
  rw [this]
  simp only [hostLoop, bumpLen, get_put_same, put_put]
  rw [show 1 + ds.length = ds.length + 1 by omega]

/-! ## decimal numbers -/

theorem ofNat_toNat_small {n : Nat} (h : n < 256) : (UInt8.ofNat n).toNat = n := by
  simp [UInt8.toNat_ofNat, Nat.mod_eq_of_lt h]

theorem digitsVal_decimal : ∀ (n acc : Nat) (rest : Bytes),
    digitsVal acc (decimal n ++ rest) = digitsVal (acc * 10 ^ (decimal n).length + n) rest := by
  intro n
  induction n using Nat.strongRecOn with
  | _ n ih =>
    intro acc rest
    rw [decimal]
    split
    · rename_i h
      have hd : (UInt8.ofNat (48 + n)).toNat = 48 + n := ofNat_toNat_small (by omega)
      simp only [List.singleton_append, digitsVal, isNum, isNumN, hd, List.length_singleton, Nat.pow_one]
      rw [if_pos (by simp; omega)]
      congr 1
      omega
    · rename_i h
      have hlt : n / 10 < n := by omega
      rw [List.append_assoc, ih (n / 10) hlt acc]
      have hd : (UInt8.ofNat (48 + n % 10)).toNat = 48 + n % 10 := ofNat_toNat_small (by omega)
      simp only [List.singleton_append, digitsVal, isNum, isNumN, hd, List.length_append, List.length_singleton, Nat.pow_succ]
      rw [if_pos (by simp; omega)]
      congr 1
      have := Nat.div_add_mod n 10
      rw [Nat.add_mul, Nat.mul_assoc]
      omega

theorem decimal_digits : ∀ (n : Nat), ∀ c ∈ decimal n, isNumN c.toNat = true := by
  intro n
  induction n using Nat.strongRecOn with
  | _ n ih =>
    intro c hc
    rw [decimal] at hc
    split at hc
    · rename_i h
      simp only [List.mem_singleton] at hc
      rw [hc, ofNat_toNat_small (by omega)]
      simp [isNumN]; omega
    · rename_i h
      simp only [List.mem_append, List.mem_singleton] at hc
      rcases hc with hc | hc
      · exact ih (n / 10) (by omega) c hc
      · rw [hc, ofNat_toNat_small (by omega)]
        simp [isNumN]; omega

theorem decimal_ne_nil (n : Nat) : decimal n ≠ [] := by
  rw [decimal]; split <;> simp

/-- `strtoul` on a port written in decimal, followed by nothing or by a character that is not a digit -/
theorem digitsVal_port (n : Nat) (rest : Bytes) (hr : rest = [] ∨ ∃ c cs, rest = c :: cs ∧ isNum c = false) :
    digitsVal 0 (decimal n ++ rest) = n := by
  rw [digitsVal_decimal]
  simp only [Nat.zero_mul, Nat.zero_add]
  rcases hr with rfl | ⟨c, cs, rfl, hc⟩
  · rfl
  · simp [digitsVal, hc]

/-! ## whole-list versions of the server walks -/

theorem walk_server_plain' (sv rest : Bytes) (l : Loop) (p : Nat) (hl : l.s = .serverStart) (hold : l.oldUf = some .schema)
    (hne : sv ≠ []) (hall : sv.all isSrv = true) (hp : p + sv.length < 65536) :
    urlLoop l p (sv ++ rest) =
      urlLoop { s := .server, oldUf := some .host, foundAt := l.foundAt, u := l.u.put .host ⟨p, sv.length⟩ } (p + sv.length) rest := by
  cases sv with
  | nil => exact absurd rfl hne
  | cons r0 rs =>
    simp only [List.all_cons, Bool.and_eq_true] at hall
    have := walk_server_plain r0 rs rest l p hl hold hall.1 hall.2 (by simp only [List.length_cons] at hp; omega)
    simpa using this

theorem walk_server_cred' (x sv rest : Bytes) (l : Loop) (p : Nat) (hl : l.s = .serverStart) (hold : l.oldUf = some .schema)
    (hxne : x ≠ []) (hx : x.all isSrv = true) (hne : sv ≠ []) (hall : sv.all isSrv = true)
    (hp : p + (x.length + 1 + sv.length) < 65536) :
    urlLoop l p (x ++ 64 :: (sv ++ rest)) =
      urlLoop { s := .server, oldUf := some .host, foundAt := true, u := l.u.put .host ⟨p, x.length + 1 + sv.length⟩ }
        (p + (x.length + 1 + sv.length)) rest := by
  cases x with
  | nil => exact absurd rfl hxne
  | cons x0 xs =>
    cases sv with
    | nil => exact absurd rfl hne
    | cons r0 rs =>
      simp only [List.all_cons, Bool.and_eq_true] at hall hx
      have := walk_server_cred x0 xs r0 rs rest l p hl hold hx.1 hx.2 hall.1 hall.2
        (by simp only [List.length_cons] at hp; omega)
      simpa using this

/-! ## assembling the walk over `render p` -/

def portSeg (p : UParts) : Bytes := match p.port with | some n => 58 :: decimal n | none => []
def credText (c : Bytes × Bytes) : Bytes := c.1 ++ 58 :: c.2
def svPlain (p : UParts) : Bytes := p.host.render ++ portSeg p
def server (p : UParts) : Bytes := (match p.cred with | some c => credText c ++ [64] | none => []) ++ svPlain p

theorem render_eq (p : UParts) :
    render p = p.scheme ++ 58 :: 47 :: 47 :: (server p ++ tailBytes p.path p.query p.fragment) := by
  unfold render server svPlain portSeg tailBytes seg credText
  cases p.cred <;> cases p.port <;> cases p.query <;> cases p.fragment <;> simp [List.append_assoc]

/-- the seven conjuncts of `wf` -/
theorem wf_parts (p : UParts) (h : wf p = true) :
    (match p.scheme with | c :: cs => isAlpha c && cs.all isSchemeChar | [] => false) = true ∧
    (match p.cred with
      | some (u, k) => u.all (fun c => isUserinfoChar c && c.toNat != 58) && k.all isUserinfoChar
      | none => true) = true ∧
    (match p.host with
      | .name h => !h.isEmpty && h.all isHostChar
      | .v6 h => !h.isEmpty && h.all (fun c => isHex c || c.toNat = 58 || c.toNat = 46) && h.contains 58) = true ∧
    (match p.port with | some n => decide (1 ≤ n ∧ n ≤ 65535) | none => true) = true ∧
    (match p.path with | [] => true | c :: cs => c.toNat = 47 && cs.all isUrlChar) = true ∧
    (match p.query with | some q => !q.isEmpty && q.all (fun c => isUrlChar c || c.toNat = 63) | none => true) = true ∧
    (match p.fragment with | some f => !f.isEmpty && f.all (fun c => isUrlChar c || c.toNat = 63) | none => true) = true := by
  unfold wf at h
  simp only [Bool.and_eq_true] at h
  exact ⟨h.1.1.1.1.1.1, h.1.1.1.1.1.2, h.1.1.1.1.2, h.1.1.1.2, h.1.1.2, h.1.2, h.2⟩

theorem isSrv_of_userinfo {c : UInt8} (h : isUserinfoCharN c.toNat = true) : isSrv c = true := by
  simp [isSrv, h]

theorem svPlain_ne_nil (p : UParts) (h : wf p = true) : svPlain p ≠ [] := by
  have hh := (wf_parts p h).2.2.1
  unfold svPlain HostForm.render
  cases hp : p.host with
  | name x =>
    rw [hp] at hh
    cases x with
    | nil => simp at hh
    | cons a as => simp
  | v6 x => simp

theorem portSeg_srv (p : UParts) : (portSeg p).all isSrv = true := by
  unfold portSeg
  cases p.port with
  | none => rfl
  | some n =>
    simp only [List.all_cons, Bool.and_eq_true, List.all_eq_true]
    refine ⟨by decide, fun c hc => ?_⟩
    exact isSrv_of_userinfo (num_is_userinfo _ (toNat_lt256 c) (decimal_digits n c hc))

theorem svPlain_srv (p : UParts) (h : wf p = true) : (svPlain p).all isSrv = true := by
  have hh := (wf_parts p h).2.2.1
  unfold svPlain
  rw [List.all_append, portSeg_srv, Bool.and_true]
  unfold HostForm.render
  cases hp : p.host with
  | name x =>
    rw [hp] at hh
    simp only [Bool.and_eq_true, List.all_eq_true] at hh ⊢
    intro c hc
    exact isSrv_of_userinfo (host_is_userinfo _ (toNat_lt256 c) (by simpa [isHostChar] using hh.2 c hc))
  | v6 x =>
    rw [hp] at hh
    simp only [Bool.and_eq_true, List.all_eq_true] at hh
    simp only [List.cons_append, List.nil_append, List.all_cons, List.all_append, List.all_nil, Bool.and_true, Bool.and_eq_true,
      List.all_eq_true]
    refine ⟨by decide, fun c hc => ?_, by decide⟩
    have := hh.1.2 c hc
    exact isSrv_of_userinfo (v6_is_userinfo _ (toNat_lt256 c) (by simpa [isHex] using this))

theorem credText_srv (c : Bytes × Bytes)
    (h : (c.1.all (fun x => isUserinfoChar x && x.toNat != 58) && c.2.all isUserinfoChar) = true) :
    (credText c).all isSrv = true ∧ credText c ≠ [] := by
  simp only [Bool.and_eq_true, List.all_eq_true] at h
  unfold credText
  refine ⟨?_, by simp⟩
  simp only [List.all_append, List.all_cons, Bool.and_eq_true, List.all_eq_true]
  refine ⟨fun x hx => ?_, by decide, fun x hx => ?_⟩
  · exact isSrv_of_userinfo (by simpa [isUserinfoChar] using (h.1 x hx).1)
  · exact isSrv_of_userinfo (by simpa [isUserinfoChar] using h.2 x hx)

def U2 (p : UParts) : Url :=
  (({} : Url).put .schema ⟨0, p.scheme.length⟩).put .host ⟨p.scheme.length + 3, (server p).length⟩

def U3 (p : UParts) : Url :=
  tailUrl (U2 p) (p.scheme.length + 3 + (server p).length) p.path p.query p.fragment

theorem pathOK_of_wf (p : UParts) (h : wf p = true) : pathOK p.path = true := by
  have hh := (wf_parts p h).2.2.2.2.1
  unfold pathOK
  cases hp : p.path with
  | nil => rfl
  | cons c cs => rw [hp] at hh; simpa using hh

theorem optOK_of (q : Option Bytes)
    (hh : (match q with | some q => !q.isEmpty && q.all (fun c => isUrlChar c || c.toNat = 63) | none => true) = true) :
    optOK q = true := by
  unfold optOK
  cases q with
  | none => rfl
  | some x =>
    simp only [Bool.and_eq_true, List.all_eq_true] at hh ⊢
    refine ⟨hh.1, fun c hc => ?_⟩
    have := hh.2 c hc
    simpa [isQueryChar, isUrlChar] using this

/-- the character loop of `http_parser_parse_url` on a well-formed URI -/
theorem urlLoop_render (p : UParts) (h : wf p = true)
    (hshape : ¬ (p.path = [] ∧ p.query = none ∧ p.fragment ≠ none)) (hlen : (render p).length < 65536) :
    ∃ s o, urlLoop {} 0 (render p) = some { s := s, oldUf := o, foundAt := p.cred.isSome, u := U3 p } := by
  have hw := wf_parts p h
  rw [render_eq] at hlen ⊢
  cases hsch : p.scheme with
  | nil => rw [hsch] at hw; simp at hw
  | cons c0 cs =>
    have h1 := hw.1
    rw [hsch] at h1 hlen
    simp only [Bool.and_eq_true] at h1
    simp only [List.cons_append, List.length_cons, List.length_append] at hlen
    rw [List.cons_append, walk_scheme c0 cs _ h1.1 h1.2 (by omega)]
    have hp3 : (c0 :: cs).length + 3 = cs.length + 1 + 3 := by simp
    cases hc : p.cred with
    | none =>
      have hsv : server p = svPlain p := by unfold server; rw [hc]; simp
      rw [hsv] at hlen ⊢
      rw [walk_server_plain' (svPlain p) _ _ _ rfl rfl (svPlain_ne_nil p h) (svPlain_srv p h) (by omega)]
      have := walk_tail ⟨.server, some .host, false, (({} : Url).put .schema ⟨0, cs.length + 1⟩).put .host ⟨cs.length + 1 + 3, (svPlain p).length⟩⟩
        (cs.length + 1 + 3 + (svPlain p).length) p.path p.query p.fragment rfl rfl
        (pathOK_of_wf p h) (optOK_of _ hw.2.2.2.2.2.1) (optOK_of _ hw.2.2.2.2.2.2) hshape (by omega)
      obtain ⟨s, o, hr⟩ := this
      refine ⟨s, o, ?_⟩
      rw [hr]
      simp only [U3, U2, hsch, hsv, List.length_cons, Option.isSome_none]
    | some c =>
      have h2 := hw.2.1
      rw [hc] at h2
      have hct := credText_srv c (by simpa using h2)
      have hsv : server p = credText c ++ 64 :: svPlain p := by unfold server; rw [hc]; simp
      rw [hsv] at hlen ⊢
      simp only [List.length_append, List.length_cons] at hlen
      rw [List.append_assoc, List.cons_append,
        walk_server_cred' (credText c) (svPlain p) _ _ _ rfl rfl hct.2 hct.1 (svPlain_ne_nil p h) (svPlain_srv p h) (by omega)]
      have := walk_tail ⟨.server, some .host, true, (({} : Url).put .schema ⟨0, cs.length + 1⟩).put .host ⟨cs.length + 1 + 3, (credText c).length + 1 + (svPlain p).length⟩⟩
        (cs.length + 1 + 3 + ((credText c).length + 1 + (svPlain p).length)) p.path p.query p.fragment rfl rfl
        (pathOK_of_wf p h) (optOK_of _ hw.2.2.2.2.2.1) (optOK_of _ hw.2.2.2.2.2.2) hshape (by omega)
      obtain ⟨s, o, hr⟩ := this
      refine ⟨s, o, ?_⟩
      rw [hr]
      have hl : (server p).length = (credText c).length + 1 + (svPlain p).length := by
        rw [hsv]; simp only [List.length_append, List.length_cons]; omega
      simp only [U3, U2, hsch, hl, List.length_cons, Option.isSome_some]

/-! ## `http_parse_host` on the server section of `render p` -/

def credPart (p : UParts) : Bytes := match p.cred with | some c => credText c ++ [64] | none => []
def hostOpen (p : UParts) : Nat := match p.host with | .name _ => 0 | .v6 _ => 1

theorem server_eq (p : UParts) : server p = credPart p ++ (p.host.render ++ portSeg p) := rfl

theorem hostLoop_cred (p : UParts) (h : wf p = true) (u : Url) (off : Nat) (rest : Bytes)
    (hp : off + (credPart p).length < 65536) :
    hostLoop u (if p.cred.isSome then .userinfoStart else .hostStart) off (credPart p ++ rest) =
      hostLoop (match p.cred with | some c => u.put .userinfo ⟨off, (credText c).length⟩ | none => u) .hostStart
        (off + (credPart p).length) rest := by
  have h2 := (wf_parts p h).2.1
  unfold credPart at hp ⊢
  cases hc : p.cred with
  | none => simp
  | some c =>
    rw [hc] at h2 hp
    simp only [Bool.and_eq_true, List.all_eq_true] at h2
    simp only [Option.isSome_some, if_true]
    -- credText c = x0 :: xs, all user-info characters
    have hall : ∀ x ∈ credText c, isUserinfoCharN x.toNat = true := by
      intro x hx
      unfold credText at hx
      simp only [List.mem_append, List.mem_cons] at hx
      rcases hx with hx | rfl | hx
      · simpa [isUserinfoChar] using (h2.1 x hx).1
      · decide
      · simpa [isUserinfoChar] using h2.2 x hx
    cases hct : credText c with
    | nil => unfold credText at hct; simp at hct
    | cons x0 xs =>
      rw [hct] at hall
      simp only [hct, List.length_append, List.length_cons, List.length_nil] at hp
      have := hostLoop_userinfo x0 xs rest u off (hall x0 (by simp)) (fun x hx => hall x (by simp [hx])) (by omega)
      simp only [List.cons_append, List.append_assoc, List.nil_append, List.length_append, List.length_cons, List.length_nil]
      rw [this]
      congr 1

theorem hostLoop_hostpart (p : UParts) (h : wf p = true) (u : Url) (pos : Nat) (rest : Bytes)
    (hp : pos + p.host.render.length < 65536) (hl : u.host.len = 0) :
    hostLoop u .hostStart pos (p.host.render ++ rest) =
      hostLoop { u with host := ⟨pos + hostOpen p, p.host.text.length⟩ } (match p.host with | .name _ => .host | .v6 _ => .v6End)
        (pos + p.host.render.length) rest := by
  have h3 := (wf_parts p h).2.2.1
  unfold hostOpen HostForm.render HostForm.text at *
  cases hh : p.host with
  | name x =>
    rw [hh] at h3 hp
    simp only [Bool.and_eq_true, List.all_eq_true] at h3
    cases x with
    | nil => simp at h3
    | cons h0 hs =>
      simp only [List.length_cons] at hp
      have := hostLoop_name h0 hs rest u pos (by simpa [isHostChar] using h3.2 h0 (by simp))
        (fun c hc => by simpa [isHostChar] using h3.2 c (by simp [hc])) (by omega) hl
      simpa using this
  | v6 x =>
    rw [hh] at h3 hp
    simp only [Bool.and_eq_true, List.all_eq_true] at h3
    cases x with
    | nil => simp at h3
    | cons v0 vs =>
      simp only [List.length_cons, List.length_append, List.length_nil, List.cons_append, List.nil_append] at hp
      have hv : ∀ c ∈ v0 :: vs, (isHexN c.toNat || c.toNat == 58 || c.toNat == 46) = true := by
        intro c hc; simpa [isHex] using h3.1.2 c hc
      have := hostLoop_v6 v0 vs rest u pos (hv v0 (by simp)) (fun c hc => hv c (by simp [hc])) (by omega) hl
      simp only [List.cons_append, List.nil_append, List.append_assoc, List.length_cons, List.length_append, List.length_nil]
      rw [this]
      congr 1
      omega

theorem hostLoop_portpart (p : UParts) (u : Url) (s : HS) (pos : Nat) (hs : s = .host ∨ s = .v6End)
    (hp : pos + (portSeg p).length < 65536) :
    hostLoop u s pos (portSeg p) =
      (match p.port with | some n => u.put .port ⟨pos + 1, (decimal n).length⟩ | none => u) := by
  unfold portSeg at hp ⊢
  cases hpo : p.port with
  | none => simp [hostLoop]
  | some n =>
    rw [hpo] at hp
    simp only [List.length_cons] at hp
    cases hd : decimal n with
    | nil => exact absurd hd (decimal_ne_nil n)
    | cons d0 ds =>
      have hall := decimal_digits n
      rw [hd] at hall hp
      simp only [List.length_cons] at hp
      have := hostLoop_port d0 ds u s pos hs (hall d0 (by simp)) (fun c hc => hall c (by simp [hc])) (by omega)
      simp only [hd]
      rw [this]
      simp

/-! ## `http_parser_parse_url` on `render p` -/

def off0 (p : UParts) : Nat := p.scheme.length + 3
def posA (p : UParts) : Nat := off0 p + (credPart p).length
def posB (p : UParts) : Nat := posA p + p.host.render.length

def credPut (p : UParts) (u : Url) : Url :=
  match p.cred with | some c => u.put .userinfo ⟨off0 p, (credText c).length⟩ | none => u
def hostPut (p : UParts) (u : Url) : Url := { u with host := ⟨posA p + hostOpen p, p.host.text.length⟩ }
def portPut (p : UParts) (u : Url) : Url :=
  match p.port with | some n => u.put .port ⟨posB p + 1, (decimal n).length⟩ | none => u

def hostReset (u : Url) : Url := { u with host := ⟨u.host.off, 0⟩ }
def setPort (u : Url) (n : Nat) : Url := { u with port := n }

/-- the parser's result for `render p` -/
def UH (p : UParts) : Url :=
  let v := portPut p (hostPut p (credPut p (hostReset (U3 p))))
  match p.port with | some n => setPort v n | none => v

/-- the part of `http_parser_parse_url` after the character loop, when scheme and host are present -/
theorem parseUrl_of_loop (b : Bytes) (l : Loop) (hl : urlLoop {} 0 b = some l) (hs : l.u.hasSchema = true)
    (hh : l.u.hasHost = true) :
    parseUrl b =
      (let u := hostLoop (hostReset l.u) (if l.foundAt then .userinfoStart else .hostStart) l.u.host.off
        ((b.drop l.u.host.off).take l.u.host.len)
      if u.hasPort then
        (if digitsVal 0 (b.drop u.portF.off) > 0xffff then none else some (setPort u (digitsVal 0 (b.drop u.portF.off))))
      else some u) := by
  have hcond : (l.u.hasSchema && !(l.u.hasPath && !l.u.hasHost && !l.u.hasQuery && !l.u.hasFragment) && !l.u.hasHost) = false := by
    rw [hh]; simp
  have h2 : (l.u.hasSchema && l.u.hasHost) = true := by rw [hs, hh]; rfl
  unfold parseUrl
  rw [hl]
  simp only [hcond, h2, Bool.false_eq_true, if_false, if_true]
  rfl

theorem hostLoop_server (p : UParts) (h : wf p = true) (u : Url) (hl : u.host.len = 0)
    (hlen : off0 p + (server p).length < 65536) :
    hostLoop u (if p.cred.isSome then .userinfoStart else .hostStart) (off0 p) (server p) =
      portPut p (hostPut p (credPut p u)) := by
  have hsl : (server p).length = (credPart p).length + (p.host.render.length + (portSeg p).length) := by
    rw [server_eq]; simp
  rw [server_eq, hostLoop_cred p h _ (off0 p) _ (by omega)]
  rw [hostLoop_hostpart p h _ (off0 p + (credPart p).length) _ (by omega) (by cases p.cred <;> simpa [Url.put] using hl)]
  have hsB : (match p.host with | .name _ => HS.host | .v6 _ => HS.v6End) = .host ∨
      (match p.host with | .name _ => HS.host | .v6 _ => HS.v6End) = .v6End := by cases p.host <;> simp
  rw [hostLoop_portpart p _ _ _ hsB (by omega)]
  rfl

theorem portPut_frame (p : UParts) (u : Url) :
    (portPut p u).hasPort = (p.port.isSome || u.hasPort) ∧ (portPut p u).port = u.port ∧
    (∀ n, p.port = some n → (portPut p u).portF = ⟨posB p + 1, (decimal n).length⟩) := by
  unfold portPut
  cases p.port <;> simp [Url.put]

theorem hostcred_frame (p : UParts) (u : Url) :
    (hostPut p (credPut p u)).hasPort = u.hasPort ∧ (hostPut p (credPut p u)).port = u.port := by
  unfold hostPut credPut
  cases p.cred <;> simp [Url.put]

theorem U3_frame (p : UParts) :
    (U3 p).hasSchema = true ∧ (U3 p).hasHost = true ∧ (U3 p).hasPort = false ∧ (U3 p).hasUserinfo = false ∧
    (U3 p).host = ⟨off0 p, (server p).length⟩ ∧ (U3 p).schema = ⟨0, p.scheme.length⟩ ∧ (U3 p).port = 0 := by
  unfold U3 U2 tailUrl putOpt off0
  cases p.path <;> cases p.query <;> cases p.fragment <;> simp [Url.put]

theorem drop_take_mid (pre comp post : Bytes) : ((pre ++ (comp ++ post)).drop pre.length).take comp.length = comp := by
  simp

theorem render_split (p : UParts) :
    render p = (p.scheme ++ [58, 47, 47]) ++ (server p ++ tailBytes p.path p.query p.fragment) := by
  rw [render_eq]; simp

theorem tail_nondigit (p : UParts) (h : wf p = true) (hshape : ¬ (p.path = [] ∧ p.query = none ∧ p.fragment ≠ none)) :
    tailBytes p.path p.query p.fragment = [] ∨ ∃ c cs, tailBytes p.path p.query p.fragment = c :: cs ∧ isNum c = false := by
  have hw := wf_parts p h
  unfold tailBytes seg
  cases hpa : p.path with
  | cons c cs =>
    have h5 := hw.2.2.2.2.1
    rw [hpa] at h5
    simp only [Bool.and_eq_true, decide_eq_true_eq] at h5
    exact Or.inr ⟨c, _, rfl, by simp [isNum, isNumN, h5.1]⟩
  | nil =>
    cases hq : p.query with
    | some q => exact Or.inr ⟨63, _, rfl, by decide⟩
    | none =>
      cases hf : p.fragment with
      | none => exact Or.inl rfl
      | some f => exact absurd ⟨hpa, hq, by simp [hf]⟩ hshape

theorem parseUrl_render (p : UParts) (h : wf p = true)
    (hshape : ¬ (p.path = [] ∧ p.query = none ∧ p.fragment ≠ none)) (hlen : (render p).length < 65536) :
    parseUrl (render p) = some (UH p) := by
  obtain ⟨s, o, hl⟩ := urlLoop_render p h hshape hlen
  have hfr := U3_frame p
  rw [parseUrl_of_loop _ _ hl hfr.1 hfr.2.1]
  simp only
  -- the server section is what the host field spans
  have hsrv : ((render p).drop (U3 p).host.off).take (U3 p).host.len = server p := by
    rw [hfr.2.2.2.2.1, render_split]
    have : off0 p = (p.scheme ++ [58, 47, 47]).length := by simp [off0]
    simp only [this]
    exact drop_take_mid _ _ _
  have hoff : (U3 p).host.off = off0 p := by rw [hfr.2.2.2.2.1]
  rw [hsrv, hoff]
  have hlen2 : off0 p + (server p).length + (tailBytes p.path p.query p.fragment).length < 65536 := by
    rw [render_split] at hlen
    simp only [List.length_append, List.length_cons, List.length_nil, off0] at hlen ⊢
    omega
  rw [hostLoop_server p h (hostReset (U3 p)) rfl (by omega)]
  have hpf := portPut_frame p (hostPut p (credPut p (hostReset (U3 p))))
  have hcf := hostcred_frame p (hostReset (U3 p))
  have hr0 : (hostReset (U3 p)).hasPort = false := hfr.2.2.1
  unfold UH
  generalize portPut p (hostPut p (credPut p (hostReset (U3 p)))) = v at hpf ⊢
  cases hpo : p.port with
  | none =>
    have : v.hasPort = false := by rw [hpf.1, hcf.1, hpo, hr0]; rfl
    simp only [this, Bool.false_eq_true, if_false]
  | some n =>
    have hhp : v.hasPort = true := by rw [hpf.1, hpo]; rfl
    have hoff := hpf.2.2 n hpo
    have h4 := (wf_parts p h).2.2.2.1
    rw [hpo] at h4
    simp only [decide_eq_true_eq] at h4
    have hdrop : (render p).drop (posB p + 1) = decimal n ++ tailBytes p.path p.query p.fragment := by
      rw [render_split, server_eq]
      have hps : portSeg p = 58 :: decimal n := by unfold portSeg; rw [hpo]
      rw [hps]
      have e1 : posB p + 1 = ((p.scheme ++ [58, 47, 47]) ++ (credPart p ++ (p.host.render ++ [58]))).length := by
        simp [posB, posA, off0]; omega
      have e2 : (p.scheme ++ [58, 47, 47]) ++ ((credPart p ++ (p.host.render ++ 58 :: decimal n)) ++ tailBytes p.path p.query p.fragment) =
          ((p.scheme ++ [58, 47, 47]) ++ (credPart p ++ (p.host.render ++ [58]))) ++ (decimal n ++ tailBytes p.path p.query p.fragment) := by
        simp
      rw [e1, e2, List.drop_left]
    simp only [hhp, if_true, hoff, hdrop, digitsVal_port n _ (tail_nondigit p h hshape)]
    rw [if_neg (by omega)]

/-! ## `uriSplit` on `render p` -/

def pathOff (p : UParts) : Nat := off0 p + (server p).length

theorem U3_fields (p : UParts) :
    (U3 p).hasPath = !p.path.isEmpty ∧ (U3 p).path = (if p.path.isEmpty then {} else ⟨pathOff p, p.path.length⟩) ∧
    (U3 p).hasQuery = p.query.isSome ∧ (∀ q, p.query = some q → (U3 p).query = ⟨pathOff p + p.path.length + 1, q.length⟩) ∧
    (U3 p).hasFragment = p.fragment.isSome ∧
    (∀ f, p.fragment = some f → (U3 p).fragment = ⟨pathOff p + p.path.length + segLen p.query + 1, f.length⟩) := by
  unfold U3 U2 tailUrl putOpt pathOff off0
  cases p.path <;> cases p.query <;> cases p.fragment <;> simp [Url.put]

/-- what the host pass and the port conversion leave alone, and what they set -/
theorem UH_wrap (p : UParts) :
    (UH p).hasSchema = (U3 p).hasSchema ∧ (UH p).schema = (U3 p).schema ∧ (UH p).hasHost = (U3 p).hasHost ∧
    (UH p).hasPath = (U3 p).hasPath ∧ (UH p).path = (U3 p).path ∧ (UH p).hasQuery = (U3 p).hasQuery ∧
    (UH p).query = (U3 p).query ∧ (UH p).hasFragment = (U3 p).hasFragment ∧ (UH p).fragment = (U3 p).fragment ∧
    (UH p).host = ⟨posA p + hostOpen p, p.host.text.length⟩ ∧
    (UH p).hasUserinfo = (p.cred.isSome || (U3 p).hasUserinfo) ∧
    (∀ c, p.cred = some c → (UH p).userinfo = ⟨off0 p, (credText c).length⟩) ∧
    (UH p).port = (match p.port with | some n => n | none => (U3 p).port) := by
  unfold UH setPort portPut hostPut credPut hostReset
  generalize U3 p = u
  cases p.cred <;> cases p.port <;> simp [Url.put]

theorem UH_fields (p : UParts) :
    (UH p).hasSchema = true ∧ (UH p).schema = ⟨0, p.scheme.length⟩ ∧
    (UH p).hasHost = true ∧ (UH p).host = ⟨posA p + hostOpen p, p.host.text.length⟩ ∧
    (UH p).hasUserinfo = p.cred.isSome ∧ (∀ c, p.cred = some c → (UH p).userinfo = ⟨off0 p, (credText c).length⟩) ∧
    (UH p).port = p.port.getD 0 ∧
    (UH p).hasPath = !p.path.isEmpty ∧ (UH p).path = (if p.path.isEmpty then {} else ⟨pathOff p, p.path.length⟩) ∧
    (UH p).hasQuery = p.query.isSome ∧ (∀ q, p.query = some q → (UH p).query = ⟨pathOff p + p.path.length + 1, q.length⟩) ∧
    (UH p).hasFragment = p.fragment.isSome ∧
    (∀ f, p.fragment = some f → (UH p).fragment = ⟨pathOff p + p.path.length + segLen p.query + 1, f.length⟩) := by
  have w := UH_wrap p
  have f3 := U3_fields p
  have fr := U3_frame p
  refine ⟨by rw [w.1, fr.1], by rw [w.2.1, fr.2.2.2.2.2.1], by rw [w.2.2.1, fr.2.1], w.2.2.2.2.2.2.2.2.2.1, ?_,
    w.2.2.2.2.2.2.2.2.2.2.2.1, ?_, by rw [w.2.2.2.1, f3.1], by rw [w.2.2.2.2.1, f3.2.1], by rw [w.2.2.2.2.2.1, f3.2.2.1], ?_,
    by rw [w.2.2.2.2.2.2.2.1, f3.2.2.2.2.1], ?_⟩
  · rw [w.2.2.2.2.2.2.2.2.2.2.1, fr.2.2.2.1]; simp
  · rw [w.2.2.2.2.2.2.2.2.2.2.2.2, fr.2.2.2.2.2.2]; cases p.port <;> rfl
  · intro q hq; rw [w.2.2.2.2.2.2.1]; exact f3.2.2.2.1 q hq
  · intro f hf; rw [w.2.2.2.2.2.2.2.2.1]; exact f3.2.2.2.2.2 f hf

def openB (p : UParts) : Bytes := match p.host with | .name _ => [] | .v6 _ => [91]
def closeB (p : UParts) : Bytes := match p.host with | .name _ => [] | .v6 _ => [93]

theorem host_render_eq (p : UParts) : p.host.render = openB p ++ (p.host.text ++ closeB p) := by
  unfold openB closeB HostForm.render HostForm.text
  cases p.host <;> simp

theorem openB_length (p : UParts) : (openB p).length = hostOpen p := by
  unfold openB hostOpen; cases p.host <;> rfl

theorem sub_after (pre comp post : Bytes) (off len : Nat) (ho : off = pre.length) (hl : len = comp.length) :
    sub (pre ++ (comp ++ post)) ⟨off, len⟩ = comp := by
  subst ho hl
  unfold sub
  exact drop_take_mid pre comp post

theorem sub_scheme (p : UParts) : sub (render p) ⟨0, p.scheme.length⟩ = p.scheme := by
  rw [render_eq]
  exact sub_after [] p.scheme _ 0 _ rfl rfl

theorem sub_userinfo (p : UParts) (c : Bytes × Bytes) (hc : p.cred = some c) :
    sub (render p) ⟨off0 p, (credText c).length⟩ = credText c := by
  have : render p = (p.scheme ++ [58, 47, 47]) ++ (credText c ++ (64 :: (svPlain p ++ tailBytes p.path p.query p.fragment))) := by
    rw [render_split]; unfold server; rw [hc]; simp
  rw [this]
  exact sub_after _ _ _ _ _ (by simp [off0]) rfl

theorem sub_host (p : UParts) : sub (render p) ⟨posA p + hostOpen p, p.host.text.length⟩ = p.host.text := by
  have : render p = ((p.scheme ++ [58, 47, 47]) ++ (credPart p ++ openB p)) ++
      (p.host.text ++ (closeB p ++ (portSeg p ++ tailBytes p.path p.query p.fragment))) := by
    rw [render_split, server_eq, host_render_eq]; simp
  rw [this]
  exact sub_after _ _ _ _ _ (by simp [posA, off0, openB_length]; omega) rfl

theorem sub_path (p : UParts) : sub (render p) ⟨pathOff p, p.path.length⟩ = p.path := by
  have : render p = ((p.scheme ++ [58, 47, 47]) ++ server p) ++ (p.path ++ (seg 63 p.query ++ seg 35 p.fragment)) := by
    rw [render_split]; unfold tailBytes; simp
  rw [this]
  exact sub_after _ _ _ _ _ (by simp [pathOff, off0]; omega) rfl

theorem sub_query (p : UParts) (q : Bytes) (hq : p.query = some q) :
    sub (render p) ⟨pathOff p + p.path.length + 1, q.length⟩ = q := by
  have : render p = (((p.scheme ++ [58, 47, 47]) ++ server p) ++ (p.path ++ [63])) ++ (q ++ seg 35 p.fragment) := by
    rw [render_split]; unfold tailBytes; rw [hq]; simp [seg]
  rw [this]
  exact sub_after _ _ _ _ _ (by simp [pathOff, off0]; omega) rfl

theorem sub_fragment (p : UParts) (f : Bytes) (hf : p.fragment = some f) :
    sub (render p) ⟨pathOff p + p.path.length + segLen p.query + 1, f.length⟩ = f := by
  have : render p = (((p.scheme ++ [58, 47, 47]) ++ server p) ++ (p.path ++ (seg 63 p.query ++ [35]))) ++ (f ++ []) := by
    rw [render_split]; unfold tailBytes; rw [hf]; simp [seg]
  rw [this]
  exact sub_after _ _ _ _ _ (by simp [pathOff, off0, seg_length]; omega) rfl

def partsOf (p : UParts) : Parts :=
  { scheme := some p.scheme, user := p.cred.map (·.1), pass := p.cred.map (·.2), host := some p.host.text,
    port := p.port.getD 0, path := if p.path.isEmpty then none else some p.path, query := p.query, fragment := p.fragment }

theorem split_at_colon : ∀ (u k : Bytes), (∀ x ∈ u, (x != 58) = true) →
    (u ++ 58 :: k).takeWhile (· != 58) = u ∧ ((u ++ 58 :: k).dropWhile (· != 58)).drop 1 = k ∧ (u ++ 58 :: k).contains 58 = true := by
  intro u
  induction u with
  | nil => intro k _; simp [List.takeWhile, List.dropWhile]
  | cons a as ih =>
    intro k h
    have ha : (a != 58) = true := h a (by simp)
    have := ih k (fun x hx => h x (by simp [hx]))
    simp only [List.cons_append, List.takeWhile_cons, ha, if_true, List.dropWhile_cons, List.contains_cons]
    exact ⟨by rw [this.1], this.2.1, by rw [this.2.2]; simp⟩

/-- **`uriSplit` inverts `render`** on every well-formed URI (shorter than 64 KiB, the fragment not
directly after the authority) -/
theorem uriSplit_render (p : UParts) (h : wf p = true)
    (hshape : ¬ (p.path = [] ∧ p.query = none ∧ p.fragment ≠ none)) (hlen : (render p).length < 65536) :
    uriSplit (render p) = .ok (partsOf p) := by
  have f := UH_fields p
  unfold uriSplit
  rw [parseUrl_render p h hshape hlen]
  simp only [f.1, f.2.1, f.2.2.1, f.2.2.2.1, f.2.2.2.2.1, f.2.2.2.2.2.2.1, f.2.2.2.2.2.2.2.1, f.2.2.2.2.2.2.2.2.1,
    f.2.2.2.2.2.2.2.2.2.1, f.2.2.2.2.2.2.2.2.2.2.2.1, Bool.and_true, if_true, sub_scheme, sub_host]
  -- the user-info
  have hui : (if p.cred.isSome = true then
        (if (sub (render p) (UH p).userinfo).contains 58 = true then
          Except.ok (some ((sub (render p) (UH p).userinfo).takeWhile (· != 58)),
            some (((sub (render p) (UH p).userinfo).dropWhile (· != 58)).drop 1))
        else Except.error St.INVALID_FORMAT)
      else Except.ok (none, none)) = (Except.ok (p.cred.map (·.1), p.cred.map (·.2)) : Except Nat (Option Bytes × Option Bytes)) := by
    cases hc : p.cred with
    | none => rfl
    | some c =>
      have h2 := (wf_parts p h).2.1
      rw [hc] at h2
      simp only [Bool.and_eq_true, List.all_eq_true] at h2
      rw [f.2.2.2.2.2.1 c hc, sub_userinfo p c hc]
      have := split_at_colon c.1 c.2 (fun x hx => by
        have hx2 := (h2.1 x hx).2
        simp only [bne_iff_ne, ne_eq] at hx2 ⊢
        intro he; rw [he] at hx2; exact hx2 rfl)
      unfold credText
      simp only [Option.isSome_some, if_true, this.2.2, this.1, this.2.1, Option.map_some]
  rw [hui]
  simp only
  -- the remaining components
  unfold partsOf
  congr 1
  have hpath : (if (!p.path.isEmpty) = true then some (sub (render p) (if p.path.isEmpty = true then {} else ⟨pathOff p, p.path.length⟩)) else none)
      = (if p.path.isEmpty then none else some p.path) := by
    cases hp : p.path.isEmpty with
    | true => rfl
    | false => simp only [Bool.not_false, if_true, Bool.false_eq_true, if_false]; rw [sub_path]
  have hquery : (if p.query.isSome = true then some (sub (render p) (UH p).query) else none) = p.query := by
    cases hq : p.query with
    | none => rfl
    | some q => rw [f.2.2.2.2.2.2.2.2.2.2.1 q hq, sub_query p q hq]; rfl
  have hfrag : (if p.fragment.isSome = true then some (sub (render p) (UH p).fragment) else none) = p.fragment := by
    cases hf : p.fragment with
    | none => rfl
    | some fr => rw [f.2.2.2.2.2.2.2.2.2.2.2.2 fr hf, sub_fragment p fr hf]; rfl
  rw [hpath, hquery, hfrag]

end KsiVerif.Uri
