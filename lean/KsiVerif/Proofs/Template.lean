import KsiVerif.Spec.Schema
/-!
# The template engine refines the declarative schema

`stOf b vals` is the engine's bookkeeping as a function of the known rows `b` seen so far; one
`step` from `stOf b vals` either fails or lands in `stOf (b ++ [k]) …` exactly when `okAt b k`.
-/
namespace KsiVerif.Template
open KsiVerif

/-- highest index among the fixed-order rows seen -/
def mo (b : List (Nat × Entry)) : Nat :=
  b.foldl (fun m k => if k.2.has FLG_FIXED_ORDER then max m k.1 else m) 0

def stOf (b : List (Nat × Entry)) (vals : List (Nat × Val)) : St :=
  { hit := (b.map (·.1)).reverse, set := (b.map (·.2.getter)).reverse,
    g0 := b.any (·.2.has FLG_LEAST_ONE_G0), g1 := b.any (·.2.has FLG_LEAST_ONE_G1),
    o0 := b.any (·.2.has FLG_MOST_ONE_G0), o1 := b.any (·.2.has FLG_MOST_ONE_G1),
    first := !b.isEmpty, last := b.any (·.2.has FLG_LAST), maxOrder := mo b, vals := vals }

theorem stOf_nil : stOf [] [] = {} := rfl

theorem foldl_mo_le (b : List (Nat × Entry)) (m i : Nat) :
    b.foldl (fun m k => if k.2.has FLG_FIXED_ORDER then max m k.1 else m) m ≤ i ↔
      m ≤ i ∧ b.all (fun x => !x.2.has FLG_FIXED_ORDER || decide (x.1 ≤ i)) = true := by
  induction b generalizing m with
  | nil => simp
  | cons k ks ih =>
    simp only [List.foldl_cons, List.all_cons, Bool.and_eq_true]
    rw [ih]
    by_cases hk : k.2.has FLG_FIXED_ORDER = true
    · simp only [hk, if_true, Bool.not_true, Bool.false_or, decide_eq_true_eq, Nat.max_le]
      constructor
      · intro ⟨⟨h1, h1'⟩, h2⟩; exact ⟨h1, h1', h2⟩
      · intro ⟨h1, h2, h3⟩; exact ⟨⟨h1, h2⟩, h3⟩
    · simp only [hk, Bool.not_false, Bool.true_or, true_and]
      simp

theorem mo_le (b : List (Nat × Entry)) (i : Nat) :
    mo b ≤ i ↔ b.all (fun x => !x.2.has FLG_FIXED_ORDER || decide (x.1 ≤ i)) = true := by
  unfold mo; rw [foldl_mo_le]; simp

theorem mo_append (b : List (Nat × Entry)) (k : Nat × Entry) :
    mo (b ++ [k]) = if k.2.has FLG_FIXED_ORDER then max (mo b) k.1 else mo b := by
  simp [mo, List.foldl_append]

theorem contains_getters (b : List (Nat × Entry)) (g : Nat) :
    (b.map (·.2.getter)).reverse.contains g = !(b.all fun x => x.2.getter != g) := by
  induction b with
  | nil => rfl
  | cons k ks ih =>
    simp only [List.map_cons, List.reverse_cons, List.all_cons]
    rw [Bool.not_and, ← ih]
    simp only [List.contains_eq_mem, List.mem_append, List.mem_reverse, List.mem_map, List.mem_singleton]
    by_cases h : k.2.getter = g
    · simp [h]
    · simp [h, Ne.symm h]


theorem lt_mo (b : List (Nat × Entry)) (i : Nat) :
    decide (i < mo b) = !(b.all fun x => !x.2.has FLG_FIXED_ORDER || decide (x.1 ≤ i)) := by
  cases h : (b.all fun x => !x.2.has FLG_FIXED_ORDER || decide (x.1 ≤ i))
  · have : ¬ mo b ≤ i := fun hle => by rw [mo_le] at hle; rw [h] at hle; cases hle
    simp; omega
  · have : mo b ≤ i := (mo_le b i).mpr h
    simp; omega

theorem any_not_all (b : List (Nat × Entry)) (p : Nat × Entry → Bool) :
    b.any p = !(b.all fun x => !p x) := by
  induction b with
  | nil => rfl
  | cons k ks ih => simp only [List.any_cons, List.all_cons, ih, Bool.not_and, Bool.not_not]

/-- the six checks of the loop body, as the engine evaluates them on `stOf b vals` -/
def refuses (b : List (Nat × Entry)) (k : Nat × Entry) : Bool :=
  (k.2.has FLG_FIXED_ORDER && decide (k.1 < mo b))
  || (k.2.has FLG_FIRST && !b.isEmpty)
  || b.any (·.2.has FLG_LAST)
  || (k.2.has FLG_MOST_ONE_G0 && b.any (·.2.has FLG_MOST_ONE_G0))
  || (k.2.has FLG_MOST_ONE_G1 && b.any (·.2.has FLG_MOST_ONE_G1))
  || (!k.2.multiple && (b.map (·.2.getter)).reverse.contains k.2.getter)

theorem okAt_eq (b : List (Nat × Entry)) (k : Nat × Entry) : okAt b k = !refuses b k := by
  unfold okAt refuses
  rw [lt_mo, contains_getters, any_not_all b (·.2.has FLG_LAST), any_not_all b (·.2.has FLG_MOST_ONE_G0),
    any_not_all b (·.2.has FLG_MOST_ONE_G1)]
  generalize k.2.has FLG_FIXED_ORDER = a1
  generalize (b.all fun x => !x.2.has FLG_FIXED_ORDER || decide (x.1 ≤ k.1)) = p1
  generalize k.2.has FLG_FIRST = a2
  generalize b.isEmpty = p2
  generalize (b.all fun x => !x.2.has FLG_LAST) = p3
  generalize k.2.has FLG_MOST_ONE_G0 = a4
  generalize (b.all fun x => !x.2.has FLG_MOST_ONE_G0) = p4
  generalize k.2.has FLG_MOST_ONE_G1 = a5
  generalize (b.all fun x => !x.2.has FLG_MOST_ONE_G1) = p5
  generalize k.2.multiple = a6
  generalize (b.all fun x => x.2.getter != k.2.getter) = p6
  cases a1 <;> cases p1 <;> cases a2 <;> cases p2 <;> cases p3 <;> cases a4 <;> cases p4 <;> cases a5 <;> cases p5 <;>
    cases a6 <;> cases p6 <;> rfl

theorem stOf_snoc (b : List (Nat × Entry)) (vals : List (Nat × Val)) (i : Nat) (t : Entry) (v : Val)
    (hok : okAt b (i, t) = true) :
    ({ hit := i :: (stOf b vals).hit, set := t.getter :: (stOf b vals).set,
       g0 := (stOf b vals).g0 || t.has FLG_LEAST_ONE_G0, g1 := (stOf b vals).g1 || t.has FLG_LEAST_ONE_G1,
       o0 := (stOf b vals).o0 || t.has FLG_MOST_ONE_G0, o1 := (stOf b vals).o1 || t.has FLG_MOST_ONE_G1,
       first := true, last := (stOf b vals).last || t.has FLG_LAST,
       maxOrder := if t.has FLG_FIXED_ORDER then i else (stOf b vals).maxOrder,
       vals := (stOf b vals).vals ++ [(i, v)] } : St) = stOf (b ++ [(i, t)]) (vals ++ [(i, v)]) := by
  have hmo : (if t.has FLG_FIXED_ORDER then i else mo b) = mo (b ++ [(i, t)]) := by
    rw [mo_append]
    by_cases hf : t.has FLG_FIXED_ORDER = true
    · simp only [hf, if_true]
      have h1 : okAt b (i, t) = true := hok
      unfold okAt at h1
      simp only [hf, Bool.not_true, Bool.false_or, Bool.and_eq_true] at h1
      have := (mo_le b i).mpr h1.1.1.1.1.1
      exact (Nat.max_eq_right this).symm
    · simp [hf]
  simp only [stOf, List.map_append, List.map_cons, List.map_nil, List.reverse_append, List.reverse_cons, List.reverse_nil,
    List.nil_append, List.singleton_append, List.any_append, List.any_cons, List.any_nil, Bool.or_false, hmo]
  simp

theorem step_unknown (tm : List Entry) (pv : Entry → Elem → Except Nat Val) (s : St) (e : Elem)
    (h : rowOf tm e = none) : step tm pv s e = if e.nc then .ok s else .error IF := by
  unfold step; unfold rowOf at h; rw [h]

theorem cascade {α : Type} (c1 c2 c3 c4 c5 c6 : Bool) (E X : α) :
    (if c1 = true then E else if c2 = true then E else if c3 = true then E else if c4 = true then E
      else if c5 = true then E else if c6 = true then E else X)
    = if (c1 || c2 || c3 || c4 || c5 || c6) = true then E else X := by
  cases c1 <;> cases c2 <;> cases c3 <;> cases c4 <;> cases c5 <;> cases c6 <;> rfl

theorem step_known (tm : List Entry) (pv : Entry → Elem → Except Nat Val) (b : List (Nat × Entry))
    (vals : List (Nat × Val)) (e : Elem) (i : Nat) (t : Entry) (h : rowOf tm e = some (i, t)) :
    step tm pv (stOf b vals) e =
      if okAt b (i, t) = true then
        (match pv t e with
          | .error c => .error c
          | .ok v => .ok (stOf (b ++ [(i, t)]) (vals ++ [(i, v)])))
      else .error IF := by
  unfold step; unfold rowOf at h; rw [h]
  simp only
  rw [cascade]
  have hr : ((t.has FLG_FIXED_ORDER && decide (i < (stOf b vals).maxOrder)) || (t.has FLG_FIRST && (stOf b vals).first)
      || (stOf b vals).last || (t.has FLG_MOST_ONE_G0 && (stOf b vals).o0) || (t.has FLG_MOST_ONE_G1 && (stOf b vals).o1)
      || (!t.multiple && (stOf b vals).set.contains t.getter)) = refuses b (i, t) := rfl
  rw [hr]
  by_cases hok : okAt b (i, t) = true
  · rw [if_pos hok]
    have hr' : refuses b (i, t) = false := by rw [okAt_eq] at hok; simpa using hok
    rw [hr']
    simp only [Bool.false_eq_true, if_false]
    cases hp : pv t e with
    | error c => rfl
    | ok v => simp only; rw [← stOf_snoc b vals i t v hok]
  · rw [if_neg hok]
    have hr' : refuses b (i, t) = true := by
      rw [okAt_eq] at hok
      cases hh : refuses b (i, t) with
      | true => rfl
      | false => rw [hh] at hok; exact absurd rfl hok
    rw [hr']
    simp

theorem known_cons_none (tm : List Entry) (e : Elem) (es : List Elem) (h : rowOf tm e = none) :
    known tm (e :: es) = known tm es := by
  simp [known, List.filterMap_cons, h]

theorem known_cons_some (tm : List Entry) (e : Elem) (es : List Elem) (k : Nat × Entry) (h : rowOf tm e = some k) :
    known tm (e :: es) = k :: known tm es := by
  simp [known, List.filterMap_cons, h]

/-- the element loop: it succeeds exactly on the sequences the schema allows, and its final state
is the bookkeeping of all known rows together with their values -/
theorem run_spec (tm : List Entry) (pv : Entry → Elem → Except Nat Val) :
    ∀ (es : List Elem) (b : List (Nat × Entry)) (vals : List (Nat × Val)) (s' : St),
      run tm pv (stOf b vals) es = .ok s' ↔
        unknownOK tm es = true ∧ seqOK b (known tm es) = true ∧
          ∃ vs, specValues tm pv es = some vs ∧ s' = stOf (b ++ known tm es) (vals ++ vs) := by
  intro es
  induction es with
  | nil =>
    intro b vals s'
    simp only [run, unknownOK, List.all_nil, known, List.filterMap_nil, seqOK, specValues, true_and]
    constructor
    · intro h; cases h; exact ⟨[], rfl, by simp⟩
    · rintro ⟨vs, h1, h2⟩; cases h1; simp at h2; rw [h2]
  | cons e es ih =>
    intro b vals s'
    cases hrow : rowOf tm e with
    | none =>
      simp only [run, step_unknown tm pv _ e hrow, known_cons_none tm e es hrow, unknownOK, List.all_cons, hrow,
        Option.isSome_none, Bool.false_or, Bool.and_eq_true, specValues]
      by_cases hnc : e.nc = true
      · simp only [hnc, if_true, true_and]
        have := ih b vals s'
        simp only [unknownOK] at this
        exact this
      · simp [hnc]
    | some k =>
      obtain ⟨i, t⟩ := k
      simp only [run, step_known tm pv b vals e i t hrow, known_cons_some tm e es (i, t) hrow, unknownOK, List.all_cons,
        hrow, Option.isSome_some, Bool.true_or, Bool.true_and, seqOK, Bool.and_eq_true, specValues]
      by_cases hok : okAt b (i, t) = true
      · simp only [hok, if_true, true_and]
        cases hp : pv t e with
        | error c =>
          simp only
          constructor
          · intro h; cases h
          · rintro ⟨_, _, vs, h1, _⟩; cases hsv : specValues tm pv es <;> simp [hsv] at h1
        | ok v =>
          simp only
          have := ih (b ++ [(i, t)]) (vals ++ [(i, v)]) s'
          simp only [unknownOK] at this
          rw [this]
          constructor
          · rintro ⟨h1, h2, vs, h3, h4⟩
            refine ⟨h1, h2, (i, v) :: vs, ?_, ?_⟩
            · simp [h3]
            · rw [h4]; simp
          · rintro ⟨h1, h2, vs, h3, h4⟩
            cases hsv : specValues tm pv es with
            | none => simp [hsv] at h3
            | some ws =>
              simp only [hsv, Option.some.injEq] at h3
              refine ⟨h1, h2, ws, rfl, ?_⟩
              rw [h4, ← h3]; simp
      · simp [hok]

theorem hit_contains (ks : List (Nat × Entry)) (i : Nat) :
    (ks.map (·.1)).reverse.contains i = ks.any (·.1 == i) := by
  induction ks with
  | nil => rfl
  | cons k ks ih =>
    simp only [List.map_cons, List.reverse_cons, List.any_cons, ← ih]
    simp only [List.contains_eq_mem, List.mem_append, List.mem_reverse, List.mem_map, List.mem_singleton]
    by_cases h : k.1 = i
    · simp [h]
    · simp [h, Ne.symm h]

theorem finalCheck_spec (ks : List (Nat × Entry)) (vals : List (Nat × Val)) :
    ∀ (tm : List Entry) (i : Nat), finalCheck (stOf ks vals) tm i = completeFrom ks tm i := by
  intro tm
  induction tm with
  | nil => intro i; rfl
  | cons t ts ih =>
    intro i
    unfold finalCheck completeFrom
    rw [ih (i + 1)]
    have e1 : (stOf ks vals).hit.contains i = ks.any (·.1 == i) := hit_contains ks i
    have e2 : (stOf ks vals).g0 = ks.any (·.2.has FLG_LEAST_ONE_G0) := rfl
    have e3 : (stOf ks vals).g1 = ks.any (·.2.has FLG_LEAST_ONE_G1) := rfl
    rw [e1, e2, e3]
    generalize t.has FLG_MANDATORY = a
    generalize (ks.any fun x => x.1 == i) = p
    generalize t.has FLG_LEAST_ONE_G0 = b0
    generalize (ks.any fun x => x.2.has FLG_LEAST_ONE_G0) = q0
    generalize t.has FLG_LEAST_ONE_G1 = b1
    generalize (ks.any fun x => x.2.has FLG_LEAST_ONE_G1) = q1
    generalize completeFrom ks ts (i + 1) = r
    cases a <;> cases p <;> cases b0 <;> cases q0 <;> cases b1 <;> cases q1 <;> cases r <;> rfl

/-- **Refinement**: `extractGenerator` accepts a list of elements exactly when it conforms to the
schema its table stands for and every known element's value parses; the result is then the list
of those values by row, in input order. -/
theorem extractG_spec (tm : List Entry) (pv : Entry → Elem → Except Nat Val) (es : List Elem)
    (vs : List (Nat × Val)) (hne : tm.isEmpty = false) :
    extractG tm pv es = .ok vs ↔ conforms tm es = true ∧ specValues tm pv es = some vs := by
  unfold extractG conforms
  rw [hne]
  simp only [Bool.false_eq_true, if_false, Bool.and_eq_true]
  cases hr : run tm pv {} es with
  | error c =>
    simp only
    constructor
    · intro h; cases h
    · rintro ⟨⟨⟨h1, h2⟩, _⟩, h4⟩
      have := (run_spec tm pv es [] [] (stOf (known tm es) vs)).mpr ⟨h1, h2, vs, h4, by simp⟩
      rw [stOf_nil, hr] at this; cases this
  | ok s =>
    simp only
    have h := (run_spec tm pv es [] [] s).mp (by rw [stOf_nil]; exact hr)
    obtain ⟨h1, h2, ws, h3, h4⟩ := h
    simp only [List.nil_append] at h4
    rw [h4, finalCheck_spec]
    constructor
    · intro h
      split at h
      · rename_i hc; cases h; exact ⟨⟨⟨h1, h2⟩, hc⟩, h3⟩
      · cases h
    · rintro ⟨⟨_, hc⟩, h5⟩
      rw [h3] at h5; cases h5
      rw [if_pos hc]; rfl

end KsiVerif.Template
