import KsiVerif.Proofs.Tlv
/-!
Parser-side lemmas: parsing an encoding returns the encoded header fields and payload;
successful parses tile their input exactly.
-/
namespace KsiVerif.TlvProofs
open KsiVerif KsiVerif.Tlv KsiVerif.TlvSpec

theorem toNat_ofNat_lt {n : Nat} (h : n < 256) : (UInt8.ofNat n).toNat = n := by
  simp [UInt8.toNat_ofNat', Nat.mod_eq_of_lt h]

theorem parseHdr_cons2 (b0 b1 : UInt8) (rest : Bytes) (h : b0.toNat < 128) :
    parseHdr (b0 :: b1 :: rest) = .ok { tag := b0.toNat % 32, nc := (b0.toNat / 64 % 2 == 1), fwd := (b0.toNat / 32 % 2 == 1), hdrLen := 2, datLen := b1.toNat } := by
  have : ¬ b0.toNat ≥ 128 := by omega
  simp [parseHdr, this]

theorem parseHdr_cons4 (b0 b1 b2 b3 : UInt8) (rest : Bytes) (h : b0.toNat ≥ 128) :
    parseHdr (b0 :: b1 :: b2 :: b3 :: rest) =
      .ok { tag := b0.toNat % 32 * 256 + b1.toNat, nc := (b0.toNat / 64 % 2 == 1), fwd := (b0.toNat / 32 % 2 == 1), hdrLen := 4, datLen := b2.toNat * 256 + b3.toNat } := by
  simp [parseHdr, h]

theorem parseHdr_header {tag len : Nat} (nc fwd : Bool) (rest : Bytes)
    (ht : tag ≤ 0x1fff) (hl : len ≤ 0xffff) :
    parseHdr (header tag nc fwd len ++ rest) =
      .ok { tag := tag, nc := nc, fwd := fwd, hdrLen := (header tag nc fwd len).length, datLen := len } := by
  unfold header
  by_cases h : tag ≤ 0x1f ∧ len ≤ 0xff
  · simp only [h, and_self, ↓reduceIte, List.cons_append, List.nil_append]
    have hb0 : (UInt8.ofNat (flags nc fwd + tag)).toNat = flags nc fwd + tag :=
      toNat_ofNat_lt (by cases nc <;> cases fwd <;> simp [flags] <;> omega)
    have hb1 : (UInt8.ofNat len).toNat = len := toNat_ofNat_lt (by omega)
    rw [parseHdr_cons2 _ _ _ (by rw [hb0]; cases nc <;> cases fwd <;> simp [flags] <;> omega), hb0, hb1]
    cases nc <;> cases fwd <;> simp [flags] <;> omega
  · simp only [h, ↓reduceIte, List.cons_append, List.nil_append]
    have hb0 : (UInt8.ofNat (0x80 + flags nc fwd + tag / 256)).toNat = 0x80 + flags nc fwd + tag / 256 :=
      toNat_ofNat_lt (by cases nc <;> cases fwd <;> simp [flags] <;> omega)
    have hb1 : (UInt8.ofNat (tag % 256)).toNat = tag % 256 := toNat_ofNat_lt (n := tag % 256) (by omega)
    have hb2 : (UInt8.ofNat (len / 256)).toNat = len / 256 := toNat_ofNat_lt (n := len / 256) (by omega)
    have hb3 : (UInt8.ofNat (len % 256)).toNat = len % 256 := toNat_ofNat_lt (n := len % 256) (by omega)
    rw [parseHdr_cons4 _ _ _ _ _ (by rw [hb0]; omega), hb0, hb1, hb2, hb3]
    cases nc <;> cases fwd <;> simp [flags] <;> omega

theorem parseHdr_take {b : Bytes} {hd : Hdr} (h : parseHdr b = .ok hd) {k : Nat}
    (hk : hd.hdrLen ≤ k) : parseHdr (b.take k) = .ok hd := by
  match b, h with
  | [], h => simp [parseHdr] at h
  | [b0], h => simp [parseHdr] at h
  | b0 :: b1 :: rest, h =>
    by_cases h128 : b0.toNat ≥ 128
    · match rest, h with
      | b2 :: b3 :: r, h =>
        rw [parseHdr_cons4 _ _ _ _ _ h128] at h
        cases h
        simp only at hk
        obtain ⟨k', rfl⟩ : ∃ k', k = k' + 4 := ⟨k - 4, by omega⟩
        simp only [List.take_succ_cons]
        exact parseHdr_cons4 _ _ _ _ _ h128
      | [b2], h => simp [parseHdr, h128] at h
      | [], h => simp [parseHdr, h128] at h
    · have hlt : b0.toNat < 128 := by omega
      rw [parseHdr_cons2 _ _ _ hlt] at h
      cases h
      simp only at hk
      obtain ⟨k', rfl⟩ : ∃ k', k = k' + 2 := ⟨k - 2, by omega⟩
      simp only [List.take_succ_cons]
      exact parseHdr_cons2 _ _ _ hlt

theorem encode_eq (t : Tlv) : encode t = header t.tag t.nc t.fwd (payload t).length ++ payload t := by
  cases t <;> simp [encode, payload, Tlv.tag, Tlv.nc, Tlv.fwd]

theorem lensOK_payload {t : Tlv} (h : lensOK t = true) : (payload t).length ≤ 0xffff := by
  cases t <;> simp_all [lensOK, payload]

theorem tagsOK_tag {t : Tlv} (h : tagsOK t = true) : t.tag ≤ 0x1fff := by
  cases t <;> simp_all [tagsOK, Tlv.tag]

theorem readFirst_encode (t : Tlv) (rest : Bytes) (ht : t.tag ≤ 0x1fff) (hl : lensOK t = true) :
    readFirst (encode t ++ rest) = some (flatten t, (encode t).length) := by
  have hp := lensOK_payload hl
  rw [encode_eq]
  unfold readFirst memRead
  rw [List.append_assoc, parseHdr_header t.nc t.fwd (payload t ++ rest) ht hp]
  have hne : (header t.tag t.nc t.fwd (payload t).length ++ (payload t ++ rest)).isEmpty = false := by
    unfold header; split <;> simp
  simp only [hne, Bool.false_eq_true, ↓reduceIte, List.length_append]
  have : ¬ ((header t.tag t.nc t.fwd (payload t).length).length + ((payload t).length + rest.length)
      < (header t.tag t.nc t.fwd (payload t).length).length + (payload t).length) := by omega
  simp only [this, ↓reduceIte, flatten, List.drop_left, List.take_left]

theorem expand_empty {b : Bytes} (hb : b.isEmpty = true) : expand b = .ok [] := by
  unfold expand; simp [hb]

theorem expand_none {b : Bytes} (hb : b.isEmpty = false) (hr : readFirst b = none) :
    expand b = .error St.INVALID_FORMAT := by
  unfold expand
  simp only [hb, Bool.false_eq_true, ↓reduceIte]
  split
  · rfl
  · rename_i h; rw [hr] at h; cases h

theorem expand_some {b : Bytes} {t : Tlv} {n : Nat} (hb : b.isEmpty = false)
    (hr : readFirst b = some (t, n)) :
    expand b = match expand (b.drop n) with
      | .error e => .error e
      | .ok ts => .ok (t :: ts) := by
  rw [expand]
  simp only [hb, Bool.false_eq_true, ↓reduceIte]
  split
  · rename_i h; rw [hr] at h; cases h
  · rename_i t' n' h
    rw [hr] at h
    simp only [Option.some.injEq, Prod.mk.injEq] at h
    obtain ⟨e1, e2⟩ := h
    subst e1 e2
    rfl

theorem isEmpty_false_of_length {b : Bytes} (h : 0 < b.length) : b.isEmpty = false := by
  cases b with
  | nil => simp at h
  | cons _ _ => rfl

theorem expand_encodeList : ∀ (cs : List Tlv), tagsOKList cs = true → lensOKList cs = true →
    expand (encodeList cs) = .ok (cs.map flatten)
  | [], _, _ => by simp [encodeList, expand_empty]
  | c :: rest, ht, hl => by
    simp only [tagsOKList, lensOKList, Bool.and_eq_true] at ht hl
    have hr := readFirst_encode c (encodeList rest) (tagsOK_tag ht.1) hl.1
    have ⟨h2, h3⟩ := readFirst_consumed hr
    simp only [encodeList]
    rw [expand_some (isEmpty_false_of_length (by omega)) hr, List.drop_left,
      expand_encodeList rest ht.2 hl.2]
    simp

theorem parseBlob_encode (t : Tlv) (ht : t.tag ≤ 0x1fff) (hl : lensOK t = true) :
    parseBlob (encode t) = .ok (flatten t) := by
  have hr := readFirst_encode t [] ht hl
  simp only [List.append_nil] at hr
  have ⟨h2, _⟩ := readFirst_consumed hr
  unfold parseBlob
  have : ¬ (encode t).length < 2 := by omega
  simp [this, hr]

/-! ### Soundness of parsing: exact tiling -/

theorem readFirst_sound {b : Bytes} {t : Tlv} {n : Nat} (h : readFirst b = some (t, n)) :
    ∃ hd : Hdr, parseHdr b = .ok hd ∧ n = hd.hdrLen + hd.datLen ∧ n ≤ b.length ∧
      t = .raw hd.tag hd.nc hd.fwd ((b.drop hd.hdrLen).take hd.datLen) ∧
      ((b.drop hd.hdrLen).take hd.datLen).length = hd.datLen := by
  unfold readFirst at h
  split at h
  · cases h
  · cases hm : memRead b with
    | error e => simp [hm] at h
    | ok hd =>
      simp only [hm, Option.some.injEq, Prod.mk.injEq] at h
      have ⟨hp, hl⟩ := memRead_ok hm
      refine ⟨hd, hp, h.2.symm, by omega, h.1.symm, ?_⟩
      simp only [List.length_take, List.length_drop]
      omega

theorem parseBlob_readFirst {b : Bytes} {t : Tlv} (h : parseBlob b = .ok t) :
    readFirst b = some (t, b.length) := by
  unfold parseBlob at h
  split at h
  · cases h
  · cases hr : readFirst b with
    | none => simp [hr] at h
    | some p =>
      obtain ⟨t', n⟩ := p
      simp only [hr] at h
      split at h
      · cases h
      · rename_i hn
        cases h
        have : n = b.length := by simpa using hn
        rw [this]

/-- `Tiles pieces ts`: piece `i` parses, as a whole blob, to child `i`. -/
def Tiles : List Bytes → List Tlv → Prop
  | [], [] => True
  | p :: ps, t :: ts => parseBlob p = .ok t ∧ Tiles ps ts
  | _, _ => False

theorem readFirst_take {b : Bytes} {t : Tlv} {n : Nat} (hr : readFirst b = some (t, n)) :
    readFirst (b.take n) = some (t, n) := by
  obtain ⟨hd, hph, hn, hle, ht, _⟩ := readFirst_sound hr
  have ⟨h2, _⟩ := readFirst_consumed hr
  have hlen : (b.take n).length = n := by simp; omega
  have hph' : parseHdr (b.take n) = .ok hd := parseHdr_take hph (by omega)
  unfold readFirst memRead
  have hne : (b.take n).isEmpty = false := isEmpty_false_of_length (by omega)
  have hnl : ¬ (b.take n).length < hd.hdrLen + hd.datLen := by omega
  simp only [hne, Bool.false_eq_true, ↓reduceIte, hph', hnl, Option.some.injEq, Prod.mk.injEq]
  refine ⟨?_, hn.symm⟩
  rw [ht, List.drop_take, List.take_take]
  congr 2
  omega

/-- A successful one-level expansion tiles the payload exactly: the payload is the
concatenation of pieces, each of which parses (as a whole blob) to the corresponding child. -/
theorem expand_tiles (b : Bytes) : ∀ (ts : List Tlv), expand b = .ok ts →
    ∃ pieces : List Bytes, pieces.flatten = b ∧ Tiles pieces ts := by
  induction b using expand.induct with
  | case1 b hb =>
    intro ts h
    rw [expand_empty hb] at h
    cases h
    exact ⟨[], by simpa using hb.symm, trivial⟩
  | case2 b hb hr =>
    intro ts h
    rw [expand_none (by simpa using hb) hr] at h
    cases h
  | case3 b hb t n hr e he _ =>
    intro ts h
    rw [expand_some (by simpa using hb) hr, he] at h
    cases h
  | case4 b hb t n hr ts' he ih =>
    intro ts h
    rw [expand_some (by simpa using hb) hr, he] at h
    cases h
    obtain ⟨pieces, hp1, hp2⟩ := ih ts' he
    have ⟨h2, hle⟩ := readFirst_consumed hr
    refine ⟨b.take n :: pieces, by simp [hp1], ?_, hp2⟩
    unfold parseBlob
    have hlen : (b.take n).length = n := by simp; omega
    have : ¬ (b.take n).length < 2 := by omega
    simp only [this, ↓reduceIte, readFirst_take hr, hlen, ne_eq, not_true_eq_false]
    have : ¬ n < 2 := by omega
    simp [this]

end KsiVerif.TlvProofs
