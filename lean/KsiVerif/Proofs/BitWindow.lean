import KsiVerif.Proofs.SymbolWindow
/-! From a five-bit window of the bit string to a window of at most two octets of the binary (second half of the symbol → octet-window
glue of C17), and small facts about `xorBytes`. -/
namespace KsiVerif.Pub
open KsiVerif

theorem bitsToBytes_short : ∀ (X : List Bool), X.length < 8 → bitsToBytes X = []
  | [], _ => rfl
  | [_], _ => rfl
  | [_, _], _ => rfl
  | [_, _, _], _ => rfl
  | [_, _, _, _], _ => rfl
  | [_, _, _, _, _], _ => rfl
  | [_, _, _, _, _, _], _ => rfl
  | [_, _, _, _, _, _, _], _ => rfl
  | _ :: _ :: _ :: _ :: _ :: _ :: _ :: _ :: _, h => by simp at h; omega

theorem bitsToBytes_append : ∀ (X Y : List Bool), X.length % 8 = 0 →
    bitsToBytes (X ++ Y) = bitsToBytes X ++ bitsToBytes Y
  | [], Y, _ => by simp [bitsToBytes]
  | [_], _, h => by simp at h
  | [_, _], _, h => by simp at h
  | [_, _, _], _, h => by simp at h
  | [_, _, _, _], _, h => by simp at h
  | [_, _, _, _, _], _, h => by simp at h
  | [_, _, _, _, _, _], _, h => by simp at h
  | [_, _, _, _, _, _, _], _, h => by simp at h
  | b7 :: b6 :: b5 :: b4 :: b3 :: b2 :: b1 :: b0 :: X, Y, h => by
    have h' : X.length % 8 = 0 := by simp only [List.length_cons] at h; omega
    simp only [List.cons_append, bitsToBytes, bitsToBytes_append X Y h']

theorem bitsToBytes_length : ∀ (X : List Bool), (bitsToBytes X).length = X.length / 8
  | _ :: _ :: _ :: _ :: _ :: _ :: _ :: _ :: X => by
    simp only [bitsToBytes, List.length_cons, bitsToBytes_length X]; omega
  | [] => rfl
  | [_] => by rw [bitsToBytes_short _ (by simp)]; simp
  | [_, _] => by rw [bitsToBytes_short _ (by simp)]; simp
  | [_, _, _] => by rw [bitsToBytes_short _ (by simp)]; simp
  | [_, _, _, _] => by rw [bitsToBytes_short _ (by simp)]; simp
  | [_, _, _, _, _] => by rw [bitsToBytes_short _ (by simp)]; simp
  | [_, _, _, _, _, _] => by rw [bitsToBytes_short _ (by simp)]; simp
  | [_, _, _, _, _, _, _] => by rw [bitsToBytes_short _ (by simp)]; simp

theorem bitsToBytes_take16 (R : List Bool) :
    bitsToBytes R = bitsToBytes (R.take 16) ++ bitsToBytes (R.drop 16) := by
  by_cases h : 16 ≤ R.length
  · conv => lhs; rw [← List.take_append_drop 16 R]
    exact bitsToBytes_append _ _ (by simp [List.length_take]; omega)
  · have h1 : R.take 16 = R := List.take_of_length_le (by omega)
    have h2 : R.drop 16 = [] := List.drop_of_length_le (by omega)
    rw [h1, h2]; simp [bitsToBytes]

/-- **Five bits at any position lie in at most two consecutive octets** (or in the dropped
tail): two bit strings that differ only in one five-bit window pack into octet strings that
differ only in a window of at most two octets. -/
theorem window_bytes (A w w' B : List Bool) (hw : w.length = 5) (hw' : w'.length = 5) :
    ∃ pre mid mid' post, bitsToBytes (A ++ w ++ B) = pre ++ mid ++ post ∧
      bitsToBytes (A ++ w' ++ B) = pre ++ mid' ++ post ∧ mid.length = mid'.length ∧ mid.length ≤ 2 := by
  let n8 := 8 * (A.length / 8)
  have hn8 : n8 ≤ A.length := Nat.mul_div_le _ _
  have hsplit : ∀ u : List Bool, A ++ u ++ B = A.take n8 ++ (A.drop n8 ++ u ++ B) := by
    intro u; simp [← List.append_assoc, List.take_append_drop]
  have htl : (A.take n8).length % 8 = 0 := by
    rw [List.length_take, Nat.min_eq_left hn8]; simp [n8]
  have hal : (A.drop n8).length < 8 := by
    rw [List.length_drop]; simp only [n8]; omega
  have hdrop : ∀ u : List Bool, u.length = 5 →
      (A.drop n8 ++ u ++ B).drop 16 = B.drop (16 - ((A.drop n8).length + 5)) := by
    intro u hu
    rw [List.drop_append, List.drop_of_length_le (by simp [hu]; omega)]
    simp [hu]
  refine ⟨bitsToBytes (A.take n8), bitsToBytes ((A.drop n8 ++ w ++ B).take 16),
    bitsToBytes ((A.drop n8 ++ w' ++ B).take 16), bitsToBytes (B.drop (16 - ((A.drop n8).length + 5))), ?_, ?_, ?_, ?_⟩
  · rw [hsplit w, bitsToBytes_append _ _ htl, bitsToBytes_take16 (A.drop n8 ++ w ++ B), hdrop w hw]; simp only [List.append_assoc]
  · rw [hsplit w', bitsToBytes_append _ _ htl, bitsToBytes_take16 (A.drop n8 ++ w' ++ B), hdrop w' hw']; simp only [List.append_assoc]
  · simp [bitsToBytes_length, List.length_take, hw, hw']
  · simp only [bitsToBytes_length, List.length_take]; omega

theorem bitsToBytes_takeN (n : Nat) (hn : n % 8 = 0) (R : List Bool) :
    bitsToBytes R = bitsToBytes (R.take n) ++ bitsToBytes (R.drop n) := by
  by_cases h : n ≤ R.length
  · conv => lhs; rw [← List.take_append_drop n R]
    exact bitsToBytes_append _ _ (by rw [List.length_take, Nat.min_eq_left h]; exact hn)
  · have h1 : R.take n = R := List.take_of_length_le (by omega)
    have h2 : R.drop n = [] := List.drop_of_length_le (by omega)
    rw [h1, h2]; simp [bitsToBytes]

/-- **A window of up to ten bits at any position lies in at most three consecutive octets**
(or in the dropped tail): two bit strings that differ only in one such window pack into octet
strings that differ only in a window of at most three octets. -/
theorem window_bytes10 (A w w' B : List Bool) (hww : w.length = w'.length) (hw : w.length ≤ 10) :
    ∃ pre mid mid' post, bitsToBytes (A ++ w ++ B) = pre ++ mid ++ post ∧
      bitsToBytes (A ++ w' ++ B) = pre ++ mid' ++ post ∧ mid.length = mid'.length ∧ mid.length ≤ 3 := by
  let n8 := 8 * (A.length / 8)
  have hn8 : n8 ≤ A.length := Nat.mul_div_le _ _
  have hsplit : ∀ u : List Bool, A ++ u ++ B = A.take n8 ++ (A.drop n8 ++ u ++ B) := by
    intro u; simp [← List.append_assoc, List.take_append_drop]
  have htl : (A.take n8).length % 8 = 0 := by
    rw [List.length_take, Nat.min_eq_left hn8]; simp [n8]
  have hal : (A.drop n8).length < 8 := by
    rw [List.length_drop]; simp only [n8]; omega
  have hdrop : ∀ u : List Bool, u.length = w.length →
      (A.drop n8 ++ u ++ B).drop 24 = B.drop (24 - ((A.drop n8).length + w.length)) := by
    intro u hu
    rw [List.drop_append, List.drop_of_length_le (by simp [hu]; omega)]
    simp [hu]
  refine ⟨bitsToBytes (A.take n8), bitsToBytes ((A.drop n8 ++ w ++ B).take 24),
    bitsToBytes ((A.drop n8 ++ w' ++ B).take 24), bitsToBytes (B.drop (24 - ((A.drop n8).length + w.length))), ?_, ?_, ?_, ?_⟩
  · rw [hsplit w, bitsToBytes_append _ _ htl, bitsToBytes_takeN 24 (by decide) (A.drop n8 ++ w ++ B), hdrop w rfl]; simp only [List.append_assoc]
  · rw [hsplit w', bitsToBytes_append _ _ htl, bitsToBytes_takeN 24 (by decide) (A.drop n8 ++ w' ++ B), hdrop w' hww.symm]; simp only [List.append_assoc]
  · simp [bitsToBytes_length, List.length_take, hww]
  · simp only [bitsToBytes_length, List.length_take]; omega

theorem xorBytes_xorBytes : ∀ (a b : Bytes), a.length = b.length → xorBytes a (xorBytes a b) = b
  | [], [], _ => rfl
  | x :: xs, y :: ys, h => by
    simp only [xorBytes, xorBytes_xorBytes xs ys (by simpa using h)]
    rw [← UInt8.xor_assoc, UInt8.xor_self, UInt8.zero_xor]
  | [], _ :: _, h => by simp at h
  | _ :: _, [], h => by simp at h

theorem xorBytes_length : ∀ (a b : Bytes), a.length = b.length → (xorBytes a b).length = a.length
  | [], [], _ => rfl
  | x :: xs, y :: ys, h => by simp [xorBytes, xorBytes_length xs ys (by simpa using h)]
  | [], _ :: _, h => by simp at h
  | _ :: _, [], h => by simp at h

theorem xorBytes_zero_eq : ∀ (a b : Bytes), a.length = b.length → (∀ x ∈ xorBytes a b, x = 0) → a = b
  | [], [], _, _ => rfl
  | x :: xs, y :: ys, h, hz => by
    simp only [xorBytes, List.mem_cons, forall_eq_or_imp] at hz
    rw [UInt8.xor_eq_zero_iff.mp hz.1, xorBytes_zero_eq xs ys (by simpa using h) hz.2]
  | [], _ :: _, h, _ => by simp at h
  | _ :: _, [], h, _ => by simp at h

end KsiVerif.Pub
