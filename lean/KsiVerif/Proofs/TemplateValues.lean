import KsiVerif.Spec.Schema
/-! # Value parsers: integers, imprints, legacy ids -/
namespace KsiVerif.Template
open KsiVerif

theorem beVal_foldl (t : Bytes) (a : Nat) :
    t.foldl (fun a x => a * 256 + x.toNat) a = a * 256 ^ t.length + beVal t := by
  induction t generalizing a with
  | nil => simp [beVal]
  | cons x xs ih =>
    simp only [List.foldl_cons, List.length_cons, beVal]
    rw [ih, ih (0 * 256 + x.toNat)]
    simp only [Nat.zero_mul, Nat.zero_add, Nat.pow_succ]
    rw [Nat.add_mul, Nat.add_assoc, Nat.mul_assoc, Nat.mul_comm 256]

theorem beVal_cons (h : UInt8) (t : Bytes) : beVal (h :: t) = h.toNat * 256 ^ t.length + beVal t := by
  have := beVal_foldl t (0 * 256 + h.toNat)
  simp only [Nat.zero_mul, Nat.zero_add] at this
  simpa [beVal] using this

theorem beVal_lt (t : Bytes) : beVal t < 256 ^ t.length := by
  induction t with
  | nil => simp [beVal]
  | cons x xs ih =>
    rw [beVal_cons, List.length_cons, Nat.pow_succ]
    have := x.toNat_lt
    have h1 : x.toNat * 256 ^ xs.length ≤ 255 * 256 ^ xs.length := Nat.mul_le_mul_right _ (by omega)
    omega

theorem minSize_eq (v k : Nat) (hk : k < 8) (h1 : 256 ^ k ≤ v) (h2 : v < 256 ^ (k + 1)) : minSize v = k + 1 := by
  unfold minSize
  have : k = 0 ∨ k = 1 ∨ k = 2 ∨ k = 3 ∨ k = 4 ∨ k = 5 ∨ k = 6 ∨ k = 7 := by omega
  rcases this with rfl | rfl | rfl | rfl | rfl | rfl | rfl | rfl <;> simp at h1 h2 ⊢ <;> (repeat (first | omega | split))

theorem minSize_le (v k : Nat) (hk : k ≤ 8) (h : v < 256 ^ k) : minSize v ≤ k := by
  unfold minSize
  have : k = 0 ∨ k = 1 ∨ k = 2 ∨ k = 3 ∨ k = 4 ∨ k = 5 ∨ k = 6 ∨ k = 7 ∨ k = 8 := by omega
  rcases this with rfl | rfl | rfl | rfl | rfl | rfl | rfl | rfl | rfl <;> simp at h ⊢ <;> (repeat (first | omega | split))

end KsiVerif.Template

namespace KsiVerif.Template
open KsiVerif

theorem takeCont_zero : ∀ (k : Nat) (bs rest : Bytes), takeCont k bs = (0, rest) →
    ∃ cs, bs = cs ++ rest ∧ cs.length = k ∧ ∀ c ∈ cs, isCont c := by
  intro k
  induction k with
  | zero => intro bs rest h; simp only [takeCont, Prod.mk.injEq, true_and] at h; exact ⟨[], by simp [h], rfl, by simp⟩
  | succ k ih =>
    intro bs rest h
    cases bs with
    | nil => simp [takeCont] at h
    | cons b bs =>
      simp only [takeCont] at h
      split at h
      · rename_i hc
        obtain ⟨cs, h1, h2, h3⟩ := ih bs rest h
        refine ⟨b :: cs, by simp [h1], by simp [h2], ?_⟩
        intro c hm
        rcases List.mem_cons.mp hm with rfl | hm
        · exact hc
        · exact h3 c hm
      · simp at h

theorem takeCont_append : ∀ (cs rest : Bytes), (∀ c ∈ cs, isCont c) → takeCont cs.length (cs ++ rest) = (0, rest) := by
  intro cs
  induction cs with
  | nil => intro rest _; simp [takeCont]
  | cons c cs ih =>
    intro rest h
    have hc : isCont c := h c (by simp)
    simp only [List.length_cons, List.cons_append, takeCont]
    have hc' : 0x80 ≤ c.toNat ∧ c.toNat ≤ 0xbf := hc
    rw [if_pos hc']
    exact ih rest (fun x hx => h x (by simp [hx]))

theorem verifyUtf8_cons (b : UInt8) (bs : Bytes) :
    verifyUtf8 (b :: bs) =
      if (!bs.isEmpty && b.toNat = 0) = true then .error IF
      else match leadLen b.toNat with
        | none => .error IF
        | some k =>
          if k ≥ bs.length + 1 then .error St.BUFFER_OVERFLOW
          else match takeCont k bs with
            | (0, rest) => verifyUtf8 rest
            | (_ + 1, _) => .error IF := by
  rw [verifyUtf8]
  by_cases hc : (!bs.isEmpty && decide (b.toNat = 0)) = true
  · rw [if_pos hc, if_pos hc]
  · rw [if_neg hc, if_neg hc]
    cases hl : leadLen b.toNat with
    | none => rfl
    | some k =>
      simp only
      by_cases hk : k ≥ bs.length + 1
      · rw [if_pos hk, if_pos hk]
      · rw [if_neg hk, if_neg hk]
        split <;> split <;> simp_all

theorem leadLen_cases (c k : Nat) (h : leadLen c = some k) :
    (k = 0 ∧ c ≤ 0x7f) ∨ (k = 1 ∧ 0xc0 ≤ c ∧ c ≤ 0xdf) ∨ (k = 2 ∧ 0xe0 ≤ c ∧ c ≤ 0xef) ∨ (k = 3 ∧ 0xf0 ≤ c ∧ c ≤ 0xf4) := by
  unfold leadLen at h
  split at h
  · cases h; exact Or.inl ⟨rfl, by assumption⟩
  · split at h
    · cases h; exact Or.inr (Or.inl ⟨rfl, by assumption⟩)
    · split at h
      · cases h; exact Or.inr (Or.inr (Or.inl ⟨rfl, by assumption⟩))
      · split at h
        · cases h; exact Or.inr (Or.inr (Or.inr ⟨rfl, by assumption⟩))
        · cases h

theorem verifyUtf8_sound : ∀ (n : Nat) (p : Bytes), p.length = n → verifyUtf8 p = .ok () → Utf8Seq p := by
  intro n
  induction n using Nat.strongRecOn with
  | _ n ih =>
    intro p hn h
    cases p with
    | nil => exact .nil
    | cons b bs =>
      rw [verifyUtf8_cons] at h
      split at h
      · cases h
      · rename_i hnul
        cases hl : leadLen b.toNat with
        | none => rw [hl] at h; cases h
        | some k =>
          rw [hl] at h
          simp only at h
          split at h
          · cases h
          · cases ht : takeCont k bs with
            | mk r rest =>
              rw [ht] at h
              cases r with
              | succ r => simp at h
              | zero =>
                simp only at h
                obtain ⟨cs, h1, h2, h3⟩ := takeCont_zero k bs rest ht
                have hlen : rest.length < n := by
                  rw [← hn, h1]; simp only [List.length_cons, List.length_append]; omega
                have hrest := ih rest.length hlen rest rfl h
                have hnul' : b.toNat ≠ 0 ∨ bs = [] := by
                  by_cases hb : b.toNat = 0
                  · right
                    cases bs with
                    | nil => rfl
                    | cons x xs => simp [hb] at hnul
                  · exact Or.inl hb
                rcases leadLen_cases _ _ hl with ⟨rfl, hc⟩ | ⟨rfl, hc⟩ | ⟨rfl, hc⟩ | ⟨rfl, hc⟩
                · have : cs = [] := List.eq_nil_of_length_eq_zero h2
                  subst this
                  simp only [List.nil_append] at h1
                  subst h1
                  exact .one b bs hc hnul' hrest
                · match cs, h2 with
                  | [c1], _ =>
                    subst h1
                    exact .two b c1 rest hc.1 hc.2 (h3 c1 (by simp)) hrest
                · match cs, h2 with
                  | [c1, c2], _ =>
                    subst h1
                    exact .three b c1 c2 rest hc.1 hc.2 (h3 c1 (by simp)) (h3 c2 (by simp)) hrest
                · match cs, h2 with
                  | [c1, c2, c3], _ =>
                    subst h1
                    exact .four b c1 c2 c3 rest hc.1 hc.2 (h3 c1 (by simp)) (h3 c2 (by simp)) (h3 c3 (by simp)) hrest

theorem verifyUtf8_complete (p : Bytes) (h : Utf8Seq p) : verifyUtf8 p = .ok () := by
  induction h with
  | nil => rw [verifyUtf8]
  | one l rest h1 h2 _ ih =>
    rw [verifyUtf8_cons]
    have hn : ¬ (!rest.isEmpty && decide (l.toNat = 0)) = true := by
      rcases h2 with h2 | h2
      · simp [h2]
      · simp [h2]
    rw [if_neg hn]
    have : leadLen l.toNat = some 0 := by unfold leadLen; rw [if_pos h1]
    rw [this]
    simp only [ge_iff_le, Nat.le_zero_eq, Nat.add_one_ne_zero, if_false, takeCont]
    exact ih
  | two l c1 rest h1 h2 hc _ ih =>
    rw [verifyUtf8_cons]
    have hn : ¬ (!(c1 :: rest).isEmpty && decide (l.toNat = 0)) = true := by
      have : l.toNat ≠ 0 := by omega
      simp [this]
    rw [if_neg hn]
    have : leadLen l.toNat = some 1 := by
      unfold leadLen; rw [if_neg (by omega), if_pos ⟨h1, h2⟩]
    rw [this]
    have ht := takeCont_append [c1] rest (by intro c hm; simp at hm; rw [hm]; exact hc)
    simp only [List.length_cons, List.length_nil, List.cons_append, List.nil_append] at ht
    simp only [ge_iff_le, List.length_cons, ht]
    rw [if_neg (by omega)]
    exact ih
  | three l c1 c2 rest h1 h2 hc1 hc2 _ ih =>
    rw [verifyUtf8_cons]
    have hn : ¬ (!(c1 :: c2 :: rest).isEmpty && decide (l.toNat = 0)) = true := by
      have : l.toNat ≠ 0 := by omega
      simp [this]
    rw [if_neg hn]
    have : leadLen l.toNat = some 2 := by
      unfold leadLen; rw [if_neg (by omega), if_neg (by omega), if_pos ⟨h1, h2⟩]
    rw [this]
    have ht := takeCont_append [c1, c2] rest (by
      intro c hm; simp at hm; rcases hm with rfl | rfl
      · exact hc1
      · exact hc2)
    simp only [List.length_cons, List.length_nil, List.cons_append, List.nil_append] at ht
    simp only [ge_iff_le, List.length_cons, ht]
    rw [if_neg (by omega)]
    exact ih
  | four l c1 c2 c3 rest h1 h2 hc1 hc2 hc3 _ ih =>
    rw [verifyUtf8_cons]
    have hn : ¬ (!(c1 :: c2 :: c3 :: rest).isEmpty && decide (l.toNat = 0)) = true := by
      have : l.toNat ≠ 0 := by omega
      simp [this]
    rw [if_neg hn]
    have : leadLen l.toNat = some 3 := by
      unfold leadLen; rw [if_neg (by omega), if_neg (by omega), if_neg (by omega), if_pos ⟨h1, h2⟩]
    rw [this]
    have ht := takeCont_append [c1, c2, c3] rest (by
      intro c hm; simp at hm; rcases hm with rfl | rfl | rfl
      · exact hc1
      · exact hc2
      · exact hc3)
    simp only [List.length_cons, List.length_nil, List.cons_append, List.nil_append] at ht
    simp only [ge_iff_le, List.length_cons, ht]
    rw [if_neg (by omega)]
    exact ih

end KsiVerif.Template
