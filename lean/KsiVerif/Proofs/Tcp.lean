import KsiVerif.Model.Tcp
import KsiVerif.Proofs.TlvParse
namespace KsiVerif.Tcp
open KsiVerif KsiVerif.Tlv KsiVerif.TlvProofs

theorem extract_nil {b : Bytes} (h : b.isEmpty = true) : extract b = ([], b) := by
  unfold extract; simp [h]

theorem extract_incomplete {b : Bytes} {e : Nat} (h0 : b.isEmpty = false) (h : memRead b = .error e) :
    extract b = ([], b) := by
  unfold extract
  simp only [h0, Bool.false_eq_true, ↓reduceDIte]
  split
  · rfl
  · rename_i hd heq; rw [h] at heq; cases heq

theorem extract_complete {b : Bytes} {hd : Hdr} (h0 : b.isEmpty = false) (h : memRead b = .ok hd) :
    extract b = (b.take (hd.hdrLen + hd.datLen) :: (extract (b.drop (hd.hdrLen + hd.datLen))).1,
                 (extract (b.drop (hd.hdrLen + hd.datLen))).2) := by
  rw [extract]
  simp only [h0, Bool.false_eq_true, ↓reduceDIte]
  split
  · rename_i e heq; rw [h] at heq; cases heq
  · rename_i hd' heq
    rw [h] at heq
    cases heq
    rfl

/-- a complete element at the front stays the same element when more bytes follow -/
theorem memRead_append {b : Bytes} {hd : Hdr} (c : Bytes) (h : memRead b = .ok hd) :
    memRead (b ++ c) = .ok hd := by
  have ⟨hp, hl⟩ := memRead_ok h
  have hlen := parseHdr_hdrLen hp
  have hp' : parseHdr (b ++ c) = .ok hd := by
    have htake : (b ++ c).take b.length = b := by simp
    have := parseHdr_take (b := b ++ c) (hd := hd) (k := b.length)
    -- go the other way: parseHdr only inspects the first hdrLen bytes, which b already has
    match b, hp, hl with
    | b0 :: b1 :: b2 :: b3 :: rest, hp, _ =>
      by_cases h128 : b0.toNat ≥ 128
      · rw [parseHdr_cons4 _ _ _ _ _ h128] at hp
        simp only [List.cons_append]
        rw [parseHdr_cons4 _ _ _ _ _ h128]; exact hp
      · rw [parseHdr_cons2 _ _ _ (by omega)] at hp
        simp only [List.cons_append]
        rw [parseHdr_cons2 _ _ _ (by omega)]; exact hp
    | [b0, b1, b2], hp, hl =>
      by_cases h128 : b0.toNat ≥ 128
      · simp [parseHdr, h128] at hp
      · rw [parseHdr_cons2 _ _ _ (by omega)] at hp
        simp only [List.cons_append]
        rw [parseHdr_cons2 _ _ _ (by omega)]; exact hp
    | [b0, b1], hp, hl =>
      by_cases h128 : b0.toNat ≥ 128
      · simp [parseHdr, h128] at hp
      · rw [parseHdr_cons2 _ _ _ (by omega)] at hp
        simp only [List.cons_append]
        rw [parseHdr_cons2 _ _ _ (by omega)]; exact hp
    | [b0], hp, _ => simp [parseHdr] at hp
    | [], hp, _ => simp [parseHdr] at hp
  unfold memRead
  rw [hp']
  have : ¬ (b ++ c).length < hd.hdrLen + hd.datLen := by simp; omega
  simp only [this, ↓reduceIte]

/-- **Chunking independence, one step.** Extracting from `buffered ++ chunk` gives what was
already extractable from `buffered`, followed by what the remainder plus the chunk yields. -/
theorem extract_append (b : Bytes) : ∀ (c : Bytes),
    extract (b ++ c) = ((extract b).1 ++ (extract ((extract b).2 ++ c)).1, (extract ((extract b).2 ++ c)).2) := by
  induction b using extract.induct with
  | case1 b h0 =>
    intro c
    rw [extract_nil h0]
    have : b = [] := by simpa using h0
    subst this
    simp
  | case2 b h0 e hm =>
    intro c
    rw [extract_incomplete (by simpa using h0) hm]
    simp
  | case3 b h0 hd hm n ps rest hrec ih =>
    intro c
    have h0' : b.isEmpty = false := by simpa using h0
    have hne : (b ++ c).isEmpty = false := by
      cases b with
      | nil => simp at h0'
      | cons _ _ => rfl
    have ⟨_, hl⟩ := memRead_ok hm
    rw [extract_complete hne (memRead_append c hm), extract_complete h0' hm]
    have ht : (b ++ c).take (hd.hdrLen + hd.datLen) = b.take (hd.hdrLen + hd.datLen) :=
      List.take_append_of_le_length hl
    have hdp : (b ++ c).drop (hd.hdrLen + hd.datLen) = b.drop (hd.hdrLen + hd.datLen) ++ c :=
      List.drop_append_of_le_length hl
    rw [ht, hdp, ih c]
    simp only [List.cons_append]
    rfl

/-- the loop state after feeding chunks one at a time -/
def feed : List Bytes × Bytes → List Bytes → List Bytes × Bytes
  | acc, [] => acc
  | (ps, buf), c :: cs => feed (ps ++ (extract (buf ++ c)).1, (extract (buf ++ c)).2) cs

theorem extract_idem (b : Bytes) : extract (extract b).2 = ([], (extract b).2) := by
  induction b using extract.induct with
  | case1 b h0 => rw [extract_nil h0]; exact extract_nil h0
  | case2 b h0 e hm =>
    rw [extract_incomplete (by simpa using h0) hm]
    exact extract_incomplete (by simpa using h0) hm
  | case3 b h0 hd hm n ps rest hrec ih =>
    rw [extract_complete (by simpa using h0) hm]
    exact ih

/-- **Reassembly is independent of the chunking.** However the server's stream is cut into
receive chunks, the PDUs handed to the upper layer, and the bytes left in the buffer, are those
of one extraction over the whole stream. -/
theorem feed_eq_extract : ∀ (cs : List Bytes) (ps : List Bytes) (buf : Bytes),
    extract buf = ([], buf) →
    feed (ps, buf) cs = (ps ++ (extract (buf ++ cs.flatten)).1, (extract (buf ++ cs.flatten)).2)
  | [], ps, buf, h => by simp [feed, h]
  | c :: cs, ps, buf, h => by
    simp only [feed, List.flatten_cons]
    rw [feed_eq_extract cs _ _ (extract_idem (buf ++ c))]
    rw [← List.append_assoc buf c, extract_append (buf ++ c) cs.flatten]
    simp [List.append_assoc]

/-- what stays in the buffer is an incomplete element: shorter than a maximum-size PDU -/
theorem extract_rest_lt (b : Bytes) : (extract b).2.length < MAX := by
  induction b using extract.induct with
  | case1 b h0 =>
    rw [extract_nil h0]
    have : b = [] := by simpa using h0
    subst this; decide
  | case2 b h0 e hm =>
    rw [extract_incomplete (by simpa using h0) hm]
    simp only
    -- memRead failed: the header is incomplete (< 4 bytes) or the payload is
    unfold memRead at hm
    cases hp : parseHdr b with
    | error e' =>
      -- fewer than 4 bytes
      match b, hp with
      | [], _ => decide
      | [_], _ => simp [MAX]
      | [_, _], _ => simp [MAX]
      | [_, _, _], _ => simp [MAX]
      | b0 :: b1 :: b2 :: b3 :: r, hp =>
        by_cases h128 : b0.toNat ≥ 128
        · rw [parseHdr_cons4 _ _ _ _ _ h128] at hp; cases hp
        · rw [parseHdr_cons2 _ _ _ (by omega)] at hp; cases hp
    | ok hd =>
      simp only [hp] at hm
      split at hm
      · rename_i hlt
        have hf := (Props_fields b hd hp)
        unfold MAX; omega
      · cases hm
  | case3 b h0 hd hm n ps rest hrec ih =>
    rw [extract_complete (by simpa using h0) hm]
    exact ih
where
  Props_fields (b : Bytes) (hd : Hdr) (h : parseHdr b = .ok hd) : hd.hdrLen ≤ 4 ∧ hd.datLen ≤ 0xffff := by
    match b, h with
    | [], h => simp [parseHdr] at h
    | [b0], h => simp [parseHdr] at h
    | b0 :: b1 :: rest, h =>
      have := b0.toNat_lt; have := b1.toNat_lt
      by_cases h128 : b0.toNat ≥ 128
      · match rest, h with
        | b2 :: b3 :: r, h =>
          rw [parseHdr_cons4 _ _ _ _ _ h128] at h
          cases h
          have := b2.toNat_lt; have := b3.toNat_lt
          simp; omega
        | [b2], h => simp [parseHdr, h128] at h
        | [], h => simp [parseHdr, h128] at h
      · rw [parseHdr_cons2 _ _ _ (by omega)] at h
        cases h
        simp; omega

/-- every PDU handed up is a complete element, and the stream is their concatenation plus the rest -/
theorem extract_partition (b : Bytes) : (extract b).1.flatten ++ (extract b).2 = b := by
  induction b using extract.induct with
  | case1 b h0 => rw [extract_nil h0]; simp
  | case2 b h0 e hm => rw [extract_incomplete (by simpa using h0) hm]; simp
  | case3 b h0 hd hm n ps rest hrec ih =>
    rw [extract_complete (by simpa using h0) hm]
    simp only [List.flatten_cons, List.append_assoc]
    rw [ih]
    exact List.take_append_drop _ _

/-! ### the send loop over an arbitrary schedule -/
theorem getReq_setReq_at (s : State) (id : Nat) (f : Req → Req) (h : id < s.reqs.length) :
    (s.setReq id f).getReq id = f (s.getReq id) := by
  simp [State.getReq, State.setReq, List.getD_eq_getElem?_getD, h]

theorem setReq_conns (s : State) (id : Nat) (f : Req → Req) : (s.setReq id f).conns = s.conns := rfl
theorem setReq_reqs_length (s : State) (id : Nat) (f : Req → Req) : (s.setReq id f).reqs.length = s.reqs.length := by
  simp [State.setReq]

theorem logSent_reqs (s : State) (b : Bytes) : (logSent s b).reqs = s.reqs := by
  unfold logSent; split <;> rfl

theorem logSent_getReq (s : State) (b : Bytes) (id : Nat) : (logSent s b).getReq id = s.getReq id := by
  simp [State.getReq, logSent_reqs]

theorem logSent_flatten (s : State) (b : Bytes) : (logSent s b).conns.flatten = s.conns.flatten ++ b := by
  unfold logSent
  split
  · rename_i h; have : s.conns = [] := by simpa using h
    simp [this]
  · rename_i last before h
    have : s.conns = before.reverse ++ [last] := by
      have := congrArg List.reverse h; simpa using this
    simp [this]

/-- **The send loop writes one contiguous piece of the head request**, whatever the schedule of
partial sends and would-blocks: unless the connection is closed, the octets accepted by the
socket during the loop are exactly the next `k` unsent octets of the request, and its sent
count advances by `k`. -/
theorem sendLoop_contiguous : ∀ (fuel : Nat) (sends : List SendRes) (s : State) (id : Nat), id < s.reqs.length →
    (sendLoop fuel sends s id).2.2 ≠ .closed →
    ∃ k, ((sendLoop fuel sends s id).1.getReq id).sent = (s.getReq id).sent + k ∧
      ((sendLoop fuel sends s id).1.getReq id).raw = (s.getReq id).raw ∧
      (sendLoop fuel sends s id).1.conns.flatten =
        s.conns.flatten ++ ((s.getReq id).raw.drop (s.getReq id).sent).take k ∧
      (sendLoop fuel sends s id).1.reqs.length = s.reqs.length
  | 0, sends, s, id, _, _ => ⟨0, by simp [sendLoop]⟩
  | fuel + 1, sends, s, id, hid, hnc => by
    unfold sendLoop at hnc ⊢
    simp only at hnc ⊢
    split at hnc
    · rename_i hlt
      simp only [hlt, ↓reduceIte] at hnc ⊢
      -- one accepted send of `c` octets, then the rest of the loop
      have step : ∀ (c : Nat) (rest : List SendRes),
          (sendLoop fuel rest ((logSent s (((s.getReq id).raw.drop (s.getReq id).sent).take c)).setReq id
            fun q => { q with sent := q.sent + c }) id).2.2 ≠ .closed →
          ∃ k, ((sendLoop fuel rest ((logSent s (((s.getReq id).raw.drop (s.getReq id).sent).take c)).setReq id
              fun q => { q with sent := q.sent + c }) id).1.getReq id).sent = (s.getReq id).sent + k ∧
            ((sendLoop fuel rest ((logSent s (((s.getReq id).raw.drop (s.getReq id).sent).take c)).setReq id
              fun q => { q with sent := q.sent + c }) id).1.getReq id).raw = (s.getReq id).raw ∧
            (sendLoop fuel rest ((logSent s (((s.getReq id).raw.drop (s.getReq id).sent).take c)).setReq id
              fun q => { q with sent := q.sent + c }) id).1.conns.flatten =
              s.conns.flatten ++ ((s.getReq id).raw.drop (s.getReq id).sent).take k ∧
            (sendLoop fuel rest ((logSent s (((s.getReq id).raw.drop (s.getReq id).sent).take c)).setReq id
              fun q => { q with sent := q.sent + c }) id).1.reqs.length = s.reqs.length := by
        intro c rest hn
        have hid1 : id < ((logSent s (((s.getReq id).raw.drop (s.getReq id).sent).take c)).setReq id
            fun q => { q with sent := q.sent + c }).reqs.length := by
          rw [setReq_reqs_length, logSent_reqs]; exact hid
        have hid2 : id < (logSent s (((s.getReq id).raw.drop (s.getReq id).sent).take c)).reqs.length := by
          rw [logSent_reqs]; exact hid
        obtain ⟨k', h1, h2, h3, h4⟩ := sendLoop_contiguous fuel rest _ id hid1 hn
        rw [getReq_setReq_at _ _ _ hid2, logSent_getReq] at h1 h2 h3
        simp only at h1 h2 h3
        refine ⟨c + k', by rw [h1]; omega, h2, ?_, by rw [h4, setReq_reqs_length, logSent_reqs]⟩
        rw [h3, setReq_conns, logSent_flatten, List.append_assoc, List.take_add, List.drop_drop]
      cases sends with
      | nil => exact step _ [] hnc
      | cons x rest =>
        cases x with
        | wouldBlock => exact ⟨0, by simp⟩
        | error => simp at hnc
        | accept k => exact step _ rest hnc
    · rename_i hlt
      simp only [hlt, ↓reduceIte]
      exact ⟨0, by simp⟩

/-- with enough fuel (`sendHead` gives more than the octets still to send) the send loop ends
`done` only when the whole request has been accepted by the socket -/
theorem sendLoop_done_complete : ∀ (fuel : Nat) (sends : List SendRes) (s : State) (id : Nat), id < s.reqs.length →
    (s.getReq id).sent ≤ (s.getReq id).raw.length →
    (s.getReq id).raw.length - (s.getReq id).sent < fuel →
    (sendLoop fuel sends s id).2.2 = .done →
    ((sendLoop fuel sends s id).1.getReq id).sent = (s.getReq id).raw.length
  | 0, _, _, _, _, _, hf, _ => by omega
  | fuel + 1, sends, s, id, hid, hle, hf, hd => by
    unfold sendLoop at hd ⊢
    simp only at hd ⊢
    split at hd
    · rename_i hlt
      simp only [hlt, ↓reduceIte] at hd ⊢
      have step : ∀ (k : Nat) (rest : List SendRes),
          (sendLoop fuel rest ((logSent s (((s.getReq id).raw.drop (s.getReq id).sent).take
              (min (max k 1) ((s.getReq id).raw.length - (s.getReq id).sent)))).setReq id
            fun q => { q with sent := q.sent + min (max k 1) ((s.getReq id).raw.length - (s.getReq id).sent) }) id).2.2 = .done →
          ((sendLoop fuel rest ((logSent s (((s.getReq id).raw.drop (s.getReq id).sent).take
              (min (max k 1) ((s.getReq id).raw.length - (s.getReq id).sent)))).setReq id
            fun q => { q with sent := q.sent + min (max k 1) ((s.getReq id).raw.length - (s.getReq id).sent) }) id).1.getReq id).sent
            = (s.getReq id).raw.length := by
        intro k rest hdone
        have hid2 : id < (logSent s (((s.getReq id).raw.drop (s.getReq id).sent).take
            (min (max k 1) ((s.getReq id).raw.length - (s.getReq id).sent)))).reqs.length := by
          rw [logSent_reqs]; exact hid
        have hid1 : id < ((logSent s (((s.getReq id).raw.drop (s.getReq id).sent).take
            (min (max k 1) ((s.getReq id).raw.length - (s.getReq id).sent)))).setReq id
            fun q => { q with sent := q.sent + min (max k 1) ((s.getReq id).raw.length - (s.getReq id).sent) }).reqs.length := by
          rw [setReq_reqs_length]; exact hid2
        have hg := getReq_setReq_at (logSent s (((s.getReq id).raw.drop (s.getReq id).sent).take
            (min (max k 1) ((s.getReq id).raw.length - (s.getReq id).sent)))) id
            (fun q => { q with sent := q.sent + min (max k 1) ((s.getReq id).raw.length - (s.getReq id).sent) }) hid2
        rw [logSent_getReq] at hg
        have := sendLoop_done_complete fuel rest _ id hid1 (by rw [hg]; simp only; omega) (by rw [hg]; simp only; omega) hdone
        rw [this, hg]
      cases sends with
      | nil =>
        have := step ((s.getReq id).raw.length - (s.getReq id).sent) [] (by
          have e : min (max ((s.getReq id).raw.length - (s.getReq id).sent) 1) ((s.getReq id).raw.length - (s.getReq id).sent)
              = min (max ((s.getReq id).raw.length - (s.getReq id).sent) 1) ((s.getReq id).raw.length - (s.getReq id).sent) := rfl
          exact hd)
        exact this
      | cons x rest =>
        cases x with
        | wouldBlock => simp at hd
        | error => simp at hd
        | accept k => exact step k rest hd
    · rename_i hlt
      simp only [hlt, ↓reduceIte]
      omega

end KsiVerif.Tcp
