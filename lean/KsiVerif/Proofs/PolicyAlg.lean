import KsiVerif.Model.Policy
/-!
# Reading a concrete rule tree: when does a rule array come out OK, and with what otherwise
-/
namespace KsiVerif.Policy

def Run.isOk (x : Run) : Prop := x.status = 0 ∧ x.res = .ok
def Run.isNa (x : Run) : Prop := x.status = 0 ∧ x.res = .na

instance (x : Run) : Decidable x.isOk := by unfold Run.isOk; exact inferInstance
instance (x : Run) : Decidable x.isNa := by unfold Run.isNa; exact inferInstance

theorem stops_and_iff (r : Rule) (x : Run) (h : r.isOr = false) : stops r x = false ↔ x.isOk := by
  unfold stops Run.isOk
  rw [h]
  by_cases hs : x.status = 0
  · simp only [hs, ne_eq, not_true_eq_false, if_false, true_and]
    cases x.res <;> simp
  · simp [hs]

theorem stops_or_iff (r : Rule) (x : Run) (h : r.isOr = true) : stops r x = false ↔ x.isNa := by
  unfold stops Run.isNa
  rw [h]
  by_cases hs : x.status = 0
  · simp only [hs, ne_eq, not_true_eq_false, if_false, true_and]
    cases x.res <;> simp
  · simp [hs]

theorem isOk_trace (y : Run) (t : List Nat) : ({ y with trace := t } : Run).isOk ↔ y.isOk := Iff.rfl

/-- an array of AND-type elements comes out OK exactly when every element does -/
theorem evalList_and_ok (ρ : Nat → Outcome) : ∀ (rs : List Rule), rs ≠ [] → (∀ r ∈ rs, r.isOr = false) →
    ((evalList ρ rs).isOk ↔ ∀ r ∈ rs, (evalRule ρ r).isOk) := by
  intro rs
  induction rs with
  | nil => intro h; exact absurd rfl h
  | cons r rest ih =>
    intro _ hand
    cases rest with
    | nil => simp [evalList]
    | cons r' rest' =>
      have hr : r.isOr = false := hand r (by simp)
      simp only [evalList]
      by_cases hst : stops r (evalRule ρ r) = true
      · rw [if_pos hst]
        have hnot : ¬ (evalRule ρ r).isOk := fun hok => by
          have := (stops_and_iff r _ hr).mpr hok
          rw [this] at hst; cases hst
        constructor
        · intro h; exact absurd h hnot
        · intro h; exact absurd (h r (by simp)) hnot
      · rw [if_neg hst]
        have hok : (evalRule ρ r).isOk := (stops_and_iff r _ hr).mp (by simpa using hst)
        rw [isOk_trace]
        rw [ih (by simp) (fun x hx => hand x (by simp [hx]))]
        constructor
        · intro h x hx
          rcases List.mem_cons.mp hx with rfl | hx
          · exact hok
          · exact h x hx
        · intro h x hx; exact h x (by simp [hx])

/-- … and otherwise reports the first element that is not OK -/
theorem evalList_and_first_bad (ρ : Nat → Outcome) : ∀ (pre : List Rule) (r : Rule) (post : List Rule),
    (∀ q ∈ pre, q.isOr = false ∧ (evalRule ρ q).isOk) → r.isOr = false → ¬ (evalRule ρ r).isOk →
    (evalList ρ (pre ++ r :: post)).outcome = (evalRule ρ r).outcome := by
  intro pre
  induction pre with
  | nil =>
    intro r post _ hr hbad
    cases post with
    | nil => simp [evalList]
    | cons p ps =>
      simp only [List.nil_append, evalList]
      have : stops r (evalRule ρ r) = true := by
        cases h : stops r (evalRule ρ r) with
        | true => rfl
        | false => exact absurd ((stops_and_iff r _ hr).mp h) hbad
      rw [if_pos this]
  | cons q qs ih =>
    intro r post hpre hr hbad
    have hq := hpre q (by simp)
    have hns : stops q (evalRule ρ q) = false := (stops_and_iff q _ hq.1).mpr hq.2
    cases hqs : qs ++ r :: post with
    | nil => simp at hqs
    | cons a as =>
      simp only [List.cons_append, hqs, evalList, hns, Bool.false_eq_true, if_false]
      rw [← hqs]
      have := ih r post (fun x hx => hpre x (by simp [hx])) hr hbad
      simpa [Run.outcome] using this

/-- two alternatives: OK when the first is, or when the first is not applicable and the second is OK -/
theorem evalList_or2_ok (ρ : Nat → Outcome) (a b : Rule) (ha : a.isOr = true) :
    (evalList ρ [a, b]).isOk ↔ (evalRule ρ a).isOk ∨ ((evalRule ρ a).isNa ∧ (evalRule ρ b).isOk) := by
  simp only [evalList]
  by_cases hst : stops a (evalRule ρ a) = true
  · rw [if_pos hst]
    have hnna : ¬ (evalRule ρ a).isNa := fun h => by
      have := (stops_or_iff a _ ha).mpr h
      rw [this] at hst; cases hst
    constructor
    · intro h; exact Or.inl h
    · rintro (h | ⟨h, _⟩)
      · exact h
      · exact absurd h hnna
  · rw [if_neg hst]
    have hna : (evalRule ρ a).isNa := (stops_or_iff a _ ha).mp (by simpa using hst)
    rw [isOk_trace]
    constructor
    · intro h; exact Or.inr ⟨hna, h⟩
    · rintro (h | ⟨_, h⟩)
      · exact absurd h.2 (by rw [hna.2]; simp)
      · exact h

/-- two alternatives: what is reported when the first is not applicable -/
theorem evalList_or2_second (ρ : Nat → Outcome) (a b : Rule) (ha : a.isOr = true) (hna : (evalRule ρ a).isNa) :
    (evalList ρ [a, b]).outcome = (evalRule ρ b).outcome := by
  simp only [evalList]
  have : stops a (evalRule ρ a) = false := (stops_or_iff a _ ha).mpr hna
  rw [this]
  rfl

theorem evalList_or2_first (ρ : Nat → Outcome) (a b : Rule) (ha : a.isOr = true) (h : ¬ (evalRule ρ a).isNa) :
    (evalList ρ [a, b]).outcome = (evalRule ρ a).outcome := by
  simp only [evalList]
  have : stops a (evalRule ρ a) = true := by
    cases hs : stops a (evalRule ρ a) with
    | true => rfl
    | false => exact absurd ((stops_or_iff a _ ha).mp hs) h
  rw [this]
  rfl

theorem evalRule_and (ρ : Nat → Outcome) (rs : List Rule) : evalRule ρ (.and rs) = evalList ρ rs := by simp [evalRule]
theorem evalRule_or (ρ : Nat → Outcome) (rs : List Rule) : evalRule ρ (.or rs) = evalList ρ rs := by simp [evalRule]
theorem evalList_single (ρ : Nat → Outcome) (r : Rule) : evalList ρ [r] = evalRule ρ r := by simp [evalList]

theorem basic_isOk (ρ : Nat → Outcome) (id : Nat) : (evalRule ρ (.basic id)).isOk ↔ ((ρ id).status = 0 ∧ (ρ id).res = .ok) := by
  simp [evalRule, Run.isOk]
theorem basic_isNa (ρ : Nat → Outcome) (id : Nat) : (evalRule ρ (.basic id)).isNa ↔ ((ρ id).status = 0 ∧ (ρ id).res = .na) := by
  simp [evalRule, Run.isNa]
theorem basic_outcome (ρ : Nat → Outcome) (id : Nat) : (evalRule ρ (.basic id)).outcome = ρ id := by
  simp [evalRule, Run.outcome]

/-- a guarded pair: the first (AND-type) element not applicable makes the pair not applicable -/
theorem evalList_and2_na (ρ : Nat → Outcome) (a b : Rule) (ha : a.isOr = false) (hna : (evalRule ρ a).isNa) :
    (evalList ρ [a, b]).isNa := by
  simp only [evalList]
  have : stops a (evalRule ρ a) = true := by
    cases hs : stops a (evalRule ρ a) with
    | true => rfl
    | false =>
      have h2 := ((stops_and_iff a _ ha).mp hs).2
      rw [hna.2] at h2; cases h2
  rw [this]; exact hna

/-- index form of `evalList_and_first_bad` -/
theorem evalList_and_at (ρ : Nat → Outcome) (rs : List Rule) (k : Nat) (hk : k < rs.length)
    (hand : ∀ r ∈ rs, r.isOr = false)
    (hpre : ∀ i (hi : i < k), (evalRule ρ (rs[i]'(Nat.lt_trans hi hk))).isOk)
    (hbad : ¬ (evalRule ρ rs[k]).isOk) :
    (evalList ρ rs).outcome = (evalRule ρ rs[k]).outcome := by
  have hsplit : rs = rs.take k ++ rs[k] :: rs.drop (k + 1) := by
    rw [List.getElem_cons_drop, List.take_append_drop]
  have := evalList_and_first_bad ρ (rs.take k) rs[k] (rs.drop (k + 1))
    (by
      intro q hq
      obtain ⟨i, hi, rfl⟩ := List.mem_iff_getElem.mp hq
      have hik : i < k := by
        have := hi; simp only [List.length_take] at this; omega
      rw [List.getElem_take]
      exact ⟨hand _ (List.getElem_mem _), hpre i hik⟩)
    (hand _ (List.getElem_mem _)) hbad
  rw [← hsplit] at this
  exact this

/-! ### unfolding any rule array one element at a time -/

/-- an AND-type element in front: the array is OK exactly when it is and the rest is -/
theorem evalList_cons_and_ok (ρ : Nat → Outcome) (r : Rule) (r' : Rule) (rest : List Rule) (hr : r.isOr = false) :
    (evalList ρ (r :: r' :: rest)).isOk ↔ ((evalRule ρ r).isOk ∧ (evalList ρ (r' :: rest)).isOk) := by
  simp only [evalList]
  by_cases hst : stops r (evalRule ρ r) = true
  · rw [if_pos hst]
    have hnot : ¬ (evalRule ρ r).isOk := fun hok => by
      have := (stops_and_iff r _ hr).mpr hok
      rw [this] at hst; cases hst
    exact ⟨fun h => absurd h hnot, fun h => absurd h.1 hnot⟩
  · rw [if_neg hst]
    have hok : (evalRule ρ r).isOk := (stops_and_iff r _ hr).mp (by simpa using hst)
    rw [isOk_trace]
    exact ⟨fun h => ⟨hok, h⟩, fun h => h.2⟩

/-- an OR-type element in front: OK when it is, or when it is not applicable and the rest is OK -/
theorem evalList_cons_or_ok (ρ : Nat → Outcome) (r : Rule) (r' : Rule) (rest : List Rule) (hr : r.isOr = true) :
    (evalList ρ (r :: r' :: rest)).isOk ↔ ((evalRule ρ r).isOk ∨ ((evalRule ρ r).isNa ∧ (evalList ρ (r' :: rest)).isOk)) := by
  simp only [evalList]
  by_cases hst : stops r (evalRule ρ r) = true
  · rw [if_pos hst]
    have hnna : ¬ (evalRule ρ r).isNa := fun h => by
      have := (stops_or_iff r _ hr).mpr h
      rw [this] at hst; cases hst
    exact ⟨fun h => Or.inl h, fun h => h.elim id (fun h2 => absurd h2.1 hnna)⟩
  · rw [if_neg hst]
    have hna : (evalRule ρ r).isNa := (stops_or_iff r _ hr).mp (by simpa using hst)
    rw [isOk_trace]
    constructor
    · intro h; exact Or.inr ⟨hna, h⟩
    · rintro (h | ⟨_, h⟩)
      · exact absurd h.2 (by rw [hna.2]; simp)
      · exact h

/-- … and what the array reports, one element at a time: an AND-type element that is OK hands over to the rest -/
theorem evalList_cons_and_outcome (ρ : Nat → Outcome) (r r' : Rule) (rest : List Rule) (hr : r.isOr = false) (hok : (evalRule ρ r).isOk) :
    (evalList ρ (r :: r' :: rest)).outcome = (evalList ρ (r' :: rest)).outcome := by
  simp only [evalList]
  have : stops r (evalRule ρ r) = false := (stops_and_iff r _ hr).mpr hok
  rw [this]; rfl

/-- an OR-type element that is not applicable hands over to the rest; otherwise it decides -/
theorem evalList_cons_or_outcome_na (ρ : Nat → Outcome) (r r' : Rule) (rest : List Rule) (hr : r.isOr = true) (hna : (evalRule ρ r).isNa) :
    (evalList ρ (r :: r' :: rest)).outcome = (evalList ρ (r' :: rest)).outcome := by
  simp only [evalList]
  have : stops r (evalRule ρ r) = false := (stops_or_iff r _ hr).mpr hna
  rw [this]; rfl

theorem evalList_cons_or_outcome_decides (ρ : Nat → Outcome) (r r' : Rule) (rest : List Rule) (hr : r.isOr = true) (hna : ¬ (evalRule ρ r).isNa) :
    (evalList ρ (r :: r' :: rest)).outcome = (evalRule ρ r).outcome := by
  simp only [evalList]
  have : stops r (evalRule ρ r) = true := by
    cases hs : stops r (evalRule ρ r) with
    | true => rfl
    | false => exact absurd ((stops_or_iff r _ hr).mp hs) hna
  rw [this]; rfl

theorem isNa_of_outcome (x : Run) (o : Outcome) (h : x.outcome = o) : x.isNa ↔ (o.status = 0 ∧ o.res = .na) := by
  subst h; rfl

theorem isOk_of_outcome (x : Run) (o : Outcome) (h : x.outcome = o) : x.isOk ↔ (o.status = 0 ∧ o.res = .ok) := by
  subst h; rfl

/-! ### only the rules listed in a tree are consulted -/

mutual
theorem evalRule_congr (ρ σ : Nat → Outcome) : ∀ (r : Rule), (∀ id ∈ r.dfs, ρ id = σ id) → evalRule ρ r = evalRule σ r
  | .basic id => by
    intro h
    have := h id (by simp [Rule.dfs])
    simp [evalRule, this]
  | .and rs => by
    intro h
    rw [evalRule_and, evalRule_and]
    exact evalList_congr ρ σ rs (by simpa [Rule.dfs] using h)
  | .or rs => by
    intro h
    rw [evalRule_or, evalRule_or]
    exact evalList_congr ρ σ rs (by simpa [Rule.dfs] using h)
theorem evalList_congr (ρ σ : Nat → Outcome) : ∀ (rs : List Rule), (∀ id ∈ dfsList rs, ρ id = σ id) → evalList ρ rs = evalList σ rs
  | [] => by intro _; simp [evalList]
  | [r] => by
    intro h
    rw [evalList_single, evalList_single]
    exact evalRule_congr ρ σ r (by intro id hid; exact h id (by simp [dfsList, hid]))
  | r :: r' :: rest => by
    intro h
    have h1 : evalRule ρ r = evalRule σ r := evalRule_congr ρ σ r (by intro id hid; exact h id (by simp [dfsList, hid]))
    have h2 : evalList ρ (r' :: rest) = evalList σ (r' :: rest) :=
      evalList_congr ρ σ (r' :: rest) (by intro id hid; exact h id (by rw [dfsList]; exact List.mem_append_right _ hid))
    simp only [evalList, h1, h2]
end

/-- an AND-type first element gates the whole array: OK needs it OK -/
theorem evalList_head_ok (ρ : Nat → Outcome) (r : Rule) (rest : List Rule) (hr : r.isOr = false)
    (h : (evalList ρ (r :: rest)).isOk) : (evalRule ρ r).isOk := by
  cases rest with
  | nil => simpa [evalList] using h
  | cons r' rest' =>
    simp only [evalList] at h
    by_cases hst : stops r (evalRule ρ r) = true
    · rw [if_pos hst] at h; exact h
    · exact (stops_and_iff r _ hr).mp (by simpa using hst)

/-- … and when it is not OK, its outcome is the array's outcome -/
theorem evalList_head_bad (ρ : Nat → Outcome) (r : Rule) (rest : List Rule) (hr : r.isOr = false)
    (h : ¬ (evalRule ρ r).isOk) : (evalList ρ (r :: rest)).outcome = (evalRule ρ r).outcome :=
  evalList_and_first_bad ρ [] r rest (by simp) hr h

/-- status and final result of a single policy without fallback, as a function of its rule array's outcome -/
theorem verify_single_of_outcome (ρ σ : Nat → Outcome) (rs ts : List Rule) (h : (evalList ρ rs).outcome = (evalList σ ts).outcome) :
    (verify ρ [some rs]).status = (verify σ [some ts]).status ∧ (verify ρ [some rs]).final = (verify σ [some ts]).final := by
  have hs : (evalList ρ rs).status = (evalList σ ts).status := congrArg Outcome.status h
  have hr : (evalList ρ rs).res = (evalList σ ts).res := congrArg Outcome.res h
  have he : (evalList ρ rs).err = (evalList σ ts).err := congrArg Outcome.err h
  simp only [verify, hs, hr, he]
  by_cases h0 : (evalList σ ts).status = 0
  · by_cases h1 : (evalList σ ts).res = .ok <;> simp [h0, h1]
  · simp [h0]

theorem verify_single_ok (ρ : Nat → Outcome) (rs : List Rule) :
    ((verify ρ [some rs]).status = 0 ∧ ∃ e, (verify ρ [some rs]).final = some (.ok, e)) ↔ (evalList ρ rs).isOk := by
  simp only [verify]
  by_cases hs : (evalList ρ rs).status = 0
  · simp only [hs, ne_eq, not_true_eq_false, if_false]
    by_cases hr : (evalList ρ rs).res = .ok
    · simp [hr, hs, Run.isOk]
    · simp only [hr, if_false, true_and, Run.isOk, hs, and_false, iff_false, not_exists]
      intro e h
      simp only [Option.some.injEq, Prod.mk.injEq] at h
      exact hr h.1
  · simp [hs, Run.isOk]

/-- a single policy without fallback: the verdict is the outcome of its rule array -/
theorem verify_single_outcome (ρ : Nat → Outcome) (rs : List Rule) (h : (evalList ρ rs).status = 0) :
    (verify ρ [some rs]).status = 0 ∧ (verify ρ [some rs]).final = some ((evalList ρ rs).res, (evalList ρ rs).err) := by
  simp only [verify, h, ne_eq, not_true_eq_false, if_false]
  by_cases hr : (evalList ρ rs).res = .ok <;> simp [hr]

theorem verify_single_error (ρ : Nat → Outcome) (rs : List Rule) (h : (evalList ρ rs).status ≠ 0) :
    (verify ρ [some rs]).status = (evalList ρ rs).status ∧ (verify ρ [some rs]).final = none := by
  simp [verify, h]

end KsiVerif.Policy
