import KsiVerif.Model.PubFile
import KsiVerif.Proofs.Template
import KsiVerif.Proofs.TlvParse
/-! # The publications-file reader as a schema check over the record sequence -/
namespace KsiVerif.PubFile
open KsiVerif KsiVerif.Tlv KsiVerif.Template KsiVerif.Verify

theorem memRead_len {b : Bytes} {h : Hdr} (hm : memRead b = .ok h) : h.hdrLen + h.datLen ≤ b.length := by
  unfold memRead at hm
  split at hm
  · cases hm
  · split at hm
    · cases hm
    · cases hm; omega

theorem memRead_take {b : Bytes} {h : Hdr} (hm : memRead b = .ok h) : memRead (b.take (h.hdrLen + h.datLen)) = .ok h := by
  have hlen := memRead_len hm
  have hp : parseHdr b = .ok h := by
    unfold memRead at hm
    split at hm
    · cases hm
    · rename_i h' hp'
      split at hm
      · cases hm
      · cases hm; exact hp'
  have := TlvProofs.parseHdr_take hp (k := h.hdrLen + h.datLen) (by omega)
  unfold memRead
  rw [this]
  simp [Nat.min_eq_left hlen]

/-- the reader of publicationsfile.c (`generateNextTlv` feeding `extractGenerator`) succeeds exactly when the octets
split into records, no record follows a signature record, and the template engine accepts the record sequence;
the remembered offset is that of the signature record -/
theorem pubRun_spec (tm : List Entry) (pv : Entry → Elem → Except Nat Val) :
    ∀ (fuel : Nat) (s : St) (b : Bytes) (hasSig : Bool) (off sigOff : Nat) (s' : St) (so : Nat),
      pubRun tm pv fuel s b hasSig off sigOff = .ok (s', so) ↔
        ∃ recs, splitRecords fuel b = .ok recs ∧ (hasSig = true → recs = []) ∧ sigLast recs = true ∧
          run tm pv s (recs.map (·.el)) = .ok s' ∧ so = sigOffOf off sigOff recs := by
  intro fuel
  induction fuel with
  | zero =>
    intro s b hasSig off sigOff s' so
    simp [pubRun, splitRecords]
  | succ fuel ih =>
    intro s b hasSig off sigOff s' so
    unfold pubRun splitRecords
    by_cases hb : b.isEmpty = true
    · simp only [hb, if_true]
      constructor
      · intro h; cases h; exact ⟨[], rfl, fun _ => rfl, rfl, rfl, rfl⟩
      · rintro ⟨recs, h1, _, _, h4, h5⟩
        cases h1
        simp only [List.map_nil, run] at h4
        cases h4
        simp only [sigOffOf] at h5
        rw [h5]
    · simp only [hb, Bool.false_eq_true, if_false]
      cases hm : memRead b with
      | error e => simp
      | ok h =>
        simp only
        have hlen := memRead_len hm
        by_cases hs : hasSig = true
        · simp only [hs, if_true]
          constructor
          · intro x; cases x
          · rintro ⟨recs, h1, h2, _⟩
            have := h2 trivial
            rw [this] at h1
            cases hsp : splitRecords fuel (b.drop (h.hdrLen + h.datLen)) <;> simp [hsp] at h1
        · simp only [hs, Bool.false_eq_true, if_false, false_implies, true_and]
          cases hst : step tm pv s ⟨h.tag, h.nc, h.fwd, (b.drop h.hdrLen).take h.datLen⟩ with
          | error c =>
            simp only
            constructor
            · intro x; cases x
            · rintro ⟨recs, h1, _, h4, _⟩
              cases hsp : splitRecords fuel (b.drop (h.hdrLen + h.datLen)) with
              | error e => simp [hsp] at h1
              | ok rs =>
                simp only [hsp, Except.ok.injEq] at h1
                rw [← h1] at h4
                simp only [List.map_cons, run, hst] at h4
                cases h4
          | ok s1 =>
            simp only
            rw [ih]
            constructor
            · rintro ⟨rs, h1, h2, h3, h4, h5⟩
              refine ⟨_ :: rs, by rw [h1], ?_, ?_, ?_⟩
              · simp only [sigLast]
                by_cases ht : h.tag = 0x704
                · simp only [ht, if_true]
                  have := h2 (by simp [ht])
                  rw [this]; rfl
                · simp only [ht, if_false]; exact h3
              · simp only [List.map_cons, run, hst]; exact h4
              · simp only [sigOffOf, List.length_take, Nat.min_eq_left hlen]
                rw [h5]
            · rintro ⟨recs, h1, h3, h4, h5⟩
              cases hsp : splitRecords fuel (b.drop (h.hdrLen + h.datLen)) with
              | error e => simp [hsp] at h1
              | ok rs =>
                simp only [hsp, Except.ok.injEq] at h1
                rw [← h1] at h3 h4 h5
                refine ⟨rs, rfl, ?_, ?_, ?_, ?_⟩
                · intro ht
                  have ht' : h.tag = 0x704 := by simpa using ht
                  simp only [sigLast, ht', if_true] at h3
                  simpa using h3
                · simp only [sigLast] at h3
                  by_cases ht : h.tag = 0x704
                  · simp only [ht, if_true] at h3
                    have : rs = [] := by simpa using h3
                    rw [this]; rfl
                  · simp only [ht, if_false] at h3; exact h3
                · simp only [List.map_cons, run, hst] at h4; exact h4
                · simp only [sigOffOf, List.length_take, Nat.min_eq_left hlen] at h5
                  rw [h5]

/-- the records tile the octets: nothing is skipped, nothing overlaps -/
theorem split_concat : ∀ (fuel : Nat) (b : Bytes) (recs : List Rec),
    splitRecords fuel b = .ok recs → b = (recs.map (·.raw)).flatten := by
  intro fuel
  induction fuel with
  | zero => intro b recs h; simp [splitRecords] at h
  | succ fuel ih =>
    intro b recs h
    unfold splitRecords at h
    by_cases hb : b.isEmpty = true
    · simp only [hb, if_true] at h
      cases h
      simpa using hb
    · simp only [hb, Bool.false_eq_true, if_false] at h
      cases hm : memRead b with
      | error e => simp [hm] at h
      | ok hd =>
        simp only [hm] at h
        cases hsp : splitRecords fuel (b.drop (hd.hdrLen + hd.datLen)) with
        | error e => simp [hsp] at h
        | ok rs =>
          simp only [hsp, Except.ok.injEq] at h
          rw [← h]
          simp only [List.map_cons, List.flatten_cons]
          rw [← ih _ _ hsp, List.take_append_drop]

/-- every record is one TLV: its octets start with the header the fast reader saw, and the element carries its tag -/
theorem split_records_are_tlvs : ∀ (fuel : Nat) (b : Bytes) (recs : List Rec),
    splitRecords fuel b = .ok recs → ∀ r ∈ recs, ∃ hd, memRead r.raw = .ok hd ∧ hd.tag = r.el.tag ∧ r.raw.length = hd.hdrLen + hd.datLen := by
  intro fuel
  induction fuel with
  | zero => intro b recs h; simp [splitRecords] at h
  | succ fuel ih =>
    intro b recs h
    unfold splitRecords at h
    by_cases hb : b.isEmpty = true
    · simp only [hb, if_true] at h; cases h; intro r hr; cases hr
    · simp only [hb, Bool.false_eq_true, if_false] at h
      cases hm : memRead b with
      | error e => simp [hm] at h
      | ok hd =>
        simp only [hm] at h
        cases hsp : splitRecords fuel (b.drop (hd.hdrLen + hd.datLen)) with
        | error e => simp [hsp] at h
        | ok rs =>
          simp only [hsp, Except.ok.injEq] at h
          rw [← h]
          intro r hr
          rcases List.mem_cons.mp hr with rfl | hr
          · have hlen := memRead_len hm
            refine ⟨hd, ?_, rfl, by simp [Nat.min_eq_left hlen]⟩
            exact memRead_take hm
          · exact ih _ _ hsp r hr

theorem sigLast_split : ∀ (recs : List Rec) (r : Rec), sigLast recs = true → r ∈ recs → r.el.tag = 0x704 →
    ∃ pre, recs = pre ++ [r] ∧ ∀ q ∈ pre, q.el.tag ≠ 0x704 := by
  intro recs
  induction recs with
  | nil => intro r _ h; cases h
  | cons a as ih =>
    intro r hs hr ht
    simp only [sigLast] at hs
    by_cases ha : a.el.tag = 0x704
    · simp only [ha, if_true] at hs
      have : as = [] := by simpa using hs
      subst this
      have : r = a := by simpa using hr
      subst this
      exact ⟨[], rfl, by intro q hq; cases hq⟩
    · simp only [ha, if_false] at hs
      rcases List.mem_cons.mp hr with rfl | hr
      · exact absurd ht ha
      · obtain ⟨pre, h1, h2⟩ := ih r hs hr ht
        refine ⟨a :: pre, by rw [h1]; rfl, ?_⟩
        intro q hq
        rcases List.mem_cons.mp hq with rfl | hq
        · exact ha
        · exact h2 q hq

theorem sigOffOf_spec : ∀ (pre : List Rec) (last : Rec) (off so : Nat), (∀ q ∈ pre, q.el.tag ≠ 0x704) → last.el.tag = 0x704 →
    sigOffOf off so (pre ++ [last]) = off + ((pre.map (·.raw)).flatten).length := by
  intro pre
  induction pre with
  | nil => intro last off so _ hl; simp [sigOffOf, hl]
  | cons a as ih =>
    intro last off so hp hl
    have ha : a.el.tag ≠ 0x704 := hp a (by simp)
    simp only [List.cons_append, sigOffOf, ha, if_false]
    rw [ih last _ _ (fun q hq => hp q (by simp [hq])) hl]
    simp only [List.map_cons, List.flatten_cons, List.length_append]
    omega

end KsiVerif.PubFile
