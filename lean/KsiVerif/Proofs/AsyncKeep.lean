import KsiVerif.Proofs.Async
import KsiVerif.Proofs.TcpLen
/-! Lemmas for the conservation theorem of C13 ("a request is never lost"): what a run leaves alone besides the slots (cache
size, allocation cursor), the shape invariant `W` of the cache, and membership facts about `List.set` on a slot list. -/
namespace KsiVerif.Async
open KsiVerif KsiVerif.Tcp

/-- cache size and allocation cursor are the same -/
def Keep (a b : State) : Prop := a.size = b.size ∧ a.requestCount = b.requestCount

theorem Keep.refl (a : State) : Keep a a := ⟨rfl, rfl⟩
theorem Keep.trans {a b c : State} (h1 : Keep a b) (h2 : Keep b c) : Keep a c := ⟨h1.1.trans h2.1, h1.2.trans h2.2⟩

theorem failWaiting_keep (s : State) (e : Nat) : Keep (failWaiting s e) s := ⟨rfl, rfl⟩

theorem handleResp_keep (s : State) (id st : Nat) : Keep (handleResp s id st) s := by
  unfold handleResp
  simp only
  split
  · exact Keep.refl s
  · split
    · exact Keep.refl s
    · split
      · exact Keep.refl s
      · split
        · exact Keep.refl s
        · split <;> exact ⟨rfl, rfl⟩

theorem processQueue_keep (interp : Bytes → Pdu) : ∀ (fuel : Nat) (s : State) (e : Option Nat),
    Keep (processQueue interp fuel s e).1 s
  | 0, s, e => Keep.refl s
  | fuel + 1, s, e => by
    unfold processQueue
    cases hq : s.tcp.respQueue with
    | nil =>
      simp only
      cases e with
      | none => exact Keep.refl s
      | some st => exact failWaiting_keep s _
    | cons p rest =>
      simp only
      have h1 : Keep { s with tcp := { s.tcp with respQueue := rest } } s := ⟨rfl, rfl⟩
      cases interp p with
      | bad err => exact h1
      | errPdu st => exact (processQueue_keep interp fuel _ _).trans h1
      | conf =>
        simp only
        refine (processQueue_keep interp fuel _ _).trans ?_
        split
        · exact h1
        · exact ⟨rfl, rfl⟩
      | resp id st =>
        exact (processQueue_keep interp fuel _ _).trans ((handleResp_keep _ id st).trans h1)

theorem finalize_keep (s s' : State) (rcvT now h : Nat) (r : Returned) (hf : finalize s rcvT now h = some (s', r)) : Keep s' s := by
  unfold finalize at hf
  simp only at hf
  split at hf
  · split at hf
    · cases hf; exact ⟨rfl, rfl⟩
    · cases hf
  · cases hf; exact ⟨rfl, rfl⟩
  · cases hf; exact ⟨rfl, rfl⟩
  · cases hf

theorem scan_keep (rcvT now : Nat) : ∀ (fuel : Nat) (s : State) (last : Nat), Keep (scan rcvT now fuel s last).1 s
  | 0, s, last => Keep.refl s
  | fuel + 1, s, last => by
    unfold scan
    cases hh : here s rcvT now with
    | some pr =>
      obtain ⟨s1, r1⟩ := pr
      simp only
      unfold here at hh
      cases hs : s.slots.getD s.tail none with
      | none => rw [hs] at hh; cases hh
      | some h0 =>
        rw [hs] at hh
        have := finalize_keep s s1 rcvT now h0 r1 hh
        exact ⟨this.1, this.2⟩
    | none =>
      simp only
      by_cases ht : (advance s).tail = last
      · simp only [ht, ↓reduceIte]; exact ⟨rfl, rfl⟩
      · simp only [ht, ↓reduceIte]
        exact (scan_keep rcvT now fuel (advance s) last).trans ⟨rfl, rfl⟩

theorem findNext_keep (s : State) (rcvT now : Nat) : Keep (findNext s rcvT now).1 s := by
  unfold findNext
  split
  · exact Keep.refl s
  · split
    · exact ⟨rfl, rfl⟩
    · exact scan_keep rcvT now _ s s.tail

theorem run_prefix_keep (interp : Bytes → Pdu) (o : Tcp.Opts) (e : Tcp.Env) (s : Async.State) :
    ∃ s1, Same s1 s ∧ Keep s1 s ∧ ∀ rcvT, run interp o rcvT e s = findNext s1 rcvT e.now := by
  unfold run
  have hd := dispatch_len o e s.tcp
  generalize Tcp.dispatch o e s.tcp = dr at hd
  obtain ⟨tcp, rc⟩ := dr
  simp only at hd ⊢
  have h0 : Same { s with tcp := tcp } s := ⟨rfl, rfl, hd⟩
  have k0 : Keep { s with tcp := tcp } s := ⟨rfl, rfl⟩
  have h1 : Same (if (!decide (rc = CONNECTION_CLOSED) ∧ rc ≠ 0) then failWaiting { s with tcp := tcp } rc else { s with tcp := tcp }) s ∧
      Keep (if (!decide (rc = CONNECTION_CLOSED) ∧ rc ≠ 0) then failWaiting { s with tcp := tcp } rc else { s with tcp := tcp }) s := by
    split
    · exact ⟨(failWaiting_same _ _).trans h0, (failWaiting_keep _ _).trans k0⟩
    · exact ⟨h0, k0⟩
  generalize (if (!decide (rc = CONNECTION_CLOSED) ∧ rc ≠ 0) then failWaiting { s with tcp := tcp } rc else { s with tcp := tcp }) = sa at h1
  have h2 := processQueue_same interp (sa.tcp.respQueue.length + 1) sa none
  have k2 := processQueue_keep interp (sa.tcp.respQueue.length + 1) sa none
  generalize processQueue interp (sa.tcp.respQueue.length + 1) sa none = pq at h2 k2
  obtain ⟨sb, hr⟩ := pq
  simp only at h2 k2 ⊢
  have h3 : Same (if hr ≠ 0 then failWaiting sb hr else sb) s ∧ Keep (if hr ≠ 0 then failWaiting sb hr else sb) s := by
    split
    · exact ⟨(failWaiting_same _ _).trans (h2.trans h1.1), (failWaiting_keep _ _).trans (k2.trans h1.2)⟩
    · exact ⟨h2.trans h1.1, k2.trans h1.2⟩
  generalize (if hr ≠ 0 then failWaiting sb hr else sb) = sc at h3
  have h4 : Same (if decide (rc = CONNECTION_CLOSED) = true then failWaiting sc CONNECTION_CLOSED else sc) s ∧
      Keep (if decide (rc = CONNECTION_CLOSED) = true then failWaiting sc CONNECTION_CLOSED else sc) s := by
    split
    · exact ⟨(failWaiting_same _ _).trans h3.1, (failWaiting_keep _ _).trans h3.2⟩
    · exact h3
  exact ⟨_, h4.1, h4.2, fun _ => by simp⟩

/-! ### the cache's shape -/

/-- one slot per index below `size`; the allocation cursor inside; room for at least one request -/
def W (s : State) : Prop := s.slots.length = s.size ∧ s.requestCount < s.size ∧ 2 ≤ s.size

theorem bump_W (a : State) (hw : W a) : W (bump a) ∧ (bump a).slots = a.slots ∧ (bump a).tcp = a.tcp := by
  obtain ⟨h1, h2, h3⟩ := hw
  unfold bump
  split
  · exact ⟨⟨h1, by show 1 < a.size; omega, h3⟩, rfl, rfl⟩
  · next hne => exact ⟨⟨h1, by show a.requestCount + 1 < a.size; omega, h3⟩, rfl, rfl⟩

theorem calcId_W : ∀ (fuel : Nat) (a b : State) (sl : Nat), calcId fuel a = some (b, sl) → W a →
    W b ∧ b.slots = a.slots ∧ b.tcp = a.tcp ∧ a.slots.getD sl none = none ∧ sl < a.slots.length
  | 0, a, b, sl, h, _ => by simp [calcId] at h
  | f + 1, a, b, sl, h, hw => by
    unfold calcId at h
    have ⟨hwb, hs, ht⟩ := bump_W a hw
    by_cases hfull : a.size = a.pending + a.received + 1
    · simp [hfull] at h
    · simp only [hfull, ↓reduceIte] at h
      by_cases hocc : ((bump a).slots.getD (bump a).requestCount none).isSome = true
      · simp only [hocc, ↓reduceIte] at h
        have ⟨i1, i2, i3, i4, i5⟩ := calcId_W f _ b sl h hwb
        exact ⟨i1, i2.trans hs, i3.trans ht, by rw [← hs]; exact i4, by rw [← hs]; exact i5⟩
      · simp only [hocc, Bool.false_eq_true, ↓reduceIte, Option.some.injEq, Prod.mk.injEq] at h
        obtain ⟨e1, e2⟩ := h
        subst e1 e2
        refine ⟨hwb, hs, ht, ?_, ?_⟩
        · rw [← hs]
          cases hh : (bump a).slots.getD (bump a).requestCount none with
          | none => rfl
          | some x => rw [hh] at hocc; simp at hocc
        · rw [← hs, hwb.1]; exact hwb.2.1

/-- an accepted request goes into a free slot *that exists*, under a fresh handle -/
theorem add_spec_W (s : State) (now : Nat) (hw : W s) :
    ((add s now).2.1 = CACHE_FULL ∧ (add s now).1 = s) ∨
    ((add s now).2.1 = 0 ∧ W (add s now).1 ∧ ∃ slot, slot < s.slots.length ∧ s.slots.getD slot none = none ∧
      (add s now).1.slots = s.slots.set slot (some s.tcp.reqs.length) ∧
      (add s now).1.tcp.reqs.length = s.tcp.reqs.length + 1) := by
  unfold add
  cases hc : calcId (s.size + 1) s with
  | none => left; exact ⟨rfl, rfl⟩
  | some pr =>
    obtain ⟨s1, slot⟩ := pr
    right
    have ⟨w1, k1, k2, k3, k4⟩ := calcId_W _ s s1 slot hc hw
    refine ⟨rfl, ?_, slot, k4, k3, by simp [k1, k2], by simp [k2, Tcp.enqueue]⟩
    obtain ⟨a1, a2, a3⟩ := w1
    exact ⟨by simp [a1], a2, a3⟩

/-! ### membership in the occupied slots after `set` -/

theorem mem_set_some_self : ∀ (l : List (Option Nat)) (i x : Nat), i < l.length → x ∈ (l.set i (some x)).filterMap id
  | [], _, _, h => by simp at h
  | _ :: as, 0, x, _ => by simp
  | a :: as, i + 1, x, h => by
    simp only [List.length_cons, Nat.add_lt_add_iff_right] at h
    have := mem_set_some_self as i x h
    simp only [List.set_cons_succ, List.filterMap_cons, id]
    cases a with
    | none => exact this
    | some v => exact List.mem_cons_of_mem _ this

theorem mem_set_some_of_mem : ∀ (l : List (Option Nat)) (i x h : Nat), l.getD i none = none → h ∈ l.filterMap id →
    h ∈ (l.set i (some x)).filterMap id
  | [], _, _, _, _, hm => by simp at hm
  | a :: as, 0, x, h, hg, hm => by
    simp only [List.getD_cons_zero] at hg
    subst hg
    simp only [List.filterMap_cons, id] at hm
    simp only [List.set_cons_zero, List.filterMap_cons, id]
    exact List.mem_cons_of_mem _ hm
  | a :: as, i + 1, x, h, hg, hm => by
    simp only [List.getD_cons_succ] at hg
    simp only [List.set_cons_succ, List.filterMap_cons, id] at hm ⊢
    cases a with
    | none => exact mem_set_some_of_mem as i x h hg hm
    | some v =>
      rcases List.mem_cons.mp hm with rfl | hm
      · exact List.mem_cons_self ..
      · exact List.mem_cons_of_mem _ (mem_set_some_of_mem as i x h hg hm)

/-- emptying a slot removes at most the handle that sat in it -/
theorem mem_set_none_or : ∀ (l : List (Option Nat)) (i h : Nat), h ∈ l.filterMap id →
    h ∈ (l.set i none).filterMap id ∨ l.getD i none = some h
  | [], _, _, hm => by simp at hm
  | a :: as, 0, h, hm => by
    simp only [List.set_cons_zero, List.filterMap_cons, id, List.getD_cons_zero] at hm ⊢
    cases a with
    | none => left; exact hm
    | some v =>
      rcases List.mem_cons.mp hm with rfl | hm
      · right; rfl
      · left; exact hm
  | a :: as, i + 1, h, hm => by
    simp only [List.set_cons_succ, List.filterMap_cons, id, List.getD_cons_succ] at hm ⊢
    cases a with
    | none => exact mem_set_none_or as i h hm
    | some v =>
      rcases List.mem_cons.mp hm with rfl | hm
      · left; exact List.mem_cons_self ..
      · rcases mem_set_none_or as i h hm with h1 | h1
        · left; exact List.mem_cons_of_mem _ h1
        · right; exact h1

end KsiVerif.Async
